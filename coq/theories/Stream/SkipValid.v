(* C17 - the fast skipper frames every VALID object / array / string / literal exactly where the reference
   scanner (Json1.vscan) ends it.  Proof by simulation of the push-down scanner by the bracket counter / string
   scanner of skip_one_fast (the idea of b-c02's Json/FastProofs.tr_all, here between the two automata of C17). *)
From Coq Require Import NArith List Bool Arith Lia.
From SV.Stream Require Import Skip SkipProofs Json1.
Import ListNotations.
Local Open Scope N_scope.

(* ---- character classes *)
Lemma is_space_cases : forall c, is_space c = true -> c = 32 \/ c = 9 \/ c = 10 \/ c = 13.
Proof. intros c H. unfold is_space in H. rewrite !orb_true_iff, !N.eqb_eq in H. tauto. Qed.
Lemma is_digit_range : forall c, is_digit c = true -> 48 <= c <= 57.
Proof. intros c H. unfold is_digit in H. rewrite andb_true_iff, !N.leb_le in H. lia. Qed.
Lemma is_hex_range : forall c, is_hex c = true -> (48 <= c <= 57) \/ (65 <= c <= 70) \/ (97 <= c <= 102).
Proof.
  intros c H. unfold is_hex, is_digit in H. rewrite !orb_true_iff, !andb_true_iff, !N.leb_le in H. lia.
Qed.
Lemma is_e_cases : forall c, is_e c = true -> c = 101 \/ c = 69.
Proof. intros c H. unfold is_e in H. rewrite orb_true_iff, !N.eqb_eq in H. tauto. Qed.

(* turn every boolean fact about the byte c into (in)equalities *)
Ltac facts :=
  repeat match goal with
         | H : N.eqb _ _ = true |- _ => apply N.eqb_eq in H
         | H : N.eqb _ _ = false |- _ => apply N.eqb_neq in H
         | H : is_space _ = true |- _ => apply is_space_cases in H
         | H : is_digit _ = true |- _ => apply is_digit_range in H
         | H : is_hex _ = true |- _ => apply is_hex_range in H
         | H : is_e _ = true |- _ => apply is_e_cases in H
         | H : (_ || _)%bool = true |- _ => apply orb_true_iff in H
         | H : (_ || _)%bool = false |- _ => apply orb_false_iff in H; destruct H
         | H : (_ && _)%bool = true |- _ => apply andb_true_iff in H; destruct H
         end.

(* ---- one step of the bracket counter, by class of byte *)
Section Cscan.
Variables lc rc : N.
Hypothesis kinds : (lc = 91 /\ rc = 93) \/ (lc = 123 /\ rc = 125).

Lemma cs_plain : forall c d l j, c <> 34 -> c <> 92 -> c <> lc -> c <> rc ->
  cscan lc rc false false d (c :: l) j = cscan lc rc false false d l (S j).
Proof.
  intros c d l j A B C D. cbn [cscan].
  rewrite (proj2 (N.eqb_neq c 34) A), (proj2 (N.eqb_neq c 92) B), (proj2 (N.eqb_neq c lc) C), (proj2 (N.eqb_neq c rc) D).
  reflexivity.
Qed.
Lemma cs_quote : forall d l j, cscan lc rc false false d (34 :: l) j = cscan lc rc true false d l (S j).
Proof. intros. cbn [cscan]. reflexivity. Qed.
Lemma cs_open : forall d l j, cscan lc rc false false d (lc :: l) j = cscan lc rc false false (S d) l (S j).
Proof.
  intros. cbn [cscan]. rewrite N.eqb_refl.
  destruct kinds as [[-> ->]|[-> ->]]; reflexivity.
Qed.
Lemma cs_close_S : forall d l j, cscan lc rc false false (S d) (rc :: l) j = cscan lc rc false false d l (S j).
Proof. intros. cbn [cscan]. destruct kinds as [[-> ->]|[-> ->]]; reflexivity. Qed.
Lemma cs_close_0 : forall l j, cscan lc rc false false 0 (rc :: l) j = Some (S j).
Proof. intros. cbn [cscan]. destruct kinds as [[-> ->]|[-> ->]]; reflexivity. Qed.
Lemma cs_str_plain : forall c d l j, c <> 34 -> c <> 92 ->
  cscan lc rc true false d (c :: l) j = cscan lc rc true false d l (S j).
Proof.
  intros c d l j A B. cbn [cscan]. rewrite (proj2 (N.eqb_neq c 34) A), (proj2 (N.eqb_neq c 92) B). reflexivity.
Qed.
Lemma cs_str_bs : forall d l j, cscan lc rc true false d (92 :: l) j = cscan lc rc true true d l (S j).
Proof. intros. cbn [cscan]. reflexivity. Qed.
Lemma cs_str_quote : forall d l j, cscan lc rc true false d (34 :: l) j = cscan lc rc false false d l (S j).
Proof. intros. cbn [cscan]. reflexivity. Qed.
Lemma cs_str_esc : forall c d l j, cscan lc rc true true d (c :: l) j = cscan lc rc true false d l (S j).
Proof.
  intros. cbn [cscan]. rewrite andb_false_r. cbn [negb]. rewrite andb_false_r. reflexivity.
Qed.
End Cscan.

(* ---- the simulation: scanner state  ~  (inq, esc, depth) of the bracket counter for a top-level container of
   kind K (true = object, false = array) *)
Definition in_str (m : mode) : bool := match m with MStr _ | MStrEsc _ | MStrU _ _ => true | _ => false end.
Definition in_esc (m : mode) : bool := match m with MStrEsc _ => true | _ => false end.

Fixpoint kcount (K : bool) (stk : list bool) : nat :=
  match stk with
  | [] => 0
  | b :: t => (if Bool.eqb b K then 1 else 0) + kcount K t
  end.

Definition lcK (K : bool) : N := if K then 123 else 91.
Definition rcK (K : bool) : N := if K then 125 else 93.

Lemma kinds_K : forall K, (lcK K = 91 /\ rcK K = 93) \/ (lcK K = 123 /\ rcK K = 125).
Proof. intros []; simpl; auto. Qed.

Definition top_ok (m : mode) (stk : list bool) : Prop :=
  match m with
  | MValOrClose => exists t, stk = false :: t
  | MKeyOrClose => exists t, stk = true :: t
  | MLit r => Forall (fun x => 97 <= x <= 122) r
  | _ => True
  end.

Definition bottom (K : bool) (stk : list bool) : Prop := exists up, stk = up ++ [K].

Lemma kcount_bottom : forall K up, (1 <= kcount K (up ++ [K]))%nat.
Proof. induction up; simpl; [rewrite Bool.eqb_reflx; simpl; lia|]. destruct (Bool.eqb a K); lia. Qed.

Lemma bottom_cons : forall K b stk, bottom K stk -> bottom K (b :: stk).
Proof. intros K b stk [up ->]. exists (b :: up). reflexivity. Qed.

Lemma bottom_tail : forall K b stk, bottom K (b :: stk) -> stk <> [] -> bottom K stk.
Proof.
  intros K b stk [up E] NE. destruct up as [|a up]; simpl in E; inversion E; subst.
  - congruence.
  - exists up. reflexivity.
Qed.

Lemma bottom_single : forall K b, bottom K [b] -> b = K.
Proof.
  intros K b [up E]. destruct up as [|a up]; simpl in E; inversion E; auto.
  destruct up; discriminate.
Qed.

(* what the simulation has to show for one step *)
Definition sim_res (K : bool) (m : mode) (d : nat) (c : N) (r : sres) : Prop :=
  match r with
  | Cont m' stk' =>
    bottom K stk' /\ top_ok m' stk' /\
    exists d', S d' = kcount K stk' /\
      forall l j, cscan (lcK K) (rcK K) (in_str m) (in_esc m) d (c :: l) j =
                  cscan (lcK K) (rcK K) (in_str m') (in_esc m') d' l (S j)
  | DoneIncl => forall l j, cscan (lcK K) (rcK K) (in_str m) (in_esc m) d (c :: l) j = Some (S j)
  | DoneExcl => False
  | Bad => True
  end.

(* a byte outside strings that is neither quote, backslash nor a bracket of kind K, and keeps mode/stack *)
Lemma sim_plain : forall K m m' stk d c,
  in_str m = false -> in_str m' = false -> bottom K stk -> top_ok m' stk -> S d = kcount K stk ->
  c <> 34 -> c <> 92 -> c <> lcK K -> c <> rcK K ->
  sim_res K m d c (Cont m' stk).
Proof.
  intros K m m' stk d c S1 S2 B T D A1 A2 A3 A4. unfold sim_res.
  split; [exact B|]. split; [exact T|]. exists d. split; [exact D|].
  intros l j.
  assert (E1 : in_esc m = false) by (destruct m; try discriminate; reflexivity).
  assert (E2 : in_esc m' = false) by (destruct m'; try discriminate; reflexivity).
  rewrite S1, S2, E1, E2. apply cs_plain; auto.
Qed.

(* closing bracket of the kind on top of the stack *)
Lemma sim_pop : forall K m b stk' d,
  in_str m = false -> bottom K (b :: stk') -> S d = kcount K (b :: stk') ->
  sim_res K m d (if b then 125 else 93) (end_value stk').
Proof.
  intros K m b stk' d S1 B D.
  assert (E1 : in_esc m = false) by (destruct m; try discriminate; reflexivity).
  destruct stk' as [|b' t].
  - (* the top-level container closes *)
    apply bottom_single in B. subst b. simpl in D. rewrite Bool.eqb_reflx in D. simpl in D.
    assert (d = 0%nat) by lia. subst d.
    unfold end_value, sim_res. intros l j. rewrite S1, E1.
    change (if K then 125 else 93) with (rcK K). apply (cs_close_0 _ _ (kinds_K K)).
  - unfold end_value, sim_res.
    assert (B' : bottom K (b' :: t)) by (eapply bottom_tail; eauto; discriminate).
    split; [exact B'|]. split; [exact I|].
    simpl kcount in D. destruct (Bool.eqb b K) eqn:EB.
    + apply Bool.eqb_prop in EB. subst b.
      destruct B' as [up EU]. pose proof (kcount_bottom K up) as KB. rewrite <- EU in KB.
      destruct d as [|d']; [simpl in *; lia|].
      exists d'. split; [simpl in *; lia|]. intros l j. rewrite S1, E1.
      change (if K then 125 else 93) with (rcK K). apply (cs_close_S _ _ (kinds_K K)).
    + exists d. split; [simpl in *; lia|]. intros l j. rewrite S1, E1. simpl in_str. simpl in_esc.
      apply cs_plain; destruct b, K; simpl in *; try discriminate; lia.
Qed.

Lemma sim_begin_value : forall K m stk d c,
  in_str m = false -> bottom K stk -> S d = kcount K stk ->
  sim_res K m d c (begin_value stk c).
Proof.
  intros K m stk d c S1 B D.
  assert (E1 : in_esc m = false) by (destruct m; try discriminate; reflexivity).
  unfold begin_value.
  destruct (N.eqb c 34) eqn:C1.
  { facts. subst. unfold sim_res. split; [exact B|]. split; [exact I|]. exists d. split; [exact D|].
    intros l j. rewrite S1, E1. apply cs_quote. }
  destruct (N.eqb c 123) eqn:C2.
  { facts. subst. unfold sim_res. split; [apply bottom_cons; exact B|]. split; [simpl; eauto|].
    destruct K.
    - exists (S d). split; [simpl; lia|]. intros l j. rewrite S1, E1. apply (cs_open _ _ (kinds_K true)).
    - exists d. split; [simpl; lia|]. intros l j. rewrite S1, E1. apply cs_plain; simpl; lia. }
  destruct (N.eqb c 91) eqn:C3.
  { facts. subst. unfold sim_res. split; [apply bottom_cons; exact B|]. split; [simpl; eauto|].
    destruct K.
    - exists d. split; [simpl; lia|]. intros l j. rewrite S1, E1. apply cs_plain; simpl; lia.
    - exists (S d). split; [simpl; lia|]. intros l j. rewrite S1, E1. apply (cs_open _ _ (kinds_K false)). }
  destruct (N.eqb c 116) eqn:C4.
  { facts. apply sim_plain; auto; try (destruct K; simpl; lia). simpl. repeat constructor; lia. }
  destruct (N.eqb c 102) eqn:C5.
  { facts. apply sim_plain; auto; try (destruct K; simpl; lia). simpl. repeat constructor; lia. }
  destruct (N.eqb c 110) eqn:C6.
  { facts. apply sim_plain; auto; try (destruct K; simpl; lia). simpl. repeat constructor; lia. }
  destruct (N.eqb c 45) eqn:C7.
  { facts. apply sim_plain; auto; destruct K; simpl; lia. }
  destruct (N.eqb c 48) eqn:C8.
  { facts. apply sim_plain; auto; destruct K; simpl; lia. }
  destruct (is_digit c) eqn:C9.
  { facts. apply sim_plain; auto; destruct K; simpl; lia. }
  exact I.
Qed.

Lemma sim_after_step : forall K m stk d c,
  in_str m = false -> bottom K stk -> S d = kcount K stk ->
  sim_res K m d c (after_step stk c).
Proof.
  intros K m stk d c S1 B D. unfold after_step.
  destruct (is_space c) eqn:C0.
  { facts. apply sim_plain; auto; destruct K; simpl; lia. }
  destruct stk as [|[|] stk']; [exact I| |].
  - destruct (N.eqb c 44) eqn:C1.
    { facts. apply sim_plain; auto; destruct K; simpl; lia. }
    destruct (N.eqb c 125) eqn:C2; [|exact I].
    facts. subst c. exact (sim_pop K m true stk' d S1 B D).
  - destruct (N.eqb c 44) eqn:C1.
    { facts. apply sim_plain; auto; destruct K; simpl; lia. }
    destruct (N.eqb c 93) eqn:C2; [|exact I].
    facts. subst c. exact (sim_pop K m false stk' d S1 B D).
Qed.

Lemma sim_num_end : forall K m stk d c,
  in_str m = false -> bottom K stk -> S d = kcount K stk ->
  sim_res K m d c (num_end stk c).
Proof.
  intros K m stk d c S1 B D. unfold num_end.
  destruct stk as [|b t].
  - destruct B as [up E]. destruct up; discriminate.
  - apply sim_after_step; auto.
Qed.

Lemma end_value_ne : forall K stk, bottom K stk -> end_value stk = Cont MAfter stk.
Proof. intros K stk [up E]. destruct stk; [destruct up; discriminate|reflexivity]. Qed.

Lemma step_sim : forall strict K m stk c d,
  bottom K stk -> top_ok m stk -> S d = kcount K stk ->
  sim_res K m d c (step strict m stk c).
Proof.
  intros strict K m stk c d B T D.
  destruct m; cbn [step].
  - (* MVal *)
    destruct (is_space c) eqn:C0.
    + facts. apply sim_plain; auto; destruct K; simpl; lia.
    + apply sim_begin_value; auto.
  - (* MValOrClose *)
    destruct (is_space c) eqn:C0.
    + facts. apply sim_plain; auto; destruct K; simpl; lia.
    + destruct (N.eqb c 93) eqn:C1.
      * facts. subst c. destruct T as [t ->]. exact (sim_pop K MValOrClose false t d eq_refl B D).
      * apply sim_begin_value; auto.
  - (* MKeyOrClose *)
    destruct (is_space c) eqn:C0.
    + facts. apply sim_plain; auto; destruct K; simpl; lia.
    + destruct (N.eqb c 34) eqn:C1.
      * facts. subst c. unfold sim_res. split; [exact B|]. split; [exact I|]. exists d. split; [exact D|].
        intros l j. apply cs_quote.
      * destruct (N.eqb c 125) eqn:C2; [|exact I].
        facts. subst c. destruct T as [t ->]. exact (sim_pop K MKeyOrClose true t d eq_refl B D).
  - (* MKey *)
    destruct (is_space c) eqn:C0.
    + facts. apply sim_plain; auto; destruct K; simpl; lia.
    + destruct (N.eqb c 34) eqn:C1; [|exact I].
      facts. subst c. unfold sim_res. split; [exact B|]. split; [exact I|]. exists d. split; [exact D|].
      intros l j. apply cs_quote.
  - (* MColon *)
    destruct (is_space c) eqn:C0.
    + facts. apply sim_plain; auto; destruct K; simpl; lia.
    + destruct (N.eqb c 58) eqn:C1; [|exact I].
      facts. apply sim_plain; auto; destruct K; simpl; lia.
  - (* MAfter *)
    apply sim_after_step; auto.
  - (* MStr *)
    destruct (N.eqb c 34) eqn:C1.
    + facts. subst c. rewrite (end_value_ne K stk B).
      destruct key; unfold sim_res; (split; [exact B|]); (split; [exact I|]); exists d; (split; [exact D|]);
        intros l j; apply cs_str_quote.
    + destruct (N.eqb c 92) eqn:C2.
      * facts. subst c. unfold sim_res. split; [exact B|]. split; [exact I|]. exists d. split; [exact D|].
        intros l j. apply cs_str_bs.
      * destruct (strict && N.ltb c 32)%bool; [exact I|].
        facts. unfold sim_res. split; [exact B|]. split; [exact I|]. exists d. split; [exact D|].
        intros l j. apply cs_str_plain; auto.
  - (* MStrEsc *)
    destruct (_ || _)%bool.
    + unfold sim_res. split; [exact B|]. split; [exact I|]. exists d. split; [exact D|].
      intros l j. apply cs_str_esc.
    + destruct (N.eqb c 117); [|exact I].
      unfold sim_res. split; [exact B|]. split; [exact I|]. exists d. split; [exact D|].
      intros l j. apply cs_str_esc.
  - (* MStrU *)
    destruct (is_hex c) eqn:C1; [|exact I].
    facts.
    assert (G : forall m', in_str m' = true -> in_esc m' = false -> sim_res K (MStrU key k) d c (Cont m' stk)).
    { intros m' S2 E2. unfold sim_res. split; [exact B|]. split; [destruct m'; try discriminate; exact I|].
      exists d. split; [exact D|]. intros l j. rewrite S2, E2. apply cs_str_plain; lia. }
    destruct k as [|[|k']]; apply G; reflexivity.
  - (* MLit *)
    destruct rest as [|x r']; [exact I|].
    destruct (N.eqb c x) eqn:C1; [|exact I].
    facts. subst x. simpl in T. inversion T as [|x0 y0 T1 T2]; subst.
    destruct r' as [|y r''].
    + rewrite (end_value_ne K stk B). apply sim_plain; auto; destruct K; simpl; lia.
    + apply sim_plain; auto; destruct K; simpl; lia.
  - (* MNumMinus *)
    destruct (N.eqb c 48) eqn:C1. { facts. apply sim_plain; auto; destruct K; simpl; lia. }
    destruct (is_digit c) eqn:C2; [|exact I]. facts. apply sim_plain; auto; destruct K; simpl; lia.
  - (* MNumZero *)
    destruct (N.eqb c 46) eqn:C1. { facts. apply sim_plain; auto; destruct K; simpl; lia. }
    destruct (is_e c) eqn:C2. { facts. apply sim_plain; auto; destruct K; simpl; lia. }
    apply sim_num_end; auto.
  - (* MNumInt *)
    destruct (is_digit c) eqn:C0. { facts. apply sim_plain; auto; destruct K; simpl; lia. }
    destruct (N.eqb c 46) eqn:C1. { facts. apply sim_plain; auto; destruct K; simpl; lia. }
    destruct (is_e c) eqn:C2. { facts. apply sim_plain; auto; destruct K; simpl; lia. }
    apply sim_num_end; auto.
  - (* MNumDot *)
    destruct (is_digit c) eqn:C0; [|exact I]. facts. apply sim_plain; auto; destruct K; simpl; lia.
  - (* MNumFrac *)
    destruct (is_digit c) eqn:C0. { facts. apply sim_plain; auto; destruct K; simpl; lia. }
    destruct (is_e c) eqn:C2. { facts. apply sim_plain; auto; destruct K; simpl; lia. }
    apply sim_num_end; auto.
  - (* MNumE *)
    destruct (_ || _)%bool eqn:C0.
    { apply orb_true_iff in C0. destruct C0 as [C0|C0]; facts; apply sim_plain; auto; destruct K; simpl; lia. }
    destruct (is_digit c) eqn:C1; [|exact I]. facts. apply sim_plain; auto; destruct K; simpl; lia.
  - (* MNumESign *)
    destruct (is_digit c) eqn:C0; [|exact I]. facts. apply sim_plain; auto; destruct K; simpl; lia.
  - (* MNumExp *)
    destruct (is_digit c) eqn:C0. { facts. apply sim_plain; auto; destruct K; simpl; lia. }
    apply sim_num_end; auto.
Qed.

(* ---- whole scans *)
Lemma vscan_cscan : forall l strict K m stk i n d j,
  bottom K stk -> top_ok m stk -> S d = kcount K stk ->
  vscan strict m stk l i = Complete n ->
  cscan (lcK K) (rcK K) (in_str m) (in_esc m) d l j = Some (j + (n - i))%nat /\ (i < n)%nat.
Proof.
  induction l as [|c l IH]; intros strict K m stk i n d j B T D H; simpl in H.
  - destruct B as [up E]. destruct stk; [destruct up; discriminate|discriminate].
  - pose proof (step_sim strict K m stk c d B T D) as S.
    destruct (step strict m stk c) as [m' stk'| | |]; unfold sim_res in S.
    + destruct S as (B' & T' & d' & D' & EQ).
      destruct (IH strict K m' stk' (S i) n d' (S j) B' T' D' H) as [A L].
      split; [|lia]. rewrite EQ, A. f_equal. lia.
    + inversion H; subst. split; [|lia]. rewrite S. f_equal. lia.
    + contradiction.
    + discriminate.
Qed.

(* strings at top level *)
Definition str_mode (m : mode) : Prop :=
  m = MStr false \/ m = MStrEsc false \/ exists k, m = MStrU false k.

Lemma vscan_sscan : forall l strict m i n j,
  str_mode m -> vscan strict m [] l i = Complete n ->
  sscan (in_esc m) l j = Some (j + (n - i))%nat /\ (i < n)%nat.
Proof.
  induction l as [|c l IH]; intros strict m i n j SM H; simpl in H.
  - destruct SM as [->|[->|[k ->]]]; discriminate.
  - destruct SM as [->|[->|[k ->]]]; cbn [step in_esc sscan] in *.
    + destruct (N.eqb c 34) eqn:C1.
      * simpl in H. inversion H; subst. facts. subst c. split; [|lia].
        replace (j + (S i - i))%nat with (S j) by lia. reflexivity.
      * destruct (N.eqb c 92) eqn:C2.
        -- destruct (IH strict (MStrEsc false) (S i) n (S j) ltac:(right; left; reflexivity) H) as [A L].
           simpl in A. split; [rewrite A; f_equal; lia|lia].
        -- destruct (strict && N.ltb c 32)%bool; [discriminate|].
           destruct (IH strict (MStr false) (S i) n (S j) ltac:(left; reflexivity) H) as [A L].
           simpl in A. split; [rewrite A; f_equal; lia|lia].
    + destruct (_ || _)%bool.
      * destruct (IH strict (MStr false) (S i) n (S j) ltac:(left; reflexivity) H) as [A L].
        simpl in A. split; [rewrite A; f_equal; lia|lia].
      * destruct (N.eqb c 117); [|discriminate].
        destruct (IH strict (MStrU false 4) (S i) n (S j) ltac:(right; right; eauto) H) as [A L].
        simpl in A. split; [rewrite A; f_equal; lia|lia].
    + destruct (is_hex c) eqn:C1; [|discriminate].
      assert (E92 : N.eqb c 92 = false) by (facts; apply N.eqb_neq; lia).
      assert (E34 : N.eqb c 34 = false) by (facts; apply N.eqb_neq; lia).
      rewrite E92, E34.
      destruct k as [|[|k']].
      * destruct (IH strict (MStr false) (S i) n (S j) ltac:(left; reflexivity) H) as [A L].
        simpl in A. split; [rewrite A; f_equal; lia|lia].
      * destruct (IH strict (MStr false) (S i) n (S j) ltac:(left; reflexivity) H) as [A L].
        simpl in A. split; [rewrite A; f_equal; lia|lia].
      * destruct (IH strict (MStrU false (S k')) (S i) n (S j) ltac:(right; right; eauto) H) as [A L].
        simpl in A. split; [rewrite A; f_equal; lia|lia].
Qed.

(* literals at top level: three (four) more bytes, the last one a letter *)
Lemma vscan_lit3 : forall strict x1 x2 x3 l i n,
  vscan strict (MLit [x1; x2; x3]) [] l i = Complete n ->
  n = (i + 3)%nat /\ exists l', l = x1 :: x2 :: x3 :: l'.
Proof.
  intros strict x1 x2 x3 l i n H.
  destruct l as [|a [|b [|c l']]]; simpl in H; try discriminate.
  - destruct (N.eqb a x1); discriminate.
  - destruct (N.eqb a x1); [|discriminate]. simpl in H. destruct (N.eqb b x2); discriminate.
  - destruct (N.eqb a x1) eqn:E1; [|discriminate]. simpl in H.
    destruct (N.eqb b x2) eqn:E2; [|discriminate]. simpl in H.
    destruct (N.eqb c x3) eqn:E3; [|discriminate]. simpl in H. inversion H; subst.
    facts. subst. split; [lia|eauto].
Qed.

Lemma vscan_lit4 : forall strict x1 x2 x3 x4 l i n,
  vscan strict (MLit [x1; x2; x3; x4]) [] l i = Complete n ->
  n = (i + 4)%nat /\ exists l', l = x1 :: x2 :: x3 :: x4 :: l'.
Proof.
  intros strict x1 x2 x3 x4 l i n H.
  destruct l as [|a l]; simpl in H; [discriminate|].
  destruct (N.eqb a x1) eqn:E1; [|discriminate].
  apply vscan_lit3 in H. destruct H as [-> [l' ->]]. facts. subst. split; [lia|eauto].
Qed.

(* the byte on which a scan stops *)
Lemma cscan_last : forall lc rc l inq esc d i k,
  cscan lc rc inq esc d l i = Some k -> nth (k - i - 1) l 0 = rc.
Proof.
  induction l as [|c l IH]; intros inq esc d i k H; simpl in H; [discriminate|].
  assert (STEP : forall inq' esc' d', cscan lc rc inq' esc' d' l (S i) = Some k -> nth (k - i - 1) (c :: l) 0 = rc).
  { intros inq' esc' d' A. pose proof (cscan_bounds _ _ _ _ _ _ _ _ A) as BD. apply IH in A.
    replace (k - i - 1)%nat with (S (k - S i - 1)) by lia. exact A. }
  destruct (N.eqb c 34 && negb esc)%bool; [eapply STEP; eauto|].
  destruct inq; [eapply STEP; eauto|].
  destruct (N.eqb c lc); [eapply STEP; eauto|].
  destruct (N.eqb c rc) eqn:E.
  - destruct d; [|eapply STEP; eauto]. inversion H; subst. replace (S i - i - 1)%nat with 0%nat by lia.
    simpl. apply N.eqb_eq. exact E.
  - eapply STEP; eauto.
Qed.

Lemma sscan_last : forall l esc i k, sscan esc l i = Some k -> nth (k - i - 1) l 0 = 34.
Proof.
  induction l as [|c l IH]; intros esc i k H; simpl in H; [discriminate|].
  assert (STEP : forall esc', sscan esc' l (S i) = Some k -> nth (k - i - 1) (c :: l) 0 = 34).
  { intros esc' A. pose proof (sscan_bounds _ _ _ _ A) as BD. apply IH in A.
    replace (k - i - 1)%nat with (S (k - S i - 1)) by lia. exact A. }
  destruct esc; [eapply STEP; eauto|].
  destruct (N.eqb c 92); [eapply STEP; eauto|].
  destruct (N.eqb c 34) eqn:E; [|eapply STEP; eauto].
  inversion H; subst. replace (S i - i - 1)%nat with 0%nat by lia. simpl. apply N.eqb_eq. exact E.
Qed.

(* ---- the fast skipper on a valid self-delimiting value *)
Theorem skip_on_valid : forall avx2 strict c rest n,
  selfdelim c = true -> scan_value strict (c :: rest) = Complete n ->
  skip_one_fast avx2 (c :: rest) = SkOk 0 n /\ (1 <= n <= length (c :: rest))%nat /\
  is_space (nth (n - 1) (c :: rest) 0) = false.
Proof.
  intros avx2 strict c rest n Hc H.
  assert (Hns : is_space c = false).
  { apply selfdelim_cases in Hc. destruct Hc as [E|[E|[E|[E|[E|E]]]]]; subst; reflexivity. }
  unfold scan_value in H. cbn [vscan step] in H. rewrite Hns in H.
  unfold skip_one_fast. rewrite first_ns_cons_ns by auto.
  assert (NTH : forall k x, (2 <= k)%nat -> nth (k - 1 - 0 - 1) rest 0 = x -> nth (k - 1) (c :: rest) 0 = x).
  { intros k x L E. replace (k - 1)%nat with (S (k - 1 - 0 - 1)) by lia. exact E. }
  apply selfdelim_cases in Hc. destruct Hc as [E|[E|[E|[E|[E|E]]]]]; subst c;
    remember (nth (n - 1) (_ :: rest) 0) as lastb eqn:EL; cbn in H |- *.
  - (* array *)
    destruct (vscan_cscan rest strict false MValOrClose [false] 1 n 0 0
                ltac:(exists []; reflexivity) ltac:(simpl; eauto) eq_refl H) as [A L].
    simpl in A. rewrite A.
    pose proof (cscan_bounds _ _ _ _ _ _ _ _ A) as BD. pose proof (cscan_last _ _ _ _ _ _ _ _ A) as LA.
    split; [f_equal; lia|]. split; [lia|]. subst lastb. rewrite (NTH n 93 ltac:(lia) LA). reflexivity.
  - (* object *)
    destruct (vscan_cscan rest strict true MKeyOrClose [true] 1 n 0 0
                ltac:(exists []; reflexivity) ltac:(simpl; eauto) eq_refl H) as [A L].
    simpl in A. rewrite A.
    pose proof (cscan_bounds _ _ _ _ _ _ _ _ A) as BD. pose proof (cscan_last _ _ _ _ _ _ _ _ A) as LA.
    split; [f_equal; lia|]. split; [lia|]. subst lastb. rewrite (NTH n 125 ltac:(lia) LA). reflexivity.
  - (* string *)
    destruct (vscan_sscan rest strict (MStr false) 1 n 0 ltac:(left; reflexivity) H) as [A L].
    simpl in A. rewrite A.
    pose proof (sscan_bounds _ _ _ _ A) as BD. pose proof (sscan_last _ _ _ _ A) as LA.
    split; [f_equal; lia|]. split; [lia|]. subst lastb. rewrite (NTH n 34 ltac:(lia) LA). reflexivity.
  - (* true *)
    apply vscan_lit3 in H. destruct H as [-> [l' ->]]. subst lastb. cbn. split; [reflexivity|]. split; [lia|reflexivity].
  - (* null *)
    apply vscan_lit3 in H. destruct H as [-> [l' ->]]. subst lastb. cbn. split; [reflexivity|]. split; [lia|reflexivity].
  - (* false *)
    apply vscan_lit4 in H. destruct H as [-> [l' ->]]. subst lastb. cbn. split; [reflexivity|]. split; [lia|reflexivity].
Qed.

Local Close Scope N_scope.
(* ---- the inner decoder never returns an empty text *)
Lemma vscan_mono : forall l strict m stk i n,
  (vscan strict m stk l i = Complete n \/ vscan strict m stk l i = AtEnd n) -> i <= n.
Proof.
  induction l as [|c l IH]; intros strict m stk i n H; simpl in H.
  - destruct stk; [destruct (num_final m)|]; destruct H as [H|H]; inversion H; lia.
  - destruct (step strict m stk c) as [m' stk'| | |].
    + apply IH in H. lia.
    + destruct H as [H|H]; inversion H; lia.
    + destruct H as [H|H]; inversion H; lia.
    + destruct H as [H|H]; discriminate.
Qed.

Lemma begin_value_cont : forall stk c, match begin_value stk c with DoneIncl | DoneExcl => False | _ => True end.
Proof.
  intros stk c. unfold begin_value.
  repeat match goal with |- context [if ?b then _ else _] => destruct b end; exact I.
Qed.

Lemma vscan_text : forall l strict i n,
  (vscan strict MVal [] l i = Complete n \/ vscan strict MVal [] l i = AtEnd n) ->
  drop_ws (firstn (n - i) l) <> [].
Proof.
  induction l as [|c l IH]; intros strict i n H; simpl in H.
  - destruct H as [H|H]; discriminate.
  - destruct (is_space c) eqn:SP.
    + pose proof (vscan_mono _ _ _ _ _ _ H) as M.
      specialize (IH strict (S i) n H).
      replace (n - i) with (S (n - S i)) by lia. simpl. rewrite SP. exact IH.
    + pose proof (begin_value_cont [] c) as BC.
      destruct (begin_value [] c) as [m' stk'| | |] eqn:BV; try contradiction.
      * pose proof (vscan_mono _ _ _ _ _ _ H) as M.
        replace (n - i) with (S (n - S i)) by lia. simpl. rewrite SP. discriminate.
      * destruct H as [H|H]; discriminate.
Qed.

Lemma inner_decode_pos : forall w v, inner_decode w = Some v -> 1 <= length v.
Proof.
  intros w v H. unfold inner_decode, scan_value in H.
  destruct (vscan false MVal [] w 0) as [n|n| |] eqn:V; try discriminate; inversion H; subst;
    (assert (T : drop_ws (firstn (n - 0) w) <> []) by (eapply vscan_text; eauto));
    rewrite Nat.sub_0_r in T; destruct (drop_ws (firstn n w)); [congruence|simpl; lia| congruence | simpl; lia].
Qed.


Local Open Scope N_scope.
(* ---- the inner decoder on the framed copy of a valid value: it returns exactly that text *)
Lemma step_lenient : forall m stk c, step true m stk c <> Bad -> step false m stk c = step true m stk c.
Proof.
  intros m stk c H. destruct m; try reflexivity. cbn [step] in *.
  destruct (N.eqb c 34); [reflexivity|]. destruct (N.eqb c 92); [reflexivity|].
  simpl andb in *. destruct (N.ltb c 32); [congruence|reflexivity].
Qed.

Lemma vscan_lenient : forall l m stk i n, vscan true m stk l i = Complete n -> vscan false m stk l i = Complete n.
Proof.
  induction l as [|c l IH]; intros m stk i n H; simpl in *; [exact H|].
  destruct (step true m stk c) as [m' stk'| | |] eqn:S; try discriminate;
    rewrite step_lenient by (rewrite S; discriminate); rewrite S; auto.
Qed.

Lemma step_doneexcl : forall strict m stk c, step strict m stk c = DoneExcl -> stk = [] /\ num_final m = true.
Proof.
  intros strict m stk c H.
  assert (NE : forall s x, num_end s x = DoneExcl -> s = []).
  { intros s x E. unfold num_end in E. destruct s as [|b t]; [reflexivity|].
    unfold after_step in E. destruct (is_space x); [discriminate|].
    destruct b; destruct (N.eqb x 44); try discriminate;
      [destruct (N.eqb x 125)|destruct (N.eqb x 93)]; try discriminate; destruct t; discriminate. }
  assert (BV : forall s x, begin_value s x <> DoneExcl).
  { intros s x. pose proof (begin_value_cont s x) as C. destruct (begin_value s x); auto; discriminate. }
  assert (EV : forall s, end_value s <> DoneExcl) by (intros [|? ?]; discriminate).
  assert (AS : forall s x, after_step s x <> DoneExcl).
  { intros s x. unfold after_step. destruct (is_space x); [discriminate|].
    destruct s as [|[|] t]; [discriminate| |]; destruct (N.eqb x 44); try discriminate;
      [destruct (N.eqb x 125)|destruct (N.eqb x 93)]; try discriminate; apply EV. }
  destruct m; cbn [step] in H;
    repeat match type of H with
           | (if ?b then _ else _) = _ => destruct b
           | (match ?x with _ => _ end) = _ => destruct x
           end;
    try discriminate; try (exfalso; eapply BV; eassumption); try (exfalso; eapply EV; eassumption);
    try (exfalso; eapply AS; eassumption); try (apply NE in H; subst; split; reflexivity).
Qed.

(* the scan of the text of the value alone ends at the same place *)
Lemma vscan_prefix : forall l strict m stk i n,
  vscan strict m stk l i = Complete n ->
  vscan strict m stk (firstn (n - i) l) i = Complete n \/ vscan strict m stk (firstn (n - i) l) i = AtEnd n.
Proof.
  induction l as [|c l IH]; intros strict m stk i n H; simpl in H.
  - destruct stk; [destruct (num_final m)|]; discriminate.
  - destruct (step strict m stk c) as [m' stk'| | |] eqn:ST.
    + assert (L : (S i <= n)%nat) by (eapply vscan_mono; left; exact H).
      replace (n - i)%nat with (S (n - S i)) by lia. cbn [firstn vscan]. rewrite ST. apply IH. exact H.
    + inversion H; subst. replace (S i - i)%nat with 1%nat by lia. cbn [firstn vscan]. rewrite ST. left. reflexivity.
    + inversion H; subst. rewrite Nat.sub_diag. cbn [firstn vscan].
      apply step_doneexcl in ST. destruct ST as [-> F]. rewrite F. right. reflexivity.
    + discriminate.
Qed.

Theorem inner_on_valid : forall c rest n,
  is_space c = false -> scan_value true (c :: rest) = Complete n ->
  inner_decode (firstn n (c :: rest)) = Some (firstn n (c :: rest)).
Proof.
  intros c rest n Hc H. unfold scan_value in H.
  apply vscan_lenient in H.
  assert (L : (1 <= n)%nat).
  { cbn [vscan step] in H. rewrite Hc in H.
    pose proof (begin_value_cont [] c) as BC.
    destruct (begin_value [] c) as [m' stk'| | |]; try contradiction; [|discriminate].
    assert (1 <= n)%nat by (eapply vscan_mono; left; exact H). assumption. }
  apply vscan_prefix in H. rewrite Nat.sub_0_r in H.
  unfold inner_decode, scan_value.
  assert (E : drop_ws (firstn n (firstn n (c :: rest))) = firstn n (c :: rest)).
  { rewrite firstn_firstn, Nat.min_id. destruct n; [lia|]. cbn [firstn drop_ws]. rewrite Hc. reflexivity. }
  destruct H as [H|H]; rewrite H, E; reflexivity.
Qed.
