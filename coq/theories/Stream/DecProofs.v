(* C17 - the chunk-independence theorem for the concrete skipper / inner decoder, with its exact guard. *)
From Coq Require Import NArith List Bool Arith Lia.
From SV.Stream Require Import Skip SkipProofs Json1 SkipValid Dec Spec DecProofs1 DecProofs2.
Import ListNotations.

Definition bytes_eq_dec : forall a b : bytes, {a = b} + {a <> b} := list_eq_dec N.eq_dec.

(* ---- facts about the skipper used by the guard *)

(* a byte that is neither white space, nor the start of a number, nor self-delimiting: the verdict depends on it alone *)
Lemma skip_inval_head : forall avx2 c rest,
  is_space c = false -> is_num_start c = false -> selfdelim c = false ->
  skip_one_fast avx2 (c :: rest) = SkInval -> forall tl, skip_one_fast avx2 (c :: tl) = SkInval.
Proof.
  intros avx2 c rest Hs Hn Hd H tl. unfold skip_one_fast in *.
  rewrite first_ns_cons_ns in * by auto.
  unfold is_num_start in Hn. unfold selfdelim in Hd.
  rewrite !orb_false_iff in Hd. destruct Hd as (((((D1 & D2) & D3) & D4) & D5) & D6).
  rewrite D1, D2, D3, Hn, D4, D5, D6 in *. simpl in *. exact H.
Qed.

(* a self-delimiting value that is not complete in r is not complete in any prefix of r *)
Lemma skip_eof_prefix : forall avx2 c rest,
  selfdelim c = true -> skip_one_fast avx2 (c :: rest) = SkEof ->
  forall P Q, c :: rest = P ++ Q -> skip_one_fast avx2 P = SkEof.
Proof.
  intros avx2 c rest Hc H P Q HPQ.
  assert (Hns : is_space c = false).
  { apply selfdelim_cases in Hc. destruct Hc as [E|[E|[E|[E|[E|E]]]]]; subst; reflexivity. }
  destruct P as [|a P]; [reflexivity|].
  simpl in HPQ. inversion HPQ; subst a rest. clear HPQ.
  unfold skip_one_fast in *. rewrite first_ns_cons_ns in * by auto.
  assert (GEN : forall scanf : bytes -> nat -> option nat,
      (forall l1 l2 i k, scanf l1 i = Some k -> scanf (l1 ++ l2) i = Some k) ->
      match scanf (P ++ Q) 0 with Some k => SkOk 0 (1 + k) | None => SkEof end = SkEof ->
      match scanf P 0 with Some k => SkOk 0 (1 + k) | None => SkEof end = SkEof).
  { intros scanf A E. destruct (scanf P 0) as [k|] eqn:S; [|reflexivity].
    rewrite (A _ Q _ _ S) in E. discriminate. }
  destruct (N.eqb c 91). { apply (GEN (cscan 91 93 false false 0)); auto. intros; eapply cscan_app; eauto. }
  destruct (N.eqb c 123). { apply (GEN (cscan 123 125 false false 0)); auto. intros; eapply cscan_app; eauto. }
  destruct (N.eqb c 34). { apply (GEN (sscan false)); auto. intros; eapply sscan_app; eauto. }
  assert (Hnum : (N.eqb c 45 || is_digit c)%bool = false).
  { apply selfdelim_cases in Hc. destruct Hc as [E|[E|[E|[E|[E|E]]]]]; subst; reflexivity. }
  rewrite Hnum in *. rewrite app_length in H.
  destruct (N.eqb c 116 || N.eqb c 110)%bool.
  { destruct (3 <=? length P + length Q) eqn:E; [discriminate|]. apply Nat.leb_gt in E.
    destruct (3 <=? length P) eqn:E'; [apply Nat.leb_le in E'; lia|reflexivity]. }
  destruct (N.eqb c 102).
  { destruct (4 <=? length P + length Q) eqn:E; [discriminate|]. apply Nat.leb_gt in E.
    destruct (4 <=? length P) eqn:E'; [apply Nat.leb_le in E'; lia|reflexivity]. }
  destruct (N.eqb c 0); [reflexivity|discriminate].
Qed.

(* ---- The guard, as a computable check of the byte stream (and the reader's final condition) alone - no chunking
   involved.  One step looks at r, a rest of the stream that starts with a non-space byte:
     GVal n v  the first value occupies r[0..n) and decodes to v:
               - a number: the run of number bytes [0-9.eE+-] is followed by another byte (or ends the stream and the
                 final condition is io.EOF), and the decoder and the reference scanner agree on the value inside that run;
               - an object, array, string or literal: the fast skipper frames it exactly where the reference scanner
                 ends it, and the inner decoder returns exactly that text;
     GEnd t    the stream ends here with terminal condition t:
               - a byte that cannot start a value (the skipper says invalid, so does the reference scanner): error;
               - a framed value that the decoder rejects (and the reference scanner calls invalid): error;
               - an object / array / string / literal cut off by the end of the stream (reference: incomplete):
                 unexpected-EOF error, or the reader's own error;
               - a number running up to the end of a stream whose reader ends with its own error: that error;
     GNo       none of these (e.g. a value the skipper and the reference scanner frame differently). *)
Inductive gvres := GVal (n : nat) (v : bytes) | GEnd (t : term) | GNo.

Definition gv_ok (n n' : nat) (r : bytes) : bool :=
  ((n =? n') && (1 <=? n) && (n <=? length r) && negb (is_space (nth (n - 1) r 0%N)))%bool.

Definition gv_step (avx2 : bool) (fin : ioerr) (r : bytes) : gvres :=
  match r with
  | [] => GNo
  | c :: rest =>
    if is_space c then GNo
    else if is_num_start c then
      let m := S (num_run rest) in
      if m <? length r then
        match inner_decode (firstn m r), scan_value true r with
        | Some v, Complete n =>
          if ((length v =? n) && (n <=? m))%bool then (if bytes_eq_dec v (firstn n r) then GVal n v else GNo) else GNo
        | _, _ => GNo
        end
      else if m =? length r then
        match fin with
        | EOF =>
          match inner_decode r, scan_value true r with
          | Some v, Complete n =>
            if ((length v =? n) && (n <=? m))%bool then (if bytes_eq_dec v (firstn n r) then GVal n v else GNo) else GNo
          | Some v, AtEnd n =>
            if ((length v =? n) && (n =? m))%bool then (if bytes_eq_dec v (firstn n r) then GVal n v else GNo) else GNo
          | _, _ => GNo
          end
        | ErrR _ => match scan_value true r with AtEnd _ => GEnd (TIo fin) | _ => GNo end
        end
      else GNo
    else if selfdelim c then
      match scan_value true r with
      | Complete n => GVal n (firstn n r)            (* a VALID object / array / string / literal: nothing else to check *)
      | Incomplete =>
        match skip_one_fast avx2 r with
        | SkEof => GEnd (match fin with EOF => TSyntax | _ => TIo fin end)
        | _ => GNo
        end
      | Invalid =>
        match skip_one_fast avx2 r with
        | SkOk O n =>
          match inner_decode (firstn n r) with
          | None => if gv_ok n n r then GEnd TSyntax else GNo
          | Some _ => GNo
          end
        | _ => GNo
        end
      | AtEnd _ => GNo
      end
    else
      match skip_one_fast avx2 r, scan_value true r with
      | SkInval, Invalid => GEnd TSyntax
      | _, _ => GNo
      end
  end.

Fixpoint good_values (avx2 : bool) (fin : ioerr) (fuel : nat) (s : bytes) : option (list bytes * term) :=
  match fuel with
  | O => None
  | S f =>
    match drop_ws s with
    | [] => Some ([], TIo fin)
    | r =>
      match gv_step avx2 fin r with
      | GVal n v =>
        match good_values avx2 fin f (skipn n r) with
        | Some (vs, t) => Some (v :: vs, t)
        | None => None
        end
      | GEnd t => Some ([], t)
      | GNo => None
      end
    end
  end.

Lemma good_values_S : forall avx2 fin f s,
  good_values avx2 fin (S f) s =
  match drop_ws s with
  | [] => Some ([], TIo fin)
  | r => match gv_step avx2 fin r with
         | GVal n v => match good_values avx2 fin f (skipn n r) with Some (vs, t) => Some (v :: vs, t) | None => None end
         | GEnd t => Some ([], t)
         | GNo => None
         end
  end.
Proof. reflexivity. Qed.

Ltac gv_destruct H :=
  repeat match type of H with
         | (if ?b then _ else _) = _ => let E := fresh "E" in destruct b eqn:E; try discriminate
         | (match ?x with _ => _ end) = _ => let E := fresh "E" in destruct x eqn:E; try discriminate
         end.

(* what a value step guarantees *)
Lemma gv_step_val : forall avx2 fin r n v,
  gv_step avx2 fin r = GVal n v ->
  exists c rest, r = c :: rest /\ v = firstn n r /\ length v = n /\ scan_value true r <> Invalid /\
    ((is_num_start c = false /\ framed_at (skip_one_fast avx2) r n /\ 1 <= n <= length r /\
      is_space (nth (n - 1) r 0%N) = false /\ inner_decode (firstn n r) = Some v /\ scan_value true r = Complete n) \/
     (is_num_start c = true /\ S (num_run rest) < length r /\ inner_decode (firstn (S (num_run rest)) r) = Some v /\
      n <= S (num_run rest) /\ scan_value true r = Complete n) \/
     (is_num_start c = true /\ fin = EOF /\ S (num_run rest) = length r /\ inner_decode r = Some v /\ n <= length r /\
      (scan_value true r = Complete n \/ (scan_value true r = AtEnd n /\ n = length r)))).
Proof.
  intros avx2 fin r n v H. unfold gv_step in H.
  destruct r as [|c rest]; [discriminate|].
  destruct (is_space c) eqn:SP; [discriminate|].
  destruct (is_num_start c) eqn:NS.
  - destruct (S (num_run rest) <? length (c :: rest)) eqn:ML.
    + apply Nat.ltb_lt in ML.
      destruct (inner_decode (firstn (S (num_run rest)) (c :: rest))) as [v'|] eqn:ID; [|discriminate].
      destruct (scan_value true (c :: rest)) as [n'|n'| |] eqn:SV; try discriminate.
      destruct ((length v' =? n') && (n' <=? S (num_run rest)))%bool eqn:C; [|discriminate].
      destruct (bytes_eq_dec v' (firstn n' (c :: rest))) as [EQ|]; [|discriminate].
      injection H as Hn' Hv'; subst n'; rewrite Hv' in *; clear Hv'.
      apply andb_prop in C. destruct C as [C1 C2]. apply Nat.eqb_eq in C1. apply Nat.leb_le in C2.
      exists c, rest. split; [reflexivity|]. split; [exact EQ|]. split; [exact C1|]. split; [discriminate|].
      right. left. split; [first [exact NS|reflexivity]|]. split; [first [exact ML|reflexivity]|]. split; [first [exact ID|reflexivity]|]. split; [exact C2|reflexivity].
    + destruct (S (num_run rest) =? length (c :: rest)) eqn:ME; [|discriminate].
      apply Nat.eqb_eq in ME.
      destruct fin as [|k]; [|destruct (scan_value true (c :: rest)); discriminate].
      destruct (inner_decode (c :: rest)) as [v'|] eqn:ID; [|discriminate].
      destruct (scan_value true (c :: rest)) as [n'|n'| |] eqn:SV; try discriminate.
      * destruct ((length v' =? n') && (n' <=? S (num_run rest)))%bool eqn:C; [|discriminate].
        destruct (bytes_eq_dec v' (firstn n' (c :: rest))) as [EQ|]; [|discriminate].
        injection H as Hn' Hv'; subst n'; rewrite Hv' in *; clear Hv'.
        apply andb_prop in C. destruct C as [C1 C2]. apply Nat.eqb_eq in C1. apply Nat.leb_le in C2.
        exists c, rest. split; [reflexivity|]. split; [exact EQ|]. split; [exact C1|]. split; [discriminate|].
        right. right. split; [first [exact NS|reflexivity]|]. split; [reflexivity|]. split; [first [exact ME|reflexivity]|]. split; [first [exact ID|reflexivity]|].
        split; [lia|]. left. reflexivity.
      * destruct ((length v' =? n') && (n' =? S (num_run rest)))%bool eqn:C; [|discriminate].
        destruct (bytes_eq_dec v' (firstn n' (c :: rest))) as [EQ|]; [|discriminate].
        injection H as Hn' Hv'; subst n'; rewrite Hv' in *; clear Hv'.
        apply andb_prop in C. destruct C as [C1 C2]. apply Nat.eqb_eq in C1, C2.
        exists c, rest. split; [reflexivity|]. split; [exact EQ|]. split; [exact C1|]. split; [discriminate|].
        right. right. split; [first [exact NS|reflexivity]|]. split; [reflexivity|]. split; [first [exact ME|reflexivity]|]. split; [first [exact ID|reflexivity]|].
        split; [lia|]. right. split; [reflexivity|lia].
  - destruct (selfdelim c) eqn:SD.
    + destruct (scan_value true (c :: rest)) as [n'|n'| |] eqn:SV.
      * injection H as Hn' Hv'. subst n'.
        destruct (skip_on_valid avx2 true c rest n SD SV) as (SK & Hn & Hl).
        exists c, rest. split; [reflexivity|]. split; [symmetry; exact Hv'|].
        split. { rewrite <- Hv', firstn_length. lia. }
        split; [discriminate|].
        left. split; [exact NS|]. split; [eapply selfdelim_framed; eauto|].
        split; [exact Hn|]. split; [exact Hl|]. split; [|reflexivity].
        rewrite <- Hv'. apply inner_on_valid; auto.
      * discriminate.
      * destruct (skip_one_fast avx2 (c :: rest)); discriminate.
      * destruct (skip_one_fast avx2 (c :: rest)) as [[|y] m| |]; try discriminate.
        destruct (inner_decode (firstn m (c :: rest))); [discriminate|].
        destruct (gv_ok m m (c :: rest)); discriminate.
    + destruct (skip_one_fast avx2 (c :: rest)); try discriminate.
      destruct (scan_value true (c :: rest)); discriminate.
Qed.

(* what a terminal step guarantees *)
Lemma gv_step_end : forall avx2 fin r t,
  gv_step avx2 fin r = GEnd t ->
  exists c rest, r = c :: rest /\
    ((is_num_start c = true /\ S (num_run rest) = length r /\ (exists k, fin = ErrR k) /\ t = TIo fin /\
      (exists n, scan_value true r = AtEnd n)) \/
     (is_num_start c = false /\ (forall tl, skip_one_fast avx2 (c :: tl) = SkInval) /\ t = TSyntax /\
      scan_value true r = Invalid) \/
     (is_num_start c = false /\ t = TSyntax /\ scan_value true r = Invalid /\
      exists n, framed_at (skip_one_fast avx2) r n /\ 1 <= n <= length r /\
                is_space (nth (n - 1) r 0%N) = false /\ inner_decode (firstn n r) = None) \/
     (is_num_start c = false /\ (forall P Q, r = P ++ Q -> skip_one_fast avx2 P = SkEof) /\
      t = match fin with EOF => TSyntax | _ => TIo fin end /\ scan_value true r = Incomplete)).
Proof.
  intros avx2 fin r t H. unfold gv_step in H.
  destruct r as [|c rest]; [discriminate|].
  destruct (is_space c) eqn:SP; [discriminate|].
  exists c, rest. split; [reflexivity|].
  destruct (is_num_start c) eqn:NS.
  - destruct (S (num_run rest) <? length (c :: rest)) eqn:ML.
    + destruct (inner_decode _); [|discriminate].
      destruct (scan_value true (c :: rest)); try discriminate.
      destruct (_ && _)%bool; [|discriminate]. destruct (bytes_eq_dec _ _); discriminate.
    + destruct (S (num_run rest) =? length (c :: rest)) eqn:ME; [|discriminate].
      apply Nat.eqb_eq in ME.
      destruct fin as [|k].
      * destruct (inner_decode (c :: rest)); [|discriminate].
        destruct (scan_value true (c :: rest)); try discriminate;
          (destruct (_ && _)%bool; [|discriminate]); destruct (bytes_eq_dec _ _); discriminate.
      * destruct (scan_value true (c :: rest)) as [n'|n'| |] eqn:SV; try discriminate.
        inversion H; subst. left. repeat split; eauto.
  - right. destruct (selfdelim c) eqn:SD.
    + destruct (scan_value true (c :: rest)) as [n'|n'| |] eqn:SV; try discriminate.
      * destruct (skip_one_fast avx2 (c :: rest)) as [y m| |] eqn:SK; try discriminate.
        inversion H; subst. right. right.
        split; [reflexivity|]. split; [eapply skip_eof_prefix; eauto|]. split; reflexivity.
      * destruct (skip_one_fast avx2 (c :: rest)) as [[|y] m| |] eqn:SK; try discriminate.
        destruct (inner_decode (firstn m (c :: rest))) as [v'|] eqn:ID; [discriminate|].
        destruct (gv_ok m m (c :: rest)) eqn:C; [|discriminate].
        inversion H; subst. right. left.
        unfold gv_ok in C.
        apply andb_prop in C. destruct C as [C C4]. apply andb_prop in C. destruct C as [C C3].
        apply andb_prop in C. destruct C as [C1 C2].
        apply Nat.leb_le in C2, C3. apply negb_true_iff in C4.
        split; [reflexivity|]. split; [reflexivity|]. split; [reflexivity|].
        exists m. split; [eapply selfdelim_framed; eauto|]. split; [lia|]. split; [exact C4|exact ID].
    + destruct (skip_one_fast avx2 (c :: rest)) eqn:SK; try discriminate.
      destruct (scan_value true (c :: rest)) eqn:SV; try discriminate.
      inversion H; subst. left.
      split; [reflexivity|]. split; [eapply skip_inval_head; eauto|]. split; reflexivity.
Qed.

Lemma good_values_good_stream : forall avx2 fin fuel s vs t,
  good_values avx2 fin fuel s = Some (vs, t) -> good_stream (skip_one_fast avx2) inner_decode fin s vs t.
Proof.
  induction fuel as [|f IH]; intros s vs t H; [discriminate|]. rewrite good_values_S in H.
  destruct (drop_ws s) as [|c0 rest0] eqn:D.
  { inversion H; subst. apply gs_end. exact D. }
  cbv beta iota zeta in H.
  destruct (gv_step avx2 fin (c0 :: rest0)) as [n v|t'|] eqn:GS; [| |discriminate].
  - destruct (good_values avx2 fin f (skipn n (c0 :: rest0))) as [[vs' t']|] eqn:G; [|discriminate].
    inversion H; subst vs t'. clear H. apply IH in G.
    apply gv_step_val in GS. destruct GS as (c & rest & E & Ev & El & _ & CASES).
    inversion E; subst c0 rest0.
    destruct CASES as [(NS & FR & Hn & Hns & ID & _)|[(NS & ML & ID & Hl & _)|(NS & FE & ME & ID & Hl & _)]].
    + eapply gs_val; eauto.
    + eapply gs_num; eauto; rewrite El; auto.
    + eapply gs_num_eof; eauto; rewrite El; auto.
  - inversion H; subst vs t'. clear H.
    apply gv_step_end in GS. destruct GS as (c & rest & E & CASES). inversion E; subst c0 rest0.
    destruct CASES as [(NS & ME & (k & FE) & -> & _)|[(NS & HS & -> & _)|[(NS & -> & _ & n & FR & Hn & Hns & ID)|(NS & HT & -> & _)]]].
    + eapply gs_num_err; eauto.
    + eapply gs_inval; eauto.
    + eapply gs_bad; eauto.
    + eapply gs_trunc; eauto.
Qed.

Lemma good_values_spec : forall avx2 fin fuel s vs t,
  good_values avx2 fin fuel s = Some (vs, t) -> values_of fuel s fin = (vs, t).
Proof.
  induction fuel as [|f IH]; intros s vs t H; [discriminate|]. rewrite good_values_S in H. simpl.
  destruct (drop_ws s) as [|c0 rest0] eqn:D.
  { inversion H; subst. reflexivity. }
  cbv beta iota zeta in H.
  destruct (gv_step avx2 fin (c0 :: rest0)) as [n v|t'|] eqn:GS; [| |discriminate].
  - destruct (good_values avx2 fin f (skipn n (c0 :: rest0))) as [[vs' t']|] eqn:G; [|discriminate].
    inversion H; subst vs t'. clear H.
    apply gv_step_val in GS. destruct GS as (c & rest & E & Ev & El & _ & CASES).
    assert (CV : scan_value true (c0 :: rest0) = Complete n \/
                 (scan_value true (c0 :: rest0) = AtEnd n /\ n = length (c0 :: rest0) /\ fin = EOF)).
    { destruct CASES as [(_ & _ & _ & _ & _ & SV)|[(_ & _ & _ & _ & SV)|(_ & FE & _ & _ & _ & [SV|[SV NL]])]]; auto. }
    destruct CV as [SV|(SV & NL & FE)].
    + rewrite SV. rewrite (IH _ _ _ G). subst v. reflexivity.
    + rewrite SV. subst fin.
      rewrite NL, skipn_all in G. destruct f; [discriminate|]. simpl in G.
      injection G as G1 G2. subst vs' t. rewrite Ev. reflexivity.
  - inversion H; subst vs t'. clear H.
    apply gv_step_end in GS. destruct GS as (c & rest & E & CASES).
    destruct CASES as [(_ & _ & (k & FE) & -> & (n & SV))|[(_ & _ & -> & SV)|[(_ & -> & SV & _)|(_ & _ & -> & SV)]]];
      rewrite SV; try reflexivity.
    subst fin. reflexivity.
Qed.

Lemma good_values_length : forall avx2 fin fuel s vs t, good_values avx2 fin fuel s = Some (vs, t) -> length vs < fuel.
Proof.
  induction fuel as [|f IH]; intros s vs t H; [discriminate|]. rewrite good_values_S in H.
  destruct (drop_ws s) as [|c0 rest0]. { inversion H; simpl; lia. }
  cbv beta iota zeta in H.
  destruct (gv_step avx2 fin (c0 :: rest0)) as [n v|t'|]; [| |discriminate].
  - destruct (good_values avx2 fin f (skipn n (c0 :: rest0))) as [[vs' t']|] eqn:G; [|discriminate].
    inversion H; subst. apply IH in G. simpl. lia.
  - inversion H; simpl; lia.
Qed.

(* For every stream that passes the guard, EVERY reader oracle that delivers these bytes - whatever the cuts,
   empty reads, final condition delivered with or after the last data, buffer sizes - makes the model return
   exactly the values and the terminal condition of the value-by-value specification. *)
Theorem stream_chunk_independent_partial : forall avx2 pc r vs t,
  (1 <= pc)%nat -> wf_reader r = true ->
  good_values avx2 (rfin r) (S (length (rd_bytes r))) (rd_bytes r) = Some (vs, t) ->
  run avx2 pc r = stream_values (rd_bytes r) (rfin r) /\ run avx2 pc r = (vs, t).
Proof.
  intros avx2 pc r vs t Hp Hw G.
  pose proof (good_values_spec _ _ _ _ _ _ G) as SP.
  pose proof (good_values_good_stream _ _ _ _ _ _ G) as GS.
  pose proof (good_values_length _ _ _ _ _ _ G) as GL.
  destruct (decode_all_good _ _ _ _ _ _ GS (new_decoder r pc) (S (length (rd_bytes r)))
              (new_decoder_inv r pc Hw Hp) eq_refl eq_refl GL) as (st' & DA).
  unfold run, stream_values. rewrite DA, SP. simpl. split; reflexivity.
Qed.

(* two chunkings of the same bytes (with the same final condition) give the same result *)
Corollary stream_same_bytes_same_result : forall avx2 pc1 pc2 r1 r2 vs t,
  (1 <= pc1)%nat -> (1 <= pc2)%nat -> wf_reader r1 = true -> wf_reader r2 = true ->
  rd_bytes r1 = rd_bytes r2 -> rfin r1 = rfin r2 ->
  good_values avx2 (rfin r1) (S (length (rd_bytes r1))) (rd_bytes r1) = Some (vs, t) ->
  run avx2 pc1 r1 = run avx2 pc2 r2.
Proof.
  intros avx2 pc1 pc2 r1 r2 vs t H1 H2 W1 W2 EB EF G.
  destruct (stream_chunk_independent_partial avx2 pc1 r1 vs t H1 W1 G) as [_ ->].
  rewrite EB, EF in G.
  destruct (stream_chunk_independent_partial avx2 pc2 r2 vs t H2 W2 G) as [_ ->].
  reflexivity.
Qed.

Lemma drop_ws_length_le : forall l, length (drop_ws l) <= length l.
Proof. induction l; simpl; [lia|]. destruct (is_space a); simpl; lia. Qed.

Lemma inner_decode_len : forall w v, inner_decode w = Some v -> length v <= length w.
Proof.
  intros w v H. unfold inner_decode in H.
  destruct (scan_value false w) as [n|n| |]; try discriminate; inversion H; subst;
    (eapply Nat.le_trans; [apply drop_ws_length_le|]); rewrite firstn_length; lia.
Qed.

(* Decode never returns a value without consuming input: every state reached from a fresh decoder, every reader *)
Theorem decode_progress_value : forall avx2 st v st',
  BInv st -> Decode (skip_one_fast avx2) inner_decode st = (RVal v, st') -> (InputOffset st < InputOffset st')%nat.
Proof.
  intros avx2 st v st' B H.
  exact (decode_progress _ _ (skip_one_fast_pos avx2) inner_decode_pos inner_decode_len st v st' B H).
Qed.

(* exact accounting: `scanned + len(buf) + undelivered bytes` (= the length of the stream, for a decoder started on it)
   is unchanged by every successful Decode, which ends with scanp = 0; hence InputOffset() is exactly the number of
   bytes that are no longer pending *)
Theorem input_offset_exact : forall avx2 st v st',
  BInv st -> Decode (skip_one_fast avx2) inner_decode st = (RVal v, st') ->
  acct st' = acct st /\ InputOffset st' + length (pending st') = acct st.
Proof.
  intros avx2 st v st' B H.
  destruct (decode_acct _ _ (skip_one_fast_pos avx2) inner_decode_pos inner_decode_len st v st' B H) as (A & _ & Z).
  split; [exact A|]. rewrite <- A. unfold InputOffset, pending, acct. rewrite Z. simpl. rewrite app_length. lia.
Qed.

Lemma acct_new_decoder : forall r pc, acct (new_decoder r pc) = length (rd_bytes r).
Proof. intros. unfold acct. simpl. lia. Qed.

(* InputOffset() after a value lies between the end of that value and the beginning of the next token - both are
   positions in the byte stream (acct st - what is left), so the bounds do not depend on the chunking *)
Theorem input_offset_bounds : forall avx2 st n v,
  Inv st -> BInv st ->
  gv_step avx2 (rfin (rd st)) (drop_ws (pending st)) = GVal n v ->
  exists st', Decode (skip_one_fast avx2) inner_decode st = (RVal v, st') /\
    acct st - length (skipn n (drop_ws (pending st))) <= InputOffset st' /\
    InputOffset st' <= acct st - length (drop_ws (skipn n (drop_ws (pending st)))).
Proof.
  intros avx2 st n v I B GS.
  destruct (drop_ws (pending st)) as [|c0 rest0] eqn:D; [discriminate|].
  apply gv_step_val in GS. destruct GS as (c & rest & E & Ev & El & _ & CASES). inversion E; subst c0 rest0.
  assert (FIN : forall st' : sd,
            Decode (skip_one_fast avx2) inner_decode st = (RVal v, st') ->
            drop_ws (pending st') = drop_ws (skipn n (c :: rest)) ->
            length (pending st') <= length (skipn n (c :: rest)) ->
            exists st'0, Decode (skip_one_fast avx2) inner_decode st = (RVal v, st'0) /\
              acct st - length (skipn n (c :: rest)) <= InputOffset st'0 /\
              InputOffset st'0 <= acct st - length (drop_ws (skipn n (c :: rest)))).
  { intros st' DE P' PL'. exists st'. split; [exact DE|].
    destruct (input_offset_exact avx2 st v st' B DE) as [_ EX].
    pose proof (drop_ws_length_le (pending st')) as DL. rewrite P' in DL. lia. }
  destruct CASES as [(NS & FR & Hn & Hns & ID & _)|[(NS & ML & ID & Hl & _)|(NS & FE & ME & ID & Hl & _)]].
  - destruct (Decode_val _ _ st c rest n v I D NS FR Hn Hns ID) as (st' & DE & _ & P' & _ & _ & PL'). eauto.
  - rewrite <- El in *.
    destruct (Decode_num (skip_one_fast avx2) inner_decode st c rest v I D NS ML ID Hl) as (st' & DE & _ & P' & _ & _ & PL'). eauto.
  - rewrite <- El in *.
    pose proof (Decode_num_end (skip_one_fast avx2) inner_decode st c rest I D NS ME) as DN. rewrite FE in DN.
    destruct (DN v ID Hl) as (st' & DE & _ & P' & _ & _ & PL'). eauto.
Qed.

(* ... and it never returns nil without a value: RNil is not a result of Decode *)
Theorem decode_never_nil : forall avx2 st, Inv st -> fst (Decode (skip_one_fast avx2) inner_decode st) <> RNil.
Proof.
  intros avx2 st I. unfold Decode. rewrite (inv_err _ I).
  destruct (peek (S (rd_fuel (rd st))) None st) as [[c|e|] st1] eqn:PK.
  - (* a value, an error or (never) fuel: inspect the two paths *)
    destruct (N.eqb c 45 || is_digit c)%bool.
    + unfold decodeNumber.
      destruct (decodeNumber_loop (S (rd_fuel (rd st1))) (S (scanp st1)) st1) as [[i| |] st2] eqn:DL.
      * destruct (inner_decode _); simpl; discriminate.
      * assert (E : exists e, err st2 = Some e).
        { clear PK. revert DL. generalize (S (rd_fuel (rd st1))) (S (scanp st1)). intros n. revert st1.
          induction n; intros st1 i DL; simpl in DL; [discriminate|].
          destruct (_ <? _) in DL; [discriminate|].
          destruct (rd_read _ _) as [[data e] r'] in DL.
          destruct e as [[|k]|]; destruct data; try (eapply IHn; eauto; fail); try discriminate.
          inversion DL; subst. simpl. eauto. }
        destruct E as (e & ->). simpl. discriminate.
      * simpl. discriminate.
    + clear PK. generalize (S (rd_fuel (rd st1))) (scanp st1). intros n. revert st1.
      induction n; intros st1 s; simpl; [discriminate|].
      destruct (skip_one_fast avx2 _) as [y x| |].
      * destruct (_ <? _); [simpl; discriminate|]. destruct (inner_decode _); simpl; discriminate.
      * destruct (readMore st1) as [[[|]|] st2] eqn:RM.
        -- apply IHn.
        -- assert (E : exists e, err st2 = Some e).
           { unfold readMore in RM. destruct (err st1) eqn:E1; [inversion RM; subst; eauto|].
             revert RM. generalize (S (rd_fuel (rd st1))). clear. intros n. revert st1.
             induction n; intros st1 RM; simpl in RM; [discriminate|].
             destruct (rd_read _ _) as [[data e] r'] in RM.
             destruct (scan _) as [[c|] st3] in RM; [discriminate|].
             destruct e; [inversion RM; subst; simpl; eauto|]. eapply IHn; eauto. }
           destruct E as ([[|k]| |] & ->); simpl; discriminate.
        -- simpl. discriminate.
      * simpl. discriminate.
  - pose proof (peek_spec _ _ _ _ _ I PK (Nat.lt_succ_diag_r _)) as SP.
    destruct (drop_ws (pending st)).
    + destruct SP as (_ & ->). simpl. discriminate.
    + destruct SP as (C & _). discriminate.
  - simpl. discriminate.
Qed.

(* ---- More() and Buffered() as documented for encoding/json on top-level streams *)

(* More(): true iff the next non-space byte of the stream exists and is neither ] nor }; nothing is lost by asking *)
Theorem more_spec : forall st r st',
  Inv st -> More st = (r, st') ->
  match drop_ws (pending st) with
  | [] => r = MFalse /\ err st' = Some (DIo (rfin (rd st)))
  | c :: R' => r = (if (N.eqb c 93 || N.eqb c 125)%bool then MFalse else MTrue) /\ Inv st' /\ pending st' = c :: R'
  end.
Proof.
  intros st r st' I H. unfold More in H. rewrite (inv_err _ I) in H.
  destruct (peek (S (rd_fuel (rd st))) None st) as [res st1] eqn:PK.
  pose proof (peek_spec _ _ _ _ _ I PK (Nat.lt_succ_diag_r _)) as SP.
  destruct (drop_ws (pending st)) as [|c R'].
  - destruct SP as (-> & E). inversion H; subst. auto.
  - destruct SP as (-> & I1 & P1 & _). inversion H; subst. auto.
Qed.

(* Buffered(): the data remaining in the decoder's buffer - followed by what the reader has not delivered yet it is
   exactly the unconsumed rest of the stream *)
Theorem buffered_spec : forall st, BInv st -> exists b, Buffered st = Some b /\ pending st = b ++ rd_bytes (rd st).
Proof.
  intros st B. unfold Buffered, BInv in *. apply Nat.leb_le in B. rewrite B. eexists. split; reflexivity.
Qed.

(* ---- non-vacuity: a stream of an object, a number, a string with an escaped quote and brackets, an array,
   literals, numbers at the very end *)
Definition ex_stream : bytes :=
  [123; 34; 97; 34; 58; 91; 49; 44; 50; 93; 125; 32; 45; 49; 46; 53; 101; 51; 32; 34; 92; 34; 93; 125; 34; 10;
   91; 93; 116; 114; 117; 101; 32; 110; 117; 108; 108; 102; 97; 108; 115; 101; 10; 52; 50]%N.
Example ex_stream_good : forall avx2,
  exists vs, good_values avx2 EOF (S (length ex_stream)) ex_stream = Some (vs, TIo EOF) /\ length vs = 8.
Proof. intros []; eexists; vm_compute; split; reflexivity. Qed.
Example ex_stream_good_err : forall avx2,
  exists vs, good_values avx2 (ErrR 7) (S (length ex_stream)) ex_stream = Some (vs, TIo (ErrR 7)) /\ length vs = 7.
Proof. intros []; eexists; vm_compute; split; reflexivity. Qed.
Example ex_reader_wf :
  wf_reader (mk_reader [(firstn 3 ex_stream, None); ([], None); (skipn 3 ex_stream, Some (ErrR 7))] (ErrR 7)) = true.
Proof. reflexivity. Qed.
