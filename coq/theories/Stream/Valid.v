(* C17 - the guard of the chunk-independence theorem contains every stream of VALID top-level values (for the
   reference scanner Json1.scan_value): objects, arrays, strings, literals, numbers, separated by white space or
   nothing, followed by one of the allowed tails.  Nothing about the fast skipper, decodeNumber or the inner decoder
   is assumed for these streams: it is proved here that they do the right thing on valid values. *)
From Coq Require Import NArith List Bool Arith Lia.
From SV.Stream Require Import Skip SkipProofs Json1 SkipValid Dec Spec DecProofs1 DecProofs2 DecProofs.
Import ListNotations.

(* ---- lenient scanner = strict scanner on everything the strict one does not reject *)
Lemma vscan_lenient_gen : forall l m stk i R,
  vscan true m stk l i = R -> R <> Invalid -> vscan false m stk l i = R.
Proof.
  induction l as [|c l IH]; intros m stk i R H NI; simpl in *; [exact H|].
  destruct (step true m stk c) as [m' stk'| | |] eqn:S.
  - rewrite step_lenient by (rewrite S; discriminate). rewrite S. auto.
  - rewrite step_lenient by (rewrite S; discriminate). rewrite S. auto.
  - rewrite step_lenient by (rewrite S; discriminate). rewrite S. auto.
  - congruence.
Qed.

(* the scan of any prefix that holds at least the value ends at the same place *)
Lemma vscan_prefix_ge : forall l strict m stk i n k,
  vscan strict m stk l i = Complete n -> n - i <= k ->
  vscan strict m stk (firstn k l) i = Complete n \/ (vscan strict m stk (firstn k l) i = AtEnd n /\ k = n - i).
Proof.
  induction l as [|c l IH]; intros strict m stk i n k H L; simpl in H.
  - destruct stk; [destruct (num_final m)|]; discriminate.
  - destruct (step strict m stk c) as [m' stk'| | |] eqn:ST.
    + assert (L1 : S i <= n) by (eapply vscan_mono; left; exact H).
      destruct k as [|k]; [lia|]. cbn [firstn vscan]. rewrite ST.
      destruct (IH strict m' stk' (S i) n k H ltac:(lia)) as [A|[A B]]; [left; exact A|right; split; [exact A|lia]].
    + inversion H; subst. destruct k as [|k]; [lia|]. cbn [firstn vscan]. rewrite ST. left. reflexivity.
    + inversion H; subst. destruct k as [|k].
      * cbn [firstn vscan]. apply step_doneexcl in ST. destruct ST as [-> F]. rewrite F. right. split; [reflexivity|lia].
      * cbn [firstn vscan]. rewrite ST. left. reflexivity.
    + discriminate.
Qed.

(* the inner decoder on any framed copy that holds at least the valid value returns exactly its text *)
Lemma inner_on_valid_ge : forall c rest n k,
  is_space c = false -> scan_value true (c :: rest) = Complete n -> n <= k ->
  inner_decode (firstn k (c :: rest)) = Some (firstn n (c :: rest)) /\ 1 <= n.
Proof.
  intros c rest n k Hc H L. unfold scan_value in H.
  apply vscan_lenient_gen in H; [|discriminate].
  assert (L1 : 1 <= n).
  { cbn [vscan step] in H. rewrite Hc in H.
    pose proof (begin_value_cont [] c) as BC.
    destruct (begin_value [] c) as [m' stk'| | |]; try contradiction; [|discriminate].
    eapply vscan_mono; left; exact H. }
  split; [|exact L1].
  destruct (vscan_prefix_ge _ _ _ _ _ _ k H ltac:(lia)) as [A|[A _]];
    unfold inner_decode, scan_value; rewrite A; f_equal;
    rewrite firstn_firstn, Nat.min_l by lia; destruct n; try lia; cbn [firstn drop_ws]; rewrite Hc; reflexivity.
Qed.

(* ---- numbers in the reference scanner: only number bytes, and nothing but the end of the input ends them late *)
Definition nmode (m : mode) : bool :=
  match m with
  | MNumMinus | MNumZero | MNumInt | MNumDot | MNumFrac | MNumE | MNumESign | MNumExp => true
  | _ => false
  end.

Lemma nmode_step : forall strict m c m' stk',
  nmode m = true -> step strict m [] c = Cont m' stk' -> stk' = [] /\ nmode m' = true /\ is_number_byte c = true.
Proof.
  intros strict m c m' stk' NM H. unfold is_number_byte.
  destruct m; try discriminate; cbn [step num_end] in H;
    repeat match type of H with
           | (if ?b then _ else _) = _ => let E := fresh "E" in destruct b eqn:E
           end; try discriminate; inversion H; subst; (split; [reflexivity|]); (split; [reflexivity|]);
    repeat match goal with
           | E : is_e _ = true |- _ => unfold is_e in E
           | E : (_ || _)%bool = true |- _ => apply orb_true_iff in E; destruct E
           | E : N.eqb _ _ = true |- _ => apply N.eqb_eq in E; subst
           end; try reflexivity;
    try (rewrite E; reflexivity); try (rewrite E0; reflexivity); try (rewrite E1; reflexivity).
Qed.

Lemma nmode_not_doneincl : forall strict m c, nmode m = true -> step strict m [] c <> DoneIncl.
Proof.
  intros strict m c NM. destruct m; try discriminate; cbn [step num_end];
    repeat match goal with |- context [if ?b then _ else _] => destruct b end; discriminate.
Qed.

Lemma vscan_num : forall l strict m i n,
  nmode m = true ->
  (vscan strict m [] l i = Complete n -> n - i <= num_run l /\ i <= n) /\
  (vscan strict m [] l i = AtEnd n -> n = i + length l /\ num_run l = length l).
Proof.
  induction l as [|c l IH]; intros strict m i n NM; simpl.
  - destruct (num_final m); split; intros H; inversion H; subst; simpl; lia.
  - destruct (step strict m [] c) as [m' stk'| | |] eqn:ST.
    + destruct (nmode_step _ _ _ _ _ NM ST) as (-> & NM' & NB). rewrite NB.
      destruct (IH strict m' (S i) n NM') as [A B].
      split; intros H; [apply A in H|apply B in H]; lia.
    + exfalso. eapply nmode_not_doneincl; eauto.
    + split; intros H; inversion H; subst. lia.
    + split; intros H; discriminate.
Qed.

Lemma num_start_scan : forall strict c rest,
  is_num_start c = true ->
  is_space c = false /\ exists m, nmode m = true /\ scan_value strict (c :: rest) = vscan strict m [] rest 1.
Proof.
  intros strict c rest H. unfold is_num_start in H.
  assert (SP : is_space c = false).
  { apply orb_true_iff in H. destruct H as [H|H].
    - apply N.eqb_eq in H. subst. reflexivity.
    - unfold is_digit in H. apply andb_true_iff in H. destruct H as [A B]. apply N.leb_le in A, B.
      unfold is_space. repeat (apply orb_false_iff; split); apply N.eqb_neq; lia. }
  split; [exact SP|]. unfold scan_value. cbn [vscan step]. rewrite SP. unfold begin_value.
  assert (N1 : N.eqb c 34 = false /\ N.eqb c 123 = false /\ N.eqb c 91 = false /\ N.eqb c 116 = false /\
               N.eqb c 102 = false /\ N.eqb c 110 = false).
  { apply orb_true_iff in H. destruct H as [H|H].
    - apply N.eqb_eq in H. subst. repeat split; reflexivity.
    - unfold is_digit in H. apply andb_true_iff in H. destruct H as [A B]. apply N.leb_le in A, B.
      repeat split; apply N.eqb_neq; lia. }
  destruct N1 as (E1 & E2 & E3 & E4 & E5 & E6). rewrite E1, E2, E3, E4, E5, E6.
  destruct (N.eqb c 45) eqn:C1; [exists MNumMinus; split; reflexivity|].
  destruct (N.eqb c 48) eqn:C2; [exists MNumZero; split; reflexivity|].
  simpl in H. rewrite H. exists MNumInt. split; reflexivity.
Qed.

Lemma num_run_le' : forall l, num_run l <= length l.
Proof. induction l; simpl; [lia|]. destruct (is_number_byte a); simpl; lia. Qed.

(* a valid number followed by something: decodeNumber's run of number bytes contains it *)
Lemma number_complete : forall c rest n,
  is_num_start c = true -> scan_value true (c :: rest) = Complete n ->
  1 <= n <= S (num_run rest) /\ is_space c = false.
Proof.
  intros c rest n NS H. destruct (num_start_scan true c rest NS) as (SP & m & NM & E). rewrite E in H.
  destruct (vscan_num rest true m 1 n NM) as [A _]. apply A in H. split; [lia|exact SP].
Qed.

Lemma number_atend : forall c rest n,
  is_num_start c = true -> scan_value true (c :: rest) = AtEnd n ->
  n = length (c :: rest) /\ S (num_run rest) = length (c :: rest) /\ is_space c = false.
Proof.
  intros c rest n NS H. destruct (num_start_scan true c rest NS) as (SP & m & NM & E). rewrite E in H.
  destruct (vscan_num rest true m 1 n NM) as [_ B]. apply B in H. simpl. split; [lia|]. split; [lia|exact SP].
Qed.

Lemma inner_atend : forall c rest n,
  is_space c = false -> scan_value true (c :: rest) = AtEnd n -> n = length (c :: rest) ->
  inner_decode (c :: rest) = Some (c :: rest).
Proof.
  intros c rest n SP H E. unfold scan_value in H. apply vscan_lenient_gen in H; [|discriminate].
  unfold inner_decode, scan_value. rewrite H, E, firstn_all. cbn [drop_ws]. rewrite SP. reflexivity.
Qed.

(* ---- a truncated object / array / string / literal (reference scanner: incomplete) is "EOF inside the value"
   for the fast skipper *)
Lemma vscan_cscan_inc : forall l strict K m stk i d j,
  bottom K stk -> top_ok m stk -> S d = kcount K stk ->
  vscan strict m stk l i = Incomplete ->
  cscan (lcK K) (rcK K) (in_str m) (in_esc m) d l j = None.
Proof.
  induction l as [|c l IH]; intros strict K m stk i d j B T D H; simpl in H; [reflexivity|].
  pose proof (step_sim strict K m stk c d B T D) as SS.
  destruct (step strict m stk c) as [m' stk'| | |]; unfold sim_res in SS.
  - destruct SS as (B' & T' & d' & D' & EQ). rewrite EQ. eapply IH; eauto.
  - discriminate.
  - contradiction.
  - discriminate.
Qed.

Lemma vscan_sscan_inc : forall l strict m i j,
  str_mode m -> vscan strict m [] l i = Incomplete -> sscan (in_esc m) l j = None.
Proof.
  induction l as [|c l IH]; intros strict m i j SM H; simpl in H; [reflexivity|].
  destruct SM as [->|[->|[k ->]]]; cbn [step in_esc sscan] in *.
  - destruct (N.eqb c 34) eqn:C1; [simpl in H; discriminate|].
    destruct (N.eqb c 92) eqn:C2.
    + exact (IH strict (MStrEsc false) (S i) (S j) ltac:(right; left; reflexivity) H).
    + destruct (strict && N.ltb c 32)%bool; [discriminate|].
      exact (IH strict (MStr false) (S i) (S j) ltac:(left; reflexivity) H).
  - destruct (_ || _)%bool.
    + exact (IH strict (MStr false) (S i) (S j) ltac:(left; reflexivity) H).
    + destruct (N.eqb c 117); [|discriminate].
      exact (IH strict (MStrU false 4) (S i) (S j) ltac:(right; right; eauto) H).
  - destruct (is_hex c) eqn:C1; [|discriminate].
    assert (E92 : N.eqb c 92 = false) by (facts; apply N.eqb_neq; lia).
    assert (E34 : N.eqb c 34 = false) by (facts; apply N.eqb_neq; lia).
    rewrite E92, E34.
    destruct k as [|[|k']].
    + exact (IH strict (MStr false) (S i) (S j) ltac:(left; reflexivity) H).
    + exact (IH strict (MStr false) (S i) (S j) ltac:(left; reflexivity) H).
    + exact (IH strict (MStrU false (S k')) (S i) (S j) ltac:(right; right; eauto) H).
Qed.

Lemma vscan_lit_inc : forall strict lit l i,
  lit <> [] -> vscan strict (MLit lit) [] l i = Incomplete -> length l < length lit.
Proof.
  intros strict lit. induction lit as [|x lit IH]; intros l i NE H; [congruence|].
  destruct l as [|a l]; [simpl; lia|]. simpl in H.
  destruct (N.eqb a x); [|discriminate].
  destruct lit as [|y lit'].
  - simpl in H. discriminate.
  - apply IH in H; [simpl in *; lia|discriminate].
Qed.

Theorem skip_on_incomplete : forall avx2 strict c rest,
  selfdelim c = true -> scan_value strict (c :: rest) = Incomplete ->
  skip_one_fast avx2 (c :: rest) = SkEof.
Proof.
  intros avx2 strict c rest Hc H.
  assert (Hns : is_space c = false).
  { apply selfdelim_cases in Hc. destruct Hc as [E|[E|[E|[E|[E|E]]]]]; subst; reflexivity. }
  unfold scan_value in H. cbn [vscan step] in H. rewrite Hns in H.
  unfold skip_one_fast. rewrite first_ns_cons_ns by auto.
  apply selfdelim_cases in Hc. destruct Hc as [E|[E|[E|[E|[E|E]]]]]; subst c; cbn in H |- *.
  - pose proof (vscan_cscan_inc rest strict false MValOrClose [false] 1 0 0
               ltac:(exists []; reflexivity) ltac:(simpl; eauto) eq_refl H) as A. simpl in A. rewrite A. reflexivity.
  - pose proof (vscan_cscan_inc rest strict true MKeyOrClose [true] 1 0 0
               ltac:(exists []; reflexivity) ltac:(simpl; eauto) eq_refl H) as A. simpl in A. rewrite A. reflexivity.
  - pose proof (vscan_sscan_inc rest strict (MStr false) 1 0 ltac:(left; reflexivity) H) as A. simpl in A. rewrite A. reflexivity.
  - apply vscan_lit_inc in H; [|discriminate]. simpl in H.
    destruct rest as [|? [|? [|? ?]]]; simpl in *; try lia; reflexivity.
  - apply vscan_lit_inc in H; [|discriminate]. simpl in H.
    destruct rest as [|? [|? [|? ?]]]; simpl in *; try lia; reflexivity.
  - apply vscan_lit_inc in H; [|discriminate]. simpl in H.
    destruct rest as [|? [|? [|? [|? ?]]]]; simpl in *; try lia; reflexivity.
Qed.

(* a byte that cannot start a value *)
Lemma skip_on_invalid_head : forall avx2 c rest,
  is_space c = false -> is_num_start c = false -> selfdelim c = false -> c <> 0%N ->
  skip_one_fast avx2 (c :: rest) = SkInval /\ scan_value true (c :: rest) = Invalid.
Proof.
  intros avx2 c rest SP NS SD NZ.
  unfold is_num_start in NS. unfold selfdelim in SD.
  rewrite !orb_false_iff in SD. destruct SD as (((((D1 & D2) & D3) & D4) & D5) & D6).
  split.
  - unfold skip_one_fast. rewrite first_ns_cons_ns by auto. rewrite D1, D2, D3, NS, D4, D5, D6. simpl.
    apply N.eqb_neq in NZ. rewrite NZ. reflexivity.
  - unfold scan_value. cbn [vscan step]. rewrite SP. unfold begin_value.
    apply orb_false_iff in NS. destruct NS as [N1 N2].
    rewrite D3, D2, D1, D4, D6, D5, N1.
    assert (N.eqb c 48 = false) as ->.
    { apply N.eqb_neq. intros ->. discriminate. }
    rewrite N2. reflexivity.
Qed.

(* ---- streams of valid top-level values, followed by an allowed tail *)
Inductive valid_stream (fin : ioerr) : bytes -> Prop :=
| vs_end : forall s, drop_ws s = [] -> valid_stream fin s
| vs_value : forall s c rest n,
    (* a valid object, array, string or literal; what follows is again a valid stream (separator: white space or nothing) *)
    drop_ws s = c :: rest -> selfdelim c = true -> scan_value true (c :: rest) = Complete n ->
    valid_stream fin (skipn n (c :: rest)) -> valid_stream fin s
| vs_number : forall s c rest n,
    (* a valid number followed by another byte; side condition: it is not glued to further number bytes that run up
       to the end of the data of a FAILING reader (see Witness.number_run_before_reader_error_witness) *)
    drop_ws s = c :: rest -> is_num_start c = true -> scan_value true (c :: rest) = Complete n ->
    (S (num_run rest) < length (c :: rest) \/ fin = EOF) ->
    valid_stream fin (skipn n (c :: rest)) -> valid_stream fin s
| vs_number_end : forall s c rest n,
    (* a valid number that ends the stream: a value if the reader ends with io.EOF, otherwise not yet a value *)
    drop_ws s = c :: rest -> is_num_start c = true -> scan_value true (c :: rest) = AtEnd n -> valid_stream fin s
| vs_tail_invalid : forall s c rest,
    (* trailing data that begins with a byte no value can start with (']', '}', ',', ':', a letter, ...; not NUL) *)
    drop_ws s = c :: rest -> is_num_start c = false -> selfdelim c = false -> c <> 0%N -> valid_stream fin s
| vs_tail_truncated : forall s c rest,
    (* an object, array, string or literal cut off by the end of the stream *)
    drop_ws s = c :: rest -> selfdelim c = true -> scan_value true (c :: rest) = Incomplete -> valid_stream fin s.

Lemma selfdelim_props : forall c, selfdelim c = true -> is_space c = false /\ is_num_start c = false.
Proof. intros c H. apply selfdelim_cases in H. destruct H as [E|[E|[E|[E|[E|E]]]]]; subst; split; reflexivity. Qed.

Lemma dec_refl : forall (A : Type) (v : bytes) (x y : A), (if bytes_eq_dec v v then x else y) = x.
Proof. intros. destruct (bytes_eq_dec v v); congruence. Qed.

Lemma gv_step_value : forall avx2 fin c rest n,
  selfdelim c = true -> scan_value true (c :: rest) = Complete n ->
  gv_step avx2 fin (c :: rest) = GVal n (firstn n (c :: rest)).
Proof.
  intros avx2 fin c rest n SD SV. destruct (selfdelim_props c SD) as [SP NS].
  unfold gv_step. rewrite SP, NS, SD, SV. reflexivity.
Qed.

Lemma gv_step_number : forall avx2 fin c rest n,
  is_num_start c = true -> scan_value true (c :: rest) = Complete n ->
  (S (num_run rest) < length (c :: rest) \/ fin = EOF) ->
  gv_step avx2 fin (c :: rest) = GVal n (firstn n (c :: rest)) /\ 1 <= n <= length (c :: rest).
Proof.
  intros avx2 fin c rest n NS SV SIDE.
  destruct (number_complete c rest n NS SV) as [[L1 L2] SP].
  pose proof (num_run_le' rest) as RL.
  assert (LEN : length (firstn n (c :: rest)) = n) by (rewrite firstn_length; simpl in *; lia).
  split; [|simpl in *; lia].
  unfold gv_step. rewrite SP, NS. cbv zeta.
  destruct (S (num_run rest) <? length (c :: rest)) eqn:ML.
  - destruct (inner_on_valid_ge c rest n (S (num_run rest)) SP SV L2) as [ID _].
    rewrite ID, SV, LEN, Nat.eqb_refl. apply Nat.leb_le in L2. rewrite L2. simpl. apply dec_refl.
  - apply Nat.ltb_ge in ML. assert (ME : S (num_run rest) = length (c :: rest)) by (simpl in *; lia).
    rewrite ME, Nat.eqb_refl. destruct SIDE as [SIDE| ->]; [lia|].
    destruct (inner_on_valid_ge c rest n (length (c :: rest)) SP SV ltac:(simpl in *; lia)) as [ID _].
    rewrite firstn_all in ID. rewrite ID, SV, LEN, Nat.eqb_refl.
    assert (n <=? length (c :: rest) = true) as -> by (apply Nat.leb_le; simpl in *; lia).
    simpl. apply dec_refl.
Qed.

Lemma gv_step_number_end : forall avx2 fin c rest n,
  is_num_start c = true -> scan_value true (c :: rest) = AtEnd n ->
  n = length (c :: rest) /\
  gv_step avx2 fin (c :: rest) = match fin with EOF => GVal n (c :: rest) | _ => GEnd (TIo fin) end.
Proof.
  intros avx2 fin c rest n NS SV.
  destruct (number_atend c rest n NS SV) as (EN & ME & SP). split; [exact EN|].
  unfold gv_step. rewrite SP, NS. cbv zeta. rewrite ME, Nat.ltb_irrefl, Nat.eqb_refl.
  destruct fin as [|k].
  - rewrite (inner_atend c rest n SP SV EN), SV. rewrite <- EN, Nat.eqb_refl. simpl.
    rewrite EN, firstn_all. apply dec_refl.
  - rewrite SV. reflexivity.
Qed.

Lemma gv_step_tail_invalid : forall avx2 fin c rest,
  is_space c = false -> is_num_start c = false -> selfdelim c = false -> c <> 0%N ->
  gv_step avx2 fin (c :: rest) = GEnd TSyntax.
Proof.
  intros avx2 fin c rest SP NS SD NZ.
  destruct (skip_on_invalid_head avx2 c rest SP NS SD NZ) as [SK SV].
  unfold gv_step. rewrite SP, NS, SD, SK, SV. reflexivity.
Qed.

Lemma gv_step_tail_truncated : forall avx2 fin c rest,
  selfdelim c = true -> scan_value true (c :: rest) = Incomplete ->
  gv_step avx2 fin (c :: rest) = GEnd (match fin with EOF => TSyntax | _ => TIo fin end).
Proof.
  intros avx2 fin c rest SD SV. destruct (selfdelim_props c SD) as [SP NS].
  unfold gv_step. rewrite SP, NS, SD, SV, (skip_on_incomplete avx2 true c rest SD SV). reflexivity.
Qed.

Lemma drop_ws_len : forall l, length (drop_ws l) <= length l.
Proof. induction l; simpl; [lia|]. destruct (is_space a); simpl; lia. Qed.

(* the grammar-level predicate is contained in the computable guard *)
Theorem valid_stream_good : forall avx2 fin s,
  valid_stream fin s -> forall fuel, length s < fuel -> exists vs t, good_values avx2 fin fuel s = Some (vs, t).
Proof.
  intros avx2 fin s V.
  induction V as [s E|s c rest n E SD SV V IH|s c rest n E NS SV SIDE V IH|s c rest n E NS SV|s c rest E NS SD NZ|s c rest E SD SV];
    intros fuel LF; (destruct fuel as [|f]; [lia|]); rewrite good_values_S, E; cbv beta iota zeta.
  - eauto.
  - rewrite (gv_step_value avx2 fin c rest n SD SV).
    pose proof (drop_ws_len s) as DL. rewrite E in DL.
    destruct (skip_on_valid avx2 true c rest n SD SV) as (_ & Hn & _).
    destruct (IH f ltac:(rewrite skipn_length; lia)) as (vs & t & G). rewrite G. eauto.
  - destruct (gv_step_number avx2 fin c rest n NS SV SIDE) as [GS Hn]. rewrite GS.
    pose proof (drop_ws_len s) as DL. rewrite E in DL.
    destruct (IH f ltac:(rewrite skipn_length; lia)) as (vs & t & G). rewrite G. eauto.
  - destruct (gv_step_number_end avx2 fin c rest n NS SV) as [EN GS]. rewrite GS.
    destruct fin as [|k]; [|eauto].
    pose proof (drop_ws_len s) as DL. rewrite E in DL.
    rewrite EN, skipn_all. destruct f as [|f']; [simpl in *; lia|]. simpl. eauto.
  - assert (SP : is_space c = false) by (eapply drop_ws_head_ns; eauto).
    rewrite (gv_step_tail_invalid avx2 fin c rest SP NS SD NZ). eauto.
  - rewrite (gv_step_tail_truncated avx2 fin c rest SD SV). eauto.
Qed.

(* Chunk independence for every stream of valid values: no guard to compute, nothing about the skipper / decodeNumber /
   the inner decoder assumed *)
Theorem stream_chunk_independent_valid : forall avx2 pc r,
  (1 <= pc)%nat -> wf_reader r = true -> valid_stream (rfin r) (rd_bytes r) ->
  run avx2 pc r = stream_values (rd_bytes r) (rfin r).
Proof.
  intros avx2 pc r Hp Hw V.
  destruct (valid_stream_good avx2 (rfin r) (rd_bytes r) V (S (length (rd_bytes r))) ltac:(lia)) as (vs & t & G).
  exact (proj1 (stream_chunk_independent_partial avx2 pc r vs t Hp Hw G)).
Qed.

(* non-vacuity: the example stream is a valid stream *)
Example ex_stream_valid : valid_stream EOF ex_stream.
Proof.
  eapply vs_value with (c := 123%N) (n := 11); [reflexivity|reflexivity|vm_compute; reflexivity|].
  eapply vs_number with (c := 45%N) (n := 6); [reflexivity|reflexivity|vm_compute; reflexivity|left; vm_compute; lia|].
  eapply vs_value with (c := 34%N) (n := 6); [reflexivity|reflexivity|vm_compute; reflexivity|].
  eapply vs_value with (c := 91%N) (n := 2); [reflexivity|reflexivity|vm_compute; reflexivity|].
  eapply vs_value with (c := 116%N) (n := 4); [reflexivity|reflexivity|vm_compute; reflexivity|].
  eapply vs_value with (c := 110%N) (n := 4); [reflexivity|reflexivity|vm_compute; reflexivity|].
  eapply vs_value with (c := 102%N) (n := 5); [reflexivity|reflexivity|vm_compute; reflexivity|].
  eapply vs_number_end with (c := 52%N); [reflexivity|reflexivity|vm_compute; reflexivity].
Qed.
