(* C17 - the former refutation witnesses.  On the pinned tree the full-strength statements were false of the faithful
   model (numbers split / swallowed / rejected depending on the chunking, malformed tails ending with a clean
   io.EOF, nil for ever on a stray closer, the newline's Write error dropped).  /repo commits 005ce23, 79f3366,
   3d2189e repaired the code; the model follows the repaired code and the same witnesses now AGREE with the
   specification.  They stay here (and in corpus/C17/witness.case, replayed on the real code by every run) as
   regression cases. *)
From Coq Require Import NArith List Bool Arith Lia.
From SV.Stream Require Import Skip Json1 Dec Spec Enc.
Import ListNotations.
Open Scope N_scope.

(* the full-strength property over the model *)
Definition chunk_independent (avx2 : bool) : Prop :=
  forall pc r, (1 <= pc)%nat -> wf_reader r = true -> run avx2 pc r = stream_values (rd_bytes r) (rfin r).

(* "12" | "3 "  is one number *)
Definition w_split : reader := mk_reader [([49; 50], None); ([51; 32], None)] EOF.
Lemma number_split_fixed : forall avx2,
  run avx2 64 w_split = ([[49; 50; 51]], TIo EOF) /\ stream_values (rd_bytes w_split) EOF = ([[49; 50; 51]], TIo EOF).
Proof. intros []; vm_compute; split; reflexivity. Qed.

(* "-" | "5"  and  "1e" | "5" *)
Definition w_sign : reader := mk_reader [([45], None); ([53], None)] EOF.
Definition w_exp : reader := mk_reader [([49; 101], None); ([53], None)] EOF.
Lemma sign_exp_split_fixed : forall avx2,
  run avx2 64 w_sign = ([[45; 53]], TIo EOF) /\ run avx2 64 w_exp = ([[49; 101; 53]], TIo EOF).
Proof. intros []; vm_compute; split; reflexivity. Qed.

(* 1 2 3 ... 9 in ONE read: nine values *)
Definition w_swallow : reader :=
  mk_reader [([49; 32; 50; 32; 51; 32; 52; 32; 53; 32; 54; 32; 55; 32; 56; 32; 57; 32], None)] EOF.
Lemma number_swallow_fixed : forall avx2,
  run avx2 64 w_swallow = stream_values (rd_bytes w_swallow) EOF /\ length (fst (run avx2 64 w_swallow)) = 9%nat.
Proof. intros []; vm_compute; split; reflexivity. Qed.

(* {"a":1} tru : an error, not a clean end; with a reader error as final condition, that error *)
Definition w_tail (fin : ioerr) : reader :=
  mk_reader [([123; 34; 97; 34; 58; 49; 125; 32; 116; 114; 117], None)] fin.
Lemma truncated_tail_fixed : forall avx2,
  run avx2 64 (w_tail EOF) = ([[123; 34; 97; 34; 58; 49; 125]], TSyntax) /\
  stream_values (rd_bytes (w_tail EOF)) EOF = ([[123; 34; 97; 34; 58; 49; 125]], TSyntax) /\
  run avx2 64 (w_tail (ErrR 3)) = ([[123; 34; 97; 34; 58; 49; 125]], TIo (ErrR 3)).
Proof. intros []; vm_compute; repeat split; reflexivity. Qed.

(* [] x *)
Definition w_garbage : reader := mk_reader [([91; 93; 32; 120], None)] EOF.
Lemma garbage_tail_fixed : forall avx2,
  run avx2 64 w_garbage = ([[91; 93]], TSyntax) /\ stream_values (rd_bytes w_garbage) EOF = ([[91; 93]], TSyntax).
Proof. intros []; vm_compute; split; reflexivity. Qed.

(* [] ] *)
Definition w_stuck : reader := mk_reader [([91; 93; 32; 93], None)] EOF.
Lemma stray_closer_fixed : forall avx2,
  run avx2 64 w_stuck = ([[91; 93]], TSyntax) /\ stream_values (rd_bytes w_stuck) EOF = ([[91; 93]], TSyntax).
Proof. intros []; vm_compute; split; reflexivity. Qed.

(* ---- what is still false of the repaired code: full strength over ALL streams and readers.
   A number followed by more number bytes up to the end of what a FAILING reader delivers is not returned:
   stream -557- with final condition ErrR 1: specification: the value -557, then the reader's error;
   model (= real code): the reader's error only. *)
Definition w_numrun : reader := mk_reader [([45; 53; 53; 55; 45], None)] (ErrR 1).
Lemma number_run_before_reader_error_witness : forall avx2,
  run avx2 64 w_numrun = ([], TIo (ErrR 1)) /\
  stream_values (rd_bytes w_numrun) (ErrR 1) = ([[45; 53; 53; 55]], TIo (ErrR 1)).
Proof. intros []; vm_compute; split; reflexivity. Qed.

Theorem chunk_independent_refuted : forall avx2, ~ chunk_independent avx2.
Proof.
  intros avx2 H.
  specialize (H 64%nat w_numrun ltac:(lia) eq_refl).
  destruct (number_run_before_reader_error_witness avx2) as [A B]. rewrite A in H.
  change (rfin w_numrun) with (ErrR 1) in H. rewrite B in H. discriminate H.
Qed.

(* Buffered() after a terminal error used to panic (scanp survived setErr, the buffer did not); repaired in d6563a0 *)
Lemma buffered_after_error_fixed : forall avx2,
  Buffered (snd (decode_all (skip_one_fast avx2) inner_decode 5 (new_decoder (w_tail EOF) 64))) = Some [].
Proof. intros []; vm_compute; reflexivity. Qed.

(* ---- encoder: the writer that fails on the newline *)
Definition w_nl : writer := {| wresp := [(2%nat, None); (0%nat, Some (WErr 7))]; wgot := [] |}.
Lemma enc_newline_error_fixed :
  Encode (Some [123; 125]) None true w_nl = (EErr (WErr 7), {| wresp := []; wgot := [123; 125] |}).
Proof. vm_compute. reflexivity. Qed.

(* all former witnesses at once (statement of Props.C17_former_witnesses_fixed) *)
Lemma former_witnesses_fixed : forall avx2,
  run avx2 64 w_split = stream_values (rd_bytes w_split) EOF /\
  run avx2 64 w_sign = ([[45; 53]], TIo EOF) /\ run avx2 64 w_exp = ([[49; 101; 53]], TIo EOF) /\
  run avx2 64 w_swallow = stream_values (rd_bytes w_swallow) EOF /\
  run avx2 64 (w_tail EOF) = stream_values (rd_bytes (w_tail EOF)) EOF /\ snd (run avx2 64 (w_tail EOF)) = TSyntax /\
  run avx2 64 w_garbage = stream_values (rd_bytes w_garbage) EOF /\
  run avx2 64 w_stuck = stream_values (rd_bytes w_stuck) EOF /\ snd (run avx2 64 w_stuck) = TSyntax /\
  fst (Encode (Some [123; 125]) None true w_nl) = EErr (WErr 7).
Proof. intros []; vm_compute; repeat split; reflexivity. Qed.
