(* C17 - specification: decoding a byte stream value by value (what encoding/json.Decoder does on the
   unchunked bytes), and the observable of the stream model that is compared with it. *)
From Coq Require Import NArith List Bool Arith Lia.
From SV.Stream Require Import Skip Json1 Dec.
Import ListNotations.

Inductive term :=
| TIo (e : ioerr)       (* the reader's final condition, unchanged: io.EOF = clean end of stream *)
| TSyntax               (* malformed or truncated data: a SyntaxError or io.ErrUnexpectedEOF, not the reader's condition *)
| TStuck                (* Decode returns nil without decoding anything *)
| TOther.               (* panic / out of fuel *)

(* values_of s fin: the values of the stream s read from a reader whose final condition is fin *)
Fixpoint values_of (fuel : nat) (s : bytes) (fin : ioerr) : list bytes * term :=
  match fuel with
  | O => ([], TOther)
  | S f =>
    match drop_ws s with
    | [] => ([], TIo fin)
    | r =>
      match scan_value true r with
      | Complete n =>
        let (vs, t) := values_of f (skipn n r) fin in (firstn n r :: vs, t)
      | AtEnd n => match fin with EOF => ([firstn n r], TIo EOF) | _ => ([], TIo fin) end
      | Incomplete => ([], match fin with EOF => TSyntax | _ => TIo fin end)
      | Invalid => ([], TSyntax)
      end
    end
  end.

Definition stream_values (s : bytes) (fin : ioerr) : list bytes * term := values_of (S (length s)) s fin.

Definition term_of (r : dres) : term :=
  match r with
  | RErr (DIo e) => TIo e
  | RErr DSyntax => TSyntax
  | RErr DUnexpEOF => TSyntax
  | RNil => TStuck
  | _ => TOther
  end.

Section WithSkip.
Variable skip : bytes -> skipres.
Variable inner : bytes -> option bytes.

(* call Decode until it does not produce a value *)
Fixpoint decode_all (fuel : nat) (st : sd) : list bytes * term * sd :=
  match fuel with
  | O => ([], TOther, st)
  | S f =>
    match Decode skip inner st with
    | (RVal v, st1) => let '(vs, t, st2) := decode_all f st1 in (v :: vs, t, st2)
    | (r, st1) => ([], term_of r, st1)
    end
  end.
End WithSkip.

(* all the bytes the oracle will ever deliver *)
Definition rd_bytes (r : reader) : bytes := concat (map fst (rchunks r)).

Definition mk_reader (chunks : list (bytes * option ioerr)) (fin : ioerr) : reader :=
  {| rchunks := chunks; rfin := fin; rlog := [] |}.

(* a well-behaved reader: the only error it ever returns is its final condition, together with or after its
   last data *)
Fixpoint wf_chunks (fin : ioerr) (l : list (bytes * option ioerr)) : bool :=
  match l with
  | [] => true
  | [(_, e)] => match e with None => true | Some e' => ioerr_eqb e' fin end
  | (_, e) :: tl => match e with None => wf_chunks fin tl | Some _ => false end
  end.
Definition wf_reader (r : reader) : bool := wf_chunks (rfin r) (rchunks r).

(* the observable of a whole run over a reader oracle *)
Definition run (avx2 : bool) (pc : nat) (r : reader) : list bytes * term :=
  fst (decode_all (skip_one_fast avx2) inner_decode (S (length (rd_bytes r))) (new_decoder r pc)).
