(* C17 - lemmas about the reader oracle, realloc, scan, refill, peek, readMore of the stream-decoder model *)
From Coq Require Import NArith List Bool Arith Lia.
From SV.Stream Require Import Skip SkipProofs Json1 Dec Spec.
Import ListNotations.

(* ---- white space *)
Lemma drop_ws_app_space : forall sp l, all_space sp -> drop_ws (sp ++ l) = drop_ws l.
Proof. induction sp; intros l H; simpl; auto. inversion H; subst. rewrite H2. auto. Qed.

Lemma drop_ws_all_space : forall l, all_space l -> drop_ws l = [].
Proof. intros l H. rewrite <- (app_nil_r l). rewrite drop_ws_app_space; auto. Qed.

Lemma drop_ws_ns : forall c l, is_space c = false -> drop_ws (c :: l) = c :: l.
Proof. intros. simpl. rewrite H. reflexivity. Qed.

Lemma drop_ws_nil_all_space : forall l, drop_ws l = [] -> all_space l.
Proof.
  induction l; intros H; [constructor|]. simpl in H. destruct (is_space a) eqn:E; [|discriminate].
  constructor; [exact E|apply IHl; exact H].
Qed.

Lemma drop_ws_head_ns : forall l c r, drop_ws l = c :: r -> is_space c = false.
Proof.
  induction l; intros c r H; simpl in H; [discriminate|].
  destruct (is_space a) eqn:E; eauto. inversion H; subst; auto.
Qed.

Lemma drop_ws_idem : forall l, drop_ws (drop_ws l) = drop_ws l.
Proof.
  intros l. destruct (drop_ws l) eqn:E; auto. apply drop_ws_ns. eapply drop_ws_head_ns; eauto.
Qed.

Lemma all_space_nth : forall l i, all_space l -> i < length l -> is_space (nth i l 0%N) = true.
Proof.
  induction l; intros i H L; simpl in L; [lia|]. inversion H as [|x y H1 H2]; subst.
  destruct i; simpl.
  - exact H1.
  - apply IHl; [exact H2|lia].
Qed.

Lemma all_space_app : forall a b, all_space a -> all_space b -> all_space (a ++ b).
Proof. intros. apply Forall_app; auto. Qed.

Lemma skipn_add : forall (l : bytes) a b, skipn (a + b) l = skipn b (skipn a l).
Proof.
  induction l; intros a' b; simpl.
  - rewrite !skipn_nil. reflexivity.
  - destruct a'; simpl; auto.
Qed.

(* ---- reader oracle *)
Lemma ioerr_eqb_eq : forall a b, ioerr_eqb a b = true -> a = b.
Proof. intros [|x] [|y]; simpl; intros H; try discriminate; auto. apply Nat.eqb_eq in H. congruence. Qed.

Lemma rd_fuel_ge : forall r, 2 <= rd_fuel r.
Proof. intros r. unfold rd_fuel. induction (rchunks r) as [|a l IH]; [simpl; lia|]. cbn [fold_right]. lia. Qed.

Lemma rd_read_spec : forall r space data e r',
  rd_read r space = (data, e, r') -> 1 <= space -> wf_reader r = true ->
  rd_bytes r = data ++ rd_bytes r' /\ wf_reader r' = true /\ rfin r' = rfin r /\ length data <= space /\
  (rchunks r <> [] -> rd_fuel r' < rd_fuel r) /\
  (rchunks r = [] -> e = Some (rfin r)) /\
  (forall e', e = Some e' -> e' = rfin r /\ rchunks r' = []).
Proof.
  intros [ch fin lg] space data e r' H Hs Hwf. unfold rd_read in H. simpl in *.
  unfold wf_reader, rd_bytes, rd_fuel in *. simpl in *.
  destruct ch as [|[c ce] tl].
  - inversion H; subst; simpl.
    split; [reflexivity|]. split; [reflexivity|]. split; [reflexivity|]. split; [lia|].
    split; [congruence|]. split; [reflexivity|]. intros e' E. inversion E; auto.
  - destruct (length c <=? space) eqn:L.
    + apply Nat.leb_le in L. inversion H; subst; simpl. clear H.
      assert (W : wf_chunks fin tl = true /\ (forall e', e = Some e' -> e' = fin /\ tl = [])).
      { destruct tl as [|p tl'].
        - split; [reflexivity|]. intros e' ->. split; auto. apply ioerr_eqb_eq in Hwf. auto.
        - destruct e; [discriminate|]. split; auto. intros; discriminate. }
      destruct W as [W1 W2].
      split; [reflexivity|]. split; [exact W1|]. split; [reflexivity|]. split; [exact L|].
      split; [intros _; lia|]. split; [congruence|].
      intros e' E. destruct (W2 e' E) as [A B]. subst. auto.
    + apply Nat.leb_gt in L. inversion H; subst; simpl. clear H.
      assert (W : wf_chunks fin ((skipn space c, ce) :: tl) = true).
      { destruct tl; auto. }
      split. { rewrite app_assoc. rewrite firstn_skipn. reflexivity. }
      split; [exact W|]. split; [reflexivity|].
      split. { rewrite firstn_length. lia. }
      split. { intros _. rewrite skipn_length. lia. }
      split; [congruence|]. intros; discriminate.
Qed.

(* ---- realloc *)
Lemma realloc_cap_space : forall l c pc, 1 <= pc -> l <= c -> l < realloc_cap l c pc.
Proof.
  intros l c pc Hp Hl. unfold realloc_cap.
  destruct (c =? 0) eqn:E0. { apply Nat.eqb_eq in E0. lia. }
  apply Nat.eqb_neq in E0.
  destruct (c - l <=? Nat.div2 c) eqn:E1.
  - destruct (l + Nat.div2 l <=? c) eqn:E2.
    + lia.
    + apply Nat.leb_gt in E2. lia.
  - apply Nat.leb_gt in E1. lia.
Qed.

(* ---- invariant *)
Record Inv (st : sd) : Prop := {
  inv_err : err st = None;
  inv_wf : wf_reader (rd st) = true;
  inv_pc : 1 <= pcap st;
  inv_cap : length (buf st) <= cap st
}.

(* everything that has not been consumed yet *)
Definition pending (st : sd) : bytes := skipn (scanp st) (buf st) ++ rd_bytes (rd st).

Lemma new_decoder_inv : forall r pc, wf_reader r = true -> 1 <= pc -> Inv (new_decoder r pc).
Proof. intros. constructor; simpl; auto. Qed.

(* ---- scan *)
Lemma scan_some : forall st c st1,
  scan st = (Some c, st1) ->
  exists sp tl, skipn (scanp st) (buf st) = sp ++ c :: tl /\ all_space sp /\ is_space c = false /\
                st1 = set_scanp st (scanp st + length sp) /\ skipn (scanp st1) (buf st1) = c :: tl.
Proof.
  intros st c st1 H. unfold scan in H.
  destruct (first_ns (skipn (scanp st) (buf st)) 0) as [[[i c'] tl]|] eqn:F; [|discriminate].
  inversion H; subst. clear H.
  apply first_ns_some in F. destruct F as (sp & E & Hsp & -> & Hc).
  exists sp, tl. repeat split; auto. simpl.
  rewrite skipn_add. rewrite E.
  rewrite skipn_app, Nat.sub_diag, skipn_all. reflexivity.
Qed.

Lemma scan_none : forall st st1, scan st = (None, st1) -> st1 = st /\ all_space (skipn (scanp st) (buf st)).
Proof.
  intros st st1 H. unfold scan in H.
  destruct (first_ns (skipn (scanp st) (buf st)) 0) as [[[i c'] tl]|] eqn:F; [discriminate|].
  inversion H; subst. split; auto. eapply first_ns_none; eauto.
Qed.

(* ---- refill *)
Lemma refill_spec : forall st e st',
  Inv st -> refill st = (e, st') ->
  Inv st' /\ pending st' = pending st /\ scanp st' = 0 /\
  rfin (rd st') = rfin (rd st) /\ pcap st' = pcap st /\
  scanned st' + scanp st' = scanned st + scanp st /\
  (rchunks (rd st) <> [] -> rd_fuel (rd st') < rd_fuel (rd st)) /\
  (rchunks (rd st) = [] -> e = Some (rfin (rd st))) /\
  (forall e', e = Some e' -> e' = rfin (rd st) /\ rchunks (rd st') = []).
Proof.
  intros st e st' [Ie Iw Ip Ic] H. unfold refill in H.
  set (st1 := if 0 <? scanp st
              then set_scanp (set_buf (set_scanned st (scanned st + scanp st)) (skipn (scanp st) (buf st)) (cap st)) 0
              else st) in *.
  assert (S1 : buf st1 = skipn (scanp st) (buf st) /\ cap st1 = cap st /\ scanp st1 = 0 /\ rd st1 = rd st /\
               pcap st1 = pcap st /\ err st1 = err st /\ scanned st1 + scanp st1 = scanned st + scanp st).
  { unfold st1. destruct (0 <? scanp st) eqn:E; simpl.
    - repeat split; auto; lia.
    - apply Nat.ltb_ge in E. assert (scanp st = 0) as -> by lia. simpl. repeat split; auto. }
  destruct S1 as (B1 & C1 & P1 & R1 & PC1 & E1 & O1).
  unfold realloc in H. simpl in H.
  destruct (rd_read (rd st1) (realloc_cap (length (buf st1)) (cap st1) (pcap st1) - length (buf st1))) as [[data e2] r'] eqn:RR.
  inversion H; subst e st'. clear H.
  assert (LB : length (buf st1) <= cap st1).
  { rewrite B1, C1. rewrite skipn_length. lia. }
  pose proof (realloc_cap_space (length (buf st1)) (cap st1) (pcap st1) ltac:(lia) LB) as SP.
  rewrite R1 in RR.
  apply rd_read_spec in RR; [|lia|auto].
  destruct RR as (RB & RW & RF & RL & RD & RE & RS).
  split.
  { constructor; simpl; auto; try congruence. rewrite app_length. lia. }
  split.
  { unfold pending. simpl. rewrite P1. simpl. rewrite B1, RB. rewrite app_assoc. reflexivity. }
  simpl. split; [exact P1|]. split; [exact RF|]. split; [exact PC1|]. split; [exact O1|].
  split; [exact RD|]. split; [exact RE|]. exact RS.
Qed.

(* ---- peek *)
Lemma peek_spec : forall fuel st e0 res st',
  Inv st -> peek fuel e0 st = (res, st') ->
  match e0 with
  | Some e => e = rfin (rd st) /\ rchunks (rd st) = [] /\ 1 <= fuel
  | None => rd_fuel (rd st) < fuel
  end ->
  match drop_ws (pending st) with
  | [] => res = PErr (rfin (rd st)) /\ err st' = Some (DIo (rfin (rd st)))
  | c :: R' => res = PChar c /\ Inv st' /\ pending st' = c :: R' /\
               rfin (rd st') = rfin (rd st) /\ pcap st' = pcap st /\
               (exists tl, skipn (scanp st') (buf st') = c :: tl) /\
               scanned st + scanp st <= scanned st' + scanp st'
  end.
Proof.
  induction fuel as [|f IH]; intros st e0 res st' I H F.
  { destruct e0; [lia|]. pose proof (rd_fuel_ge (rd st)). lia. }
  simpl in H. destruct (scan st) as [[c|] st1] eqn:S.
  - inversion H; subst res st'. clear H.
    apply scan_some in S. destruct S as (sp & tl & E & Hsp & Hc & -> & E2).
    unfold pending. rewrite E. rewrite <- app_assoc. rewrite drop_ws_app_space by auto.
    simpl app. rewrite drop_ws_ns by auto.
    destruct I as [Ie Iw Ip Ic].
    split; auto. split; [constructor; auto|].
    simpl in E2. simpl. rewrite E2. simpl. repeat split; auto. { eauto. } lia.
  - apply scan_none in S. destruct S as [-> Hsp].
    destruct e0 as [e|].
    + destruct F as (-> & Hr & _). inversion H; subst res st'. clear H.
      unfold pending. unfold rd_bytes. rewrite Hr. simpl. rewrite app_nil_r.
      rewrite drop_ws_all_space by auto. split; auto.
    + destruct (refill st) as [e st2] eqn:R.
      pose proof (refill_spec _ _ _ I R) as (I2 & P2 & SP2 & F2 & PC2 & O2 & D2 & E2 & S2).
      specialize (IH st2 e res st' I2 H).
      rewrite P2, F2 in IH.
      assert (G : match e with
                  | Some e1 => e1 = rfin (rd st) /\ rchunks (rd st2) = [] /\ 1 <= f
                  | None => rd_fuel (rd st2) < f
                  end).
      { destruct e as [e1|].
        - destruct (S2 e1 eq_refl). pose proof (rd_fuel_ge (rd st)). repeat split; auto. lia.
        - destruct (rchunks (rd st)) eqn:RC.
          + specialize (E2 eq_refl). discriminate.
          + assert (rd_fuel (rd st2) < rd_fuel (rd st)) by (apply D2; congruence). lia. }
      specialize (IH G).
      destruct (drop_ws (pending st)); auto.
      destruct IH as (A & B & C & D & E & G1 & G2).
      split; [exact A|]. split; [exact B|]. split; [exact C|]. split; [exact D|].
      split; [congruence|]. split; [exact G1|]. lia.
Qed.
