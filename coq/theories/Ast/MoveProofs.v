(* Ast/MoveProofs.v - linkedNodes.MoveOne(source, target) on the chunked storage is the plain list move: the element at
   position source is taken out and inserted at position target, the elements in between slide by one. *)
From Coq Require Import List Arith Bool Lia.
From SV.Ast Require Import Linked Tree LinkedProofs.
Import ListNotations.

Arguments Nat.div : simpl never.
Arguments Nat.modulo : simpl never.
Arguments Nat.ltb : simpl never.
Arguments Nat.leb : simpl never.
Arguments CAP : simpl never.

(* ---------- extensionality and nth_error of the list operations ---------- *)
Lemma nth_error_ext' {A} (l1 l2 : list A) : (forall k, nth_error l1 k = nth_error l2 k) -> l1 = l2.
Proof.
  revert l2. induction l1 as [|x l1 IH]; intros [|y l2] H; auto.
  - specialize (H 0). discriminate.
  - specialize (H 0). discriminate.
  - pose proof (H 0) as H0. simpl in H0. inversion H0; subst. f_equal. apply IH. intros k. apply (H (S k)).
Qed.

Lemma nth_error_upd' {A} (l : list A) i j x :
  nth_error (upd l i x) j = if (j =? i) && (i <? length l) then Some x else nth_error l j.
Proof.
  destruct (Nat.eq_dec j i) as [->|NE].
  - rewrite Nat.eqb_refl. destruct (i <? length l) eqn:E; simpl.
    + apply Nat.ltb_lt in E. now apply nth_error_upd_same.
    + apply Nat.ltb_ge in E. now rewrite upd_oob.
  - replace (j =? i) with false by (symmetry; now apply Nat.eqb_neq). simpl. apply nth_error_upd_other. auto.
Qed.

Lemma nth_error_remove_nth {A} (l : list A) i k :
  nth_error (remove_nth i l) k = if k <? i then nth_error l k else nth_error l (S k).
Proof.
  revert i k. induction l as [|x l IH]; intros i k.
  - assert (N : forall j, nth_error (@nil A) j = None) by (destruct j; reflexivity).
    destruct i; simpl; rewrite ?N; repeat match goal with |- context [if ?b then _ else _] => destruct b end; reflexivity.
  - destruct i as [|i].
    + simpl. replace (k <? 0) with false by (symmetry; apply Nat.ltb_ge; lia). reflexivity.
    + destruct k as [|k]; simpl.
      * replace (0 <? S i) with true by (symmetry; apply Nat.ltb_lt; lia). reflexivity.
      * rewrite IH. replace (S k <? S i) with (k <? i); [reflexivity|].
        destruct (k <? i) eqn:E; symmetry; [apply Nat.ltb_lt; apply Nat.ltb_lt in E; lia|apply Nat.ltb_ge; apply Nat.ltb_ge in E; lia].
Qed.

Lemma nth_error_insert_nth {A} (l : list A) i x k : i <= length l ->
  nth_error (insert_nth i x l) k = if k <? i then nth_error l k else if k =? i then Some x else nth_error l (k - 1).
Proof.
  revert l k. induction i as [|i IH]; intros l k Hi.
  - simpl. replace (k <? 0) with false by (symmetry; apply Nat.ltb_ge; lia).
    destruct k; simpl; [reflexivity|]. f_equal. lia.
  - destruct l as [|y l]; [simpl in Hi; lia|]. simpl in Hi. destruct k as [|k]; simpl.
    + replace (0 <? S i) with true by (symmetry; apply Nat.ltb_lt; lia). reflexivity.
    + rewrite IH by lia. replace (S k <? S i) with (k <? i).
      2:{ destruct (k <? i) eqn:E; symmetry; [apply Nat.ltb_lt; apply Nat.ltb_lt in E; lia|apply Nat.ltb_ge; apply Nat.ltb_ge in E; lia]. }
      destruct (k <? i) eqn:E1; [reflexivity|]. replace (S k =? S i) with (k =? i) by reflexivity.
      destruct (k =? i) eqn:E2; [reflexivity|].
      apply Nat.ltb_ge in E1. apply Nat.eqb_neq in E2.
      destruct k; [lia|]. replace (S (S k) - 1) with (S (S k - 1)) by lia. reflexivity.
Qed.

Lemma remove_nth_length {A} (l : list A) i : i < length l -> length (remove_nth i l) = length l - 1.
Proof. revert i. induction l; intros [|i] H; simpl in *; try lia. rewrite IHl by lia. lia. Qed.

(* ---------- the two shifting loops at the level of lists ---------- *)
Fixpoint lshift_back {A} (l : list A) (i n : nat) : list A :=
  match n with
  | O => l
  | S n' => match nth_error l (i + 1) with Some x => lshift_back (upd l i x) (i + 1) n' | None => l end
  end.

Fixpoint lshift_fwd {A} (l : list A) (i n : nat) : list A :=
  match n with
  | O => l
  | S n' => match nth_error l (i - 1) with Some x => lshift_fwd (upd l i x) (i - 1) n' | None => l end
  end.

Lemma lshift_back_length {A} (l : list A) i n : length (lshift_back l i n) = length l.
Proof. revert l i. induction n; intros; simpl; auto. destruct (nth_error l (i + 1)); auto. now rewrite IHn, upd_length. Qed.
Lemma lshift_fwd_length {A} (l : list A) i n : length (lshift_fwd l i n) = length l.
Proof. revert l i. induction n; intros; simpl; auto. destruct (nth_error l (i - 1)); auto. now rewrite IHn, upd_length. Qed.

Lemma lshift_back_nth {A} : forall n (l : list A) i k, i + n < length l ->
  nth_error (lshift_back l i n) k = if (i <=? k) && (k <? i + n) then nth_error l (S k) else nth_error l k.
Proof.
  induction n as [|n IH]; intros l i k H; cbn [lshift_back].
  - replace (k <? i + 0) with (k <? i) by (f_equal; lia).
    destruct (i <=? k) eqn:E1, (k <? i) eqn:E2; simpl; auto. apply Nat.leb_le in E1. apply Nat.ltb_lt in E2. lia.
  - destruct (nth_error l (i + 1)) as [x|] eqn:E.
    2:{ apply nth_error_None in E. lia. }
    rewrite IH by (rewrite upd_length; lia). rewrite !nth_error_upd'.
    replace (i <? length l) with true by (symmetry; apply Nat.ltb_lt; lia). rewrite !andb_true_r.
    destruct (Nat.lt_trichotomy k i) as [L|[->|G]].
    + replace (i + 1 <=? k) with false by (symmetry; apply Nat.leb_gt; lia).
      replace (i <=? k) with false by (symmetry; apply Nat.leb_gt; lia). cbn [andb].
      replace (k =? i) with false by (symmetry; apply Nat.eqb_neq; lia). reflexivity.
    + replace (i + 1 <=? i) with false by (symmetry; apply Nat.leb_gt; lia). cbn [andb].
      rewrite Nat.eqb_refl. rewrite Nat.leb_refl. replace (i <? i + S n) with true by (symmetry; apply Nat.ltb_lt; lia). cbn [andb].
      replace (S i) with (i + 1) by lia. now rewrite E.
    + replace (i + 1 <=? k) with true by (symmetry; apply Nat.leb_le; lia).
      replace (i <=? k) with true by (symmetry; apply Nat.leb_le; lia). cbn [andb].
      replace (k <? i + 1 + n) with (k <? i + S n) by (f_equal; lia).
      replace (S k =? i) with false by (symmetry; apply Nat.eqb_neq; lia).
      replace (k =? i) with false by (symmetry; apply Nat.eqb_neq; lia). reflexivity.
Qed.

Lemma lshift_fwd_nth {A} : forall n (l : list A) i k, n <= i -> i < length l ->
  nth_error (lshift_fwd l i n) k = if (i - n <? k) && (k <=? i) then nth_error l (k - 1) else nth_error l k.
Proof.
  induction n as [|n IH]; intros l i k H1 H2; cbn [lshift_fwd].
  - rewrite Nat.sub_0_r. destruct (i <? k) eqn:E1, (k <=? i) eqn:E2; simpl; auto.
    apply Nat.ltb_lt in E1. apply Nat.leb_le in E2. lia.
  - destruct (nth_error l (i - 1)) as [x|] eqn:E.
    2:{ apply nth_error_None in E. lia. }
    rewrite IH by (rewrite ?upd_length; lia). rewrite !nth_error_upd'.
    replace (i <? length l) with true by (symmetry; apply Nat.ltb_lt; lia). rewrite !andb_true_r.
    destruct (Nat.lt_trichotomy k i) as [L|[->|G]].
    + replace (k =? i) with false by (symmetry; apply Nat.eqb_neq; lia).
      replace (k - 1 =? i) with false by (symmetry; apply Nat.eqb_neq; lia).
      replace (i - 1 - n) with (i - S n) by lia.
      replace (k <=? i - 1) with true by (symmetry; apply Nat.leb_le; lia).
      replace (k <=? i) with true by (symmetry; apply Nat.leb_le; lia). reflexivity.
    + rewrite Nat.eqb_refl. replace (i <=? i - 1) with false by (symmetry; apply Nat.leb_gt; lia).
      rewrite andb_false_r. rewrite Nat.leb_refl. replace (i - S n <? i) with true by (symmetry; apply Nat.ltb_lt; lia). cbn [andb].
      now rewrite E.
    + replace (k <=? i - 1) with false by (symmetry; apply Nat.leb_gt; lia).
      replace (k <=? i) with false by (symmetry; apply Nat.leb_gt; lia). rewrite !andb_false_r.
      replace (k =? i) with false by (symmetry; apply Nat.eqb_neq; lia). reflexivity.
Qed.

(* ---------- the storage ---------- *)
Section Storage.
Context {A : Type}.

Lemma shift_back_spec : forall n (s : linked A) i, wf s ->
  to_list (shift_back s i n) = lshift_back (to_list s) i n /\ wf (shift_back s i n) /\ size (shift_back s i n) = size s.
Proof.
  induction n as [|n IH]; intros s i W; simpl; auto.
  rewrite (At_spec _ _ W). destruct (nth_error (to_list s) (i + 1)) as [x|]; auto.
  destruct (assign_spec s i x W) as (A1 & A2 & A3).
  destruct (IH (assign s i x) (i + 1) A2) as (I1 & I2 & I3). rewrite I1, A1, I3, A3. auto.
Qed.

Lemma shift_fwd_spec : forall n (s : linked A) i, wf s ->
  to_list (shift_fwd s i n) = lshift_fwd (to_list s) i n /\ wf (shift_fwd s i n) /\ size (shift_fwd s i n) = size s.
Proof.
  induction n as [|n IH]; intros s i W; simpl; auto.
  rewrite (At_spec _ _ W). destruct (nth_error (to_list s) (i - 1)) as [x|]; auto.
  destruct (assign_spec s i x W) as (A1 & A2 & A3).
  destruct (IH (assign s i x) (i - 1) A2) as (I1 & I2 & I3). rewrite I1, A1, I3, A3. auto.
Qed.

(* MoveOne_spec *)
Theorem MoveOne_spec (s : linked A) source target : wf s ->
  to_list (MoveOne s source target) = move_nth target source (to_list s) /\ wf (MoveOne s source target) /\
  size (MoveOne s source target) = size s.
Proof.
  intros W. pose proof (to_list_length _ W) as LEN. unfold MoveOne, move_nth.
  destruct (source =? target) eqn:EQ.
  - apply Nat.eqb_eq in EQ. subst target. split; [|auto].
    destruct (nth_error (to_list s) source) as [x|] eqn:E; auto.
    assert (Hs : source < length (to_list s)) by (apply nth_error_Some; congruence).
    replace (source <? length (to_list s)) with true by (symmetry; now apply Nat.ltb_lt).
    apply nth_error_ext'. intros k.
    rewrite nth_error_insert_nth by (rewrite remove_nth_length; lia). rewrite !nth_error_remove_nth.
    destruct (k <? source) eqn:E1; [reflexivity|]. destruct (k =? source) eqn:E2.
    + apply Nat.eqb_eq in E2. subst. now rewrite E.
    + apply Nat.ltb_ge in E1. apply Nat.eqb_neq in E2. replace (k - 1 <? source) with false by (symmetry; apply Nat.ltb_ge; lia).
      f_equal. lia.
  - apply Nat.eqb_neq in EQ.
    destruct ((size s <=? source) || (size s <=? target)) eqn:OOR.
    + split; [|auto]. apply orb_true_iff in OOR. destruct (nth_error (to_list s) source) as [x|] eqn:E; auto.
      destruct OOR as [O|O]; apply Nat.leb_le in O.
      * assert (source < length (to_list s)) by (apply nth_error_Some; congruence). lia.
      * replace (target <? length (to_list s)) with false by (symmetry; apply Nat.ltb_ge; lia). reflexivity.
    + apply orb_false_iff in OOR as (O1 & O2). apply Nat.leb_gt in O1, O2.
      rewrite (At_spec _ _ W). destruct (nth_error (to_list s) source) as [x|] eqn:E.
      2:{ apply nth_error_None in E. lia. }
      replace (target <? length (to_list s)) with true by (symmetry; apply Nat.ltb_lt; lia).
      destruct (source <? target) eqn:ST.
      * apply Nat.ltb_lt in ST.
        destruct (shift_back_spec (target - source) s source W) as (B1 & B2 & B3).
        destruct (assign_spec (shift_back s source (target - source)) target x B2) as (A1 & A2 & A3).
        split; [|split; [exact A2|lia]]. rewrite A1, B1.
        apply nth_error_ext'. intros k. rewrite nth_error_upd', lshift_back_length.
        replace (target <? length (to_list s)) with true by (symmetry; apply Nat.ltb_lt; lia). rewrite andb_true_r.
        rewrite lshift_back_nth by lia. replace (source + (target - source)) with target by lia.
        rewrite nth_error_insert_nth by (rewrite remove_nth_length; lia). rewrite !nth_error_remove_nth.
        destruct (Nat.lt_trichotomy k target) as [L|[->|G]].
        -- replace (k =? target) with false by (symmetry; apply Nat.eqb_neq; lia).
           replace (k <? target) with true by (symmetry; apply Nat.ltb_lt; lia). rewrite andb_true_r.
           destruct (source <=? k) eqn:E1.
           ++ apply Nat.leb_le in E1. replace (k <? source) with false by (symmetry; apply Nat.ltb_ge; lia). reflexivity.
           ++ apply Nat.leb_gt in E1. replace (k <? source) with true by (symmetry; apply Nat.ltb_lt; lia). reflexivity.
        -- rewrite Nat.eqb_refl. replace (target <? target) with false by (symmetry; apply Nat.ltb_ge; lia). reflexivity.
        -- replace (k =? target) with false by (symmetry; apply Nat.eqb_neq; lia).
           replace (k <? target) with false by (symmetry; apply Nat.ltb_ge; lia). rewrite andb_false_r.
           replace (k - 1 <? source) with false by (symmetry; apply Nat.ltb_ge; lia). f_equal. lia.
      * apply Nat.ltb_ge in ST.
        destruct (shift_fwd_spec (source - target) s source W) as (B1 & B2 & B3).
        destruct (assign_spec (shift_fwd s source (source - target)) target x B2) as (A1 & A2 & A3).
        split; [|split; [exact A2|lia]]. rewrite A1, B1.
        apply nth_error_ext'. intros k. rewrite nth_error_upd', lshift_fwd_length.
        replace (target <? length (to_list s)) with true by (symmetry; apply Nat.ltb_lt; lia). rewrite andb_true_r.
        rewrite lshift_fwd_nth by lia. replace (source - (source - target)) with target by lia.
        rewrite nth_error_insert_nth by (rewrite remove_nth_length; lia). rewrite !nth_error_remove_nth.
        destruct (Nat.lt_trichotomy k target) as [L|[->|G]].
        -- replace (k =? target) with false by (symmetry; apply Nat.eqb_neq; lia).
           replace (target <? k) with false by (symmetry; apply Nat.ltb_ge; lia). cbn [andb].
           replace (k <? target) with true by (symmetry; apply Nat.ltb_lt; lia).
           replace (k <? source) with true by (symmetry; apply Nat.ltb_lt; lia). reflexivity.
        -- rewrite Nat.eqb_refl. replace (target <? target) with false by (symmetry; apply Nat.ltb_ge; lia). reflexivity.
        -- replace (k =? target) with false by (symmetry; apply Nat.eqb_neq; lia).
           replace (target <? k) with true by (symmetry; apply Nat.ltb_lt; lia). cbn [andb].
           replace (k <? target) with false by (symmetry; apply Nat.ltb_ge; lia).
           destruct (k <=? source) eqn:E1.
           ++ apply Nat.leb_le in E1. replace (k - 1 <? source) with true by (symmetry; apply Nat.ltb_lt; lia). reflexivity.
           ++ apply Nat.leb_gt in E1. replace (k - 1 <? source) with false by (symmetry; apply Nat.ltb_ge; lia). f_equal. lia.
Qed.

End Storage.
