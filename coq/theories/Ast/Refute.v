(* Ast/Refute.v - concrete histories on which the faithful model of ast.Node (Node.run) and the plain ordered
   tree (Tree.spec_run) give different observations (each replays on the real code, corpus/C15/*.case), and the
   regression histories of the defects repaired in /repo (ffe8bf0, ecd1239), on which they now agree. *)
From Coq Require Import List Arith Bool NArith Lia.
From SV.Ast Require Import Linked Tree Node.
Import ListNotations.
Local Open Scope N_scope.

(* an injective, never-zero hash: base-256 digits behind a leading 1 *)
Definition hash_inj (k : bytes) : N := fold_left (fun acc b => acc * 256 + b) k 1.

Definition key_n (i : nat) : bytes := [107; 48 + N.of_nat (i / 10); 48 + N.of_nat (i mod 10)].   (* "kNN" *)
Definition num_n (i : nat) : tree := TNum [49; 48 + N.of_nat (i / 10); 48 + N.of_nat (i mod 10)].   (* "1NN" *)
Definition obj_n (n : nat) : list (bytes * tree) := map (fun i => (key_n i, num_n i)) (seq 0 n).

Definition model_obs (v : value) (ops : list step) : list obs := fst (run hash_inj ops (mk_value hash_inj v)).
Definition spec_obs (v : value) (ops : list step) : list obs := fst (spec_run ops (snd v)).

(* 1. REPAIRED (ffe8bf0).  Object with 18 pairs, the last one repeating key k03.  Before the repair BuildIndex kept the last
      occurrence, so a loaded node answered Get with "dup" and a lazy one with 103.  BuildIndex now drops the index when a
      hash repeats: loaded and lazy nodes both return the first occurrence, like the tree. *)
Definition dup_doc : tree := TObj (obj_n 17 ++ [(key_n 3, TStr [100; 117; 112])]).
Definition dup_ops : list step := [([], OpLoad); ([SKey (key_n 3)], OpLook); ([], OpUnset (key_n 3)); ([], OpMarshal)].
Lemma dupkeys_index_agrees : model_obs (RRaw, dup_doc) dup_ops = spec_obs (RRaw, dup_doc) dup_ops.
Proof. vm_compute. reflexivity. Qed.
(* the same document, not loaded first: the lazy search finds the first occurrence, like the tree *)
Lemma dupkeys_lazy_agrees :
  model_obs (RRaw, dup_doc) [([SKey (key_n 3)], OpLook)] = spec_obs (RRaw, dup_doc) [([SKey (key_n 3)], OpLook)].
Proof. vm_compute. reflexivity. Qed.

(* 1b. REPAIRED (ffe8bf0): Pop of the last duplicate used to delete the index entry of the key *)
Definition popdup_ops : list step := [([], OpLoad); ([], OpPop); ([SKey (key_n 3)], OpLook)].
Lemma popdup_index_agrees : model_obs (RRaw, dup_doc) popdup_ops = spec_obs (RRaw, dup_doc) popdup_ops.
Proof. vm_compute. reflexivity. Qed.

(* 2. Len on a node that is still lazy counts only the children parsed so far *)
Definition len_doc : tree := TArr [num_n 1; num_n 2; num_n 3].
Lemma len_lazy_witness : model_obs (RRaw, len_doc) [([], OpLen)] <> spec_obs (RRaw, len_doc) [([], OpLen)].
Proof. vm_compute. discriminate. Qed.
Lemma len_loaded_agrees :
  model_obs (RRaw, len_doc) [([], OpLoad); ([], OpLen)] = spec_obs (RRaw, len_doc) [([], OpLoad); ([], OpLen)].
Proof. vm_compute. reflexivity. Qed.

(* 3. REPAIRED (6c9aabd): a soft-deleted pair has Key "" and the linear search for the key "" used to stop at it; the search now
      skips cells that are Pair{} (hash 0, Key "", Value V_NONE) *)
Definition ek_doc : tree := TObj [([97], num_n 1); ([], num_n 2)].
Definition ek_ops : list step :=
  [([], OpUnset [97]); ([SKey []], OpLook); ([], OpSet [] (RRaw, num_n 9)); ([], OpMarshal)].
Lemma emptykey_unset_agrees : model_obs (RRaw, ek_doc) ek_ops = spec_obs (RRaw, ek_doc) ek_ops.
Proof. vm_compute. reflexivity. Qed.

(* 4. REPAIRED (ecd1239): Unset(key) used to leave the index entry behind; after Pop shrank the storage the entry pointed past
      size and the next Get(key) dereferenced nil.  removePair/removePairAt now delete the entry. *)
Definition stale_ops : list step :=
  [([], OpLoad); ([], OpUnset (key_n 17)); ([], OpPop); ([SKey (key_n 17)], OpLook); ([], OpMarshal)].
Lemma stale_index_agrees :
  model_obs (RRaw, TObj (obj_n 18)) stale_ops = spec_obs (RRaw, TObj (obj_n 18)) stale_ops.
Proof. vm_compute. reflexivity. Qed.

(* 5. REPAIRED (d346b1d): Move with an out-of-range position did nothing on a dense array but moved a cell when some cell was
      unset; it is now a no-op in both cases, and in-range moves over unset cells still move *)
Definition mv_doc : tree := TArr [num_n 0; num_n 1; num_n 2; num_n 3; num_n 4].
Definition mv_ops : list step :=
  [([], OpUnsetIdx 1); ([], OpUnsetIdx 1); ([], OpMove 4 0); ([], OpMarshal); ([], OpMove 2 0); ([], OpMarshal)].
Lemma move_oor_holes_agrees : model_obs (RRaw, mv_doc) mv_ops = spec_obs (RRaw, mv_doc) mv_ops.
Proof. vm_compute. reflexivity. Qed.
