(* Ast/ObjectRefine.v - objects: the cells of an object node versus the member list of the tree it denotes; BuildIndex
   establishes the index invariant; the lazy key search (skipKey's loop) and the loaded lookup return the cell of the FIRST
   occurrence of the key and keep the abstraction and the invariant. *)
From Coq Require Import List Arith Bool NArith Lia.
From SV.Ast Require Import Linked Tree LinkedProofs Node IndexProofs NodeRefine ArrayRefine.
Import ListNotations.

Arguments Nat.div : simpl never.
Arguments Nat.modulo : simpl never.
Arguments Nat.ltb : simpl never.
Arguments Nat.leb : simpl never.
Arguments CAP : simpl never.

(* ---------- cells versus members ---------- *)
Section Cells.
Variable hash : bytes -> N.

Lemma live_pabs_cons p l :
  live_pabs (p :: l) = if pexists p then (snd (fst p), abs (snd p)) :: live_pabs l else live_pabs l.
Proof. unfold live_pabs. simpl. destruct (pexists p); reflexivity. Qed.

Lemma cells_ok_tl p l : cells_ok hash (p :: l) -> cells_ok hash l.
Proof. intros H j h k c E. apply (H (S j) h k c E). Qed.

Lemma cells_ok_hd h k c l : cells_ok hash ((h, k, c) :: l) ->
  (exists_ c = true -> h = hash k) /\ (exists_ c = false -> k = [] /\ h = 0%N).
Proof. intros H. apply (H 0 h k c eq_refl). Qed.

(* the first cell carrying a non-empty key is live and is the first member with that key *)
Lemma find_cell_members l key i0 :
  cells_ok hash l -> key <> [] ->
  match find_cell l key i0 with
  | Some i =>
    exists h c, nth_error l (i - i0) = Some (h, key, c) /\ exists_ c = true /\ i0 <= i /\
      find_key key (live_pabs l) = Some (abs c) /\
      (forall c', exists_ c' = true ->
         live_pabs (upd l (i - i0) (h, key, c')) = replace_key key (abs c') (live_pabs l)) /\
      live_pabs (upd l (i - i0) pzero) = remove_key key (live_pabs l)
  | None => find_key key (live_pabs l) = None
  end.
Proof.
  intros CO KE. revert i0. induction l as [|[[h k] c] l IH]; intros i0; cbn [find_cell].
  - reflexivity.
  - destruct (cells_ok_hd _ _ _ _ CO) as (C1 & C2). pose proof (cells_ok_tl _ _ CO) as CO'.
    destruct (bytes_eqb k key) eqn:EK.
    + cbv beta iota. apply bytes_eqb_eq in EK. subst k.
      assert (Hl : exists_ c = true).
      { destruct (exists_ c) eqn:X; auto. destruct (C2 eq_refl). contradiction. }
      exists h, c. rewrite Nat.sub_diag. cbn [nth_error upd]. rewrite !live_pabs_cons. unfold pexists. cbn [fst snd].
      rewrite Hl. cbn [find_key replace_key remove_key]. rewrite bytes_eqb_refl.
      split; [reflexivity|]. split; [reflexivity|]. split; [lia|]. split; [reflexivity|]. split.
      * intros c' Hc'. rewrite live_pabs_cons. unfold pexists. cbn [fst snd]. now rewrite Hc'.
      * reflexivity.
    + cbv beta iota. specialize (IH CO' (S i0)). destruct (find_cell l key (S i0)) as [i|] eqn:EF.
      * destruct IH as (h' & c' & N1 & N2 & N3 & N4 & N5 & N6).
        exists h', c'. replace (i - i0) with (S (i - S i0)) by lia. cbn [nth_error upd].
        rewrite !live_pabs_cons. unfold pexists. cbn [fst snd].
        split; [exact N1|]. split; [exact N2|]. split; [lia|]. split; [|split].
        -- destruct (exists_ c); auto. cbn [find_key]. now rewrite EK.
        -- intros c'' Hc''. rewrite live_pabs_cons. unfold pexists. cbn [fst snd].
           destruct (exists_ c); auto. cbn [replace_key]. rewrite EK. f_equal. auto.
        -- destruct (exists_ c); auto. cbn [remove_key]. rewrite EK. f_equal. auto.
      * rewrite live_pabs_cons. unfold pexists. cbn [fst snd]. destruct (exists_ c); auto. cbn [find_key]. now rewrite EK.
Qed.

(* ---------- BuildIndex ---------- *)
(* all cells live and carrying their key's hash: when no hash repeats the loop returns an index that sends every key to its
   cell, and then no key repeats either; when a hash repeats the index is dropped *)
Lemma build_index_spec (s : linked (pair node)) :
  wf s -> cells_ok hash (to_list s) -> forallb pexists (to_list s) = true ->
  forall n i m, i + n = size s ->
    (forall h j, idx_get m h = Some j -> j < i /\ exists k c, nth_error (to_list s) j = Some (h, k, c)) ->
    (forall j h k c, j < i -> nth_error (to_list s) j = Some (h, k, c) -> idx_get m h = Some j) ->
    match build_index s i n m with
    | Some m' =>
      (forall h j, idx_get m' h = Some j -> j < size s /\ exists k c, nth_error (to_list s) j = Some (h, k, c)) /\
      (forall j h k c, nth_error (to_list s) j = Some (h, k, c) -> idx_get m' h = Some j)
    | None => True
    end.
Proof.
  intros W CO AL. induction n as [|n IH]; intros i m Hn H1 H2; simpl.
  - split.
    + intros h j Hj. destruct (H1 h j Hj) as (? & ?). split; auto. lia.
    + intros j h k c Hj. apply (H2 j h k c); auto.
      assert (j < length (to_list s)) by (apply nth_error_Some; congruence). rewrite (to_list_length _ W) in H. lia.
  - rewrite (At_spec _ _ W).
    destruct (nth_error (to_list s) i) as [[[h k] c]|] eqn:E.
    2:{ apply nth_error_None in E. rewrite (to_list_length _ W) in E. lia. }
    destruct (idx_get m h) eqn:EG; [exact I|].
    apply IH; [lia| |].
    + intros h' j Hj. destruct (N.eq_dec h h') as [->|NE].
      * rewrite idx_get_set_same in Hj. inversion Hj; subst. split; [lia|eauto].
      * rewrite idx_get_set_other in Hj by auto. destruct (H1 h' j Hj) as (? & ?). split; auto.
    + intros j h' k' c' Hlt Hj. destruct (Nat.eq_dec j i) as [->|NJ].
      * rewrite E in Hj. inversion Hj; subst. apply idx_get_set_same.
      * assert (j < i) by lia.
        destruct (N.eq_dec h h') as [<-|NE].
        -- rewrite (H2 j h k' c' H Hj) in EG. discriminate.
        -- rewrite idx_get_set_other by auto. eauto.
Qed.

End Cells.

(* ---------- the object invariant ---------- *)
Section Inv.
Variable hash : bytes -> N.

Definition mkcell (kv : bytes * tree) : pair node := NewPair hash (fst kv) (NRaw false (snd kv)).

(* the cells of the object once everything is loaded: lazy loading never changes them *)
Definition full_cells (n : node) : list (pair node) :=
  match n with
  | NObjectLazy _ v rest => to_list (pv v) ++ map mkcell rest
  | NObject _ (Some v) => to_list (pv v)
  | _ => []
  end.

Definition loaded_size (n : node) : nat :=
  match n with
  | NObjectLazy _ v _ | NObject _ (Some v) => size (pv v)
  | _ => 0
  end.

Definition not_lazy (n : node) : Prop := match n with NObjectLazy _ _ _ | NArrayLazy _ _ _ => False | _ => True end.

Definition idx_inv (v : lpairs node) : Prop :=
  forall m, index v = Some m -> index_ok hash m (to_list (pv v)) /\ nodup_live (to_list (pv v)).

Definition oinv (n : node) : Prop :=
  match n with
  | NObject l (Some v) =>
    wf (pv v) /\ cells_ok hash (to_list (pv v)) /\ l = length (filter pexists (to_list (pv v))) /\ idx_inv v
  | NObject l None => l = 0
  | NObjectLazy l v rest =>
    wf (pv v) /\ cells_ok hash (to_list (pv v)) /\ forallb pexists (to_list (pv v)) = true /\
    l = size (pv v) /\ rest <> [] /\ index v = None
  | _ => True
  end.

Lemma mkcell_live rest : forallb pexists (map mkcell rest) = true.
Proof. induction rest; simpl; auto. Qed.

Lemma live_pabs_mkcell rest : live_pabs (map mkcell rest) = rest.
Proof.
  induction rest as [|[k t] rest IH]; [reflexivity|].
  cbn [map]. rewrite live_pabs_cons. unfold mkcell at 1 2 3, NewPair, pexists. cbn [fst snd exists_ abs]. now rewrite IH.
Qed.

Lemma cells_ok_app a b : cells_ok hash a -> cells_ok hash b -> cells_ok hash (a ++ b).
Proof.
  intros A B j h k c E. destruct (Nat.lt_ge_cases j (length a)).
  - rewrite nth_error_app1 in E by auto. eauto.
  - rewrite nth_error_app2 in E by auto. eauto.
Qed.

Lemma cells_ok_mkcell rest : cells_ok hash (map mkcell rest).
Proof.
  intros j h k c E. apply nth_error_In in E. apply in_map_iff in E as ([k0 t0] & E & _).
  unfold mkcell, NewPair in E. simpl in E. inversion E; subst. split; auto. discriminate.
Qed.

Theorem abs_full_cells n : is_object n = true -> abs n = TObj (live_pabs (full_cells n)).
Proof.
  destruct n; simpl; try discriminate; intros _.
  - rewrite to_list_lmap, live_pabs_eq. now rewrite live_pabs_app, live_pabs_mkcell.
  - destruct v; [|reflexivity]. now rewrite to_list_lmap, live_pabs_eq.
Qed.

(* newObject / setObject on cells that are all live *)
Lemma newObject_inv (v : lpairs node) :
  wf (pv v) -> cells_ok hash (to_list (pv v)) -> forallb pexists (to_list (pv v)) = true -> index v = None ->
  oinv (newObject v) /\ full_cells (newObject v) = to_list (pv v) /\ loaded_size (newObject v) = size (pv v).
Proof.
  intros W CO AL IN. unfold newObject. destruct (THRESHOLD <? size (pv v)) eqn:ET.
  - unfold P_BuildIndex. rewrite IN. cbn [oinv full_cells loaded_size pv]. split; [|split; reflexivity].
    split; [exact W|]. split; [exact CO|]. split.
    + rewrite filter_all by auto. now rewrite (to_list_length _ W).
    + intros m Hm. cbn [index] in Hm. cbn [pv].
      pose proof (build_index_spec hash (pv v) W CO AL (size (pv v)) 0 [] eq_refl) as B.
      rewrite Hm in B. destruct B as (B1 & B2).
      { intros h j Hj. discriminate. }
      { intros j h k c Hj. lia. }
      split.
      * split.
        -- intros j h k c Hj Hc. destruct (CO j h k c Hj) as (C1 & _). rewrite <- (C1 Hc). eauto.
        -- intros h i Hi. destruct (B1 h i Hi) as (_ & X). exact X.
      * intros j1 j2 h1 h2 k c1 c2 E1 E2 L1 L2.
        destruct (CO _ _ _ _ E1) as (C1 & _). destruct (CO _ _ _ _ E2) as (C2 & _).
        pose proof (B2 _ _ _ _ E1) as G1. pose proof (B2 _ _ _ _ E2) as G2.
        rewrite (C1 L1) in G1. rewrite (C2 L2) in G2. congruence.
  - cbn [oinv full_cells loaded_size]. split; [|split; reflexivity].
    split; [exact W|]. split; [exact CO|]. split.
    + rewrite filter_all by auto. now rewrite (to_list_length _ W).
    + intros m Hm. congruence.
Qed.

Lemma find_cell_app a b key i :
  find_cell (a ++ b) key i = match find_cell a key i with Some j => Some j | None => find_cell b key (i + length a) end.
Proof.
  revert i. induction a as [|[[h k] c] a IH]; intros i; simpl.
  - now rewrite Nat.add_0_r.
  - destruct (bytes_eqb k key); auto. rewrite IH. now replace (S i + length a) with (i + S (length a)) by lia.
Qed.

Lemma P_Push_props (v : lpairs node) p :
  wf (pv v) -> index v = None ->
  to_list (pv (P_Push v p)) = to_list (pv v) ++ [p] /\ wf (pv (P_Push v p)) /\
  size (pv (P_Push v p)) = S (size (pv v)) /\ index (P_Push v p) = None.
Proof.
  intros W IN. destruct (P_Push_list v p W) as (A & B & C). split; [exact A|split; [exact B|split; [exact C|]]].
  unfold P_Push, P_Set. cbn [index]. rewrite IN. reflexivity.
Qed.

(* skipKey's loop: loads pairs one at a time until the key is met *)
Lemma skip_key_loop_spec key : forall rest l v i,
  wf (pv v) -> cells_ok hash (to_list (pv v)) -> forallb pexists (to_list (pv v)) = true ->
  l = size (pv v) -> i = size (pv v) -> index v = None ->
  find_cell (to_list (pv v)) key 0 = None ->
  let r := skip_key_loop hash key l v rest i in
  full_cells (snd r) = to_list (pv v) ++ map mkcell rest /\
  oinv (snd r) /\
  is_object (snd r) = true /\ (match snd r with NObject _ None => False | _ => True end) /\
  fst r = keyres_of (getres_of (find_cell (to_list (pv v) ++ map mkcell rest) key 0)) /\
  (forall j, fst r = KFound j -> j < loaded_size (snd r)) /\
  (fst r = KNil -> not_lazy (snd r)).
Proof.
  induction rest as [|[k t] rest IH]; intros l v i W CO AL L Hi0 IN NF; cbn [skip_key_loop].
  - cbn zeta. cbn [fst snd map]. rewrite app_nil_r.
    destruct (newObject_inv v W CO AL IN) as (N1 & N2 & N3). unfold setObject.
    split; [exact N2|]. split; [exact N1|]. split; [reflexivity|]. split.
    { unfold newObject. exact I. }
    rewrite NF. split; [reflexivity|]. split; [intros j Hj; discriminate|]. intros _. unfold newObject. exact I.
  - set (p := NewPair hash k (NRaw false t)).
    destruct (P_Push_props v p W IN) as (P1 & P2 & P3 & P4).
    set (v' := P_Push v p) in *.
    assert (CO' : cells_ok hash (to_list (pv v'))).
    { rewrite P1. apply cells_ok_app; auto. apply (cells_ok_mkcell [(k, t)]). }
    assert (AL' : forallb pexists (to_list (pv v')) = true) by (rewrite P1, forallb_app, AL; reflexivity).
    assert (EQ : to_list (pv v) ++ map mkcell ((k, t) :: rest) = to_list (pv v') ++ map mkcell rest).
    { rewrite P1, <- app_assoc. reflexivity. }
    assert (FC : find_cell (to_list (pv v')) key 0 = if bytes_eqb k key then Some (size (pv v)) else None).
    { rewrite P1, find_cell_app, NF. cbn [find_cell p NewPair]. rewrite (to_list_length _ W). simpl.
      destruct (bytes_eqb k key); reflexivity. }
    destruct rest as [|kt2 rest].
    + cbn zeta. cbn [fst snd]. unfold setObject.
      destruct (newObject_inv v' P2 CO' AL' P4) as (N1 & N2 & N3).
      split; [rewrite N2, EQ; simpl; now rewrite app_nil_r|]. split; [exact N1|]. split; [reflexivity|].
      split; [unfold newObject; exact I|].
      rewrite EQ. cbn [map]. rewrite app_nil_r, FC. subst i.
      destruct (bytes_eqb k key); (split; [reflexivity|]); (split; [|intros _; unfold newObject; exact I]);
        intros j Hj; inversion Hj; subst. rewrite N3, P3. lia.
    + destruct (bytes_eqb k key) eqn:EK.
      * cbn zeta. cbn [fst snd full_cells oinv loaded_size is_object].
        split; [now rewrite EQ|]. split.
        { split; [exact P2|]. split; [exact CO'|]. split; [exact AL'|]. split; [lia|]. split; [discriminate|exact P4]. }
        split; [reflexivity|]. split; [exact I|].
        rewrite EQ, find_cell_app, FC. subst i. split; [reflexivity|]. split; [|intros Hn; discriminate].
        intros j Hj. inversion Hj; subst. rewrite P3. lia.
      * specialize (IH (S l) v' (S i) P2 CO' AL' ltac:(lia) ltac:(lia) P4 FC).
        cbn zeta in IH. rewrite <- EQ in IH. exact IH.
Qed.

Lemma live_zero_no_key (l : list (pair node)) key :
  cells_ok hash l -> key <> [] -> length (filter pexists l) = 0 -> find_cell l key 0 = None.
Proof.
  intros CO KE Z. assert (G : forall i, find_cell l key i = None).
  { induction l as [|[[h k] c] l IH]; intros i; simpl; auto.
    destruct (cells_ok_hd hash _ _ _ _ CO) as (_ & C2). simpl in Z. unfold pexists in Z at 1. simpl in Z.
    destruct (exists_ c) eqn:X; [simpl in Z; lia|]. destruct (C2 eq_refl) as (-> & _).
    replace (bytes_eqb [] key) with false by (destruct key; [congruence|reflexivity]).
    apply IH; auto. eapply cells_ok_tl; eauto. }
  apply G.
Qed.

(* skipKey: the cell of the first occurrence of the key (loaded part searched first, then loaded on demand) *)
Theorem skipKey_spec n key :
  oinv n -> is_object n = true -> key <> [] ->
  let r := skipKey hash n key in
  full_cells (snd r) = full_cells n /\ oinv (snd r) /\ is_object (snd r) = true /\
  fst r = keyres_of (getres_of (find_cell (full_cells n) key 0)) /\
  (forall j, fst r = KFound j -> j < loaded_size (snd r)) /\
  (fst r = KNil -> not_lazy (snd r)).
Proof.
  intros HI HO KE. destruct n; try discriminate; cbn [skipKey].
  - (* lazy *)
    cbn [oinv] in HI. destruct HI as (W & CO & AL & L & NE & IN).
    assert (PG : (if 0 <? l then P_Get hash v key else GMissing) = getres_of (find_cell (to_list (pv v)) key 0)).
    { destruct (0 <? l) eqn:E0.
      - now apply noindex_get_spec.
      - apply Nat.ltb_ge in E0. assert (to_list (pv v) = []) by (apply length_zero_iff_nil; rewrite (to_list_length _ W); lia).
        now rewrite H. }
    rewrite PG. cbn [full_cells]. rewrite find_cell_app.
    destruct (find_cell (to_list (pv v)) key 0) as [j|] eqn:EF.
    + cbn zeta. cbn [getres_of fst snd full_cells oinv is_object loaded_size keyres_of].
      split; [reflexivity|]. split; [exact (conj W (conj CO (conj AL (conj L (conj NE IN)))))|]. split; [reflexivity|]. split; [reflexivity|].
      split; [|intros Hn; discriminate].
      intros j' Hj. inversion Hj; subst. apply find_cell_bound in EF. rewrite (to_list_length _ W) in EF. lia.
    + cbn [getres_of].
      destruct (skip_key_loop_spec key rest l v l W CO AL L L IN EF) as (S1 & S2 & S3 & S4 & S5 & S6 & S7).
      cbn zeta. split; [exact S1|]. split; [exact S2|]. split; [exact S3|]. split; [|exact (conj S6 S7)].
      rewrite S5, find_cell_app, EF. reflexivity.
  - (* loaded *)
    destruct v as [v|].
    + cbn [oinv] in HI. destruct HI as (W & CO & L & II).
      cbn [full_cells].
      destruct (0 <? l) eqn:E0; cbn zeta; cbn [fst snd full_cells oinv is_object loaded_size].
      * assert (PG : P_Get hash v key = getres_of (find_cell (to_list (pv v)) key 0)).
        { destruct (index v) as [m|] eqn:EI.
          - destruct (II m EI) as (I1 & I2). apply index_get_spec; auto. intros m' Hm'. rewrite EI in Hm'. inversion Hm'; subst. auto.
          - now apply noindex_get_spec. }
        rewrite PG. split; [reflexivity|]. split; [exact (conj W (conj CO (conj L II)))|]. split; [reflexivity|]. split; [reflexivity|].
        split; [|intros _; exact I].
        intros j Hj. destruct (find_cell (to_list (pv v)) key 0) as [j'|] eqn:EF; try discriminate.
        inversion Hj; subst. apply find_cell_bound in EF. rewrite (to_list_length _ W) in EF. lia.
      * apply Nat.ltb_ge in E0. rewrite (live_zero_no_key _ key CO KE) by lia.
        split; [reflexivity|]. split; [exact (conj W (conj CO (conj L II)))|]. split; [reflexivity|]. split; [reflexivity|].
        split; [intros j Hj; discriminate|intros _; exact I].
    + cbn zeta. cbn [fst snd full_cells find_cell getres_of keyres_of oinv is_object]. cbn [oinv] in HI.
      split; [reflexivity|]. split; [exact HI|]. split; [reflexivity|]. split; [reflexivity|].
      split; [intros j Hj; discriminate|intros _; exact I].
Qed.

End Inv.
