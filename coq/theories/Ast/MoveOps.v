(* Ast/MoveOps.v - Node.Move at the root on an array without soft-deleted cells (any positions, in or out of range) commutes with
   the abstraction; the root theorem extended with it.  (With unset cells Move first translates logical positions to cells -
   move_translate - which is not proved; covered by the replay and by the regression witness of fix d346b1d.) *)
From Coq Require Import List Arith Bool NArith Lia.
From SV.Ast Require Import Linked Tree LinkedProofs Node IndexProofs NodeRefine ArrayRefine RootRefine ObjectRefine ObjectOps ObjectSet
     RootRefine2 ArrayOps ArraySet ObjectIdx ObjectPop ObjectIdxOps RootRefine4 MoveProofs.
Import ListNotations.

Arguments Nat.div : simpl never.
Arguments Nat.modulo : simpl never.
Arguments Nat.ltb : simpl never.
Arguments Nat.leb : simpl never.
Arguments CAP : simpl never.

(* ---------- move_nth and map / forallb / length ---------- *)
Lemma map_remove_nth {X Y} (f : X -> Y) i l : map f (remove_nth i l) = remove_nth i (map f l).
Proof. revert i. induction l; intros [|i]; simpl; auto. f_equal. auto. Qed.
Lemma map_insert_nth {X Y} (f : X -> Y) i x l : map f (insert_nth i x l) = insert_nth i (f x) (map f l).
Proof. revert l. induction i; intros [|y l]; simpl; auto; f_equal; auto. Qed.
Lemma nth_error_map' {X Y} (f : X -> Y) l i : nth_error (map f l) i = option_map f (nth_error l i).
Proof. revert i. induction l; intros [|i]; simpl; auto. Qed.

Lemma map_move_nth {X Y} (f : X -> Y) d s l : map f (move_nth d s l) = move_nth d s (map f l).
Proof.
  unfold move_nth. rewrite nth_error_map', map_length. destruct (nth_error l s); simpl; auto.
  destruct (d <? length l); auto. now rewrite map_insert_nth, map_remove_nth.
Qed.

Lemma forallb_remove_nth {X} (P : X -> bool) i l : forallb P l = true -> forallb P (remove_nth i l) = true.
Proof.
  revert i. induction l; intros [|i] H; simpl in *; auto; apply andb_true_iff in H as (H1 & H2); auto.
  apply andb_true_iff. auto.
Qed.
Lemma forallb_insert_nth {X} (P : X -> bool) i x l : forallb P l = true -> P x = true -> forallb P (insert_nth i x l) = true.
Proof.
  revert l. induction i; intros [|y l] H Hx; simpl in *; try (rewrite Hx; auto; fail).
  apply andb_true_iff in H as (H1 & H2). apply andb_true_iff. auto.
Qed.
Lemma forallb_nth {X} (P : X -> bool) l i x : forallb P l = true -> nth_error l i = Some x -> P x = true.
Proof. revert i. induction l; intros [|i] H E; simpl in *; try discriminate; apply andb_true_iff in H as (H1 & H2); [inversion E; subst; auto|eauto]. Qed.

Lemma forallb_move_nth {X} (P : X -> bool) d s l : forallb P l = true -> forallb P (move_nth d s l) = true.
Proof.
  intros H. unfold move_nth. destruct (nth_error l s) eqn:E; auto. destruct (d <? length l); auto.
  apply forallb_insert_nth; [now apply forallb_remove_nth|eapply forallb_nth; eauto].
Qed.

Lemma insert_nth_length {X} i (x : X) l : length (insert_nth i x l) = S (length l).
Proof. revert l. induction i; intros [|y l]; simpl; auto. Qed.

Lemma move_nth_length {X} d s (l : list X) : length (move_nth d s l) = length l.
Proof.
  unfold move_nth. destruct (nth_error l s) eqn:E; auto. destruct (d <? length l); auto.
  assert (s < length l) by (apply nth_error_Some; congruence).
  rewrite insert_nth_length, remove_nth_length; lia.
Qed.

Section Ops.
Variable hash : bytes -> N.
Hypothesis hash_inj : forall a b, hash a = hash b -> a = b.
Hypothesis hash_nz : forall k, hash k <> 0%N.

(* no soft-deleted cell in a loaded array *)
Definition dense (n : node) : Prop :=
  match n with NArray l (Some v) => size v = l | _ => True end.

Lemma dense_all_live n : arr_inv n -> is_array n = true -> dense n -> forallb exists_ (full_acells n) = true.
Proof.
  intros HI HA HD. destruct n; try discriminate.
  - cbn [arr_inv full_acells] in *. destruct HI as (W & L & AL & NE). rewrite forallb_app, AL. apply raw_live.
  - destruct v as [v|]; [|reflexivity]. cbn [arr_inv full_acells dense] in *. destruct HI as (W & L).
    apply filter_length_all. rewrite (to_list_length _ W). lia.
Qed.

Theorem op_move_dense n t dst src :
  R n t -> is_tarr t -> dense (snd (checkRaw hash n)) ->
  fst (op_move hash dst src n) = fst (spec_apply (OpMove dst src) t) /\
  R (snd (op_move hash dst src n)) (snd (spec_apply (OpMove dst src) t)) /\ is_tarr (snd (spec_apply (OpMove dst src) t)).
Proof.
  intros HR HT HD. unfold op_move. destruct (R_checkRaw hash n t HR) as (EC & HR1 & NR).
  destruct (checkRaw hash n) as [e n1]. cbn [fst snd] in EC, HR1, NR, HD. subst e. cbn [err_ok negb].
  pose proof (array_of_R n1 t HR1 NR HT) as HA. destruct HR1 as (E1 & A1 & IA1 & IO1).
  rewrite HA. cbn [negb].
  pose proof (dense_all_live n1 IA1 HA HD) as AL.
  destruct (unsafeArray_cells hash n1 IA1 HA) as (l & v & U1 & W & L & TL). rewrite U1.
  assert (SZ : size v = l).
  { rewrite L, TL, filter_all by auto. rewrite <- TL. symmetry. apply (to_list_length _ W). }
  replace (size v =? l) with true by (symmetry; now apply Nat.eqb_eq).
  destruct (MoveOne_spec v src dst W) as (M1 & M2 & M3).
  rewrite (abs_full_acells n1 HA) in A1. subst t. cbn [spec_apply fst snd].
  split; [reflexivity|]. split; [|exact I].
  assert (AL' : forallb exists_ (move_nth dst src (to_list v)) = true) by (apply forallb_move_nth; now rewrite TL).
  split; [reflexivity|]. split; [|split; [|exact I]].
  - rewrite abs_array, M1. f_equal. rewrite (live_abs_all _ AL'), <- TL.
    rewrite (live_abs_all (to_list v)) by (now rewrite TL). apply map_move_nth.
  - cbn [arr_inv]. split; [exact M2|]. rewrite M1, filter_all by auto. rewrite move_nth_length, (to_list_length _ W). lia.
Qed.

(* ---- the root theorem with Move ---- *)
Definition ok_step5 (n : node) (s : step) : Prop :=
  match s with
  | ([], OpMove _ _) => dense (snd (checkRaw hash n))
  | _ => ok_step hash n s
  end.

Fixpoint steps_ok5 (ops : list step) (n : node) : Prop :=
  match ops with
  | [] => True
  | s :: rest => ok_step5 n s /\ steps_ok5 rest (snd (run_op hash (fst s) (snd s) n))
  end.

Lemma move_refines5 n t dst src : R2 hash n t -> dense (snd (checkRaw hash n)) ->
  fst (run_op hash [] (OpMove dst src) n) = fst (spec_op [] (OpMove dst src) t) /\
  R2 hash (snd (run_op hash [] (OpMove dst src) n)) (snd (spec_op [] (OpMove dst src) t)).
Proof.
  intros H HD. rewrite (run_root hash _ n (proj1 H)). cbn [apply_op spec_op].
  destruct (R2_checkRaw hash n t H) as (EC & HC & NR). pose proof HC as (E1 & A1 & IA1 & IO1).
  destruct t eqn:ET.
  6:{ destruct (op_move_dense n (TArr l) dst src (R2_R hash _ _ H) I HD) as (A & B & C).
      split; [exact A|]. apply R2_of_R_arr; auto. }
  all: (assert (NA : is_array (snd (checkRaw hash n)) = false)
          by (destruct (snd (checkRaw hash n)); simpl in E1, A1 |- *; try discriminate; try contradiction; auto; destruct v; discriminate));
       unfold op_move; destruct (checkRaw hash n) as [e n1]; cbn [fst snd] in *; subst e; cbn [err_ok negb]; rewrite NA; cbn [negb fst snd spec_apply];
       (split; [reflexivity|exact HC]).
Qed.

Theorem node_refines_tree_root5 : forall ops n t,
  R2 hash n t -> steps_ok5 ops n ->
  fst (run hash ops n) = fst (spec_run ops t) /\ R2 hash (snd (run hash ops n)) (snd (spec_run ops t)).
Proof.
  induction ops as [|[p o] ops IH]; intros n t HR HF; simpl.
  - auto.
  - cbn [steps_ok5 fst snd] in HF. destruct HF as (F1 & F2).
    assert (STEP : fst (run_op hash p o n) = fst (spec_op p o t) /\ R2 hash (snd (run_op hash p o n)) (snd (spec_op p o t))).
    { destruct p as [|s p].
      - destruct o; cbn [ok_step5 ok_step] in F1; try contradiction.
        + rewrite (look_refines2 hash n t HR). cbn [fst snd spec_op spec_apply]. auto.
        + apply len_refines4; auto.
        + destruct v as [r tv]. apply set_refines2; auto.
        + destruct v as [r tv]. apply setidx_refines4; auto.
        + apply add_refines2; auto.
        + apply unset_refines2; auto.
        + apply unsetidx_refines4; auto.
        + apply pop_refines4; auto.
        + apply move_refines5; auto.
        + destruct (load_refines2 hash n t HR) as (L1 & L2). cbn [spec_op spec_apply fst snd] in *. auto.
      - destruct o; cbn [ok_step5 ok_step] in F1; contradiction. }
    destruct STEP as (S1 & S2).
    destruct (run_op hash p o n) as [ob n1] eqn:ER. destruct (spec_op p o t) as [sb t1]. cbn [fst snd] in S1, S2, F2. subst sb.
    destruct (IH n1 t1 S2 F2) as (I1 & I2).
    destruct (run hash ops n1), (spec_run ops t1). cbn [fst snd] in *. subst. auto.
Qed.

Theorem node_refines_tree_root5_from_doc : forall v ops,
  steps_ok5 ops (mk_value hash v) ->
  fst (run hash ops (mk_value hash v)) = fst (spec_run ops (snd v)).
Proof.
  intros v ops HF. apply node_refines_tree_root5; auto.
  destruct v as [r t]. cbn [snd].
  assert (HR : R (mk_value hash (r, t)) t).
  { destruct r; cbn [mk_value fst snd].
    - unfold R. simpl. auto.
    - unfold R. simpl. auto.
    - apply R_parse_lazy.
    - apply R_build_full. }
  destruct HR as (E & A & IA & _). split; auto. split; auto. split; auto.
  destruct r; cbn [mk_value fst snd]; try exact I.
  - apply RO_parse_lazy.
  - apply oinv_build_full.
Qed.

End Ops.
