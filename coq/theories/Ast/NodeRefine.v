(* Ast/NodeRefine.v - the abstraction abs : node -> tree is invariant under every representation change
   (raw -> lazy -> loaded, one child at a time or all at once, with or without a lock), every way of building a value
   denotes the same tree, and root-level operations commute with abs. *)
From Coq Require Import List Arith Bool NArith Lia.
From SV.Ast Require Import Linked Tree LinkedProofs Node IndexProofs.
Import ListNotations.

Arguments Nat.div : simpl never.
Arguments Nat.modulo : simpl never.
Arguments Nat.ltb : simpl never.
Arguments Nat.leb : simpl never.
Arguments CAP : simpl never.

(* ---------- lmap ---------- *)
Lemma to_list_lmap {A B} (f : A -> B) (v : linked A) : to_list (lmap f v) = map f (to_list v).
Proof.
  unfold to_list, lmap; simpl. rewrite <- concat_map, <- map_app. apply firstn_map.
Qed.

Lemma wf_lmap {A B} (f : A -> B) (v : linked A) : wf v -> wf (lmap f v).
Proof.
  intros (H & U & S). unfold wf, lmap; simpl. rewrite !map_length. repeat split; auto.
  unfold uniform in *. apply Forall_forall. intros c Hc. apply in_map_iff in Hc as (c0 & <- & Hc0).
  rewrite map_length. eapply Forall_forall in U; eauto.
Qed.

Lemma size_lmap {A B} (f : A -> B) (v : linked A) : size (lmap f v) = size v.
Proof. reflexivity. Qed.

(* ---------- the children a storage denotes ---------- *)
Definition live_abs (l : list node) : list tree := map abs (filter exists_ l).
Definition live_pabs (l : list (pair node)) : list (bytes * tree) :=
  map (fun p => (snd (fst p), abs (snd p))) (filter pexists l).

Lemma live_abs_eq (l : list node) :
  map snd (filter fst (map (fun c => (exists_ c, abs c)) l)) = live_abs l.
Proof. unfold live_abs. induction l; simpl; auto. destruct (exists_ a); simpl; congruence. Qed.

Lemma live_pabs_eq (l : list (pair node)) :
  map snd (filter fst (map (fun p => (exists_ (snd p), (snd (fst p), abs (snd p)))) l)) = live_pabs l.
Proof. unfold live_pabs, pexists. induction l; simpl; auto. destruct (exists_ (snd a)); simpl; congruence. Qed.

Lemma abs_array l v : abs (NArray l (Some v)) = TArr (live_abs (to_list v)).
Proof. simpl. now rewrite to_list_lmap, live_abs_eq. Qed.
Lemma abs_array_lazy l v rest : abs (NArrayLazy l v rest) = TArr (live_abs (to_list v) ++ rest).
Proof. simpl. now rewrite to_list_lmap, live_abs_eq. Qed.
Lemma abs_object l v : abs (NObject l (Some v)) = TObj (live_pabs (to_list (pv v))).
Proof. simpl. now rewrite to_list_lmap, live_pabs_eq. Qed.
Lemma abs_object_lazy l v rest : abs (NObjectLazy l v rest) = TObj (live_pabs (to_list (pv v)) ++ rest).
Proof. simpl. now rewrite to_list_lmap, live_pabs_eq. Qed.

Lemma live_abs_app a b : live_abs (a ++ b) = live_abs a ++ live_abs b.
Proof. unfold live_abs. now rewrite filter_app, map_app. Qed.
Lemma live_pabs_app a b : live_pabs (a ++ b) = live_pabs a ++ live_pabs b.
Proof. unfold live_pabs. now rewrite filter_app, map_app. Qed.

(* ---------- pushing many ---------- *)
Lemma pushall_spec (v : linked node) (l : list node) :
  wf v -> to_list (pushall v l) = to_list v ++ l /\ wf (pushall v l) /\ size (pushall v l) = size v + length l.
Proof.
  revert v. induction l as [|x l IH]; intros v W; simpl.
  - rewrite app_nil_r. auto.
  - destruct (Push_spec NNone v x W) as (P1 & P2 & P3). fold (NPush v x) in P1, P2, P3.
    destruct (IH _ P2) as (I1 & I2 & I3). unfold pushall in *.
    rewrite I1, P1, <- app_assoc. simpl. split; [|split]; auto. rewrite I3, P3. lia.
Qed.

Lemma P_Push_list (s : lpairs node) (p : pair node) :
  wf (pv s) -> to_list (pv (P_Push s p)) = to_list (pv s) ++ [p] /\ wf (pv (P_Push s p))
               /\ size (pv (P_Push s p)) = S (size (pv s)).
Proof. intros W. unfold P_Push, P_Set; simpl. apply (Push_spec pzero _ p W). Qed.

Lemma ppushall_spec (s : lpairs node) (l : list (pair node)) :
  wf (pv s) -> to_list (pv (ppushall s l)) = to_list (pv s) ++ l /\ wf (pv (ppushall s l))
               /\ size (pv (ppushall s l)) = size (pv s) + length l.
Proof.
  revert s. induction l as [|x l IH]; intros s W; simpl.
  - rewrite app_nil_r. auto.
  - destruct (P_Push_list s x W) as (P1 & P2 & P3).
    destruct (IH _ P2) as (I1 & I2 & I3). unfold ppushall in *.
    rewrite I1, P1, <- app_assoc. simpl. split; [|split]; auto. rewrite I3, P3. lia.
Qed.

Lemma emptyN_spec : wf emptyN /\ to_list emptyN = [].
Proof. apply empty_wf. Qed.
Lemma emptyP_spec : wf (pv emptyP) /\ to_list (pv emptyP) = [].
Proof. apply empty_wf. Qed.

Lemma pv_BuildIndex s : pv (P_BuildIndex s) = pv s.
Proof. reflexivity. Qed.

Lemma abs_newObject (v : lpairs node) : abs (newObject v) = TObj (live_pabs (to_list (pv v))).
Proof. unfold newObject. rewrite abs_object. destruct (THRESHOLD <? size (pv v)); reflexivity. Qed.

Lemma abs_newArray (v : linked node) : abs (newArray v) = TArr (live_abs (to_list v)).
Proof. apply abs_array. Qed.


(* ---------- induction on trees through the nested lists ---------- *)
Section TreeInd.
Variable P : tree -> Prop.
Hypothesis Hnull : P TNull.
Hypothesis Htrue : P TTrue.
Hypothesis Hfalse : P TFalse.
Hypothesis Hnum : forall s, P (TNum s).
Hypothesis Hstr : forall s, P (TStr s).
Hypothesis Harr : forall l, Forall P l -> P (TArr l).
Hypothesis Hobj : forall l, Forall (fun kv => P (snd kv)) l -> P (TObj l).

Fixpoint tree_ind' (t : tree) : P t :=
  match t with
  | TNull => Hnull | TTrue => Htrue | TFalse => Hfalse
  | TNum s => Hnum s | TStr s => Hstr s
  | TArr l => Harr l ((fix go (l : list tree) : Forall P l :=
                         match l with [] => Forall_nil _ | x :: tl => Forall_cons _ (tree_ind' x) (go tl) end) l)
  | TObj l => Hobj l ((fix go (l : list (bytes * tree)) : Forall (fun kv => P (snd kv)) l :=
                         match l with [] => Forall_nil _ | x :: tl => Forall_cons _ (tree_ind' (snd x)) (go tl) end) l)
  end.
End TreeInd.

Lemma exists_parse_scalar t : (forall l, t <> TArr l) -> (forall l, t <> TObj l) ->
  exists_ (parse_scalar t) = true /\ abs (parse_scalar t) = t.
Proof. destruct t; simpl; intros HA HO; auto; exfalso; [eapply HA | eapply HO]; reflexivity. Qed.

Section WithHash.
Variable hash : bytes -> N.

Lemma live_abs_all (l : list node) : forallb exists_ l = true -> live_abs l = map abs l.
Proof.
  unfold live_abs. induction l; simpl; auto. intros H. apply andb_true_iff in H as (H1 & H2).
  rewrite H1. simpl. f_equal. auto.
Qed.

Lemma live_pabs_all (l : list (pair node)) : forallb pexists l = true ->
  live_pabs l = map (fun p => (snd (fst p), abs (snd p))) l.
Proof.
  unfold live_pabs. induction l; simpl; auto. intros H. apply andb_true_iff in H as (H1 & H2).
  rewrite H1. simpl. f_equal. auto.
Qed.

(* a child freshly produced by the parser exists and denotes its text *)
Lemma child_once_ok t : exists_ (child_once t) = true /\ abs (child_once t) = t.
Proof. destruct t; simpl; auto; destruct l; simpl; auto. Qed.

Lemma parse_lazy_ok t : exists_ (parse_lazy t) = true /\ abs (parse_lazy t) = t.
Proof.
  destruct t; simpl; auto; destruct l; auto.
Qed.

Lemma map_abs_id (f : tree -> node) l :
  Forall (fun t => exists_ (f t) = true /\ abs (f t) = t) l ->
  forallb exists_ (map f l) = true /\ map abs (map f l) = l.
Proof.
  induction 1 as [|x l (H1 & H2) _ (I1 & I2)]; simpl; auto. rewrite H1, H2, I1, I2. auto.
Qed.

Lemma map_pabs_id (f : tree -> node) (l : list (bytes * tree)) :
  Forall (fun kv => exists_ (f (snd kv)) = true /\ abs (f (snd kv)) = snd kv) l ->
  forallb pexists (map (fun kv => NewPair hash (fst kv) (f (snd kv))) l) = true /\
  map (fun p => (snd (fst p), abs (snd p))) (map (fun kv => NewPair hash (fst kv) (f (snd kv))) l) = l.
Proof.
  induction 1 as [|[k t] l (H1 & H2) _ (I1 & I2)]; simpl in *; auto.
  unfold pexists at 1. simpl. rewrite H1, H2, I1, I2. auto.
Qed.

(* building an array / object node out of children that denote ts gives a node denoting the container *)
Lemma abs_array_of (f : tree -> node) l :
  Forall (fun t => exists_ (f t) = true /\ abs (f t) = t) l ->
  abs (newArray (pushall emptyN (map f l))) = TArr l.
Proof.
  intros H. rewrite abs_newArray. destruct emptyN_spec as (W & E).
  destruct (pushall_spec emptyN (map f l) W) as (P1 & _). rewrite P1, E. simpl.
  destruct (map_abs_id f l H) as (A1 & A2). now rewrite live_abs_all, A2.
Qed.

Lemma abs_object_of (f : tree -> node) (l : list (bytes * tree)) :
  Forall (fun kv => exists_ (f (snd kv)) = true /\ abs (f (snd kv)) = snd kv) l ->
  abs (newObject (ppushall emptyP (map (fun kv => NewPair hash (fst kv) (f (snd kv))) l))) = TObj l.
Proof.
  intros H. rewrite abs_newObject. destruct emptyP_spec as (W & E).
  destruct (ppushall_spec emptyP (map (fun kv => NewPair hash (fst kv) (f (snd kv))) l) W) as (P1 & _).
  rewrite P1, E. simpl. destruct (map_pabs_id f l H) as (A1 & A2). now rewrite live_pabs_all, A2.
Qed.

Lemma parse_once_ok t : exists_ (parse_once hash t) = true /\ abs (parse_once hash t) = t.
Proof.
  destruct t; simpl; auto; destruct l as [|x l]; auto; split; auto.
  - apply (abs_array_of child_once (x :: l)). apply Forall_forall. intros. apply child_once_ok.
  - apply (abs_object_of child_once (x :: l)). apply Forall_forall. intros. apply child_once_ok.
Qed.

Lemma parse_full_ok t : exists_ (parse_full hash t) = true /\ abs (parse_full hash t) = t.
Proof.
  induction t using tree_ind'; simpl; auto.
  - destruct l as [|x l]; auto. split; auto. now apply (abs_array_of (parse_full hash) (x :: l)).
  - destruct l as [|x l]; auto. split; auto. now apply (abs_object_of (parse_full hash) (x :: l)).
Qed.

Lemma FromSlice_list {A} (d : A) l : to_list (FromSlice d l) = l.
Proof. apply FromSlice_spec. Qed.

Lemma build_full_ok t : exists_ (build_full hash t) = true /\ abs (build_full hash t) = t.
Proof.
  induction t using tree_ind'; try (simpl; auto; fail).
  - cbn [build_full]. split; [reflexivity|]. unfold NewArray. rewrite abs_newArray, FromSlice_list.
    destruct (map_abs_id (build_full hash) l H) as (A1 & A2). now rewrite live_abs_all, A2.
  - cbn [build_full]. split; [reflexivity|]. unfold NewObject. rewrite abs_newObject. cbn [pv]. rewrite FromSlice_list.
    destruct (map_pabs_id (build_full hash) l H) as (A1 & A2). now rewrite live_pabs_all, A2.
Qed.

(* every way of handing a value to the node denotes the same tree: the representation is not part of the value *)
Theorem abs_mk_value v : exists_ (mk_value hash v) = true /\ abs (mk_value hash v) = snd v.
Proof.
  destruct v as [r t]. destruct r; simpl.
  - auto.
  - auto.
  - apply parse_lazy_ok.
  - apply build_full_ok.
Qed.

(* checkRaw / parseRaw *)
Theorem abs_checkRaw n : abs (snd (checkRaw hash n)) = abs n.
Proof.
  destruct n; simpl; auto. destruct lock.
  - apply parse_once_ok.
  - apply parse_lazy_ok.
Qed.

End WithHash.
