(* Ast/Tree.v - the SPECIFICATION side of C15 / C14: a JSON document as a plain ordered tree and the
   "obvious" meaning of every ast.Node operation on it.  Nothing here knows about raw text, lazy parsing,
   chunked storage, soft-deleted slots or the key index.

   Conventions taken from the documented API of /repo/ast/node.go (not from its implementation):
   - Get / Unset / Set address the FIRST occurrence of a key (what encoding/json's token stream gives);
   - Index / SetByIndex / UnsetByIndex work on arrays and (positionally) on objects;
   - Set on null makes an object, Add / SetByIndex(0) on null make an array;
   - a missing child is "not found", a child of the wrong kind of value is "unsupported type";
     both are sticky along a path. *)
From Coq Require Import List Arith Bool NArith Lia.
Import ListNotations.

Definition bytes := list N.

Inductive tree :=
| TNull | TTrue | TFalse
| TNum (s : bytes)                 (* the number literal, as text *)
| TStr (s : bytes)                 (* the decoded string value *)
| TArr (l : list tree)
| TObj (l : list (bytes * tree)).

(* ---- observations (shared by the spec and the model) ---- *)
Inductive err := EOk | ENotFound | EUnsupp | EPanic | EOther.

Inductive sel := SKey (k : bytes) | SIdx (i : nat).
Definition path := list sel.

(* how a value handed to Set/Add/SetByIndex (or the root document) is represented on the Go side *)
Inductive repr := RRaw | RRawLocked | RLazy | RFull.
Definition value := (repr * tree)%type.

Inductive op :=
| OpLook
| OpLen
| OpSet (k : bytes) (v : value)
| OpSetIdx (i : nat) (v : value)
| OpAdd (v : value)
| OpUnset (k : bytes)
| OpUnsetIdx (i : nat)
| OpPop
| OpMove (dst src : nat)
| OpSort (recurse : bool)
| OpLoad
| OpForEach (stop : nat)
| OpMarshal
| OpIface.

Definition event := (option nat * option bytes * tree)%type.

Inductive obs :=
| OErr (e : err)
| OBoolErr (b : bool) (e : err)
| OIntErr (n : nat) (e : err)
| OLook (ex valid : bool) (e : err) (ty : nat) (v : option tree)
| OEvents (l : list event) (e : err)
| OVal (v : option tree) (e : err).

(* ---- byte strings ---- *)
Fixpoint bytes_eqb (a b : bytes) : bool :=
  match a, b with
  | [], [] => true
  | x :: a', y :: b' => N.eqb x y && bytes_eqb a' b'
  | _, _ => false
  end.

(* buffer.go lessFrom(a, b, 0): bytewise lexicographic, a proper prefix is smaller *)
Fixpoint key_lt (a b : bytes) : bool :=
  match a, b with
  | [], [] => false
  | [], _ :: _ => true
  | _ :: _, [] => false
  | x :: a', y :: b' => if N.eqb x y then key_lt a' b' else N.ltb x y
  end.

Definition type_of (t : tree) : nat :=
  match t with
  | TNull => 2 | TTrue => 3 | TFalse => 4 | TArr _ => 5 | TObj _ => 6 | TStr _ => 7 | TNum _ => 33
  end.

(* ---- list helpers ---- *)
Section Lists.
Context {V : Type}.

Fixpoint find_key (k : bytes) (l : list (bytes * V)) : option V :=
  match l with
  | [] => None
  | (k', v) :: tl => if bytes_eqb k' k then Some v else find_key k tl
  end.

Fixpoint replace_key (k : bytes) (v : V) (l : list (bytes * V)) : list (bytes * V) :=
  match l with
  | [] => []
  | (k', v') :: tl => if bytes_eqb k' k then (k', v) :: tl else (k', v') :: replace_key k v tl
  end.

Fixpoint remove_key (k : bytes) (l : list (bytes * V)) : list (bytes * V) :=
  match l with
  | [] => []
  | (k', v') :: tl => if bytes_eqb k' k then tl else (k', v') :: remove_key k tl
  end.

(* stable insertion sort by key *)
Fixpoint insert_pair (p : bytes * V) (l : list (bytes * V)) : list (bytes * V) :=
  match l with
  | [] => [p]
  | q :: tl => if key_lt (fst q) (fst p) then q :: insert_pair p tl else p :: q :: tl
  end.

(* p precedes tl in the input, so it is put in front of every element that is not smaller:
   equal keys keep their original order *)
Definition sort_pairs (l : list (bytes * V)) : list (bytes * V) := fold_right insert_pair [] l.

(* a Go map built by ret[k] = v in order: the last occurrence of a key wins *)
Fixpoint dedupe_last (l : list (bytes * V)) : list (bytes * V) :=
  match l with
  | [] => []
  | (k, v) :: tl => match find_key k tl with
                    | Some _ => dedupe_last tl
                    | None => (k, v) :: dedupe_last tl
                    end
  end.
End Lists.

Fixpoint replace_nth {X} (i : nat) (v : X) (l : list X) : list X :=
  match l, i with
  | [], _ => []
  | _ :: tl, O => v :: tl
  | h :: tl, S j => h :: replace_nth j v tl
  end.

Fixpoint remove_nth {X} (i : nat) (l : list X) : list X :=
  match l, i with
  | [], _ => []
  | _ :: tl, O => tl
  | h :: tl, S j => h :: remove_nth j tl
  end.

Fixpoint insert_nth {X} (i : nat) (v : X) (l : list X) : list X :=
  match i, l with
  | O, _ => v :: l
  | S j, [] => [v]
  | S j, h :: tl => h :: insert_nth j v tl
  end.

(* Move(dst, src): the child at src goes to position dst, the ones in between slide by one *)
Definition move_nth {X} (dst src : nat) (l : list X) : list X :=
  match nth_error l src with
  | Some x => if dst <? length l then insert_nth dst x (remove_nth src l) else l
  | None => l
  end.

(* ---- SortKeys ---- *)
(* sc of node.go:sortKeys: objects are sorted recursively, arrays are traversed *)
Fixpoint sk_deep (t : tree) : tree :=
  match t with
  | TObj l => TObj (sort_pairs (map (fun kv => (fst kv, sk_deep (snd kv))) l))
  | TArr l => TArr (map sk_deep l)
  | _ => t
  end.

Fixpoint sort_keys (recurse : bool) (t : tree) : tree :=
  match t with
  | TObj l => if recurse then sk_deep t else TObj (sort_pairs l)
  | TArr l => TArr (map (sort_keys recurse) l)
  | _ => t
  end.

(* Interface(): objects become Go maps (last duplicate wins; printed with sorted keys) *)
Fixpoint iface (t : tree) : tree :=
  match t with
  | TObj l => TObj (sort_pairs (dedupe_last (map (fun kv => (fst kv, iface (snd kv))) l)))
  | TArr l => TArr (map iface l)
  | _ => t
  end.

(* ---- operations on the addressed value ---- *)
Definition spec_events (stop : nat) (t : tree) : list event :=
  match t with
  | TArr l => firstn (Nat.max 1 stop) (map (fun iv => (Some (fst iv), None, snd iv)) (combine (seq 0 (length l)) l))
  | TObj l => firstn (Nat.max 1 stop) (map (fun ikv => (Some (fst ikv), Some (fst (snd ikv)), snd (snd ikv)))
                               (combine (seq 0 (length l)) l))
  | _ => [(None, None, t)]
  end.

Definition spec_apply (o : op) (t : tree) : obs * tree :=
  match o with
  | OpLook => (OLook true true EOk (type_of t) (Some t), t)
  | OpLen =>
    match t with
    | TArr l => (OIntErr (length l) EOk, t)
    | TObj l => (OIntErr (length l) EOk, t)
    | TStr s => (OIntErr (length s) EOk, t)
    | TNull => (OIntErr 0 EOk, t)
    | _ => (OIntErr 0 EUnsupp, t)
    end
  | OpSet k (_, v) =>
    match t with
    | TNull => (OBoolErr false EOk, TObj [(k, v)])
    | TObj l => match find_key k l with
                | Some _ => (OBoolErr true EOk, TObj (replace_key k v l))
                | None => (OBoolErr false EOk, TObj (l ++ [(k, v)]))
                end
    | _ => (OBoolErr false EUnsupp, t)
    end
  | OpSetIdx i (_, v) =>
    match t with
    | TNull => if i =? 0 then (OBoolErr false EOk, TArr [v]) else (OBoolErr false ENotFound, t)
    | TArr l => if i <? length l then (OBoolErr true EOk, TArr (replace_nth i v l))
                else (OBoolErr false ENotFound, t)
    | TObj l => match nth_error l i with
                | Some (k, _) => (OBoolErr true EOk, TObj (replace_nth i (k, v) l))
                | None => (OBoolErr false ENotFound, t)
                end
    | _ => (OBoolErr false ENotFound, t)
    end
  | OpAdd (_, v) =>
    match t with
    | TNull => (OErr EOk, TArr [v])
    | TArr l => (OErr EOk, TArr (l ++ [v]))
    | _ => (OErr EUnsupp, t)
    end
  | OpUnset k =>
    match t with
    | TObj l => match find_key k l with
                | Some _ => (OBoolErr true EOk, TObj (remove_key k l))
                | None => (OBoolErr false EOk, t)
                end
    | _ => (OBoolErr false EUnsupp, t)
    end
  | OpUnsetIdx i =>
    match t with
    | TArr l => if i <? length l then (OBoolErr true EOk, TArr (remove_nth i l))
                else (OBoolErr false ENotFound, t)
    | TObj l => if i <? length l then (OBoolErr true EOk, TObj (remove_nth i l))
                else (OBoolErr false ENotFound, t)
    | _ => (OBoolErr false EUnsupp, t)
    end
  | OpPop =>
    match t with
    | TArr l => (OErr EOk, TArr (removelast l))
    | TObj l => (OErr EOk, TObj (removelast l))
    | _ => (OErr EUnsupp, t)
    end
  | OpMove dst src =>
    match t with
    | TArr l => (OErr EOk, TArr (move_nth dst src l))
    | _ => (OErr EUnsupp, t)
    end
  | OpSort r => (OErr EOk, sort_keys r t)
  | OpLoad => (OErr EOk, t)
  | OpForEach stop => (OEvents (spec_events stop t) EOk, t)
  | OpMarshal => (OVal (Some t) EOk, t)
  | OpIface => (OVal (Some (iface t)) EOk, t)
  end.

(* what every operation reports on a child that does not exist / cannot exist *)
Definition obs_of_err (o : op) (e : err) : obs :=
  match o with
  | OpLook => OLook false false e 1 None
  | OpLen => OIntErr 0 e
  | OpSet _ _ | OpSetIdx _ _ | OpUnset _ | OpUnsetIdx _ => OBoolErr false e
  | OpAdd _ | OpPop | OpMove _ _ | OpSort _ | OpLoad => OErr e
  | OpForEach _ => OEvents [] e
  | OpMarshal | OpIface => OVal None e
  end.

(* ---- navigation ---- *)
Inductive snav := SVal (t : tree) | SErr (e : err).

Definition spec_child (t : tree) (s : sel) : snav :=
  match s, t with
  | SKey k, TObj l => match find_key k l with Some v => SVal v | None => SErr ENotFound end
  | SKey _, _ => SErr EUnsupp
  | SIdx i, TArr l => match nth_error l i with Some v => SVal v | None => SErr ENotFound end
  | SIdx i, TObj l => match nth_error l i with Some (_, v) => SVal v | None => SErr ENotFound end
  | SIdx _, _ => SErr EUnsupp
  end.

Definition spec_put (t : tree) (s : sel) (c : tree) : tree :=
  match s, t with
  | SKey k, TObj l => TObj (replace_key k c l)
  | SIdx i, TArr l => TArr (replace_nth i c l)
  | SIdx i, TObj l => match nth_error l i with
                      | Some (k, _) => TObj (replace_nth i (k, c) l)
                      | None => t
                      end
  | _, _ => t
  end.

(* apply o to the value addressed by p *)
Fixpoint spec_op (p : path) (o : op) (t : tree) : obs * tree :=
  match p with
  | [] => spec_apply o t
  | s :: p' =>
    match spec_child t s with
    | SVal c => let '(ob, c') := spec_op p' o c in (ob, spec_put t s c')
    | SErr e => (obs_of_err o e, t)
    end
  end.

Definition step := (path * op)%type.

Fixpoint spec_run (ops : list step) (t : tree) : list obs * tree :=
  match ops with
  | [] => ([], t)
  | (p, o) :: rest =>
    let '(ob, t1) := spec_op p o t in
    let '(obs, t2) := spec_run rest t1 in
    (ob :: obs, t2)
  end.
