(* Ast/RootRefine.v - node_refines_tree_partial: for EVERY sequence of root-level Look / Load / LoadAll / Add operations, from
   every document in every initial representation, the model's observations are those of the plain tree and the abstraction
   commutes (induction over the op list).  The other operations / deeper paths are covered by the three-way replay only. *)
From Coq Require Import List Arith Bool NArith Lia.
From SV.Ast Require Import Linked Tree LinkedProofs Node IndexProofs NodeRefine ArrayRefine.
Import ListNotations.

Arguments Nat.div : simpl never.
Arguments Nat.modulo : simpl never.
Arguments Nat.ltb : simpl never.
Arguments Nat.leb : simpl never.
Arguments CAP : simpl never.

Definition obj_inv (n : node) : Prop :=
  match n with
  | NObject _ (Some v) => wf (pv v)
  | NObjectLazy _ v rest => wf (pv v) /\ forallb pexists (to_list (pv v)) = true /\ rest <> []
  | _ => True
  end.

Definition R (n : node) (t : tree) : Prop := exists_ n = true /\ abs n = t /\ arr_inv n /\ obj_inv n.

Definition frag (s : step) : bool :=
  match s with
  | ([], OpLook) | ([], OpLoad) | ([], OpAdd _) => true
  | _ => false
  end.

Section WithHash.
Variable hash : bytes -> N.

Lemma decodeObject_abs m v rest : wf (pv v) -> forallb pexists (to_list (pv v)) = true -> rest <> [] ->
  abs (decodeObject hash m v rest) = TObj (live_pabs (to_list (pv v)) ++ rest) /\ obj_inv (decodeObject hash m v rest)
  /\ exists_ (decodeObject hash m v rest) = true.
Proof.
  intros W AL NE. unfold decodeObject. destruct rest as [|kt rest]; [congruence|].
  set (r := kt :: rest) in *.
  destruct (ppushall_spec v (map (fun kv => NewPair hash (fst kv) (child_of hash m (snd kv))) r) W) as (P1 & P2 & P3).
  destruct (map_pabs_id hash (child_of hash m) r) as (A1 & A2).
  { apply Forall_forall. intros. apply child_of_ok. }
  split; [|split].
  - rewrite abs_newObject, P1, live_pabs_app. f_equal. f_equal. now rewrite live_pabs_all.
  - unfold newObject, obj_inv. destruct (THRESHOLD <? _); auto.
  - reflexivity.
Qed.

Lemma arr_of_children_inv (f : tree -> node) l :
  Forall (fun t => exists_ (f t) = true /\ abs (f t) = t) l ->
  arr_inv (newArray (pushall emptyN (map f l))).
Proof.
  intros H. destruct emptyN_spec as (W & E).
  destruct (pushall_spec emptyN (map f l) W) as (P1 & P2 & P3).
  destruct (map_abs_id f l H) as (A1 & _).
  unfold newArray, arr_inv. split; auto. rewrite <- (to_list_length _ P2), P1, E. simpl.
  now rewrite filter_all.
Qed.

Lemma obj_of_children_inv (f : tree -> node) (l : list (bytes * tree)) :
  obj_inv (newObject (ppushall emptyP (map (fun kv => NewPair hash (fst kv) (f (snd kv))) l))).
Proof.
  destruct emptyP_spec as (W & E).
  destruct (ppushall_spec emptyP (map (fun kv => NewPair hash (fst kv) (f (snd kv))) l) W) as (_ & P2 & _).
  unfold newObject, obj_inv. destruct (THRESHOLD <? _); auto.
Qed.

Lemma R_parse_once t : R (parse_once hash t) t.
Proof.
  destruct (parse_once_ok hash t) as (E & A). unfold R. split; auto. split; auto.
  destruct t; simpl; auto; destruct l as [|x l]; simpl; auto.
  - split; auto. apply (arr_of_children_inv child_once (x :: l)). apply Forall_forall. intros. apply child_once_ok.
  - split; auto. apply (obj_of_children_inv child_once (x :: l)).
Qed.

Lemma R_parse_lazy t : R (parse_lazy t) t.
Proof.
  destruct (parse_lazy_ok t) as (E & A). unfold R. split; auto. split; auto.
  destruct emptyN_spec as (WN & EN). destruct emptyP_spec as (WP & EP).
  destruct t; try (simpl; auto; fail); destruct l as [|x l]; try (simpl; auto; fail).
  - cbn [parse_lazy arr_inv obj_inv]. split; [|exact I]. split; [exact WN|]. split; [reflexivity|].
    split; [rewrite EN; reflexivity|discriminate].
  - cbn [parse_lazy arr_inv obj_inv]. split; [exact I|]. split; [exact WP|].
    split; [rewrite EP; reflexivity|discriminate].
Qed.

Definition not_raw (n : node) : Prop := match n with NRaw _ _ => False | _ => True end.

Lemma parse_once_not_raw t : not_raw (parse_once hash t).
Proof. destruct t; simpl; auto; destruct l; simpl; auto. Qed.
Lemma parse_lazy_not_raw t : not_raw (parse_lazy t).
Proof. destruct t; simpl; auto; destruct l; simpl; auto. Qed.

Lemma R_checkRaw n t : R n t ->
  fst (checkRaw hash n) = EOk /\ R (snd (checkRaw hash n)) t /\ not_raw (snd (checkRaw hash n)).
Proof.
  intros (E & A & IA & IO). destruct n; simpl in E; try discriminate; cbn [checkRaw fst snd not_raw];
    try (split; [reflexivity|split; [unfold R; auto|exact I]]; fail).
  simpl in A. subst t. split; auto. destruct lock.
  - split; [apply R_parse_once | apply parse_once_not_raw].
  - split; [apply R_parse_lazy | apply parse_lazy_not_raw].
Qed.

Lemma type_of_abs n : exists_ n = true -> type_of_node n = type_of (abs n).
Proof. destruct n; simpl; try discriminate; auto; destruct v; reflexivity. Qed.

(* ---- the three operations ---- *)
Lemma look_refines n t : R n t -> run_op hash [] OpLook n = (fst (spec_op [] OpLook t), n).
Proof.
  intros (E & A & _). simpl. destruct n; simpl in *; try discriminate; subst; try reflexivity;
    try (destruct v; reflexivity).
Qed.

Lemma load_refines n t : R n t ->
  fst (run_op hash [] OpLoad n) = fst (spec_op [] OpLoad t) /\ R (snd (run_op hash [] OpLoad n)) t.
Proof.
  intros HR. pose proof HR as (E & A & IA & IO).
  destruct n; simpl in E; try discriminate;
    cbn [run_op apply_op op_load fst snd spec_op spec_apply]; try (split; [reflexivity|exact HR]).
  - (* raw *) split; [reflexivity|]. simpl in A. subst. apply R_parse_once.
  - (* lazy array *) split; [reflexivity|]. cbn [arr_inv] in IA. destruct IA as (W & L & AL & NE).
    cbn [loadAllIndex].
    destruct (decodeArray_abs hash COnce v rest W AL NE) as (A1 & A2).
    rewrite abs_array_lazy in A.
    unfold R. rewrite A1. split; [|split; [exact A|split; [exact A2|]]].
    + unfold decodeArray. destruct rest; [congruence|reflexivity].
    + unfold decodeArray. destruct rest; [congruence|]. exact I.
  - (* lazy object *) split; [reflexivity|]. cbn [obj_inv] in IO. destruct IO as (W & AL & NE).
    cbn [loadAllKey].
    destruct (decodeObject_abs COnce v rest W AL NE) as (A1 & A2 & A3).
    rewrite abs_object_lazy in A.
    unfold R. rewrite A1. split; [exact A3|split; [exact A|split; [|exact A2]]].
    unfold decodeObject. destruct rest; [congruence|]. unfold newObject. exact I.
Qed.

Lemma add_refines n t v : R n t ->
  fst (run_op hash [] (OpAdd v) n) = fst (spec_op [] (OpAdd v) t) /\
  R (snd (run_op hash [] (OpAdd v) n)) (snd (spec_op [] (OpAdd v) t)).
Proof.
  intros HR. destruct (abs_mk_value hash v) as (EV & AV). destruct v as [r tv]. simpl in AV.
  assert (Hrun : run_op hash [] (OpAdd (r, tv)) n = op_add hash (mk_value hash (r, tv)) n).
  { destruct HR as (E & _). destruct n; simpl in E; try discriminate; reflexivity. }
  rewrite Hrun. unfold op_add.
  destruct (R_checkRaw n t HR) as (EC & HR1 & NR).
  destruct (checkRaw hash n) as [e n1]. cbn [fst snd] in EC, HR1, NR. subst e. cbn [err_ok negb].
  destruct HR1 as (E1 & A1 & IA1 & IO1).
  set (val := mk_value hash (r, tv)) in *.
  assert (NEWARR : R (NewArray [val]) (TArr [tv])).
  { destruct (FromSlice_spec NNone [val]) as (WF & TL).
    unfold R, NewArray. rewrite abs_newArray, TL. unfold live_abs. cbn [filter map]. rewrite EV. cbn [map]. rewrite AV.
    split; [reflexivity|split; [reflexivity|split; [|exact I]]].
    unfold newArray, arr_inv. split; [exact WF|]. rewrite TL. cbn [filter]. rewrite EV. reflexivity. }
  cbn [spec_op].
  destruct n1; simpl in E1; try discriminate; try contradiction; subst t.
  - (* null *) cbn [abs spec_apply fst snd]. split; [reflexivity|exact NEWARR].
  - cbn [is_array negb abs spec_apply fst snd]. split; [reflexivity|]. unfold R; auto.
  - cbn [is_array negb abs spec_apply fst snd]. split; [reflexivity|]. unfold R; auto.
  - cbn [is_array negb abs spec_apply fst snd]. split; [reflexivity|]. unfold R; auto.
  - cbn [is_array negb abs spec_apply fst snd]. split; [reflexivity|]. unfold R; auto.
  - (* lazy array *)
    cbn [arr_inv] in IA1. destruct IA1 as (W & L & AL & NE).
    destruct (decodeArray_abs hash CSkip v rest W AL NE) as (A2 & A3).
    rewrite abs_array_lazy. cbn [is_array negb unsafeArray skipAllIndex spec_apply fst snd].
    unfold decodeArray in *. destruct rest as [|t0 rest]; [congruence|].
    set (v2 := pushall v (map (child_of hash CSkip) (t0 :: rest))) in *.
    unfold newArray in *. cbn [arr_inv] in A3. destruct A3 as (W2 & L2).
    destruct (Push_spec NNone v2 val W2) as (P1 & P2 & P3). fold (NPush v2 val) in P1, P2, P3.
    assert (UA : unsafeArray hash (NArrayLazy l v (t0 :: rest)) = NArray (size v2) (Some v2)) by reflexivity.
    rewrite UA. split; [reflexivity|]. cbn [fst snd].
    rewrite abs_array in A2. inversion A2 as [A2'].
    unfold R. split; [reflexivity|]. split.
    + rewrite abs_array, P1, live_abs_app, A2'. unfold live_abs at 2. cbn [filter map]. rewrite EV. cbn [map]. now rewrite AV.
    + split; [|exact I]. cbn [arr_inv]. split; [exact P2|].
      rewrite P1, filter_app, app_length. cbn [filter]. rewrite EV. cbn [length]. lia.
  - (* lazy object *) cbn [is_array negb spec_apply fst snd]. rewrite abs_object_lazy. cbn [spec_apply fst snd].
    split; [reflexivity|]. unfold R. rewrite abs_object_lazy. auto.
  - (* loaded array *)
    cbn [is_array negb].
    destruct v as [s|].
    + cbn [arr_inv] in IA1. destruct IA1 as (W & L).
      destruct (Push_spec NNone s val W) as (P1 & P2 & P3). fold (NPush s val) in P1, P2, P3.
      assert (UA : unsafeArray hash (NArray l (Some s)) = NArray l (Some s)) by reflexivity.
      rewrite UA. rewrite abs_array. cbn [spec_apply fst snd]. split; [reflexivity|].
      unfold R. split; [reflexivity|]. split.
      * rewrite abs_array, P1, live_abs_app. unfold live_abs at 2. cbn [filter map]. rewrite EV. cbn [map]. now rewrite AV.
      * split; [|exact I]. cbn [arr_inv]. split; [exact P2|].
        rewrite P1, filter_app, app_length. cbn [filter]. rewrite EV. cbn [length]. lia.
    + destruct emptyN_spec as (W & EE).
      destruct (Push_spec NNone emptyN val W) as (P1 & P2 & P3). fold (NPush emptyN val) in P1, P2, P3.
      assert (UA : unsafeArray hash (NArray l None) = NArray (size emptyN) (Some emptyN)) by reflexivity.
      rewrite UA. cbn [abs spec_apply fst snd]. split; [reflexivity|].
      unfold R. split; [reflexivity|]. split.
      * rewrite abs_array, P1, EE. unfold live_abs. cbn [app filter map]. rewrite EV. cbn [map]. now rewrite AV.
      * split; [|exact I]. cbn [arr_inv]. split; [exact P2|]. rewrite P1, EE. cbn [app filter]. rewrite EV. reflexivity.
  - (* loaded object *) cbn [is_array negb fst snd].
    destruct v as [s|].
    + rewrite abs_object. cbn [spec_apply fst snd]. split; [reflexivity|]. unfold R. rewrite abs_object. auto.
    + cbn [abs spec_apply fst snd]. split; [reflexivity|]. unfold R. auto.
Qed.

(* node_refines_tree_partial *)
Theorem node_refines_tree_partial : forall ops n t,
  R n t -> forallb frag ops = true ->
  fst (run hash ops n) = fst (spec_run ops t) /\ R (snd (run hash ops n)) (snd (spec_run ops t)).
Proof.
  induction ops as [|[p o] ops IH]; intros n t HR HF; simpl.
  - auto.
  - simpl in HF. apply andb_true_iff in HF as (F1 & F2).
    destruct p; try discriminate. destruct o; try discriminate.
    + (* Look *)
      rewrite (look_refines n t HR). cbn [spec_op spec_apply fst snd].
      destruct (IH n t HR F2) as (I1 & I2).
      destruct (run hash ops n), (spec_run ops t). simpl in *. subst. auto.
    + (* Add *)
      destruct (add_refines n t v HR) as (A1 & A2).
      destruct (run_op hash [] (OpAdd v) n) as [ob n1]. destruct (spec_op [] (OpAdd v) t) as [sb t1].
      simpl in A1, A2. subst sb.
      destruct (IH n1 t1 A2 F2) as (I1 & I2).
      destruct (run hash ops n1), (spec_run ops t1). simpl in *. subst. auto.
    + (* Load *)
      destruct (load_refines n t HR) as (A1 & A2).
      destruct (run_op hash [] OpLoad n) as [ob n1]. cbn [spec_op spec_apply fst snd] in *.
      simpl in A1, A2. subst ob.
      destruct (IH n1 t A2 F2) as (I1 & I2).
      destruct (run hash ops n1), (spec_run ops t). simpl in *. subst. auto.
Qed.

Lemma R_build_full t : R (build_full hash t) t.
Proof.
  destruct (build_full_ok hash t) as (E & A). unfold R. split; auto. split; auto.
  destruct t; try (simpl; auto; fail).
  - cbn [build_full]. split; [|exact I]. unfold NewArray, newArray. cbn [arr_inv].
    destruct (FromSlice_spec NNone (map (build_full hash) l)) as (WF & TL). split; [exact WF|].
    rewrite TL. rewrite filter_all.
    + cbn [FromSlice size]. reflexivity.
    + clear. induction l; simpl; auto. destruct (build_full_ok hash a) as (E & _). now rewrite E.
  - cbn [build_full]. split; [exact I|]. unfold NewObject, newObject. cbn [pv obj_inv].
    destruct (THRESHOLD <? _); cbn [pv]; apply FromSlice_spec.
Qed.

(* from every document, in every initial representation *)
Theorem node_refines_tree_partial_from_doc : forall v ops,
  forallb frag ops = true ->
  fst (run hash ops (mk_value hash v)) = fst (spec_run ops (snd v)).
Proof.
  intros v ops HF. apply node_refines_tree_partial; auto.
  destruct v as [r t]. destruct r; cbn [mk_value fst snd].
  - unfold R. simpl. auto.
  - unfold R. simpl. auto.
  - apply R_parse_lazy.
  - apply R_build_full.
Qed.

End WithHash.
