(* Ast/Search.v - C14: model of the path search (native/get_by_path.c driven by ast/search.go) and of the SAX traverser
   (ast/visitor.go), over the token stream of a document, and their specifications over the plain tree.

   Level of the model: bytes are already cut into tokens (advance_ns = "next token": whitespace is gone) but string
   tokens keep their RAW bytes - escapes are not decoded - because match_key compares the raw member name with the wanted
   key escape by escape, without building the decoded name.  skip_one_fast_1 is the depth counter of the C source (it counts
   only the brackets of its own kind), skip_one_1 (ValidateJSON) is a grammar-checking skipper.
   A document tree in this file carries RAW strings; decode_tree gives the tree of Tree.v. *)
From Coq Require Import List Arith Bool NArith Lia.
From SV.Ast Require Import Tree.
Import ListNotations.
Local Open Scope N_scope.

Inductive tok :=
| KLBrace | KRBrace | KLBrack | KRBrack | KComma | KColon
| KStr (raw : bytes) | KNum (s : bytes) | KTrue | KFalse | KNull.

(* ---- serialisation of a (raw) tree ---- *)
Fixpoint tokens_of (t : tree) : list tok :=
  match t with
  | TNull => [KNull] | TTrue => [KTrue] | TFalse => [KFalse]
  | TNum s => [KNum s] | TStr s => [KStr s]
  | TArr l =>
    KLBrack ::
    (fix elems (l : list tree) : list tok :=
       match l with
       | [] => [KRBrack]
       | [x] => tokens_of x ++ [KRBrack]
       | x :: tl => tokens_of x ++ KComma :: elems tl
       end) l
  | TObj l =>
    KLBrace ::
    (fix members (l : list (bytes * tree)) : list tok :=
       match l with
       | [] => [KRBrace]
       | [(k, x)] => KStr k :: KColon :: tokens_of x ++ [KRBrace]
       | (k, x) :: tl => KStr k :: KColon :: tokens_of x ++ KComma :: members tl
       end) l
  end.

(* ---- unescape (native/parsing.h) ---- *)
Definition hexval (c : N) : option N :=
  if (48 <=? c) && (c <=? 57) then Some (c - 48)
  else if (97 <=? c) && (c <=? 102) then Some (c - 87)
  else if (65 <=? c) && (c <=? 70) then Some (c - 55)
  else None.

Definition hex4 (a b c d : N) : option N :=
  match hexval a, hexval b, hexval c, hexval d with
  | Some x, Some y, Some z, Some w => Some (((x * 16 + y) * 16 + z) * 16 + w)
  | _, _, _, _ => None
  end.

Definition utf8_encode (r : N) : bytes :=
  if r <=? 127 then [r]
  else if r <=? 2047 then [192 + r / 64; 128 + r mod 64]
  else if r <=? 65535 then [224 + r / 4096; 128 + (r / 64) mod 64; 128 + r mod 64]
  else [240 + r / 262144; 128 + (r / 4096) mod 64; 128 + (r / 64) mod 64; 128 + r mod 64].

(* _UnquoteTab *)
Definition simple_escape (c : N) : option N :=
  if N.eqb c 34 then Some 34 else if N.eqb c 92 then Some 92 else if N.eqb c 47 then Some 47
  else if N.eqb c 98 then Some 8 else if N.eqb c 102 then Some 12 else if N.eqb c 110 then Some 10
  else if N.eqb c 114 then Some 13 else if N.eqb c 116 then Some 9 else None.

(* one escape sequence; s starts at the backslash.  Some (decoded bytes, remaining input) or None on an error *)
Definition unescape1 (s : bytes) : option (bytes * bytes) :=
  match s with
  | 92 :: c :: rest =>
    match simple_escape c with
    | Some d => Some ([d], rest)
    | None =>
      if N.eqb c 117 then
        match rest with
        | a :: b :: c1 :: d :: rest1 =>
          match hex4 a b c1 d with
          | None => None
          | Some r0 =>
            if (r0 <? 55296) || (57343 <? r0) then Some (utf8_encode r0, rest1)
            else if 56319 <? r0 then None
            else match rest1 with
                 | 92 :: 117 :: a2 :: b2 :: c2 :: d2 :: rest2 =>
                   match hex4 a2 b2 c2 d2 with
                   | Some r1 =>
                     if (56320 <=? r1) && (r1 <=? 57343)
                     then Some (utf8_encode (65536 + (r0 - 55296) * 1024 + (r1 - 56320)), rest2)
                     else None
                   | None => None
                   end
                 | _ => None
                 end
          end
        | _ => None
        end
      else None
    end
  | _ => None
  end.

Fixpoint unescape_all (fuel : nat) (s : bytes) : option bytes :=
  match fuel with
  | O => match s with [] => Some [] | _ => None end
  | S f =>
    match s with
    | [] => Some []
    | c :: s' =>
      if N.eqb c 92 then
        match unescape1 s with
        | Some (d, rest) => match unescape_all f rest with Some r => Some (d ++ r) | None => None end
        | None => None
        end
      else match unescape_all f s' with Some r => Some (c :: r) | None => None end
    end
  end.

Definition unescape (s : bytes) : option bytes := unescape_all (length s) s.

Fixpoint has_backslash (s : bytes) : bool :=
  match s with [] => false | c :: s' => N.eqb c 92 || has_backslash s' end.

(* ---- match_key (native/scanning.h) ---- *)
(* while (kp < ke && ep < ee && *kp == *ep) kp++, ep++;  if (ep != ee) return not_match *)
Fixpoint strip_prefix (buf kp : bytes) : option bytes :=
  match buf with
  | [] => Some kp
  | e :: buf' => match kp with
                 | k :: kp' => if N.eqb k e then strip_prefix buf' kp' else None
                 | [] => None
                 end
  end.

Fixpoint match_loop (fuel : nat) (sp kp : bytes) : option bool :=
  match fuel with
  | O => None
  | S f =>
    match sp, kp with
    | c :: sp', k :: kp' =>
      if N.eqb c 92 then
        match unescape1 sp with
        | None => None
        | Some (buf, sp2) =>
          match strip_prefix buf kp with
          | Some kp2 => match_loop f sp2 kp2
          | None => Some false
          end
        end
      else if N.eqb c k then match_loop f sp' kp' else Some false
    | [], [] => Some true
    | _, _ => Some false
    end
  end.

Definition match_key (raw key : bytes) : option bool :=
  if has_backslash raw then match_loop (S (length raw)) raw key
  else Some (bytes_eqb raw key).

(* ---- skipping one value ---- *)
Inductive bkind := BObj | BArr.
Definition is_open (b : bkind) (t : tok) : bool :=
  match b, t with BObj, KLBrace => true | BArr, KLBrack => true | _, _ => false end.
Definition is_close (b : bkind) (t : tok) : bool :=
  match b, t with BObj, KRBrace => true | BArr, KRBrack => true | _, _ => false end.

(* skip_container_fast: counts the brackets of its own kind only; d = current depth >= 1 *)
Fixpoint skip_container (b : bkind) (d : nat) (toks : list tok) : option (list tok) :=
  match toks with
  | [] => None
  | t :: r =>
    if is_open b t then skip_container b (S d) r
    else if is_close b t then match d with
                              | 1%nat => Some r
                              | O => None
                              | S d' => skip_container b d' r
                              end
    else skip_container b d r
  end.

(* skip_one_fast_1 *)
Definition skip1 (toks : list tok) : option (list tok) :=
  match toks with
  | KLBrace :: r => skip_container BObj 1 r
  | KLBrack :: r => skip_container BArr 1 r
  | KStr _ :: r | KNum _ :: r | KTrue :: r | KFalse :: r | KNull :: r => Some r
  | _ => None
  end.

(* skip_one_1 with the validating state machine: accepts exactly one well-formed value *)
Inductive smode := MValue | MElems | MMembers.
Fixpoint skip_strict (fuel : nat) (m : smode) (toks : list tok) : option (list tok) :=
  match fuel with
  | O => None
  | S f =>
    match m with
    | MValue =>
      match toks with
      | KLBrace :: KRBrace :: r => Some r
      | KLBrace :: r => skip_strict f MMembers r
      | KLBrack :: KRBrack :: r => Some r
      | KLBrack :: r => skip_strict f MElems r
      | KStr _ :: r | KNum _ :: r | KTrue :: r | KFalse :: r | KNull :: r => Some r
      | _ => None
      end
    | MElems =>            (* value (, value)* ] *)
      match skip_strict f MValue toks with
      | Some (KComma :: r) => skip_strict f MElems r
      | Some (KRBrack :: r) => Some r
      | _ => None
      end
    | MMembers =>          (* string : value (, string : value)* } *)
      match toks with
      | KStr _ :: KColon :: r =>
        match skip_strict f MValue r with
        | Some (KComma :: r') => skip_strict f MMembers r'
        | Some (KRBrace :: r') => Some r'
        | _ => None
        end
      | _ => None
      end
    end
  end.

(* ---- get_by_path ---- *)
Inductive sres :=
| SFound (value rest : list tok)
| SNotFound
| SInval          (* ERR_INVAL / other parsing errors: a SyntaxError on the Go side *)
| SPathErr.       (* ERR_UNSUPPORT_TYPE: Searcher panics *)

Inductive gmode := GQuery | GObj (k : bytes) | GArr (i : nat).

Fixpoint gbp (fuel : nat) (validate : bool) (m : gmode) (toks : list tok) (ps : path) : sres :=
  match fuel with
  | O => SInval
  | S f =>
    match m with
    | GQuery =>
      match ps with
      | [] =>
        match (if validate then skip_strict (S (length toks)) MValue toks else skip1 toks) with
        | Some rest => SFound (firstn (length toks - length rest) toks) rest
        | None => SInval
        end
      | SKey k :: _ =>
        match toks with
        | KLBrace :: r => gbp f validate (GObj k) r ps
        | _ => SInval
        end
      | SIdx i :: _ =>
        match toks with
        | KLBrack :: KRBrack :: _ => SNotFound          (* check empty array *)
        | KLBrack :: r => gbp f validate (GArr i) r ps
        | _ => SInval
        end
      end
    | GObj k =>                        (* skip_in_obj *)
      match toks with
      | KRBrace :: _ => SNotFound
      | KStr raw :: r =>
        match match_key raw k with
        | None => SInval
        | Some found =>
          match r with
          | KColon :: r1 =>
            if found then gbp f validate GQuery r1 (tl ps)
            else match skip1 r1 with
                 | Some (KRBrace :: _) => SNotFound
                 | Some (KComma :: r2) => gbp f validate (GObj k) r2 ps
                 | _ => SInval
                 end
          | _ => SInval
          end
        end
      | _ => SInval
      end
    | GArr i =>                        (* skip array elem one by one *)
      match i with
      | O => gbp f validate GQuery toks (tl ps)
      | S i' =>
        match skip1 toks with
        | Some (KRBrack :: _) => SNotFound
        | Some (KComma :: r) => gbp f validate (GArr i') r ps
        | _ => SInval
        end
      end
    end
  end.

Definition get_by_path (validate : bool) (toks : list tok) (ps : path) : sres :=
  gbp (S (S (2 * length toks + 2 * length ps))) validate GQuery toks ps.

(* ---- specification: navigate the tree ---- *)
Inductive nres := NVal (t : tree) | NNotFound | NInval.

(* first member whose decoded name is the key *)
Fixpoint find_member (k : bytes) (l : list (bytes * tree)) : option tree :=
  match l with
  | [] => None
  | (raw, v) :: tl => match unescape raw with
                      | Some d => if bytes_eqb d k then Some v else find_member k tl
                      | None => None
                      end
  end.

Fixpoint navigate (ps : path) (t : tree) : nres :=
  match ps with
  | [] => NVal t
  | SKey k :: ps' =>
    match t with
    | TObj l => match find_member k l with Some v => navigate ps' v | None => NNotFound end
    | _ => NInval
    end
  | SIdx i :: ps' =>
    match t with
    | TArr l => match nth_error l i with Some v => navigate ps' v | None => NNotFound end
    | _ => NInval
    end
  end.

(* ---- the traverser of visitor.go ---- *)
Inductive pev :=
| PNull | PBool (b : bool) | PStr (s : bytes) | PNum (s : bytes)
| PObjBegin | PKey (k : bytes) | PObjEnd | PArrBegin | PArrEnd.

Inductive pmode := PValue | PElems | PMembers.

(* decodeValue / decodeArray's loop / decodeObject's loop; events are accumulated in reverse *)
Fixpoint traverse (fuel : nat) (m : pmode) (toks : list tok) (acc : list pev) : option (list pev * list tok) :=
  match fuel with
  | O => None
  | S f =>
    match m with
    | PValue =>
      match toks with
      | KNull :: r => Some (PNull :: acc, r)
      | KTrue :: r => Some (PBool true :: acc, r)
      | KFalse :: r => Some (PBool false :: acc, r)
      | KStr raw :: r => match unescape raw with Some d => Some (PStr d :: acc, r) | None => None end
      | KNum s :: r => Some (PNum s :: acc, r)
      | KLBrack :: KRBrack :: r => Some (PArrEnd :: PArrBegin :: acc, r)
      | KLBrack :: r => traverse f PElems r (PArrBegin :: acc)
      | KLBrace :: KRBrace :: r => Some (PObjEnd :: PObjBegin :: acc, r)
      | KLBrace :: r => traverse f PMembers r (PObjBegin :: acc)
      | _ => None
      end
    | PElems =>
      match traverse f PValue toks acc with
      | Some (acc', KComma :: r) => traverse f PElems r acc'
      | Some (acc', KRBrack :: r) => Some (PArrEnd :: acc', r)
      | _ => None
      end
    | PMembers =>
      match toks with
      | KStr raw :: KColon :: r =>
        match unescape raw with
        | None => None
        | Some k =>
          match traverse f PValue r (PKey k :: acc) with
          | Some (acc', KComma :: r') => traverse f PMembers r' acc'
          | Some (acc', KRBrace :: r') => Some (PObjEnd :: acc', r')
          | _ => None
          end
        end
      | _ => None
      end
    end
  end.

Definition preorder (toks : list tok) : option (list pev) :=
  match traverse (S (length toks)) PValue toks [] with
  | Some (acc, []) => Some (rev_append acc [])       (* = rev acc (List.rev_alt), linear *)
  | _ => None
  end.

(* specification: preorder flattening of the (raw) tree, None when a string has an invalid escape *)
Fixpoint flatten (t : tree) : option (list pev) :=
  match t with
  | TNull => Some [PNull] | TTrue => Some [PBool true] | TFalse => Some [PBool false]
  | TNum s => Some [PNum s]
  | TStr s => match unescape s with Some d => Some [PStr d] | None => None end
  | TArr l =>
    match (fix go (l : list tree) : option (list pev) :=
             match l with
             | [] => Some []
             | x :: tl => match flatten x, go tl with Some a, Some b => Some (a ++ b) | _, _ => None end
             end) l with
    | Some evs => Some (PArrBegin :: evs ++ [PArrEnd])
    | None => None
    end
  | TObj l =>
    match (fix go (l : list (bytes * tree)) : option (list pev) :=
             match l with
             | [] => Some []
             | (k, x) :: tl =>
               match unescape k, flatten x, go tl with
               | Some d, Some a, Some b => Some (PKey d :: a ++ b)
               | _, _, _ => None
               end
             end) l with
    | Some evs => Some (PObjBegin :: evs ++ [PObjEnd])
    | None => None
    end
  end.

(* decoding every string of a raw tree (None when some escape is invalid) *)
Fixpoint decode_tree (t : tree) : option tree :=
  match t with
  | TStr s => match unescape s with Some d => Some (TStr d) | None => None end
  | TArr l =>
    match (fix go (l : list tree) : option (list tree) :=
             match l with
             | [] => Some []
             | x :: tl => match decode_tree x, go tl with Some a, Some b => Some (a :: b) | _, _ => None end
             end) l with
    | Some l' => Some (TArr l')
    | None => None
    end
  | TObj l =>
    match (fix go (l : list (bytes * tree)) : option (list (bytes * tree)) :=
             match l with
             | [] => Some []
             | (k, x) :: tl =>
               match unescape k, decode_tree x, go tl with
               | Some d, Some a, Some b => Some ((d, a) :: b)
               | _, _, _ => None
               end
             end) l with
    | Some l' => Some (TObj l')
    | None => None
    end
  | _ => Some t
  end.

(* ---- the traverser with a visitor that may answer VisitOPSkip to OnArrayBegin / OnObjectBegin ----
   skip k : the visitor skips the k-th container it is told about (containers inside a skipped one are never announced).
   On VisitOPSkip the traverser rewinds to the opening bracket and calls skipFast (skip_one_fast_1), then emits the End event. *)
Fixpoint traverse_skip (skip : nat -> bool) (fuel : nat) (m : pmode) (toks : list tok) (acc : list pev) (k : nat)
  : option (list pev * list tok * nat) :=
  match fuel with
  | O => None
  | S f =>
    match m with
    | PValue =>
      match toks with
      | KNull :: r => Some (PNull :: acc, r, k)
      | KTrue :: r => Some (PBool true :: acc, r, k)
      | KFalse :: r => Some (PBool false :: acc, r, k)
      | KStr raw :: r => match unescape raw with Some d => Some (PStr d :: acc, r, k) | None => None end
      | KNum s :: r => Some (PNum s :: acc, r, k)
      | KLBrack :: r =>
        if skip k then match skip1 toks with Some r' => Some (PArrEnd :: PArrBegin :: acc, r', S k) | None => None end
        else match r with
             | KRBrack :: r' => Some (PArrEnd :: PArrBegin :: acc, r', S k)
             | _ => traverse_skip skip f PElems r (PArrBegin :: acc) (S k)
             end
      | KLBrace :: r =>
        if skip k then match skip1 toks with Some r' => Some (PObjEnd :: PObjBegin :: acc, r', S k) | None => None end
        else match r with
             | KRBrace :: r' => Some (PObjEnd :: PObjBegin :: acc, r', S k)
             | _ => traverse_skip skip f PMembers r (PObjBegin :: acc) (S k)
             end
      | _ => None
      end
    | PElems =>
      match traverse_skip skip f PValue toks acc k with
      | Some (acc', KComma :: r, k') => traverse_skip skip f PElems r acc' k'
      | Some (acc', KRBrack :: r, k') => Some (PArrEnd :: acc', r, k')
      | _ => None
      end
    | PMembers =>
      match toks with
      | KStr raw :: KColon :: r =>
        match unescape raw with
        | None => None
        | Some key =>
          match traverse_skip skip f PValue r (PKey key :: acc) k with
          | Some (acc', KComma :: r', k') => traverse_skip skip f PMembers r' acc' k'
          | Some (acc', KRBrace :: r', k') => Some (PObjEnd :: acc', r', k')
          | _ => None
          end
        end
      | _ => None
      end
    end
  end.

Definition preorder_skip (skip : nat -> bool) (toks : list tok) : option (list pev) :=
  match traverse_skip skip (S (length toks)) PValue toks [] 0 with
  | Some (acc, [], _) => Some (rev_append acc [])
  | _ => None
  end.

(* specification: the flattening in which a skipped container contributes its Begin and End only; the second component is the
   number of containers announced so far *)
Fixpoint flatten_skip (skip : nat -> bool) (t : tree) (k : nat) : option (list pev * nat) :=
  match t with
  | TNull => Some ([PNull], k) | TTrue => Some ([PBool true], k) | TFalse => Some ([PBool false], k)
  | TNum s => Some ([PNum s], k)
  | TStr s => match unescape s with Some d => Some ([PStr d], k) | None => None end
  | TArr l =>
    if skip k then Some ([PArrBegin; PArrEnd], S k)
    else
      match (fix go (l : list tree) (k : nat) : option (list pev * nat) :=
               match l with
               | [] => Some ([], k)
               | x :: tl => match flatten_skip skip x k with
                            | Some (a, k1) => match go tl k1 with Some (b, k2) => Some (a ++ b, k2) | None => None end
                            | None => None
                            end
               end) l (S k) with
      | Some (evs, k') => Some (PArrBegin :: evs ++ [PArrEnd], k')
      | None => None
      end
  | TObj l =>
    if skip k then Some ([PObjBegin; PObjEnd], S k)
    else
      match (fix go (l : list (bytes * tree)) (k : nat) : option (list pev * nat) :=
               match l with
               | [] => Some ([], k)
               | (key, x) :: tl =>
                 match unescape key, flatten_skip skip x k with
                 | Some d, Some (a, k1) => match go tl k1 with Some (b, k2) => Some (PKey d :: a ++ b, k2) | None => None end
                 | _, _ => None
                 end
               end) l (S k) with
      | Some (evs, k') => Some (PObjBegin :: evs ++ [PObjEnd], k')
      | None => None
      end
  end.

(* the k-th..: membership of a list of ordinals (how the harness and the driver give the visitor's decisions) *)
Definition skip_of (l : list nat) (k : nat) : bool := existsb (Nat.eqb k) l.
