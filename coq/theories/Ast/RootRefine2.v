(* Ast/RootRefine2.v - node_refines_tree_partial, second fragment: every sequence of root-level
   Look / Load / LoadAll / Add / Set(key) / Unset(key) operations with non-empty keys, from every document in every initial
   representation, for a collision-free hash that never returns 0. *)
From Coq Require Import List Arith Bool NArith Lia.
From SV.Ast Require Import Linked Tree LinkedProofs Node IndexProofs NodeRefine ArrayRefine RootRefine ObjectRefine ObjectOps ObjectSet.
Import ListNotations.

Arguments Nat.div : simpl never.
Arguments Nat.modulo : simpl never.
Arguments Nat.ltb : simpl never.
Arguments Nat.leb : simpl never.
Arguments CAP : simpl never.

Definition frag2 (s : step) : bool :=
  match s with
  | ([], OpLook) | ([], OpLoad) | ([], OpAdd _) => true
  | ([], OpSet k _) | ([], OpUnset k) => match k with [] => false | _ => true end
  | _ => false
  end.

Section Ops.
Variable hash : bytes -> N.
Hypothesis hash_inj : forall a b, hash a = hash b -> a = b.
Hypothesis hash_nz : forall k, hash k <> 0%N.

Definition R2 (n : node) (t : tree) : Prop := exists_ n = true /\ abs n = t /\ arr_inv n /\ oinv hash n.

Lemma oinv_obj_inv n : oinv hash n -> obj_inv n.
Proof.
  destruct n; cbn [oinv obj_inv]; auto.
  - intros (W & _ & AL & _ & NE & _). auto.
  - destruct v; auto. intros (W & _). exact W.
Qed.

Lemma R2_R n t : R2 n t -> R n t.
Proof. intros (E & A & IA & IO). split; auto. split; auto. split; auto. now apply oinv_obj_inv. Qed.
Lemma R2_RO n t : R2 n t -> RO hash n t.
Proof. intros (E & A & IA & IO). split; auto. Qed.

(* the invariants only constrain arrays (arr_inv) / objects (oinv) *)
Lemma arr_inv_non_array n : is_array n = false -> arr_inv n.
Proof. destruct n; simpl; try discriminate; auto. Qed.
Lemma oinv_non_object n : is_object n = false -> oinv hash n.
Proof. destruct n; simpl; try discriminate; auto. Qed.

Lemma abs_array_shape n : exists_ n = true -> not_raw n -> is_array n = true -> exists l, abs n = TArr l.
Proof. destruct n; simpl; try discriminate; try contradiction; eauto. destruct v; eauto. Qed.
Lemma abs_object_shape n : exists_ n = true -> not_raw n -> is_object n = true -> exists l, abs n = TObj l.
Proof. destruct n; simpl; try discriminate; try contradiction; eauto. destruct v; eauto. Qed.
Lemma is_array_of_abs n l : exists_ n = true -> RootRefine.not_raw n -> abs n = TArr l -> is_array n = true.
Proof. destruct n; simpl; try discriminate; try contradiction; auto; destruct v; discriminate. Qed.
Lemma is_object_of_abs n l : exists_ n = true -> RootRefine.not_raw n -> abs n = TObj l -> is_object n = true.
Proof. destruct n; simpl; try discriminate; try contradiction; auto; destruct v; discriminate. Qed.

Lemma R2_checkRaw n t : R2 n t ->
  fst (checkRaw hash n) = EOk /\ R2 (snd (checkRaw hash n)) t /\ RootRefine.not_raw (snd (checkRaw hash n)).
Proof.
  intros H. destruct (R_checkRaw hash n t (R2_R _ _ H)) as (E1 & HR & NR).
  destruct HR as (X1 & X2 & X3 & _).
  destruct (RO_checkRaw hash n t (R2_RO _ _ H)) as (_ & HRO & _). destruct HRO as (_ & _ & Y).
  split; auto. split; auto. split; auto.
Qed.

(* a raw array or scalar never becomes an object and vice versa: used to discharge the invariant that does not apply *)
Lemma R2_intro n t : exists_ n = true -> abs n = t -> arr_inv n -> oinv hash n -> R2 n t.
Proof. intros; split; auto. Qed.

(* ---- Look / Load / Add: RootRefine gives R, the object side is re-established ---- *)
Lemma load_oinv n : oinv hash n -> oinv hash (snd (run_op hash [] OpLoad n)).
Proof.
  intros HI. destruct n; cbn [run_op apply_op op_load snd]; auto.
  - (* raw *) apply RO_parse_once.
  - (* lazy array *) cbn [loadAllIndex]. unfold decodeArray. destruct rest; exact I.
  - (* lazy object *) cbn [oinv] in HI. destruct HI as (W & CO & AL & L & NE & IN).
    cbn [loadAllKey]. unfold decodeObject. destruct rest as [|kt rest]; [congruence|].
    destruct (ppushall_props v (map (fun kv => NewPair hash (fst kv) (child_of hash COnce (snd kv))) (kt :: rest)) W IN) as (P1 & P2 & P3 & P4).
    destruct (cells_of_children hash (child_of hash COnce) (kt :: rest)) as (C1 & C2).
    { intros t. apply child_of_ok. }
    apply newObject_inv; auto.
    + rewrite P1. apply cells_ok_app; auto.
    + rewrite P1, forallb_app, AL. exact C2.
Qed.

Lemma add_oinv n v : R2 n (abs n) -> oinv hash (snd (run_op hash [] (OpAdd v) n)).
Proof.
  intros H. destruct (R2_checkRaw n (abs n) H) as (EC & HC & NR). destruct HC as (E1 & A1 & IA1 & IO1).
  assert (Hrun : run_op hash [] (OpAdd v) n = op_add hash (mk_value hash v) n).
  { destruct H as (E0 & _). destruct n; simpl in E0; try discriminate; reflexivity. }
  rewrite Hrun. unfold op_add. destruct (checkRaw hash n) as [e n1]. cbn [fst snd] in *. subst e. cbn [err_ok negb].
  destruct n1; simpl in E1; try discriminate; try contradiction; cbn [is_array negb snd]; try exact IO1; try exact I.
  - unfold unsafeArray, skipAllIndex, decodeArray, newArray. destruct rest; exact I.
  - destruct v0; exact I.
Qed.

Lemma arr_inv_of_abs n : (forall l, abs n <> TArr l) -> arr_inv n.
Proof.
  destruct n; cbn [arr_inv]; auto; intros H; exfalso.
  - eapply H. apply abs_array_lazy.
  - destruct v; [eapply H; apply abs_array|eapply H; reflexivity].
Qed.

Lemma set_on_array n key val :
  is_array (snd (checkRaw hash n)) = true -> fst (checkRaw hash n) = EOk ->
  snd (op_set hash key val n) = snd (checkRaw hash n).
Proof.
  unfold op_set. destruct (checkRaw hash n) as [e n1]. cbn [fst snd]. intros HA ->. cbn [err_ok negb].
  destruct n1; simpl in HA; try discriminate; reflexivity.
Qed.

Lemma unset_on_array n key :
  is_array (snd (checkRaw hash n)) = true -> fst (checkRaw hash n) = EOk ->
  snd (op_unset hash key n) = snd (checkRaw hash n).
Proof.
  unfold op_unset. destruct (checkRaw hash n) as [e n1]. cbn [fst snd]. intros HA ->. cbn [err_ok negb].
  destruct n1; simpl in HA; try discriminate; reflexivity.
Qed.

Lemma set_refines2 n t key r tv : R2 n t -> key <> [] ->
  fst (run_op hash [] (OpSet key (r, tv)) n) = fst (spec_op [] (OpSet key (r, tv)) t) /\
  R2 (snd (run_op hash [] (OpSet key (r, tv)) n)) (snd (spec_op [] (OpSet key (r, tv)) t)).
Proof.
  intros H KE.
  assert (Hrun : run_op hash [] (OpSet key (r, tv)) n = op_set hash key (mk_value hash (r, tv)) n).
  { destruct H as (E0 & _). destruct n; simpl in E0; try discriminate; reflexivity. }
  rewrite Hrun. cbn [spec_op].
  destruct (op_set_refines hash hash_inj n t key r tv (R2_RO _ _ H) KE) as (O1 & O2). destruct O2 as (E & A & IO).
  split; [exact O1|]. split; [exact E|]. split; [exact A|]. split; [|exact IO].
  destruct (R2_checkRaw n t H) as (EC & HC & NR). destruct HC as (E1 & A1 & IA1 & IO1).
  destruct t; try (apply arr_inv_of_abs; rewrite A; cbn [spec_apply snd]; intros l0; try discriminate;
                   match goal with |- context [find_key ?k ?l] => destruct (find_key k l); discriminate end).
  rewrite (set_on_array n key _ (is_array_of_abs _ l E1 NR A1) EC). exact IA1.
Qed.

Lemma unset_refines2 n t key : R2 n t -> key <> [] ->
  fst (run_op hash [] (OpUnset key) n) = fst (spec_op [] (OpUnset key) t) /\
  R2 (snd (run_op hash [] (OpUnset key) n)) (snd (spec_op [] (OpUnset key) t)).
Proof.
  intros H KE.
  assert (Hrun : run_op hash [] (OpUnset key) n = op_unset hash key n).
  { destruct H as (E0 & _). destruct n; simpl in E0; try discriminate; reflexivity. }
  rewrite Hrun. cbn [spec_op].
  destruct (op_unset_refines hash hash_inj n t key (R2_RO _ _ H) KE) as (O1 & O2). destruct O2 as (E & A & IO).
  split; [exact O1|]. split; [exact E|]. split; [exact A|]. split; [|exact IO].
  destruct (R2_checkRaw n t H) as (EC & HC & NR). destruct HC as (E1 & A1 & IA1 & IO1).
  destruct t; try (apply arr_inv_of_abs; rewrite A; cbn [spec_apply snd]; intros l0; try discriminate;
                   match goal with |- context [find_key ?k ?l] => destruct (find_key k l); discriminate end).
  rewrite (unset_on_array n key (is_array_of_abs _ l E1 NR A1) EC). exact IA1.
Qed.

Lemma look_refines2 n t : R2 n t -> run_op hash [] OpLook n = (fst (spec_op [] OpLook t), n).
Proof. intros H. apply look_refines. now apply R2_R. Qed.

Lemma load_refines2 n t : R2 n t ->
  fst (run_op hash [] OpLoad n) = fst (spec_op [] OpLoad t) /\ R2 (snd (run_op hash [] OpLoad n)) t.
Proof.
  intros H. destruct (load_refines hash n t (R2_R _ _ H)) as (L1 & L2). destruct L2 as (E & A & IA & _).
  split; auto. split; auto. split; auto. split; auto. apply load_oinv. apply H.
Qed.

Lemma add_refines2 n t v : R2 n t ->
  fst (run_op hash [] (OpAdd v) n) = fst (spec_op [] (OpAdd v) t) /\
  R2 (snd (run_op hash [] (OpAdd v) n)) (snd (spec_op [] (OpAdd v) t)).
Proof.
  intros H. destruct (add_refines hash n t v (R2_R _ _ H)) as (L1 & L2). destruct L2 as (E & A & IA & _).
  split; auto. split; auto. split; auto. split; auto. apply add_oinv.
  destruct H as (H1 & H2 & H3 & H4). subst t. split; auto.
Qed.

(* node_refines_tree_partial, fragment 2 *)
Theorem node_refines_tree_partial2 : forall ops n t,
  R2 n t -> forallb frag2 ops = true ->
  fst (run hash ops n) = fst (spec_run ops t) /\ R2 (snd (run hash ops n)) (snd (spec_run ops t)).
Proof.
  induction ops as [|[p o] ops IH]; intros n t HR HF; simpl.
  - auto.
  - simpl in HF. apply andb_true_iff in HF as (F1 & F2).
    destruct p; try discriminate.
    assert (STEP : fst (run_op hash [] o n) = fst (spec_op [] o t) /\ R2 (snd (run_op hash [] o n)) (snd (spec_op [] o t))).
    { destruct o; try discriminate.
      - rewrite (look_refines2 n t HR). cbn [fst snd spec_op spec_apply]. auto.
      - destruct v as [r tv]. destruct k; [discriminate|]. apply set_refines2; auto. discriminate.
      - apply add_refines2; auto.
      - destruct k; [discriminate|]. apply unset_refines2; auto. discriminate.
      - destruct (load_refines2 n t HR) as (L1 & L2). cbn [spec_op spec_apply fst snd] in *. auto. }
    destruct STEP as (S1 & S2).
    destruct (run_op hash [] o n) as [ob n1]. destruct (spec_op [] o t) as [sb t1]. cbn [fst snd] in S1, S2. subst sb.
    destruct (IH n1 t1 S2 F2) as (I1 & I2).
    destruct (run hash ops n1), (spec_run ops t1). cbn [fst snd] in *. subst. auto.
Qed.

(* from every document in every initial representation *)
Lemma oinv_build_full t : oinv hash (build_full hash t).
Proof.
  destruct t; try exact I.
  cbn [build_full]. unfold NewObject.
  destruct (FromSlice_spec pzero (map (fun kv => NewPair hash (fst kv) (build_full hash (snd kv))) l)) as (WF & TL).
  destruct (cells_of_children hash (build_full hash) l) as (C1 & C2).
  { intros t. apply build_full_ok. }
  apply newObject_inv; cbn [pv index]; auto; rewrite TL; auto.
Qed.

Theorem node_refines_tree_partial2_from_doc : forall v ops,
  forallb frag2 ops = true ->
  fst (run hash ops (mk_value hash v)) = fst (spec_run ops (snd v)).
Proof.
  intros v ops HF. apply node_refines_tree_partial2; auto.
  destruct v as [r t]. cbn [snd].
  assert (HR : R (mk_value hash (r, t)) t).
  { destruct r; cbn [mk_value fst snd].
    - unfold R. simpl. auto.
    - unfold R. simpl. auto.
    - apply R_parse_lazy.
    - apply R_build_full. }
  destruct HR as (E & A & IA & _). split; auto. split; auto. split; auto.
  destruct r; cbn [mk_value fst snd]; try exact I.
  - apply RO_parse_lazy.
  - apply oinv_build_full.
Qed.

End Ops.
