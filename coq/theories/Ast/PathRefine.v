(* Ast/PathRefine.v - nodes reached from the root.  One level: get_child (Node.Get / Node.Index as a cell lookup) returns the
   cell that denotes spec_child, put_child (the store through the returned pointer) denotes spec_put, the cells the node
   denotes do not change by loading.  All levels: a recursive invariant (dgood) and, by induction on the path, every history of
   read-only lookups (OpLook = Get/Index chains, i.e. Node.GetByPath) at arbitrary paths observes exactly the plain tree,
   whatever earlier lookups happened to load. *)
From Coq Require Import List Arith Bool NArith Lia.
From SV.Ast Require Import Linked Tree LinkedProofs Node IndexProofs NodeRefine ArrayRefine RootRefine ObjectRefine ObjectOps ObjectSet
     RootRefine2 ArrayOps ArraySet ObjectIdx ObjectPop ObjectIdxOps RootRefine4.
Import ListNotations.

Arguments Nat.div : simpl never.
Arguments Nat.modulo : simpl never.
Arguments Nat.ltb : simpl never.
Arguments Nat.leb : simpl never.
Arguments CAP : simpl never.

(* ---------- list facts ---------- *)
Lemma replace_key_same {V} (l : list (bytes * V)) k v : find_key k l = Some v -> replace_key k v l = l.
Proof.
  induction l as [|[k0 v0] l IH]; simpl; intros H; auto.
  destruct (bytes_eqb k0 k); [inversion H; reflexivity|]. f_equal. auto.
Qed.

Lemma replace_nth_same {X} (l : list X) i x : nth_error l i = Some x -> replace_nth i x l = l.
Proof. revert i. induction l; intros [|i] H; simpl in *; try discriminate; [inversion H; reflexivity|]. f_equal. auto. Qed.

Lemma map_upd {X Y} (f : X -> Y) l i x : map f (upd l i x) = upd (map f l) i (f x).
Proof. revert i. induction l; intros [|i]; simpl; auto. f_equal. auto. Qed.

Lemma nth_error_map_some {X Y} (f : X -> Y) l i x : nth_error l i = Some x -> nth_error (map f l) i = Some (f x).
Proof. revert i. induction l; intros [|i] H; simpl in *; try discriminate; [inversion H; reflexivity|auto]. Qed.

Section Paths.
Variable hash : bytes -> N.
Hypothesis hash_inj : forall a b, hash a = hash b -> a = b.
Hypothesis hash_nz : forall k, hash k <> 0%N.

(* the values held by the cells of a container once everything is loaded *)
Definition fvalues (n : node) : list node :=
  match n with
  | NArrayLazy _ _ _ | NArray _ _ => full_acells n
  | NObjectLazy _ _ _ | NObject _ _ => map (fun p : pair node => snd p) (full_cells hash n)
  | _ => []
  end.

Definition sel_ok (s : sel) : Prop := match s with SKey k => k <> [] | SIdx _ => True end.

Lemma not_container_abs n : exists_ n = true -> RootRefine.not_raw n -> is_object n = false ->
  forall l, abs n <> TObj l.
Proof. destruct n; simpl; intros; try discriminate; try contradiction; destruct v; discriminate. Qed.

Lemma not_array_abs n : exists_ n = true -> RootRefine.not_raw n -> is_array n = false ->
  forall l, abs n <> TArr l.
Proof. destruct n; simpl; intros; try discriminate; try contradiction; destruct v; discriminate. Qed.

(* one level of navigation *)
Theorem get_child_spec n s :
  R2 hash n (abs n) -> sel_ok s ->
  let r := get_child hash n s in
  R2 hash (snd r) (abs n) /\ fvalues (snd r) = fvalues (snd (checkRaw hash n)) /\
  match spec_child (abs n) s with
  | SVal tc =>
    exists i c, fst r = LSlot i /\ child_at (snd r) i = Some c /\ exists_ c = true /\ abs c = tc /\
      nth_error (fvalues (snd r)) i = Some c /\
      forall c', exists_ c' = true ->
        R2 hash (put_child (snd r) i c') (spec_put (abs n) s (abs c')) /\
        fvalues (put_child (snd r) i c') = upd (fvalues (snd r)) i c'
  | SErr e => fst r = LErr e
  end.
Proof.
  intros HR HS. unfold get_child.
  destruct (R2_checkRaw hash n (abs n) HR) as (EC & HC & NR).
  destruct (checkRaw hash n) as [e n0]. cbn [fst snd] in EC, HC, NR |- *. subst e. cbn [err_ok negb].
  pose proof HC as (E0 & A0 & IA0 & IO0). rewrite <- A0. rewrite <- A0 in HC.
  destruct s as [k|idx].
  - (* key *)
    destruct (is_object n0) eqn:HO.
    + destruct (skipKey_spec hash n0 k IO0 HO HS) as (S1 & S2 & S3 & S4 & S5 & S6).
      destruct (skipKey hash n0 k) as [r0 n2]. cbn [fst snd] in S1, S2, S3, S4, S5, S6.
      assert (FV : fvalues n2 = fvalues n0).
      { destruct n2; simpl in S3; try discriminate; destruct n0; simpl in HO; try discriminate; cbn [fvalues]; now rewrite S1. }
      assert (AB : abs n2 = abs n0) by (rewrite (abs_full_cells hash n2 S3), (abs_full_cells hash n0 HO), S1; reflexivity).
      assert (R2n2 : R2 hash n2 (abs n0)).
      { apply R2_of_RO_obj; [|rewrite (abs_full_cells hash n0 HO); exact I].
        split; [destruct n2; simpl in S3; try discriminate; reflexivity|]. split; [exact AB|exact S2]. }
      rewrite (abs_full_cells hash n0 HO). rewrite <- S1 in *.
      pose proof (oinv_cells_ok hash n2 S2) as CO.
      pose proof (find_cell_members hash (full_cells hash n2) k 0 CO HS) as FM.
      cbn [spec_child]. rewrite (find_key_find_cell hash _ k CO HS).
      destruct (find_cell (full_cells hash n2) k 0) as [i|] eqn:EF.
      * destruct FM as (h & c & N1 & N2 & _ & N4 & N5 & _). rewrite Nat.sub_0_r in N1, N5. rewrite N1.
        cbn [getres_of keyres_of] in S4. subst r0. specialize (S5 i eq_refl). cbn [fst snd].
        split; [rewrite <- (abs_full_cells hash n2 S3), AB; exact R2n2|]. split; [exact FV|].
        exists i, c. split; [reflexivity|]. split; [rewrite (child_at_cells hash n2 i S2 S3 S5), N1; reflexivity|].
        split; [exact N2|]. split; [reflexivity|]. split.
        { destruct n2; simpl in S3; try discriminate; cbn [fvalues]; apply (nth_error_map_some (fun p : pair node => snd p) _ _ _ N1). }
        intros c' Hc'.
        destruct (put_child_cells hash n2 i h k c c' S2 S3 S5 N1 N2 Hc') as (Q1 & Q2 & Q3 & Q4).
        split.
        -- apply R2_of_RO_obj; [|exact I]. split; [exact Q4|]. split; [|exact Q2].
           rewrite (abs_full_cells hash _ Q3), Q1. cbn [spec_put]. f_equal. exact (N5 c' Hc').
        -- assert (F1 : fvalues (put_child n2 i c') = map (fun p : pair node => snd p) (full_cells hash (put_child n2 i c'))).
           { destruct (put_child n2 i c'); simpl in Q3; try discriminate; reflexivity. }
           assert (F2 : fvalues n2 = map (fun p : pair node => snd p) (full_cells hash n2)).
           { destruct n2; simpl in S3; try discriminate; reflexivity. }
           rewrite F1, F2, Q1, map_upd. reflexivity.
      * cbn [getres_of keyres_of] in S4. subst r0. cbn [fst snd].
        split; [rewrite <- (abs_full_cells hash n2 S3), AB; exact R2n2|]. split; [exact FV|reflexivity].
    + cbn [fst snd]. split; [exact HC|]. split; [reflexivity|].
      destruct (abs n0) eqn:EA; try reflexivity. exfalso. eapply (not_container_abs n0 E0 NR HO); eauto.
  - (* index *)
    destruct (is_array n0) eqn:HA.
    + destruct (skipIndex_spec n0 idx IA0 HA) as (S1 & S2 & S3 & S4 & S5 & S6).
      destruct (skipIndex n0 idx) as [r0 n2]. cbn [fst snd] in S1, S2, S3, S4, S5, S6.
      assert (FV : fvalues n2 = fvalues n0).
      { destruct n2; simpl in S3; try discriminate; destruct n0; simpl in HA; try discriminate; cbn [fvalues]; exact S1. }
      assert (AB : abs n2 = abs n0) by (rewrite (abs_full_acells n2 S3), (abs_full_acells n0 HA), S1; reflexivity).
      assert (R2n2 : R2 hash n2 (abs n0)).
      { apply R2_of_R_arr; [|rewrite (abs_full_acells n0 HA); exact I].
        split; [destruct n2; simpl in S3; try discriminate; reflexivity|]. split; [exact AB|]. split; [exact S2|].
        destruct n2; simpl in S3; try discriminate; exact I. }
      rewrite (abs_full_acells n0 HA). rewrite <- S1 in *.
      pose proof (nth_live_members (full_acells n2) idx 0) as NM. rewrite <- S4 in NM. cbn [spec_child].
      destruct r0 as [j|].
      * destruct NM as (c & N1 & N2 & _ & N4 & N5 & _). rewrite Nat.sub_0_r in N1, N5. rewrite N4.
        specialize (S5 j eq_refl). cbn [fst snd].
        split; [rewrite <- (abs_full_acells n2 S3), AB; exact R2n2|]. split; [exact FV|].
        exists j, c. split; [reflexivity|]. split; [rewrite (achild_at_cells n2 j S2 S3 S5); exact N1|].
        split; [exact N2|]. split; [reflexivity|]. split.
        { destruct n2; simpl in S3; try discriminate; cbn [fvalues]; exact N1. }
        intros c' Hc'.
        destruct (aput_child_cells n2 j c c' S2 S3 S5 N1 N2 Hc') as (Q1 & Q2 & Q3 & Q4).
        split.
        -- apply R2_of_R_arr; [|exact I]. split; [exact Q4|]. split; [|split; [exact Q2|]].
           ++ rewrite (abs_full_acells _ Q3), Q1. cbn [spec_put]. f_equal. exact (N5 c' Hc').
           ++ destruct (put_child n2 j c'); simpl in Q3; try discriminate; exact I.
        -- assert (F1 : fvalues (put_child n2 j c') = full_acells (put_child n2 j c')).
           { destruct (put_child n2 j c'); simpl in Q3; try discriminate; reflexivity. }
           assert (F2 : fvalues n2 = full_acells n2) by (destruct n2; simpl in S3; try discriminate; reflexivity).
           rewrite F1, F2, Q1. reflexivity.
      * assert (NN : nth_error (live_abs (full_acells n2)) idx = None) by (apply nth_error_None; exact NM).
        rewrite NN. cbn [fst snd].
        split; [rewrite <- (abs_full_acells n2 S3), AB; exact R2n2|]. split; [exact FV|reflexivity].
    + destruct (is_object n0) eqn:HO.
      * destruct (skipIndexPair_spec hash n0 idx IO0 HO) as (S1 & S2 & S3 & S4 & S5 & S6).
        destruct (skipIndexPair hash n0 idx) as [r0 n2]. cbn [fst snd] in S1, S2, S3, S4, S5, S6.
        assert (FV : fvalues n2 = fvalues n0).
        { destruct n2; simpl in S3; try discriminate; destruct n0; simpl in HO; try discriminate; cbn [fvalues]; now rewrite S1. }
        assert (AB : abs n2 = abs n0) by (rewrite (abs_full_cells hash n2 S3), (abs_full_cells hash n0 HO), S1; reflexivity).
        assert (R2n2 : R2 hash n2 (abs n0)).
        { apply R2_of_RO_obj; [|rewrite (abs_full_cells hash n0 HO); exact I].
          split; [destruct n2; simpl in S3; try discriminate; reflexivity|]. split; [exact AB|exact S2]. }
        rewrite (abs_full_cells hash n0 HO). rewrite <- S1 in *.
        pose proof (nth_live_pmembers (full_cells hash n2) idx 0) as NM. rewrite <- S4 in NM. cbn [spec_child].
        destruct r0 as [j|].
        -- destruct NM as (h & k & c & N1 & N2 & _ & N4 & N5 & _). rewrite Nat.sub_0_r in N1, N5. rewrite N4.
           specialize (S5 j eq_refl). cbn [fst snd].
           split; [rewrite <- (abs_full_cells hash n2 S3), AB; exact R2n2|]. split; [exact FV|].
           exists j, c. split; [reflexivity|]. split; [rewrite (child_at_cells hash n2 j S2 S3 S5), N1; reflexivity|].
           split; [exact N2|]. split; [reflexivity|]. split.
           { destruct n2; simpl in S3; try discriminate; cbn [fvalues]; apply (nth_error_map_some (fun p : pair node => snd p) _ _ _ N1). }
           intros c' Hc'.
           destruct (put_child_cells hash n2 j h k c c' S2 S3 S5 N1 N2 Hc') as (Q1 & Q2 & Q3 & Q4).
           split.
           ++ apply R2_of_RO_obj; [|cbn [spec_put]; rewrite N4; exact I]. split; [exact Q4|]. split; [|exact Q2].
              rewrite (abs_full_cells hash _ Q3), Q1. cbn [spec_put]. rewrite N4. f_equal. exact (N5 c' Hc').
           ++ assert (F1 : fvalues (put_child n2 j c') = map (fun p : pair node => snd p) (full_cells hash (put_child n2 j c'))).
              { destruct (put_child n2 j c'); simpl in Q3; try discriminate; reflexivity. }
              assert (F2 : fvalues n2 = map (fun p : pair node => snd p) (full_cells hash n2)).
              { destruct n2; simpl in S3; try discriminate; reflexivity. }
              rewrite F1, F2, Q1, map_upd. reflexivity.
        -- assert (NN : nth_error (live_pabs (full_cells hash n2)) idx = None) by (apply nth_error_None; exact NM).
           rewrite NN. cbn [fst snd].
           split; [rewrite <- (abs_full_cells hash n2 S3), AB; exact R2n2|]. split; [exact FV|reflexivity].
      * cbn [fst snd]. split; [exact HC|]. split; [reflexivity|].
        destruct (abs n0) eqn:EA; try reflexivity; exfalso.
        -- eapply (not_array_abs n0 E0 NR HA); eauto.
        -- eapply (not_container_abs n0 E0 NR HO); eauto.
Qed.

(* ---------- the recursive invariant ---------- *)
Inductive dgood : node -> Prop :=
| DG n : exists_ n = true -> arr_inv n -> oinv hash n ->
         Forall (fun c => exists_ c = true -> dgood c) (fvalues n) -> dgood n.

Lemma dgood_R2 n : dgood n -> R2 hash n (abs n).
Proof. intros H. inversion H; subst. split; auto. Qed.

Lemma dgood_leaf n : exists_ n = true -> fvalues n = [] -> arr_inv n -> oinv hash n -> dgood n.
Proof. intros E F A O. constructor; auto. rewrite F. constructor. Qed.

Lemma dgood_raw lock t : dgood (NRaw lock t).
Proof. apply dgood_leaf; simpl; auto. Qed.

Lemma dgood_child_once t : dgood (child_once t).
Proof. destruct t; try (apply dgood_leaf; simpl; auto; fail); destruct l; try (apply dgood_leaf; simpl; auto; fail); apply dgood_raw. Qed.

Lemma Forall_dgood_map {X} (f : X -> node) l : (forall t, dgood (f t)) -> Forall (fun c => exists_ c = true -> dgood c) (map f l).
Proof. intros H. induction l; constructor; auto. Qed.

Lemma dgood_parse_lazy t : dgood (parse_lazy t).
Proof.
  destruct (R_parse_lazy t) as (E & _ & IA & _). destruct (RO_parse_lazy hash t) as (_ & _ & IO).
  constructor; auto.
  destruct t; try (constructor; fail); destruct l as [|x l]; try (constructor; fail).
  - change (fvalues (parse_lazy (TArr (x :: l)))) with (to_list emptyN ++ map (NRaw false) (x :: l)).
    destruct emptyN_spec as (_ & EN). rewrite EN. cbn [app].
    apply (Forall_dgood_map (NRaw false)). intros. apply dgood_raw.
  - change (fvalues (parse_lazy (TObj (x :: l))))
      with (map (fun p : pair node => snd p) (to_list (pv emptyP) ++ map (mkcell hash) (x :: l))).
    destruct emptyP_spec as (_ & EP). rewrite EP. cbn [app]. rewrite map_map.
    apply (Forall_dgood_map (fun kv : bytes * tree => snd (mkcell hash kv)) (x :: l)). intros. apply dgood_raw.
Qed.

Lemma fvalues_array_of l0 : fvalues (newArray (pushall emptyN l0)) = l0.
Proof.
  cbn [newArray fvalues full_acells]. destruct emptyN_spec as (W & E).
  destruct (pushall_spec emptyN l0 W) as (P1 & _). now rewrite P1, E.
Qed.

Lemma fvalues_object_of (ps : list (pair node)) :
  fvalues (newObject (ppushall emptyP ps)) = map (fun p : pair node => snd p) ps.
Proof.
  destruct emptyP_spec as (W & E).
  destruct (ppushall_props emptyP ps W eq_refl) as (P1 & _).
  unfold newObject. destruct (THRESHOLD <? _); cbn [fvalues full_cells pv P_BuildIndex]; now rewrite P1, E.
Qed.

Lemma dgood_parse_once t : dgood (parse_once hash t).
Proof.
  destruct (R_parse_once hash t) as (E & _ & IA & _). destruct (RO_parse_once hash t) as (_ & _ & IO).
  constructor; auto.
  destruct t; try (constructor; fail); destruct l as [|x l]; try (constructor; fail).
  - change (parse_once hash (TArr (x :: l))) with (newArray (pushall emptyN (map child_once (x :: l)))).
    rewrite fvalues_array_of. apply Forall_dgood_map. apply dgood_child_once.
  - change (parse_once hash (TObj (x :: l)))
      with (newObject (ppushall emptyP (map (fun kv => NewPair hash (fst kv) (child_once (snd kv))) (x :: l)))).
    rewrite fvalues_object_of, map_map.
    apply (Forall_dgood_map (fun kv : bytes * tree => child_once (snd kv)) (x :: l)). intros. apply dgood_child_once.
Qed.

Lemma dgood_checkRaw n : dgood n -> dgood (snd (checkRaw hash n)).
Proof.
  intros H. destruct n; cbn [checkRaw snd]; auto. destruct lock; [apply dgood_parse_once|apply dgood_parse_lazy].
Qed.

(* from R2 and the values: used after get_child / put_child *)
Lemma dgood_intro n t : R2 hash n t -> Forall (fun c => exists_ c = true -> dgood c) (fvalues n) -> dgood n.
Proof. intros (E & _ & IA & IO) F. constructor; auto. Qed.

Lemma Forall_upd {X} (P : X -> Prop) l i x : Forall P l -> P x -> Forall P (upd l i x).
Proof. intros F. revert i. induction F; intros [|i] Hx; simpl; constructor; auto. Qed.

Lemma spec_put_same t s c : spec_child t s = SVal c -> spec_put t s c = t.
Proof.
  destruct s as [k|i]; destruct t; simpl; try discriminate.
  - destruct (find_key k l) eqn:E; try discriminate. intros H. inversion H; subst. now rewrite replace_key_same.
  - destruct (nth_error l i) eqn:E; try discriminate. intros H. inversion H; subst. now rewrite replace_nth_same.
  - destruct (nth_error l i) as [[k v]|] eqn:E; try discriminate. intros H. inversion H; subst. now rewrite replace_nth_same.
Qed.

Lemma spec_look_same p : forall t, snd (spec_op p OpLook t) = t.
Proof.
  induction p as [|s p IH]; intros t; [reflexivity|]. cbn [spec_op].
  destruct (spec_child t s) as [c|e] eqn:E; [|reflexivity].
  specialize (IH c). destruct (spec_op p OpLook c) as [ob c']. cbn [snd] in *. subst c'. now apply spec_put_same.
Qed.

(* a lookup at any depth: same observation as the tree, the document is unchanged, the invariant is kept *)
Theorem look_path : forall p n,
  dgood n -> Forall sel_ok p ->
  fst (run_op hash p OpLook n) = fst (spec_op p OpLook (abs n)) /\
  abs (snd (run_op hash p OpLook n)) = abs n /\ dgood (snd (run_op hash p OpLook n)).
Proof.
  induction p as [|s p IH]; intros n HD HP.
  - pose proof (dgood_R2 n HD) as (E & _).
    assert (RR : run_op hash [] OpLook n = (OLook true true EOk (type_of_node n) (Some (abs n)), n)).
    { destruct n; simpl in E; try discriminate; reflexivity. }
    rewrite RR. cbn [fst snd spec_op spec_apply]. rewrite (type_of_abs n E). auto.
  - inversion HP as [|s0 p0 HS HP']; subst.
    destruct (get_child_spec n s (dgood_R2 n HD) HS) as (G1 & G2 & G3).
    pose proof (dgood_checkRaw n HD) as HD0. inversion HD0 as [n0 E0 IA0 IO0 F0]; subst.
    cbn [run_op spec_op]. destruct (get_child hash n s) as [loc n1]. cbn [fst snd] in G1, G2, G3.
    assert (HD1 : dgood n1) by (apply (dgood_intro n1 (abs n) G1); rewrite G2; exact F0).
    destruct (spec_child (abs n) s) as [tc|e] eqn:ES.
    + destruct G3 as (i & c & L1 & L2 & L3 & L4 & L5 & L6). subst loc. rewrite L2.
      assert (HDc : dgood c).
      { inversion HD1 as [nn E1 IA1 IO1 F1]; subst. eapply Forall_forall in F1; [apply F1; exact L3|]. eapply nth_error_In; eauto. }
      destruct (IH c HDc HP') as (I1 & I2 & I3). rewrite L4 in I1.
      destruct (run_op hash p OpLook c) as [ob c'] eqn:ER. cbn [fst snd] in I1, I2, I3.
      pose proof (spec_look_same p tc) as SS.
      destruct (spec_op p OpLook tc) as [sb tc'] eqn:ESP. cbn [fst snd] in I1, SS. subst sb tc'.
      assert (Ec' : exists_ c' = true) by (inversion I3; assumption).
      destruct (L6 c' Ec') as (P1 & P2).
      cbn [fst snd]. split; [reflexivity|]. rewrite I2, L4 in P1.
      rewrite (spec_put_same _ _ _ ES) in P1.
      split; [apply P1|]. apply (dgood_intro _ _ P1). rewrite P2. apply Forall_upd.
      * inversion HD1; assumption.
      * intros _. exact I3.
    + subst loc. cbn [fst snd]. split; [reflexivity|]. split; [apply G1|exact HD1].
Qed.

Definition look_step (s : step) : Prop := snd s = OpLook /\ Forall sel_ok (fst s).

(* every history of lookups at arbitrary paths *)
Theorem look_run : forall ops n,
  dgood n -> Forall look_step ops ->
  fst (run hash ops n) = fst (spec_run ops (abs n)) /\ abs (snd (run hash ops n)) = abs n /\ dgood (snd (run hash ops n)).
Proof.
  induction ops as [|[p o] ops IH]; intros n HD HF; simpl.
  - auto.
  - inversion HF as [|x y (HO & HP) HF']; subst. cbn [fst snd] in HO, HP. subst o.
    destruct (look_path p n HD HP) as (L1 & L2 & L3).
    pose proof (spec_look_same p (abs n)) as SS.
    destruct (run_op hash p OpLook n) as [ob n1]. destruct (spec_op p OpLook (abs n)) as [sb t1]. cbn [fst snd] in *. subst sb t1.
    destruct (IH n1 L3 HF') as (I1 & I2 & I3). rewrite L2 in I1.
    destruct (run hash ops n1), (spec_run ops (abs n)). cbn [fst snd] in *. subst. rewrite I2. auto.
Qed.

(* the constructors build good nodes *)
Lemma dgood_build_full t : dgood (build_full hash t).
Proof.
  induction t using tree_ind'; try (apply dgood_leaf; simpl; auto; fail).
  - destruct (R_build_full hash (TArr l)) as (E & _ & IA & _). constructor; auto; [exact I|].
    cbn [build_full NewArray newArray fvalues full_acells]. rewrite FromSlice_list.
    clear - H. induction H; constructor; auto.
  - destruct (R_build_full hash (TObj l)) as (E & _ & IA & _). constructor; auto; [apply oinv_build_full|].
    assert (FV : fvalues (build_full hash (TObj l)) = map (fun kv => build_full hash (snd kv)) l).
    { cbn [build_full]. unfold NewObject, newObject. destruct (THRESHOLD <? _); cbn [fvalues full_cells pv P_BuildIndex];
        rewrite FromSlice_list, map_map; reflexivity. }
    rewrite FV. clear - H. induction H; constructor; auto.
Qed.

Theorem dgood_mk_value v : dgood (mk_value hash v).
Proof.
  destruct v as [r t]. destruct r; cbn [mk_value fst snd].
  - apply dgood_raw.
  - apply dgood_raw.
  - apply dgood_parse_lazy.
  - apply dgood_build_full.
Qed.

Theorem look_run_from_doc : forall v ops,
  Forall look_step ops ->
  fst (run hash ops (mk_value hash v)) = fst (spec_run ops (snd v)).
Proof.
  intros v ops HF. destruct (look_run ops (mk_value hash v) (dgood_mk_value v) HF) as (H & _).
  rewrite H. destruct (abs_mk_value hash v) as (_ & A). now rewrite A.
Qed.

End Paths.
