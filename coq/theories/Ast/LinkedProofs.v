(* Ast/LinkedProofs.v - the chunked storage of buffer.go (head [16] + tail chunks + size) refines a plain list,
   for every size and every sequence of operations. *)
From Coq Require Import List Arith Bool Lia.
From SV.Ast Require Import Linked Tree.
Import ListNotations.

Arguments Nat.div : simpl never.
Arguments Nat.modulo : simpl never.
Arguments Nat.ltb : simpl never.
Arguments Nat.leb : simpl never.
Arguments Nat.mul : simpl never.
Arguments Nat.sub : simpl never.
Arguments CAP : simpl never.

(* ---------- generic list facts ---------- *)
Lemma upd_length {A} (l : list A) i v : length (upd l i v) = length l.
Proof. revert i; induction l; destruct i; simpl; auto. Qed.

Lemma nth_error_upd_same {A} (l : list A) i v : i < length l -> nth_error (upd l i v) i = Some v.
Proof. revert i; induction l; destruct i; simpl; intros; try lia; auto. apply IHl; lia. Qed.

Lemma nth_error_upd_other {A} (l : list A) i j v : i <> j -> nth_error (upd l i v) j = nth_error l j.
Proof. revert i j; induction l; destruct i, j; simpl; intros; try congruence; auto. Qed.

Lemma upd_oob {A} (l : list A) i v : length l <= i -> upd l i v = l.
Proof. revert i; induction l; destruct i; simpl; intros; try lia; auto. f_equal. apply IHl. lia. Qed.

Lemma upd_app_l {A} (l1 l2 : list A) i v : i < length l1 -> upd (l1 ++ l2) i v = upd l1 i v ++ l2.
Proof. revert i; induction l1; destruct i; simpl; intros; try lia; auto. f_equal. apply IHl1. lia. Qed.

Lemma upd_app_r {A} (l1 l2 : list A) i v : length l1 <= i -> upd (l1 ++ l2) i v = l1 ++ upd l2 (i - length l1) v.
Proof.
  revert i; induction l1; simpl; intros.
  - now rewrite Nat.sub_0_r.
  - destruct i; [lia|]. simpl. f_equal. apply IHl1. lia.
Qed.

Lemma firstn_upd_lt {A} (l : list A) n i v : i < n -> firstn n (upd l i v) = upd (firstn n l) i v.
Proof.
  revert n i; induction l; intros; destruct n, i; simpl; try lia; auto.
  f_equal. apply IHl. lia.
Qed.

Lemma firstn_upd_ge {A} (l : list A) n i v : n <= i -> firstn n (upd l i v) = firstn n l.
Proof.
  revert n i; induction l; intros; destruct n, i; simpl; try lia; auto.
  f_equal. apply IHl. lia.
Qed.

Lemma upd_replace_nth {A} (l : list A) i v : upd l i v = replace_nth i v l.
Proof. revert i; induction l; destruct i; simpl; auto. f_equal; auto. Qed.

Lemma firstn_S_nth {A} (l : list A) n x : nth_error l n = Some x -> firstn (S n) l = firstn n l ++ [x].
Proof.
  revert n; induction l as [|a l IH]; intros [|n] H; simpl in *; try discriminate.
  - inversion H; subst. reflexivity.
  - f_equal. now apply IH.
Qed.

Lemma removelast_firstn_S {A} (l : list A) n : n < length l -> removelast (firstn (S n) l) = firstn n l.
Proof.
  intros. destruct (nth_error l n) eqn:E.
  - rewrite (firstn_S_nth _ _ _ E). now rewrite removelast_last.
  - apply nth_error_None in E. lia.
Qed.

Lemma nth_error_firstn' {X} (l : list X) n i : i < n -> nth_error (firstn n l) i = nth_error l i.
Proof. revert n i; induction l; destruct n, i; simpl; intros; try lia; auto. apply IHl; lia. Qed.

(* ---------- chunks of equal length ---------- *)
Section Chunks.
Context {A : Type}.
Variable n : nat.
Hypothesis npos : 0 < n.

Definition uniform (t : list (list A)) := Forall (fun c => length c = n) t.

Lemma concat_length_uniform t : uniform t -> length (concat t) = n * length t.
Proof. induction 1; simpl; [lia|]. rewrite app_length. lia. Qed.

Lemma nth_error_concat t a b :
  uniform t -> b < n ->
  nth_error (concat t) (a * n + b) = match nth_error t a with Some c => nth_error c b | None => None end.
Proof.
  intros U Hb. revert a. induction U; intros a.
  - assert (Hnil : forall X k, nth_error (@nil X) k = None) by (destruct k; auto).
    simpl. now rewrite !Hnil.
  - destruct a; simpl.
    + rewrite ?Nat.mul_0_l, ?Nat.add_0_l. rewrite nth_error_app1; auto. lia.
    + rewrite nth_error_app2 by nia. replace (S a * n + b - length x) with (a * n + b) by nia. apply IHU.
Qed.

Lemma upd_concat t a b v c :
  uniform t -> b < n -> nth_error t a = Some c ->
  upd (concat t) (a * n + b) v = concat (upd t a (upd c b v)).
Proof.
  intros U Hb. revert a. induction U; intros a Ha.
  - destruct a; discriminate.
  - destruct a; simpl in *.
    + inversion Ha; subst. rewrite ?Nat.mul_0_l, ?Nat.add_0_l. rewrite upd_app_l by lia. reflexivity.
    + rewrite upd_app_r by nia. replace (S a * n + b - length x) with (a * n + b) by nia.
      f_equal. now apply IHU.
Qed.

Lemma uniform_upd t a c : uniform t -> length c = n -> uniform (upd t a c).
Proof.
  intros U Hc. revert a. induction U; intros a; destruct a; simpl; constructor; auto.
  apply IHU.
Qed.
End Chunks.

(* ---------- the storage ---------- *)
Section Storage.
Context {A : Type} (dflt : A).

Definition flat (s : linked A) : list A := head s ++ concat (tail s).

Definition wf (s : linked A) : Prop :=
  length (head s) = CAP /\ uniform CAP (tail s) /\ size s <= CAP * (1 + length (tail s)).

Lemma CAP_pos : 0 < CAP. Proof. unfold CAP; lia. Qed.

Lemma flat_length s : wf s -> length (flat s) = CAP * (1 + length (tail s)).
Proof.
  intros (H & U & _). unfold flat. rewrite app_length, H, (concat_length_uniform CAP CAP_pos _ U). lia.
Qed.

Lemma to_list_length s : wf s -> length (to_list s) = size s.
Proof.
  intros W. unfold to_list. fold (flat s). rewrite firstn_length, (flat_length _ W). destruct W as (_ & _ & ?). lia.
Qed.

Lemma chunk_addr i : CAP <= i -> i = CAP + ((i / CAP - 1) * CAP + i mod CAP) /\ i mod CAP < CAP.
Proof.
  intros. pose proof (Nat.div_mod i CAP ltac:(unfold CAP; lia)).
  pose proof (Nat.mod_upper_bound i CAP ltac:(unfold CAP; lia)).
  assert (1 <= i / CAP) by (apply Nat.div_le_lower_bound; unfold CAP in *; lia).
  split; auto. nia.
Qed.

(* At reads the flat storage *)
Lemma At_flat s i : wf s -> At s i = if i <? size s then nth_error (flat s) i else None.
Proof.
  intros (H & U & B). unfold At, flat.
  destruct (i <? size s) eqn:E1; simpl.
  - destruct (i <? CAP) eqn:E2; simpl.
    + apply Nat.ltb_lt in E2. rewrite nth_error_app1; auto. lia.
    + apply Nat.ltb_ge in E2. replace (CAP <=? i) with true by (symmetry; now apply Nat.leb_le). simpl.
      destruct (chunk_addr i E2) as (Hi & Hb).
      rewrite nth_error_app2 by lia. rewrite H.
      replace (i - CAP) with ((i / CAP - 1) * CAP + i mod CAP) by lia.
      rewrite (nth_error_concat CAP CAP_pos _ _ _ U Hb).
      destruct (i / CAP - 1 <? length (tail s)) eqn:E3; auto.
      apply Nat.ltb_ge in E3. apply nth_error_None in E3. now rewrite E3.
  - now rewrite andb_false_r.
Qed.

Theorem At_spec s i : wf s -> At s i = nth_error (to_list s) i.
Proof.
  intros W. rewrite (At_flat _ _ W). unfold to_list. fold (flat s).
  destruct (i <? size s) eqn:E.
  - apply Nat.ltb_lt in E. now rewrite nth_error_firstn' by lia.
  - apply Nat.ltb_ge in E. symmetry. apply nth_error_None. rewrite firstn_length. lia.
Qed.

(* growTailLength *)
Lemma grow_uniform t l : uniform CAP t -> uniform CAP (growTailLength dflt t l).
Proof.
  intros U. unfold growTailLength. destruct (l <=? length t); auto.
  apply Forall_app; split; auto. apply Forall_forall. intros x Hx. apply repeat_spec in Hx. subst.
  unfold zero_chunk. apply repeat_length.
Qed.

Lemma grow_length t l : length (growTailLength dflt t l) = Nat.max l (length t).
Proof.
  unfold growTailLength. destruct (l <=? length t) eqn:E.
  - apply Nat.leb_le in E. lia.
  - apply Nat.leb_gt in E. rewrite app_length, repeat_length. lia.
Qed.

Lemma grow_prefix t l : exists extra, growTailLength dflt t l = t ++ extra.
Proof.
  unfold growTailLength. destruct (l <=? length t).
  - exists []. now rewrite app_nil_r.
  - eexists. reflexivity.
Qed.

(* raw store into cell i of the flat storage (no size change) *)
Definition store (s : linked A) (i : nat) (v : A) : linked A :=
  if i <? CAP then mkLinked (upd (head s) i v) (tail s) (size s)
  else mkLinked (head s) (upd_chunk (tail s) (i / CAP - 1) (i mod CAP) v) (size s).

Lemma store_flat s i v : wf s -> i < length (flat s) -> flat (store s i v) = upd (flat s) i v /\ wf (store s i v).
Proof.
  intros W Hi. pose proof (flat_length _ W) as FL. destruct W as (H & U & B).
  unfold store, flat in *.
  destruct (i <? CAP) eqn:E; simpl.
  - apply Nat.ltb_lt in E. split.
    + rewrite upd_app_l by lia. reflexivity.
    + repeat split; simpl; auto. now rewrite upd_length.
  - apply Nat.ltb_ge in E. destruct (chunk_addr i E) as (Ha & Hb).
    unfold upd_chunk.
    assert (Hlt : i / CAP - 1 < length (tail s)).
    { rewrite FL in Hi. destruct (Nat.lt_ge_cases (i / CAP - 1) (length (tail s))); auto. exfalso. nia. }
    destruct (nth_error (tail s) (i / CAP - 1)) as [c|] eqn:Ec.
    2:{ apply nth_error_None in Ec. lia. }
    split.
    + rewrite upd_app_r by lia. rewrite H. f_equal.
      replace (i - CAP) with ((i / CAP - 1) * CAP + i mod CAP) by lia.
      symmetry. now apply (upd_concat CAP CAP_pos).
    + repeat split; simpl; auto.
      * apply uniform_upd; auto. rewrite upd_length.
        eapply Forall_forall in U; [exact U|]. eapply nth_error_In; eauto.
      * now rewrite upd_length.
Qed.

Lemma wf_size_le s : wf s -> size s <= length (flat s).
Proof. intros W. rewrite (flat_length _ W). now destruct W as (_ & _ & ?). Qed.

(* assign: *At(i) = v *)
Lemma store_size s i v : size (store s i v) = size s.
Proof. unfold store. destruct (i <? CAP); reflexivity. Qed.

Lemma assign_store s i v a : At s i = Some a -> assign s i v = store s i v.
Proof. intros E. unfold assign, store. now rewrite E. Qed.

Theorem assign_spec s i v : wf s -> to_list (assign s i v) = upd (to_list s) i v /\ wf (assign s i v) /\ size (assign s i v) = size s.
Proof.
  intros W. destruct (At s i) eqn:E0.
  - rewrite (assign_store _ _ _ _ E0). rewrite (At_spec _ _ W) in E0.
    assert (Hi : i < size s). { rewrite <- (to_list_length _ W). apply nth_error_Some. congruence. }
    destruct (store_flat s i v W ltac:(pose proof (wf_size_le _ W); lia)) as (F & W').
    split; [|split]; auto using store_size.
    unfold to_list. fold (flat (store s i v)) (flat s). rewrite F, store_size.
    now apply firstn_upd_lt.
  - unfold assign. rewrite E0. rewrite (At_spec _ _ W) in E0. apply nth_error_None in E0.
    split; [|split]; auto. now rewrite upd_oob.
Qed.

(* Set within the current size = assign; Set at size = append one cell *)
Lemma Set_store s i : wf s -> i <= size s ->
  let s1 := mkLinked (head s) (growTailLength dflt (tail s) (i / CAP)) (size s) in
  wf s1 /\ flat s1 = flat s ++ concat (skipn (length (tail s)) (growTailLength dflt (tail s) (i / CAP))).
Proof.
  intros W Hi s1. destruct W as (H & U & B). split.
  - repeat split; simpl; auto.
    + now apply grow_uniform.
    + rewrite grow_length. unfold CAP in *. lia.
  - unfold flat, s1; simpl. destruct (grow_prefix (tail s) (i / CAP)) as (ex & E). rewrite E.
    rewrite skipn_app, skipn_all, Nat.sub_diag. simpl. now rewrite concat_app, app_assoc.
Qed.

Theorem Set_spec s i v : wf s -> i <= size s ->
  to_list (Set_ dflt s i v) = (if i <? size s then upd (to_list s) i v else to_list s ++ [v])
  /\ wf (Set_ dflt s i v)
  /\ size (Set_ dflt s i v) = (if i <? size s then size s else S (size s)).
Proof.
  intros W Hi. pose proof W as (H & U & B).
  assert (SZ : size (Set_ dflt s i v) = (if i <? size s then size s else S (size s))).
  { unfold Set_. destruct (Nat.lt_ge_cases i (size s)) as [L|L].
    - replace (i <? size s) with true by (symmetry; apply Nat.ltb_lt; auto).
      replace (size s <=? i) with false by (symmetry; apply Nat.leb_gt; auto).
      destruct (i <? CAP); reflexivity.
    - replace (i <? size s) with false by (symmetry; apply Nat.ltb_ge; auto).
      replace (size s <=? i) with true by (symmetry; apply Nat.leb_le; auto).
      destruct (i <? CAP); simpl; lia. }
  (* the same storage through grow + store *)
  set (s1 := mkLinked (head s) (growTailLength dflt (tail s) (i / CAP)) (size s)).
  destruct (Set_store s i W Hi) as (W1 & F1). fold s1 in W1, F1.
  assert (Hcell : i < length (flat s1)).
  { rewrite (flat_length _ W1). simpl. rewrite grow_length.
    pose proof (Nat.div_mod i CAP ltac:(unfold CAP; lia)).
    pose proof (Nat.mod_upper_bound i CAP ltac:(unfold CAP; lia)). nia. }
  destruct (store_flat s1 i v W1 Hcell) as (F2 & W2).
  assert (EQ : head (Set_ dflt s i v) = head (store s1 i v) /\ tail (Set_ dflt s i v) = tail (store s1 i v)).
  { unfold Set_, store, s1. destruct (i <? CAP) eqn:E; simpl.
    - split; auto. apply Nat.ltb_lt in E. rewrite Nat.div_small by auto. unfold growTailLength. simpl. reflexivity.
    - apply Nat.ltb_ge in E. assert (1 <= i / CAP) by (apply Nat.div_le_lower_bound; unfold CAP in *; lia).
      replace (i / CAP - 1 + 1) with (i / CAP) by lia. auto. }
  destruct EQ as (EH & ET).
  assert (FL : flat (Set_ dflt s i v) = upd (flat s1) i v).
  { unfold flat at 1. rewrite EH, ET. exact F2. }
  split; [|split; auto].
  - unfold to_list. fold (flat (Set_ dflt s i v)) (flat s). rewrite FL, SZ, F1.
    destruct (i <? size s) eqn:E.
    + apply Nat.ltb_lt in E. rewrite firstn_upd_lt by auto. f_equal.
      rewrite firstn_app. replace (size s - length (flat s)) with 0 by (pose proof (wf_size_le _ W); lia).
      simpl. now rewrite app_nil_r.
    + apply Nat.ltb_ge in E. assert (i = size s) by lia. subst i.
      assert (nth_error (upd (flat s ++ concat (skipn (length (tail s)) (growTailLength dflt (tail s) (size s / CAP)))) (size s) v) (size s) = Some v).
      { apply nth_error_upd_same. rewrite <- F1. auto. }
      rewrite (firstn_S_nth _ _ _ H0). f_equal.
      rewrite firstn_upd_ge by lia. rewrite firstn_app.
      replace (size s - length (flat s)) with 0 by (pose proof (wf_size_le _ W); lia).
      simpl. now rewrite app_nil_r.
  - destruct W2 as (A1 & A2 & A3). repeat split.
    + now rewrite EH.
    + now rewrite ET.
    + rewrite ET, SZ. simpl in *. unfold store in *.
      assert (length (tail (store s1 i v)) = length (growTailLength dflt (tail s) (i / CAP))).
      { unfold store, s1. destruct (i <? CAP); simpl; auto. unfold upd_chunk.
        destruct (nth_error _ _); auto. now rewrite upd_length. }
      unfold store in H0. rewrite H0, grow_length.
      destruct (i <? size s) eqn:E.
      * unfold CAP in *. lia.
      * apply Nat.ltb_ge in E.
        pose proof (Nat.div_mod i CAP ltac:(unfold CAP; lia)).
        pose proof (Nat.mod_upper_bound i CAP ltac:(unfold CAP; lia)). unfold CAP in *. lia.
Qed.

Theorem Push_spec s v : wf s -> to_list (Push dflt s v) = to_list s ++ [v] /\ wf (Push dflt s v) /\ size (Push dflt s v) = S (size s).
Proof.
  intros W. unfold Push. destruct (Set_spec s (size s) v W (le_n _)) as (A1 & A2 & A3).
  rewrite Nat.ltb_irrefl in *. auto.
Qed.

Theorem Pop_spec s : wf s -> to_list (Pop dflt s) = removelast (to_list s) /\ wf (Pop dflt s) /\ size (Pop dflt s) = size s - 1.
Proof.
  intros W. unfold Pop. destruct (size s =? 0) eqn:E.
  - apply Nat.eqb_eq in E.
    assert (H0 : to_list s = []) by (apply length_zero_iff_nil; rewrite (to_list_length _ W); auto).
    split; [|split]; auto; [now rewrite H0 | lia].
  - apply Nat.eqb_neq in E.
    destruct (Set_spec s (size s - 1) dflt W ltac:(lia)) as (A1 & A2 & A3).
    replace (size s - 1 <? size s) with true in * by (symmetry; apply Nat.ltb_lt; lia).
    set (s' := Set_ dflt s (size s - 1) dflt) in *.
    repeat split; simpl.
    + unfold to_list at 1; simpl. fold (flat s'). rewrite A3.
      replace (firstn (size s - 1) (flat s')) with (firstn (size s - 1) (to_list s')).
      2:{ unfold to_list. fold (flat s'). rewrite A3. rewrite firstn_firstn. f_equal. lia. }
      rewrite A1. rewrite firstn_upd_ge by lia.
      unfold to_list. fold (flat s). rewrite firstn_firstn. replace (Nat.min (size s - 1) (size s)) with (size s - 1) by lia.
      replace (size s) with (S (size s - 1)) at 2 by lia.
      rewrite removelast_firstn_S; auto. pose proof (wf_size_le _ W). lia.
    + apply A2.
    + apply A2.
    + destruct A2 as (_ & _ & ?). lia.
    + now rewrite A3.
Qed.

(* FromSlice *)
Lemma chunks_spec fuel con : length con <= fuel ->
  uniform CAP (chunks dflt fuel con) /\
  firstn (length con) (concat (chunks dflt fuel con)) = con /\
  CAP * length (chunks dflt fuel con) >= length con.
Proof.
  revert con. induction fuel; intros con Hf.
  - destruct con; [|simpl in Hf; lia]. simpl. repeat split; try constructor; auto.
  - destruct con as [|x0 c0].
    { simpl. repeat split; try constructor; auto. }
    remember (x0 :: c0) as con eqn:EC.
    assert (Hlen : 1 <= length con) by (subst; simpl; lia).
    assert (Hstep : chunks dflt (S fuel) con =
                    (firstn CAP con ++ repeat dflt (CAP - length (firstn CAP con))) :: chunks dflt fuel (skipn CAP con))
      by (subst; reflexivity).
    rewrite Hstep. clear Hstep EC.
    assert (Hs : length (skipn CAP con) <= fuel).
    { rewrite skipn_length. unfold CAP. lia. }
    destruct (IHfuel _ Hs) as (U & F & L).
    assert (Hc : length (firstn CAP con ++ repeat dflt (CAP - length (firstn CAP con))) = CAP).
    { rewrite app_length, repeat_length, firstn_length. lia. }
    repeat split.
    + constructor; auto.
    + cbn [concat]. destruct (Nat.le_gt_cases (length con) CAP).
      * rewrite firstn_all2 with (l := con) at 1 by auto.
        rewrite <- app_assoc. rewrite firstn_app, Nat.sub_diag. cbn [firstn]. rewrite app_nil_r.
        apply firstn_all.
      * assert (HF : length (firstn CAP con) = CAP) by (rewrite firstn_length; lia).
        rewrite HF, Nat.sub_diag. cbn [repeat]. rewrite app_nil_r.
        rewrite firstn_app, HF.
        transitivity (firstn CAP con ++ skipn CAP con); [|apply firstn_skipn]. f_equal.
        -- rewrite firstn_firstn, Nat.min_r by (unfold CAP in *; lia). reflexivity.
        -- rewrite skipn_length in F. exact F.
    + cbn [length]. rewrite skipn_length in L. unfold CAP in *. lia.
Qed.

Theorem FromSlice_spec con : wf (FromSlice dflt con) /\ to_list (FromSlice dflt con) = con.
Proof.
  unfold FromSlice.
  destruct (chunks_spec (length con) (skipn CAP con) ltac:(rewrite skipn_length; lia)) as (U & F & L).
  rewrite skipn_length in F, L.
  assert (Hh : length (firstn CAP con ++ repeat dflt (CAP - length (firstn CAP con))) = CAP).
  { rewrite app_length, repeat_length, firstn_length. lia. }
  split.
  - repeat split; cbn [head tail size]; auto. unfold CAP in *. lia.
  - unfold to_list; cbn [head tail size].
    destruct (Nat.le_gt_cases (length con) CAP).
    + rewrite firstn_all2 with (l := con) at 1 by auto.
      rewrite <- app_assoc. rewrite firstn_app, Nat.sub_diag. cbn [firstn]. rewrite app_nil_r. apply firstn_all.
    + assert (HF : length (firstn CAP con) = CAP) by (rewrite firstn_length; lia).
      rewrite HF, Nat.sub_diag. cbn [repeat]. rewrite app_nil_r.
      rewrite firstn_app, HF. transitivity (firstn CAP con ++ skipn CAP con); [|apply firstn_skipn]. f_equal.
      * rewrite firstn_firstn, Nat.min_r by (unfold CAP in *; lia). reflexivity.
      * exact F.
Qed.

Lemma empty_wf : wf (empty dflt) /\ to_list (empty dflt) = [].
Proof.
  split.
  - split; [|split]; cbn [empty head tail size].
    + unfold zero_chunk. apply repeat_length.
    + constructor.
    + lia.
  - reflexivity.
Qed.

End Storage.

(* ---------- every sequence of storage operations ---------- *)
Section Sequences.
Context {A : Type} (dflt : A).

Inductive lop := LPush (v : A) | LPop | LSet (i : nat) (v : A) | LAssign (i : nat) (v : A).

(* what the Go callers do: Set only at a position <= size *)
Definition lstep (s : linked A) (o : lop) : linked A :=
  match o with
  | LPush v => Push dflt s v
  | LPop => Pop dflt s
  | LSet i v => if i <=? size s then Set_ dflt s i v else s
  | LAssign i v => assign s i v
  end.

Definition lspec (l : list A) (o : lop) : list A :=
  match o with
  | LPush v => l ++ [v]
  | LPop => removelast l
  | LSet i v => if i <? length l then upd l i v else if i =? length l then l ++ [v] else l
  | LAssign i v => upd l i v
  end.

Lemma lstep_spec s o : wf s -> to_list (lstep s o) = lspec (to_list s) o /\ wf (lstep s o).
Proof.
  intros W. destruct o; simpl.
  - destruct (Push_spec dflt s v W) as (H1 & H2 & _). auto.
  - destruct (Pop_spec dflt s W) as (H1 & H2 & _). auto.
  - rewrite (to_list_length _ W). destruct (i <=? size s) eqn:E.
    + apply Nat.leb_le in E. destruct (Set_spec dflt s i v W E) as (H1 & H2 & _). split; auto.
      rewrite H1. destruct (i <? size s) eqn:E2; auto.
      apply Nat.ltb_ge in E2. replace (i =? size s) with true by (symmetry; apply Nat.eqb_eq; lia). reflexivity.
    + apply Nat.leb_gt in E. split; auto.
      replace (i <? size s) with false by (symmetry; apply Nat.ltb_ge; lia).
      replace (i =? size s) with false by (symmetry; apply Nat.eqb_neq; lia). reflexivity.
  - destruct (assign_spec s i v W) as (H1 & H2 & _). auto.
Qed.

(* linked_refines_list: for every size and every operation sequence the chunked storage is the plain list,
   observed through At at every position *)
Theorem linked_refines_list (ops : list lop) (s : linked A) :
  wf s ->
  to_list (fold_left lstep ops s) = fold_left lspec ops (to_list s) /\
  wf (fold_left lstep ops s) /\
  forall i, At (fold_left lstep ops s) i = nth_error (fold_left lspec ops (to_list s)) i.
Proof.
  revert s. induction ops as [|o ops IH]; intros s W; simpl.
  - split; auto. split; auto. intros. now apply At_spec.
  - destruct (lstep_spec s o W) as (H1 & H2). rewrite <- H1. now apply IH.
Qed.

Theorem linked_from_slice_refines (con : list A) (ops : list lop) :
  to_list (fold_left lstep ops (FromSlice dflt con)) = fold_left lspec ops con.
Proof.
  destruct (FromSlice_spec dflt con) as (W & E).
  destruct (linked_refines_list ops _ W) as (H & _). now rewrite H, E.
Qed.
End Sequences.
