(* Ast/Node.v - executable model of ast.Node (/repo/ast/node.go, parser.go lazy parts, iterator.go,
   encode.go, buffer.go linkedPairs).  Names follow the Go source.

   The JSON *text* is abstracted: an unparsed piece of input is the tree it denotes (Tree.tree), so a raw
   node is  NRaw lock t,  a partially parsed array is  NArrayLazy l done rest  where rest are the elements
   the parser has not reached yet.  Everything else is transcribed: the representation switch
   raw -> lazy -> loaded (checkRaw/parseRaw, skipNextNode/skipNextPair, skipAllIndex, skipAllKey, loadAllIndex, loadAllKey), chunked child
   storage with soft-deleted slots (V_NONE cells) and the logical length l, logical indexing (nodeAt/pairAt),
   the key index (BuildIndex - dropped when a hash repeats - / Set / Unset / Swap / Get with its linear fallback),
   and the operations of the public API.

   hash : the string hash (caching.StrHash) is a parameter - collisions are allowed. *)
From Coq Require Import List Arith Bool NArith ZArith Lia.
From SV.Gen Require Import AstConsts.
From SV.Ast Require Import Linked Tree.
Import ListNotations.

(* _Threshold_Index, regenerated from /repo/ast/node.go on every run (Gen/AstConsts.v) *)
Definition THRESHOLD : nat := Eval compute in Threshold_Index.

(* type Pair struct { hash uint64; Key string; Value Node } *)
Definition pair (X : Type) : Type := (N * bytes * X)%type.

(* type linkedPairs struct { index map[uint64]int; head; tail; size } *)
Record lpairs (X : Type) := mkPairs { index : option (list (N * nat)); pv : linked (pair X) }.
Arguments mkPairs {X}. Arguments index {X}. Arguments pv {X}.

Inductive node :=
| NNone                                              (* Node{} : t = V_NONE, an unset (soft-deleted) cell *)
| NError (code : N)                                  (* V_ERROR, l = code *)
| NRaw (lock : bool) (t : tree)                      (* t|_V_RAW : unparsed text denoting t; lock = (m != nil) *)
| NNull | NTrue | NFalse
| NNumber (s : bytes)
| NString (s : bytes)
| NArrayLazy (l : nat) (v : linked node) (rest : list tree)            (* _V_ARRAY_LAZY + parseArrayStack *)
| NObjectLazy (l : nat) (v : lpairs node) (rest : list (bytes * tree)) (* _V_OBJECT_LAZY + parseObjectStack *)
| NArray (l : nat) (v : option (linked node))        (* V_ARRAY, p may be nil *)
| NObject (l : nat) (v : option (lpairs node)).      (* V_OBJECT, p may be nil *)

Definition exists_ (n : node) : bool :=               (* Node.Exists *)
  match n with NNone | NError _ => false | _ => true end.

Definition pzero : pair node := (0%N, [], NNone).     (* Pair{} *)
Definition pexists (p : pair node) : bool := exists_ (snd p).

Definition code_err (c : N) : err :=
  if N.eqb c 33 then ENotFound else if N.eqb c 34 then EUnsupp else EOther.

Definition err_ok (e : err) : bool := match e with EOk => true | _ => false end.

(* ---- Go map[uint64]int ---- *)
Fixpoint idx_get (m : list (N * nat)) (h : N) : option nat :=
  match m with
  | [] => None
  | (h', i) :: tl => if N.eqb h' h then Some i else idx_get tl h
  end.
Definition idx_del (m : list (N * nat)) (h : N) : list (N * nat) :=
  filter (fun e => negb (N.eqb (fst e) h)) m.
Definition idx_set (m : list (N * nat)) (h : N) (i : nat) : list (N * nat) := (h, i) :: idx_del m h.

Definition emptyN : linked node := empty NNone.                       (* new(linkedNodes) *)
Definition emptyP : lpairs node := mkPairs None (empty pzero).        (* new(linkedPairs) *)

Definition NPush := Push NNone.
Definition pushall (v : linked node) (l : list node) : linked node := fold_left NPush l v.

(* ---- linkedPairs ---- *)
(* BuildIndex's loop; None = the index is dropped (self.index = nil) because a hash repeats (fix ffe8bf0) *)
Fixpoint build_index (s : linked (pair node)) (i n : nat) (m : list (N * nat)) : option (list (N * nat)) :=
  match n with
  | O => Some m
  | S n' => match At s i with
            | Some (h, _, _) =>
              match idx_get m h with
              | Some _ => None
              | None => build_index s (S i) n' (idx_set m h i)
              end
            | None => Some m
            end
  end.

Definition P_BuildIndex (s : lpairs node) : lpairs node :=
  let m0 := match index s with Some m => m | None => [] end in
  mkPairs (build_index (pv s) 0 (size (pv s)) m0) (pv s).

(* Set: index[v.hash] = i when the index exists, then set *)
Definition P_Set (s : lpairs node) (i : nat) (v : pair node) : lpairs node :=
  mkPairs (match index s with Some m => Some (idx_set m (fst (fst v)) i) | None => None end)
          (Set_ pzero (pv s) i v).

Definition P_Push (s : lpairs node) (v : pair node) : lpairs node := P_Set s (size (pv s)) v.
Definition ppushall (s : lpairs node) (l : list (pair node)) : lpairs node := fold_left P_Push l s.

(* Unset(i): delete(index, At(i).hash) when the index exists, then set(i, Pair{}) *)
Definition P_Unset (s : lpairs node) (i : nat) : lpairs node :=
  mkPairs (match index s with
           | Some m => match At (pv s) i with Some (h, _, _) => Some (idx_del m h) | None => Some m end
           | None => None
           end)
          (Set_ pzero (pv s) i pzero).

Definition P_Pop (s : lpairs node) : lpairs node :=
  if size (pv s) =? 0 then s
  else let s' := P_Unset s (size (pv s) - 1) in
       mkPairs (index s') (mkLinked (head (pv s')) (tail (pv s')) (size (pv s') - 1)).

(* Swap(i, j): index[a.hash] = j; index[b.hash] = i; *a, *b = *b, *a *)
Definition P_Swap (s : lpairs node) (i j : nat) : lpairs node :=
  match At (pv s) i, At (pv s) j with
  | Some a, Some b =>
    mkPairs (match index s with
             | Some m => Some (idx_set (idx_set m (fst (fst a)) j) (fst (fst b)) i)
             | None => None
             end)
            (swap_cells (pv s) i j)
  | _, _ => s
  end.

Definition P_Less (s : lpairs node) (i j : nat) : bool :=
  match At (pv s) i, At (pv s) j with
  | Some a, Some b => key_lt (snd (fst a)) (snd (fst b))
  | _, _ => false
  end.

(* sort.Stable(self): the standard library's stable sort, seen through Less/Swap.  For n <= 20 it is exactly this
   insertion sort ( for i := 1; i < n; i++ { for j := i; j > 0 && Less(j, j-1); j-- { Swap(j, j-1) } } );
   for larger n the library merges blocks with a different swap sequence but the same final order. *)
Fixpoint sort_inner (s : lpairs node) (j : nat) : lpairs node :=
  match j with
  | O => s
  | S j' => if P_Less s j j' then sort_inner (P_Swap s j j') j' else s
  end.
Fixpoint sort_outer (s : lpairs node) (i n : nat) : lpairs node :=
  match n with
  | O => s
  | S n' => sort_outer (sort_inner s i) (S i) n'
  end.
Definition P_Sort (s : lpairs node) : lpairs node := sort_outer s 1 (size (pv s) - 1).

Inductive getres := GFound (i : nat) | GMissing | GPanic.

Definition is_nil (k : bytes) : bool := match k with [] => true | _ => false end.
Definition is_none (n : node) : bool := match n with NNone => true | _ => false end.

Fixpoint linear_search (s : linked (pair node)) (key : bytes) (i fuel : nat) : getres :=
  match fuel with
  | O => GMissing
  | S f =>
    if size s <=? i then GMissing
    else match At s i with
         | Some (h, k, c) =>
           (* n.Key == key && !(key == "" && n.hash == 0 && n.Value.t == _V_NONE)   (fix 6c9aabd) *)
           if bytes_eqb k key && negb (is_nil key && N.eqb h 0 && is_none c) then GFound i
           else linear_search s key (S i) f
         | None => GPanic
         end
  end.

Section WithHash.
Variable hash : bytes -> N.                 (* caching.StrHash *)

Definition NewPair (k : bytes) (v : node) : pair node := (hash k, k, v).

(* func (self *linkedPairs) Get(key string) : pointer to the pair and its cell number *)
Definition P_Get (s : lpairs node) (key : bytes) : getres :=
  match index s with
  | Some m =>
    match idx_get m (hash key) with
    | Some i =>
      match At (pv s) i with
      | Some (_, k, _) => if bytes_eqb k key then GFound i
                          else linear_search (pv s) key 0 (size (pv s))      (* hash conflicts *)
      | None => linear_search (pv s) key 0 (size (pv s))                   (* n == nil: falls to the linear search (fix ecd1239) *)
      end
    | None => GMissing
    end
  | None => linear_search (pv s) key 0 (size (pv s))
  end.

(* ---- constructors (node.go factory methods) ---- *)
Definition newArray (v : linked node) : node := NArray (size v) (Some v).
Definition newObject (v : lpairs node) : node :=
  NObject (size (pv v)) (Some (if THRESHOLD <? size (pv v) then P_BuildIndex v else v)).
Definition NewArray (l : list node) : node := newArray (FromSlice NNone l).
Definition NewObject (l : list (pair node)) : node := newObject (mkPairs None (FromSlice pzero l)).

Definition parse_scalar (t : tree) : node :=
  match t with
  | TNull => NNull | TTrue => NTrue | TFalse => NFalse
  | TNum s => NNumber s | TStr s => NString s
  | _ => NNone
  end.

(* Parser.Parse with loadOnce (noLazy off): containers stay raw, with a lock *)
Definition child_once (t : tree) : node :=
  match t with
  | TArr [] => NArray 0 None
  | TObj [] => NObject 0 None
  | TArr _ | TObj _ => NRaw true t
  | _ => parse_scalar t
  end.

(* Parser.Parse with all flags off: first layer only *)
Definition parse_lazy (t : tree) : node :=
  match t with
  | TArr [] => NArray 0 None
  | TArr l => NArrayLazy 0 emptyN l
  | TObj [] => NObject 0 None
  | TObj l => NObjectLazy 0 emptyP l
  | _ => parse_scalar t
  end.

(* Parser.Parse with noLazy and loadOnce (parseRaw under a lock): one level *)
Definition parse_once (t : tree) : node :=
  match t with
  | TArr [] => NArray 0 None
  | TArr l => newArray (pushall emptyN (map child_once l))
  | TObj [] => NObject 0 None
  | TObj l => newObject (ppushall emptyP (map (fun kv => NewPair (fst kv) (child_once (snd kv))) l))
  | _ => parse_scalar t
  end.

(* Parser.Parse with noLazy: everything *)
Fixpoint parse_full (t : tree) : node :=
  match t with
  | TArr [] => NArray 0 None
  | TArr l => newArray (pushall emptyN (map parse_full l))
  | TObj [] => NObject 0 None
  | TObj l => newObject (ppushall emptyP (map (fun kv => NewPair (fst kv) (parse_full (snd kv))) l))
  | _ => parse_scalar t
  end.

(* NewNull / NewBool / NewNumber / NewString / NewArray / NewObject applied recursively *)
Fixpoint build_full (t : tree) : node :=
  match t with
  | TArr l => NewArray (map build_full l)
  | TObj l => NewObject (map (fun kv => NewPair (fst kv) (build_full (snd kv))) l)
  | _ => parse_scalar t
  end.

Definition mk_value (v : value) : node :=
  match fst v with
  | RRaw => NRaw false (snd v)             (* ast.NewRaw *)
  | RRawLocked => NRaw true (snd v)        (* ast.NewRawConcurrentRead *)
  | RLazy => parse_lazy (snd v)            (* ast.NewParser(s).Parse() *)
  | RFull => build_full (snd v)
  end.

(* ---- representation switch ---- *)
(* checkRaw (self != nil) *)
Definition checkRaw (n : node) : err * node :=
  match n with
  | NError c => (code_err c, n)
  | NRaw lock t => (EOk, if lock then parse_once t else parse_lazy t)
  | _ => (EOk, n)
  end.

Definition len (n : node) : nat :=
  match n with
  | NArrayLazy l _ _ | NObjectLazy l _ _ | NArray l _ | NObject l _ => l
  | NString s => length s
  | _ => 0
  end.

Definition is_array (n : node) : bool :=
  match n with NArray _ _ | NArrayLazy _ _ _ => true | _ => false end.
Definition is_object (n : node) : bool :=
  match n with NObject _ _ | NObjectLazy _ _ _ => true | _ => false end.

Inductive cmode := CSkip | COnce | CFull.
Definition child_of (m : cmode) (t : tree) : node :=
  match m with CSkip => NRaw false t | COnce => child_once t | CFull => parse_full t end.

(* Parser.decodeArray(&stack.v) continuing a lazy array *)
Definition decodeArray (m : cmode) (v : linked node) (rest : list tree) : node :=
  match rest with
  | [] => NArray 0 None                                    (* parser at ']' (not reached from a lazy node) *)
  | _ => newArray (pushall v (map (child_of m) rest))
  end.
Definition decodeObject (m : cmode) (v : lpairs node) (rest : list (bytes * tree)) : node :=
  match rest with
  | [] => NObject 0 None
  | _ => newObject (ppushall v (map (fun kv => NewPair (fst kv) (child_of m (snd kv))) rest))
  end.

Definition skipAllIndex (n : node) : node :=
  match n with NArrayLazy _ v rest => decodeArray CSkip v rest | _ => n end.
Definition skipAllKey (n : node) : node :=
  match n with NObjectLazy _ v rest => decodeObject CSkip v rest | _ => n end.
Definition loadAllIndex (once : bool) (n : node) : node :=
  match n with NArrayLazy _ v rest => decodeArray (if once then COnce else CFull) v rest | _ => n end.
Definition loadAllKey (once : bool) (n : node) : node :=
  match n with NObjectLazy _ v rest => decodeObject (if once then COnce else CFull) v rest | _ => n end.

Definition setArray (v : linked node) : node := NArray (size v) (Some v).
Definition setObject (v : lpairs node) : node := newObject v.

(* ---- logical indexing ---- *)
Fixpoint scan_live {A} (ex : A -> bool) (s : linked A) (i j fuel : nat) : option nat :=
  match fuel with
  | O => None
  | S f =>
    if size s <=? j then None
    else match At s j with
         | Some v => if ex v then match i with O => Some j | S i' => scan_live ex s i' (S j) f end
                     else scan_live ex s i (S j) f
         | None => scan_live ex s i (S j) f
         end
  end.

(* nodeAt(i): the physical cell holding the i-th child *)
Definition nodeAt (n : node) (i : nat) : option nat :=
  match n with
  | NArrayLazy _ v _ => if i <? size v then Some i else None
  | NArray l (Some v) =>
    if size v =? l then (if i <? size v then Some i else None)
    else scan_live exists_ v i 0 (size v)
  | _ => None
  end.

Definition pairAt (n : node) (i : nat) : option nat :=
  match n with
  | NObjectLazy _ v _ => if i <? size (pv v) then Some i else None
  | NObject l (Some v) =>
    if size (pv v) =? l then (if i <? size (pv v) then Some i else None)
    else scan_live pexists (pv v) i 0 (size (pv v))
  | _ => None
  end.

(* ---- lazy loading, one child at a time ---- *)
(* skipIndex's loop  for last := skipNextNode(); last != nil; ... { if self.len() > index {return last} } *)
Fixpoint skip_index_loop (index l : nat) (v : linked node) (rest : list tree) : option nat * node :=
  match rest with
  | [] => (None, setArray v)
  | t :: rest' =>
    let v' := NPush v (NRaw false t) in
    match rest' with
    | [] => (if index <? size v' then Some (size v' - 1) else None, setArray v')
    | _ => if index <? S l then (Some (size v' - 1), NArrayLazy (S l) v' rest')
           else skip_index_loop index (S l) v' rest'
    end
  end.

Definition skipIndex (n : node) (index : nat) : option nat * node :=
  if index <? len n then (nodeAt n index, n)
  else match n with
       | NArrayLazy l v rest => skip_index_loop index l v rest
       | _ => (None, n)
       end.

Fixpoint skip_indexpair_loop (index l : nat) (v : lpairs node) (rest : list (bytes * tree)) : option nat * node :=
  match rest with
  | [] => (None, setObject v)
  | (k, t) :: rest' =>
    let v' := P_Push v (NewPair k (NRaw false t)) in
    match rest' with
    | [] => (if index <? size (pv v') then Some (size (pv v') - 1) else None, setObject v')
    | _ => if index <? S l then (Some (size (pv v') - 1), NObjectLazy (S l) v' rest')
           else skip_indexpair_loop index (S l) v' rest'
    end
  end.

Definition skipIndexPair (n : node) (index : nat) : option nat * node :=
  if index <? len n then (pairAt n index, n)
  else match n with
       | NObjectLazy l v rest => skip_indexpair_loop index l v rest
       | _ => (None, n)
       end.

Inductive keyres := KFound (i : nat) | KNil | KPanic.

(* skipKey's loop  for last, i := skipNextPair(), nb; last != nil; last, i = skipNextPair(), i+1 *)
Fixpoint skip_key_loop (key : bytes) (l : nat) (v : lpairs node) (rest : list (bytes * tree)) (i : nat)
  : keyres * node :=
  match rest with
  | [] => (KNil, setObject v)
  | (k, t) :: rest' =>
    let v' := P_Push v (NewPair k (NRaw false t)) in
    match rest' with
    | [] => (if bytes_eqb k key then KFound i else KNil, setObject v')
    | _ => if bytes_eqb k key then (KFound i, NObjectLazy (S l) v' rest')
           else skip_key_loop key (S l) v' rest' (S i)
    end
  end.

Definition keyres_of (g : getres) : keyres :=
  match g with GFound i => KFound i | GMissing => KNil | GPanic => KPanic end.

Definition skipKey (n : node) (key : bytes) : keyres * node :=
  match n with
  | NObjectLazy l v rest =>
    match (if 0 <? l then P_Get v key else GMissing) with
    | GFound i => (KFound i, n)
    | GPanic => (KPanic, n)
    | GMissing => skip_key_loop key l v rest l
    end
  | NObject l (Some v) => if 0 <? l then (keyres_of (P_Get v key), n) else (KNil, n)
  | _ => (KNil, n)
  end.

(* ---- children as cells ---- *)
Definition child_at (n : node) (i : nat) : option node :=
  match n with
  | NArrayLazy _ v _ | NArray _ (Some v) => At v i
  | NObjectLazy _ v _ | NObject _ (Some v) =>
    match At (pv v) i with Some (_, _, c) => Some c | None => None end
  | _ => None
  end.

Definition passign (v : lpairs node) (i : nat) (c : node) : lpairs node :=
  match At (pv v) i with
  | Some (h, k, _) => mkPairs (index v) (assign (pv v) i (h, k, c))
  | None => v
  end.

(* *p = c  for the pointer to cell i *)
Definition put_child (n : node) (i : nat) (c : node) : node :=
  match n with
  | NArrayLazy l v r => NArrayLazy l (assign v i c) r
  | NArray l (Some v) => NArray l (Some (assign v i c))
  | NObjectLazy l v r => NObjectLazy l (passign v i c) r
  | NObject l (Some v) => NObject l (Some (passign v i c))
  | _ => n
  end.

Inductive loc := LSlot (i : nat) | LErr (e : err).      (* LErr ENotFound also stands for a nil *Node *)

(* Node.Get(key) / Node.Index(idx) as "which cell" *)
Definition get_child (n : node) (s : sel) : loc * node :=
  let '(e, n1) := checkRaw n in
  if negb (err_ok e) then (LErr e, n1)
  else match s with
       | SKey k =>
         if is_object n1 then
           match skipKey n1 k with
           | (KFound i, n2) => (LSlot i, n2)
           | (KNil, n2) => (LErr ENotFound, n2)
           | (KPanic, n2) => (LErr EPanic, n2)
           end
         else (LErr EUnsupp, n1)
       | SIdx i =>
         if is_array n1 then
           match skipIndex n1 i with
           | (Some j, n2) => (LSlot j, n2)
           | (None, n2) => (LErr ENotFound, n2)
           end
         else if is_object n1 then
           match skipIndexPair n1 i with
           | (Some j, n2) => (LSlot j, n2)
           | (None, n2) => (LErr ENotFound, n2)
           end
         else (LErr EUnsupp, n1)
       end.

(* ---- abstraction: the tree a node stands for ---- *)
Fixpoint abs (n : node) : tree :=
  match n with
  | NNone | NError _ | NNull => TNull
  | NRaw _ t => t
  | NTrue => TTrue | NFalse => TFalse
  | NNumber s => TNum s | NString s => TStr s
  | NArrayLazy _ v rest =>
    TArr (map snd (filter fst (to_list (lmap (fun c => (exists_ c, abs c)) v))) ++ rest)
  | NObjectLazy _ v rest =>
    TObj (map snd (filter fst (to_list (lmap (fun p => (exists_ (snd p), (snd (fst p), abs (snd p)))) (pv v)))) ++ rest)
  | NArray _ None => TArr []
  | NArray _ (Some v) => TArr (map snd (filter fst (to_list (lmap (fun c => (exists_ c, abs c)) v))))
  | NObject _ None => TObj []
  | NObject _ (Some v) =>
    TObj (map snd (filter fst (to_list (lmap (fun p => (exists_ (snd p), (snd (fst p), abs (snd p)))) (pv v)))))
  end.

(* ---- operations ---- *)
Definition op_len (n : node) : obs * node :=
  let '(e, n1) := checkRaw n in
  if negb (err_ok e) then (OIntErr 0 e, n1)
  else match n1 with
       | NArray l _ | NObject l _ | NArrayLazy l _ _ | NObjectLazy l _ _ => (OIntErr l EOk, n1)
       | NString s => (OIntErr (length s) EOk, n1)
       | NNone | NNull => (OIntErr 0 EOk, n1)
       | _ => (OIntErr 0 EUnsupp, n1)
       end.

Definition set_push (n : node) (key : bytes) (val : node) : obs * node :=
  let n3 := if len n =? 0 then newObject emptyP else n in
  match n3 with
  | NObject l (Some v) => (OBoolErr false EOk, NObject (S l) (Some (P_Push v (NewPair key val))))
  | _ => (OBoolErr false EPanic, n3)        (* a lazy stack reinterpreted as linkedPairs: not reachable *)
  end.

Definition op_set (key : bytes) (val : node) (n : node) : obs * node :=
  let '(e, n1) := checkRaw n in
  if negb (err_ok e) then (OBoolErr false e, n1)
  else match n1 with
       | NNone | NNull => (OBoolErr false EOk, NewObject [NewPair key val])
       | NObject _ _ | NObjectLazy _ _ _ =>
         match skipKey n1 key with
         | (KPanic, n2) => (OBoolErr false EPanic, n2)
         | (KNil, n2) => set_push n2 key val
         | (KFound i, n2) =>
           match child_at n2 i with
           | Some c => if exists_ c then (OBoolErr true EOk, put_child n2 i val) else set_push n2 key val
           | None => (OBoolErr false EPanic, n2)
           end
         end
       | _ => (OBoolErr false EUnsupp, n1)
       end.

(* removePairAt(i) *)
Definition removePairAt (n : node) (i : nat) : node :=
  match n with
  | NObject l (Some v) =>
    match At (pv v) i with
    | Some (h, _, _) =>
      NObject (l - 1) (Some (mkPairs (match index v with Some m => Some (idx_del m h) | None => None end)
                                     (assign (pv v) i pzero)))
    | None => n
    end
  | _ => n
  end.

Definition op_unset (key : bytes) (n : node) : obs * node :=
  let '(e, n1) := checkRaw n in
  if negb (err_ok e) then (OBoolErr false e, n1)
  else if negb (is_object n1) then (OBoolErr false EUnsupp, n1)
  else let n2 := skipAllKey n1 in
       match skipKey n2 key with
       | (KPanic, n3) => (OBoolErr false EPanic, n3)
       | (KNil, n3) => (OBoolErr false EOk, n3)
       | (KFound i, n3) =>
         match child_at n3 i with
         | Some c => if exists_ c then (OBoolErr true EOk, removePairAt n3 i) else (OBoolErr false EOk, n3)
         | None => (OBoolErr false EOk, n3)
         end
       end.

(* Node.Index as a cell *)
Definition index_child (n : node) (i : nat) : loc * node :=
  if is_array n then
    match skipIndex n i with (Some j, n2) => (LSlot j, n2) | (None, n2) => (LErr ENotFound, n2) end
  else if is_object n then
    match skipIndexPair n i with (Some j, n2) => (LSlot j, n2) | (None, n2) => (LErr ENotFound, n2) end
  else (LErr EUnsupp, n).

Definition op_setidx (idx : nat) (val : node) (n : node) : obs * node :=
  let '(e, n1) := checkRaw n in
  if negb (err_ok e) then (OBoolErr false e, n1)
  else match n1 with
       | NNone | NNull =>
         if idx =? 0 then (OBoolErr false EOk, NewArray [val]) else (OBoolErr false ENotFound, n1)
       | _ =>
         match index_child n1 idx with
         | (LErr _, n2) => (OBoolErr false ENotFound, n2)
         | (LSlot i, n2) =>
           match child_at n2 i with
           | Some c => if exists_ c then (OBoolErr true EOk, put_child n2 i val)
                       else (OBoolErr false ENotFound, n2)
           | None => (OBoolErr false ENotFound, n2)
           end
         end
       end.

(* unsafeArray / unsafeMap *)
Definition unsafeArray (n : node) : node :=
  match skipAllIndex n with
  | NArray _ None => newArray emptyN
  | n' => n'
  end.
Definition unsafeMap (n : node) : node :=
  match skipAllKey n with
  | NObject _ None => newObject emptyP
  | n' => n'
  end.

Fixpoint pop_nodes (fuel : nat) (s : linked node) (l : nat) : linked node * nat :=
  match fuel with
  | O => (s, l)
  | S f =>
    if size s =? 0 then (s, l)
    else match At s (size s - 1) with
         | Some c => if exists_ c then (Pop NNone s, l - 1) else pop_nodes f (Pop NNone s) l
         | None => pop_nodes f (Pop NNone s) l
         end
  end.

Fixpoint pop_pairs (fuel : nat) (s : lpairs node) (l : nat) : lpairs node * nat :=
  match fuel with
  | O => (s, l)
  | S f =>
    if size (pv s) =? 0 then (s, l)
    else match At (pv s) (size (pv s) - 1) with
         | Some p => if pexists p then (P_Pop s, l - 1) else pop_pairs f (P_Pop s) l
         | None => pop_pairs f (P_Pop s) l
         end
  end.

(* Node.Pop after checkRaw *)
Definition pop_node (n : node) : err * node :=
  if is_array n then
    match unsafeArray n with
    | NArray l (Some s) => let '(s', l') := pop_nodes (size s) s l in (EOk, NArray l' (Some s'))
    | n' => (EOk, n')
    end
  else if is_object n then
    match unsafeMap n with
    | NObject l (Some s) => let '(s', l') := pop_pairs (size (pv s)) s l in (EOk, NObject l' (Some s'))
    | n' => (EOk, n')
    end
  else (EUnsupp, n).

Definition op_pop (n : node) : obs * node :=
  let '(e, n1) := checkRaw n in
  if negb (err_ok e) then (OErr e, n1)
  else let '(e2, n2) := pop_node n1 in (OErr e2, n2).

(* removeNode(i) / removePair(i) : logical index *)
Definition removeNode (n : node) (i : nat) : node :=
  match nodeAt n i, n with
  | Some j, NArray l (Some v) => NArray (l - 1) (Some (assign v j NNone))
  | _, _ => n
  end.
Definition removePair (n : node) (i : nat) : node :=
  match pairAt n i, n with
  | Some j, NObject l (Some v) =>
    match At (pv v) j with
    | Some (h, _, _) =>
      NObject (l - 1) (Some (mkPairs (match index v with Some m => Some (idx_del m h) | None => None end)
                                     (assign (pv v) j pzero)))
    | None => n
    end
  | _, _ => n
  end.

Definition op_unsetidx (idx : nat) (n : node) : obs * node :=
  let '(e, n1) := checkRaw n in
  if negb (err_ok e) then (OBoolErr false e, n1)
  else if is_array n1 then
    let n2 := skipAllIndex n1 in
    match nodeAt n2 idx with
    | None => (OBoolErr false ENotFound, n2)
    | Some j =>
      match child_at n2 j with
      | Some c =>
        if negb (exists_ c) then (OBoolErr false ENotFound, n2)
        else if S idx =? len n2 then let '(e2, n3) := pop_node n2 in (OBoolErr true e2, n3)
        else (OBoolErr true EOk, removeNode n2 idx)
      | None => (OBoolErr false ENotFound, n2)
      end
    end
  else if is_object n1 then
    let n2 := skipAllKey n1 in
    match pairAt n2 idx with
    | None => (OBoolErr false ENotFound, n2)
    | Some j =>
      match child_at n2 j with
      | Some c =>
        if negb (exists_ c) then (OBoolErr false ENotFound, n2)
        else if S idx =? len n2 then let '(e2, n3) := pop_node n2 in (OBoolErr true e2, n3)
        else (OBoolErr true EOk, removePair n2 idx)
      | None => (OBoolErr false ENotFound, n2)
      end
    end
  else (OBoolErr false EUnsupp, n1).

Definition op_add (val : node) (n : node) : obs * node :=
  let '(e, n1) := checkRaw n in
  if negb (err_ok e) then (OErr e, n1)
  else match n1 with
       | NNone | NNull => (OErr EOk, NewArray [val])
       | _ =>
         if negb (is_array n1) then (OErr EUnsupp, n1)
         else match unsafeArray n1 with
              | NArray l (Some s) => (OErr EOk, NArray (S l) (Some (NPush s val)))
              | n2 => (OErr EPanic, n2)
              end
       end.

(* Move: translate logical positions to cells when some cell is unset; also returns the final counters di, si *)
Fixpoint move_translate (s : linked node) (i fuel : nat) (di si : Z) (dst src : nat) : nat * nat * Z * Z :=
  match fuel with
  | O => (dst, src, di, si)
  | S f =>
    if size s <=? i then (dst, src, di, si)
    else
      let ex := match At s i with Some c => exists_ c | None => false end in
      let di := if ex then (di - 1)%Z else di in
      let si := if ex then (si - 1)%Z else si in
      let '(dst, di) := if (di =? -1)%Z then (i, (di - 1)%Z) else (dst, di) in
      let '(src, si) := if (si =? -1)%Z then (i, (si - 1)%Z) else (src, si) in
      if ((di =? -2) && (si =? -2))%Z then (dst, src, di, si)
      else move_translate s (S i) f di si dst src
  end.

Definition op_move (dst src : nat) (n : node) : obs * node :=
  let '(e, n1) := checkRaw n in
  if negb (err_ok e) then (OErr e, n1)
  else if negb (is_array n1) then (OErr EUnsupp, n1)
  else match unsafeArray n1 with
       | NArray l (Some s) =>
         if size s =? l then (OErr EOk, NArray l (Some (MoveOne s src dst)))
         else
           let '(dst', src', di, si) := move_translate s 0 (size s) (Z.of_nat dst) (Z.of_nat src) dst src in
           (* a position beyond the live children: nothing to move (fix d346b1d) *)
           if ((0 <=? di) || (0 <=? si))%Z then (OErr EOk, NArray l (Some s))
           else (OErr EOk, NArray l (Some (MoveOne s src' dst')))
       | n2 => (OErr EPanic, n2)
       end.

(* apply f to every live child (what a complete ForEach with a mutating callback does) *)
Definition map_children (f : node -> node) (n : node) : node :=
  match n with
  | NArray l (Some v) => NArray l (Some (lmap (fun c => if exists_ c then f c else c) v))
  | NObject l (Some v) =>
    NObject l (Some (mkPairs (index v) (lmap (fun p => if pexists p then (fst p, f (snd p)) else p) (pv v))))
  | _ => n
  end.

Definition itype_is_object (n : node) : bool :=
  match n with NObject _ _ | NObjectLazy _ _ _ | NRaw _ (TObj _) => true | _ => false end.
Definition itype_is_array (n : node) : bool :=
  match n with NArray _ _ | NArrayLazy _ _ _ | NRaw _ (TArr _) => true | _ => false end.

Definition sort_obj (n : node) : node :=                      (* unsafeMap; ps.Sort() *)
  match unsafeMap n with
  | NObject l (Some v) => NObject l (Some (P_Sort v))
  | n' => n'
  end.

(* sortKeys(recurse) and its scanner sc; a complete ForEach loads every child (as a raw cell) *)
Fixpoint sortKeys_ (fuel : nat) (recurse : bool) (n : node) : node :=
  match fuel with
  | O => n
  | S f =>
    let n1 := snd (checkRaw n) in
    let n2 := sort_obj n1 in
    if recurse then map_children (sc_ f) n2 else n2
  end
with sc_ (fuel : nat) (n : node) : node :=
  match fuel with
  | O => n
  | S f =>
    if itype_is_object n then sortKeys_ f true n
    else if itype_is_array n then
      let n1 := snd (checkRaw n) in
      map_children (sc_ f) (skipAllIndex n1)
    else n
  end.

(* Node.SortKeys(recurse) *)
Fixpoint SortKeys_ (fuel : nat) (recurse : bool) (n : node) : node :=
  match fuel with
  | O => n
  | S f =>
    let n1 := snd (checkRaw n) in
    if is_object n1 then sortKeys_ fuel recurse n1
    else if is_array n1 then
      map_children (fun c => if itype_is_array c || itype_is_object c then SortKeys_ f recurse c else c)
                   (skipAllIndex n1)
    else n1
  end.

Definition DEPTH_FUEL : nat := 200.

Definition op_sort (recurse : bool) (n : node) : obs * node :=
  let '(e, n1) := checkRaw n in
  if negb (err_ok e) then (OErr e, n1) else (OErr EOk, SortKeys_ DEPTH_FUEL recurse n1).

(* Node.Load *)
Definition op_load (n : node) : obs * node :=
  match n with
  | NArrayLazy _ _ _ => (OErr EOk, loadAllIndex true n)
  | NObjectLazy _ _ _ => (OErr EOk, loadAllKey true n)
  | NError c => (OErr (code_err c), n)
  | NNone => (OErr EOk, n)
  | NRaw _ t => (OErr EOk, parse_once t)         (* m is set, then checkRaw -> parseRaw under the lock *)
  | _ => (OErr EOk, n)
  end.

(* ---- iteration ---- *)
(* ListIterator.next : (cell, node', i') *)
Fixpoint list_next (fuel : nat) (n : node) (i : nat) : option nat * node * nat :=
  match fuel with
  | O => (None, n, i)
  | S f =>
    let '(has, n1) :=
      match n with
      | NArrayLazy l v rest =>
        match rest with
        | [] => (false, setArray v)
        | t :: rest' =>
          let v' := NPush v (NRaw false t) in
          (true, match rest' with [] => setArray v' | _ => NArrayLazy (S l) v' rest' end)
        end
      | _ => (i <? len n, n)
      end in
    if has then
      match nodeAt n1 i with
      | Some j => match child_at n1 j with
                  | Some c => if exists_ c then (Some j, n1, S i) else list_next f n1 (S i)
                  | None => list_next f n1 (S i)
                  end
      | None => list_next f n1 (S i)
      end
    else (None, n1, i)
  end.

Fixpoint object_next (fuel : nat) (n : node) (i : nat) : option nat * node * nat :=
  match fuel with
  | O => (None, n, i)
  | S f =>
    let '(has, n1) :=
      match n with
      | NObjectLazy l v rest =>
        match rest with
        | [] => (false, setObject v)
        | (k, t) :: rest' =>
          let v' := P_Push v (NewPair k (NRaw false t)) in
          (true, match rest' with [] => setObject v' | _ => NObjectLazy (S l) v' rest' end)
        end
      | _ => (i <? len n, n)
      end in
    if has then
      match pairAt n1 i with
      | Some j => match child_at n1 j with
                  | Some c => if exists_ c then (Some j, n1, S i) else object_next f n1 (S i)
                  | None => object_next f n1 (S i)
                  end
      | None => object_next f n1 (S i)
      end
    else (None, n1, i)
  end.

Definition rest_len (n : node) : nat :=
  match n with
  | NArrayLazy _ v rest => size v + length rest
  | NObjectLazy _ v rest => size (pv v) + length rest
  | NArray _ (Some v) => size v
  | NObject _ (Some v) => size (pv v)
  | _ => 0
  end.

Definition key_at (n : node) (j : nat) : option bytes :=
  match n with
  | NObjectLazy _ v _ | NObject _ (Some v) =>
    match At (pv v) j with Some (_, k, _) => Some k | None => None end
  | _ => None
  end.

Fixpoint foreach_loop (fuel : nat) (isobj : bool) (stop : nat) (n : node) (i count : nat) (acc : list event)
  : list event * node :=
  match fuel with
  | O => (rev acc, n)
  | S f =>
    let '(r, n1, i1) := if isobj then object_next (S (S (rest_len n))) n i
                        else list_next (S (S (rest_len n))) n i in
    match r with
    | None => (rev acc, n1)
    | Some j =>
      let c := match child_at n1 j with Some c => c | None => NNone end in
      let ev := (Some (i1 - 1), if isobj then key_at n1 j else None, abs c) in
      if S count <? stop then foreach_loop f isobj stop n1 i1 (S count) (ev :: acc)
      else (rev (ev :: acc), n1)
    end
  end.

Definition op_foreach (stop : nat) (n : node) : obs * node :=
  let '(e, n1) := checkRaw n in
  if negb (err_ok e) then (OEvents [] e, n1)
  else if is_array n1 then
    let '(evs, n2) := foreach_loop (S (rest_len n1)) false stop n1 0 0 [] in (OEvents evs EOk, n2)
  else if is_object n1 then
    let '(evs, n2) := foreach_loop (S (rest_len n1)) true stop n1 0 0 [] in (OEvents evs EOk, n2)
  else (OEvents [(None, None, abs n1)] EOk, n1).

(* ---- MarshalJSON: lazy nodes on the way are completed by skipAllIndex/skipAllKey, raw nodes are copied as they are ---- *)
Fixpoint deep_skip (n : node) : node :=
  match n with
  | NArrayLazy _ v rest =>
    match rest with
    | [] => NArray 0 None
    | _ => let v' := lmap deep_skip v in newArray (pushall v' (map (NRaw false) rest))
    end
  | NObjectLazy _ v rest =>
    match rest with
    | [] => NObject 0 None
    | _ => let v' := mkPairs (index v) (lmap (fun p => (fst p, deep_skip (snd p))) (pv v)) in
           newObject (ppushall v' (map (fun kv => NewPair (fst kv) (NRaw false (snd kv))) rest))
    end
  | NArray l (Some v) => NArray l (Some (lmap deep_skip v))
  | NObject l (Some v) => NObject l (Some (mkPairs (index v) (lmap (fun p => (fst p, deep_skip (snd p))) (pv v))))
  | _ => n
  end.

Definition op_marshal (n : node) : obs * node :=
  match n with
  | NRaw _ t => (OVal (Some t) EOk, n)
  | _ => let n' := deep_skip n in (OVal (Some (abs n')) EOk, n')
  end.

(* ---- InterfaceUseNumber: every node below is parsed completely ---- *)
Fixpoint deep_full (n : node) : node :=
  match n with
  | NRaw _ t => parse_full t
  | NArrayLazy _ v rest =>
    match rest with
    | [] => NArray 0 None
    | _ => newArray (pushall (lmap deep_full v) (map parse_full rest))
    end
  | NObjectLazy _ v rest =>
    match rest with
    | [] => NObject 0 None
    | _ => let v' := mkPairs (index v) (lmap (fun p => (fst p, deep_full (snd p))) (pv v)) in
           newObject (ppushall v' (map (fun kv => NewPair (fst kv) (parse_full (snd kv))) rest))
    end
  | NArray l (Some v) => NArray l (Some (lmap deep_full v))
  | NObject l (Some v) => NObject l (Some (mkPairs (index v) (lmap (fun p => (fst p, deep_full (snd p))) (pv v))))
  | _ => n
  end.

Definition op_iface (n : node) : obs * node :=
  let n' := deep_full n in (OVal (Some (iface (abs n'))) EOk, n').

Definition type_of_node (n : node) : nat :=
  match n with
  | NNone => 0 | NError _ => 1
  | NRaw _ t => type_of t
  | NNull => 2 | NTrue => 3 | NFalse => 4
  | NArray _ _ | NArrayLazy _ _ _ => 5
  | NObject _ _ | NObjectLazy _ _ _ => 6
  | NString _ => 7 | NNumber _ => 33
  end.

Definition apply_op (o : op) (n : node) : obs * node :=
  match o with
  | OpLook => (OLook true true EOk (type_of_node n) (Some (abs n)), n)
  | OpLen => op_len n
  | OpSet k v => op_set k (mk_value v) n
  | OpSetIdx i v => op_setidx i (mk_value v) n
  | OpAdd v => op_add (mk_value v) n
  | OpUnset k => op_unset k n
  | OpUnsetIdx i => op_unsetidx i n
  | OpPop => op_pop n
  | OpMove d s => op_move d s n
  | OpSort r => op_sort r n
  | OpLoad => op_load n
  | OpForEach stop => op_foreach stop n
  | OpMarshal => op_marshal n
  | OpIface => op_iface n
  end.

(* a non-nil pointer to an unset cell: the harness only looks at it *)
Definition obs_none : obs := OLook false true EOk 0 None.

Fixpoint run_op (p : path) (o : op) (n : node) : obs * node :=
  match p with
  | [] =>
    match n with
    | NNone => (obs_none, n)
    | NError c => (obs_of_err o (code_err c), n)
    | _ => apply_op o n
    end
  | s :: p' =>
    let '(l, n1) := get_child n s in
    match l with
    | LErr e => (obs_of_err o e, n1)
    | LSlot i =>
      match child_at n1 i with
      | Some c => let '(ob, c') := run_op p' o c in (ob, put_child n1 i c')
      | None => (obs_of_err o EPanic, n1)
      end
    end
  end.

Fixpoint run (ops : list step) (n : node) : list obs * node :=
  match ops with
  | [] => ([], n)
  | (p, o) :: rest =>
    let '(ob, n1) := run_op p o n in
    let '(obs, n2) := run rest n1 in
    (ob :: obs, n2)
  end.

End WithHash.
