(* Ast/ArraySet.v - root-level SetByIndex, UnsetByIndex and Pop on arrays commute with the abstraction (raw, lazy and loaded
   arrays, with soft-deleted cells) and keep the array invariant. *)
From Coq Require Import List Arith Bool NArith Lia.
From SV.Ast Require Import Linked Tree LinkedProofs Node IndexProofs NodeRefine ArrayRefine ObjectRefine ArrayOps RootRefine.
Import ListNotations.

Arguments Nat.div : simpl never.
Arguments Nat.modulo : simpl never.
Arguments Nat.ltb : simpl never.
Arguments Nat.leb : simpl never.
Arguments CAP : simpl never.

(* ---------- cell lists ---------- *)
Lemma afilter_upd_live (l : list node) i p q :
  nth_error l i = Some p -> exists_ p = exists_ q -> length (filter exists_ (upd l i q)) = length (filter exists_ l).
Proof.
  revert i. induction l as [|x l IH]; intros [|i] E EQ; simpl in *; try discriminate.
  - inversion E; subst. rewrite EQ. destruct (exists_ q); reflexivity.
  - destruct (exists_ x); simpl; rewrite (IH i E EQ); reflexivity.
Qed.

Lemma afilter_upd_dead (l : list node) i p :
  nth_error l i = Some p -> exists_ p = true -> S (length (filter exists_ (upd l i NNone))) = length (filter exists_ l).
Proof.
  revert i. induction l as [|x l IH]; intros [|i] E EQ; simpl in *; try discriminate.
  - inversion E; subst. rewrite EQ. reflexivity.
  - destruct (exists_ x); simpl; rewrite <- (IH i E EQ); reflexivity.
Qed.

Lemma anth_error_upd l i j (x : node) :
  nth_error (upd l i x) j = if (j =? i) && (i <? length l) then Some x else nth_error l j.
Proof.
  destruct (Nat.eq_dec j i) as [->|NE].
  - rewrite Nat.eqb_refl. destruct (i <? length l) eqn:E; simpl.
    + apply Nat.ltb_lt in E. now apply nth_error_upd_same.
    + apply Nat.ltb_ge in E. now rewrite upd_oob.
  - replace (j =? i) with false by (symmetry; now apply Nat.eqb_neq). simpl. apply nth_error_upd_other. auto.
Qed.

Lemma forallb_upd_live (l : list node) i c : forallb exists_ l = true -> exists_ c = true -> forallb exists_ (upd l i c) = true.
Proof.
  revert i. induction l as [|x l IH]; intros [|i] H L; simpl in *; auto; apply andb_true_iff in H as (H1 & H2);
    apply andb_true_iff; split; auto.
Qed.

(* ---------- helpers on the invariant ---------- *)
Lemma achild_at_cells n i : arr_inv n -> is_array n = true -> i < aloaded_size n ->
  child_at n i = nth_error (full_acells n) i.
Proof.
  intros HI HA Hi. destruct n; try discriminate; cbn [arr_inv aloaded_size full_acells child_at] in *.
  - destruct HI as (W & _). rewrite (At_spec _ _ W). now rewrite nth_error_app1 by (now rewrite (to_list_length _ W)).
  - destruct v; [|lia]. destruct HI as (W & _). now rewrite (At_spec _ _ W).
Qed.

Lemma aput_child_cells n i c c' :
  arr_inv n -> is_array n = true -> i < aloaded_size n ->
  nth_error (full_acells n) i = Some c -> exists_ c = true -> exists_ c' = true ->
  full_acells (put_child n i c') = upd (full_acells n) i c' /\ arr_inv (put_child n i c') /\
  is_array (put_child n i c') = true /\ exists_ (put_child n i c') = true.
Proof.
  intros HI HA Hi E L L'. destruct n; try discriminate.
  - cbn [arr_inv] in HI. destruct HI as (W & LL & AL & NE). cbn [aloaded_size full_acells] in *.
    destruct (assign_spec v i c' W) as (A1 & A2 & A3).
    cbn [put_child full_acells arr_inv is_array exists_]. rewrite A1.
    split; [rewrite upd_app_l; auto; now rewrite (to_list_length _ W)|].
    split; [|split; reflexivity].
    split; [exact A2|]. split; [lia|]. split; [now apply forallb_upd_live|exact NE].
  - destruct v as [v|]; [|cbn [aloaded_size] in Hi; lia].
    cbn [arr_inv] in HI. destruct HI as (W & LL). cbn [aloaded_size full_acells] in *.
    destruct (assign_spec v i c' W) as (A1 & A2 & A3).
    cbn [put_child full_acells arr_inv is_array exists_]. rewrite A1.
    split; [reflexivity|]. split; [|split; reflexivity]. split; [exact A2|].
    rewrite (afilter_upd_live _ i c c'); auto. congruence.
Qed.

Lemma nodeAt_spec n idx : arr_inv n -> is_array n = true -> not_lazy n ->
  nodeAt n idx = nth_live exists_ (full_acells n) idx 0.
Proof.
  intros HI HA NL. destruct n; try discriminate; [contradiction|].
  destruct v as [v|]; [|reflexivity].
  cbn [arr_inv] in HI. destruct HI as (W & L). cbn [nodeAt full_acells].
  destruct (size v =? l) eqn:ES.
  - apply Nat.eqb_eq in ES. assert (AL : forallb exists_ (to_list v) = true).
    { apply filter_length_all. rewrite (to_list_length _ W). lia. }
    rewrite (nth_live_all_live _ idx AL), (to_list_length _ W). reflexivity.
  - rewrite (scan_live_spec exists_ v idx 0 (size v) W eq_refl). reflexivity.
Qed.

(* ---------- Pop at the level of cells ---------- *)
Fixpoint pop_rev (r : list node) : list node :=
  match r with
  | [] => []
  | c :: r' => if exists_ c then r' else pop_rev r'
  end.
Definition pop_list (l : list node) : list node := rev (pop_rev (rev l)).

Lemma live_abs_rev l : live_abs (rev l) = rev (live_abs l).
Proof.
  induction l; [reflexivity|]. cbn [rev]. rewrite live_abs_app, IHl, !live_abs_cons.
  destruct (exists_ a); cbn [rev]; [reflexivity|]. unfold live_abs at 2. cbn [filter map]. now rewrite app_nil_r.
Qed.

Lemma removelast_rev {A} (x : A) l : removelast (rev (x :: l)) = rev l.
Proof. cbn [rev]. apply removelast_last. Qed.

Lemma live_abs_pop_rev r : live_abs (pop_rev r) = tl (live_abs r).
Proof. induction r as [|c r IH]; [reflexivity|]. cbn [pop_rev]. rewrite live_abs_cons. destruct (exists_ c); auto. Qed.

Lemma removelast_tl_rev {A} (l : list A) : removelast l = rev (tl (rev l)).
Proof.
  destruct (rev l) as [|x r] eqn:E.
  - apply (f_equal (@rev A)) in E. rewrite rev_involutive in E. subst. reflexivity.
  - apply (f_equal (@rev A)) in E. rewrite rev_involutive in E. subst. now rewrite removelast_rev.
Qed.

Lemma live_abs_pop_list l : live_abs (pop_list l) = removelast (live_abs l).
Proof.
  unfold pop_list. rewrite live_abs_rev, live_abs_pop_rev, live_abs_rev. now rewrite removelast_tl_rev.
Qed.

Lemma count_pop_rev r : length (filter exists_ (pop_rev r)) = length (filter exists_ r) - 1.
Proof. induction r as [|c r IH]; [reflexivity|]. simpl. destruct (exists_ c); simpl; lia. Qed.

Lemma filter_rev_length (l : list node) : length (filter exists_ (rev l)) = length (filter exists_ l).
Proof. induction l; [reflexivity|]. cbn [rev]. rewrite filter_app, app_length, IHl. simpl. destruct (exists_ a); simpl; lia. Qed.

Lemma count_pop_list l : length (filter exists_ (pop_list l)) = length (filter exists_ l) - 1.
Proof. unfold pop_list. now rewrite filter_rev_length, count_pop_rev, filter_rev_length. Qed.

Lemma last_cell_rev (l : list node) : nth_error l (length l - 1) = hd_error (rev l).
Proof.
  destruct (rev l) as [|x r] eqn:E.
  - apply (f_equal (@rev node)) in E. rewrite rev_involutive in E. subst. reflexivity.
  - apply (f_equal (@rev node)) in E. rewrite rev_involutive in E. subst. cbn [rev hd_error].
    rewrite app_length. cbn [length]. rewrite nth_error_app2 by lia.
    replace (length (rev r) + 1 - 1 - length (rev r)) with 0 by lia. reflexivity.
Qed.

(* the loop of Node.Pop on the storage *)
Lemma pop_nodes_spec : forall fuel s l,
  wf s -> size s <= fuel -> l = length (filter exists_ (to_list s)) ->
  let r := pop_nodes fuel s l in
  wf (fst r) /\ to_list (fst r) = pop_list (to_list s) /\ snd r = length (filter exists_ (to_list (fst r))).
Proof.
  induction fuel as [|fuel IH]; intros s l W HF L; cbn [pop_nodes].
  - assert (to_list s = []) by (apply length_zero_iff_nil; rewrite (to_list_length _ W); lia).
    cbn zeta. cbn [fst snd]. rewrite H in *. split; [exact W|split; [reflexivity|exact L]].
  - destruct (size s =? 0) eqn:E0.
    + apply Nat.eqb_eq in E0.
      assert (to_list s = []) by (apply length_zero_iff_nil; rewrite (to_list_length _ W); lia).
      cbn zeta. cbn [fst snd]. rewrite H in *. split; [exact W|split; [reflexivity|exact L]].
    + apply Nat.eqb_neq in E0. rewrite (At_spec _ _ W).
      destruct (Pop_spec NNone s W) as (P1 & P2 & P3).
      pose proof (last_cell_rev (to_list s)) as LC. rewrite (to_list_length _ W) in LC. rewrite LC.
      unfold pop_list in *. destruct (rev (to_list s)) as [|c r] eqn:ER.
      { apply (f_equal (@rev node)) in ER. rewrite rev_involutive in ER. simpl in ER.
        apply (f_equal (@length node)) in ER. rewrite (to_list_length _ W) in ER. simpl in ER. lia. }
      assert (TL : to_list s = rev (c :: r)) by (rewrite <- ER; now rewrite rev_involutive).
      assert (PT : to_list (Pop NNone s) = rev r) by (rewrite P1, TL; apply removelast_rev).
      cbn [hd_error pop_rev].
      destruct (exists_ c) eqn:EC.
      * cbn zeta. cbn [fst snd]. split; [exact P2|]. split; [exact PT|].
        rewrite PT, L, TL. rewrite !filter_rev_length. simpl. rewrite EC. simpl. lia.
      * assert (L' : l = length (filter exists_ (to_list (Pop NNone s)))).
        { rewrite PT, L, TL. rewrite !filter_rev_length. simpl. now rewrite EC. }
        destruct (IH (Pop NNone s) l P2 ltac:(lia) L') as (I1 & I2 & I3).
        cbn zeta in *. split; [exact I1|]. split; [|exact I3]. rewrite I2, PT, rev_involutive. reflexivity.
Qed.

Lemma remove_nth_last {A} (l : list A) : l <> [] -> remove_nth (length l - 1) l = removelast l.
Proof.
  induction l as [|x l IH]; [congruence|]. intros _. destruct l as [|y l]; [reflexivity|].
  cbn [length]. replace (S (S (length l)) - 1) with (S (length (y :: l) - 1)) by (simpl; lia).
  cbn [remove_nth]. rewrite IH by discriminate. reflexivity.
Qed.

Section Ops.
Variable hash : bytes -> N.

Lemma skipAllIndex_cells n : arr_inv n -> is_array n = true ->
  full_acells (skipAllIndex hash n) = full_acells n /\ arr_inv (skipAllIndex hash n) /\
  is_array (skipAllIndex hash n) = true /\ not_lazy (skipAllIndex hash n).
Proof.
  intros HI HA. destruct n; try discriminate.
  - cbn [arr_inv] in HI. destruct HI as (W & L & AL & NE).
    cbn [skipAllIndex]. unfold decodeArray. destruct rest as [|t rest]; [congruence|].
    change (map (child_of hash CSkip) (t :: rest)) with (map (NRaw false) (t :: rest)).
    destruct (pushall_spec v (map (NRaw false) (t :: rest)) W) as (P1 & P2 & P3).
    cbn [newArray full_acells arr_inv is_array not_lazy]. rewrite P1.
    split; [reflexivity|]. split; [|split; [reflexivity|exact I]].
    split; [exact P2|]. rewrite filter_all.
    + now rewrite <- P1, (to_list_length _ P2).
    + rewrite forallb_app, AL. apply raw_live.
  - cbn [skipAllIndex]. split; [reflexivity|]. split; [exact HI|]. split; [reflexivity|exact I].
Qed.

Definition is_tarr (t : tree) : Prop := match t with TArr _ => True | _ => False end.

Lemma array_of_R n t : R n t -> RootRefine.not_raw n -> is_tarr t -> is_array n = true.
Proof.
  intros (E & A & _) NR HT. destruct t; try contradiction.
  destruct n; simpl in E; try discriminate; try contradiction; simpl in A; try discriminate; auto; destruct v; discriminate.
Qed.

(* ---- SetByIndex on an array ---- *)
Theorem op_setidx_array n t idx r tv :
  R n t -> is_tarr t ->
  fst (op_setidx hash idx (mk_value hash (r, tv)) n) = fst (spec_apply (OpSetIdx idx (r, tv)) t) /\
  R (snd (op_setidx hash idx (mk_value hash (r, tv)) n)) (snd (spec_apply (OpSetIdx idx (r, tv)) t)) /\
  is_tarr (snd (spec_apply (OpSetIdx idx (r, tv)) t)).
Proof.
  intros HR HT. destruct (abs_mk_value hash (r, tv)) as (EV & AV). simpl in AV.
  set (val := mk_value hash (r, tv)) in *.
  unfold op_setidx. destruct (R_checkRaw hash n t HR) as (EC & HR1 & NR).
  destruct (checkRaw hash n) as [e n1]. cbn [fst snd] in EC, HR1, NR. subst e. cbn [err_ok negb].
  pose proof (array_of_R n1 t HR1 NR HT) as HA.
  destruct HR1 as (E1 & A1 & IA1 & IO1).
  assert (MATCH : forall (X Y : obs * node), match n1 with NNone | NNull => X | _ => Y end = Y).
  { intros. destruct n1; simpl in HA; try discriminate; reflexivity. }
  rewrite MATCH. unfold index_child. rewrite HA.
  destruct (skipIndex_spec n1 idx IA1 HA) as (S1 & S2 & S3 & S4 & S5 & S6).
  destruct (skipIndex n1 idx) as [r0 n2]. cbn [fst snd] in S1, S2, S3, S4, S5, S6.
  rewrite (abs_full_acells n1 HA) in A1. subst t. rewrite <- S1 in *.
  pose proof (nth_live_members (full_acells n2) idx 0) as NM.
  cbn [spec_apply]. rewrite <- S4 in NM.
  destruct r0 as [j|].
  - destruct NM as (c & N1 & N2 & _ & N4 & N5 & _). rewrite Nat.sub_0_r in N1, N5.
    specialize (S5 j eq_refl).
    rewrite (achild_at_cells n2 j S2 S3 S5), N1, N2.
    assert (LT : idx < length (live_abs (full_acells n2))) by (apply nth_error_Some; congruence).
    replace (idx <? length (live_abs (full_acells n2))) with true by (symmetry; now apply Nat.ltb_lt).
    destruct (aput_child_cells n2 j c val S2 S3 S5 N1 N2 EV) as (Q1 & Q2 & Q3 & Q4).
    cbn [fst snd]. split; [reflexivity|]. split; [|exact I].
    split; [exact Q4|]. split; [|split; [exact Q2|]].
    + rewrite (abs_full_acells _ Q3), Q1. f_equal. pose proof (N5 val EV) as XX. etransitivity; [exact XX|]. now rewrite AV.
    + destruct (put_child n2 j val); simpl in Q3; try discriminate; exact I.
  - replace (idx <? length (live_abs (full_acells n2))) with false by (symmetry; now apply Nat.ltb_ge).
    cbn [fst snd]. split; [reflexivity|]. split; [|exact I].
    split; [|split; [apply (abs_full_acells n2 S3)|split; [exact S2|]]].
    + destruct n2; simpl in S3; try discriminate; reflexivity.
    + destruct n2; simpl in S3; try discriminate; exact I.
Qed.

Lemma live_abs_length l : length (live_abs l) = length (filter exists_ l).
Proof. unfold live_abs. apply map_length. Qed.

Lemma unsafeArray_cells n : arr_inv n -> is_array n = true ->
  exists l v, unsafeArray hash n = NArray l (Some v) /\ wf v /\ l = length (filter exists_ (to_list v)) /\
              to_list v = full_acells n.
Proof.
  intros HI HA. destruct (skipAllIndex_cells n HI HA) as (K1 & K2 & K3 & K4).
  unfold unsafeArray. destruct (skipAllIndex hash n) as [| | | | | | | | | |l v|] eqn:ES; try discriminate; try contradiction.
  destruct v as [v|].
  - cbn [arr_inv full_acells] in *. destruct K2 as (W & L). exists l, v. auto.
  - cbn [arr_inv full_acells] in *. destruct emptyN_spec as (W & E). exists (size emptyN), emptyN.
    split; [reflexivity|]. split; [exact W|]. rewrite E. split; [reflexivity|exact K1].
Qed.

(* Node.Pop on an array (after checkRaw) *)
Lemma pop_node_array n : arr_inv n -> is_array n = true ->
  fst (pop_node hash n) = EOk /\
  abs (snd (pop_node hash n)) = TArr (removelast (live_abs (full_acells n))) /\
  arr_inv (snd (pop_node hash n)) /\ exists_ (snd (pop_node hash n)) = true /\ obj_inv (snd (pop_node hash n)).
Proof.
  intros HI HA. unfold pop_node. rewrite HA.
  destruct (unsafeArray_cells n HI HA) as (l & v & U1 & W & L & TL). rewrite U1.
  destruct (pop_nodes_spec (size v) v l W (le_n _) L) as (P1 & P2 & P3).
  destruct (pop_nodes (size v) v l) as [v' l']. cbn [fst snd] in *.
  split; [reflexivity|]. split; [|split; [exact (conj P1 P3)|split; [reflexivity|exact I]]].
  rewrite abs_array, P2, live_abs_pop_list, TL. reflexivity.
Qed.

Theorem op_pop_array n t :
  R n t -> is_tarr t ->
  fst (op_pop hash n) = fst (spec_apply OpPop t) /\
  R (snd (op_pop hash n)) (snd (spec_apply OpPop t)) /\ is_tarr (snd (spec_apply OpPop t)).
Proof.
  intros HR HT. unfold op_pop. destruct (R_checkRaw hash n t HR) as (EC & HR1 & NR).
  destruct (checkRaw hash n) as [e n1]. cbn [fst snd] in EC, HR1, NR. subst e. cbn [err_ok negb].
  pose proof (array_of_R n1 t HR1 NR HT) as HA. destruct HR1 as (E1 & A1 & IA1 & IO1).
  destruct (pop_node_array n1 IA1 HA) as (Q1 & Q2 & Q3 & Q4 & Q5).
  destruct (pop_node hash n1) as [e2 n2]. cbn [fst snd] in *. subst e2.
  rewrite (abs_full_acells n1 HA) in A1. subst t. cbn [spec_apply fst snd].
  split; [reflexivity|]. split; [|exact I]. split; [exact Q4|]. split; [exact Q2|]. split; [exact Q3|exact Q5].
Qed.

(* ---- UnsetByIndex on an array ---- *)
Theorem op_unsetidx_array n t idx :
  R n t -> is_tarr t ->
  fst (op_unsetidx hash idx n) = fst (spec_apply (OpUnsetIdx idx) t) /\
  R (snd (op_unsetidx hash idx n)) (snd (spec_apply (OpUnsetIdx idx) t)) /\
  is_tarr (snd (spec_apply (OpUnsetIdx idx) t)).
Proof.
  intros HR HT. unfold op_unsetidx. destruct (R_checkRaw hash n t HR) as (EC & HR1 & NR).
  destruct (checkRaw hash n) as [e n1]. cbn [fst snd] in EC, HR1, NR. subst e. cbn [err_ok negb].
  pose proof (array_of_R n1 t HR1 NR HT) as HA. destruct HR1 as (E1 & A1 & IA1 & IO1).
  rewrite HA. destruct (skipAllIndex_cells n1 IA1 HA) as (K1 & K2 & K3 & K4).
  set (n2 := skipAllIndex hash n1) in *.
  rewrite (abs_full_acells n1 HA) in A1. subst t. rewrite <- K1 in *.
  rewrite (nodeAt_spec n2 idx K2 K3 K4).
  pose proof (nth_live_members (full_acells n2) idx 0) as NM. cbn [spec_apply].
  assert (R2' : R n2 (TArr (live_abs (full_acells n2)))).
  { split; [destruct n2; simpl in K3; try discriminate; reflexivity|]. split; [apply (abs_full_acells n2 K3)|].
    split; [exact K2|]. destruct n2; simpl in K3; try discriminate; exact I. }
  destruct (nth_live exists_ (full_acells n2) idx 0) as [j|] eqn:EN.
  2:{ replace (idx <? length (live_abs (full_acells n2))) with false by (symmetry; now apply Nat.ltb_ge).
      cbn [fst snd]. split; [reflexivity|]. split; [exact R2'|exact I]. }
  destruct NM as (c & N1 & N2 & _ & N4 & _ & N6). rewrite Nat.sub_0_r in N1, N6.
  assert (LT : idx < length (live_abs (full_acells n2))) by (apply nth_error_Some; congruence).
  replace (idx <? length (live_abs (full_acells n2))) with true by (symmetry; now apply Nat.ltb_lt).
  (* n2 is a loaded array with storage *)
  destruct n2 as [| | | | | | | | | |l2 v2|] eqn:EN2; try discriminate; try contradiction.
  destruct v2 as [v2|]; [|cbn [full_acells] in N1; destruct j; discriminate].
  cbn [arr_inv] in K2. destruct K2 as (W & LL). cbn [full_acells] in *.
  assert (Hj : j < size v2).
  { assert (j < length (to_list v2)) by (apply nth_error_Some; congruence). now rewrite (to_list_length _ W) in H. }
  cbn [child_at]. rewrite (At_spec _ _ W), N1, N2. cbn [negb len].
  assert (LEN : l2 = length (live_abs (to_list v2))) by (now rewrite live_abs_length).
  destruct (S idx =? l2) eqn:EL.
  - apply Nat.eqb_eq in EL.
    assert (IA : arr_inv (NArray l2 (Some v2))) by exact (conj W LL).
    destruct (pop_node_array (NArray l2 (Some v2)) IA eq_refl) as (Q1 & Q2 & Q3 & Q4 & Q5).
    destruct (pop_node hash (NArray l2 (Some v2))) as [e2 n3]. cbn [fst snd full_acells] in *. subst e2.
    split; [reflexivity|]. split; [|exact I]. split; [exact Q4|]. split; [|split; [exact Q3|exact Q5]].
    rewrite Q2. f_equal. replace idx with (length (live_abs (to_list v2)) - 1) by lia.
    symmetry. apply remove_nth_last. intros X. rewrite X in LT. simpl in LT. lia.
  - cbn [fst snd]. split; [reflexivity|]. split; [|exact I].
    unfold removeNode. rewrite (nodeAt_spec (NArray l2 (Some v2)) idx (conj W LL) eq_refl I). cbn [full_acells]. rewrite EN.
    destruct (assign_spec v2 j NNone W) as (A1 & A2 & A3).
    split; [reflexivity|]. split; [rewrite abs_array, A1; f_equal; exact N6|]. split; [|exact I].
    split; [exact A2|]. rewrite A1. pose proof (afilter_upd_dead _ j c N1 N2). lia.
Qed.

End Ops.
