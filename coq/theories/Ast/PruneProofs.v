(* Ast/PruneProofs.v - a visitor skipping containers sees the document in which every skipped container is replaced by an
   empty container of the same kind: flatten_skip skip t = flatten (prune skip t). *)
From Coq Require Import List Arith Bool NArith Lia.
From SV.Ast Require Import Tree Search SearchProofs.
Import ListNotations.

Section Prune.
Variable skip : nat -> bool.

Fixpoint prune (t : tree) (k : nat) : tree * nat :=
  match t with
  | TArr l =>
    if skip k then (TArr [], S k)
    else let '(l', k') :=
           (fix go (l : list tree) (k : nat) : list tree * nat :=
              match l with
              | [] => ([], k)
              | x :: tl => let '(x', k1) := prune x k in let '(tl', k2) := go tl k1 in (x' :: tl', k2)
              end) l (S k) in
         (TArr l', k')
  | TObj l =>
    if skip k then (TObj [], S k)
    else let '(l', k') :=
           (fix go (l : list (bytes * tree)) (k : nat) : list (bytes * tree) * nat :=
              match l with
              | [] => ([], k)
              | (key, x) :: tl => let '(x', k1) := prune x k in let '(tl', k2) := go tl k1 in ((key, x') :: tl', k2)
              end) l (S k) in
         (TObj l', k')
  | _ => (t, k)
  end.

Fixpoint prune_list (l : list tree) (k : nat) : list tree * nat :=
  match l with
  | [] => ([], k)
  | x :: tl => let '(x', k1) := prune x k in let '(tl', k2) := prune_list tl k1 in (x' :: tl', k2)
  end.

Fixpoint prune_members (l : list (bytes * tree)) (k : nat) : list (bytes * tree) * nat :=
  match l with
  | [] => ([], k)
  | (key, x) :: tl => let '(x', k1) := prune x k in let '(tl', k2) := prune_members tl k1 in ((key, x') :: tl', k2)
  end.

Lemma prune_arr l k : prune (TArr l) k = if skip k then (TArr [], S k) else let '(l', k') := prune_list l (S k) in (TArr l', k').
Proof. reflexivity. Qed.
Lemma prune_obj l k : prune (TObj l) k = if skip k then (TObj [], S k) else let '(l', k') := prune_members l (S k) in (TObj l', k').
Proof. reflexivity. Qed.

Definition with_count (o : option (list pev)) (k : nat) : option (list pev * nat) :=
  match o with Some evs => Some (evs, k) | None => None end.

Definition prune_ok (t : tree) : Prop :=
  forall k, flatten_skip skip t k = with_count (flatten (fst (prune t k))) (snd (prune t k)).

Lemma prune_list_ok l : Forall prune_ok l ->
  forall k, fskip_list skip l k = with_count (flat_list (fst (prune_list l k))) (snd (prune_list l k)).
Proof.
  induction 1 as [|x l Hx Hl IH]; intros k; [reflexivity|].
  cbn [fskip_list prune_list]. rewrite (Hx k). destruct (prune x k) as [x' k1]. cbn [fst snd].
  specialize (IH k1). destruct (prune_list l k1) as [l' k2]. cbn [fst snd flat_list] in *.
  destruct (flatten x'); cbn [with_count]; [|reflexivity]. rewrite IH. destruct (flat_list l'); reflexivity.
Qed.

Lemma prune_members_ok l : Forall (fun kv => prune_ok (snd kv)) l ->
  forall k, fskip_members skip l k = with_count (flat_members (fst (prune_members l k))) (snd (prune_members l k)).
Proof.
  induction 1 as [|[key x] l Hx Hl IH]; intros k; [reflexivity|]. simpl in Hx.
  cbn [fskip_members prune_members]. rewrite (Hx k). destruct (prune x k) as [x' k1]. cbn [fst snd].
  specialize (IH k1). destruct (prune_members l k1) as [l' k2]. cbn [fst snd flat_members] in *.
  destruct (unescape key); [|reflexivity]. destruct (flatten x'); cbn [with_count]; [|reflexivity].
  rewrite IH. destruct (flat_members l'); reflexivity.
Qed.

Theorem prune_spec t : prune_ok t.
Proof.
  induction t using tree_ind2; intros k; try reflexivity.
  - simpl. destruct (unescape s); reflexivity.
  - rewrite flatten_skip_arr, prune_arr. destruct (skip k); [reflexivity|].
    rewrite (prune_list_ok l H (S k)). destruct (prune_list l (S k)) as [l' k']. cbn [fst snd]. rewrite flatten_arr.
    destruct (flat_list l'); reflexivity.
  - rewrite flatten_skip_obj, prune_obj. destruct (skip k); [reflexivity|].
    rewrite (prune_members_ok l H (S k)). destruct (prune_members l (S k)) as [l' k']. cbn [fst snd]. rewrite flatten_obj.
    destruct (flat_members l'); reflexivity.
Qed.

End Prune.
