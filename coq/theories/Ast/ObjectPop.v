(* Ast/ObjectPop.v - Pop on objects: the loop of Node.Pop over linkedPairs.Pop (index entry of the popped pair deleted),
   and the positional SetByIndex / UnsetByIndex on objects. *)
From Coq Require Import List Arith Bool NArith Lia.
From SV.Ast Require Import Linked Tree LinkedProofs Node IndexProofs NodeRefine ArrayRefine ObjectRefine ObjectOps ArrayOps ArraySet ObjectIdx.
Import ListNotations.

Arguments Nat.div : simpl never.
Arguments Nat.modulo : simpl never.
Arguments Nat.ltb : simpl never.
Arguments Nat.leb : simpl never.
Arguments CAP : simpl never.

(* ---------- popping at the level of any cell list ---------- *)
Section GPop.
Context {A : Type} (ex : A -> bool).

Fixpoint gpop_rev (r : list A) : list A :=
  match r with
  | [] => []
  | c :: r' => if ex c then r' else gpop_rev r'
  end.
Definition gpop_list (l : list A) : list A := rev (gpop_rev (rev l)).

Lemma filter_rev (l : list A) : filter ex (rev l) = rev (filter ex l).
Proof.
  induction l; [reflexivity|]. cbn [rev]. rewrite filter_app, IHl. simpl. destruct (ex a); simpl; [reflexivity|now rewrite app_nil_r].
Qed.

Lemma filter_gpop_rev r : filter ex (gpop_rev r) = tl (filter ex r).
Proof. induction r as [|c r IH]; [reflexivity|]. simpl. destruct (ex c); auto. Qed.

Lemma removelast_tl_rev' {B} (l : list B) : removelast l = rev (tl (rev l)).
Proof.
  destruct (rev l) as [|x r] eqn:E.
  - apply (f_equal (@rev B)) in E. rewrite rev_involutive in E. subst. reflexivity.
  - apply (f_equal (@rev B)) in E. rewrite rev_involutive in E. subst. cbn [rev tl]. now rewrite removelast_last.
Qed.

Lemma filter_gpop_list l : filter ex (gpop_list l) = removelast (filter ex l).
Proof. unfold gpop_list. rewrite filter_rev, filter_gpop_rev, filter_rev. now rewrite removelast_tl_rev'. Qed.

Lemma last_cell_rev' (l : list A) : nth_error l (length l - 1) = hd_error (rev l).
Proof.
  destruct (rev l) as [|x r] eqn:E.
  - apply (f_equal (@rev A)) in E. rewrite rev_involutive in E. subst. reflexivity.
  - apply (f_equal (@rev A)) in E. rewrite rev_involutive in E. subst. cbn [rev hd_error].
    rewrite app_length. cbn [length]. rewrite nth_error_app2 by lia.
    replace (length (rev r) + 1 - 1 - length (rev r)) with 0 by lia. reflexivity.
Qed.
End GPop.

Lemma map_removelast {A B} (f : A -> B) l : map f (removelast l) = removelast (map f l).
Proof. induction l as [|x [|y l] IH]; simpl; auto. simpl in IH. now rewrite IH. Qed.

Lemma nth_error_removelast {A} (l : list A) j : j < length l - 1 -> nth_error (removelast l) j = nth_error l j.
Proof.
  revert j. induction l as [|x [|y l] IH]; intros j Hj; simpl in *; try lia.
  destruct j; [reflexivity|]. apply IH. simpl. lia.
Qed.

Lemma removelast_length {A} (l : list A) : length (removelast l) = length l - 1.
Proof. induction l as [|x [|y l] IH]; simpl in *; auto. rewrite IH. lia. Qed.

Section Ops.
Variable hash : bytes -> N.
Hypothesis hash_inj : forall a b, hash a = hash b -> a = b.
Hypothesis hash_nz : forall k, hash k <> 0%N.

(* one linkedPairs.Pop *)
Lemma P_Pop_inv (s : lpairs node) :
  wf (pv s) -> cells_ok hash (to_list (pv s)) -> idx_inv hash s -> size (pv s) <> 0 ->
  wf (pv (P_Pop s)) /\ to_list (pv (P_Pop s)) = removelast (to_list (pv s)) /\
  cells_ok hash (to_list (pv (P_Pop s))) /\ idx_inv hash (P_Pop s).
Proof.
  intros W CO II NZ. unfold P_Pop. replace (size (pv s) =? 0) with false by (symmetry; now apply Nat.eqb_neq).
  unfold P_Unset. cbn [pv index].
  (* the storage part is Linked.Pop *)
  pose proof (Pop_spec pzero (pv s) W) as PS. unfold Pop in PS.
  replace (size (pv s) =? 0) with false in PS by (symmetry; now apply Nat.eqb_neq).
  destruct PS as (P1 & P2 & P3). cbn [head tail size] in *.
  set (s' := {| head := head (Set_ pzero (pv s) (size (pv s) - 1) pzero);
                tail := tail (Set_ pzero (pv s) (size (pv s) - 1) pzero);
                size := size (Set_ pzero (pv s) (size (pv s) - 1) pzero) - 1 |}) in *.
  set (l := to_list (pv s)) in *.
  assert (LEN : length l = size (pv s)) by apply (to_list_length _ W).
  assert (CO' : cells_ok hash (removelast l)).
  { intros j h k c E. assert (j < length (removelast l)) by (apply nth_error_Some; congruence).
    rewrite removelast_length in H. rewrite nth_error_removelast in E by auto. eauto. }
  split; [exact P2|]. split; [exact P1|]. rewrite P1. split; [exact CO'|].
  intros m' Hm'. cbn [index] in Hm'. rewrite (At_spec _ _ W) in Hm'. fold l in Hm'.
  destruct (index s) as [m|] eqn:EI; try discriminate.
  destruct (II m EI) as ((I1 & I2) & ND). fold l in I1, I2, ND.
  destruct (nth_error l (size (pv s) - 1)) as [[[hl kl] cl]|] eqn:EL.
  2:{ apply nth_error_None in EL. lia. }
  inversion Hm'; subst m'. clear Hm'. cbn [pv]. rewrite P1.
  destruct (CO _ _ _ _ EL) as (CL1 & CL2).
  split; [split|].
  - intros j h k c E Hc. assert (Hj : j < length (removelast l)) by (apply nth_error_Some; congruence).
    rewrite removelast_length in Hj. rewrite nth_error_removelast in E by auto.
    rewrite idx_get_del_other; [eauto|].
    destruct (exists_ cl) eqn:XL.
    + rewrite (CL1 eq_refl). intros X. apply hash_inj in X. subst kl.
      assert (size (pv s) - 1 = j) by (eapply ND; eauto). lia.
    + destruct (CL2 eq_refl) as (_ & ->). intros X. symmetry in X. revert X. apply hash_nz.
  - intros h i0 Hh. destruct (N.eq_dec hl h) as [<-|NE].
    + rewrite idx_get_del_same in Hh. discriminate.
    + rewrite idx_get_del_other in Hh by auto. destruct (I2 _ _ Hh) as (k1 & c1 & E1).
      assert (i0 < length l) by (apply nth_error_Some; congruence).
      assert (i0 <> size (pv s) - 1). { intros X. subst i0. rewrite EL in E1. inversion E1. contradiction. }
      exists k1, c1. rewrite nth_error_removelast by lia. exact E1.
  - intros j1 j2 h1 h2 k c1 c2 E1 E2 L1 L2.
    assert (H1 : j1 < length (removelast l)) by (apply nth_error_Some; congruence).
    assert (H2 : j2 < length (removelast l)) by (apply nth_error_Some; congruence).
    rewrite removelast_length in H1, H2. rewrite nth_error_removelast in E1, E2 by auto. eapply ND; eauto.
Qed.

Definition ppop_list := gpop_list pexists.

(* the loop of Node.Pop on an object *)
Lemma pop_pairs_spec : forall fuel s l,
  wf (pv s) -> cells_ok hash (to_list (pv s)) -> idx_inv hash s -> size (pv s) <= fuel ->
  l = length (filter pexists (to_list (pv s))) ->
  let r := pop_pairs fuel s l in
  wf (pv (fst r)) /\ to_list (pv (fst r)) = ppop_list (to_list (pv s)) /\ cells_ok hash (to_list (pv (fst r))) /\
  idx_inv hash (fst r) /\ snd r = length (filter pexists (to_list (pv (fst r)))).
Proof.
  induction fuel as [|fuel IH]; intros s l W CO II HF L; cbn [pop_pairs].
  - assert (to_list (pv s) = []) by (apply length_zero_iff_nil; rewrite (to_list_length _ W); lia).
    cbn zeta. cbn [fst snd]. rewrite H in *. auto.
  - destruct (size (pv s) =? 0) eqn:E0.
    + apply Nat.eqb_eq in E0.
      assert (to_list (pv s) = []) by (apply length_zero_iff_nil; rewrite (to_list_length _ W); lia).
      cbn zeta. cbn [fst snd]. rewrite H in *. auto.
    + apply Nat.eqb_neq in E0. rewrite (At_spec _ _ W).
      destruct (P_Pop_inv s W CO II E0) as (Q1 & Q2 & Q3 & Q4).
      pose proof (last_cell_rev' (to_list (pv s))) as LC. rewrite (to_list_length _ W) in LC. rewrite LC.
      unfold ppop_list, gpop_list in *. destruct (rev (to_list (pv s))) as [|c r] eqn:ER.
      { apply (f_equal (@rev (pair node))) in ER. rewrite rev_involutive in ER. simpl in ER.
        apply (f_equal (@length (pair node))) in ER. rewrite (to_list_length _ W) in ER. simpl in ER. lia. }
      assert (TL : to_list (pv s) = rev (c :: r)) by (rewrite <- ER; now rewrite rev_involutive).
      assert (PT : to_list (pv (P_Pop s)) = rev r).
      { rewrite Q2, TL. cbn [rev]. apply removelast_last. }
      cbn [hd_error gpop_rev].
      destruct (pexists c) eqn:EC.
      * cbn zeta. cbn [fst snd]. split; [exact Q1|]. split; [exact PT|]. split; [exact Q3|]. split; [exact Q4|].
        rewrite PT, L, TL. rewrite !filter_rev, !rev_length. simpl. rewrite EC. simpl. lia.
      * assert (L' : l = length (filter pexists (to_list (pv (P_Pop s))))).
        { rewrite PT, L, TL. rewrite !filter_rev, !rev_length. simpl. now rewrite EC. }
        assert (SZ : size (pv (P_Pop s)) <= fuel).
        { rewrite <- (to_list_length _ Q1), Q2, removelast_length, (to_list_length _ W). lia. }
        destruct (IH (P_Pop s) l Q1 Q3 Q4 SZ L') as (I1 & I2 & I3 & I4 & I5).
        cbn zeta in *. split; [exact I1|]. split; [|split; [exact I3|split; [exact I4|exact I5]]].
        rewrite I2, PT, rev_involutive. reflexivity.
Qed.

Lemma live_pabs_ppop l : live_pabs (ppop_list l) = removelast (live_pabs l).
Proof. unfold live_pabs, ppop_list. rewrite filter_gpop_list. apply map_removelast. Qed.

End Ops.
