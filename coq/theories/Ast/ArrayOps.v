(* Ast/ArrayOps.v - arrays: logical positions over soft-deleted cells versus positions in the element list of the tree;
   skipIndex (loaded part, then loading on demand) returns the cell of the idx-th element; SetByIndex, UnsetByIndex and Pop on an
   array commute with the abstraction and keep the invariant. *)
From Coq Require Import List Arith Bool NArith Lia.
From SV.Ast Require Import Linked Tree LinkedProofs Node IndexProofs NodeRefine ArrayRefine ObjectRefine.
Import ListNotations.

Arguments Nat.div : simpl never.
Arguments Nat.modulo : simpl never.
Arguments Nat.ltb : simpl never.
Arguments Nat.leb : simpl never.
Arguments CAP : simpl never.

Lemma live_abs_cons c l : live_abs (c :: l) = if exists_ c then abs c :: live_abs l else live_abs l.
Proof. unfold live_abs. simpl. destruct (exists_ c); reflexivity. Qed.

(* the physical cell of the i-th live element, and what storing into it means for the element list *)
Lemma nth_live_members l : forall i j0,
  match nth_live exists_ l i j0 with
  | Some p =>
    exists c, nth_error l (p - j0) = Some c /\ exists_ c = true /\ j0 <= p /\
      nth_error (live_abs l) i = Some (abs c) /\
      (forall c', exists_ c' = true -> live_abs (upd l (p - j0) c') = replace_nth i (abs c') (live_abs l)) /\
      live_abs (upd l (p - j0) NNone) = remove_nth i (live_abs l)
  | None => length (live_abs l) <= i
  end.
Proof.
  induction l as [|x l IH]; intros i j0; cbn [nth_live].
  - simpl. lia.
  - destruct (exists_ x) eqn:EX.
    + destruct i as [|i].
      * exists x. rewrite Nat.sub_diag. cbn [nth_error upd]. rewrite !live_abs_cons, EX. cbn [nth_error replace_nth remove_nth].
        split; [reflexivity|]. split; [reflexivity|]. split; [lia|]. split; [reflexivity|]. split.
        -- intros c' Hc'. rewrite live_abs_cons, Hc'. reflexivity.
        -- reflexivity.
      * specialize (IH i (S j0)). destruct (nth_live exists_ l i (S j0)) as [p|].
        -- destruct IH as (c & N1 & N2 & N3 & N4 & N5 & N6). exists c.
           replace (p - j0) with (S (p - S j0)) by lia. cbn [nth_error upd]. rewrite !live_abs_cons, EX.
           cbn [nth_error replace_nth remove_nth].
           split; [exact N1|]. split; [exact N2|]. split; [lia|]. split; [exact N4|]. split.
           ++ intros c' Hc'. rewrite live_abs_cons, EX. f_equal. auto.
           ++ f_equal. exact N6.
        -- rewrite live_abs_cons, EX. simpl. lia.
    + specialize (IH i (S j0)). destruct (nth_live exists_ l i (S j0)) as [p|].
      * destruct IH as (c & N1 & N2 & N3 & N4 & N5 & N6). exists c.
        replace (p - j0) with (S (p - S j0)) by lia. cbn [nth_error upd]. rewrite !live_abs_cons, EX.
        split; [exact N1|]. split; [exact N2|]. split; [lia|]. split; [exact N4|]. split.
        -- intros c' Hc'. rewrite live_abs_cons, EX. auto.
        -- exact N6.
      * rewrite live_abs_cons, EX. exact IH.
Qed.

(* ---------- the cells of an array once everything is loaded ---------- *)
Definition full_acells (n : node) : list node :=
  match n with
  | NArrayLazy _ v rest => to_list v ++ map (NRaw false) rest
  | NArray _ (Some v) => to_list v
  | _ => []
  end.

Definition aloaded_size (n : node) : nat :=
  match n with
  | NArrayLazy _ v _ | NArray _ (Some v) => size v
  | _ => 0
  end.

Lemma raw_live rest : forallb exists_ (map (NRaw false) rest) = true.
Proof. induction rest; simpl; auto. Qed.
Lemma live_abs_raw rest : live_abs (map (NRaw false) rest) = rest.
Proof. induction rest as [|t rest IH]; [reflexivity|]. cbn [map]. rewrite live_abs_cons. cbn [exists_ abs]. now rewrite IH. Qed.

Theorem abs_full_acells n : is_array n = true -> abs n = TArr (live_abs (full_acells n)).
Proof.
  destruct n; simpl; try discriminate; intros _.
  - rewrite to_list_lmap, live_abs_eq. now rewrite live_abs_app, live_abs_raw.
  - destruct v; [|reflexivity]. now rewrite to_list_lmap, live_abs_eq.
Qed.

Lemma nth_live_all_live l i : forallb exists_ l = true ->
  nth_live exists_ l i 0 = if i <? length l then Some i else None.
Proof. intros H. now rewrite (nth_live_all exists_ l i 0 H). Qed.

(* skipIndex's loop in terms of the full cells *)
Lemma skip_index_loop_cells index : forall rest l v,
  wf v -> l = size v -> forallb exists_ (to_list v) = true -> size v <= index ->
  let r := skip_index_loop index l v rest in
  full_acells (snd r) = to_list v ++ map (NRaw false) rest /\ arr_inv (snd r) /\ is_array (snd r) = true /\
  fst r = (if index <? size v + length rest then Some index else None) /\
  (forall j, fst r = Some j -> j < aloaded_size (snd r)) /\
  (fst r = None -> not_lazy (snd r)).
Proof.
  induction rest as [|t rest IH]; intros l v W L AL GE; cbn [skip_index_loop].
  - cbn zeta. cbn [fst snd map setArray full_acells arr_inv is_array not_lazy]. rewrite app_nil_r.
    split; [reflexivity|]. split.
    { split; [exact W|]. rewrite filter_all by auto. now rewrite (to_list_length _ W). }
    split; [reflexivity|]. replace (index <? size v + length (@nil tree)) with false by (symmetry; apply Nat.ltb_ge; simpl; lia).
    split; [reflexivity|]. split; [intros j Hj; discriminate|intros _; exact I].
  - destruct (Push_spec NNone v (NRaw false t) W) as (P1 & P2 & P3). fold (NPush v (NRaw false t)) in P1, P2, P3.
    set (v' := NPush v (NRaw false t)) in *.
    assert (AL' : forallb exists_ (to_list v') = true) by (rewrite P1, forallb_app, AL; reflexivity).
    assert (EQ : to_list v ++ map (NRaw false) (t :: rest) = to_list v' ++ map (NRaw false) rest).
    { rewrite P1, <- app_assoc. reflexivity. }
    destruct rest as [|t2 rest].
    + cbn zeta. cbn [fst snd setArray full_acells arr_inv is_array not_lazy aloaded_size].
      split; [rewrite EQ; simpl; now rewrite app_nil_r|]. split.
      { split; [exact P2|]. rewrite filter_all by auto. now rewrite (to_list_length _ P2). }
      split; [reflexivity|]. cbn [length]. rewrite P3.
      destruct (index <? S (size v)) eqn:E1.
      * apply Nat.ltb_lt in E1. replace (index <? size v + 1) with true by (symmetry; apply Nat.ltb_lt; lia).
        split; [f_equal; lia|]. split; [|intros Hn; discriminate]. intros j Hj. inversion Hj. lia.
      * apply Nat.ltb_ge in E1. replace (index <? size v + 1) with false by (symmetry; apply Nat.ltb_ge; lia).
        split; [reflexivity|]. split; [intros j Hj; discriminate|intros _; exact I].
    + destruct (index <? S l) eqn:EI.
      * apply Nat.ltb_lt in EI. cbn zeta. cbn [fst snd full_acells arr_inv is_array aloaded_size].
        split; [now rewrite EQ|]. split.
        { split; [exact P2|]. split; [lia|]. split; [exact AL'|discriminate]. }
        split; [reflexivity|]. cbn [length].
        replace (index <? size v + S (S (length rest))) with true by (symmetry; apply Nat.ltb_lt; lia).
        split; [f_equal; lia|]. split; [|intros Hn; discriminate]. intros j Hj. inversion Hj. lia.
      * apply Nat.ltb_ge in EI.
        destruct (IH (S l) v' P2 ltac:(lia) AL' ltac:(lia)) as (I1 & I2 & I3 & I4 & I5 & I6).
        cbn zeta in *. split; [now rewrite I1, EQ|]. split; [exact I2|]. split; [exact I3|].
        split; [|exact (conj I5 I6)]. rewrite I4, P3. cbn [length].
        replace (S (size v) + S (length rest)) with (size v + S (S (length rest))) by lia. reflexivity.
Qed.

(* skipIndex: the cell of the idx-th live element *)
Theorem skipIndex_spec n idx :
  arr_inv n -> is_array n = true ->
  let r := skipIndex n idx in
  full_acells (snd r) = full_acells n /\ arr_inv (snd r) /\ is_array (snd r) = true /\
  fst r = nth_live exists_ (full_acells n) idx 0 /\
  (forall j, fst r = Some j -> j < aloaded_size (snd r)) /\
  (fst r = None -> not_lazy (snd r)).
Proof.
  intros HI HA. destruct n; try discriminate; unfold skipIndex; cbn [len].
  - (* lazy *)
    cbn [arr_inv] in HI. destruct HI as (W & L & AL & NE). cbn [full_acells].
    assert (ALL : forallb exists_ (to_list v ++ map (NRaw false) rest) = true) by (rewrite forallb_app, AL; apply raw_live).
    rewrite (nth_live_all_live _ idx ALL), app_length, map_length, (to_list_length _ W).
    destruct (idx <? l) eqn:E1.
    + apply Nat.ltb_lt in E1. cbn [fst snd nodeAt full_acells arr_inv is_array aloaded_size].
      replace (idx <? size v) with true by (symmetry; apply Nat.ltb_lt; lia).
      replace (idx <? size v + length rest) with true by (symmetry; apply Nat.ltb_lt; lia).
      split; [reflexivity|]. split; [exact (conj W (conj L (conj AL NE)))|]. split; [reflexivity|]. split; [reflexivity|].
      split; [|intros Hn; discriminate]. intros j Hj. inversion Hj. lia.
    + apply Nat.ltb_ge in E1.
      destruct (skip_index_loop_cells idx rest l v W L AL ltac:(lia)) as (S1 & S2 & S3 & S4 & S5 & S6).
      cbn zeta in *. split; [exact S1|]. split; [exact S2|]. split; [exact S3|]. split; [exact S4|]. exact (conj S5 S6).
  - (* loaded *)
    destruct v as [v|].
    + cbn [arr_inv] in HI. destruct HI as (W & L). cbn [full_acells].
      assert (NA : nodeAt (NArray l (Some v)) idx = nth_live exists_ (to_list v) idx 0).
      { cbn [nodeAt]. destruct (size v =? l) eqn:ES.
        - apply Nat.eqb_eq in ES. assert (AL : forallb exists_ (to_list v) = true).
          { apply filter_length_all. rewrite (to_list_length _ W). lia. }
          rewrite (nth_live_all_live _ idx AL), (to_list_length _ W). reflexivity.
        - rewrite (scan_live_spec exists_ v idx 0 (size v) W eq_refl). reflexivity. }
      destruct (idx <? l) eqn:E1; cbn [fst snd full_acells arr_inv is_array aloaded_size not_lazy].
      * rewrite NA. split; [reflexivity|]. split; [exact (conj W L)|]. split; [reflexivity|]. split; [reflexivity|].
        split; [|intros _; exact I]. intros j Hj.
        pose proof (nth_live_some exists_ (to_list v) idx 0 j Hj) as (_ & x & Hx & _).
        rewrite Nat.sub_0_r in Hx. assert (j < length (to_list v)) by (apply nth_error_Some; congruence).
        now rewrite (to_list_length _ W) in H.
      * apply Nat.ltb_ge in E1. split; [reflexivity|]. split; [exact (conj W L)|]. split; [reflexivity|]. split.
        { symmetry. destruct (nth_live exists_ (to_list v) idx 0) eqn:EN; auto.
          pose proof (nth_live_some exists_ _ _ _ _ EN) as (_ & x & _ & _ & Hx).
          assert (idx < length (filter exists_ (to_list v))) by (apply nth_error_Some; congruence). lia. }
        split; [intros j Hj; discriminate|intros _; exact I].
    + cbn [arr_inv] in HI. subst l. cbn [fst snd full_acells nth_live arr_inv is_array not_lazy].
      replace (idx <? 0) with false by (symmetry; apply Nat.ltb_ge; lia). cbn [fst snd].
      split; [reflexivity|]. split; [reflexivity|]. split; [reflexivity|]. split; [reflexivity|].
      split; [intros j Hj; discriminate|intros _; exact I].
Qed.
