(* Ast/ObjectSet.v - the root-level operations Set and Unset (by key) commute with the abstraction: same return value as the
   plain tree, same resulting tree, invariant kept - for raw, lazy and loaded objects (and the right errors elsewhere). *)
From Coq Require Import List Arith Bool NArith Lia.
From SV.Ast Require Import Linked Tree LinkedProofs Node IndexProofs NodeRefine ArrayRefine ObjectRefine ObjectOps.
Import ListNotations.

Arguments Nat.div : simpl never.
Arguments Nat.modulo : simpl never.
Arguments Nat.ltb : simpl never.
Arguments Nat.leb : simpl never.
Arguments CAP : simpl never.

Section Ops.
Variable hash : bytes -> N.
Hypothesis hash_inj : forall a b, hash a = hash b -> a = b.
Hypothesis hash_nz : forall k, hash k <> 0%N.

Definition RO (n : node) (t : tree) : Prop := exists_ n = true /\ abs n = t /\ oinv hash n.
Definition not_raw (n : node) : Prop := match n with NRaw _ _ => False | _ => True end.

(* ---------- loading keeps the cells ---------- *)
Lemma ppushall_props (v : lpairs node) (ps : list (pair node)) :
  wf (pv v) -> index v = None ->
  to_list (pv (ppushall v ps)) = to_list (pv v) ++ ps /\ wf (pv (ppushall v ps)) /\ index (ppushall v ps) = None /\
  size (pv (ppushall v ps)) = size (pv v) + length ps.
Proof.
  revert v. induction ps as [|p ps IH]; intros v W IN; simpl.
  - rewrite app_nil_r. auto.
  - destruct (P_Push_props v p W IN) as (P1 & P2 & P3 & P4).
    destruct (IH _ P2 P4) as (I1 & I2 & I3 & I4). unfold ppushall in *.
    rewrite I1, P1, <- app_assoc. cbn [app]. split; [reflexivity|]. split; [exact I2|]. split; [exact I3|]. rewrite I4, P3. cbn [length]. lia.
Qed.

Lemma cells_of_children (f : tree -> node) (l : list (bytes * tree)) :
  (forall t, exists_ (f t) = true) ->
  cells_ok hash (map (fun kv => NewPair hash (fst kv) (f (snd kv))) l) /\
  forallb pexists (map (fun kv => NewPair hash (fst kv) (f (snd kv))) l) = true.
Proof.
  intros F. split.
  - intros j h k c E. apply nth_error_In in E. apply in_map_iff in E as ([k0 t0] & E & _).
    unfold NewPair in E. simpl in E. inversion E; subst. split; auto. rewrite F. discriminate.
  - induction l; simpl; auto. unfold pexists at 1. simpl. now rewrite F.
Qed.

Lemma oinv_object_of (f : tree -> node) (l : list (bytes * tree)) :
  (forall t, exists_ (f t) = true) ->
  oinv hash (newObject (ppushall emptyP (map (fun kv => NewPair hash (fst kv) (f (snd kv))) l))).
Proof.
  intros F. destruct emptyP_spec as (W & E).
  destruct (ppushall_props emptyP (map (fun kv => NewPair hash (fst kv) (f (snd kv))) l) W eq_refl) as (P1 & P2 & P3 & _).
  destruct (cells_of_children f l F) as (C1 & C2).
  apply newObject_inv; auto; rewrite P1, E; auto.
Qed.

Lemma RO_parse_once t : RO (parse_once hash t) t.
Proof.
  destruct (parse_once_ok hash t) as (E & A). split; auto. split; auto.
  destruct t; try exact I; destruct l as [|x l]; try reflexivity; try exact I.
  apply (oinv_object_of child_once (x :: l)). intros t. apply child_once_ok.
Qed.

Lemma RO_parse_lazy t : RO (parse_lazy t) t.
Proof.
  destruct (parse_lazy_ok t) as (E & A). split; auto. split; auto.
  destruct emptyP_spec as (WP & EP).
  destruct t; try exact I; destruct l as [|x l]; try reflexivity; try exact I.
  cbn [parse_lazy oinv]. rewrite EP. split; [exact WP|]. split.
  { intros j h k c Hj. destruct j; discriminate. }
  split; [reflexivity|]. split; [reflexivity|]. split; [discriminate|reflexivity].
Qed.

Lemma RO_checkRaw n t : RO n t ->
  fst (checkRaw hash n) = EOk /\ RO (snd (checkRaw hash n)) t /\ not_raw (snd (checkRaw hash n)).
Proof.
  intros (E & A & IO). destruct n; simpl in E; try discriminate; cbn [checkRaw fst snd not_raw];
    try (split; [reflexivity|split; [split; [reflexivity|split; [exact A|exact IO]]|exact I]]; fail).
  simpl in A. subst t. split; auto. destruct lock.
  - split; [apply RO_parse_once|]. destruct t0; simpl; auto; destruct l; simpl; auto.
  - split; [apply RO_parse_lazy|]. destruct t0; simpl; auto; destruct l; simpl; auto.
Qed.

(* skipAllKey: the remaining pairs are loaded as raw cells *)
Lemma skipAllKey_spec n : oinv hash n -> is_object n = true ->
  full_cells hash (skipAllKey hash n) = full_cells hash n /\ oinv hash (skipAllKey hash n) /\
  is_object (skipAllKey hash n) = true /\ not_lazy (skipAllKey hash n).
Proof.
  intros HI HO. destruct n; try discriminate.
  - cbn [oinv] in HI. destruct HI as (W & CO & AL & L & NE & IN).
    cbn [skipAllKey]. unfold decodeObject. destruct rest as [|kt rest]; [congruence|].
    change (map (fun kv => NewPair hash (fst kv) (child_of hash CSkip (snd kv))) (kt :: rest)) with (map (mkcell hash) (kt :: rest)).
    destruct (ppushall_props v (map (mkcell hash) (kt :: rest)) W IN) as (P1 & P2 & P3 & P4).
    destruct (newObject_inv hash (ppushall v (map (mkcell hash) (kt :: rest))) P2) as (N1 & N2 & N3); auto.
    + rewrite P1. apply cells_ok_app; auto. apply cells_ok_mkcell.
    + rewrite P1, forallb_app, AL. apply mkcell_live.
    + split; [rewrite N2, P1; reflexivity|]. split; [exact N1|]. split; [reflexivity|]. unfold newObject. exact I.
  - cbn [skipAllKey]. split; [reflexivity|]. split; [exact HI|]. split; [reflexivity|exact I].
Qed.

(* ---------- Set ---------- *)
Lemma set_push_spec n key val :
  oinv hash n -> is_object n = true -> not_lazy n -> key <> [] ->
  find_cell (full_cells hash n) key 0 = None -> exists_ val = true ->
  fst (set_push hash n key val) = OBoolErr false EOk /\
  RO (snd (set_push hash n key val)) (TObj (live_pabs (full_cells hash n) ++ [(key, abs val)])).
Proof.
  intros HI HO NL KE NF LV. destruct n; try discriminate; [contradiction|].
  assert (FRESH : forall l0, set_push hash (NObject l0 None) key val =
                            (OBoolErr false EOk, NObject 1 (Some (P_Push emptyP (NewPair hash key val)))) \/ l0 <> 0).
  { intros [|l0]; [left; reflexivity|right; discriminate]. }
  assert (EMPTY : RO (NObject 1 (Some (P_Push emptyP (NewPair hash key val)))) (TObj [(key, abs val)])).
  { destruct emptyP_spec as (WP & EP).
    assert (CO0 : cells_ok hash (to_list (pv emptyP))) by (rewrite EP; intros j h k c Hj; destruct j; discriminate).
    assert (L0 : 0 = length (filter pexists (to_list (pv emptyP)))) by (rewrite EP; reflexivity).
    assert (I0 : idx_inv hash emptyP) by (intros m Hm; discriminate).
    assert (NF0 : find_cell (to_list (pv emptyP)) key 0 = None) by (rewrite EP; reflexivity).
    destruct (push_inv hash hash_inj emptyP 0 key val WP CO0 L0 I0 NF0 LV) as (Q1 & Q2).
    split; [reflexivity|]. split; [|exact Q2].
      rewrite abs_object, Q1, EP. cbn [app]. rewrite live_pabs_cons. unfold pexists, NewPair. cbn [fst snd]. now rewrite LV. }
  destruct v as [v|].
  - cbn [oinv] in HI. destruct HI as (W & CO & LL & II). cbn [full_cells] in *.
    unfold set_push. cbn [len]. destruct (l =? 0) eqn:EL.
    + apply Nat.eqb_eq in EL.
      assert (Z : length (filter pexists (to_list (pv v))) = 0) by lia.
      replace (newObject emptyP) with (NObject 0 (Some emptyP)) by reflexivity.
      rewrite (live_zero_nil _ Z). cbn [app]. split; [reflexivity|exact EMPTY].
    + destruct (push_inv hash hash_inj v l key val W CO LL II NF LV) as (Q1 & Q2).
      split; [reflexivity|]. cbn [snd]. split; [reflexivity|]. split; [|exact Q2].
      rewrite abs_object, Q1, live_pabs_app. f_equal. f_equal.
      rewrite live_pabs_cons. unfold pexists, NewPair. cbn [fst snd]. now rewrite LV.
  - cbn [oinv] in HI. subst l. cbn [full_cells live_pabs filter map app].
    destruct (FRESH 0) as [F|F]; [|congruence]. rewrite F. split; [reflexivity|exact EMPTY].
Qed.

Lemma find_key_find_cell (l : list (pair node)) key :
  cells_ok hash l -> key <> [] ->
  find_key key (live_pabs l) = match find_cell l key 0 with
                               | Some i => match nth_error l i with Some (_, _, c) => Some (abs c) | None => None end
                               | None => None
                               end.
Proof.
  intros CO KE. pose proof (find_cell_members hash l key 0 CO KE) as FM.
  destruct (find_cell l key 0) as [i|]; auto.
  destruct FM as (h & c & N1 & _ & _ & N4 & _). rewrite Nat.sub_0_r in N1. now rewrite N1.
Qed.

Theorem op_set_refines n t key r tv :
  RO n t -> key <> [] ->
  fst (op_set hash key (mk_value hash (r, tv)) n) = fst (spec_apply (OpSet key (r, tv)) t) /\
  RO (snd (op_set hash key (mk_value hash (r, tv)) n)) (snd (spec_apply (OpSet key (r, tv)) t)).
Proof.
  intros HR KE. destruct (abs_mk_value hash (r, tv)) as (EV & AV). simpl in AV.
  set (val := mk_value hash (r, tv)) in *.
  unfold op_set. destruct (RO_checkRaw n t HR) as (EC & HR1 & NR).
  destruct (checkRaw hash n) as [e n1]. cbn [fst snd] in EC, HR1, NR. subst e. cbn [err_ok negb].
  destruct HR1 as (E1 & A1 & IO1).
  assert (OBJ : is_object n1 = true ->
     fst (let '(r0, n2) := skipKey hash n1 key in
          match r0 with
          | KPanic => (OBoolErr false EPanic, n2)
          | KNil => set_push hash n2 key val
          | KFound i => match child_at n2 i with
                        | Some c => if exists_ c then (OBoolErr true EOk, put_child n2 i val) else set_push hash n2 key val
                        | None => (OBoolErr false EPanic, n2)
                        end
          end) = fst (spec_apply (OpSet key (r, tv)) t) /\
     RO (snd (let '(r0, n2) := skipKey hash n1 key in
          match r0 with
          | KPanic => (OBoolErr false EPanic, n2)
          | KNil => set_push hash n2 key val
          | KFound i => match child_at n2 i with
                        | Some c => if exists_ c then (OBoolErr true EOk, put_child n2 i val) else set_push hash n2 key val
                        | None => (OBoolErr false EPanic, n2)
                        end
          end)) (snd (spec_apply (OpSet key (r, tv)) t))).
  { intros HO.
    destruct (skipKey_spec hash n1 key IO1 HO KE) as (S1 & S2 & S3 & S4 & S5 & S6).
    destruct (skipKey hash n1 key) as [r0 n2]. cbn [fst snd] in S1, S2, S3, S4, S5, S6.
    rewrite (abs_full_cells hash n1 HO) in A1. subst t. rewrite <- S1 in *.
    pose proof (oinv_cells_ok hash n2 S2) as CO.
    pose proof (find_cell_members hash (full_cells hash n2) key 0 CO KE) as FM.
    cbn [spec_apply]. rewrite (find_key_find_cell _ key CO KE).
    destruct (find_cell (full_cells hash n2) key 0) as [i|] eqn:EF.
    - destruct FM as (h & c & N1 & N2 & _ & N4 & N5 & _). rewrite Nat.sub_0_r in N1, N5.
      cbn [getres_of keyres_of] in S4. subst r0. specialize (S5 i eq_refl).
      rewrite (child_at_cells hash n2 i S2 S3 S5), N1, N2.
      destruct (put_child_cells hash n2 i h key c val S2 S3 S5 N1 N2 EV) as (Q1 & Q2 & Q3 & Q4).
      cbn [fst snd]. split; [reflexivity|]. split; [exact Q4|]. split; [|exact Q2].
      pose proof (N5 val EV) as XX. rewrite (abs_full_cells hash _ Q3), Q1. f_equal.
      etransitivity; [exact XX|]. now rewrite AV.
    - cbn [getres_of keyres_of] in S4. subst r0.
      destruct (set_push_spec n2 key val S2 S3 (S6 eq_refl) KE EF EV) as (Q1 & Q2).
      cbn [fst snd]. rewrite AV in Q2. rewrite Q1. split; [reflexivity|]. exact Q2. }
  destruct n1; simpl in E1; try discriminate; try contradiction; cbn [is_object] in OBJ.
  - (* null *) simpl in A1. subst t. cbn [spec_apply fst snd]. split; [reflexivity|].
    unfold NewObject.
    destruct (FromSlice_spec pzero [NewPair hash key val]) as (WF & TL).
    destruct (newObject_inv hash (mkPairs None (FromSlice pzero [NewPair hash key val]))) as (N1 & N2 & N3); cbn [pv index]; auto.
    + rewrite TL. intros j h k c Hj. destruct j as [|[|j]]; try discriminate. unfold NewPair in Hj. injection Hj as <- <- <-.
      split; auto. rewrite EV. discriminate.
    + rewrite TL. simpl. unfold pexists. simpl. now rewrite EV.
    + split; [reflexivity|]. split; [|exact N1].
      assert (HOB : is_object (newObject (mkPairs None (FromSlice pzero [NewPair hash key val]))) = true) by reflexivity.
      rewrite (abs_full_cells hash _ HOB), N2. cbn [pv]. rewrite TL. rewrite live_pabs_cons.
      unfold pexists, NewPair. cbn [fst snd]. rewrite EV, AV. reflexivity.
  - simpl in A1. subst t. cbn [spec_apply fst snd]. split; [reflexivity|]. split; [reflexivity|split; [reflexivity|exact I]].
  - simpl in A1. subst t. cbn [spec_apply fst snd]. split; [reflexivity|]. split; [reflexivity|split; [reflexivity|exact I]].
  - simpl in A1. subst t. cbn [spec_apply fst snd]. split; [reflexivity|]. split; [reflexivity|split; [reflexivity|exact I]].
  - simpl in A1. subst t. cbn [spec_apply fst snd]. split; [reflexivity|]. split; [reflexivity|split; [reflexivity|exact I]].
  - (* lazy array *) rewrite abs_array_lazy in A1. subst t. cbn [spec_apply fst snd]. split; [reflexivity|].
    split; [reflexivity|split; [apply abs_array_lazy|exact I]].
  - (* lazy object *) apply OBJ. reflexivity.
  - (* loaded array *) destruct v as [v|].
    + rewrite abs_array in A1. subst t. cbn [spec_apply fst snd]. split; [reflexivity|].
      split; [reflexivity|split; [apply abs_array|exact I]].
    + simpl in A1. subst t. cbn [spec_apply fst snd]. split; [reflexivity|]. split; [reflexivity|split; [reflexivity|exact I]].
  - (* loaded object *) apply OBJ. reflexivity.
Qed.

(* ---------- Unset ---------- *)
Lemma skipKey_not_lazy n key : not_lazy n -> snd (skipKey hash n key) = n.
Proof.
  destruct n; cbn [skipKey not_lazy]; try reflexivity; try contradiction.
  intros _. destruct v; [|reflexivity]. destruct (0 <? l); reflexivity.
Qed.

Theorem op_unset_refines n t key :
  RO n t -> key <> [] ->
  fst (op_unset hash key n) = fst (spec_apply (OpUnset key) t) /\
  RO (snd (op_unset hash key n)) (snd (spec_apply (OpUnset key) t)).
Proof.
  intros HR KE. unfold op_unset. destruct (RO_checkRaw n t HR) as (EC & HR1 & NR).
  destruct (checkRaw hash n) as [e n1]. cbn [fst snd] in EC, HR1, NR. subst e. cbn [err_ok negb].
  destruct HR1 as (E1 & A1 & IO1).
  destruct (is_object n1) eqn:HO; cbn [negb].
  2:{ (* not an object: unsupported type on both sides *)
      assert (SP : spec_apply (OpUnset key) t = (OBoolErr false EUnsupp, t)).
      { destruct n1; simpl in E1, HO; try discriminate; try contradiction; simpl in A1; subst t; try reflexivity;
          try (destruct v; reflexivity). }
      rewrite SP. cbn [fst snd]. split; [reflexivity|]. split; [exact E1|split; [exact A1|exact IO1]]. }
  destruct (skipAllKey_spec n1 IO1 HO) as (K1 & K2 & K3 & K4).
  set (n2 := skipAllKey hash n1) in *.
  destruct (skipKey_spec hash n2 key K2 K3 KE) as (S1 & S2 & S3 & S4 & S5 & S6).
  pose proof (skipKey_not_lazy n2 key K4) as SAME.
  destruct (skipKey hash n2 key) as [r0 n3]. cbn [fst snd] in S1, S2, S3, S4, S5, S6, SAME. subst n3.
  rewrite (abs_full_cells hash n1 HO) in A1. subst t. rewrite <- K1 in *.
  pose proof (oinv_cells_ok hash n2 K2) as CO.
  pose proof (find_cell_members hash (full_cells hash n2) key 0 CO KE) as FM.
  cbn [spec_apply]. rewrite (find_key_find_cell _ key CO KE).
  destruct (find_cell (full_cells hash n2) key 0) as [i|] eqn:EF.
  - destruct FM as (h & c & N1 & N2 & _ & _ & _ & N6). rewrite Nat.sub_0_r in N1, N6.
    cbn [getres_of keyres_of] in S4. subst r0. specialize (S5 i eq_refl).
    rewrite (child_at_cells hash n2 i K2 K3 S5), N1, N2.
    (* n2 is a loaded object with storage *)
    destruct n2 as [| | | | | | | | | | |l2 v2] eqn:EN2; try discriminate; try contradiction.
    destruct v2 as [v2|]; [|cbn [loaded_size] in S5; lia].
    cbn [oinv] in K2. destruct K2 as (W & CO2 & LL & II). cbn [full_cells] in N1, N6.
    destruct (remove_inv hash hash_inj v2 l2 i h key c W CO2 LL II N1 N2) as (Q1 & Q2 & Q3 & Q4).
    cbn [fst snd]. split; [reflexivity|]. split; [exact Q4|]. split; [|exact Q2].
    rewrite (abs_full_cells hash _ Q3), Q1. f_equal. exact N6.
  - cbn [getres_of keyres_of] in S4. subst r0. cbn [fst snd]. split; [reflexivity|].
    split; [|split; [|exact K2]].
    + destruct n2; simpl in K3; try discriminate; reflexivity.
    + apply (abs_full_cells hash n2 K3).
Qed.

End Ops.
