(* Ast/ArrayRefine.v - arrays: loading (all at once, one child at a time), logical indexing over soft-deleted cells,
   navigation by index and the root-level array operations commute with the abstraction. *)
From Coq Require Import List Arith Bool NArith Lia.
From SV.Ast Require Import Linked Tree LinkedProofs Node IndexProofs NodeRefine.
Import ListNotations.

Arguments Nat.div : simpl never.
Arguments Nat.modulo : simpl never.
Arguments Nat.ltb : simpl never.
Arguments Nat.leb : simpl never.
Arguments CAP : simpl never.

(* ---------- the i-th live cell ---------- *)
Fixpoint nth_live {A} (ex : A -> bool) (l : list A) (i j : nat) : option nat :=
  match l with
  | [] => None
  | x :: tl => if ex x then match i with O => Some j | S i' => nth_live ex tl i' (S j) end
               else nth_live ex tl i (S j)
  end.

Lemma skipn_cons_nth {A} (l : list A) i x : nth_error l i = Some x -> skipn i l = x :: skipn (S i) l.
Proof.
  revert i. induction l; intros; destruct i; simpl in *; try discriminate.
  - now inversion H.
  - now apply IHl.
Qed.

Lemma scan_live_spec {A} (ex : A -> bool) (s : linked A) i j fuel :
  wf s -> j + fuel = size s ->
  scan_live ex s i j fuel = nth_live ex (skipn j (to_list s)) i j.
Proof.
  intros W. revert i j. induction fuel; intros i j Hf; simpl.
  - rewrite skipn_all2; auto. rewrite (to_list_length _ W). lia.
  - replace (size s <=? j) with false by (symmetry; apply Nat.leb_gt; lia).
    rewrite (At_spec _ _ W).
    destruct (nth_error (to_list s) j) eqn:E.
    + rewrite (skipn_cons_nth _ _ _ E). simpl. destruct (ex a).
      * destruct i; auto. apply IHfuel. lia.
      * apply IHfuel. lia.
    + apply nth_error_None in E. rewrite (to_list_length _ W) in E. lia.
Qed.

Lemma nth_live_some {A} (ex : A -> bool) (l : list A) i j p :
  nth_live ex l i j = Some p ->
  j <= p /\ exists x, nth_error l (p - j) = Some x /\ ex x = true /\ nth_error (filter ex l) i = Some x.
Proof.
  revert i j. induction l as [|x l IH]; simpl; intros i j H; try discriminate.
  destruct (ex x) eqn:E.
  - destruct i.
    + inversion H; subst. split; auto. rewrite Nat.sub_diag. exists x. simpl. auto.
    + apply IH in H as (Hj & y & H1 & H2 & H3). split; [lia|]. exists y.
      replace (p - j) with (S (p - S j)) by lia. simpl. auto.
  - apply IH in H as (Hj & y & H1 & H2 & H3). split; [lia|]. exists y.
    replace (p - j) with (S (p - S j)) by lia. simpl. auto.
Qed.

Lemma nth_live_none {A} (ex : A -> bool) (l : list A) i j :
  nth_live ex l i j = None -> length (filter ex l) <= i.
Proof.
  revert i j. induction l as [|x l IH]; simpl; intros i j H; [lia|].
  destruct (ex x) eqn:E.
  - destruct i; [discriminate|]. apply IH in H. simpl. lia.
  - eauto.
Qed.

Lemma nth_live_all {A} (ex : A -> bool) (l : list A) i j :
  forallb ex l = true -> nth_live ex l i j = if i <? length l then Some (j + i) else None.
Proof.
  revert i j. induction l as [|x l IH]; simpl; intros i j H.
  - reflexivity.
  - apply andb_true_iff in H as (H1 & H2). rewrite H1. destruct i.
    + replace (0 <? S (length l)) with true by (symmetry; apply Nat.ltb_lt; lia). f_equal. lia.
    + rewrite IH by auto. replace (S i <? S (length l)) with (i <? length l).
      * destruct (i <? length l); auto. f_equal. lia.
      * destruct (i <? length l) eqn:E; symmetry.
        -- apply Nat.ltb_lt in E. apply Nat.ltb_lt. lia.
        -- apply Nat.ltb_ge in E. apply Nat.ltb_ge. lia.
Qed.

Lemma filter_all {A} (ex : A -> bool) l : forallb ex l = true -> filter ex l = l.
Proof. induction l; simpl; auto. intros H. apply andb_true_iff in H as (H1 & H2). rewrite H1. f_equal; auto. Qed.

Lemma filter_length_le' {A} (ex : A -> bool) l : length (filter ex l) <= length l.
Proof. induction l; simpl; auto. destruct (ex a); simpl; lia. Qed.

Lemma filter_length_all {A} (ex : A -> bool) l : length (filter ex l) = length l -> forallb ex l = true.
Proof.
  induction l; simpl; auto. destruct (ex a); simpl; intros.
  - apply IHl. lia.
  - pose proof (filter_length_le' ex l). lia.
Qed.

(* ---------- invariants of the root container (arrays) ---------- *)
Definition arr_inv (n : node) : Prop :=
  match n with
  | NArray l (Some v) => wf v /\ l = length (filter exists_ (to_list v))
  | NArray l None => l = 0
  | NArrayLazy l v rest => wf v /\ l = size v /\ forallb exists_ (to_list v) = true /\ rest <> []
  | _ => True
  end.

Definition children (n : node) : list tree :=
  match abs n with TArr l => l | _ => [] end.

Section WithHash.
Variable hash : bytes -> N.

Lemma child_of_ok m t : exists_ (child_of hash m t) = true /\ abs (child_of hash m t) = t.
Proof. destruct m; simpl; auto. apply child_once_ok. apply parse_full_ok. Qed.

Lemma forallb_app {A} (f : A -> bool) a b : forallb f (a ++ b) = forallb f a && forallb f b.
Proof. induction a; simpl; auto. now rewrite IHa, andb_assoc. Qed.

Lemma decodeArray_abs m v rest : wf v -> forallb exists_ (to_list v) = true -> rest <> [] ->
  abs (decodeArray hash m v rest) = TArr (live_abs (to_list v) ++ rest) /\ arr_inv (decodeArray hash m v rest).
Proof.
  intros W AL NE. unfold decodeArray. destruct rest as [|t rest]; [congruence|].
  set (r := t :: rest) in *.
  destruct (pushall_spec v (map (child_of hash m) r) W) as (P1 & P2 & P3).
  destruct (map_abs_id (child_of hash m) r) as (A1 & A2).
  { apply Forall_forall. intros. apply child_of_ok. }
  split.
  - rewrite abs_newArray, P1, live_abs_app. f_equal. f_equal. now rewrite live_abs_all.
  - unfold newArray, arr_inv. split; auto. rewrite <- (to_list_length _ P2). rewrite P1.
    rewrite filter_all; auto. rewrite forallb_app, AL, A1. reflexivity.
Qed.

Theorem abs_skipAllIndex n : arr_inv n -> abs (skipAllIndex hash n) = abs n /\ arr_inv (skipAllIndex hash n).
Proof.
  destruct n; simpl; auto. intros (W & L & AL & NE).
  destruct (decodeArray_abs CSkip v rest W AL NE) as (A & I). rewrite A. split; auto.
  now rewrite to_list_lmap, live_abs_eq.
Qed.

Theorem abs_loadAllIndex once n : arr_inv n -> abs (loadAllIndex hash once n) = abs n /\ arr_inv (loadAllIndex hash once n).
Proof.
  destruct n; simpl; auto. intros (W & L & AL & NE).
  destruct (decodeArray_abs (if once then COnce else CFull) v rest W AL NE) as (A & I). rewrite A. split; auto.
  now rewrite to_list_lmap, live_abs_eq.
Qed.

(* one child at a time: skipIndex's loop *)
Lemma skip_index_loop_spec index l v rest :
  wf v -> l = size v -> forallb exists_ (to_list v) = true -> size v <= index ->
  let r := skip_index_loop index l v rest in
  abs (snd r) = TArr (live_abs (to_list v) ++ rest) /\ arr_inv (snd r) /\
  (index < size v + length rest ->
     exists j c, fst r = Some j /\ child_at (snd r) j = Some c /\ exists_ c = true /\
                 nth_error (live_abs (to_list v) ++ rest) (Nat.max index (size v)) = Some (abs c)) /\
  (size v + length rest <= index -> fst r = None).
Proof.
  revert l v. induction rest as [|t rest IH]; intros l v W L AL GE; cbn [skip_index_loop].
  - simpl. rewrite app_nil_r. split; [now rewrite to_list_lmap, live_abs_eq|]. split.
    + split; auto. rewrite filter_all by auto. now rewrite (to_list_length _ W).
    + split; intros; auto. lia.
  - destruct (Push_spec NNone v (NRaw false t) W) as (P1 & P2 & P3). fold (NPush v (NRaw false t)) in P1, P2, P3.
    set (v' := NPush v (NRaw false t)) in *.
    assert (AL' : forallb exists_ (to_list v') = true) by (rewrite P1, forallb_app, AL; reflexivity).
    assert (LA : live_abs (to_list v') = live_abs (to_list v) ++ [t]) by (rewrite P1, live_abs_app; reflexivity).
    assert (Hlast : child_at (setArray v') (size v' - 1) = Some (NRaw false t)).
    { simpl. rewrite (At_spec _ _ P2), P1, P3. replace (S (size v) - 1) with (length (to_list v)) by (rewrite (to_list_length _ W); lia).
      rewrite nth_error_app2, Nat.sub_diag by lia. reflexivity. }
    destruct rest as [|t2 rest].
    + cbn [snd fst]. split; [|split; [|split]].
      * simpl. rewrite to_list_lmap, live_abs_eq, LA. reflexivity.
      * split; auto. rewrite filter_all by auto. now rewrite (to_list_length _ P2).
      * intros Hi. simpl in Hi. replace (index <? size v') with true by (symmetry; apply Nat.ltb_lt; lia).
        exists (size v' - 1), (NRaw false t). repeat split; auto.
        assert (index <= size v) by lia. rewrite Nat.max_r by lia.
        rewrite nth_error_app2; rewrite live_abs_all, map_length, (to_list_length _ W) by auto; [|lia].
        rewrite Nat.sub_diag. reflexivity.
      * intros Hi. simpl in Hi. replace (index <? size v') with false by (symmetry; apply Nat.ltb_ge; lia). reflexivity.
    + destruct (index <? S l) eqn:EI.
      * apply Nat.ltb_lt in EI. cbn [snd fst]. split; [|split; [|split]].
        -- rewrite abs_array_lazy, LA, <- app_assoc. reflexivity.
        -- simpl. split; [exact P2|split; [lia|split; [exact AL'|discriminate]]].
        -- intros _. exists (size v' - 1), (NRaw false t). split; auto. split.
           { simpl. simpl in Hlast. exact Hlast. }
           split; auto. assert (index <= size v) by lia. rewrite Nat.max_r by lia.
           rewrite nth_error_app2; rewrite live_abs_all, map_length, (to_list_length _ W) by auto; [|lia].
           rewrite Nat.sub_diag. reflexivity.
        -- intros Hi. simpl in Hi. lia.
      * apply Nat.ltb_ge in EI.
        destruct (IH (S l) v' P2 ltac:(lia) AL' ltac:(lia)) as (I1 & I2 & I3 & I4).
        cbn zeta in *. split; [|split; [|split]].
        -- rewrite I1, LA, <- app_assoc. reflexivity.
        -- exact I2.
        -- intros Hi. destruct I3 as (j & c & J1 & J2 & J3 & J4).
           { rewrite P3. simpl in *. lia. }
           exists j, c. repeat split; auto.
           rewrite LA, <- app_assoc in J4. simpl in J4. rewrite P3 in J4.
           replace (Nat.max index (size v)) with (Nat.max index (S (size v))) by lia. exact J4.
        -- intros Hi. apply I4. rewrite P3. simpl in *. lia.
Qed.

End WithHash.
