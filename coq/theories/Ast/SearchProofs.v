(* Ast/SearchProofs.v - C14 theorems about the token-level search model. *)
From Coq Require Import List Arith Bool NArith Lia.
From SV.Ast Require Import Tree Search.
Import ListNotations.

Lemma beq_refl a : bytes_eqb a a = true.
Proof. induction a; simpl; auto. now rewrite N.eqb_refl. Qed.

Lemma beq_app_same buf a b : bytes_eqb (buf ++ a) (buf ++ b) = bytes_eqb a b.
Proof. induction buf; simpl; auto. now rewrite N.eqb_refl. Qed.

(* strip_prefix buf kp = Some kp2  iff  kp = buf ++ kp2 *)
Lemma strip_prefix_some buf kp kp2 : strip_prefix buf kp = Some kp2 -> kp = buf ++ kp2.
Proof.
  revert kp. induction buf as [|e buf IH]; simpl; intros kp H.
  - now inversion H.
  - destruct kp as [|k kp]; try discriminate. destruct (N.eqb k e) eqn:E; try discriminate.
    apply N.eqb_eq in E. subst. f_equal. auto.
Qed.

Lemma strip_prefix_none buf kp r : buf <> [] -> strip_prefix buf kp = None -> bytes_eqb (buf ++ r) kp = false.
Proof.
  revert kp. induction buf as [|e buf IH]; simpl; intros kp NE H; [congruence|].
  destruct kp as [|k kp]; auto.
  destruct (N.eqb k e) eqn:E.
  - apply N.eqb_eq in E. subst. rewrite N.eqb_refl. simpl.
    destruct buf as [|e2 buf].
    + simpl in H. discriminate.
    + apply IH; auto. discriminate.
  - rewrite N.eqb_sym, E. reflexivity.
Qed.

Lemma utf8_encode_nonempty r : utf8_encode r <> [].
Proof. unfold utf8_encode. destruct (N.leb r 127), (N.leb r 2047), (N.leb r 65535); discriminate. Qed.

(* one escape decodes to at least one byte and consumes at least two *)
Lemma unescape1_props s buf rest : unescape1 s = Some (buf, rest) -> buf <> [] /\ (length rest + 2 <= length s)%nat.
Proof.
  unfold unescape1. destruct s as [|b0 s]; try discriminate.
  destruct (N.eq_dec b0 92) as [->|NE].
  2:{ destruct b0 as [|p]; try discriminate.
      repeat (destruct p as [p|p|]; try discriminate); congruence. }
  destruct s as [|c s]; try discriminate.
  destruct (simple_escape c).
  { intros H; inversion H; subst. split; [discriminate|simpl; lia]. }
  destruct (N.eqb c 117); try discriminate.
  destruct s as [|a [|b [|c1 [|d rest1]]]]; try discriminate.
  destruct (hex4 a b c1 d) as [r0|]; try discriminate.
  destruct ((r0 <? 55296)%N || (57343 <? r0)%N).
  { intros H; inversion H; subst. split; [apply utf8_encode_nonempty|simpl; lia]. }
  destruct (56319 <? r0)%N; try discriminate.
  destruct rest1 as [|x1 rest1]; try discriminate.
  destruct (N.eq_dec x1 92) as [->|NE1].
  2:{ destruct x1 as [|p]; try discriminate. repeat (destruct p as [p|p|]; try discriminate); congruence. }
  destruct rest1 as [|x2 rest1]; try discriminate.
  destruct (N.eq_dec x2 117) as [->|NE2].
  2:{ destruct x2 as [|p]; try discriminate. repeat (destruct p as [p|p|]; try discriminate); congruence. }
  destruct rest1 as [|a2 [|b2 [|c2 [|d2 rest2]]]]; try discriminate.
  destruct (hex4 a2 b2 c2 d2) as [r1|]; try discriminate.
  destruct ((56320 <=? r1)%N && (r1 <=? 57343)%N); try discriminate.
  intros H; inversion H; subst. split; [apply utf8_encode_nonempty|simpl; lia].
Qed.

(* the escape-by-escape comparison of match_key is the comparison with the decoded name *)
Lemma match_loop_spec f : forall sp d, unescape_all f sp = Some d ->
  forall fuel kp, (length sp < fuel)%nat -> match_loop fuel sp kp = Some (bytes_eqb d kp).
Proof.
  induction f as [|f IH]; intros sp d H fuel kp Hf.
  - simpl in H. destruct sp; try discriminate. inversion H; subst.
    destruct fuel; [lia|]. simpl. destruct kp; reflexivity.
  - destruct fuel as [|fuel]; [lia|].
    destruct sp as [|c sp'].
    + simpl in H. inversion H; subst. simpl. destruct kp; reflexivity.
    + cbn [unescape_all] in H. cbn [match_loop].
      destruct (N.eqb c 92) eqn:EC.
      * destruct (unescape1 (c :: sp')) as [[buf sp2]|] eqn:EU; try discriminate.
        destruct (unescape_all f sp2) as [r|] eqn:ER; try discriminate. inversion H; subst d.
        destruct (unescape1_props _ _ _ EU) as (NE & LEN).
        destruct kp as [|k kp'].
        -- destruct buf; [congruence|]. reflexivity.
        -- destruct (strip_prefix buf (k :: kp')) as [kp2|] eqn:ES.
           ++ rewrite (IH sp2 r ER fuel kp2) by (simpl in *; lia).
              apply strip_prefix_some in ES. rewrite ES. now rewrite beq_app_same.
           ++ now rewrite (strip_prefix_none _ _ r NE ES).
      * destruct (unescape_all f sp') as [r|] eqn:ER; try discriminate. inversion H; subst d.
        destruct kp as [|k kp']; [reflexivity|].
        simpl. destruct (N.eqb c k) eqn:EK.
        -- apply (IH sp' r ER). simpl in Hf. lia.
        -- reflexivity.
Qed.

Lemma unescape_no_backslash f s : has_backslash s = false -> (length s <= f)%nat -> unescape_all f s = Some s.
Proof.
  revert s. induction f; intros s H L.
  - destruct s; simpl in *; [reflexivity|lia].
  - destruct s as [|c s]; [reflexivity|]. simpl in *. apply orb_false_iff in H as (H1 & H2).
    rewrite H1. rewrite IHf; auto. lia.
Qed.

Theorem match_key_spec raw key d :
  unescape raw = Some d -> match_key raw key = Some (bytes_eqb d key).
Proof.
  unfold unescape, match_key. intros H. destruct (has_backslash raw) eqn:E.
  - apply (match_loop_spec _ _ _ H). lia.
  - rewrite unescape_no_backslash in H by auto. inversion H; subst. reflexivity.
Qed.

(* ---------- skipping ---------- *)
Fixpoint elems_toks (l : list tree) : list tok :=
  match l with
  | [] => [KRBrack]
  | [x] => tokens_of x ++ [KRBrack]
  | x :: tl => tokens_of x ++ KComma :: elems_toks tl
  end.

Fixpoint members_toks (l : list (bytes * tree)) : list tok :=
  match l with
  | [] => [KRBrace]
  | [(k, x)] => KStr k :: KColon :: tokens_of x ++ [KRBrace]
  | (k, x) :: tl => KStr k :: KColon :: tokens_of x ++ KComma :: members_toks tl
  end.

Lemma tokens_arr l : tokens_of (TArr l) = KLBrack :: elems_toks l.
Proof. reflexivity. Qed.

Lemma tokens_obj l : tokens_of (TObj l) = KLBrace :: members_toks l.
Proof. reflexivity. Qed.

(* what a closing bracket of kind c does to a counter of kind b at depth d *)
Definition close_at (c b : bkind) (d : nat) (rest : list tok) : option (list tok) :=
  match c, b with
  | BObj, BObj | BArr, BArr =>
    match d with 1%nat => Some rest | O => None | S d' => skip_container b d' rest end
  | _, _ => skip_container b d rest
  end.

Definition balanced (x : tree) : Prop :=
  forall b d rest, (1 <= d)%nat -> skip_container b d (tokens_of x ++ rest) = skip_container b d rest.

Section TreeInd.
Variable P : tree -> Prop.
Hypothesis Hnull : P TNull.
Hypothesis Htrue : P TTrue.
Hypothesis Hfalse : P TFalse.
Hypothesis Hnum : forall s, P (TNum s).
Hypothesis Hstr : forall s, P (TStr s).
Hypothesis Harr : forall l, Forall P l -> P (TArr l).
Hypothesis Hobj : forall l, Forall (fun kv => P (snd kv)) l -> P (TObj l).
Fixpoint tree_ind2 (t : tree) : P t :=
  match t with
  | TNull => Hnull | TTrue => Htrue | TFalse => Hfalse
  | TNum s => Hnum s | TStr s => Hstr s
  | TArr l => Harr l ((fix go (l : list tree) : Forall P l :=
                         match l with [] => Forall_nil _ | x :: tl => Forall_cons _ (tree_ind2 x) (go tl) end) l)
  | TObj l => Hobj l ((fix go (l : list (bytes * tree)) : Forall (fun kv => P (snd kv)) l :=
                         match l with [] => Forall_nil _ | x :: tl => Forall_cons _ (tree_ind2 (snd x)) (go tl) end) l)
  end.
End TreeInd.

Lemma skip_elems l b d rest : Forall balanced l -> (1 <= d)%nat ->
  skip_container b d (elems_toks l ++ rest) = close_at BArr b d rest.
Proof.
  intros F D. induction F as [|x l Hx Hl IH].
  - simpl. destruct b; simpl; auto.
  - destruct l as [|y tl].
    + simpl. rewrite <- app_assoc. rewrite Hx by auto. simpl. destruct b; simpl; auto.
    + change (elems_toks (x :: y :: tl)) with (tokens_of x ++ KComma :: elems_toks (y :: tl)).
      rewrite <- app_assoc. rewrite Hx by auto. simpl. destruct b; simpl; apply IH.
Qed.

Lemma skip_members l b d rest : Forall (fun kv => balanced (snd kv)) l -> (1 <= d)%nat ->
  skip_container b d (members_toks l ++ rest) = close_at BObj b d rest.
Proof.
  intros F D. induction F as [|[k x] l Hx Hl IH].
  - simpl. destruct b; simpl; auto.
  - simpl in Hx. destruct l as [|[k2 y] tl].
    + simpl. rewrite <- app_assoc. destruct b; simpl; rewrite Hx by auto; simpl; auto.
    + change (members_toks ((k, x) :: (k2, y) :: tl)) with (KStr k :: KColon :: tokens_of x ++ KComma :: members_toks ((k2, y) :: tl)).
      simpl. rewrite <- app_assoc. destruct b; simpl; rewrite Hx by auto; simpl; apply IH.
Qed.

(* the tokens of a value never change the depth of either bracket counter *)
Lemma all_balanced t : balanced t.
Proof.
  induction t using tree_ind2; intros b d rest D; try (destruct b; reflexivity).
  - rewrite tokens_arr. destruct b; simpl.
    + rewrite (skip_elems l BObj d rest H D). reflexivity.
    + rewrite (skip_elems l BArr (S d) rest H ltac:(lia)). simpl. destruct d; [lia|reflexivity].
  - rewrite tokens_obj. destruct b; simpl.
    + rewrite (skip_members l BObj (S d) rest H ltac:(lia)). simpl. destruct d; [lia|reflexivity].
    + rewrite (skip_members l BArr d rest H D). reflexivity.
Qed.

(* skip_one_fast consumes exactly one value, whatever follows *)
Theorem skip1_spec t rest : skip1 (tokens_of t ++ rest) = Some rest.
Proof.
  destruct t; try reflexivity.
  - rewrite tokens_arr. simpl.
    rewrite (skip_elems l BArr 1 rest); auto.
    apply Forall_forall. intros. apply all_balanced.
  - rewrite tokens_obj. simpl.
    rewrite (skip_members l BObj 1 rest); auto.
    apply Forall_forall. intros. apply all_balanced.
Qed.

(* ---------- the validating skipper on well-formed streams ---------- *)
Definition strict_ok (x : tree) : Prop :=
  forall fuel rest, (length (tokens_of x) < fuel)%nat -> skip_strict fuel MValue (tokens_of x ++ rest) = Some rest.

Lemma vstart_head t : exists h r, tokens_of t = h :: r /\ match h with KRBrack | KRBrace | KComma | KColon => False | _ => True end.
Proof. destruct t; simpl; do 2 eexists; (split; [reflexivity|exact I]). Qed.

Lemma strict_elems l : Forall strict_ok l -> l <> [] ->
  forall fuel rest, (length (elems_toks l) < fuel)%nat -> skip_strict fuel MElems (elems_toks l ++ rest) = Some rest.
Proof.
  induction 1 as [|x l Hx Hl IH]; intros NE fuel rest HF; [congruence|].
  destruct fuel as [|f]; [lia|].
  destruct l as [|y tl].
  - simpl in *. rewrite <- app_assoc. rewrite app_length in HF. simpl in HF.
    rewrite Hx by lia. reflexivity.
  - change (elems_toks (x :: y :: tl)) with (tokens_of x ++ KComma :: elems_toks (y :: tl)) in *.
    rewrite app_length in HF. cbn [length] in HF.
    cbn [skip_strict]. rewrite <- app_assoc. rewrite Hx by lia. cbn [app].
    apply IH; [discriminate|lia].
Qed.

Lemma strict_members l : Forall (fun kv => strict_ok (snd kv)) l -> l <> [] ->
  forall fuel rest, (length (members_toks l) < fuel)%nat -> skip_strict fuel MMembers (members_toks l ++ rest) = Some rest.
Proof.
  induction 1 as [|[k x] l Hx Hl IH]; intros NE fuel rest HF; [congruence|].
  destruct fuel as [|f]; [lia|]. simpl in Hx.
  destruct l as [|[k2 y] tl].
  - simpl in *. rewrite <- app_assoc. rewrite app_length in HF. simpl in HF.
    rewrite Hx by lia. reflexivity.
  - change (members_toks ((k, x) :: (k2, y) :: tl)) with (KStr k :: KColon :: tokens_of x ++ KComma :: members_toks ((k2, y) :: tl)) in *.
    cbn [length] in HF. rewrite app_length in HF. cbn [length] in HF.
    cbn [skip_strict app]. rewrite <- app_assoc. rewrite Hx by lia. cbn [app].
    apply IH; [discriminate|lia].
Qed.

Lemma all_strict t : strict_ok t.
Proof.
  induction t using tree_ind2; intros fuel rest HF; (destruct fuel as [|f]; [simpl in HF; lia|]); try reflexivity.
  - rewrite tokens_arr in *. destruct l as [|x tl]; [reflexivity|].
    destruct (vstart_head x) as (h & r & EH & VS).
    assert (E2 : exists r2, elems_toks (x :: tl) ++ rest = h :: r2).
    { destruct tl as [|y tl2].
      - simpl. rewrite EH. simpl. eauto.
      - change (elems_toks (x :: y :: tl2)) with (tokens_of x ++ KComma :: elems_toks (y :: tl2)). rewrite EH. simpl. eauto. }
    destruct E2 as (r2 & E2).
    assert (HS : skip_strict (S f) MValue (KLBrack :: elems_toks (x :: tl) ++ rest) = skip_strict f MElems (elems_toks (x :: tl) ++ rest)).
    { rewrite E2. cbn [skip_strict]. destruct h; try contradiction; reflexivity. }
    cbn [app]. rewrite HS. apply strict_elems; auto; [discriminate|]. cbn [length] in HF. lia.
  - rewrite tokens_obj in *. destruct l as [|[k x] tl]; [reflexivity|].
    assert (E2 : exists r2, members_toks ((k, x) :: tl) ++ rest = KStr k :: r2).
    { destruct tl as [|[k2 y] tl2]; simpl; eauto. }
    destruct E2 as (r2 & E2).
    assert (HS : skip_strict (S f) MValue (KLBrace :: members_toks ((k, x) :: tl) ++ rest) = skip_strict f MMembers (members_toks ((k, x) :: tl) ++ rest)).
    { rewrite E2. reflexivity. }
    cbn [app]. rewrite HS. apply strict_members; auto; [discriminate|]. cbn [length] in HF. lia.
Qed.

(* skip_one_1 (ValidateJSON) consumes exactly one value of a well-formed stream, like the fast skipper *)
Theorem skip_strict_spec t rest : skip_strict (S (length (tokens_of t ++ rest))) MValue (tokens_of t ++ rest) = Some rest.
Proof. apply all_strict. rewrite app_length. lia. Qed.


(* ---------- search_spec ---------- *)
Fixpoint keys_ok (t : tree) : bool :=
  match t with
  | TArr l => forallb keys_ok l
  | TObj l => forallb (fun kv => match unescape (fst kv) with Some _ => keys_ok (snd kv) | None => false end) l
  | _ => true
  end.

Definition vstart (t : tok) : bool :=
  match t with KLBrace | KLBrack | KStr _ | KNum _ | KTrue | KFalse | KNull => true | _ => false end.

Lemma tokens_head t : exists h r, tokens_of t = h :: r /\ vstart h = true.
Proof. destruct t; simpl; eauto. Qed.

Lemma tokens_nonempty t : (1 <= length (tokens_of t))%nat.
Proof. destruct (tokens_head t) as (h & r & E & _). rewrite E. simpl. lia. Qed.

Lemma found_value v r : firstn (length (tokens_of v ++ r) - length r) (tokens_of v ++ r) = tokens_of v.
Proof.
  rewrite app_length. replace (length (tokens_of v) + length r - length r)%nat with (length (tokens_of v)) by lia.
  rewrite firstn_app, Nat.sub_diag, firstn_all. simpl. apply app_nil_r.
Qed.

Definition spec_res (ps : path) (t : tree) (r : sres) : Prop :=
  match navigate ps t with
  | NVal v => exists rest', r = SFound (tokens_of v) rest'
  | NNotFound => r = SNotFound
  | NInval => r = SInval
  end.

Definition measure (toks : list tok) (ps : path) : nat := 2 * length toks + 2 * length ps.

Lemma search_spec_gen (validate : bool) : forall ps t rest fuel,
  keys_ok t = true ->
  (measure (tokens_of t ++ rest) ps + 1 < fuel)%nat ->
  spec_res ps t (gbp fuel validate GQuery (tokens_of t ++ rest) ps).
Proof.
  induction ps as [|s ps IH]; intros t rest fuel KO HF.
  - unfold spec_res. simpl. destruct fuel; [lia|]. cbn [gbp]. destruct validate.
    + rewrite skip_strict_spec. eexists. rewrite found_value. reflexivity.
    + rewrite skip1_spec. eexists. rewrite found_value. reflexivity.
  - destruct fuel as [|f]; [unfold measure in HF; lia|].
    destruct s as [k|i].
    + (* key *)
      destruct t; try (unfold spec_res; reflexivity).
      rewrite tokens_obj. cbn [gbp app].
      assert (OBJ : forall l0 rest0 f0, forallb (fun kv => match unescape (fst kv) with Some _ => keys_ok (snd kv) | None => false end) l0 = true ->
                 (measure (members_toks l0 ++ rest0) (SKey k :: ps) < f0)%nat ->
                 match find_member k l0 with
                 | Some v => spec_res ps v (gbp f0 validate (GObj k) (members_toks l0 ++ rest0) (SKey k :: ps))
                 | None => gbp f0 validate (GObj k) (members_toks l0 ++ rest0) (SKey k :: ps) = SNotFound
                 end).
      { induction l0 as [|[raw x] tl IHl]; intros rest0 f0 KO0 HF0.
        - simpl. destruct f0; [unfold measure in HF0; simpl in HF0; lia|]. reflexivity.
        - simpl in KO0. apply andb_true_iff in KO0 as (K1 & K2).
          destruct (unescape raw) as [d|] eqn:EU; try discriminate.
          destruct f0 as [|f1]; [unfold measure in HF0; lia|].
          assert (TOK : exists more, members_toks ((raw, x) :: tl) ++ rest0 = KStr raw :: KColon :: tokens_of x ++ more /\
                                     ((tl = [] /\ more = KRBrace :: rest0) \/ (tl <> [] /\ more = KComma :: members_toks tl ++ rest0))).
          { destruct tl as [|[k2 y] tl2].
            - exists (KRBrace :: rest0). simpl. rewrite <- app_assoc. split; auto.
            - exists (KComma :: members_toks ((k2, y) :: tl2) ++ rest0).
              change (members_toks ((raw, x) :: (k2, y) :: tl2)) with (KStr raw :: KColon :: tokens_of x ++ KComma :: members_toks ((k2, y) :: tl2)).
              simpl. rewrite <- app_assoc. split; auto. right. split; auto. discriminate. }
          destruct TOK as (more & ET & CASES). rewrite ET.
          cbn [gbp]. rewrite (match_key_spec raw k d EU). cbn [find_member]. rewrite EU.
          unfold measure in HF0. rewrite ET in HF0. simpl in HF0. rewrite app_length in HF0.
          destruct (bytes_eqb d k).
          + cbn [List.tl]. apply IH; auto. unfold measure. rewrite app_length. simpl in *. lia.
          + rewrite skip1_spec.
            destruct CASES as [(-> & ->)|(NE & ->)].
            * simpl. reflexivity.
            * specialize (IHl rest0 f1 K2). simpl in HF0.
              apply IHl. unfold measure. simpl. lia. }
      specialize (OBJ l rest f KO).
      unfold spec_res. cbn [navigate].
      destruct (find_member k l) as [v|] eqn:EF.
      * apply OBJ. unfold measure in *. rewrite tokens_obj in HF. simpl in *. lia.
      * apply OBJ. unfold measure in *. rewrite tokens_obj in HF. simpl in *. lia.
    + (* index *)
      destruct t; try (unfold spec_res; reflexivity).
      rewrite tokens_arr. unfold spec_res. cbn [navigate].
      destruct l as [|x0 tl0].
      { simpl. destruct i; reflexivity. }
      assert (ARR : forall i0 x l0 rest0 f0, forallb keys_ok (x :: l0) = true ->
                 (measure (elems_toks (x :: l0) ++ rest0) (SIdx i :: ps) < f0)%nat ->
                 match nth_error (x :: l0) i0 with
                 | Some v => spec_res ps v (gbp f0 validate (GArr i0) (elems_toks (x :: l0) ++ rest0) (SIdx i :: ps))
                 | None => gbp f0 validate (GArr i0) (elems_toks (x :: l0) ++ rest0) (SIdx i :: ps) = SNotFound
                 end).
      { induction i0 as [|i1 IHi]; intros x l0 rest0 f0 KO0 HF0.
        - simpl in KO0. apply andb_true_iff in KO0 as (K1 & K2).
          destruct f0 as [|f1]; [unfold measure in HF0; lia|].
          cbn [nth_error gbp List.tl].
          assert (ET : exists more, elems_toks (x :: l0) ++ rest0 = tokens_of x ++ more).
          { destruct l0 as [|y tl2].
            - exists (KRBrack :: rest0). simpl. now rewrite <- app_assoc.
            - exists (KComma :: elems_toks (y :: tl2) ++ rest0).
              change (elems_toks (x :: y :: tl2)) with (tokens_of x ++ KComma :: elems_toks (y :: tl2)). now rewrite <- app_assoc. }
          destruct ET as (more & ET). rewrite ET. apply IH; auto.
          unfold measure in *. rewrite ET in HF0. simpl in *. lia.
        - simpl in KO0. apply andb_true_iff in KO0 as (K1 & K2).
          destruct f0 as [|f1]; [unfold measure in HF0; lia|].
          cbn [gbp].
          destruct l0 as [|y tl2].
          + simpl. rewrite <- app_assoc. rewrite skip1_spec. simpl. destruct i1; reflexivity.
          + change (elems_toks (x :: y :: tl2)) with (tokens_of x ++ KComma :: elems_toks (y :: tl2)).
            rewrite <- app_assoc. rewrite skip1_spec. cbn [app nth_error].
            apply IHi; auto.
            unfold measure in *.
            change (elems_toks (x :: y :: tl2)) with (tokens_of x ++ KComma :: elems_toks (y :: tl2)) in HF0.
            rewrite <- app_assoc in HF0. rewrite app_length in HF0. simpl in *. lia. }
      specialize (ARR i x0 tl0 rest f KO).
      (* the empty-array test of GQuery does not fire: the first element starts with a value token *)
      assert (HQ : gbp (S f) validate GQuery (KLBrack :: elems_toks (x0 :: tl0) ++ rest) (SIdx i :: ps) =
                   gbp f validate (GArr i) (elems_toks (x0 :: tl0) ++ rest) (SIdx i :: ps)).
      { destruct (tokens_head x0) as (h & r & EH & VS).
        assert (E2 : exists r2, elems_toks (x0 :: tl0) ++ rest = h :: r2).
        { destruct tl0 as [|y tl2].
          - simpl. rewrite EH. simpl. eauto.
          - change (elems_toks (x0 :: y :: tl2)) with (tokens_of x0 ++ KComma :: elems_toks (y :: tl2)). rewrite EH. simpl. eauto. }
        destruct E2 as (r2 & E2). rewrite E2. cbn [gbp]. destruct h; try discriminate; reflexivity. }
      cbn [app]. rewrite HQ.
      destruct (nth_error (x0 :: tl0) i) as [v|] eqn:EN.
      * apply ARR. unfold measure in *. rewrite tokens_arr in HF. simpl in *. lia.
      * apply ARR. unfold measure in *. rewrite tokens_arr in HF. simpl in *. lia.
Qed.

(* search_spec: for every document tree whose member names have well-formed escapes, every path and everything that may follow
   the document, the native search (without validation) returns exactly the value the plain navigation addresses - first
   occurrence of a key -, "not found" exactly when a key or an index is missing, and a syntax error exactly when a step
   meets the wrong kind of value *)
Theorem search_spec : forall validate ps t rest,
  keys_ok t = true -> spec_res ps t (get_by_path validate (tokens_of t ++ rest) ps).
Proof.
  intros. unfold get_by_path. apply search_spec_gen; auto. unfold measure. lia.
Qed.

(* ---------- preorder_spec ---------- *)
Fixpoint flat_list (l : list tree) : option (list pev) :=
  match l with
  | [] => Some []
  | x :: tl => match flatten x, flat_list tl with Some a, Some b => Some (a ++ b) | _, _ => None end
  end.

Fixpoint flat_members (l : list (bytes * tree)) : option (list pev) :=
  match l with
  | [] => Some []
  | (k, x) :: tl =>
    match unescape k, flatten x, flat_members tl with
    | Some d, Some a, Some b => Some (PKey d :: a ++ b)
    | _, _, _ => None
    end
  end.

Lemma flatten_arr l : flatten (TArr l) = match flat_list l with Some evs => Some (PArrBegin :: evs ++ [PArrEnd]) | None => None end.
Proof. reflexivity. Qed.
Lemma flatten_obj l : flatten (TObj l) = match flat_members l with Some evs => Some (PObjBegin :: evs ++ [PObjEnd]) | None => None end.
Proof. reflexivity. Qed.

Definition trav_ok (x : tree) : Prop :=
  forall evs, flatten x = Some evs ->
  forall fuel rest acc, (length (tokens_of x) < fuel)%nat ->
    traverse fuel PValue (tokens_of x ++ rest) acc = Some (rev evs ++ acc, rest).

Lemma trav_elems l : Forall trav_ok l -> l <> [] ->
  forall evs, flat_list l = Some evs ->
  forall fuel rest acc, (length (elems_toks l) < fuel)%nat ->
    traverse fuel PElems (elems_toks l ++ rest) acc = Some (PArrEnd :: rev evs ++ acc, rest).
Proof.
  induction 1 as [|x l Hx Hl IH]; intros NE evs HE fuel rest acc HF; [congruence|].
  destruct fuel as [|f]; [lia|].
  cbn [flat_list] in HE. destruct (flatten x) as [a|] eqn:EA; try discriminate.
  destruct (flat_list l) as [b|] eqn:EB; try discriminate. inversion HE; subst evs.
  destruct l as [|y tl].
  - simpl in EB. inversion EB; subst b. simpl in HF. rewrite app_length in HF. simpl in HF.
    simpl. rewrite <- app_assoc. rewrite (Hx a EA) by lia. rewrite app_nil_r. reflexivity.
  - change (elems_toks (x :: y :: tl)) with (tokens_of x ++ KComma :: elems_toks (y :: tl)) in *.
    rewrite app_length in HF. cbn [length] in HF.
    cbn [traverse]. rewrite <- app_assoc. rewrite (Hx a EA) by lia. cbn [app].
    rewrite (IH ltac:(discriminate) b eq_refl) by lia.
    rewrite rev_app_distr, <- app_assoc. reflexivity.
Qed.

Lemma trav_members l : Forall (fun kv => trav_ok (snd kv)) l -> l <> [] ->
  forall evs, flat_members l = Some evs ->
  forall fuel rest acc, (length (members_toks l) < fuel)%nat ->
    traverse fuel PMembers (members_toks l ++ rest) acc = Some (PObjEnd :: rev evs ++ acc, rest).
Proof.
  induction 1 as [|[k x] l Hx Hl IH]; intros NE evs HE fuel rest acc HF; [congruence|].
  destruct fuel as [|f]; [lia|]. simpl in Hx.
  cbn [flat_members] in HE. destruct (unescape k) as [d|] eqn:EK; try discriminate.
  destruct (flatten x) as [a|] eqn:EA; try discriminate.
  destruct (flat_members l) as [b|] eqn:EB; try discriminate. inversion HE; subst evs.
  destruct l as [|[k2 y] tl].
  - simpl in EB. inversion EB; subst b. simpl in HF. rewrite app_length in HF. simpl in HF.
    simpl. rewrite EK. rewrite <- app_assoc. rewrite (Hx a EA) by lia. rewrite app_nil_r.
    rewrite <- app_assoc. reflexivity.
  - change (members_toks ((k, x) :: (k2, y) :: tl)) with (KStr k :: KColon :: tokens_of x ++ KComma :: members_toks ((k2, y) :: tl)) in *.
    cbn [length] in HF. rewrite app_length in HF. cbn [length] in HF.
    cbn [traverse app]. rewrite EK. rewrite <- app_assoc. rewrite (Hx a EA) by lia. cbn [app].
    rewrite (IH ltac:(discriminate) b eq_refl) by lia.
    cbn [rev]. rewrite rev_app_distr, <- !app_assoc. reflexivity.
Qed.

Lemma all_trav t : trav_ok t.
Proof.
  induction t using tree_ind2; intros evs HE fuel rest acc HF; (destruct fuel as [|f]; [simpl in HF; lia|]).
  - inversion HE; subst. reflexivity.
  - inversion HE; subst. reflexivity.
  - inversion HE; subst. reflexivity.
  - inversion HE; subst. reflexivity.
  - simpl in HE. simpl. destruct (unescape s); inversion HE; subst. reflexivity.
  - rewrite flatten_arr in HE. rewrite tokens_arr in *.
    destruct (flat_list l) as [evl|] eqn:EL; try discriminate. inversion HE; subst evs.
    destruct l as [|x tl].
    { simpl in EL. inversion EL; subst. reflexivity. }
    destruct (vstart_head x) as (h & r & EH & VS).
    assert (E2 : exists r2, elems_toks (x :: tl) ++ rest = h :: r2).
    { destruct tl as [|y tl2].
      - simpl. rewrite EH. simpl. eauto.
      - change (elems_toks (x :: y :: tl2)) with (tokens_of x ++ KComma :: elems_toks (y :: tl2)). rewrite EH. simpl. eauto. }
    destruct E2 as (r2 & E2).
    assert (HS : traverse (S f) PValue (KLBrack :: elems_toks (x :: tl) ++ rest) acc =
                 traverse f PElems (elems_toks (x :: tl) ++ rest) (PArrBegin :: acc)).
    { rewrite E2. cbn [traverse]. destruct h; try contradiction; reflexivity. }
    cbn [app]. rewrite HS. rewrite (trav_elems (x :: tl) H ltac:(discriminate) evl EL) by (cbn [length] in HF; lia).
    cbn [rev]. rewrite rev_app_distr. simpl. rewrite <- app_assoc. reflexivity.
  - rewrite flatten_obj in HE. rewrite tokens_obj in *.
    destruct (flat_members l) as [evl|] eqn:EL; try discriminate. inversion HE; subst evs.
    destruct l as [|[k x] tl].
    { simpl in EL. inversion EL; subst. reflexivity. }
    assert (E2 : exists r2, members_toks ((k, x) :: tl) ++ rest = KStr k :: r2).
    { destruct tl as [|[k2 y] tl2]; simpl; eauto. }
    destruct E2 as (r2 & E2).
    assert (HS : traverse (S f) PValue (KLBrace :: members_toks ((k, x) :: tl) ++ rest) acc =
                 traverse f PMembers (members_toks ((k, x) :: tl) ++ rest) (PObjBegin :: acc)).
    { rewrite E2. reflexivity. }
    cbn [app]. rewrite HS. rewrite (trav_members ((k, x) :: tl) H ltac:(discriminate) evl EL) by (cbn [length] in HF; lia).
    cbn [rev]. rewrite rev_app_distr. simpl. rewrite <- app_assoc. reflexivity.
Qed.

(* preorder_spec: on the token stream of any tree whose strings decode, the traverser of ast/visitor.go emits exactly the
   preorder flattening of the tree (member names and strings decoded), no event skipped, added or reordered *)
Theorem preorder_spec t evs : flatten t = Some evs -> preorder (tokens_of t) = Some evs.
Proof.
  intros HE. unfold preorder.
  pose proof (all_trav t evs HE (S (length (tokens_of t))) [] [] ltac:(lia)) as H.
  rewrite app_nil_r in H. rewrite H. rewrite app_nil_r. now rewrite <- rev_alt, rev_involutive.
Qed.

(* ---------- preorder with a visitor that answers VisitOPSkip ---------- *)
Section Skip.
Variable skip : nat -> bool.

Fixpoint fskip_list (l : list tree) (k : nat) : option (list pev * nat) :=
  match l with
  | [] => Some ([], k)
  | x :: tl => match flatten_skip skip x k with
               | Some (a, k1) => match fskip_list tl k1 with Some (b, k2) => Some (a ++ b, k2) | None => None end
               | None => None
               end
  end.

Fixpoint fskip_members (l : list (bytes * tree)) (k : nat) : option (list pev * nat) :=
  match l with
  | [] => Some ([], k)
  | (key, x) :: tl =>
    match unescape key, flatten_skip skip x k with
    | Some d, Some (a, k1) => match fskip_members tl k1 with Some (b, k2) => Some (PKey d :: a ++ b, k2) | None => None end
    | _, _ => None
    end
  end.

Lemma flatten_skip_arr l k : flatten_skip skip (TArr l) k =
  if skip k then Some ([PArrBegin; PArrEnd], S k)
  else match fskip_list l (S k) with Some (evs, k') => Some (PArrBegin :: evs ++ [PArrEnd], k') | None => None end.
Proof. reflexivity. Qed.
Lemma flatten_skip_obj l k : flatten_skip skip (TObj l) k =
  if skip k then Some ([PObjBegin; PObjEnd], S k)
  else match fskip_members l (S k) with Some (evs, k') => Some (PObjBegin :: evs ++ [PObjEnd], k') | None => None end.
Proof. reflexivity. Qed.


Definition travs_ok (x : tree) : Prop :=
  forall k evs k', flatten_skip skip x k = Some (evs, k') ->
  forall fuel rest acc, (length (tokens_of x) < fuel)%nat ->
    traverse_skip skip fuel PValue (tokens_of x ++ rest) acc k = Some (rev evs ++ acc, rest, k').

Lemma travs_elems l : Forall travs_ok l -> l <> [] ->
  forall k evs k', fskip_list l k = Some (evs, k') ->
  forall fuel rest acc, (length (elems_toks l) < fuel)%nat ->
    traverse_skip skip fuel PElems (elems_toks l ++ rest) acc k = Some (PArrEnd :: rev evs ++ acc, rest, k').
Proof.
  induction 1 as [|x l Hx Hl IH]; intros NE k evs k' HE fuel rest acc HF; [congruence|].
  destruct fuel as [|f]; [lia|].
  cbn [fskip_list] in HE. destruct (flatten_skip skip x k) as [[a k1]|] eqn:EA; try discriminate.
  destruct (fskip_list l k1) as [[b k2]|] eqn:EB; try discriminate. inversion HE; subst evs k'.
  destruct l as [|y tl].
  - simpl in EB. inversion EB; subst b k2. simpl in HF. rewrite app_length in HF. simpl in HF.
    simpl. rewrite <- app_assoc. rewrite (Hx k a k1 EA) by lia. rewrite app_nil_r. reflexivity.
  - change (elems_toks (x :: y :: tl)) with (tokens_of x ++ KComma :: elems_toks (y :: tl)) in *.
    rewrite app_length in HF. cbn [length] in HF.
    cbn [traverse_skip]. rewrite <- app_assoc. rewrite (Hx k a k1 EA) by lia. cbn [app].
    rewrite (IH ltac:(discriminate) k1 b k2 EB) by lia.
    rewrite rev_app_distr, <- app_assoc. reflexivity.
Qed.

Lemma travs_members l : Forall (fun kv => travs_ok (snd kv)) l -> l <> [] ->
  forall k evs k', fskip_members l k = Some (evs, k') ->
  forall fuel rest acc, (length (members_toks l) < fuel)%nat ->
    traverse_skip skip fuel PMembers (members_toks l ++ rest) acc k = Some (PObjEnd :: rev evs ++ acc, rest, k').
Proof.
  induction 1 as [|[key x] l Hx Hl IH]; intros NE k evs k' HE fuel rest acc HF; [congruence|].
  destruct fuel as [|f]; [lia|]. simpl in Hx.
  cbn [fskip_members] in HE. destruct (unescape key) as [d|] eqn:EK; try discriminate.
  destruct (flatten_skip skip x k) as [[a k1]|] eqn:EA; try discriminate.
  destruct (fskip_members l k1) as [[b k2]|] eqn:EB; try discriminate. inversion HE; subst evs k'.
  destruct l as [|[key2 y] tl].
  - simpl in EB. inversion EB; subst b k2. simpl in HF. rewrite app_length in HF. simpl in HF.
    simpl. rewrite EK. rewrite <- app_assoc. rewrite (Hx k a k1 EA) by lia. rewrite app_nil_r.
    rewrite <- app_assoc. reflexivity.
  - change (members_toks ((key, x) :: (key2, y) :: tl)) with (KStr key :: KColon :: tokens_of x ++ KComma :: members_toks ((key2, y) :: tl)) in *.
    cbn [length] in HF. rewrite app_length in HF. cbn [length] in HF.
    cbn [traverse_skip app]. rewrite EK. rewrite <- app_assoc. rewrite (Hx k a k1 EA) by lia. cbn [app].
    rewrite (IH ltac:(discriminate) k1 b k2 EB) by lia.
    cbn [rev]. rewrite rev_app_distr, <- !app_assoc. reflexivity.
Qed.

Lemma all_travs t : travs_ok t.
Proof.
  induction t using tree_ind2; intros k evs k' HE fuel rest acc HF; (destruct fuel as [|f]; [simpl in HF; lia|]).
  - inversion HE; subst. reflexivity.
  - inversion HE; subst. reflexivity.
  - inversion HE; subst. reflexivity.
  - inversion HE; subst. reflexivity.
  - simpl in HE. simpl. destruct (unescape s); inversion HE; subst. reflexivity.
  - rewrite flatten_skip_arr in HE.
    destruct (skip k) eqn:SK.
    { inversion HE; subst. rewrite tokens_arr. cbn [app traverse_skip]. rewrite SK.
      change (KLBrack :: elems_toks l ++ rest) with (tokens_of (TArr l) ++ rest). rewrite skip1_spec. reflexivity. }
    rewrite tokens_arr in *.
    destruct (fskip_list l (S k)) as [[evl kl]|] eqn:EL; try discriminate. inversion HE; subst evs k'.
    destruct l as [|x tl].
    { simpl in EL. inversion EL; subst. cbn [traverse_skip elems_toks app]. rewrite SK. reflexivity. }
    destruct (vstart_head x) as (h & r & EH & VS).
    assert (E2 : exists r2, elems_toks (x :: tl) ++ rest = h :: r2).
    { destruct tl as [|y tl2].
      - simpl. rewrite EH. simpl. eauto.
      - change (elems_toks (x :: y :: tl2)) with (tokens_of x ++ KComma :: elems_toks (y :: tl2)). rewrite EH. simpl. eauto. }
    destruct E2 as (r2 & E2).
    assert (HS : traverse_skip skip (S f) PValue (KLBrack :: elems_toks (x :: tl) ++ rest) acc k =
                 traverse_skip skip f PElems (elems_toks (x :: tl) ++ rest) (PArrBegin :: acc) (S k)).
    { rewrite E2. cbn [traverse_skip]. rewrite SK. destruct h; try contradiction; reflexivity. }
    cbn [app]. rewrite HS. rewrite (travs_elems (x :: tl) H ltac:(discriminate) (S k) evl kl EL) by (cbn [length] in HF; lia).
    cbn [rev]. rewrite rev_app_distr. simpl. rewrite <- app_assoc. reflexivity.
  - rewrite flatten_skip_obj in HE.
    destruct (skip k) eqn:SK.
    { inversion HE; subst. rewrite tokens_obj. cbn [app traverse_skip]. rewrite SK.
      change (KLBrace :: members_toks l ++ rest) with (tokens_of (TObj l) ++ rest). rewrite skip1_spec. reflexivity. }
    rewrite tokens_obj in *.
    destruct (fskip_members l (S k)) as [[evl kl]|] eqn:EL; try discriminate. inversion HE; subst evs k'.
    destruct l as [|[key x] tl].
    { simpl in EL. inversion EL; subst. cbn [traverse_skip members_toks app]. rewrite SK. reflexivity. }
    assert (E2 : exists r2, members_toks ((key, x) :: tl) ++ rest = KStr key :: r2).
    { destruct tl as [|[k2 y] tl2]; simpl; eauto. }
    destruct E2 as (r2 & E2).
    assert (HS : traverse_skip skip (S f) PValue (KLBrace :: members_toks ((key, x) :: tl) ++ rest) acc k =
                 traverse_skip skip f PMembers (members_toks ((key, x) :: tl) ++ rest) (PObjBegin :: acc) (S k)).
    { rewrite E2. cbn [traverse_skip]. rewrite SK. reflexivity. }
    cbn [app]. rewrite HS. rewrite (travs_members ((key, x) :: tl) H ltac:(discriminate) (S k) evl kl EL) by (cbn [length] in HF; lia).
    cbn [rev]. rewrite rev_app_distr. simpl. rewrite <- app_assoc. reflexivity.
Qed.

(* preorder_skip_spec: whatever containers the visitor skips, on the token stream of any tree (tokens carry no white space: the
   event stream is independent of insignificant white space by construction of the model) the traverser emits exactly the
   flattening in which each skipped container contributes its Begin and End only, and everything after it is intact *)
Theorem preorder_skip_spec t evs k' : flatten_skip skip t 0 = Some (evs, k') -> preorder_skip skip (tokens_of t) = Some evs.
Proof.
  intros HE. unfold preorder_skip.
  pose proof (all_travs t 0%nat evs k' HE (S (length (tokens_of t))) [] [] ltac:(lia)) as H.
  rewrite app_nil_r in H. rewrite H. rewrite app_nil_r. now rewrite <- rev_alt, rev_involutive.
Qed.

End Skip.

