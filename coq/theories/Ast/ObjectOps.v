(* Ast/ObjectOps.v - root-level Set and Unset on objects commute with the abstraction and keep the object invariant
   (index consistent with the live pairs, no duplicated live key while an index exists), for a collision-free hash that
   never returns 0 (caching.StrHash maps 0 to 1) and non-empty keys. *)
From Coq Require Import List Arith Bool NArith Lia.
From SV.Ast Require Import Linked Tree LinkedProofs Node IndexProofs NodeRefine ArrayRefine ObjectRefine.
Import ListNotations.

Arguments Nat.div : simpl never.
Arguments Nat.modulo : simpl never.
Arguments Nat.ltb : simpl never.
Arguments Nat.leb : simpl never.
Arguments CAP : simpl never.

Section Ops.
Variable hash : bytes -> N.
Hypothesis hash_inj : forall a b, hash a = hash b -> a = b.
Hypothesis hash_nz : forall k, hash k <> 0%N.

(* ---------- lists of cells ---------- *)
Lemma filter_upd_live (l : list (pair node)) i p q :
  nth_error l i = Some p -> pexists p = pexists q -> length (filter pexists (upd l i q)) = length (filter pexists l).
Proof.
  revert i. induction l as [|x l IH]; intros [|i] E EQ; simpl in *; try discriminate.
  - inversion E; subst. rewrite EQ. destruct (pexists q); reflexivity.
  - destruct (pexists x); simpl; rewrite (IH i E EQ); reflexivity.
Qed.

Lemma filter_upd_dead (l : list (pair node)) i p :
  nth_error l i = Some p -> pexists p = true ->
  S (length (filter pexists (upd l i pzero))) = length (filter pexists l).
Proof.
  revert i. induction l as [|x l IH]; intros [|i] E EQ; simpl in *; try discriminate.
  - inversion E; subst. rewrite EQ. reflexivity.
  - destruct (pexists x); simpl; rewrite <- (IH i E EQ); reflexivity.
Qed.

Lemma nth_error_upd l i j (x : pair node) :
  nth_error (upd l i x) j = if (j =? i) && (i <? length l) then Some x else nth_error l j.
Proof.
  destruct (Nat.eq_dec j i) as [->|NE].
  - rewrite Nat.eqb_refl. destruct (i <? length l) eqn:E; simpl.
    + apply Nat.ltb_lt in E. now apply nth_error_upd_same.
    + apply Nat.ltb_ge in E. now rewrite upd_oob.
  - replace (j =? i) with false by (symmetry; now apply Nat.eqb_neq). simpl. apply nth_error_upd_other. auto.
Qed.

(* replacing the value of a live cell by a live value keeps every part of the invariant *)
Lemma upd_value_inv l i h k c c' m :
  cells_ok hash l -> nth_error l i = Some (h, k, c) -> exists_ c = true -> exists_ c' = true ->
  cells_ok hash (upd l i (h, k, c')) /\
  (index_ok hash m l -> index_ok hash m (upd l i (h, k, c'))) /\
  (nodup_live l -> nodup_live (upd l i (h, k, c'))).
Proof.
  intros CO E L L'. assert (Hi : i < length l) by (apply nth_error_Some; congruence).
  assert (Hlt : (i <? length l) = true) by now apply Nat.ltb_lt.
  split; [|split].
  - intros j h0 k0 c0 Hj. rewrite nth_error_upd, Hlt, andb_true_r in Hj.
    destruct (j =? i) eqn:EJ.
    + inversion Hj; subst. destruct (CO _ _ _ _ E) as (C1 & _). split; auto. congruence.
    + eauto.
  - intros (I1 & I2). split.
    + intros j h0 k0 c0 Hj Hc. rewrite nth_error_upd, Hlt, andb_true_r in Hj.
      destruct (j =? i) eqn:EJ.
      * apply Nat.eqb_eq in EJ. inversion Hj; subst. eauto.
      * eauto.
    + intros h0 i0 Hh. destruct (I2 h0 i0 Hh) as (k1 & c1 & E1'). rewrite nth_error_upd, Hlt, andb_true_r.
      destruct (i0 =? i) eqn:EJ.
      * apply Nat.eqb_eq in EJ. subst i0. rewrite E in E1'. inversion E1'; subst. eauto.
      * eauto.
  - intros ND j1 j2 h1 h2 k0 c1 c2 E1 E2 L1 L2.
    rewrite nth_error_upd, Hlt, andb_true_r in E1, E2.
    assert (F : forall j hh cc, (if j =? i then Some (h, k, c') else nth_error l j) = Some (hh, k0, cc) -> exists_ cc = true ->
                exists hh' cc', nth_error l j = Some (hh', k0, cc') /\ exists_ cc' = true).
    { intros j hh cc Hj Hc. destruct (j =? i) eqn:EJ.
      - apply Nat.eqb_eq in EJ. inversion Hj; subst. eauto.
      - eauto. }
    destruct (F _ _ _ E1 L1) as (? & ? & F1 & F1'). destruct (F _ _ _ E2 L2) as (? & ? & F2 & F2').
    eapply ND; eauto.
Qed.

Lemma live_zero_nil (l : list (pair node)) : length (filter pexists l) = 0 -> live_pabs l = [].
Proof. unfold live_pabs. intros H. apply length_zero_iff_nil in H. now rewrite H. Qed.

Lemma nth_error_live_in (l : list (pair node)) j h k c :
  nth_error l j = Some (h, k, c) -> exists_ c = true -> find_key k (live_pabs l) <> None.
Proof.
  revert j. induction l as [|[[h0 k0] c0] l IH]; intros [|j] E L; simpl in E; try discriminate.
  - inversion E; subst. rewrite live_pabs_cons. unfold pexists. simpl. rewrite L. simpl. rewrite bytes_eqb_refl. discriminate.
  - rewrite live_pabs_cons. unfold pexists. simpl. destruct (exists_ c0); eauto.
    simpl. destruct (bytes_eqb k0 k); [discriminate|eauto].
Qed.

(* ---------- put_child on an object ---------- *)
Lemma put_child_cells n i h k c c' :
  oinv hash n -> is_object n = true -> i < loaded_size n ->
  nth_error (full_cells hash n) i = Some (h, k, c) -> exists_ c = true -> exists_ c' = true ->
  full_cells hash (put_child n i c') = upd (full_cells hash n) i (h, k, c') /\ oinv hash (put_child n i c') /\
  is_object (put_child n i c') = true /\ exists_ (put_child n i c') = true.
Proof.
  intros HI HO Hi E L L'. destruct n; try discriminate.
  - (* lazy *)
    cbn [oinv] in HI. destruct HI as (W & CO & AL & LL & NE & IN). cbn [loaded_size full_cells] in *.
    assert (E' : nth_error (to_list (pv v)) i = Some (h, k, c)).
    { rewrite nth_error_app1 in E; auto. now rewrite (to_list_length _ W). }
    cbn [put_child]. unfold passign. rewrite (At_spec _ _ W), E'.
    destruct (assign_spec (pv v) i (h, k, c') W) as (A1 & A2 & A3).
    cbn [full_cells pv oinv is_object exists_ index]. rewrite A1.
    destruct (upd_value_inv _ i h k c c' [] CO E' L L') as (U1 & _ & _).
    split; [rewrite upd_app_l; auto; now rewrite (to_list_length _ W)|].
    split; [|split; reflexivity].
    split; [exact A2|]. split; [exact U1|]. split.
    + apply forallb_forall. intros x Hx. apply In_nth_error in Hx as (j & Hj).
      rewrite nth_error_upd in Hj. destruct ((j =? i) && (i <? length (to_list (pv v)))).
      * inversion Hj; subst. exact L'.
      * eapply forallb_forall in AL; eauto. eapply nth_error_In; eauto.
    + split; [lia|]. split; [exact NE|exact IN].
  - (* loaded *)
    destruct v as [v|]; [|cbn [loaded_size] in Hi; lia].
    cbn [oinv] in HI. destruct HI as (W & CO & LL & II). cbn [loaded_size full_cells] in *.
    cbn [put_child]. unfold passign. rewrite (At_spec _ _ W), E.
    destruct (assign_spec (pv v) i (h, k, c') W) as (A1 & A2 & A3).
    cbn [full_cells pv oinv is_object exists_ index]. rewrite A1.
    split; [reflexivity|]. split; [|split; reflexivity].
    split; [exact A2|].
    destruct (upd_value_inv _ i h k c c' [] CO E L L') as (U1 & _ & _).
    split; [exact U1|]. split.
    + rewrite (filter_upd_live _ i (h, k, c) (h, k, c')); auto. unfold pexists. simpl. congruence.
    + intros m Hm. cbn [index] in Hm. cbn [pv]. rewrite A1. destruct (II m Hm) as (I1 & I2).
      destruct (upd_value_inv _ i h k c c' m CO E L L') as (_ & U2 & U3). split; [apply U2; exact I1|apply U3; exact I2].
Qed.

(* ---------- helpers on the invariant ---------- *)
Lemma oinv_cells_ok n : oinv hash n -> cells_ok hash (full_cells hash n).
Proof.
  destruct n; cbn [oinv full_cells]; try (intros _ j h k c E; destruct j; discriminate).
  - intros (W & CO & _). apply cells_ok_app; auto. apply cells_ok_mkcell.
  - destruct v; [intros (W & CO & _); exact CO|intros _ j h k c E; destruct j; discriminate].
Qed.

Lemma child_at_cells n i : oinv hash n -> is_object n = true -> i < loaded_size n ->
  child_at n i = match nth_error (full_cells hash n) i with Some (_, _, c) => Some c | None => None end.
Proof.
  intros HI HO Hi. destruct n; try discriminate; cbn [oinv loaded_size full_cells child_at] in *.
  - destruct HI as (W & _). rewrite (At_spec _ _ W). rewrite nth_error_app1 by (now rewrite (to_list_length _ W)). reflexivity.
  - destruct v; [|lia]. destruct HI as (W & _). now rewrite (At_spec _ _ W).
Qed.

(* appending a pair whose key is not among the cells *)
Lemma push_inv (v : lpairs node) l key val :
  wf (pv v) -> cells_ok hash (to_list (pv v)) -> l = length (filter pexists (to_list (pv v))) -> idx_inv hash v ->
  find_cell (to_list (pv v)) key 0 = None -> exists_ val = true ->
  let v' := P_Push v (NewPair hash key val) in
  to_list (pv v') = to_list (pv v) ++ [NewPair hash key val] /\ oinv hash (NObject (S l) (Some v')).
Proof.
  intros W CO LL II NF LV v'. set (p := NewPair hash key val) in *.
  destruct (P_Push_list v p W) as (P1 & P2 & P3). fold v' in P1, P2, P3.
  split; [exact P1|]. cbn [oinv]. split; [exact P2|]. split; [|split].
  - rewrite P1. apply cells_ok_app; auto. intros j h k c E. destruct j as [|[|j]]; try discriminate.
    inversion E; subst. split; auto. rewrite LV. discriminate.
  - assert (PL : pexists p = true) by (unfold p, NewPair, pexists; simpl; exact LV).
    rewrite P1, filter_app, app_length. cbn [filter]. rewrite PL. cbn [length]. lia.
  - intros m' Hm'. unfold v', P_Push, P_Set in Hm'. cbn [index] in Hm'.
    destruct (index v) as [m|] eqn:EI; try discriminate. inversion Hm'; subst m'. clear Hm'.
    destruct (II m EI) as ((I1 & I2) & ND). rewrite P1.
    pose proof (find_cell_none _ _ _ NF) as ABS.
    assert (LEN : size (pv v) = length (to_list (pv v))) by (now rewrite (to_list_length _ W)).
    split; [split|].
    + intros j h k c E Hc. destruct (Nat.lt_ge_cases j (length (to_list (pv v)))) as [Hj|Hj].
      * rewrite nth_error_app1 in E by auto. cbn [p NewPair fst]. rewrite idx_get_set_other; [eauto|].
        intros X. apply hash_inj in X. symmetry in X. revert X. eapply ABS; eauto.
      * rewrite nth_error_app2 in E by auto. destruct (j - length (to_list (pv v))) as [|[|?]] eqn:EJ; try discriminate.
        inversion E; subst. cbn [p NewPair fst]. rewrite idx_get_set_same. f_equal. lia.
    + intros h i0 Hh. cbn [p NewPair fst] in Hh.
      destruct (N.eq_dec (hash key) h) as [<-|NE].
      * rewrite idx_get_set_same in Hh. inversion Hh; subst i0. rewrite LEN, nth_error_app2, Nat.sub_diag by lia.
        exists key, val. reflexivity.
      * rewrite idx_get_set_other in Hh by auto. destruct (I2 _ _ Hh) as (k1 & c1 & E1).
        exists k1, c1. rewrite nth_error_app1; auto. apply nth_error_Some. congruence.
    + intros j1 j2 h1 h2 k c1 c2 E1 E2 L1 L2.
      destruct (Nat.lt_ge_cases j1 (length (to_list (pv v)))) as [H1|H1];
      destruct (Nat.lt_ge_cases j2 (length (to_list (pv v)))) as [H2|H2].
      * rewrite nth_error_app1 in E1, E2 by auto. eapply ND; eauto.
      * rewrite nth_error_app1 in E1 by auto. rewrite nth_error_app2 in E2 by auto.
        destruct (j2 - length (to_list (pv v))) as [|[|?]]; try discriminate. inversion E2; subst.
        exfalso. eapply ABS; eauto.
      * rewrite nth_error_app1 in E2 by auto. rewrite nth_error_app2 in E1 by auto.
        destruct (j1 - length (to_list (pv v))) as [|[|?]]; try discriminate. inversion E1; subst.
        exfalso. eapply ABS; eauto.
      * rewrite nth_error_app2 in E1, E2 by auto.
        destruct (j1 - length (to_list (pv v))) as [|[|?]] eqn:X1; try discriminate.
        destruct (j2 - length (to_list (pv v))) as [|[|?]] eqn:X2; try discriminate. lia.
Qed.

(* soft-deleting the live cell i *)
Lemma remove_inv (v : lpairs node) l i h k c :
  wf (pv v) -> cells_ok hash (to_list (pv v)) -> l = length (filter pexists (to_list (pv v))) -> idx_inv hash v ->
  nth_error (to_list (pv v)) i = Some (h, k, c) -> exists_ c = true ->
  let n' := removePairAt (NObject l (Some v)) i in
  full_cells hash n' = upd (to_list (pv v)) i pzero /\ oinv hash n' /\ is_object n' = true /\ exists_ n' = true.
Proof.
  intros W CO LL II E LV n'. unfold n', removePairAt. rewrite (At_spec _ _ W), E.
  destruct (assign_spec (pv v) i pzero W) as (A1 & A2 & A3).
  cbn [full_cells pv oinv is_object exists_]. rewrite A1.
  assert (Hi : i < length (to_list (pv v))) by (apply nth_error_Some; congruence).
  assert (Hlt : (i <? length (to_list (pv v))) = true) by now apply Nat.ltb_lt.
  split; [reflexivity|]. split; [|split; reflexivity].
  split; [exact A2|]. split; [|split].
  - intros j h0 k0 c0 Hj. rewrite nth_error_upd, Hlt, andb_true_r in Hj. destruct (j =? i).
    + inversion Hj; subst. split; [discriminate|auto].
    + eauto.
  - pose proof (filter_upd_dead _ i (h, k, c) E LV). lia.
  - intros m' Hm'. cbn [index] in Hm'. destruct (index v) as [m|] eqn:EI; try discriminate. inversion Hm'; subst m'.
    destruct (II m EI) as ((I1 & I2) & ND). cbn [pv]. rewrite A1.
    destruct (CO _ _ _ _ E) as (C1 & _). specialize (C1 LV). subst h.
    split; [split|].
    + intros j h0 k0 c0 Hj Hc. rewrite nth_error_upd, Hlt, andb_true_r in Hj. destruct (j =? i) eqn:EJ.
      * inversion Hj; subst. discriminate.
      * apply Nat.eqb_neq in EJ. rewrite idx_get_del_other; [eauto|].
        intros X. apply hash_inj in X. subst k0. apply EJ. eapply ND; eauto.
    + intros h0 i0 Hh. destruct (N.eq_dec (hash k) h0) as [<-|NE].
      * rewrite idx_get_del_same in Hh. discriminate.
      * rewrite idx_get_del_other in Hh by auto. destruct (I2 _ _ Hh) as (k1 & c1 & E1).
        rewrite nth_error_upd, Hlt, andb_true_r. destruct (i0 =? i) eqn:EJ.
        -- apply Nat.eqb_eq in EJ. subst i0. rewrite E in E1. inversion E1; subst. contradiction.
        -- eauto.
    + intros j1 j2 h1 h2 k0 c1 c2 E1 E2 L1 L2.
      rewrite nth_error_upd, Hlt, andb_true_r in E1, E2.
      destruct (j1 =? i); [inversion E1; subst; discriminate|].
      destruct (j2 =? i); [inversion E2; subst; discriminate|]. eapply ND; eauto.
Qed.

End Ops.
