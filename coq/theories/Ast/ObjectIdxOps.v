(* Ast/ObjectIdxOps.v - root-level SetByIndex / UnsetByIndex / Pop on objects commute with the abstraction. *)
From Coq Require Import List Arith Bool NArith Lia.
From SV.Ast Require Import Linked Tree LinkedProofs Node IndexProofs NodeRefine ArrayRefine RootRefine ObjectRefine ObjectOps ObjectSet
     ArrayOps ArraySet ObjectIdx ObjectPop.
Import ListNotations.

Arguments Nat.div : simpl never.
Arguments Nat.modulo : simpl never.
Arguments Nat.ltb : simpl never.
Arguments Nat.leb : simpl never.
Arguments CAP : simpl never.

Definition is_tobj (t : tree) : Prop := match t with TObj _ => True | _ => False end.

Section Ops.
Variable hash : bytes -> N.
Hypothesis hash_inj : forall a b, hash a = hash b -> a = b.
Hypothesis hash_nz : forall k, hash k <> 0%N.

Lemma object_of_RO n t : RO hash n t -> ObjectSet.not_raw n -> is_tobj t -> is_object n = true.
Proof.
  intros (E & A & _) NR HT. destruct t; try contradiction.
  destruct n; simpl in E; try discriminate; try contradiction; simpl in A; try discriminate; auto; destruct v; discriminate.
Qed.

Lemma live_pabs_length l : length (live_pabs l) = length (filter pexists l).
Proof. unfold live_pabs. apply map_length. Qed.

(* ---- SetByIndex on an object: the value of the idx-th member is replaced ---- *)
Theorem op_setidx_object n t idx r tv :
  RO hash n t -> is_tobj t ->
  fst (op_setidx hash idx (mk_value hash (r, tv)) n) = fst (spec_apply (OpSetIdx idx (r, tv)) t) /\
  RO hash (snd (op_setidx hash idx (mk_value hash (r, tv)) n)) (snd (spec_apply (OpSetIdx idx (r, tv)) t)) /\
  is_tobj (snd (spec_apply (OpSetIdx idx (r, tv)) t)).
Proof.
  intros HR HT. destruct (abs_mk_value hash (r, tv)) as (EV & AV). simpl in AV.
  set (val := mk_value hash (r, tv)) in *.
  unfold op_setidx. destruct (RO_checkRaw hash n t HR) as (EC & HR1 & NR).
  destruct (checkRaw hash n) as [e n1]. cbn [fst snd] in EC, HR1, NR. subst e. cbn [err_ok negb].
  pose proof (object_of_RO n1 t HR1 NR HT) as HO.
  destruct HR1 as (E1 & A1 & IO1).
  assert (MATCH : forall (X Y : obs * node), match n1 with NNone | NNull => X | _ => Y end = Y).
  { intros. destruct n1; simpl in HO; try discriminate; reflexivity. }
  assert (NA : is_array n1 = false) by (destruct n1; simpl in HO; try discriminate; reflexivity).
  rewrite MATCH. unfold index_child. rewrite NA, HO.
  destruct (skipIndexPair_spec hash n1 idx IO1 HO) as (S1 & S2 & S3 & S4 & S5 & S6).
  destruct (skipIndexPair hash n1 idx) as [r0 n2]. cbn [fst snd] in S1, S2, S3, S4, S5, S6.
  rewrite (abs_full_cells hash n1 HO) in A1. subst t. rewrite <- S1 in *.
  pose proof (nth_live_pmembers (full_cells hash n2) idx 0) as NM.
  cbn [spec_apply]. rewrite <- S4 in NM.
  destruct r0 as [j|].
  - destruct NM as (h & k & c & N1 & N2 & _ & N4 & N5 & _). rewrite Nat.sub_0_r in N1, N5.
    specialize (S5 j eq_refl).
    rewrite (child_at_cells hash n2 j S2 S3 S5), N1, N2. rewrite N4.
    destruct (put_child_cells hash n2 j h k c val S2 S3 S5 N1 N2 EV) as (Q1 & Q2 & Q3 & Q4).
    cbn [fst snd]. split; [reflexivity|]. split; [|exact I].
    split; [exact Q4|]. split; [|exact Q2].
    rewrite (abs_full_cells hash _ Q3), Q1. f_equal. pose proof (N5 val EV) as XX. etransitivity; [exact XX|]. now rewrite AV.
  - assert (NN : nth_error (live_pabs (full_cells hash n2)) idx = None) by (apply nth_error_None; exact NM).
    rewrite NN. cbn [fst snd]. split; [reflexivity|]. split; [|exact I].
    split; [destruct n2; simpl in S3; try discriminate; reflexivity|]. split; [apply (abs_full_cells hash n2 S3)|exact S2].
Qed.

(* unsafeMap: a loaded object with storage *)
Lemma unsafeMap_cells n : oinv hash n -> is_object n = true ->
  exists l v, unsafeMap hash n = NObject l (Some v) /\ wf (pv v) /\ cells_ok hash (to_list (pv v)) /\
              l = length (filter pexists (to_list (pv v))) /\ idx_inv hash v /\ to_list (pv v) = full_cells hash n.
Proof.
  intros HI HO. destruct (skipAllKey_spec hash n HI HO) as (K1 & K2 & K3 & K4).
  unfold unsafeMap. destruct (skipAllKey hash n) as [| | | | | | | | | | |l v] eqn:ES; try discriminate; try contradiction.
  destruct v as [v|].
  - cbn [oinv full_cells] in *. destruct K2 as (W & CO & L & II). exists l, v. auto 10.
  - cbn [oinv full_cells] in *. destruct emptyP_spec as (W & E).
    exists 0, emptyP. split; [reflexivity|]. split; [exact W|]. rewrite E. split.
    { intros j h k c Hj. destruct j; discriminate. }
    split; [reflexivity|]. split; [intros m Hm; discriminate|exact K1].
Qed.

Lemma pop_node_object n : oinv hash n -> is_object n = true ->
  fst (pop_node hash n) = EOk /\
  abs (snd (pop_node hash n)) = TObj (removelast (live_pabs (full_cells hash n))) /\
  oinv hash (snd (pop_node hash n)) /\ exists_ (snd (pop_node hash n)) = true.
Proof.
  intros HI HO. unfold pop_node. rewrite HO.
  replace (is_array n) with false by (destruct n; simpl in HO; try discriminate; reflexivity).
  destruct (unsafeMap_cells n HI HO) as (l & v & U1 & W & CO & L & II & TL). rewrite U1.
  destruct (pop_pairs_spec hash hash_inj hash_nz (size (pv v)) v l W CO II (le_n _) L) as (P1 & P2 & P3 & P4 & P5).
  destruct (pop_pairs (size (pv v)) v l) as [v' l']. cbn [fst snd] in *.
  split; [reflexivity|]. split; [|split; [exact (conj P1 (conj P3 (conj P5 P4)))|reflexivity]].
  rewrite abs_object, P2, (live_pabs_ppop), TL. reflexivity.
Qed.

Theorem op_pop_object n t :
  RO hash n t -> is_tobj t ->
  fst (op_pop hash n) = fst (spec_apply OpPop t) /\
  RO hash (snd (op_pop hash n)) (snd (spec_apply OpPop t)) /\ is_tobj (snd (spec_apply OpPop t)).
Proof.
  intros HR HT. unfold op_pop. destruct (RO_checkRaw hash n t HR) as (EC & HR1 & NR).
  destruct (checkRaw hash n) as [e n1]. cbn [fst snd] in EC, HR1, NR. subst e. cbn [err_ok negb].
  pose proof (object_of_RO n1 t HR1 NR HT) as HO. destruct HR1 as (E1 & A1 & IO1).
  destruct (pop_node_object n1 IO1 HO) as (Q1 & Q2 & Q3 & Q4).
  destruct (pop_node hash n1) as [e2 n2]. cbn [fst snd] in *. subst e2.
  rewrite (abs_full_cells hash n1 HO) in A1. subst t. cbn [spec_apply fst snd].
  split; [reflexivity|]. split; [|exact I]. split; [exact Q4|]. split; [exact Q2|exact Q3].
Qed.

(* ---- UnsetByIndex on an object ---- *)
Theorem op_unsetidx_object n t idx :
  RO hash n t -> is_tobj t ->
  fst (op_unsetidx hash idx n) = fst (spec_apply (OpUnsetIdx idx) t) /\
  RO hash (snd (op_unsetidx hash idx n)) (snd (spec_apply (OpUnsetIdx idx) t)) /\
  is_tobj (snd (spec_apply (OpUnsetIdx idx) t)).
Proof.
  intros HR HT. unfold op_unsetidx. destruct (RO_checkRaw hash n t HR) as (EC & HR1 & NR).
  destruct (checkRaw hash n) as [e n1]. cbn [fst snd] in EC, HR1, NR. subst e. cbn [err_ok negb].
  pose proof (object_of_RO n1 t HR1 NR HT) as HO. destruct HR1 as (E1 & A1 & IO1).
  replace (is_array n1) with false by (destruct n1; simpl in HO; try discriminate; reflexivity).
  rewrite HO. destruct (skipAllKey_spec hash n1 IO1 HO) as (K1 & K2 & K3 & K4).
  set (n2 := skipAllKey hash n1) in *.
  rewrite (abs_full_cells hash n1 HO) in A1. subst t. rewrite <- K1 in *.
  rewrite (pairAt_spec hash n2 idx K2 K3 K4).
  pose proof (nth_live_pmembers (full_cells hash n2) idx 0) as NM. cbn [spec_apply].
  assert (R2' : RO hash n2 (TObj (live_pabs (full_cells hash n2)))).
  { split; [destruct n2; simpl in K3; try discriminate; reflexivity|]. split; [apply (abs_full_cells hash n2 K3)|exact K2]. }
  destruct (nth_live pexists (full_cells hash n2) idx 0) as [j|] eqn:EN.
  2:{ replace (idx <? length (live_pabs (full_cells hash n2))) with false by (symmetry; now apply Nat.ltb_ge).
      cbn [fst snd]. split; [reflexivity|]. split; [exact R2'|exact I]. }
  destruct NM as (h & k & c & N1 & N2 & _ & N4 & _ & N6). rewrite Nat.sub_0_r in N1, N6.
  assert (LT : idx < length (live_pabs (full_cells hash n2))) by (apply nth_error_Some; congruence).
  replace (idx <? length (live_pabs (full_cells hash n2))) with true by (symmetry; now apply Nat.ltb_lt).
  destruct n2 as [| | | | | | | | | | |l2 v2] eqn:EN2; try discriminate; try contradiction.
  destruct v2 as [v2|]; [|cbn [full_cells] in N1; destruct j; discriminate].
  pose proof K2 as K2'. cbn [oinv] in K2. destruct K2 as (W & CO & LL & II). cbn [full_cells] in *.
  cbn [child_at]. rewrite (At_spec _ _ W), N1, N2. cbn [negb len].
  assert (LEN : l2 = length (live_pabs (to_list (pv v2)))) by (now rewrite live_pabs_length).
  destruct (S idx =? l2) eqn:EL.
  - apply Nat.eqb_eq in EL.
    destruct (pop_node_object (NObject l2 (Some v2)) K2' eq_refl) as (Q1 & Q2 & Q3 & Q4).
    destruct (pop_node hash (NObject l2 (Some v2))) as [e2 n3]. cbn [fst snd full_cells] in *. subst e2.
    split; [reflexivity|]. split; [|exact I]. split; [exact Q4|]. split; [|exact Q3].
    rewrite Q2. f_equal. replace idx with (length (live_pabs (to_list (pv v2))) - 1) by lia.
    symmetry. apply remove_nth_last. intros X. rewrite X in LT. simpl in LT. lia.
  - cbn [fst snd]. split; [reflexivity|]. split; [|exact I].
    assert (RP : removePair (NObject l2 (Some v2)) idx = removePairAt (NObject l2 (Some v2)) j).
    { unfold removePair, removePairAt. rewrite (pairAt_spec hash (NObject l2 (Some v2)) idx K2' eq_refl I). cbn [full_cells].
      rewrite EN. reflexivity. }
    rewrite RP.
    destruct (remove_inv hash hash_inj v2 l2 j h k c W CO LL II N1 N2) as (Q1 & Q2 & Q3 & Q4).
    split; [exact Q4|]. split; [|exact Q2].
    rewrite (abs_full_cells hash _ Q3), Q1. f_equal. exact N6.
Qed.

End Ops.
