(* Ast/RootRefine4.v - node_refines_tree at the root for every document: every sequence of root-level
   Look / Len (on a node that is not lazy) / Load / LoadAll / Add / Set / Unset (non-empty keys) / SetByIndex / UnsetByIndex / Pop,
   on arrays, objects (positional operations included) and scalars, from every initial representation. *)
From Coq Require Import List Arith Bool NArith Lia.
From SV.Ast Require Import Linked Tree LinkedProofs Node IndexProofs NodeRefine ArrayRefine RootRefine ObjectRefine ObjectOps ObjectSet
     RootRefine2 ArrayOps ArraySet ObjectIdx ObjectPop ObjectIdxOps.
Import ListNotations.

Arguments Nat.div : simpl never.
Arguments Nat.modulo : simpl never.
Arguments Nat.ltb : simpl never.
Arguments Nat.leb : simpl never.
Arguments CAP : simpl never.

Section Ops.
Variable hash : bytes -> N.
Hypothesis hash_inj : forall a b, hash a = hash b -> a = b.
Hypothesis hash_nz : forall k, hash k <> 0%N.

Definition ok_step (n : node) (s : step) : Prop :=
  match s with
  | ([], OpLen) => not_lazy (snd (checkRaw hash n))      (* Len on a lazy node is the remaining known finding *)
  | ([], OpLook) | ([], OpLoad) | ([], OpAdd _) | ([], OpSetIdx _ _) | ([], OpUnsetIdx _) | ([], OpPop) => True
  | ([], OpSet k _) | ([], OpUnset k) => k <> []
  | _ => False
  end.

Fixpoint steps_ok (ops : list step) (n : node) : Prop :=
  match ops with
  | [] => True
  | s :: rest => ok_step n s /\ steps_ok rest (snd (run_op hash (fst s) (snd s) n))
  end.

Lemma oinv_of_abs n : (forall l, abs n <> TObj l) -> oinv hash n.
Proof.
  destruct n; cbn [oinv]; auto; intros H; exfalso.
  - eapply H. apply abs_object_lazy.
  - destruct v; [eapply H; apply abs_object|eapply H; reflexivity].
Qed.

Lemma R2_of_R_arr n t : R n t -> is_tarr t -> R2 hash n t.
Proof.
  intros (E & A & IA & _) HT. split; auto. split; auto. split; auto.
  apply oinv_of_abs. intros l X. rewrite A in X. destruct t; try contradiction; discriminate.
Qed.

Lemma R2_of_RO_obj n t : RO hash n t -> is_tobj t -> R2 hash n t.
Proof.
  intros (E & A & IO) HT. split; auto. split; auto. split; auto.
  apply arr_inv_of_abs. intros l X. rewrite A in X. destruct t; try contradiction; discriminate.
Qed.

Definition is_scalar (t : tree) : Prop := match t with TArr _ | TObj _ => False | _ => True end.

(* a checked, existing node that denotes a scalar is that scalar *)
Lemma scalar_node n t : exists_ n = true -> RootRefine.not_raw n -> abs n = t -> is_scalar t ->
  is_array n = false /\ is_object n = false /\ n = parse_scalar t.
Proof.
  intros E NR A HS. destruct n; simpl in E; try discriminate; try contradiction; simpl in A; subst t; simpl in HS; auto;
    try contradiction; destruct v; contradiction.
Qed.

Lemma R2_scalar t : is_scalar t -> R2 hash (parse_scalar t) t.
Proof. destruct t; simpl; try contradiction; intros _; repeat split; auto. Qed.

Lemma run_root o n : exists_ n = true -> run_op hash [] o n = apply_op hash o n.
Proof. destruct n; simpl; try discriminate; reflexivity. Qed.

(* ---- the positional operations and Pop on any node ---- *)
Lemma setidx_refines4 n t idx r tv : R2 hash n t ->
  fst (run_op hash [] (OpSetIdx idx (r, tv)) n) = fst (spec_op [] (OpSetIdx idx (r, tv)) t) /\
  R2 hash (snd (run_op hash [] (OpSetIdx idx (r, tv)) n)) (snd (spec_op [] (OpSetIdx idx (r, tv)) t)).
Proof.
  intros H. rewrite (run_root _ n (proj1 H)). cbn [apply_op spec_op].
  destruct t eqn:ET.
  all: try (destruct (R2_checkRaw hash n t ltac:(subst t; exact H)) as (EC & HC & NR); destruct HC as (E1 & A1 & IA1 & IO1)).
  - (* null *) 
    destruct (scalar_node (snd (checkRaw hash n)) t E1 NR A1 ltac:(subst t; exact I)) as (NA & NO & EQ).
    destruct (abs_mk_value hash (r, tv)) as (EV & AV). simpl in AV.
    unfold op_setidx. destruct (checkRaw hash n) as [e n1]. cbn [fst snd] in *. subst e n1 t. cbn [err_ok negb parse_scalar spec_apply].
    destruct (idx =? 0); cbn [fst snd].
    + split; [reflexivity|]. apply R2_of_R_arr; [|exact I].
      destruct (FromSlice_spec NNone [mk_value hash (r, tv)]) as (WF & TL).
      unfold R, NewArray. rewrite abs_newArray, TL. unfold live_abs. cbn [filter map]. rewrite EV. cbn [map]. rewrite AV.
      split; [reflexivity|split; [reflexivity|split; [|exact I]]].
      unfold newArray, arr_inv. split; [exact WF|]. rewrite TL. cbn [filter]. rewrite EV. reflexivity.
    + split; [reflexivity|]. apply (R2_scalar TNull I).
  - (* true *) destruct (scalar_node (snd (checkRaw hash n)) t E1 NR A1 ltac:(subst t; exact I)) as (NA & NO & EQ).
    unfold op_setidx. destruct (checkRaw hash n) as [e n1]. cbn [fst snd] in *. subst e n1 t. cbn [err_ok negb parse_scalar spec_apply fst snd].
    split; [reflexivity|apply (R2_scalar TTrue I)].
  - destruct (scalar_node (snd (checkRaw hash n)) t E1 NR A1 ltac:(subst t; exact I)) as (NA & NO & EQ).
    unfold op_setidx. destruct (checkRaw hash n) as [e n1]. cbn [fst snd] in *. subst e n1 t. cbn [err_ok negb parse_scalar spec_apply fst snd].
    split; [reflexivity|apply (R2_scalar TFalse I)].
  - destruct (scalar_node (snd (checkRaw hash n)) t E1 NR A1 ltac:(subst t; exact I)) as (NA & NO & EQ).
    unfold op_setidx. destruct (checkRaw hash n) as [e n1]. cbn [fst snd] in *. subst e n1 t. cbn [err_ok negb parse_scalar spec_apply fst snd].
    split; [reflexivity|apply (R2_scalar (TNum s) I)].
  - destruct (scalar_node (snd (checkRaw hash n)) t E1 NR A1 ltac:(subst t; exact I)) as (NA & NO & EQ).
    unfold op_setidx. destruct (checkRaw hash n) as [e n1]. cbn [fst snd] in *. subst e n1 t. cbn [err_ok negb parse_scalar spec_apply fst snd].
    split; [reflexivity|apply (R2_scalar (TStr s) I)].
  - (* array *) subst t. destruct (op_setidx_array hash n (TArr l) idx r tv (R2_R hash _ _ H) I) as (A & B & C).
    split; [exact A|]. apply R2_of_R_arr; auto.
  - (* object *) subst t. destruct (op_setidx_object hash n (TObj l) idx r tv (R2_RO hash _ _ H) I) as (A & B & C).
    split; [exact A|]. apply R2_of_RO_obj; auto.
Qed.

Lemma unsetidx_refines4 n t idx : R2 hash n t ->
  fst (run_op hash [] (OpUnsetIdx idx) n) = fst (spec_op [] (OpUnsetIdx idx) t) /\
  R2 hash (snd (run_op hash [] (OpUnsetIdx idx) n)) (snd (spec_op [] (OpUnsetIdx idx) t)).
Proof.
  intros H. rewrite (run_root _ n (proj1 H)). cbn [apply_op spec_op].
  destruct (R2_checkRaw hash n t H) as (EC & HC & NR). destruct HC as (E1 & A1 & IA1 & IO1).
  assert (SC : is_scalar t ->
    fst (op_unsetidx hash idx n) = fst (spec_apply (OpUnsetIdx idx) t) /\
    R2 hash (snd (op_unsetidx hash idx n)) (snd (spec_apply (OpUnsetIdx idx) t))).
  { intros HS. destruct (scalar_node (snd (checkRaw hash n)) t E1 NR A1 HS) as (NA & NO & EQ).
    unfold op_unsetidx. destruct (checkRaw hash n) as [e n1]. cbn [fst snd] in *. subst e. cbn [err_ok negb].
    rewrite NA, NO. cbn [fst snd]. subst n1.
    destruct t; simpl in HS; try contradiction; (split; [reflexivity|apply R2_scalar; exact I]). }
  destruct t eqn:ET; try (apply SC; exact I).
  - destruct (op_unsetidx_array hash n (TArr l) idx (R2_R hash _ _ H) I) as (A & B & C).
    split; [exact A|]. apply R2_of_R_arr; auto.
  - destruct (op_unsetidx_object hash hash_inj hash_nz n (TObj l) idx (R2_RO hash _ _ H) I) as (A & B & C).
    split; [exact A|]. apply R2_of_RO_obj; auto.
Qed.

Lemma pop_refines4 n t : R2 hash n t ->
  fst (run_op hash [] OpPop n) = fst (spec_op [] OpPop t) /\
  R2 hash (snd (run_op hash [] OpPop n)) (snd (spec_op [] OpPop t)).
Proof.
  intros H. rewrite (run_root _ n (proj1 H)). cbn [apply_op spec_op].
  destruct (R2_checkRaw hash n t H) as (EC & HC & NR). destruct HC as (E1 & A1 & IA1 & IO1).
  assert (SC : is_scalar t ->
    fst (op_pop hash n) = fst (spec_apply OpPop t) /\ R2 hash (snd (op_pop hash n)) (snd (spec_apply OpPop t))).
  { intros HS. destruct (scalar_node (snd (checkRaw hash n)) t E1 NR A1 HS) as (NA & NO & EQ).
    unfold op_pop. destruct (checkRaw hash n) as [e n1]. cbn [fst snd] in *. subst e. cbn [err_ok negb].
    unfold pop_node. rewrite NA, NO. cbn [fst snd]. subst n1.
    destruct t; simpl in HS; try contradiction; (split; [reflexivity|apply R2_scalar; exact I]). }
  destruct t eqn:ET; try (apply SC; exact I).
  - destruct (op_pop_array hash n (TArr l) (R2_R hash _ _ H) I) as (A & B & C).
    split; [exact A|]. apply R2_of_R_arr; auto.
  - destruct (op_pop_object hash hash_inj hash_nz n (TObj l) (R2_RO hash _ _ H) I) as (A & B & C).
    split; [exact A|]. apply R2_of_RO_obj; auto.
Qed.

(* Len on a node that is not lazy *)
Lemma len_refines4 n t : R2 hash n t -> not_lazy (snd (checkRaw hash n)) ->
  fst (run_op hash [] OpLen n) = fst (spec_op [] OpLen t) /\
  R2 hash (snd (run_op hash [] OpLen n)) (snd (spec_op [] OpLen t)).
Proof.
  intros H NL. rewrite (run_root _ n (proj1 H)). cbn [apply_op spec_op].
  destruct (R2_checkRaw hash n t H) as (EC & HC & NR).
  unfold op_len. destruct (checkRaw hash n) as [e n1]. cbn [fst snd] in *. subst e. cbn [err_ok negb].
  pose proof HC as HC'. destruct HC as (E1 & A1 & IA1 & IO1).
  destruct n1; simpl in E1; try discriminate; try contradiction; simpl in A1; subst t; cbn [spec_apply fst snd];
    try (split; [reflexivity|exact HC']).
  - (* loaded array *) destruct v as [v|].
    + cbn [arr_inv] in IA1. destruct IA1 as (W & L). rewrite to_list_lmap, live_abs_eq, live_abs_length.
      split; [now rewrite L|]. destruct HC' as (X1 & X2 & X3 & X4). split; auto. split; auto.
      simpl. now rewrite to_list_lmap, live_abs_eq.
    + cbn [arr_inv] in IA1. subst l. split; [reflexivity|exact HC'].
  - (* loaded object *) destruct v as [v|].
    + cbn [oinv] in IO1. destruct IO1 as (W & CO & L & II). rewrite to_list_lmap, live_pabs_eq, live_pabs_length.
      split; [now rewrite L|]. destruct HC' as (X1 & X2 & X3 & X4). split; auto. split; auto.
      simpl. now rewrite to_list_lmap, live_pabs_eq.
    + cbn [oinv] in IO1. subst l. split; [reflexivity|exact HC'].
Qed.

(* ---- node_refines_tree at the root ---- *)
Theorem node_refines_tree_root : forall ops n t,
  R2 hash n t -> steps_ok ops n ->
  fst (run hash ops n) = fst (spec_run ops t) /\ R2 hash (snd (run hash ops n)) (snd (spec_run ops t)).
Proof.
  induction ops as [|[p o] ops IH]; intros n t HR HF; simpl.
  - auto.
  - cbn [steps_ok fst snd] in HF. destruct HF as (F1 & F2).
    destruct p; [|destruct o; contradiction].
    assert (STEP : fst (run_op hash [] o n) = fst (spec_op [] o t) /\ R2 hash (snd (run_op hash [] o n)) (snd (spec_op [] o t))).
    { destruct o; cbn [ok_step] in F1; try contradiction.
      - rewrite (look_refines2 hash n t HR). cbn [fst snd spec_op spec_apply]. auto.
      - apply len_refines4; auto.
      - destruct v as [r tv]. apply set_refines2; auto.
      - destruct v as [r tv]. apply setidx_refines4; auto.
      - apply add_refines2; auto.
      - apply unset_refines2; auto.
      - apply unsetidx_refines4; auto.
      - apply pop_refines4; auto.
      - destruct (load_refines2 hash n t HR) as (L1 & L2). cbn [spec_op spec_apply fst snd] in *. auto. }
    destruct STEP as (S1 & S2).
    destruct (run_op hash [] o n) as [ob n1] eqn:ER. destruct (spec_op [] o t) as [sb t1]. cbn [fst snd] in S1, S2, F2. subst sb.
    destruct (IH n1 t1 S2 F2) as (I1 & I2).
    destruct (run hash ops n1), (spec_run ops t1). cbn [fst snd] in *. subst. auto.
Qed.

Theorem node_refines_tree_root_from_doc : forall v ops,
  steps_ok ops (mk_value hash v) ->
  fst (run hash ops (mk_value hash v)) = fst (spec_run ops (snd v)).
Proof.
  intros v ops HF. apply node_refines_tree_root; auto.
  destruct v as [r t]. cbn [snd].
  assert (HR : R (mk_value hash (r, t)) t).
  { destruct r; cbn [mk_value fst snd].
    - unfold R. simpl. auto.
    - unfold R. simpl. auto.
    - apply R_parse_lazy.
    - apply R_build_full. }
  destruct HR as (E & A & IA & _). split; auto. split; auto. split; auto.
  destruct r; cbn [mk_value fst snd]; try exact I.
  - apply RO_parse_lazy.
  - apply oinv_build_full.
Qed.

End Ops.
