(* Ast/Linked.v - model of /repo/ast/buffer.go: linkedNodes / linkedPairs.

   linkedNodes = { head [16]Node ; tail []*nodeChunk ; size int }.  The element type is a parameter
   (Node for linkedNodes, Pair for linkedPairs: the two Go types are textually the same code).
   Names follow the Go source.  Indices are nat (the callers in node.go never pass a negative index to
   Set/Push/Pop; At/MoveOne with a negative index return nil / do nothing, which is the nat-level
   "out of range" case).

   Simplification (stated in notes/C15.md): a tail slot that growTailLength leaves nil and that Set then
   fills with new(nodeChunk) is modelled as a chunk of zero values from the start; the two differ only
   for At on a chunk that was never written, which needs Set(i) with i > size - no caller does that
   (Set is reached through Push = Set(size) and Pop = Set(size-1)). *)
From Coq Require Import List Arith Bool Lia.
From SV.Gen Require Import AstConsts.
Import ListNotations.

(* _DEFAULT_NODE_CAP, regenerated from /repo/ast/parser.go on every run (Gen/AstConsts.v) *)
Definition CAP : nat := Eval compute in DEFAULT_NODE_CAP.

Record linked (A : Type) := mkLinked { head : list A; tail : list (list A); size : nat }.
Arguments mkLinked {A}. Arguments head {A}. Arguments tail {A}. Arguments size {A}.

(* l[i] = v  (no-op when i is out of range: Go would panic, never reached) *)
Fixpoint upd {A} (l : list A) (i : nat) (v : A) : list A :=
  match l, i with
  | [], _ => []
  | _ :: t, O => v :: t
  | h :: t, S j => h :: upd t j v
  end.

Section Ops.
Context {A : Type} (dflt : A).

Definition zero_chunk : list A := repeat dflt CAP.
Definition empty : linked A := mkLinked zero_chunk [] 0.       (* new(linkedNodes) *)

Definition Len (s : linked A) : nat := size s.
Definition Cap (s : linked A) : nat := (length (tail s) + 1) * CAP.

(* func (self *linkedNodes) At(i int) *Node *)
Definition At (s : linked A) (i : nat) : option A :=
  if (i <? size s) && (i <? CAP) then nth_error (head s) i
  else if (CAP <=? i) && (i <? size s) then
    let a := i / CAP - 1 in
    let b := i mod CAP in
    if a <? length (tail s) then
      match nth_error (tail s) a with Some c => nth_error c b | None => None end
    else None
  else None.

(* growTailLength(l): the tail slice gets length l (new slots hold fresh chunks, see header) *)
Definition growTailLength (t : list (list A)) (l : nat) : list (list A) :=
  if l <=? length t then t else t ++ repeat zero_chunk (l - length t).

Definition upd_chunk (t : list (list A)) (a b : nat) (v : A) : list (list A) :=
  match nth_error t a with
  | Some c => upd t a (upd c b v)
  | None => t
  end.

(* func (self *linkedNodes) Set(i int, v Node) *)
Definition Set_ (s : linked A) (i : nat) (v : A) : linked A :=
  if i <? CAP then
    mkLinked (upd (head s) i v) (tail s) (if size s <=? i then i + 1 else size s)
  else
    let a := i / CAP - 1 in
    let b := i mod CAP in
    let t := growTailLength (tail s) (a + 1) in
    mkLinked (head s) (upd_chunk t a b v) (if size s <=? i then i + 1 else size s).

Definition Push (s : linked A) (v : A) : linked A := Set_ s (size s) v.

(* func (self *linkedNodes) Pop() *)
Definition Pop (s : linked A) : linked A :=
  if size s =? 0 then s
  else let s' := Set_ s (size s - 1) dflt in
       mkLinked (head s') (tail s') (size s' - 1).

(* *self.At(i) = v : a store through the pointer At returns (nothing happens when At is nil) *)
Definition assign (s : linked A) (i : nat) (v : A) : linked A :=
  match At s i with
  | None => s
  | Some _ =>
    if i <? CAP then mkLinked (upd (head s) i v) (tail s) (size s)
    else mkLinked (head s) (upd_chunk (tail s) (i / CAP - 1) (i mod CAP) v) (size s)
  end.

(* for i := source; i < target; i++ { *At(i) = *At(i+1) }   (n iterations starting at i) *)
Fixpoint shift_back (s : linked A) (i n : nat) : linked A :=
  match n with
  | O => s
  | S n' => match At s (i + 1) with
            | Some x => shift_back (assign s i x) (i + 1) n'
            | None => s
            end
  end.

(* for i := source; i > target; i-- { *At(i) = *At(i-1) }   (n iterations starting at i) *)
Fixpoint shift_fwd (s : linked A) (i n : nat) : linked A :=
  match n with
  | O => s
  | S n' => match At s (i - 1) with
            | Some x => shift_fwd (assign s i x) (i - 1) n'
            | None => s
            end
  end.

(* func (self *linkedNodes) MoveOne(source int, target int) *)
Definition MoveOne (s : linked A) (source target : nat) : linked A :=
  if source =? target then s
  else if (size s <=? source) || (size s <=? target) then s
  else match At s source with
       | None => s
       | Some n =>
         let s1 := if source <? target then shift_back s source (target - source)
                   else shift_fwd s source (source - target) in
         assign s1 target n
       end.

(* chunks of CAP elements, the last one padded with zero values (FromSlice's tail loop) *)
Fixpoint chunks (fuel : nat) (con : list A) : list (list A) :=
  match fuel with
  | O => []
  | S f =>
    match con with
    | [] => []
    | _ => let c := firstn CAP con in
           (c ++ repeat dflt (CAP - length c)) :: chunks f (skipn CAP con)
    end
  end.

(* func (self *linkedNodes) FromSlice(con []Node)  on a fresh receiver *)
Definition FromSlice (con : list A) : linked A :=
  let h := firstn CAP con in
  mkLinked (h ++ repeat dflt (CAP - length h)) (chunks (length con) (skipn CAP con)) (length con).

(* func (self *linkedNodes) ToSlice(con []Node)  with len(con) = size *)
Definition ToSlice (s : linked A) : list A :=
  match size s with
  | O => []
  | S i =>
    if i <? CAP then firstn (i + 1) (head s)
    else
      let a := i / CAP - 1 in
      let b := i mod CAP in
      head s ++ concat (firstn a (tail s)) ++ firstn (b + 1) (nth a (tail s) [])
  end.

(* the abstraction: the first size cells of head ++ tail chunks *)
Definition to_list (s : linked A) : list A := firstn (size s) (head s ++ concat (tail s)).

(* *a, *b = *b, *a  on two At pointers *)
Definition swap_cells (s : linked A) (i j : nat) : linked A :=
  match At s i, At s j with
  | Some a, Some b => assign (assign s i b) j a
  | _, _ => s
  end.

End Ops.

(* map over every cell (used to define structural recursion through the nested node type) *)
Definition lmap {A B} (f : A -> B) (s : linked A) : linked B :=
  mkLinked (map f (head s)) (map (map f) (tail s)) (size s).
