(* Ast/IndexProofs.v - linkedPairs.Get (index fast path + linear fallback) = first-occurrence search over the cells,
   whenever the index is consistent with the live pairs; BuildIndex establishes that consistency when no key is
   duplicated.  The hash function is arbitrary (collisions allowed). *)
From Coq Require Import List Arith Bool NArith Lia.
From SV.Ast Require Import Linked Tree LinkedProofs Node.
Import ListNotations.

Arguments Nat.div : simpl never.
Arguments Nat.modulo : simpl never.
Arguments Nat.ltb : simpl never.
Arguments Nat.leb : simpl never.
Arguments CAP : simpl never.

Lemma bytes_eqb_eq a b : bytes_eqb a b = true <-> a = b.
Proof.
  revert b; induction a; destruct b; simpl; split; intros; try discriminate; auto.
  - apply andb_true_iff in H as (H1 & H2). apply N.eqb_eq in H1. apply IHa in H2. congruence.
  - inversion H; subst. apply andb_true_iff. split; [apply N.eqb_refl | now apply IHa].
Qed.

Lemma bytes_eqb_refl a : bytes_eqb a a = true.
Proof. now apply bytes_eqb_eq. Qed.

Lemma bytes_eqb_neq a b : bytes_eqb a b = false <-> a <> b.
Proof.
  split; intros.
  - intros E. apply bytes_eqb_eq in E. congruence.
  - destruct (bytes_eqb a b) eqn:E; auto. apply bytes_eqb_eq in E. contradiction.
Qed.

(* ---- the map ---- *)
Lemma idx_get_del_same m h : idx_get (idx_del m h) h = None.
Proof.
  induction m as [|[h' i] m IH]; simpl; auto.
  destruct (N.eqb h' h) eqn:E; simpl; auto. now rewrite E.
Qed.

Lemma idx_get_del_other m h h' : h <> h' -> idx_get (idx_del m h) h' = idx_get m h'.
Proof.
  intros N. induction m as [|[h0 i] m IH]; simpl; auto.
  destruct (N.eqb h0 h) eqn:E; simpl.
  - apply N.eqb_eq in E. subst. destruct (N.eqb h h') eqn:E2; auto. apply N.eqb_eq in E2. contradiction.
  - destruct (N.eqb h0 h'); auto.
Qed.

Lemma idx_get_set_same m h i : idx_get (idx_set m h i) h = Some i.
Proof. unfold idx_set. simpl. now rewrite N.eqb_refl. Qed.

Lemma idx_get_set_other m h i h' : h <> h' -> idx_get (idx_set m h i) h' = idx_get m h'.
Proof.
  intros N. unfold idx_set. simpl. destruct (N.eqb h h') eqn:E.
  - apply N.eqb_eq in E. contradiction.
  - now apply idx_get_del_other.
Qed.

(* ---- first occurrence of a key among the cells ---- *)
Fixpoint find_cell (l : list (pair node)) (key : bytes) (i : nat) : option nat :=
  match l with
  | [] => None
  | (_, k, _) :: tl => if bytes_eqb k key then Some i else find_cell tl key (S i)
  end.

Definition getres_of (o : option nat) : getres := match o with Some i => GFound i | None => GMissing end.

Lemma find_cell_bound l key i j : find_cell l key i = Some j -> i <= j < i + length l.
Proof.
  revert i. induction l as [|[[h k] c] l IH]; simpl; intros; try discriminate.
  destruct (bytes_eqb k key).
  - inversion H. lia.
  - apply IH in H. lia.
Qed.

Lemma find_cell_key l key i j : find_cell l key i = Some j ->
  exists h c, nth_error l (j - i) = Some (h, key, c).
Proof.
  revert i. induction l as [|[[h k] c] l IH]; simpl; intros; try discriminate.
  destruct (bytes_eqb k key) eqn:E.
  - inversion H; subst. apply bytes_eqb_eq in E. subst. rewrite Nat.sub_diag. simpl. eauto.
  - pose proof (find_cell_bound _ _ _ _ H). apply IH in H as (h' & c' & H).
    replace (j - i) with (S (j - S i)) by lia. simpl. eauto.
Qed.

Lemma find_cell_none l key i : find_cell l key i = None ->
  forall j h k c, nth_error l j = Some (h, k, c) -> k <> key.
Proof.
  revert i. induction l as [|[[h0 k0] c0] l IH]; simpl; intros.
  - destruct j; discriminate.
  - destruct (bytes_eqb k0 key) eqn:E; try discriminate.
    destruct j; simpl in *.
    + inversion H0; subst. now apply bytes_eqb_neq.
    + eapply IH; eauto.
Qed.

(* the first cell with the key is the only one when the key occurs once *)
Lemma find_cell_unique l key i j h c :
  nth_error l j = Some (h, key, c) ->
  (forall j' h' c', nth_error l j' = Some (h', key, c') -> j' = j) ->
  find_cell l key i = Some (i + j).
Proof.
  revert i j. induction l as [|[[h0 k0] c0] l IH]; intros i j Hj U.
  - destruct j; discriminate.
  - simpl. destruct (bytes_eqb k0 key) eqn:E.
    + apply bytes_eqb_eq in E. subst. specialize (U 0 h0 c0 eq_refl). subst. f_equal. lia.
    + destruct j; simpl in Hj.
      * inversion Hj; subst. rewrite bytes_eqb_refl in E. discriminate.
      * rewrite (IH (S i) j Hj).
        -- f_equal. lia.
        -- intros j' h' c' H'. specialize (U (S j') h' c' H'). lia.
Qed.

Section Get.
Variable hash : bytes -> N.

Lemma linear_search_spec (s : linked (pair node)) key i fuel :
  wf s -> key <> [] -> i + fuel = size s ->
  linear_search s key i fuel = getres_of (find_cell (skipn i (to_list s)) key i).
Proof.
  intros W KE. assert (NK : is_nil key = false) by (destruct key; [congruence|reflexivity]).
  revert i. induction fuel; intros i Hf; simpl.
  - rewrite skipn_all2; auto. rewrite (to_list_length _ W). lia.
  - replace (size s <=? i) with false by (symmetry; apply Nat.leb_gt; lia).
    rewrite (At_spec _ _ W).
    destruct (nth_error (to_list s) i) as [[[h k] c]|] eqn:E.
    + rewrite (IHfuel (S i)) by lia.
      assert (Hs : skipn i (to_list s) = (h, k, c) :: skipn (S i) (to_list s)).
      { clear - E. revert i E. induction (to_list s); intros; destruct i; simpl in *; try discriminate.
        - now inversion E.
        - now apply IHl. }
      rewrite Hs. simpl. rewrite NK. simpl. rewrite andb_true_r. destruct (bytes_eqb k key); reflexivity.
    + apply nth_error_None in E. rewrite (to_list_length _ W) in E. lia.
Qed.

(* what the check calls "index consistent": every live pair is indexed at its own cell; unset cells are Pair{} *)
Definition cells_ok (l : list (pair node)) : Prop :=
  forall j h k c, nth_error l j = Some (h, k, c) ->
    (exists_ c = true -> h = hash k) /\ (exists_ c = false -> k = [] /\ h = 0%N).

Definition index_ok (m : list (N * nat)) (l : list (pair node)) : Prop :=
  (forall j h k c, nth_error l j = Some (h, k, c) -> exists_ c = true -> idx_get m (hash k) = Some j) /\
  (forall h i, idx_get m h = Some i -> exists k c, nth_error l i = Some (h, k, c)).

Definition nodup_live (l : list (pair node)) : Prop :=
  forall j1 j2 h1 h2 k c1 c2,
    nth_error l j1 = Some (h1, k, c1) -> nth_error l j2 = Some (h2, k, c2) ->
    exists_ c1 = true -> exists_ c2 = true -> j1 = j2.

(* index_get_spec: with a consistent index, Get(key) for a non-empty key is the first-occurrence search, and it
   never dereferences nil *)
Theorem index_get_spec (s : lpairs node) key :
  wf (pv s) -> cells_ok (to_list (pv s)) -> nodup_live (to_list (pv s)) ->
  (forall m, index s = Some m -> index_ok m (to_list (pv s))) ->
  key <> [] ->
  P_Get hash s key = getres_of (find_cell (to_list (pv s)) key 0).
Proof.
  intros W CO ND IO KE. unfold P_Get.
  destruct (index s) as [m|] eqn:EI.
  2:{ rewrite (linear_search_spec _ _ 0 (size (pv s)) W KE) by lia. reflexivity. }
  destruct (IO m eq_refl) as (I1 & I2).
  destruct (idx_get m (hash key)) as [i|] eqn:EG.
  - destruct (I2 _ _ EG) as (k & c & E). rewrite (At_spec _ _ W), E. set (h := hash key) in E.
    destruct (bytes_eqb k key) eqn:EK.
    + apply bytes_eqb_eq in EK. subst k.
      destruct (CO _ _ _ _ E) as (C1 & C2).
      assert (Hl : exists_ c = true).
      { destruct (exists_ c) eqn:X; auto. destruct (C2 eq_refl). contradiction. }
      rewrite (find_cell_unique _ key 0 i h c E); auto.
      intros j' h' c' H'. destruct (CO _ _ _ _ H') as (_ & C2').
      assert (exists_ c' = true).
      { destruct (exists_ c') eqn:X; auto. destruct (C2' eq_refl). contradiction. }
      eapply ND; eauto.
    + rewrite (linear_search_spec _ _ 0 (size (pv s)) W KE) by lia. reflexivity.
  - destruct (find_cell (to_list (pv s)) key 0) as [j|] eqn:F; auto.
    exfalso. destruct (find_cell_key _ _ _ _ F) as (h & c & Hj).
    destruct (CO _ _ _ _ Hj) as (_ & C2).
    assert (exists_ c = true).
    { destruct (exists_ c) eqn:X; auto. destruct (C2 eq_refl). contradiction. }
    rewrite (I1 _ _ _ _ Hj H) in EG. discriminate.
Qed.

(* without an index Get is the linear search (stated for non-empty keys; for the key "" the search skips soft-deleted cells
   since fix 6c9aabd, see Refute.emptykey_unset_agrees) *)
Theorem noindex_get_spec (s : lpairs node) key :
  wf (pv s) -> index s = None -> key <> [] -> P_Get hash s key = getres_of (find_cell (to_list (pv s)) key 0).
Proof.
  intros W EI KE. unfold P_Get. rewrite EI.
  rewrite (linear_search_spec _ _ 0 (size (pv s)) W KE) by lia. reflexivity.
Qed.

End Get.
