(* Ast/RootRefine3.v - node_refines_tree_partial, third fragment: documents whose root is an array, every sequence of root-level
   Look / Load / LoadAll / Add / SetByIndex / UnsetByIndex / Pop (any index, in or out of range). *)
From Coq Require Import List Arith Bool NArith Lia.
From SV.Ast Require Import Linked Tree LinkedProofs Node IndexProofs NodeRefine ArrayRefine RootRefine ObjectRefine ArrayOps ArraySet.
Import ListNotations.

Definition frag3 (s : step) : bool :=
  match s with
  | ([], OpLook) | ([], OpLoad) | ([], OpAdd _) | ([], OpSetIdx _ _) | ([], OpUnsetIdx _) | ([], OpPop) => true
  | _ => false
  end.

Section Ops.
Variable hash : bytes -> N.

Definition R3 (n : node) (t : tree) : Prop := R n t /\ is_tarr t.

Lemma run_root o n : exists_ n = true -> run_op hash [] o n = apply_op hash o n.
Proof. destruct n; simpl; try discriminate; reflexivity. Qed.

Theorem node_refines_tree_partial3 : forall ops n t,
  R3 n t -> forallb frag3 ops = true ->
  fst (run hash ops n) = fst (spec_run ops t) /\ R3 (snd (run hash ops n)) (snd (spec_run ops t)).
Proof.
  induction ops as [|[p o] ops IH]; intros n t HR HF; simpl.
  - auto.
  - simpl in HF. apply andb_true_iff in HF as (F1 & F2).
    destruct p; try discriminate. destruct HR as (HR & HT).
    assert (EX : exists_ n = true) by apply HR.
    assert (STEP : fst (run_op hash [] o n) = fst (spec_op [] o t) /\ R3 (snd (run_op hash [] o n)) (snd (spec_op [] o t))).
    { destruct o; try discriminate.
      - rewrite (look_refines hash n t HR). cbn [fst snd spec_op spec_apply]. split; [reflexivity|split; auto].
      - destruct v as [r tv]. rewrite (run_root _ n EX). cbn [apply_op spec_op].
        destruct (op_setidx_array hash n t i r tv HR HT) as (A & B & C). split; [exact A|split; [exact B|exact C]].
      - destruct (add_refines hash n t v HR) as (A & B). split; [exact A|]. split; [exact B|].
        cbn [spec_op]. destruct t; try contradiction. destruct v. exact I.
      - rewrite (run_root _ n EX). cbn [apply_op spec_op].
        destruct (op_unsetidx_array hash n t i HR HT) as (A & B & C). split; [exact A|split; [exact B|exact C]].
      - rewrite (run_root _ n EX). cbn [apply_op spec_op].
        destruct (op_pop_array hash n t HR HT) as (A & B & C). split; [exact A|split; [exact B|exact C]].
      - destruct (load_refines hash n t HR) as (A & B). cbn [spec_op spec_apply fst snd] in *. split; [exact A|split; auto]. }
    destruct STEP as (S1 & S2).
    destruct (run_op hash [] o n) as [ob n1]. destruct (spec_op [] o t) as [sb t1]. cbn [fst snd] in S1, S2. subst sb.
    destruct (IH n1 t1 S2 F2) as (I1 & I2).
    destruct (run hash ops n1), (spec_run ops t1). cbn [fst snd] in *. subst. auto.
Qed.

Theorem node_refines_tree_partial3_from_doc : forall r l ops,
  forallb frag3 ops = true ->
  fst (run hash ops (mk_value hash (r, TArr l))) = fst (spec_run ops (TArr l)).
Proof.
  intros r l ops HF. apply node_refines_tree_partial3; auto. split; [|exact I].
  destruct r; cbn [mk_value fst snd].
  - unfold R. simpl. auto.
  - unfold R. simpl. auto.
  - apply R_parse_lazy.
  - apply R_build_full.
Qed.

End Ops.
