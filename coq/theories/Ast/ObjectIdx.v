(* Ast/ObjectIdx.v - objects addressed by position (Index / SetByIndex / UnsetByIndex work on objects too) and Pop on objects:
   logical positions over soft-deleted pairs, skipIndexPair (loaded part, then loading on demand), the Pop loop with its
   index maintenance. *)
From Coq Require Import List Arith Bool NArith Lia.
From SV.Ast Require Import Linked Tree LinkedProofs Node IndexProofs NodeRefine ArrayRefine ObjectRefine ObjectOps ArrayOps ArraySet.
Import ListNotations.

Arguments Nat.div : simpl never.
Arguments Nat.modulo : simpl never.
Arguments Nat.ltb : simpl never.
Arguments Nat.leb : simpl never.
Arguments CAP : simpl never.

(* the physical cell of the i-th live pair, and what storing into it means for the member list *)
Lemma nth_live_pmembers l : forall i j0,
  match nth_live pexists l i j0 with
  | Some p =>
    exists h k c, nth_error l (p - j0) = Some (h, k, c) /\ exists_ c = true /\ j0 <= p /\
      nth_error (live_pabs l) i = Some (k, abs c) /\
      (forall c', exists_ c' = true -> live_pabs (upd l (p - j0) (h, k, c')) = replace_nth i (k, abs c') (live_pabs l)) /\
      live_pabs (upd l (p - j0) pzero) = remove_nth i (live_pabs l)
  | None => length (live_pabs l) <= i
  end.
Proof.
  induction l as [|[[h0 k0] c0] l IH]; intros i j0; cbn [nth_live].
  - simpl. lia.
  - unfold pexists at 1. cbn [snd]. destruct (exists_ c0) eqn:EX.
    + destruct i as [|i].
      * exists h0, k0, c0. rewrite Nat.sub_diag. cbn [nth_error upd]. rewrite !live_pabs_cons. unfold pexists. cbn [fst snd].
        rewrite EX. cbn [nth_error replace_nth remove_nth exists_].
        split; [reflexivity|]. split; [reflexivity|]. split; [lia|]. split; [reflexivity|]. split.
        -- intros c' Hc'. rewrite live_pabs_cons. unfold pexists. cbn [fst snd]. now rewrite Hc'.
        -- reflexivity.
      * specialize (IH i (S j0)). destruct (nth_live pexists l i (S j0)) as [p|].
        -- destruct IH as (h & k & c & N1 & N2 & N3 & N4 & N5 & N6). exists h, k, c.
           replace (p - j0) with (S (p - S j0)) by lia. cbn [nth_error upd]. rewrite !live_pabs_cons. unfold pexists. cbn [fst snd].
           rewrite EX. cbn [nth_error replace_nth remove_nth].
           split; [exact N1|]. split; [exact N2|]. split; [lia|]. split; [exact N4|]. split.
           ++ intros c' Hc'. rewrite live_pabs_cons. unfold pexists. cbn [fst snd]. rewrite EX. f_equal. auto.
           ++ f_equal. exact N6.
        -- rewrite live_pabs_cons. unfold pexists. cbn [fst snd]. rewrite EX. simpl. lia.
    + specialize (IH i (S j0)). destruct (nth_live pexists l i (S j0)) as [p|].
      * destruct IH as (h & k & c & N1 & N2 & N3 & N4 & N5 & N6). exists h, k, c.
        replace (p - j0) with (S (p - S j0)) by lia. cbn [nth_error upd]. rewrite !live_pabs_cons. unfold pexists. cbn [fst snd].
        rewrite EX.
        split; [exact N1|]. split; [exact N2|]. split; [lia|]. split; [exact N4|]. split.
        -- intros c' Hc'. rewrite live_pabs_cons. unfold pexists. cbn [fst snd]. rewrite EX. auto.
        -- exact N6.
      * rewrite live_pabs_cons. unfold pexists. cbn [fst snd]. rewrite EX. exact IH.
Qed.

Section Ops.
Variable hash : bytes -> N.
Hypothesis hash_inj : forall a b, hash a = hash b -> a = b.
Hypothesis hash_nz : forall k, hash k <> 0%N.

(* skipIndexPair's loop in terms of the full cells *)
Lemma skip_indexpair_loop_cells idx0 : forall rest l v,
  wf (pv v) -> cells_ok hash (to_list (pv v)) -> forallb pexists (to_list (pv v)) = true ->
  l = size (pv v) -> Node.index v = None -> size (pv v) <= idx0 ->
  let r := skip_indexpair_loop hash idx0 l v rest in
  full_cells hash (snd r) = to_list (pv v) ++ map (mkcell hash) rest /\ oinv hash (snd r) /\ is_object (snd r) = true /\
  fst r = (if idx0 <? size (pv v) + length rest then Some idx0 else None) /\
  (forall j, fst r = Some j -> j < loaded_size (snd r)) /\
  (fst r = None -> not_lazy (snd r)).
Proof.
  induction rest as [|[k t] rest IH]; intros l v W CO AL L IN GE; cbn [skip_indexpair_loop].
  - cbn zeta. cbn [fst snd map]. rewrite app_nil_r. unfold setObject.
    destruct (newObject_inv hash v W CO AL IN) as (N1 & N2 & N3).
    split; [exact N2|]. split; [exact N1|]. split; [reflexivity|].
    replace (idx0 <? size (pv v) + length (@nil (bytes * tree))) with false by (symmetry; apply Nat.ltb_ge; simpl; lia).
    split; [reflexivity|]. split; [intros j Hj; discriminate|intros _; unfold newObject; exact I].
  - set (p := NewPair hash k (NRaw false t)).
    destruct (P_Push_props v p W IN) as (P1 & P2 & P3 & P4).
    set (v' := P_Push v p) in *.
    assert (CO' : cells_ok hash (to_list (pv v'))).
    { rewrite P1. apply cells_ok_app; auto. apply (cells_ok_mkcell hash [(k, t)]). }
    assert (AL' : forallb pexists (to_list (pv v')) = true) by (rewrite P1, forallb_app, AL; reflexivity).
    assert (EQ : to_list (pv v) ++ map (mkcell hash) ((k, t) :: rest) = to_list (pv v') ++ map (mkcell hash) rest).
    { rewrite P1, <- app_assoc. reflexivity. }
    destruct rest as [|kt2 rest].
    + cbn zeta. cbn [fst snd]. unfold setObject.
      destruct (newObject_inv hash v' P2 CO' AL' P4) as (N1 & N2 & N3).
      split; [rewrite N2, EQ; simpl; now rewrite app_nil_r|]. split; [exact N1|]. split; [reflexivity|].
      cbn [length]. rewrite P3.
      destruct (idx0 <? S (size (pv v))) eqn:E1.
      * apply Nat.ltb_lt in E1. replace (idx0 <? size (pv v) + 1) with true by (symmetry; apply Nat.ltb_lt; lia).
        split; [f_equal; lia|]. split; [|intros Hn; discriminate]. intros j Hj. injection Hj as <-. rewrite N3. pose proof P3 as P3'. unfold v', P_Push, P_Set in P3'. cbn [pv] in P3'. unfold v', P_Push, P_Set. cbn [pv]. lia.
      * apply Nat.ltb_ge in E1. replace (idx0 <? size (pv v) + 1) with false by (symmetry; apply Nat.ltb_ge; lia).
        split; [reflexivity|]. split; [intros j Hj; discriminate|intros _; unfold newObject; exact I].
    + destruct (idx0 <? S l) eqn:EI.
      * apply Nat.ltb_lt in EI. cbn zeta. cbn [fst snd full_cells oinv is_object loaded_size].
        split; [now rewrite EQ|]. split.
        { split; [exact P2|]. split; [exact CO'|]. split; [exact AL'|]. split; [lia|]. split; [discriminate|exact P4]. }
        split; [reflexivity|]. cbn [length].
        replace (idx0 <? size (pv v) + S (S (length rest))) with true by (symmetry; apply Nat.ltb_lt; lia).
        split; [f_equal; lia|]. split; [|intros Hn; discriminate]. intros j Hj. injection Hj as <-. pose proof P3 as P3'. unfold v', P_Push, P_Set in P3'. cbn [pv] in P3'. unfold v', P_Push, P_Set. cbn [pv]. lia.
      * apply Nat.ltb_ge in EI.
        destruct (IH (S l) v' P2 CO' AL' ltac:(lia) P4 ltac:(lia)) as (I1 & I2 & I3 & I4 & I5 & I6).
        cbn zeta in *. split; [now rewrite I1, EQ|]. split; [exact I2|]. split; [exact I3|].
        split; [|exact (conj I5 I6)]. rewrite I4, P3. cbn [length].
        replace (S (size (pv v)) + S (length rest)) with (size (pv v) + S (S (length rest))) by lia. reflexivity.
Qed.

Lemma pairAt_spec n idx : oinv hash n -> is_object n = true -> not_lazy n ->
  pairAt n idx = nth_live pexists (full_cells hash n) idx 0.
Proof.
  intros HI HO NL. destruct n; try discriminate; [contradiction|].
  destruct v as [v|]; [|reflexivity].
  cbn [oinv] in HI. destruct HI as (W & CO & L & II). cbn [pairAt full_cells].
  destruct (size (pv v) =? l) eqn:ES.
  - apply Nat.eqb_eq in ES. assert (AL : forallb pexists (to_list (pv v)) = true).
    { apply filter_length_all. rewrite (to_list_length _ W). lia. }
    rewrite (nth_live_all pexists _ idx 0 AL), (to_list_length _ W). reflexivity.
  - rewrite (scan_live_spec pexists (pv v) idx 0 (size (pv v)) W eq_refl). reflexivity.
Qed.

Theorem skipIndexPair_spec n idx :
  oinv hash n -> is_object n = true ->
  let r := skipIndexPair hash n idx in
  full_cells hash (snd r) = full_cells hash n /\ oinv hash (snd r) /\ is_object (snd r) = true /\
  fst r = nth_live pexists (full_cells hash n) idx 0 /\
  (forall j, fst r = Some j -> j < loaded_size (snd r)) /\
  (fst r = None -> not_lazy (snd r)).
Proof.
  intros HI HO. destruct n; try discriminate; unfold skipIndexPair; cbn [len].
  - cbn [oinv] in HI. destruct HI as (W & CO & AL & L & NE & IN). cbn [full_cells].
    assert (ALL : forallb pexists (to_list (pv v) ++ map (mkcell hash) rest) = true) by (rewrite forallb_app, AL; apply mkcell_live).
    rewrite (nth_live_all pexists _ idx 0 ALL), app_length, map_length, (to_list_length _ W).
    destruct (idx <? l) eqn:E1.
    + apply Nat.ltb_lt in E1. cbn [fst snd pairAt full_cells oinv is_object loaded_size].
      replace (idx <? size (pv v)) with true by (symmetry; apply Nat.ltb_lt; lia).
      replace (idx <? size (pv v) + length rest) with true by (symmetry; apply Nat.ltb_lt; lia).
      split; [reflexivity|]. split; [exact (conj W (conj CO (conj AL (conj L (conj NE IN)))))|]. split; [reflexivity|].
      split; [reflexivity|]. split; [|intros Hn; discriminate]. intros j Hj. inversion Hj. lia.
    + apply Nat.ltb_ge in E1.
      destruct (skip_indexpair_loop_cells idx rest l v W CO AL L IN ltac:(lia)) as (S1 & S2 & S3 & S4 & S5 & S6).
      cbn zeta in *. split; [exact S1|]. split; [exact S2|]. split; [exact S3|]. split; [exact S4|]. exact (conj S5 S6).
  - destruct v as [v|].
    + pose proof (pairAt_spec (NObject l (Some v)) idx HI eq_refl I) as PA.
      cbn [oinv] in HI. destruct HI as (W & CO & L & II). cbn [full_cells] in *.
      destruct (idx <? l) eqn:E1; cbn [fst snd full_cells oinv is_object loaded_size not_lazy].
      * rewrite PA. split; [reflexivity|]. split; [exact (conj W (conj CO (conj L II)))|]. split; [reflexivity|].
        split; [reflexivity|]. split; [|intros _; exact I]. intros j Hj.
        pose proof (nth_live_some pexists (to_list (pv v)) idx 0 j Hj) as (_ & x & Hx & _).
        rewrite Nat.sub_0_r in Hx. assert (j < length (to_list (pv v))) by (apply nth_error_Some; congruence).
        now rewrite (to_list_length _ W) in H.
      * apply Nat.ltb_ge in E1. split; [reflexivity|]. split; [exact (conj W (conj CO (conj L II)))|]. split; [reflexivity|]. split.
        { symmetry. destruct (nth_live pexists (to_list (pv v)) idx 0) eqn:EN; auto.
          pose proof (nth_live_some pexists _ _ _ _ EN) as (_ & x & _ & _ & Hx).
          assert (idx < length (filter pexists (to_list (pv v)))) by (apply nth_error_Some; congruence). lia. }
        split; [intros j Hj; discriminate|intros _; exact I].
    + cbn [oinv] in HI. subst l. cbn [fst snd full_cells nth_live oinv is_object not_lazy].
      replace (idx <? 0) with false by (symmetry; apply Nat.ltb_ge; lia). cbn [fst snd].
      split; [reflexivity|]. split; [reflexivity|]. split; [reflexivity|]. split; [reflexivity|].
      split; [intros j Hj; discriminate|intros _; exact I].
Qed.

End Ops.
