(* C13 - the SIMD dispatch table of internal/native/dispatch_amd64.go (regenerated into Gen/Dispatch.v).
   A boolean checker over the generated lists, run by vm_compute, and its lifting to a statement about the lists. *)
From Coq Require Import String Ascii List Bool Arith Lia.
From SV.Gen Require Import Dispatch.
Import ListNotations.
Open Scope string_scope.

(* ------------------------------------------------------------------ string helpers *)

Definition lower (c : ascii) : ascii :=
  let n := nat_of_ascii c in
  if Nat.leb 65 n && Nat.leb n 90 then ascii_of_nat (n + 32) else c.

(* lower-case, underscores dropped: "SkipOneFast" and "skip_one_fast" both become "skiponefast" *)
Fixpoint norm (s : string) : string :=
  match s with
  | EmptyString => EmptyString
  | String c r => if Ascii.eqb c "_"%char then norm r else String (lower c) (norm r)
  end.

Definition drop2 (s : string) : string :=
  match s with String _ (String _ r) => r | _ => s end.

Definition mem (x : string) (l : list string) : bool := existsb (String.eqb x) l.

Fixpoint nodupb (l : list string) : bool :=
  match l with
  | [] => true
  | x :: r => negb (mem x r) && nodupb r
  end.

Fixpoint lists_eqb (a b : list string) : bool :=
  match a, b with
  | [], [] => true
  | x :: a', y :: b' => String.eqb x y && lists_eqb a' b'
  | _, _ => false
  end.

Definition subset (a b : list string) : bool := forallb (fun x => mem x b) a.

(* ------------------------------------------------------------------ the rule relating a variable to its symbol *)

(* `S_x = pkg.S_x`;  `__CamelName = pkg.F_snake_name` *)
Definition sym_ok (v s : string) : bool :=
  if prefix "S_" v then String.eqb s v
  else if prefix "__" v then prefix "F_" s && String.eqb (norm (drop2 v)) (norm (drop2 s))
  else false.

Definition row_ok (pkg : string) (row : string * (string * string)) : bool :=
  let '(v, (pk, s)) := row in String.eqb pk pkg && sym_ok v s.

Definition lhs (t : list (string * (string * string))) : list string := map fst t.

Definition sym_of (t : list (string * (string * string))) (v : string) : option string :=
  match find (fun r => String.eqb (fst r) v) t with
  | Some (_, (_, s)) => Some s
  | None => None
  end.

Definition opt_eqb (a b : option string) : bool :=
  match a, b with
  | Some x, Some y => String.eqb x y
  | None, None => true
  | _, _ => false
  end.

(* variables that are declared but assigned by NEITHER useAVX2 nor useSSE on the pinned tree.  S_skip_one_fast is
   declared in dispatch_amd64.go and referenced nowhere else in the amd64 build (the JIT uses the function variable
   __SkipOneFast only); it stays 0 under both variants, so it cannot make them differ. *)
Definition never_assigned : list string := ["S_skip_one_fast"].

Definition declared : list string := func_vars ++ sym_vars.

Definition wrapper_ok (w : string * string) : bool :=
  let '(name, callee) := w in
  String.eqb callee ("__" ++ name) && mem callee func_vars.

(* every function variable is reachable through the wrapper of its own name *)
Definition funcvar_has_wrapper (f : string) : bool :=
  existsb (fun w => String.eqb (snd w) f && String.eqb ("__" ++ fst w) f) wrappers.

(* registration tables of avx2.Use / sse.Use: row = [text; cfunc; symbol; &S; &F; tag; file] with
   text = "_text"++symbol, cfunc = "_cfunc"++symbol, S = "S"++symbol, F = "F"++symbol, tag = pkg, file starts with pkg/ *)
Definition use_row_ok (pkg : string) (row : list string) : bool :=
  match row with
  | [text; cfn; sym; sv; fv; tag; file] =>
      String.eqb text ("_text" ++ sym) && String.eqb cfn ("_cfunc" ++ sym) &&
      String.eqb sv ("S" ++ sym) && String.eqb fv ("F" ++ sym) &&
      String.eqb tag pkg && prefix (pkg ++ "/") file
  | _ => false
  end.

Definition use_cols (n : nat) (t : list (list string)) : list string := map (fun r => nth n r "") t.

(* the file column with the package prefix removed must coincide *)
Fixpoint drop (n : nat) (s : string) : string :=
  match n, s with
  | S k, String _ r => drop k r
  | _, _ => s
  end.

Definition use_tables_ok : bool :=
  forallb (use_row_ok "avx2") avx2_use_table && forallb (use_row_ok "sse") sse_use_table &&
  lists_eqb (use_cols 2 avx2_use_table) (use_cols 2 sse_use_table) &&
  lists_eqb (map (drop 5) (use_cols 6 avx2_use_table)) (map (drop 4) (use_cols 6 sse_use_table)) &&
  nodupb (use_cols 2 avx2_use_table) &&
  (* every symbol a dispatch row takes from a package is registered by that package's Use() *)
  forallb (fun r => mem (snd (snd r)) (use_cols 3 avx2_use_table ++ use_cols 4 avx2_use_table)) useAVX2_assigns &&
  forallb (fun r => mem (snd (snd r)) (use_cols 3 sse_use_table ++ use_cols 4 sse_use_table)) useSSE_assigns.

Definition init_ok : bool :=
  match init_chain with
  | [(c1, f1); (c2, f2)] =>
      String.eqb c1 "cpu.HasAVX2" && String.eqb f1 "useAVX2" &&
      String.eqb c2 "cpu.HasSSE" && String.eqb f2 "useSSE" && init_else_panics
  | _ => false
  end.

Definition calls_ok : bool :=
  match useAVX2_calls, useSSE_calls with
  | [(p1, f1)], [(p2, f2)] => String.eqb p1 "avx2" && String.eqb f1 "Use" && String.eqb p2 "sse" && String.eqb f2 "Use"
  | _, _ => false
  end.

Definition tables_ok : bool :=
  (* same domain (as sets, no variable assigned twice) *)
  subset (lhs useAVX2_assigns) (lhs useSSE_assigns) && subset (lhs useSSE_assigns) (lhs useAVX2_assigns) &&
  nodupb (lhs useAVX2_assigns) && nodupb (lhs useSSE_assigns) &&
  (* each row takes the right symbol from its own package *)
  forallb (row_ok "avx2") useAVX2_assigns && forallb (row_ok "sse") useSSE_assigns &&
  (* the two tables give every variable the same-named symbol *)
  forallb (fun v => opt_eqb (sym_of useAVX2_assigns v) (sym_of useSSE_assigns v)) (lhs useAVX2_assigns) &&
  (* every declared variable is assigned (except the listed dead one), nothing undeclared is assigned *)
  forallb (fun v => mem v never_assigned || mem v (lhs useAVX2_assigns)) declared &&
  subset (lhs useAVX2_assigns) declared &&
  forallb (fun v => negb (mem v (lhs useAVX2_assigns))) never_assigned.

Definition wrappers_ok : bool :=
  forallb wrapper_ok wrappers && forallb funcvar_has_wrapper func_vars && nodupb (map fst wrappers).

Definition dispatch_ok : bool := tables_ok && wrappers_ok && calls_ok && init_ok && use_tables_ok.
