(* C13 - memcchr_quote / memcchr_html_quote (native/parsing.h): the finder that copies while it scans and therefore also
   watches the space left in the destination (dn).  Result: +k  = k bytes copied, stopped at the first byte that needs
   escaping or at the end of the input;  -(k)-1 = destination full after k bytes.

       #if USE_AVX2
         while (nb >= 32 && dn >= 32) { mm = movemask(find(load32)); if (mm) return off + ctz(mm); advance 32 }     [CLoop 32]
         if (nb >= 32) { fv = ctz(mv | 1<<32); if (fv <= dn) return off + fv; else return -(off + dn) - 1; }        [CTest 32]
       #endif
         while (nb >= 16 && dn >= 16) { ... 16 ... }                                                               [CLoop 16]
         if (nb >= 16) { fv = ctz(mv | 1<<16); if (fv <= dn) return off + fv; else return -(off + dn) - 1; }        [CTest 16]
         while (nb > 0 && dn > 0) { if (special) return off; copy one }                                            [scalar]
         return nb == 0 ? off : -(off) - 1;

   The AVX2 compilation runs all five stages, the SSE compilation the last three.  Theorem: for every byte predicate,
   every lane width W > 0 (16 in the source), every input, every capacity and every starting offset the two agree.
   (Unlike the capacity-free finders of Simd/Blocked.v there is no simple closed form: whether a special byte sitting
   exactly at position dn is reported as found or as "full" depends on the stage that meets it - but it depends on it in
   the same way in both compilations.) *)
From Coq Require Import NArith List Lia Bool Arith.
From SV.Simd Require Import Blocked.
Import ListNotations.

Inductive qres := Found (k : nat) | Full (k : nat).

Section QuoteCap.

Variable p : N -> bool.

Notation fs := (find_scalar p).

(* ctz(movemask | 1 << W): position of the first special byte among the first W, or W *)
Definition blk (W : nat) (s : list N) : nat :=
  match block_step p W s with Some i => i | None => W end.

Lemma fs_skip : forall W s, W <= length s -> W <= fs s -> fs s = W + fs (skipn W s).
Proof.
  intros W s HW Hf. pose proof (block_step_spec p W s HW) as H.
  destruct (block_step p W s) as [i|]; [lia | assumption].
Qed.

Lemma blk_spec : forall W s, W <= length s -> blk W s = Nat.min (fs s) W.
Proof.
  intros W s HW. unfold blk. pose proof (block_step_spec p W s HW) as H.
  destruct (block_step p W s) as [i|]; lia.
Qed.

Fixpoint scalar (s : list N) (dn off : nat) : qres :=
  match s with
  | [] => Found off
  | c :: r => match dn with
              | O => Full off
              | S d => if p c then Found off else scalar r d (S off)
              end
  end.

(* the full-store loop of width W; inr = fell out of the loop with this state *)
Fixpoint cloop (W fuel : nat) (s : list N) (dn off : nat) : qres + (list N * nat * nat) :=
  match fuel with
  | O => inr (s, dn, off)
  | S f =>
      if (W <=? length s) && (W <=? dn) then
        if blk W s <? W then inl (Found (off + blk W s))
        else cloop W f (skipn W s) (dn - W) (off + W)
      else inr (s, dn, off)
  end.

(* the partial-store test of width W, then whatever follows *)
Definition ctest (W : nat) (s : list N) (dn off : nat) (next : list N -> nat -> nat -> qres) : qres :=
  if W <=? length s then
    if blk W s <=? dn then Found (off + blk W s) else Full (off + dn)
  else next s dn off.

(* SSE: loop W, test W, scalar *)
Definition tailW (W fuel : nat) (s : list N) (dn off : nat) : qres :=
  match cloop W fuel s dn off with
  | inl r => r
  | inr (s', dn', off') => ctest W s' dn' off' scalar
  end.

(* AVX2: loop 2W, test 2W, then the SSE stages *)
Definition headW (W fuel : nat) (s : list N) (dn off : nat) : qres :=
  match cloop (2 * W) fuel s dn off with
  | inl r => r
  | inr (s', dn', off') => ctest (2 * W) s' dn' off' (tailW W (S (length s')))
  end.

Definition memcchr_quote_sse (W : nat) (s : list N) (dn : nat) : qres := tailW W (S (length s)) s dn 0.
Definition memcchr_quote_avx2 (W : nat) (s : list N) (dn : nat) : qres := headW W (S (length s)) s dn 0.

Lemma cloop_fuel : forall W, W > 0 -> forall f1 f2 s dn off,
  length s < f1 -> length s < f2 -> cloop W f1 s dn off = cloop W f2 s dn off.
Proof.
  intros W HW. induction f1 as [|f1 IH]; intros f2 s dn off H1 H2; [lia|].
  destruct f2 as [|f2]; [lia|]. cbn [cloop].
  destruct (Nat.leb_spec W (length s)) as [HL|HL]; cbn [andb]; [|reflexivity].
  destruct (W <=? dn); [|reflexivity].
  destruct (blk W s <? W); [reflexivity|].
  apply IH; rewrite skipn_length; lia.
Qed.

Lemma tailW_unfold : forall W, W > 0 -> forall s dn off,
  tailW W (S (length s)) s dn off =
  if (W <=? length s) && (W <=? dn) then
    if blk W s <? W then Found (off + blk W s)
    else tailW W (S (length (skipn W s))) (skipn W s) (dn - W) (off + W)
  else ctest W s dn off scalar.
Proof.
  intros W HW s dn off. unfold tailW at 1. cbn [cloop].
  destruct ((W <=? length s) && (W <=? dn)) eqn:E; [|reflexivity].
  destruct (blk W s <? W); [reflexivity|].
  unfold tailW. apply andb_prop in E. destruct E as [E _]. apply Nat.leb_le in E.
  rewrite (cloop_fuel W HW (length s) (S (length (skipn W s)))); [reflexivity | rewrite skipn_length; lia | lia].
Qed.

Lemma headW_unfold : forall W, W > 0 -> forall s dn off,
  headW W (S (length s)) s dn off =
  if (2 * W <=? length s) && (2 * W <=? dn) then
    if blk (2 * W) s <? 2 * W then Found (off + blk (2 * W) s)
    else headW W (S (length (skipn (2 * W) s))) (skipn (2 * W) s) (dn - 2 * W) (off + 2 * W)
  else ctest (2 * W) s dn off (tailW W (S (length s))).
Proof.
  intros W HW s dn off. unfold headW at 1. cbn [cloop].
  destruct ((2 * W <=? length s) && (2 * W <=? dn)) eqn:E; [|reflexivity].
  destruct (blk (2 * W) s <? 2 * W); [reflexivity|].
  unfold headW. apply andb_prop in E. destruct E as [E _]. apply Nat.leb_le in E.
  rewrite (cloop_fuel (2 * W) ltac:(lia) (length s) (S (length (skipn (2 * W) s)))); [reflexivity | rewrite skipn_length; lia | lia].
Qed.

Lemma skipn_skipn' : forall (a b : nat) (l : list N), skipn a (skipn b l) = skipn (b + a) l.
Proof.
  intros a b. induction b as [|b IH]; intro l; [reflexivity|].
  destruct l; [destruct a; reflexivity|]. cbn [skipn Nat.add]. apply IH.
Qed.

Lemma head_eq_tail : forall W, W > 0 -> forall n s dn off, length s < n ->
  headW W (S (length s)) s dn off = tailW W (S (length s)) s dn off.
Proof.
  intros W HW. induction n as [|n IH]; intros s dn off Hn; [lia|].
  rewrite headW_unfold by assumption.
  destruct (Nat.leb_spec (2 * W) (length s)) as [HL2|HL2]; cbn [andb].
  2:{ (* fewer than 2W bytes left: the wide stages do nothing *)
      unfold ctest. destruct (Nat.leb_spec (2 * W) (length s)); [lia | reflexivity]. }
  assert (HL1 : W <= length s) by lia.
  assert (HLs : W <= length (skipn W s)) by (rewrite skipn_length; lia).
  pose proof (blk_spec (2 * W) s HL2) as B2. pose proof (blk_spec W s HL1) as B1.
  pose proof (blk_spec W (skipn W s) HLs) as B1'.
  destruct (Nat.leb_spec (2 * W) dn) as [HD2|HD2].
  - (* one wide iteration against two narrow ones *)
    rewrite tailW_unfold by assumption.
    destruct (Nat.leb_spec W (length s)); [|lia]. destruct (Nat.leb_spec W dn); [|lia]. cbn [andb].
    destruct (Nat.ltb_spec (blk W s) W) as [M1|M1].
    + destruct (Nat.ltb_spec (blk (2 * W) s) (2 * W)); [f_equal; lia | lia].
    + assert (Hf : W <= fs s) by lia. pose proof (fs_skip W s HL1 Hf) as Hs.
      rewrite tailW_unfold by assumption.
      destruct (Nat.leb_spec W (length (skipn W s))); [|lia]. destruct (Nat.leb_spec W (dn - W)); [|lia]. cbn [andb].
      destruct (Nat.ltb_spec (blk W (skipn W s)) W) as [M2|M2].
      * destruct (Nat.ltb_spec (blk (2 * W) s) (2 * W)); [f_equal; lia | lia].
      * destruct (Nat.ltb_spec (blk (2 * W) s) (2 * W)); [lia|].
        rewrite skipn_skipn'. replace (W + W) with (2 * W) by lia.
        replace (dn - W - W) with (dn - 2 * W) by lia. replace (off + W + W) with (off + 2 * W) by lia.
        apply IH. rewrite skipn_length. lia.
  - (* the wide loop is over, the wide test decides *)
    unfold ctest at 1. destruct (Nat.leb_spec (2 * W) (length s)); [|lia].
    rewrite tailW_unfold by assumption.
    destruct (Nat.leb_spec W (length s)); [|lia].
    destruct (Nat.leb_spec W dn) as [HD1|HD1]; cbn [andb].
    + destruct (Nat.ltb_spec (blk W s) W) as [M1|M1].
      * destruct (Nat.leb_spec (blk (2 * W) s) dn); [f_equal; lia | lia].
      * assert (Hf : W <= fs s) by lia. pose proof (fs_skip W s HL1 Hf) as Hs.
        rewrite tailW_unfold by assumption.
        destruct (Nat.leb_spec W (length (skipn W s))); [|lia].
        destruct (Nat.leb_spec W (dn - W)); [lia|]. cbn [andb].
        unfold ctest. destruct (Nat.leb_spec W (length (skipn W s))); [|lia].
        destruct (Nat.leb_spec (blk (2 * W) s) dn); destruct (Nat.leb_spec (blk W (skipn W s)) (dn - W)); try lia; f_equal; lia.
    + unfold ctest. destruct (Nat.leb_spec W (length s)); [|lia].
      destruct (Nat.leb_spec (blk (2 * W) s) dn); destruct (Nat.leb_spec (blk W s) dn); try lia; f_equal; lia.
Qed.

(* the two compilations of memcchr_quote agree on every input and every destination capacity *)
Theorem memcchr_quote_avx2_eq_sse : forall W, W > 0 -> forall s dn,
  memcchr_quote_avx2 W s dn = memcchr_quote_sse W s dn.
Proof. intros W HW s dn. unfold memcchr_quote_avx2, memcchr_quote_sse. apply (head_eq_tail W HW (S (length s))). lia. Qed.

End QuoteCap.

(* the path-dependence that rules out a capacity-free closed form: a quote sitting exactly at position dn *)
Example quote_at_capacity :
  memcchr_quote_sse needs_quote 16 (repeat 97%N 20 ++ [34%N] ++ repeat 97%N 19) 20 = Found 20 /\
  memcchr_quote_sse needs_quote 16 (repeat 97%N 20 ++ [34%N] ++ repeat 97%N 3) 20 = Full 20 /\
  memcchr_quote_avx2 needs_quote 16 (repeat 97%N 20 ++ [34%N] ++ repeat 97%N 19) 20 = Found 20 /\
  memcchr_quote_avx2 needs_quote 16 (repeat 97%N 20 ++ [34%N] ++ repeat 97%N 3) 20 = Full 20.
Proof. vm_compute. repeat split. Qed.
