(* C13 - why the AVX2 (32-byte) and SSE (16-byte) compilations of the same C source agree.

   The block-structured finders of /repo/native (lspace_1, memcchr_p32, memcchr_quote(_unsafe),
   memcchr_html_quote, the character-class scan of do_skip_number / skip_number_fast ...) all have the shape

       while (nb >= W1) { mask = movemask(pred(load W1 bytes)); if (mask != 0) return off + ctz(mask); off += W1 }
       [ if (nb >= W2) { ... one more round of width W2 ... } ]
       ...
       scalar loop over the remaining bytes

   with the list of widths depending on USE_AVX2 (native/simd.h, native/native.h):
       lspace_1             AVX2: loop 32            SSE: (scalar only)
       memcchr_p32          AVX2: loop 32, loop 16   SSE: loop 16
       memcchr_quote_unsafe AVX2: loop 32, loop 16, once 8, once 4   SSE: loop 16, once 8, once 4
   Here the finder is modelled for an arbitrary byte predicate [p] and an arbitrary cascade of widths, and
   proved equal to the scalar specification "index of the first byte satisfying p, else the length".

   advance_string_default/_validate, get_maskx64 and get_string_maskx64 use the SAME block sizes (64, 32) in
   both variants and differ only in how the 64-bit position mask is assembled: from 2 lanes of 32 bits (AVX2) or
   4 lanes of 16 bits (SSE), [(s3<<48)|(s2<<32)|(s1<<16)|s0].  [lanes_mask_eq] shows that the assembled mask is
   the mask of the whole block for every lane width, hence the same in both variants. *)
From Coq Require Import NArith List Lia Bool Arith.
Import ListNotations.

Arguments N.add : simpl never.
Arguments N.mul : simpl never.
Arguments N.shiftl : simpl never.
Arguments N.lor : simpl never.
Arguments N.pow : simpl never.

(* ------------------------------------------------------------------ count trailing zeros *)

Fixpoint ctz_pos (q : positive) : nat :=
  match q with
  | xO q' => S (ctz_pos q')
  | _ => O
  end.

(* __builtin_ctz; the value for 0 is never used by the code (always guarded by mask != 0) *)
Definition ctz (m : N) : nat :=
  match m with
  | N0 => O
  | Npos q => ctz_pos q
  end.

Lemma ctz_succ_double : forall m, ctz (N.succ_double m) = O.
Proof. destruct m; reflexivity. Qed.

Lemma ctz_double : forall m, m <> 0%N -> ctz (N.double m) = S (ctz m).
Proof. destruct m; [congruence | reflexivity]. Qed.

Lemma double_eq0 : forall m, N.double m = 0%N <-> m = 0%N.
Proof. destruct m; simpl; split; congruence. Qed.

Lemma succ_double_neq0 : forall m, N.succ_double m <> 0%N.
Proof. destruct m; simpl; congruence. Qed.

Section Finder.

Variable p : N -> bool.

(* scalar specification: index of the first byte satisfying p, or the length when there is none *)
Fixpoint find_scalar (s : list N) : nat :=
  match s with
  | [] => O
  | c :: r => if p c then O else S (find_scalar r)
  end.

(* movemask(pred(block)): bit i is set iff p (block[i]) *)
Fixpoint mask (s : list N) : N :=
  match s with
  | [] => 0%N
  | c :: r => if p c then N.succ_double (mask r) else N.double (mask r)
  end.

Lemma find_scalar_le : forall s, find_scalar s <= length s.
Proof. induction s as [|c r IH]; simpl; [lia|]. destruct (p c); lia. Qed.

Lemma mask_zero_iff : forall s, mask s = 0%N <-> find_scalar s = length s.
Proof.
  induction s as [|c r IH]; simpl; [tauto|].
  destruct (p c).
  - split; intro H; [exfalso; eapply succ_double_neq0; eauto | discriminate].
  - rewrite double_eq0, IH. split; intro H; lia.
Qed.

Lemma ctz_mask : forall s, mask s <> 0%N -> ctz (mask s) = find_scalar s.
Proof.
  induction s as [|c r IH]; simpl; [congruence|].
  destruct (p c); intro H.
  - apply ctz_succ_double.
  - rewrite double_eq0 in H. rewrite ctz_double by assumption. f_equal. auto.
Qed.

Lemma find_scalar_app : forall a b,
  find_scalar (a ++ b) = if find_scalar a <? length a then find_scalar a else length a + find_scalar b.
Proof.
  induction a as [|c r IH]; intro b; simpl; [reflexivity|].
  destruct (p c); [reflexivity|].
  rewrite IH. change (S (find_scalar r) <? S (length r)) with (find_scalar r <? length r).
  destruct (find_scalar r <? length r); reflexivity.
Qed.

(* one vector round of width W at the head of s (requires W <= length s in the code) *)
Definition block_step (W : nat) (s : list N) : option nat :=
  let m := mask (firstn W s) in
  if N.eqb m 0 then None else Some (ctz m).

Lemma block_step_spec : forall W s, W <= length s ->
  match block_step W s with
  | Some i => i = find_scalar s /\ i < W
  | None => find_scalar s = W + find_scalar (skipn W s)
  end.
Proof.
  intros W s HW. unfold block_step.
  assert (Hl : length (firstn W s) = W) by (rewrite firstn_length; lia).
  assert (Hs : find_scalar s = if find_scalar (firstn W s) <? W then find_scalar (firstn W s)
                               else W + find_scalar (skipn W s)).
  { rewrite <- (firstn_skipn W s) at 1. rewrite find_scalar_app, Hl. reflexivity. }
  destruct (N.eqb_spec (mask (firstn W s)) 0) as [E|E].
  - apply mask_zero_iff in E. rewrite Hs, E, Hl, Nat.ltb_irrefl. reflexivity.
  - rewrite (ctz_mask _ E).
    assert (find_scalar (firstn W s) <> W) by (rewrite <- Hl at 2; rewrite <- mask_zero_iff; exact E).
    pose proof (find_scalar_le (firstn W s)) as Hle. rewrite Hl in Hle.
    rewrite Hs.
    destruct (Nat.ltb_spec (find_scalar (firstn W s)) W); [split; [reflexivity|lia] | lia].
Qed.

(* ---------------------------------------------------------------- a single width W, then the scalar tail *)

Fixpoint blocked (W fuel : nat) (s : list N) : nat :=
  match fuel with
  | O => O                                   (* out of fuel: excluded by blocked_fuel *)
  | S f =>
      if W <=? length s then
        match block_step W s with
        | Some i => i
        | None => W + blocked W f (skipn W s)
        end
      else find_scalar s
  end.

Definition find_blocked (W : nat) (s : list N) : nat := blocked W (S (length s)) s.

Lemma blocked_fuel : forall W, W > 0 -> forall fuel s, length s < fuel -> blocked W fuel s = find_scalar s.
Proof.
  intros W HW. induction fuel as [|f IH]; intros s Hf; [lia|].
  cbn [blocked]. destruct (Nat.leb_spec W (length s)) as [H|H]; [|reflexivity].
  pose proof (block_step_spec W s H) as Hs.
  destruct (block_step W s) as [i|].
  - tauto.
  - rewrite Hs. f_equal. apply IH. rewrite skipn_length. lia.
Qed.

Theorem blocked_eq_scalar : forall W, W > 0 -> forall s, find_blocked W s = find_scalar s.
Proof. intros W HW s. apply blocked_fuel; [assumption | lia]. Qed.

(* ---------------------------------------------------------------- a cascade of widths *)

Inductive phase := Loop (W : nat) | Once (W : nat).

Definition width (ph : phase) : nat := match ph with Loop W => W | Once W => W end.

(* the while-loop of width W: inl i = found at i, inr (k, rest) = k bytes consumed, no match, rest shorter than W *)
Fixpoint loopW (W fuel : nat) (s : list N) : nat + (nat * list N) :=
  match fuel with
  | O => inl O                               (* out of fuel: excluded by loopW_spec *)
  | S f =>
      if W <=? length s then
        match block_step W s with
        | Some i => inl i
        | None =>
            match loopW W f (skipn W s) with
            | inl i => inl (W + i)
            | inr (k, r) => inr (W + k, r)
            end
        end
      else inr (O, s)
  end.

Fixpoint cascade (ps : list phase) (s : list N) : nat :=
  match ps with
  | [] => find_scalar s
  | Loop W :: rest =>
      match loopW W (S (length s)) s with
      | inl i => i
      | inr (k, r) => k + cascade rest r
      end
  | Once W :: rest =>
      if W <=? length s then
        match block_step W s with
        | Some i => i
        | None => W + cascade rest (skipn W s)
        end
      else cascade rest s
  end.

Lemma loopW_spec : forall W, W > 0 -> forall fuel s, length s < fuel ->
  match loopW W fuel s with
  | inl i => i = find_scalar s
  | inr (k, r) => find_scalar s = k + find_scalar r /\ length r <= length s
  end.
Proof.
  intros W HW. induction fuel as [|f IH]; intros s Hf; [lia|].
  cbn [loopW]. destruct (Nat.leb_spec W (length s)) as [H|H]; [|split; [reflexivity|lia]].
  pose proof (block_step_spec W s H) as Hs.
  destruct (block_step W s) as [i|]; [tauto|].
  specialize (IH (skipn W s)). rewrite skipn_length in IH.
  assert (Hlt : length s - W < f) by lia. specialize (IH Hlt).
  destruct (loopW W f (skipn W s)) as [i|[k r]].
  - lia.
  - destruct IH as [IH1 IH2]. split; lia.
Qed.

Theorem cascade_eq_scalar : forall ps, Forall (fun ph => width ph > 0) ps ->
  forall s, cascade ps s = find_scalar s.
Proof.
  induction ps as [|ph rest IH]; intros Hall s; [reflexivity|].
  inversion Hall as [|x l Hw Hrest]; subst. specialize (IH Hrest).
  destruct ph as [W|W]; cbn [cascade].
  - pose proof (loopW_spec W Hw (S (length s)) s (Nat.lt_succ_diag_r _)) as Hs.
    destruct (loopW W (S (length s)) s) as [i|[k r]]; [assumption|].
    destruct Hs as [Hs _]. rewrite IH. lia.
  - destruct (Nat.leb_spec W (length s)) as [H|H]; [|apply IH].
    pose proof (block_step_spec W s H) as Hs.
    destruct (block_step W s) as [i|]; [tauto|].
    rewrite IH. lia.
Qed.

(* any two compilations (any two cascades of positive widths) of the same finder agree on every input *)
Corollary cascades_agree : forall ps1 ps2,
  Forall (fun ph => width ph > 0) ps1 -> Forall (fun ph => width ph > 0) ps2 ->
  forall s, cascade ps1 s = cascade ps2 s.
Proof. intros. rewrite !cascade_eq_scalar by assumption. reflexivity. Qed.

(* ---------------------------------------------------------------- lane assembly of a position mask *)

Lemma mask_app : forall a b, mask (a ++ b) = (mask a + 2 ^ N.of_nat (length a) * mask b)%N.
Proof.
  induction a as [|c r IH]; intro b.
  - cbn [app length mask]. change (N.of_nat 0) with 0%N. rewrite N.pow_0_r. lia.
  - cbn [app length mask]. rewrite IH, Nat2N.inj_succ, N.pow_succ_r'.
    destruct (p c); rewrite ?N.succ_double_spec, ?N.double_spec; lia.
Qed.

Lemma mask_lt : forall s, (mask s < 2 ^ N.of_nat (length s))%N.
Proof.
  induction s as [|c r IH].
  - cbn. lia.
  - cbn [length mask]. rewrite Nat2N.inj_succ, N.pow_succ_r'.
    destruct (p c); rewrite ?N.succ_double_spec, ?N.double_spec; lia.
Qed.

End Finder.

Lemma land_low_high : forall a b n, (a < 2 ^ n)%N -> N.land a (N.shiftl b n) = 0%N.
Proof.
  intros a b n Ha. apply N.bits_inj. intro k.
  rewrite N.land_spec, N.bits_0.
  destruct (N.ltb_spec k n) as [H|H].
  - rewrite N.shiftl_spec_low by assumption. apply andb_false_r.
  - rewrite <- (N.mod_small a (2 ^ n)) by assumption.
    rewrite N.mod_pow2_bits_high by assumption. reflexivity.
Qed.

Lemma lor_low_high : forall a b n, (a < 2 ^ n)%N -> N.lor a (N.shiftl b n) = (a + 2 ^ n * b)%N.
Proof.
  intros a b n Ha.
  pose proof (land_low_high a b n Ha) as Hd.
  rewrite <- N.lxor_lor by assumption.
  rewrite <- N.add_nocarry_lxor by assumption.
  rewrite N.shiftl_mul_pow2. lia.
Qed.

Section Lanes.

Variable p : N -> bool.

(* the block is cut into lanes of L bytes; lane number i contributes (movemask lane_i) << (i*L), all OR-ed:
   m = (s3 << 48) | (s2 << 32) | (s1 << 16) | s0   for L = 16,   m = (s1 << 32) | s0   for L = 32 *)
Fixpoint lanes_mask_from (L fuel i : nat) (s : list N) : N :=
  match fuel with
  | O => 0%N
  | S f =>
      match s with
      | [] => 0%N
      | _ => N.lor (N.shiftl (mask p (firstn L s)) (N.of_nat (i * L)))
                   (lanes_mask_from L f (S i) (skipn L s))
      end
  end.

Definition lanes_mask (L : nat) (s : list N) : N := lanes_mask_from L (length s) O s.

Lemma lanes_mask_from_spec : forall L, L > 0 -> forall fuel i s, length s <= fuel ->
  lanes_mask_from L fuel i s = N.shiftl (mask p s) (N.of_nat (i * L)).
Proof.
  intros L HL. induction fuel as [|f IH]; intros i s Hf.
  - destruct s; [|cbn in Hf; lia]. cbn. rewrite N.shiftl_0_l. reflexivity.
  - destruct s as [|c r]; [cbn; rewrite N.shiftl_0_l; reflexivity|].
    cbn [lanes_mask_from].
    set (s := c :: r) in *.
    rewrite IH by (rewrite skipn_length; subst s; cbn [length] in *; lia).
    rewrite <- (firstn_skipn L s) at 3.
    rewrite mask_app.
    set (a := firstn L s). set (b := skipn L s).
    destruct (Nat.leb_spec L (length s)) as [H|H].
    + assert (Hl : length a = L) by (subst a; rewrite firstn_length; lia).
      rewrite Hl.
      rewrite <- (lor_low_high (mask p a) (mask p b) (N.of_nat L)) by (rewrite <- Hl; apply mask_lt).
      rewrite N.shiftl_lor, N.shiftl_shiftl.
      replace (N.of_nat L + N.of_nat (i * L))%N with (N.of_nat (S i * L)) by lia.
      reflexivity.
    + (* last, short lane: the rest is empty *)
      assert (Hb : b = []) by (subst b; apply skipn_all2; lia).
      rewrite Hb. cbn [mask]. rewrite N.shiftl_0_l, N.mul_0_r, N.add_0_r, N.lor_0_r. reflexivity.
Qed.

(* the position mask assembled from lanes of ANY positive width is the position mask of the whole block *)
Theorem lanes_mask_eq : forall L, L > 0 -> forall s, lanes_mask L s = mask p s.
Proof.
  intros L HL s. unfold lanes_mask.
  rewrite lanes_mask_from_spec by (assumption || lia).
  cbn [Nat.mul N.of_nat]. apply N.shiftl_0_r.
Qed.

Corollary lanes_agree : forall L1 L2, L1 > 0 -> L2 > 0 -> forall s, lanes_mask L1 s = lanes_mask L2 s.
Proof. intros. rewrite !lanes_mask_eq by assumption. reflexivity. Qed.

End Lanes.

(* ------------------------------------------------------------------ instances used by the natives *)

Definition is_space (c : N) : bool := (c =? 32)%N || (c =? 9)%N || (c =? 10)%N || (c =? 13)%N.
Definition non_space (c : N) : bool := negb (is_space c).

(* lspace_1(sp, nb, p): AVX2 = 32-byte loop then scalar, SSE = scalar only *)
Definition lspace_avx2 (s : list N) (off : nat) : nat := off + cascade non_space [Loop 32] (skipn off s).
Definition lspace_sse (s : list N) (off : nat) : nat := off + cascade non_space [] (skipn off s).
Definition lspace_spec (s : list N) (off : nat) : nat := off + find_scalar non_space (skipn off s).

Lemma lspace_variants_agree : forall s off, lspace_avx2 s off = lspace_sse s off /\ lspace_sse s off = lspace_spec s off.
Proof.
  intros. unfold lspace_avx2, lspace_sse, lspace_spec.
  rewrite !cascade_eq_scalar; [split; reflexivity | constructor | repeat constructor].
Qed.

(* the vector test of lspace_1: shuffle(space_tab, v) == v.  pshufb takes the table entry selected by the low
   nibble unless the top bit of the byte is set (then 0). *)
Definition space_tab : list N := [32; 0; 0; 0; 0; 0; 0; 0; 0; 9; 10; 0; 0; 13; 0; 0]%N.
Definition pshufb1 (tab : list N) (c : N) : N :=
  if (128 <=? c)%N then 0%N else nth (N.to_nat (N.land c 15)) tab 0%N.
Definition lspace_vec_test (c : N) : bool := (pshufb1 space_tab c =? c)%N.

Lemma lspace_vec_test_spec : forall c, (c < 256)%N -> lspace_vec_test c = is_space c.
Proof.
  assert (H : forallb (fun n => Bool.eqb (lspace_vec_test (N.of_nat n)) (is_space (N.of_nat n))) (seq 0 256) = true)
    by (vm_compute; reflexivity).
  intros c Hc. rewrite forallb_forall in H.
  specialize (H (N.to_nat c)). rewrite N2Nat.id in H.
  apply Bool.eqb_prop. apply H. apply in_seq. lia.
Qed.

(* memcchr_p32 (unquote): first backslash *)
Definition is_backslash (c : N) : bool := (c =? 92)%N.
Definition memcchr_p32_avx2 := cascade is_backslash [Loop 32; Loop 16].
Definition memcchr_p32_sse := cascade is_backslash [Loop 16].

(* _mm_find_quote / _SingleQuoteTab[c].n != 0 for the quote finders: control, quote, backslash *)
Definition needs_quote (c : N) : bool := (c <? 32)%N || (c =? 34)%N || (c =? 92)%N.
Definition memcchr_quote_unsafe_avx2 := cascade needs_quote [Loop 32; Loop 16; Once 8; Once 4].
Definition memcchr_quote_unsafe_sse := cascade needs_quote [Loop 16; Once 8; Once 4].

Lemma finder_variants_agree : forall s,
  memcchr_p32_avx2 s = memcchr_p32_sse s /\ memcchr_quote_unsafe_avx2 s = memcchr_quote_unsafe_sse s.
Proof.
  intro s. split; apply cascades_agree; repeat constructor.
Qed.
