(* C13 - lifting of the boolean dispatch check (vm_compute over the lists generated from dispatch_amd64.go)
   to statements about those lists. *)
From Coq Require Import String Ascii List Bool Arith Lia.
From SV.Gen Require Import Dispatch.
From SV.Simd Require Import DispatchSpec.
Import ListNotations.
Open Scope string_scope.

Lemma mem_In : forall x l, mem x l = true <-> In x l.
Proof.
  intros x l. unfold mem. rewrite existsb_exists. split.
  - intros [y [Hy E]]. apply String.eqb_eq in E. subst. assumption.
  - intro H. exists x. split; [assumption | apply String.eqb_refl].
Qed.

Lemma subset_spec : forall a b, subset a b = true -> forall x, In x a -> In x b.
Proof.
  intros a b H x Hx. unfold subset in H. rewrite forallb_forall in H. apply mem_In. auto.
Qed.

Lemma nodupb_NoDup : forall l, nodupb l = true -> NoDup l.
Proof.
  induction l as [|x r IH]; intro H; [constructor|].
  cbn [nodupb] in H. apply andb_prop in H. destruct H as [H1 H2].
  constructor; [|auto].
  intro Hin. apply mem_In in Hin. rewrite Hin in H1. discriminate.
Qed.

Lemma sym_of_In : forall t v pk s,
  NoDup (lhs t) -> In (v, (pk, s)) t -> sym_of t v = Some s.
Proof.
  unfold sym_of, lhs. induction t as [|[v0 [p0 s0]] r IH]; intros v pk s Hnd Hin; [contradiction|].
  cbn [find fst]. inversion Hnd as [|x l Hnotin Hnd']; subst.
  destruct Hin as [E|Hin].
  - inversion E; subst. rewrite String.eqb_refl. reflexivity.
  - destruct (String.eqb_spec v0 v) as [E|E].
    + subst. exfalso. apply Hnotin. change v with (fst (v, (pk, s))). apply in_map. assumption.
    + eapply IH; eauto.
Qed.

Lemma dispatch_ok_true : dispatch_ok = true.
Proof. vm_compute. reflexivity. Qed.

Ltac split_ands H :=
  repeat match type of H with
         | (_ && _) = true => let H1 := fresh "H" in let H2 := fresh "H" in
                              apply andb_prop in H; destruct H as [H1 H2]; try split_ands H1; try split_ands H2
         end.

(* useAVX2 and useSSE assign exactly the same set of package-level variables, each exactly once, each from the
   function's own package, each to the symbol that belongs to the variable's name, the same symbol name in both;
   no declared variable is forgotten (except the dead S_skip_one_fast, forgotten by both) *)
Theorem dispatch_tables_same_domain :
  (forall v, In v (lhs useAVX2_assigns) <-> In v (lhs useSSE_assigns)) /\
  NoDup (lhs useAVX2_assigns) /\ NoDup (lhs useSSE_assigns) /\
  (forall v pk s, In (v, (pk, s)) useAVX2_assigns -> pk = "avx2" /\ sym_ok v s = true) /\
  (forall v pk s, In (v, (pk, s)) useSSE_assigns -> pk = "sse" /\ sym_ok v s = true) /\
  (forall v p1 s1 p2 s2, In (v, (p1, s1)) useAVX2_assigns -> In (v, (p2, s2)) useSSE_assigns -> s1 = s2) /\
  (forall v, In v declared -> In v never_assigned \/ In v (lhs useAVX2_assigns)) /\
  (forall v, In v (lhs useAVX2_assigns) -> In v declared /\ ~ In v never_assigned).
Proof.
  pose proof dispatch_ok_true as H. unfold dispatch_ok in H.
  apply andb_prop in H. destruct H as [H _]. apply andb_prop in H. destruct H as [H _].
  apply andb_prop in H. destruct H as [H _]. apply andb_prop in H. destruct H as [Ht _].
  unfold tables_ok in Ht.
  apply andb_prop in Ht; destruct Ht as [Ht NA].
  apply andb_prop in Ht; destruct Ht as [Ht U].
  apply andb_prop in Ht; destruct Ht as [Ht D].
  apply andb_prop in Ht; destruct Ht as [Ht E].
  apply andb_prop in Ht; destruct Ht as [Ht R2].
  apply andb_prop in Ht; destruct Ht as [Ht R1].
  apply andb_prop in Ht; destruct Ht as [Ht N2].
  apply andb_prop in Ht; destruct Ht as [Ht N1].
  apply andb_prop in Ht; destruct Ht as [S1 S2].
  pose proof (nodupb_NoDup _ N1) as ND1. pose proof (nodupb_NoDup _ N2) as ND2.
  rewrite forallb_forall in R1, R2, E, D, NA.
  repeat split.
  - eapply subset_spec; eauto.
  - eapply subset_spec; eauto.
  - assumption.
  - assumption.
  - specialize (R1 _ H). cbn [row_ok] in R1. apply andb_prop in R1. destruct R1 as [A _]. apply String.eqb_eq in A. auto.
  - specialize (R1 _ H). cbn [row_ok] in R1. apply andb_prop in R1. tauto.
  - specialize (R2 _ H). cbn [row_ok] in R2. apply andb_prop in R2. destruct R2 as [A _]. apply String.eqb_eq in A. auto.
  - specialize (R2 _ H). cbn [row_ok] in R2. apply andb_prop in R2. tauto.
  - intros v p1 s1 p2 s2 I1 I2.
    assert (Hv : In v (lhs useAVX2_assigns)) by (change v with (fst (v, (p1, s1))); apply in_map; assumption).
    specialize (E _ Hv).
    rewrite (sym_of_In _ _ _ _ ND1 I1), (sym_of_In _ _ _ _ ND2 I2) in E.
    cbn [opt_eqb] in E. apply String.eqb_eq in E. assumption.
  - intros v Hv. specialize (D _ Hv). apply orb_prop in D. rewrite !mem_In in D. assumption.
  - eapply subset_spec; eauto.
  - intro Hn. specialize (NA _ Hn). apply negb_true_iff in NA.
    apply mem_In in H. rewrite H in NA. discriminate.
Qed.

(* every exported wrapper X calls the variable __X, which both tables assign; every function variable has its wrapper:
   a variable cannot be left pointing at the other package, nor be reached under another name *)
Theorem wrappers_call_own_variable :
  (forall w f, In (w, f) wrappers -> f = "__" ++ w /\ In f (lhs useAVX2_assigns) /\ In f (lhs useSSE_assigns)) /\
  (forall f, In f func_vars -> In (drop2 f, f) wrappers) /\
  NoDup (map fst wrappers).
Proof.
  pose proof dispatch_ok_true as H. unfold dispatch_ok in H.
  apply andb_prop in H. destruct H as [H _]. apply andb_prop in H. destruct H as [H _].
  apply andb_prop in H. destruct H as [H _]. apply andb_prop in H. destruct H as [Ht Hw].
  destruct dispatch_tables_same_domain as [Hdom [_ [_ [_ [_ [_ [Hdecl _]]]]]]].
  unfold wrappers_ok in Hw. apply andb_prop in Hw. destruct Hw as [Hw Hnd].
  apply andb_prop in Hw. destruct Hw as [Hw Hf].
  rewrite forallb_forall in Hw, Hf.
  split; [|split].
  - intros w f Hin. specialize (Hw _ Hin). cbn [wrapper_ok] in Hw.
    apply andb_prop in Hw. destruct Hw as [A B]. apply String.eqb_eq in A. apply mem_In in B.
    assert (Hd : In f declared) by (unfold declared; apply in_or_app; left; assumption).
    destruct (Hdecl _ Hd) as [Hna|Ha].
    + exfalso. cbn in Hna. destruct Hna as [Hna|[]]. rewrite <- Hna in A.
      apply (f_equal (fun s => match s with String c _ => Some c | _ => None end)) in A. cbn in A. discriminate.
    + split; [assumption | split; [assumption | apply Hdom; assumption]].
  - intros f Hin. specialize (Hf _ Hin). unfold funcvar_has_wrapper in Hf.
    rewrite existsb_exists in Hf. destruct Hf as [[w f'] [Hin' Hc]]. cbn [fst snd] in Hc.
    apply andb_prop in Hc. destruct Hc as [A B]. apply String.eqb_eq in A, B. subst f'. subst f. exact Hin'.
  - apply nodupb_NoDup. assumption.
Qed.

(* init picks useAVX2 when cpu.HasAVX2, else useSSE when cpu.HasSSE, else panics; each use* first loads its package *)
Theorem init_dispatch_shape :
  init_chain = [("cpu.HasAVX2", "useAVX2"); ("cpu.HasSSE", "useSSE")] /\ init_else_panics = true /\
  useAVX2_calls = [("avx2", "Use")] /\ useSSE_calls = [("sse", "Use")].
Proof. vm_compute. repeat split. Qed.

(* avx2.Use and sse.Use register the same symbols, each row internally consistent (text blob, cfunc table, S_ and
   F_ variable all of the row's own symbol, the package's own tag), and every symbol taken by a dispatch row is
   registered by the package it is taken from *)
Theorem use_tables_consistent : use_tables_ok = true.
Proof. vm_compute. reflexivity. Qed.
