From Coq Require Import Extraction ExtrOcamlBasic List NArith.
From SV.Ast Require Import Linked Tree Node.
Extraction Language OCaml.
Separate Extraction run_op spec_op mk_value abs P_Get idx_get get_child child_at At is_array is_object.
