From Coq Require Import Extraction ExtrOcamlBasic NArith.
From SV.Mem Require Import Mem Scan.
Extraction Language OCaml.
Separate Extraction value_reads_beyond N.of_nat.
