From Coq Require Import Extraction ExtrOcamlBasic NArith ZArith List.
From SV.Loader Require Import Pcdata StackMap FuncName.
Extraction Language OCaml.
Separate Extraction marshal_binary pcvalue lookup wf_check build bit make_funcname_tab written resolve N.of_nat N.to_nat.
