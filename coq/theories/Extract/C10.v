From Coq Require Import Extraction ExtrOcamlBasic NArith ZArith List.
From SV.Loader Require Import Pcdata StackMap.
Extraction Language OCaml.
Separate Extraction marshal_binary pcvalue lookup wf_check build bit N.of_nat N.to_nat.
