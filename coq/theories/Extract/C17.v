From Coq Require Import Extraction ExtrOcamlBasic NArith List.
From SV.Stream Require Import Skip Json1 Dec Spec Enc DecProofs.
Extraction Language OCaml.
Separate Extraction skip_one_fast inner_decode scan_value Decode More Buffered InputOffset new_decoder mk_reader
  stream_values run good_values Encode N.of_nat N.to_nat.
