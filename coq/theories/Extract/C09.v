From Coq Require Import Extraction ExtrOcamlBasic NArith List.
From SV.Cache Require Import PCache LoadMap Served C09Model.
Extraction Language OCaml.
Separate Extraction cache_new cache_init_cap cache_step cache_run loader_loadmany pm_n pm_m pm_b e_vt e_fn slot a_len enc_hrun enc_served.
