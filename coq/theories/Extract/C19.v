From Coq Require Import Extraction ExtrOcamlBasic ZArith NArith List.
From SV.Num Require Import Dec IntParse NumGrammar Range IntPrint FloatFmt FloatCheck VNumber Api.
Extraction Language OCaml.
Separate Extraction vsigned vunsigned vnumber skip_number is_valid_number i64toa u64toa
  unmarshal_signed unmarshal_unsigned unmarshal_f64 unmarshal_f32
  nearest_bits nearest_check f64_text_check f32_text_check single_double_rounding_differs
  write_dec_f64 write_dec_f32 lit_decode canon_int.
