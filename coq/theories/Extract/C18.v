From Coq Require Import Extraction ExtrOcamlBasic NArith List.
From SV.Gen Require Import OptBits.
Extraction Language OCaml.
Separate Extraction froze config_of_bits N.of_nat N.to_nat.
