From Coq Require Import Extraction ExtrOcamlBasic NArith List.
From SV.Cache Require Import PCache Rcu C08Model.
Extraction Language OCaml.
Separate Extraction rcu_run rcu_default_cap rcu_present g_p g_th g_log g_mu pm_n pm_m.
