From Coq Require Import Extraction ExtrOcamlBasic NArith List.
From SV.Simd Require Import Blocked QuoteCap.
Extraction Language OCaml.
Separate Extraction lspace_avx2 lspace_sse lspace_spec memcchr_p32_avx2 memcchr_p32_sse
  memcchr_quote_unsafe_avx2 memcchr_quote_unsafe_sse lanes_mask mask needs_quote is_backslash memcchr_quote_avx2 memcchr_quote_sse N.of_nat N.to_nat.
