From Coq Require Import Extraction ExtrOcamlBasic NArith ZArith List.
From SV.Dec Require Import Ty Val Parse Text Num Common FieldMap StdBind SonicBind Compile Exec.
Extraction Language OCaml.
Separate Extraction il_unmarshal sonic_unmarshal std_unmarshal zero lparse parse sonic_lookup std_lookup build get get_ci
  compile in_range utf8_correct f64_of_text f32_of_text f32_via_f64_of_text N.of_nat N.to_nat Z.of_N Z.to_N.
