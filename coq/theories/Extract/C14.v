From Coq Require Import Extraction ExtrOcamlBasic List NArith.
From SV.Ast Require Import Linked Tree Node Search.
Extraction Language OCaml.
Separate Extraction get_by_path navigate preorder flatten decode_tree tokens_of unescape match_key run_op mk_value preorder_skip flatten_skip skip_of.
