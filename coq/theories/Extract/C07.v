From Coq Require Import Extraction ExtrOcamlBasic ZArith NArith.
From SV.Gen Require Import PureFns.
From SV.Safe Require Import Depth.
Extraction Language OCaml.
Separate Extraction errors_description errors_calcBounds ast_description types_Message_inbounds
  rt_GuardSlice2 stream_realloc rt_CanSizeResue N.of_nat preorder.
