From Coq Require Import Extraction ExtrOcamlBasic NArith ZArith List.
From SV.Enc Require Import Prims Ty Val IR Compile JsonLite MapSort VM Exec StdEnc.
Extraction Language OCaml.
Separate Extraction std_marshal quoting_std quoting_sonic compile encode exec_top encode_finish prims_vm prims_jit default_copts sizeof ty_eqb reqs
  N.of_nat N.to_nat Z.of_N Z.opp.
