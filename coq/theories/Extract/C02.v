From Coq Require Import Extraction ExtrOcamlBasic NArith List.
From SV.Json Require Import Chars StrScan NumScan Fsm Fast.
Extraction Language OCaml.
Separate Extraction validate_one skip_one_at Valid Valid_post CheckTrailings scan_scalar advance_string_default do_skip_number skip_one_fast_1 skip_one_vs.
