From Coq Require Import Extraction ExtrOcamlBasic NArith ZArith List.
From SV.Str Require Import Common Quote HtmlEsc Unquote Utf8 RefUtf8 AstQuote JitString Utf8Simd.
Extraction Language OCaml.
Separate Extraction quote go_quote grow_exact encoder_quote html_escape go_html_escape unquote go_into_bytes
  validate_utf8_fast validate_utf8 correct_with_msize go_validate quote_string
  wf first_bad replace_invalid ws_avx2 ws_sse jit_unquote_twice validate_utf8_avx2 validate_utf8_fast_avx2
  N.of_nat N.to_nat Z.of_nat Z.to_nat Z.of_N Z.to_N.
