(* C20 - double-mode unquote (F_DBLUNQ, the `,string` decode path) against the reference semantics of
   encoding/json: unquote the outer literal, then unquote the inner literal (two applications of the
   reference unquoter).  The native routine fuses the two passes; the fusion is exact on what sonic's own
   encoder writes (canonical double escapes) and WRONG on other valid inputs - refuted below with witnesses
   that replay on the real code (sonic.Unmarshal into a `,string` field vs encoding/json). *)
From Coq Require Import NArith ZArith Bool List Lia.
From SV.Gen Require Import Tables.
From SV.Str Require Import Common Quote Unquote TablesOk FinderProofs QuoteProofs GoQuoteProofs RoundTrip UnquoteProofs.
Import ListNotations.
Open Scope nat_scope.

(* encoding/json on a `,string` field: Unmarshal of the outer literal, then Unmarshal of its content *)
Definition ref_unquote2 (rep : bool) (s : list N) : option (list N) :=
  match ref_unquote (S (length s)) rep s with
  | Some u => ref_unquote (S (length u)) rep u
  | None => None
  end.

(* ---- the double table is the single table applied twice (all 256 byte values swept) ---- *)
Definition dbl_entry_b (b : N) : bool :=
  if list_eq_dec N.eq_dec (esc1 _DoubleQuoteTab b) (escape_all _SingleQuoteTab (esc1 _SingleQuoteTab b)) then true else false.
Lemma dbl_entry_sweep : forallb dbl_entry_b bytes256 = true.
Proof. vm_compute. reflexivity. Qed.

Lemma dbl_entry : forall b, esc1 _DoubleQuoteTab b = escape_all _SingleQuoteTab (esc1 _SingleQuoteTab b).
Proof.
  intros b. destruct (N.lt_ge_cases b 256) as [H|H].
  - pose proof (sweep256 _ dbl_entry_sweep b H) as HS. unfold dbl_entry_b in HS.
    destruct (list_eq_dec N.eq_dec (esc1 _DoubleQuoteTab b) (escape_all _SingleQuoteTab (esc1 _SingleQuoteTab b))); [assumption|discriminate].
  - destruct lengths as (L1 & L2 & _).
    assert (P : forall t, length t = 256 -> esc1 t b = [b]).
    { intros t Lt. unfold esc1. destruct (tab_n_big t b Lt H) as [-> _]. reflexivity. }
    rewrite (P _ L2), (P _ L1). unfold escape_all. cbn [flat_map]. rewrite (P _ L1). reflexivity.
Qed.

Lemma double_is_single_twice : forall t,
  escape_all _DoubleQuoteTab t = escape_all _SingleQuoteTab (escape_all _SingleQuoteTab t).
Proof.
  induction t as [|b r IH].
  - reflexivity.
  - change (escape_all _DoubleQuoteTab (b :: r)) with (esc1 _DoubleQuoteTab b ++ escape_all _DoubleQuoteTab r).
    change (escape_all _SingleQuoteTab (b :: r)) with (esc1 _SingleQuoteTab b ++ escape_all _SingleQuoteTab r).
    rewrite (escape_all_app _SingleQuoteTab), <- IH, dbl_entry. reflexivity.
Qed.

(* the reference unquoter inverts the single escape *)
Lemma ref_unquote_escape : forall rep x,
  ref_unquote (S (length (escape_all _SingleQuoteTab x))) rep (escape_all _SingleQuoteTab x) = Some x.
Proof.
  intros rep x.
  set (fl := if rep then 2%N else 0%N).
  assert (H1 : has fl c_F_DBLUNQ = false) by (destruct rep; reflexivity).
  assert (H2 : has fl c_F_UNIREP = rep) by (destruct rep; reflexivity).
  pose proof (unquote_spec fl (escape_all _SingleQuoteTab x) H1) as HS.
  assert (HQ : unquote fl (escape_all _SingleQuoteTab x) = UOk x).
  { replace _SingleQuoteTab with (quote_tab fl) by (destruct rep; reflexivity). apply unquote_quote. }
  rewrite HQ, H2 in HS. exact HS.
Qed.

(* ---- exact on canonical input: what alg.Quote(double) / the encoder writes for a `,string` field ---- *)
Theorem unquote_double_canonical : forall flags t, has flags c_F_DBLUNQ = true ->
  unquote flags (escape_all _DoubleQuoteTab t) = UOk t /\
  ref_unquote2 (has flags c_F_UNIREP) (escape_all _DoubleQuoteTab t) = Some t.
Proof.
  intros flags t H. split.
  - pose proof (unquote_quote flags t) as HQ. unfold quote_tab in HQ. unfold has in H.
    destruct (N.land flags c_F_DBLUNQ =? 0)%N; [discriminate|exact HQ].
  - unfold ref_unquote2. rewrite double_is_single_twice, ref_unquote_escape. apply ref_unquote_escape.
Qed.

(* ---- refuted in general ---- *)
(* s1 = \u005cn          : encoding/json reads backslash-n then a newline; the fused routine returns the two bytes \ n
   s2 = \\ud83d\ude00    : encoding/json yields U+FFFD U+FFFD; the fused routine eats the backslash of the second
                           escape and returns U+FFFD followed by the five letters ude00
   s3 = \\ud800\\\\      : canonical double escape of the inner literal \ud800\\ ; encoding/json yields U+FFFD \ ,
                           the fused routine fails with ERR_EOF *)
Definition dbl_w1 : list N := [92; 117; 48; 48; 53; 99; 110]%N.
Definition dbl_w2 : list N := [92; 92; 117; 100; 56; 51; 100; 92; 117; 100; 101; 48; 48]%N.
Definition dbl_w3 : list N := [92; 92; 117; 100; 56; 48; 48; 92; 92; 92; 92]%N.

Theorem unquote_double_refuted :
  (unquote 3 dbl_w1 = UOk [92; 110]%N /\ ref_unquote2 true dbl_w1 = Some [10]%N) /\
  (unquote 3 dbl_w2 = UOk [239; 191; 189; 117; 100; 101; 48; 48]%N /\
   ref_unquote2 true dbl_w2 = Some [239; 191; 189; 239; 191; 189]%N) /\
  (unquote 3 dbl_w3 = UErr c_ERR_EOF 11 /\ ref_unquote2 true dbl_w3 = Some [239; 191; 189; 92]%N).
Proof. vm_compute. repeat split; reflexivity. Qed.

Corollary unquote_double_not_reference :
  exists s o o', unquote 3 s = UOk o /\ ref_unquote2 true s = Some o' /\ o <> o'.
Proof.
  exists dbl_w1, [92; 110]%N, [10]%N. destruct unquote_double_refuted as [[H1 H2] _].
  repeat split; auto. discriminate.
Qed.

Example double_canonical_hyp_sat : has 1 c_F_DBLUNQ = true /\ has 3 c_F_DBLUNQ = true.
Proof. split; reflexivity. Qed.
