(* C20 - facts about the generated tables (Gen/Tables.v), all by complete sweeps of the 256 byte values. *)
From Coq Require Import NArith ZArith Bool List Lia.
From SV.Gen Require Import Tables.
From SV.Str Require Import Common.
Import ListNotations.
Open Scope N_scope.

Definition bytes256 : list N := map N.of_nat (seq 0 256).

Lemma in_bytes256 : forall b, b < 256 -> In b bytes256.
Proof.
  intros b H. unfold bytes256. apply in_map_iff. exists (N.to_nat b). split.
  - apply N2Nat.id.
  - apply in_seq. lia.
Qed.

(* lift a boolean sweep over the 256 byte values to all bytes *)
Lemma sweep256 : forall P : N -> bool, forallb P bytes256 = true -> forall b, b < 256 -> P b = true.
Proof. intros P H b Hb. rewrite forallb_forall in H. apply H, in_bytes256, Hb. Qed.

Definition is_special (b : N) : bool := find_quote_lane b.

Definition qtab_ok (t : qtab) (b : N) : bool :=
  (Nat.eqb (tab_n t b) (length (tab_s t b))) && (tab_n t b <=? 7)%nat &&
  (Bool.eqb (negb (Nat.eqb (tab_n t b) 0)) (is_special b)) &&
  (if is_special b then forallb (fun c => c <? 256) (tab_s t b) else true).

Definition tables_ok_b (b : N) : bool :=
  qtab_ok _SingleQuoteTab b && qtab_ok _DoubleQuoteTab b &&
  Bool.eqb (esc_tab b) (is_special b) && Bool.eqb (single_special b) (is_special b).

Lemma tables_ok_sweep : forallb tables_ok_b bytes256 = true.
Proof. vm_compute. reflexivity. Qed.

Lemma lengths : length _SingleQuoteTab = 256%nat /\ length _DoubleQuoteTab = 256%nat /\
                length _HtmlQuoteTab = 256%nat /\ length _EscTab = 256%nat /\ length _UnquoteTab = 256%nat.
Proof. vm_compute. repeat split; reflexivity. Qed.

(* beyond 255 every table lookup yields the default *)
Lemma tab_n_big : forall t b, length t = 256%nat -> 256 <= b -> tab_n t b = O /\ tab_s t b = [].
Proof.
  intros t b Hl Hb. unfold tab_n, tab_s, tab_ent. rewrite nth_overflow by lia. auto.
Qed.

Lemma is_special_big : forall b, 256 <= b -> is_special b = false.
Proof.
  intros b Hb. unfold is_special, find_quote_lane.
  destruct (N.ltb_spec b 32); [lia|]. destruct (N.eqb_spec b 34); [lia|]. destruct (N.eqb_spec b 92); [lia|]. reflexivity.
Qed.

Lemma tables_ok_all : forall b, tables_ok_b b = true.
Proof.
  intros b. destruct (N.lt_ge_cases b 256) as [H|H].
  - apply (sweep256 tables_ok_b tables_ok_sweep b H).
  - destruct lengths as (L1 & L2 & L3 & L4 & L5).
    unfold tables_ok_b, qtab_ok.
    destruct (tab_n_big _SingleQuoteTab b L1 H) as [-> ->].
    destruct (tab_n_big _DoubleQuoteTab b L2 H) as [-> ->].
    rewrite (is_special_big b H).
    unfold esc_tab, single_special. rewrite nth_overflow by lia.
    destruct (tab_n_big _SingleQuoteTab b L1 H) as [-> _]. reflexivity.
Qed.

Lemma tables_ok_parts : forall b,
  qtab_ok _SingleQuoteTab b = true /\ qtab_ok _DoubleQuoteTab b = true /\
  esc_tab b = is_special b /\ single_special b = is_special b.
Proof.
  intros b. pose proof (tables_ok_all b) as H. unfold tables_ok_b in H.
  apply andb_prop in H. destruct H as [H H4]. apply andb_prop in H. destruct H as [H H3].
  apply andb_prop in H. destruct H as [H1 H2].
  repeat split; auto; apply eqb_prop; assumption.
Qed.
Lemma esc_tab_special : forall b, esc_tab b = is_special b.
Proof. intros b. apply (tables_ok_parts b). Qed.
Lemma single_special_special : forall b, single_special b = is_special b.
Proof. intros b. apply (tables_ok_parts b). Qed.

Lemma qtab_ok_single : forall b, qtab_ok _SingleQuoteTab b = true.
Proof. intros b. apply (tables_ok_parts b). Qed.
Lemma qtab_ok_double : forall b, qtab_ok _DoubleQuoteTab b = true.
Proof. intros b. apply (tables_ok_parts b). Qed.

(* what the quoting proofs use: for either table, n = |s| <= 7, n <> 0 exactly on the special bytes,
   and the copied escape is the literal itself *)
Definition good_tab (t : qtab) : Prop := forall b, qtab_ok t b = true.

Lemma good_single : good_tab _SingleQuoteTab. Proof. exact qtab_ok_single. Qed.
Lemma good_double : good_tab _DoubleQuoteTab. Proof. exact qtab_ok_double. Qed.

Lemma good_tab_n : forall t b, good_tab t -> (tab_n t b =? 0)%nat = negb (is_special b).
Proof.
  intros t b G. specialize (G b). unfold qtab_ok in G.
  apply andb_prop in G. destruct G as [G G4]. apply andb_prop in G. destruct G as [G G3].
  apply eqb_prop in G3. destruct (is_special b), (Nat.eqb (tab_n t b) 0); simpl in *; congruence.
Qed.

Lemma good_tab_copy : forall t b, good_tab t -> tab_copy t b = tab_s t b /\ length (tab_s t b) = tab_n t b /\ (tab_n t b <= 7)%nat.
Proof.
  intros t b G. specialize (G b). unfold qtab_ok in G.
  apply andb_prop in G. destruct G as [G G4]. apply andb_prop in G. destruct G as [G G3].
  apply andb_prop in G. destruct G as [G G2].
  apply Nat.eqb_eq in G. apply Nat.leb_le in G2. repeat split; auto.
  unfold tab_copy. rewrite G. rewrite firstn_app, Nat.sub_diag, firstn_all. simpl. apply app_nil_r.
Qed.

(* HTML table: exactly the five looked-up bytes have six-byte escapes *)
Definition html_ok_b (b : N) : bool :=
  Nat.eqb (tab_n _HtmlQuoteTab b) (length (tab_s _HtmlQuoteTab b)) &&
  Bool.eqb (negb (Nat.eqb (tab_n _HtmlQuoteTab b) 0)) ((b =? 60) || (b =? 62) || (b =? 38) || (b =? 168) || (b =? 169)) &&
  ((Nat.eqb (tab_n _HtmlQuoteTab b) 0) || (Nat.eqb (tab_n _HtmlQuoteTab b) 6)).
Lemma html_ok_sweep : forallb html_ok_b bytes256 = true.
Proof. vm_compute. reflexivity. Qed.

(* the literal escapes (what json.HTMLEscape writes: \u00XX with lower-case hex,   /  ) *)
Lemma html_entries :
  tab_copy _HtmlQuoteTab 60 = [92; 117; 48; 48; 51; 99] /\ tab_copy _HtmlQuoteTab 62 = [92; 117; 48; 48; 51; 101] /\
  tab_copy _HtmlQuoteTab 38 = [92; 117; 48; 48; 50; 54] /\ tab_copy _HtmlQuoteTab 168 = [92; 117; 50; 48; 50; 56] /\
  tab_copy _HtmlQuoteTab 169 = [92; 117; 50; 48; 50; 57] /\
  tab_n _HtmlQuoteTab 60 = 6%nat /\ tab_n _HtmlQuoteTab 62 = 6%nat /\ tab_n _HtmlQuoteTab 38 = 6%nat /\
  tab_n _HtmlQuoteTab 168 = 6%nat /\ tab_n _HtmlQuoteTab 169 = 6%nat.
Proof. vm_compute. repeat split; reflexivity. Qed.

(* constants agree between C and Go *)
Lemma consts_agree :
  c_F_DBLUNQ = go_F_DOUBLE_UNQUOTE /\ c_F_UNIREP = go_F_UNICODE_REPLACE /\ c_ERR_EOF = go_ERR_EOF /\
  c_ERR_INVAL = go_ERR_INVALID_CHAR /\ c_ERR_ESCAPE = go_ERR_INVALID_ESCAPE /\ c_ERR_UNICODE = go_ERR_INVALID_UNICODE /\
  c_MAX_RECURSE = go_MAX_RECURSE /\ MAX_ESCAPED_BYTES = 8 /\ N.land c_F_DBLUNQ c_F_UNIREP = 0 /\ c_F_DBLUNQ <> 0 /\ c_F_UNIREP <> 0.
Proof. vm_compute. repeat split; try reflexivity; discriminate. Qed.

(* the single-mode table writes exactly the RFC 8259 escapes *)
Definition rfc_escape (b : N) : list N :=
  if b =? 34 then [92; 34] else if b =? 92 then [92; 92]
  else if b =? 10 then [92; 110] else if b =? 13 then [92; 114] else if b =? 9 then [92; 116]
  else if b <? 32 then [92; 117; 48; 48; nth (N.to_nat (N.shiftr b 4)) go_Hex 0; nth (N.to_nat (N.land b 15)) go_Hex 0]
  else [b].
Definition single_rfc_b (b : N) : bool :=
  if is_special b then if list_eq_dec N.eq_dec (tab_s _SingleQuoteTab b) (rfc_escape b) then true else false else true.
Lemma single_rfc_sweep : forallb single_rfc_b bytes256 = true.
Proof. vm_compute. reflexivity. Qed.
