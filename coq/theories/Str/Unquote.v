(* C20 - model of native/unquote.c (flags F_DBLUNQ, F_UNIREP) and of unquote/unquote.go. *)
From Coq Require Import NArith ZArith Bool List Lia.
From SV.Gen Require Import Tables.
From SV.Str Require Import Common.
Import ListNotations.
Open Scope N_scope.

Inductive ures := UOk (out : list N) | UErr (code : N) (ep : Z).

Definition ucons (pre : list N) (r : ures) : ures :=
  match r with UOk o => UOk (pre ++ o) | e => e end.

Definition BS : N := 92.   (* '\\' *)

(* ishex *)
Definition ishex (c : N) : bool :=
  ((48 <=? c) && (c <=? 57)) || ((97 <=? c) && (c <=? 102)) || ((65 <=? c) && (c <=? 70)).

(* unhex16_is: the SWAR test hasless/hasmore/hasbetween over the 4 bytes is modelled by its meaning
   "all four bytes are hexadecimal digits" (tied by the correspondence run over boundary bytes) *)
Definition unhex16_is (s : list N) : bool :=
  ishex (nth 0 s 0) && ishex (nth 1 s 0) && ishex (nth 2 s 0) && ishex (nth 3 s 0).

(* unhex16_fast, literally: a = bswap32(load32(s)); b = 9*((~a & 0x10101010) >> 4) + (a & 0x0f0f0f0f);
   c = (b >> 4) | b; d = ((c >> 8) & 0xff00) | (c & 0x00ff) *)
Definition load32_be (s : list N) : N :=
  nth 0 s 0 * 16777216 + nth 1 s 0 * 65536 + nth 2 s 0 * 256 + nth 3 s 0.
Definition unhex16_fast (s : list N) : N :=
  let a := load32_be s in
  let na := N.lxor a 4294967295 in
  let b := (9 * N.shiftr (N.land na 269488144) 4 + N.land a 252645135) mod 4294967296 in
  let c := N.lor (N.shiftr b 4) b in
  N.lor (N.land (N.shiftr c 8) 65280) (N.land c 255).

(* number of leading hex digits among the first n bytes *)
Fixpoint count_hex (n : nat) (s : list N) : nat :=
  match n, s with
  | S n', c :: r => if ishex c then S (count_hex n' r) else O
  | _, _ => O
  end.

Definition unirep : list N := [239; 191; 189].

Definition enc2 (r : N) : list N := [N.lor 192 (N.shiftr r 6); N.lor 128 (N.land r 63)].
Definition enc3 (r : N) : list N :=
  [N.lor 224 (N.shiftr r 12); N.lor 128 (N.land (N.shiftr r 6) 63); N.lor 128 (N.land r 63)].
Definition enc4 (r : N) : list N :=
  [N.lor 240 (N.shiftr r 18); N.lor 128 (N.land (N.shiftr r 12) 63);
   N.lor 128 (N.land (N.shiftr r 6) 63); N.lor 128 (N.land r 63)].

Definition has (flags f : N) : bool := negb (N.land flags f =? 0).

Section Unquote.
  Variable flags : N.
  Variable x : nat.            (* the original nb *)

  Let dbl := has flags c_F_DBLUNQ.
  Let rep := has flags c_F_UNIREP.
  Definition zx : Z := Z.of_nat x.

  (* retry_decode: r0 was decoded, s is the input after its four digits, pos = sp - s0.
     inl (emitted, rest, pos of rest) | inr (error code, *ep) *)
  Fixpoint decode_rune (fuel : nat) (r0 : N) (s : list N) (pos : nat)
    : (list N * list N * nat) + (N * Z) :=
    if r0 <=? 127 then inl ([r0], s, pos)
    else if r0 <=? 2047 then inl (enc2 r0, s, pos)
    else if (r0 <? 55296) || (57343 <? r0) then inl (enc3 r0, s, pos)
    else
      match fuel with
      | O => inr (c_ERR_EOF, zx)
      | S f =>
        (* check for double unquote *)
        let after_dbl : option (list N * nat) :=     (* None: nb < 1 *)
          if dbl then
            match s with
            | [] => None
            | c :: r => if c =? BS then Some (r, S pos) else Some (s, pos)
            end
          else Some (s, pos) in
        match after_dbl with
        | None => if rep then inl (unirep, s, pos) else inr (c_ERR_EOF, zx)
        | Some (s1, pos1) =>
          (* surrogate half, must be followed by the other half *)
          if (length s1 <? 6)%nat || (56319 <? r0) || negb (nth 0 s1 0 =? BS) || negb (nth 1 s1 0 =? 117) then
            if rep then inl (unirep, s1, pos1)
            else inr (c_ERR_UNICODE, (Z.of_nat pos1 - (if dbl then 5 else 4))%Z)
          else if negb (unhex16_is (skipn 2 s1)) then
            inr (c_ERR_INVAL, Z.of_nat (pos1 + 2 + count_hex 4 (skipn 2 s1)))
          else
            let r1 := unhex16_fast (skipn 2 s1) in
            let s2 := skipn 6 s1 in
            let pos2 := (pos1 + 6)%nat in
            if (r1 <? 56320) || (57343 <? r1) then
              if negb rep then inr (c_ERR_UNICODE, (Z.of_nat pos2 - 4)%Z)
              else
                match decode_rune f r1 s2 pos2 with
                | inl (e, rest, p) => inl (unirep ++ e, rest, p)
                | inr e => inr e
                end
            else
              let r := ((r0 - 55296) * 1024 + ((r1 - 56320) + 65536)) mod 4294967296 in
              if 1114111 <? r then
                if negb rep then inr (c_ERR_UNICODE, (Z.of_nat pos2 - 4)%Z) else inl (unirep, s2, pos2)
              else inl (enc4 r, s2, pos2)
        end
      end.

  (* the F_DBLUNQ block after `sp += n + 2`: s1 = input at sp, c1 = sp[-1].
     inl (c, s2, pos2): the escape character to look up and the input after it *)
  Definition dbl_step (c1 : N) (s1 : list N) (pos1 : nat) : (N * list N * nat) + (N * Z) :=
    if dbl then
      match s1 with
      | [] => inr (c_ERR_EOF, zx)                               (* nr == 0 *)
      | c2 :: r2 =>
        if c1 =? BS then
          if c2 =? BS then
            match r2 with
            | [] => inr (c_ERR_EOF, zx)                         (* nr < 2 *)
            | c3 :: r3 =>
              if negb (c3 =? 34) && negb (c3 =? BS) then inr (c_ERR_INVAL, Z.of_nat (pos1 + 1))
              else inl (c3, r3, (pos1 + 2)%nat)
            end
          else inl (c2, r2, S pos1)
        else inl (c1, s1, pos1)
      end
    else inl (c1, s1, pos1).

  (* one escape sequence: c1 = the byte after the backslash, s1 = the input after it.
     inl (decoded bytes, remaining input, its offset) | inr (error code, *ep) *)
  Definition esc_step (c1 : N) (s1 : list N) (pos1 : nat) : (list N * list N * nat) + (N * Z) :=
    match dbl_step c1 s1 pos1 with
    | inr e => inr e
    | inl (c, s2, pos2) =>
      let cc := unquote_tab c in
      if (cc =? 0)%Z then inr (c_ERR_ESCAPE, (Z.of_nat pos2 - 1)%Z)
      else if negb (cc =? -1)%Z then inl ([Z.to_N (cc mod 256)], s2, pos2)
      else if (length s2 <? 4)%nat then inr (c_ERR_EOF, zx)
      else if negb (unhex16_is s2) then inr (c_ERR_INVAL, Z.of_nat (pos2 + count_hex 4 s2))
      else decode_rune (S (length s2)) (unhex16_fast s2) (skipn 4 s2) (pos2 + 4)
    end.

  Fixpoint unquote_loop (fuel : nat) (s : list N) (pos : nat) : ures :=
    match fuel with
    | O => UOk []
    | S f =>
      match s with
      | [] => UOk []                                             (* nb == 0 *)
      | _ =>
        let n := find_first (fun b => b =? BS) s in              (* memcchr_p32 *)
        if (length s <=? n)%nat then UOk s                       (* -1: everything was copied *)
        else
          let plain := firstn n s in
          if (length s <? n + 2)%nat then UErr c_ERR_EOF zx       (* nb < 0 *)
          else
            match esc_step (nth (S n) s 0) (skipn (n + 2) s) (pos + n + 2) with
            | inr (code, ep) => UErr code ep
            | inl (e, s3, pos3) => ucons (plain ++ e) (unquote_loop f s3 pos3)
            end
      end
    end.
End Unquote.

(* unquote(sp, nb, dp, &ep, flags) *)
Definition unquote (flags : N) (s : list N) : ures :=
  unquote_loop flags (length s) (S (length s)) s 0.

(* ---- Go: unquote.intoBytesUnsafe / String / IntoBytes ---- *)
(* result: inl string | inr types.ParsingError *)
Definition go_into_bytes (s : list N) (replace : bool) : list N + N :=
  let flags := if replace then go_F_UNICODE_REPLACE else 0 in
  match unquote flags s with
  | UOk o => inl o
  | UErr code _ => inr code            (* types.ParsingError(-ret) *)
  end.
Definition go_unquote_string (s : list N) : list N + N := go_into_bytes s true.
