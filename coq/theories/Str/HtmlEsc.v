(* C20 - model of native/html_escape.c and of the Go grow loop internal/encoder/alg/spec.go:HtmlEscape. *)
From Coq Require Import NArith ZArith Bool List Lia.
From SV.Gen Require Import Tables.
From SV.Str Require Import Common.
Import ListNotations.
Open Scope N_scope.

(* result of html_escape: return value, value of *dn after the call, bytes dp[0 .. written) *)
Definition hres := (Z * nat * list N)%type.

(* `nb >= 3 && sp[1] == 0x80 && (sp[2] == 0xa8 || sp[2] == 0xa9)` for sp -> 0xe2 :: r *)
Definition is_u2028_tail (r : list N) : option N :=
  match r with
  | b1 :: b2 :: _ => if (b1 =? 128) && ((b2 =? 168) || (b2 =? 169)) then Some b2 else None
  | _ => None
  end.

(* dn0 is the caller's *dn, returned unchanged on the two paths that do not store to *dn *)
Fixpoint html_loop (fuel : nat) (ws : list nat) (dn0 : nat) (src : list N) (consumed : nat)
         (out : list N) (nd : nat) : hres :=
  match fuel with
  | O => (Z.of_nat consumed, length out, out)
  | S f =>
    match src with
    | [] => (Z.of_nat consumed, length out, out)                    (* all done *)
    | _ =>
      if (nd =? 0)%nat then ((- Z.of_nat consumed - 1)%Z, dn0, out)  (* nd <= 0: *dn not stored *)
      else
        let rb := memcchr_html_quote ws src nd in
        if (rb <? 0)%Z then
          let k := Z.to_nat (- rb - 1) in
          ((- Z.of_nat (consumed + k) - 1)%Z, (length out + k)%nat, out ++ firstn k src)
        else
          let k := Z.to_nat rb in
          let out1 := out ++ firstn k src in
          let nd1 := (nd - k)%nat in
          let cur := (consumed + k)%nat in
          match skipn k src with
          | [] => (Z.of_nat cur, length out1, out1)                  (* nb <= 0: break *)
          | ch :: r =>
            (* escape one entry of _HtmlQuoteTab: ch' is the looked-up byte, n the input bytes it stands for *)
            let esc (ch' : N) (n : nat) (rest : list N) : hres :=
              let nc := tab_n _HtmlQuoteTab ch' in
              if (nd1 <? nc)%nat then ((- Z.of_nat cur - 1)%Z, length out1, out1)
              else html_loop f ws dn0 rest (cur + n) (out1 ++ tab_copy _HtmlQuoteTab ch') (nd1 - nc) in
            if ch =? 226 then
              match is_u2028_tail r with
              | Some b2 => esc b2 3%nat (skipn 2 r)
              | None =>
                if (0 <? nd1)%nat then html_loop f ws dn0 r (S cur) (out1 ++ [ch]) (nd1 - 1)
                else ((- Z.of_nat cur - 1)%Z, dn0, out1)             (* *dn not stored *)
              end
            else esc ch 1%nat r
          end
    end
  end.

Definition html_escape (ws : list nat) (src : list N) (dn : nat) : hres :=
  html_loop (S (length src)) ws dn src O [] dn.

(* ---- Go: alg.HtmlEscape ---- *)
Inductive gores := GoOk (out : list N) | GoPanic | GoFuel.

Section GoHtml.
  Variable grow : nat -> nat -> nat.
  Variable ws : list nat.

  Fixpoint go_html_loop (fuel : nat) (src : list N) (dst : list N) (cap : nat) : gores :=
    match fuel with
    | O => GoFuel
    | S f =>
      match src with
      | [] => GoOk dst                                              (* sidx < sbuf.Len fails *)
      | _ =>
        let dn := (cap - length dst)%nat in
        let '(nb, dn', out) := html_escape ws src dn in
        (* dbuf.Len += dn: the bytes that become visible are dp[0 .. dn') *)
        let dst' := dst ++ firstn dn' (out ++ repeat 0 dn') in
        if (0 <=? nb)%Z then GoOk dst'
        else go_html_loop f (skipn (Z.to_nat (- nb - 1)) src) dst' (grow cap (cap * 2))
      end
    end.

  Definition go_html_fuel (src : list N) : nat := (8 * (length src + 1))%nat.

  (* HtmlEscape(dst, src) with cap(dst) = cap *)
  Definition go_html_escape (dst : list N) (cap : nat) (src : list N) : gores :=
    let pad := N.to_nat go_BufPaddingSize in
    if (cap - length dst <? length src + pad)%nat then
      (* cap := len(dst) + len(src)*3/2 + BufPaddingSize   (repaired by e1e5e27; len(dst) was missing before) *)
      let c := (length dst + length src * 3 / 2 + pad)%nat in
      if (c <? length dst)%nat then GoPanic     (* rt.GrowSlice panics when newCap is smaller than the old length *)
      else go_html_loop (go_html_fuel src) src dst (grow cap c)
    else go_html_loop (go_html_fuel src) src dst cap.
End GoHtml.
