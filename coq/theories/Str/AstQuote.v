(* C20 - model of ast/encode.go:quoteString (the portable quoting routine of package ast). *)
From Coq Require Import NArith ZArith Bool List Lia.
From SV.Gen Require Import Tables.
From SV.Str Require Import Common RefUtf8.
Import ListNotations.
Open Scope N_scope.

Definition safe_set (b : N) : bool := nth (N.to_nat b) go_SafeSet false.
Definition hexd (v : N) : N := nth (N.to_nat v) go_Hex 0.

(* utf8.DecodeRuneInString: (rune, size); (RuneError, 1) on an ill-formed sequence *)
Definition decode_rune_in_string (s : list N) : N * nat :=
  match seq_len s with
  | O => (65533, 1%nat)
  | n => (seq_rune n s, n)
  end.

Definition quote_ascii (b : N) : list N :=
  if safe_set b then [b]
  else 92 :: (if (b =? 92) || (b =? 34) then [b]
              else if b =? 10 then [110]
              else if b =? 13 then [114]
              else if b =? 9 then [116]
              else [117; 48; 48; hexd (N.shiftr b 4); hexd (N.land b 15)]).

Fixpoint quote_string_go (fuel : nat) (s : list N) : list N :=
  match fuel with
  | O => []
  | S f =>
    match s with
    | [] => []
    | b :: r =>
      if b <? 128 then quote_ascii b ++ quote_string_go f r
      else
        let '(c, size) := decode_rune_in_string s in
        if (c =? 8232) || (c =? 8233) then [92; 117; 50; 48; 50; hexd (N.land c 15)] ++ quote_string_go f (skipn size s)
        else firstn size s ++ quote_string_go f (skipn size s)
    end
  end.

Definition quote_string (e s : list N) : list N := e ++ [34] ++ quote_string_go (length s) s ++ [34].
