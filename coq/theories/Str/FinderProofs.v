(* C20 / C13 - the W-blocked finders (memcchr_quote, memcchr_html_quote) meet a width-independent
   specification: for every list of positive block widths the result is the one of the scalar loop,
   up to the one case where both answers mean the same to the caller (special byte exactly at dn). *)
From Coq Require Import NArith ZArith Bool List Lia.
From SV.Str Require Import Common.
Import ListNotations.
Open Scope nat_scope.

Lemma skipn_add : forall (A : Type) a b (l : list A), skipn b (skipn a l) = skipn (a + b) l.
Proof. induction a; intros b l; simpl; auto. destruct l; simpl; auto. destruct b; reflexivity. Qed.

Lemma find_first_le : forall p l, find_first p l <= length l.
Proof. induction l; simpl; [lia|]. destruct (p a); simpl; lia. Qed.

Lemma find_first_ext : forall p q l, (forall b, p b = q b) -> find_first p l = find_first q l.
Proof. intros p q l H. induction l; simpl; auto. rewrite H, IHl. reflexivity. Qed.

Lemma find_first_firstn : forall p W l, find_first p (firstn W l) = Nat.min (find_first p l) (length (firstn W l)).
Proof.
  intros p W. induction W; intros l; simpl.
  - lia.
  - destruct l; simpl; [reflexivity|]. destruct (p n); simpl; [reflexivity|]. rewrite IHW. lia.
Qed.

Lemma find_first_skipn : forall p c l, c <= find_first p l -> find_first p (skipn c l) = find_first p l - c.
Proof.
  intros p c. induction c; intros l H; simpl.
  - lia.
  - destruct l; simpl in *; [lia|]. destruct (p n); [lia|]. apply IHc. lia.
Qed.

(* every byte before the first special one is plain *)
Lemma find_first_plain : forall p l i, i < find_first p l -> p (nth i l 0%N) = false.
Proof.
  intros p l. induction l; intros i H; simpl in *; [lia|].
  destruct (p a) eqn:E; [lia|]. destruct i; auto. apply IHl. lia.
Qed.

Lemma find_first_hit : forall p l, find_first p l < length l -> p (nth (find_first p l) l 0%N) = true.
Proof.
  intros p l. induction l; simpl; intros H; [lia|].
  destruct (p a) eqn:E; auto. apply IHl. lia.
Qed.

Lemma find_first_none : forall p l, find_first p l = length l -> forall b, In b l -> p b = false.
Proof.
  intros p l. induction l; simpl; intros H b Hin; [tauto|].
  destruct (p a) eqn:E; [discriminate|]. destruct Hin as [<-|Hin]; auto.
Qed.

Section Spec.
  Variable p : N -> bool.

  (* rb in terms of k = index of the first special byte: either "stopped at the special byte / the end"
     (all k bytes fit) or "destination full after dn bytes, input left" *)
  Definition mq_spec (src : list N) (pos dn : nat) (rb : Z) : Prop :=
    let k := find_first p src in
    (rb = Z.of_nat (pos + k) /\ k <= dn) \/
    (rb = (- Z.of_nat (pos + dn) - 1)%Z /\ dn <= k /\ dn < length src).

  Lemma mq_scalar_spec : forall src pos dn, mq_spec src pos dn (mq_scalar p src pos dn).
  Proof.
    induction src as [|b r IH]; intros pos dn; unfold mq_spec; simpl.
    - left. split; [lia| lia].
    - destruct dn as [|dn'].
      + right. destruct (p b); simpl; lia.
      + destruct (p b) eqn:E.
        * left. split; [lia|lia].
        * specialize (IH (S pos) dn'). unfold mq_spec in IH. destruct IH as [[H1 H2]|[H1 [H2 H3]]].
          -- left. rewrite H1. split; [lia|lia].
          -- right. rewrite H1. split; [lia|lia].
  Qed.

  (* skipping c plain bytes that fit *)
  Lemma mq_spec_skip : forall src pos dn c rb,
    c <= find_first p src -> c <= dn ->
    mq_spec (skipn c src) (pos + c) (dn - c) rb -> mq_spec src pos dn rb.
  Proof.
    intros src pos dn c rb Hk Hd. unfold mq_spec. rewrite find_first_skipn by assumption.
    pose proof (find_first_le p src) as Hle. rewrite skipn_length.
    intros [[H1 H2]|[H1 [H2 H3]]].
    - left. rewrite H1. split; [lia|lia].
    - right. rewrite H1. split; [lia|lia].
  Qed.

  Lemma mq_loop_spec : forall fuel W src pos dn,
    0 < W -> length src <= fuel ->
    match mq_loop fuel W p src pos dn with
    | inl r => mq_spec src pos dn r
    | inr (src', pos', dn') =>
      exists c, src' = skipn c src /\ pos' = pos + c /\ dn' = dn - c /\ c <= find_first p src /\ c <= dn /\
                (length src' < W \/ dn' < W)
    end.
  Proof.
    induction fuel as [|f IH]; intros W src pos dn HW Hf; simpl.
    - exists 0. destruct src; simpl in *; [|lia]. repeat split; simpl; try lia.
    - destruct ((W <=? length src) && (W <=? dn)) eqn:E.
      + apply andb_prop in E. destruct E as [E1 E2]. apply Nat.leb_le in E1. apply Nat.leb_le in E2.
        rewrite find_first_firstn, firstn_length, (Nat.min_l W) by lia.
        destruct (Nat.min (find_first p src) W <? W) eqn:E3.
        * apply Nat.ltb_lt in E3. unfold mq_spec. left. split; [lia|lia].
        * apply Nat.ltb_ge in E3.
          specialize (IH W (skipn W src) (pos + W) (dn - W) HW).
          rewrite skipn_length in IH. specialize (IH ltac:(lia)).
          destruct (mq_loop f W p (skipn W src) (pos + W) (dn - W)) as [r|[[s' p'] d']].
          -- apply mq_spec_skip with (c := W); [lia|lia|assumption].
          -- destruct IH as (c & H1 & H2 & H3 & H4 & H5 & H6).
             rewrite find_first_skipn in H4 by lia.
             exists (W + c). rewrite H1, skipn_add. repeat split; try lia.
             ++ subst d'. destruct H6 as [H6|H6]; [left|right]; [|lia]. rewrite H1, skipn_add in H6. exact H6.
      + exists 0. simpl. repeat split; try lia.
        apply andb_false_iff in E. destruct E as [E|E]; apply Nat.leb_gt in E; lia.
  Qed.

  Lemma mq_partial_spec : forall W src pos dn r,
    (length src < W \/ dn < W) -> mq_partial W p src pos dn = Some r -> mq_spec src pos dn r.
  Proof.
    intros W src pos dn r HW. unfold mq_partial.
    destruct (W <=? length src) eqn:E; [|discriminate]. apply Nat.leb_le in E.
    rewrite find_first_firstn, firstn_length, (Nat.min_l W) by lia.
    destruct (Nat.min (find_first p src) W <=? dn) eqn:E2; intros H; inversion H; subst r; clear H; unfold mq_spec.
    - apply Nat.leb_le in E2. left. split; [lia|lia].
    - apply Nat.leb_gt in E2. right. split; [reflexivity|lia].
  Qed.
End Spec.

Theorem memcchr_ws_spec : forall ws pv ps src pos dn,
  Forall (fun W => 0 < W) ws -> (forall b, pv b = ps b) ->
  mq_spec ps src pos dn (memcchr_ws ws pv ps src pos dn).
Proof.
  induction ws as [|W ws IH]; intros pv ps src pos dn HW Hext; simpl.
  - apply mq_scalar_spec.
  - inversion HW as [|? ? HW1 HW2]; subst.
    assert (Hs : forall s q d r, mq_spec pv s q d r -> mq_spec ps s q d r).
    { intros s q d r. unfold mq_spec. rewrite (find_first_ext pv ps s Hext). auto. }
    pose proof (mq_loop_spec pv (length src) W src pos dn HW1 (le_n _)) as HL.
    destruct (mq_loop (length src) W pv src pos dn) as [r|[[s' p'] d']].
    + apply Hs, HL.
    + destruct HL as (c & H1 & H2 & H3 & H4 & H5 & H6). subst s' p' d'.
      rewrite (find_first_ext pv ps src Hext) in H4.
      apply mq_spec_skip with (c := c); [assumption|assumption|].
      destruct (mq_partial W pv (skipn c src) (pos + c) (dn - c)) eqn:EP.
      * apply Hs. eapply mq_partial_spec; eauto.
      * apply IH; assumption.
Qed.

(* blocked = scalar, as one statement: any two width lists give results that satisfy the same specification;
   the scalar loop (ws = []) is one of them *)
Corollary memcchr_blocked_vs_scalar : forall ws p src dn,
  Forall (fun W => 0 < W) ws ->
  mq_spec p src 0 dn (memcchr_ws ws p p src 0 dn) /\ mq_spec p src 0 dn (memcchr_ws [] p p src 0 dn).
Proof. intros. split; apply memcchr_ws_spec; auto. Qed.

(* where the specification is deterministic (special byte not exactly at the capacity) blocked = scalar literally *)
Corollary memcchr_blocked_eq_scalar : forall ws p src dn,
  Forall (fun W => 0 < W) ws -> find_first p src <> dn \/ length src <= dn ->
  memcchr_ws ws p p src 0 dn = memcchr_ws [] p p src 0 dn.
Proof.
  intros ws p src dn HW Hne.
  destruct (memcchr_blocked_vs_scalar ws p src dn HW) as [H1 H2]. unfold mq_spec in *.
  pose proof (find_first_le p src).
  destruct H1 as [[-> ?]|[-> [? ?]]], H2 as [[-> ?]|[-> [? ?]]]; try reflexivity; lia.
Qed.

Lemma ws_avx2_pos : Forall (fun W => 0 < W) ws_avx2.
Proof. repeat constructor. Qed.
Lemma ws_sse_pos : Forall (fun W => 0 < W) ws_sse.
Proof. repeat constructor. Qed.
