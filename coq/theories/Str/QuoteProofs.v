(* C20 - native quote (both paths) = table-driven escape of every byte, greedy under a bounded destination,
   for every list of positive block widths. *)
From Coq Require Import NArith ZArith Bool List Lia.
From SV.Gen Require Import Tables.
From SV.Str Require Import Common Quote TablesOk FinderProofs.
Import ListNotations.
Open Scope nat_scope.

(* ---- specification ---- *)
Definition esc1 (t : qtab) (b : N) : list N := if tab_n t b =? 0 then [b] else tab_copy t b.
Definition cost (t : qtab) (b : N) : nat := if tab_n t b =? 0 then 1 else tab_n t b.
Definition escape_all (t : qtab) (s : list N) : list N := flat_map (esc1 t) s.

(* bounded destination: escape byte by byte while the next escape fits *)
Fixpoint quote_ref (t : qtab) (s : list N) (consumed nd : nat) : Z * list N :=
  match s with
  | [] => (Z.of_nat consumed, [])
  | b :: r =>
    if nd <? cost t b then ((- Z.of_nat consumed - 1)%Z, [])
    else let '(ret, o) := quote_ref t r (S consumed) (nd - cost t b) in (ret, esc1 t b ++ o)
  end.

Section WithTab.
  Variable t : qtab.
  Hypothesis G : good_tab t.

  Lemma tab_n_special : forall b, (tab_n t b =? 0) = negb (is_special b).
  Proof. intros. apply good_tab_n, G. Qed.

  Lemma esc1_len : forall b, length (esc1 t b) = cost t b.
  Proof.
    intros b. unfold esc1, cost. destruct (tab_n t b =? 0) eqn:E; [reflexivity|].
    destruct (good_tab_copy t b G) as (H1 & H2 & _). rewrite H1. exact H2.
  Qed.

  Lemma cost_bounds : forall b, 1 <= cost t b <= 7.
  Proof.
    intros b. unfold cost. destruct (tab_n t b =? 0) eqn:E; [lia|].
    apply Nat.eqb_neq in E. destruct (good_tab_copy t b G) as (_ & _ & H). lia.
  Qed.

  Lemma esc1_plain : forall b, is_special b = false -> esc1 t b = [b] /\ cost t b = 1.
  Proof. intros b H. unfold esc1, cost. rewrite tab_n_special, H. auto. Qed.

  Lemma esc1_special : forall b, is_special b = true -> esc1 t b = tab_copy t b /\ cost t b = tab_n t b /\ (tab_n t b =? 0) = false.
  Proof. intros b H. unfold esc1, cost. rewrite tab_n_special, H. auto. Qed.

  Lemma escape_all_app : forall a b, escape_all t (a ++ b) = escape_all t a ++ escape_all t b.
  Proof. intros. unfold escape_all. apply flat_map_app. Qed.

  Lemma escape_all_len : forall s, length (escape_all t s) <= 7 * length s.
  Proof.
    induction s; simpl; [lia|]. rewrite app_length, esc1_len. pose proof (cost_bounds a). lia.
  Qed.

  (* the first k bytes are plain *)
  Lemma escape_all_plain : forall k s, k <= find_first is_special s -> escape_all t (firstn k s) = firstn k s.
  Proof.
    induction k; intros s H; simpl; [reflexivity|].
    destruct s as [|b r]; simpl in *; [reflexivity|].
    destruct (is_special b) eqn:E; [lia|].
    destruct (esc1_plain b E) as [-> _]. simpl. f_equal. apply IHk. lia.
  Qed.

  Lemma quote_ref_plain : forall k s consumed nd,
    k <= find_first is_special s -> k <= nd ->
    quote_ref t s consumed nd =
    let '(ret, o) := quote_ref t (skipn k s) (consumed + k) (nd - k) in (ret, firstn k s ++ o).
  Proof.
    induction k; intros s consumed nd Hk Hn; simpl.
    - rewrite Nat.add_0_r, Nat.sub_0_r. destruct (quote_ref t s consumed nd). reflexivity.
    - destruct s as [|b r]; simpl in *.
      + lia.
      + destruct (is_special b) eqn:E; [lia|].
        destruct (esc1_plain b E) as [E1 E2]. rewrite E1, E2.
        destruct (nd <? 1) eqn:E3; [apply Nat.ltb_lt in E3; lia|].
        rewrite (IHk r (S consumed) (nd - 1)) by lia.
        replace (S consumed + k) with (consumed + S k) by lia.
        replace (nd - 1 - k) with (nd - S k) by lia.
        destruct (quote_ref t (skipn k r) (consumed + S k) (nd - S k)). reflexivity.
  Qed.

  Lemma quote_ref_len : forall s consumed nd ret o, quote_ref t s consumed nd = (ret, o) -> length o <= nd.
  Proof.
    induction s as [|b r IH]; intros consumed nd ret o; simpl.
    - intros H; inversion H; simpl; lia.
    - destruct (nd <? cost t b) eqn:E.
      + intros H; inversion H; simpl; lia.
      + apply Nat.ltb_ge in E.
        destruct (quote_ref t r (S consumed) (nd - cost t b)) as [ret' o'] eqn:E2.
        intros H; inversion H; subst. rewrite app_length, esc1_len. apply IH in E2. lia.
  Qed.

  (* everything fits *)
  Lemma quote_ref_fits : forall s consumed nd,
    length (escape_all t s) <= nd -> quote_ref t s consumed nd = (Z.of_nat (consumed + length s), escape_all t s).
  Proof.
    induction s as [|b r IH]; intros consumed nd H; simpl in *.
    - rewrite Nat.add_0_r. reflexivity.
    - rewrite app_length, esc1_len in H.
      destruct (nd <? cost t b) eqn:E; [apply Nat.ltb_lt in E; lia|].
      rewrite IH by lia. f_equal. lia.
  Qed.

  (* the outcome of the bounded reference, in words *)
  Lemma quote_ref_cases : forall s consumed nd ret o,
    quote_ref t s consumed nd = (ret, o) ->
    (ret = Z.of_nat (consumed + length s) /\ o = escape_all t s) \/
    (exists c, c < length s /\ ret = (- Z.of_nat (consumed + c) - 1)%Z /\ o = escape_all t (firstn c s) /\
               length o <= nd /\ nd - length o < cost t (nth c s 0%N)).
  Proof.
    induction s as [|b r IH]; intros consumed nd ret o; simpl.
    - intros H; inversion H. left. split; [lia|reflexivity].
    - destruct (nd <? cost t b) eqn:E.
      + intros H; inversion H; subst. apply Nat.ltb_lt in E. right. exists 0. simpl.
        repeat split; try lia.
      + apply Nat.ltb_ge in E.
        destruct (quote_ref t r (S consumed) (nd - cost t b)) as [ret' o'] eqn:E2.
        intros H; inversion H; subst. apply IH in E2.
        destruct E2 as [[H1 H2]|(c & Hc & H1 & H2 & H3 & H4)].
        * left. subst. split; [lia|reflexivity].
        * right. exists (S c). simpl. subst. rewrite app_length, esc1_len.
          repeat split; try lia.
  Qed.

  (* ---- the inner escape loop ---- *)
  Lemma quote_escapes_spec : forall s consumed out nd,
    match quote_escapes t s consumed out nd with
    | inl (ret, o) => exists o', quote_ref t s consumed nd = (ret, o') /\ o = out ++ o'
    | inr (s', c', out', nd') =>
      exists e, out' = out ++ e /\
                quote_ref t s consumed nd = (let '(ret, o) := quote_ref t s' c' nd' in (ret, e ++ o)) /\
                length s' <= length s /\
                (forall ch r, s = ch :: r -> is_special ch = true -> length s' < length s) /\
                (forall ch r, s' = ch :: r -> is_special ch = false)
    end.
  Proof.
    induction s as [|ch r IH]; intros consumed out nd.
    - simpl. exists []. rewrite app_nil_r. repeat split; auto; intros; discriminate.
    - cbn [quote_escapes]. rewrite tab_n_special. destruct (is_special ch) eqn:E; cbn [negb].
      + cbn [quote_ref]. destruct (esc1_special ch E) as (E1 & E2 & E3).
        rewrite E1, E2.
        destruct (nd <? tab_n t ch) eqn:E4.
        * exists []. rewrite app_nil_r. auto.
        * specialize (IH (S consumed) (out ++ tab_copy t ch) (nd - tab_n t ch)).
          destruct (quote_escapes t r (S consumed) (out ++ tab_copy t ch) (nd - tab_n t ch)) as [[ret o]|[[[s' c'] out'] nd']].
          -- destruct IH as (o' & H1 & H2). rewrite H1. exists (tab_copy t ch ++ o'). split; [reflexivity|].
             rewrite H2, app_assoc. reflexivity.
          -- destruct IH as (e & H1 & H2 & H3 & H4 & H5).
             exists (tab_copy t ch ++ e). rewrite H1, H2.
             destruct (quote_ref t s' c' nd') as [ret o].
             repeat split; auto; try (rewrite app_assoc; reflexivity); try (simpl; lia); try (intros; simpl; lia).
      + exists []. rewrite app_nil_r. destruct (quote_ref t (ch :: r) consumed nd) eqn:E5.
        repeat split; auto; intros; congruence.
  Qed.

  (* ---- the outer loop ---- *)
  Variable ws : list nat.
  Hypothesis HW : Forall (fun W => 0 < W) ws.

  Lemma memcchr_quote_spec : forall src nd, mq_spec is_special src 0 nd (memcchr_quote ws src nd).
  Proof.
    intros. unfold memcchr_quote.
    assert (H := memcchr_ws_spec ws find_quote_lane single_special src 0 nd HW).
    assert (E : forall b, find_quote_lane b = single_special b).
    { intros b. rewrite single_special_special. reflexivity. }
    specialize (H E). unfold mq_spec in *.
    rewrite (find_first_ext single_special is_special) in H by (intros; apply single_special_special).
    exact H.
  Qed.

  Lemma quote_loop_spec : forall fuel src consumed out nd,
    length src < fuel ->
    quote_loop fuel ws t src consumed out nd =
    let '(ret, o) := quote_ref t src consumed nd in (ret, out ++ o).
  Proof.
    induction fuel as [|f IH]; intros src consumed out nd Hf; [lia|].
    destruct src as [|b0 r0] eqn:Esrc.
    - simpl. rewrite app_nil_r. reflexivity.
    - rewrite <- Esrc in *. assert (Hne : src <> []) by (subst; discriminate).
      cbn [quote_loop]. replace (match src with [] => (Z.of_nat consumed, out) | _ :: _ => _ end)
        with (let rb := memcchr_quote ws src nd in
              if (rb <? 0)%Z then
                let k := Z.to_nat (- rb - 1) in ((- Z.of_nat (consumed + k) - 1)%Z, out ++ firstn k src)
              else
                let k := Z.to_nat rb in
                match quote_escapes t (skipn k src) (consumed + k) (out ++ firstn k src) (nd - k) with
                | inl r => r
                | inr (src', consumed', out', nd') => quote_loop f ws t src' consumed' out' nd'
                end) by (subst src; reflexivity).
      cbv zeta.
      pose proof (memcchr_quote_spec src nd) as HS. unfold mq_spec in HS. simpl in HS.
      set (k := find_first is_special src) in *.
      pose proof (find_first_le is_special src) as Hkl. fold k in Hkl.
      destruct HS as [[Hrb Hk]|[Hrb [Hk Hlen]]]; rewrite Hrb.
      + (* stopped at the first special byte or at the end *)
        destruct (Z.of_nat k <? 0)%Z eqn:EZ; [apply Z.ltb_lt in EZ; lia|].
        rewrite Nat2Z.id.
        rewrite (quote_ref_plain k src consumed nd) by (unfold k; lia).
        pose proof (quote_escapes_spec (skipn k src) (consumed + k) (out ++ firstn k src) (nd - k)) as HE.
        destruct (quote_escapes t (skipn k src) (consumed + k) (out ++ firstn k src) (nd - k)) as [[ret o]|[[[s' c'] out'] nd']].
        * destruct HE as (o' & H1 & H2). rewrite H1, H2, <- !app_assoc. reflexivity.
        * destruct HE as (e & H1 & H2 & H3 & H4 & H5).
          rewrite H2, H1.
          assert (Hlt : length s' < f).
          { rewrite skipn_length in H3.
            destruct (Nat.eq_dec k 0) as [K0|K0].
            - (* the first byte is special: the escape loop consumed it *)
              assert (Hsp : is_special (nth k src 0%N) = true).
              { apply find_first_hit. fold k. destruct src; [congruence|simpl; lia]. }
              rewrite K0 in *. simpl in *. destruct src as [|c0 r1]; [congruence|].
              simpl in Hsp. specialize (H4 c0 r1 eq_refl Hsp). simpl in *. lia.
            - lia. }
          rewrite IH by exact Hlt.
          destruct (quote_ref t s' c' nd') as [ret o]. rewrite <- !app_assoc. reflexivity.
      + (* destination full after nd plain bytes *)
        destruct (- Z.of_nat nd - 1 <? 0)%Z eqn:EZ; [|apply Z.ltb_ge in EZ; lia].
        replace (Z.to_nat (- (- Z.of_nat nd - 1) - 1)) with nd by lia.
        rewrite (quote_ref_plain nd src consumed nd) by (fold k; lia).
        rewrite Nat.sub_diag.
        destruct (skipn nd src) as [|c1 r1] eqn:ES.
        * assert (length (skipn nd src) = 0) by (rewrite ES; reflexivity). rewrite skipn_length in H. lia.
        * simpl. pose proof (cost_bounds c1).
          destruct (0 <? cost t c1) eqn:E0; [|apply Nat.ltb_ge in E0; lia].
          rewrite app_nil_r. reflexivity.
  Qed.

  (* ---- the big-destination path ---- *)
  Definition mqu_inv (src0 : list N) (st : nat * bool * list N) : Prop :=
    let '(k, found, s) := st in
    s = skipn k src0 /\ k <= find_first is_special src0 /\
    (found = true -> k = find_first is_special src0 /\ k < length src0).

  Lemma ff_skip_lt : forall src0 k, k <= find_first is_special src0 ->
    find_first is_special (skipn k src0) = find_first is_special src0 - k.
  Proof. intros. apply find_first_skipn. assumption. Qed.

  Lemma mqu_loop_inv : forall fuel W src0 s k,
    mqu_inv src0 (k, false, s) -> mqu_inv src0 (mqu_loop fuel W s k).
  Proof.
    induction fuel as [|f IH]; intros W src0 s k Hinv; simpl; [exact Hinv|].
    destruct Hinv as (Hs & Hk & _).
    pose proof (find_first_le is_special src0) as Hle.
    destruct (W <=? length s) eqn:E; [|repeat split; auto; discriminate].
    apply Nat.leb_le in E.
    rewrite (find_first_ext find_quote_lane is_special) by reflexivity.
    rewrite find_first_firstn, firstn_length, (Nat.min_l W) by lia.
    assert (Hff : find_first is_special s = find_first is_special src0 - k) by (subst s; apply ff_skip_lt; assumption).
    assert (Hls : length s = length src0 - k) by (subst s; apply skipn_length).
    destruct (Nat.min (find_first is_special s) W <? W) eqn:E2.
    - apply Nat.ltb_lt in E2. set (c := Nat.min (find_first is_special s) W) in *.
      pose proof (find_first_le is_special s).
      unfold mqu_inv. split; [rewrite Hs, skipn_add; reflexivity|]. split; [lia|]. intros _. lia.
    - apply Nat.ltb_ge in E2. apply IH. unfold mqu_inv.
      split; [rewrite Hs, skipn_add; reflexivity|]. split; [lia|]. discriminate.
  Qed.

  Lemma mqu_simd_inv : forall ws' src0 s k,
    mqu_inv src0 (k, false, s) -> mqu_inv src0 (mqu_simd ws' s k).
  Proof.
    induction ws' as [|W ws' IH]; intros src0 s k Hinv; simpl; [exact Hinv|].
    pose proof (mqu_loop_inv (length s) W src0 s k Hinv) as HL.
    destruct (mqu_loop (length s) W s k) as [[k' [|]] s']; [exact HL|].
    apply IH. exact HL.
  Qed.

  Lemma mqu_group_inv : forall n src0 s k,
    mqu_inv src0 (k, false, s) -> mqu_inv src0 (mqu_group n s k).
  Proof.
    intros n src0 s k Hinv. unfold mqu_group.
    destruct Hinv as (Hs & Hk & _).
    destruct (n <=? length s) eqn:E; [|repeat split; auto; discriminate].
    apply Nat.leb_le in E.
    rewrite (find_first_ext esc_tab is_special) by (intros; apply esc_tab_special).
    rewrite find_first_firstn, firstn_length, (Nat.min_l n) by lia.
    assert (Hff : find_first is_special s = find_first is_special src0 - k) by (subst s; apply ff_skip_lt; assumption).
    assert (Hls : length s = length src0 - k) by (subst s; apply skipn_length).
    pose proof (find_first_le is_special s).
    destruct (Nat.min (find_first is_special s) n <? n) eqn:E2.
    - apply Nat.ltb_lt in E2. set (c := Nat.min (find_first is_special s) n) in *.
      unfold mqu_inv. split; [rewrite Hs, skipn_add; reflexivity|]. split; [lia|]. intros _. lia.
    - apply Nat.ltb_ge in E2. unfold mqu_inv.
      split; [rewrite Hs, skipn_add; reflexivity|]. split; [lia|]. discriminate.
  Qed.

  (* the byte loop finishes the search *)
  Lemma mqu_bytes_inv : forall s src0 k,
    mqu_inv src0 (k, false, s) ->
    let '(k', found, s') := mqu_bytes s k in
    mqu_inv src0 (k', found, s') /\ (found = false -> k' = length src0 /\ k' = find_first is_special src0).
  Proof.
    induction s as [|b r IH]; intros src0 k Hinv; simpl.
    - destruct Hinv as (Hs & Hk & _). pose proof (find_first_le is_special src0).
      assert (length (skipn k src0) = 0) by (rewrite <- Hs; reflexivity). rewrite skipn_length in H0.
      split; [repeat split; auto; discriminate|]. intros _. lia.
    - destruct Hinv as (Hs & Hk & _).
      assert (Hff : find_first is_special (b :: r) = find_first is_special src0 - k) by (rewrite Hs; apply ff_skip_lt; assumption).
      assert (Hls : length (b :: r) = length src0 - k) by (rewrite Hs; apply skipn_length).
      rewrite esc_tab_special. simpl in Hff, Hls.
      destruct (is_special b) eqn:E.
      + split; [|discriminate]. unfold mqu_inv. repeat split; auto; lia.
      + apply IH. unfold mqu_inv. repeat split; try lia; try discriminate.
        assert (Hr : r = skipn 1 (b :: r)) by reflexivity. rewrite Hr, Hs, skipn_add. f_equal. lia.
  Qed.

  Lemma mqu_find_spec : forall src,
    let '(k, found, s) := mqu_find ws src in
    k = find_first is_special src /\ s = skipn k src /\ (found = true -> k < length src) /\ (found = false -> k = length src).
  Proof.
    intros src. unfold mqu_find.
    assert (H0 : mqu_inv src (0, false, src)) by (unfold mqu_inv; repeat split; try lia; discriminate).
    assert (H1 : mqu_inv src (if length src <? 16 then (0, false, src) else mqu_simd ws src 0)).
    { destruct (length src <? 16); [exact H0|apply mqu_simd_inv, H0]. }
    destruct (if length src <? 16 then (0, false, src) else mqu_simd ws src 0) as [[k [|]] s].
    { destruct H1 as (A & B & C). destruct (C eq_refl). repeat split; auto; discriminate. }
    pose proof (mqu_group_inv 8 src s k H1) as H2.
    destruct (mqu_group 8 s k) as [[k1 [|]] s1].
    { destruct H2 as (A & B & C). destruct (C eq_refl). repeat split; auto; discriminate. }
    pose proof (mqu_group_inv 4 src s1 k1 H2) as H3.
    destruct (mqu_group 4 s1 k1) as [[k2 [|]] s2].
    { destruct H3 as (A & B & C). destruct (C eq_refl). repeat split; auto; discriminate. }
    pose proof (mqu_bytes_inv s2 src k2 H3) as H4.
    destruct (mqu_bytes s2 k2) as [[k3 found] s3]. destruct H4 as [(A & B & C) D].
    destruct found.
    - destruct (C eq_refl). repeat split; auto; discriminate.
    - destruct (D eq_refl). repeat split; auto; try discriminate; try lia.
  Qed.

  Lemma mqu_escape_spec : forall r ch, is_special ch = true ->
    let '(e, rest) := mqu_escape t ch r in
    e ++ escape_all t rest = escape_all t (ch :: r) /\ length rest <= length r.
  Proof.
    induction r as [|c r' IH]; intros ch Hch; simpl.
    - destruct (esc1_special ch Hch) as (E1 & _). rewrite E1, app_nil_r. auto.
    - rewrite esc_tab_special. destruct (is_special c) eqn:E.
      + specialize (IH c E). destruct (mqu_escape t c r') as [e rest]. destruct IH as [H1 H2].
        destruct (esc1_special ch Hch) as (E1 & _). rewrite E1. simpl in H1.
        split; [|simpl; lia]. rewrite <- app_assoc, H1. reflexivity.
      + destruct (esc1_special ch Hch) as (E1 & _). rewrite E1. split; [reflexivity|simpl; lia].
  Qed.

  Lemma memcchr_quote_unsafe_spec : forall fuel src, length src < fuel ->
    memcchr_quote_unsafe fuel ws t src = escape_all t src.
  Proof.
    induction fuel as [|f IH]; intros src Hf; [lia|]. cbn [memcchr_quote_unsafe].
    pose proof (mqu_find_spec src) as HF.
    destruct (mqu_find ws src) as [[k found] s]. destruct HF as (Hk & Hs & Ht & Hn).
    destruct found.
    - specialize (Ht eq_refl).
      assert (Hsplit : src = firstn k src ++ skipn k src) by (symmetry; apply firstn_skipn).
      destruct s as [|ch r].
      + assert (length (skipn k src) = 0) by (rewrite <- Hs; reflexivity). rewrite skipn_length in H. lia.
      + assert (Hch : is_special ch = true).
        { pose proof (find_first_hit is_special src ltac:(lia)) as HH. rewrite <- Hk in HH.
          rewrite <- (firstn_skipn k src) in HH at 1. rewrite app_nth2 in HH by (rewrite firstn_length; lia).
          rewrite firstn_length, Nat.min_l, Nat.sub_diag, <- Hs in HH by lia. exact HH. }
        pose proof (mqu_escape_spec r ch Hch) as HE.
        destruct (mqu_escape t ch r) as [e rest]. destruct HE as [H1 H2].
        rewrite IH.
        * rewrite Hsplit at 2. rewrite escape_all_app, escape_all_plain by lia.
          rewrite <- Hs, <- H1. reflexivity.
        * assert (length (ch :: r) = length src - k) by (rewrite Hs; apply skipn_length). simpl in H. lia.
    - specialize (Hn eq_refl). rewrite <- (escape_all_plain k src) by lia.
      rewrite Hn, firstn_all. reflexivity.
  Qed.
End WithTab.

Lemma quote_tab_good : forall flags, good_tab (quote_tab flags).
Proof. intros. unfold quote_tab. destruct (N.land flags c_F_DBLUNQ =? 0)%N; [apply good_single|apply good_double]. Qed.

(* ---- quote(sp, nb, dp, &dn, flags) ---- *)
Theorem quote_spec : forall ws flags src dn,
  Forall (fun W => 0 < W) ws ->
  quote ws flags src dn = quote_ref (quote_tab flags) src 0 dn.
Proof.
  intros ws flags src dn HW. unfold quote.
  pose proof (quote_tab_good flags) as G.
  destruct (length src * N.to_nat MAX_ESCAPED_BYTES <=? dn) eqn:E.
  - apply Nat.leb_le in E. change (N.to_nat MAX_ESCAPED_BYTES) with 8 in E.
    rewrite memcchr_quote_unsafe_spec by (auto; lia).
    pose proof (escape_all_len _ G src).
    rewrite quote_ref_fits by (auto; lia). reflexivity.
  - rewrite quote_loop_spec by (auto; lia).
    destruct (quote_ref (quote_tab flags) src 0 dn). reflexivity.
Qed.

(* quote_spec in the words of the property: when the whole escape fits, all input is consumed and the
   output is the table-driven escape of every byte; otherwise a proper prefix was escaped *)
Corollary quote_full : forall ws flags src dn,
  Forall (fun W => 0 < W) ws -> length (escape_all (quote_tab flags) src) <= dn ->
  quote ws flags src dn = (Z.of_nat (length src), escape_all (quote_tab flags) src).
Proof.
  intros. rewrite quote_spec by assumption. rewrite quote_ref_fits by (auto using quote_tab_good). reflexivity.
Qed.

Corollary quote_width_independent : forall ws flags src dn,
  Forall (fun W => 0 < W) ws -> quote ws flags src dn = quote [] flags src dn.
Proof. intros. rewrite !quote_spec by (auto; constructor). reflexivity. Qed.
