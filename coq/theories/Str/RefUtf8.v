(* C20 - reference definition of well-formed UTF-8 (Unicode 15, Table 3-7) and of byte-wise
   replacement.  These are the specifications; nothing here follows the implementation. *)
From Coq Require Import NArith ZArith Bool List Lia.
Import ListNotations.
Open Scope N_scope.

Definition inr8 (lo hi b : N) : bool := (lo <=? b) && (b <=? hi).
Definition cont (b : N) : bool := inr8 128 191 b.

(* length (1..4) of the well-formed sequence at the head of s; 0 if there is none *)
Definition seq_len (s : list N) : nat :=
  match s with
  | [] => O
  | b0 :: r =>
    if b0 <=? 127 then 1%nat
    else if inr8 194 223 b0 then
      match r with b1 :: _ => if cont b1 then 2%nat else O | _ => O end
    else if inr8 224 239 b0 then
      match r with
      | b1 :: b2 :: _ =>
        if (if b0 =? 224 then inr8 160 191 b1 else if b0 =? 237 then inr8 128 159 b1 else cont b1) && cont b2
        then 3%nat else O
      | _ => O
      end
    else if inr8 240 244 b0 then
      match r with
      | b1 :: b2 :: b3 :: _ =>
        if (if b0 =? 240 then inr8 144 191 b1 else if b0 =? 244 then inr8 128 143 b1 else cont b1)
           && cont b2 && cont b3
        then 4%nat else O
      | _ => O
      end
    else O
  end.

(* the scalar value of a well-formed sequence of the given length *)
Definition seq_rune (n : nat) (s : list N) : N :=
  let b i := nth i s 0 in
  match n with
  | 1%nat => b 0%nat
  | 2%nat => N.land (b 0%nat) 31 * 64 + N.land (b 1%nat) 63
  | 3%nat => N.land (b 0%nat) 15 * 4096 + N.land (b 1%nat) 63 * 64 + N.land (b 2%nat) 63
  | 4%nat => N.land (b 0%nat) 7 * 262144 + N.land (b 1%nat) 63 * 4096 + N.land (b 2%nat) 63 * 64 + N.land (b 3%nat) 63
  | _ => 65533
  end.

(* declarative: a byte string is well formed iff it is a concatenation of well-formed sequences *)
Inductive WF : list N -> Prop :=
| WF_nil : WF []
| WF_seq : forall s n, seq_len s = S n -> WF (skipn (S n) s) -> WF s.

Fixpoint wf_go (fuel : nat) (s : list N) : bool :=
  match fuel with
  | O => match s with [] => true | _ => false end
  | S f =>
    match s with
    | [] => true
    | _ => match seq_len s with O => false | n => wf_go f (skipn n s) end
    end
  end.
Definition wf (s : list N) : bool := wf_go (length s) s.

(* position of the first byte at which no well-formed sequence starts (scanning sequence by sequence) *)
Fixpoint first_bad_go (fuel : nat) (s : list N) (pos : nat) : option nat :=
  match fuel with
  | O => None
  | S f =>
    match s with
    | [] => None
    | _ => match seq_len s with O => Some pos | n => first_bad_go f (skipn n s) (pos + n) end
    end
  end.
Definition first_bad (s : list N) : option nat := first_bad_go (length s) s 0.

(* byte-wise replacement: every byte at which no well-formed sequence starts becomes repl,
   well-formed sequences are copied (what `for range` / utf8.DecodeRune based loops produce) *)
Fixpoint replace_go (fuel : nat) (repl s : list N) : list N :=
  match fuel with
  | O => []
  | S f =>
    match s with
    | [] => []
    | b :: r =>
      match seq_len s with
      | O => repl ++ replace_go f repl r
      | n => firstn n s ++ replace_go f repl (skipn n s)
      end
    end
  end.
Definition replace_invalid (repl s : list N) : list N := replace_go (length s) repl s.
