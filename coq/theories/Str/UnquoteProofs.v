(* C20 - the native unquote in single mode (F_DBLUNQ off, F_UNIREP on or off) equals a reference
   unquoter written after encoding/json decode.go:unquoteBytes (escapes) that copies every other byte.
   The reference (hexval, hex4, getu4, utf8_enc, ref_simple, ref_rune, ref_unquote) has its own arithmetic
   (div/mod, no N.lor/N.shiftr, no table) and does not mention the model of Unquote.v.
   Surrogates as in encoding/json: a valid pair is combined; a lone or mis-ordered surrogate becomes
   U+FFFD when rep is set, otherwise the whole input is rejected; after a lone high surrogate the
   following escape is parsed again from the main loop (the C code does this with goto retry_decode).
   Main results: unquote_spec, go_into_bytes_spec, go_unquote_string_spec, unquote_len_le.
   They hold for all lists of N (no byte-range hypothesis is needed).
   Finite sweeps used: the 256 byte values (escape table, ishex, N.lor with the UTF-8 lead bits) and the
   22^4 quadruples of hexadecimal digits (unhex16_fast = hex4). *)
From Coq Require Import NArith ZArith Bool List Lia.
From SV.Gen Require Import Tables.
From SV.Str Require Import Common Unquote TablesOk RoundTrip.
Import ListNotations.
Open Scope nat_scope.

(* ---- the reference ---- *)
Definition hexval (c : N) : option N :=
  if ((48 <=? c) && (c <=? 57))%N then Some (c - 48)%N
  else if ((97 <=? c) && (c <=? 102))%N then Some (c - 87)%N
  else if ((65 <=? c) && (c <=? 70))%N then Some (c - 55)%N
  else None.

Definition hex4 (s : list N) : option N :=
  match s with
  | a :: b :: c :: d :: _ =>
    match hexval a, hexval b, hexval c, hexval d with
    | Some a', Some b', Some c', Some d' => Some (a' * 4096 + b' * 256 + c' * 16 + d')%N
    | _, _, _, _ => None
    end
  | _ => None
  end.

Definition getu4 (s : list N) : option N :=
  match s with
  | a :: b :: r => if ((a =? 92) && (b =? 117))%N then hex4 r else None
  | _ => None
  end.

Definition utf8_enc (r : N) : list N :=
  (if r <? 128 then [r]
   else if r <? 2048 then [192 + r / 64; 128 + r mod 64]
   else if r <? 65536 then [224 + r / 4096; 128 + (r / 64) mod 64; 128 + r mod 64]
   else [240 + r / 262144; 128 + (r / 4096) mod 64; 128 + (r / 64) mod 64; 128 + r mod 64])%N.

Definition ref_simple (c : N) : option N :=
  (if c =? 34 then Some 34 else if c =? 92 then Some 92 else if c =? 47 then Some 47
   else if c =? 98 then Some 8 else if c =? 102 then Some 12 else if c =? 110 then Some 10
   else if c =? 114 then Some 13 else if c =? 116 then Some 9 else None)%N.

Definition lone (rep : bool) (rest : list N) : option (list N * list N) :=
  if rep then Some ([239; 191; 189]%N, rest) else None.

Definition ref_rune (rep : bool) (r0 : N) (rest : list N) : option (list N * list N) :=
  if ((55296 <=? r0) && (r0 <=? 57343))%N then
    if (r0 <? 56320)%N then
      match getu4 rest with
      | Some r1 =>
        if ((56320 <=? r1) && (r1 <=? 57343))%N
        then Some (utf8_enc (65536 + (r0 - 55296) * 1024 + (r1 - 56320))%N, skipn 6 rest)
        else lone rep rest
      | None => lone rep rest
      end
    else lone rep rest
  else Some (utf8_enc r0, rest).

Fixpoint ref_unquote (fuel : nat) (rep : bool) (s : list N) : option (list N) :=
  match fuel with
  | O => None
  | S f =>
    match s with
    | [] => Some []
    | b :: r =>
      if (b =? 92)%N then
        match r with
        | [] => None
        | c :: r' =>
          match ref_simple c with
          | Some v => option_map (cons v) (ref_unquote f rep r')
          | None =>
            if (c =? 117)%N then
              match hex4 r' with
              | None => None
              | Some r0 =>
                match ref_rune rep r0 (skipn 4 r') with
                | None => None
                | Some (e, rest) => option_map (app e) (ref_unquote f rep rest)
                end
              end
            else None
          end
        end
      else option_map (cons b) (ref_unquote f rep r)
    end
  end.

(* ---- per-character sweeps ---- *)
Definition esc_class_b (c : N) : bool :=
  match ref_simple c with
  | Some v => simple_ok c v
  | None => if (c =? 117)%N then (unquote_tab c =? -1)%Z else (unquote_tab c =? 0)%Z
  end.

Lemma esc_class_sweep : forallb esc_class_b bytes256 = true.
Proof. vm_compute. reflexivity. Qed.

Lemma ref_simple_big : forall c, (256 <= c)%N -> ref_simple c = None /\ (c =? 117)%N = false.
Proof.
  intros c H. unfold ref_simple.
  repeat match goal with
         | |- context [(c =? ?k)%N] => destruct (N.eqb_spec c k); [lia|]
         end.
  auto.
Qed.

Lemma esc_class_all : forall c, esc_class_b c = true.
Proof.
  intros c. destruct (N.lt_ge_cases c 256) as [H|H].
  - apply (sweep256 _ esc_class_sweep c H).
  - unfold esc_class_b. destruct (ref_simple_big c H) as [-> ->].
    unfold unquote_tab. destruct lengths as (_ & _ & _ & _ & L). rewrite nth_overflow by lia. reflexivity.
Qed.

Lemma hexval_none : forall c, ishex c = false -> hexval c = None.
Proof.
  intros c. unfold ishex, hexval.
  destruct ((48 <=? c) && (c <=? 57))%N; [cbn [orb]; discriminate|].
  destruct ((97 <=? c) && (c <=? 102))%N; [cbn [orb]; discriminate|].
  destruct ((65 <=? c) && (c <=? 70))%N; [cbn [orb]; discriminate|reflexivity].
Qed.

Definition hexdigits : list N :=
  [48; 49; 50; 51; 52; 53; 54; 55; 56; 57; 97; 98; 99; 100; 101; 102; 65; 66; 67; 68; 69; 70]%N.

Definition ishex_in_b (c : N) : bool := implb (ishex c) (existsb (N.eqb c) hexdigits).
Lemma ishex_in_sweep : forallb ishex_in_b bytes256 = true.
Proof. vm_compute. reflexivity. Qed.

Lemma ishex_lt : forall c, ishex c = true -> (c < 256)%N.
Proof.
  intros c H. unfold ishex in H.
  apply orb_true_iff in H. destruct H as [H|H]; [apply orb_true_iff in H; destruct H as [H|H]|];
    apply andb_true_iff in H; destruct H as [Ha Hb]; apply N.leb_le in Ha, Hb; lia.
Qed.

Lemma ishex_in : forall c, ishex c = true -> In c hexdigits.
Proof.
  intros c H. pose proof (sweep256 _ ishex_in_sweep c (ishex_lt c H)) as S.
  unfold ishex_in_b in S. rewrite H in S. cbn [implb] in S.
  apply existsb_exists in S. destruct S as (y & Hy & E). apply N.eqb_eq in E. subst y. exact Hy.
Qed.

(* all 22^4 quadruples of hexadecimal digits *)
Definition quad_ok (a b c d : N) : bool :=
  match hex4 [a; b; c; d] with
  | Some v => (unhex16_fast [a; b; c; d] =? v)%N && (v <? 65536)%N
  | None => false
  end.

Lemma quad_sweep :
  forallb (fun a => forallb (fun b => forallb (fun c => forallb (fun d => quad_ok a b c d)
    hexdigits) hexdigits) hexdigits) hexdigits = true.
Proof. vm_compute. reflexivity. Qed.

Lemma hex_quad_true : forall h1 h2 h3 h4 rest, unhex16_is [h1; h2; h3; h4] = true ->
  hex4 (h1 :: h2 :: h3 :: h4 :: rest) = Some (unhex16_fast [h1; h2; h3; h4]) /\
  (unhex16_fast [h1; h2; h3; h4] < 65536)%N.
Proof.
  intros h1 h2 h3 h4 rest H. unfold unhex16_is in H. cbn [nth] in H.
  apply andb_prop in H. destruct H as [H H4]. apply andb_prop in H. destruct H as [H H3].
  apply andb_prop in H. destruct H as [H1 H2].
  apply ishex_in in H1, H2, H3, H4.
  pose proof (proj1 (forallb_forall _ _) quad_sweep h1 H1) as Q1. cbv beta in Q1.
  pose proof (proj1 (forallb_forall _ _) Q1 h2 H2) as Q2. cbv beta in Q2.
  pose proof (proj1 (forallb_forall _ _) Q2 h3 H3) as Q3. cbv beta in Q3.
  pose proof (proj1 (forallb_forall _ _) Q3 h4 H4) as Q4. cbv beta in Q4.
  unfold quad_ok in Q4.
  change (hex4 (h1 :: h2 :: h3 :: h4 :: rest)) with (hex4 [h1; h2; h3; h4]).
  destruct (hex4 [h1; h2; h3; h4]) as [v|]; [|discriminate].
  apply andb_prop in Q4. destruct Q4 as [Qa Qb]. apply N.eqb_eq in Qa. apply N.ltb_lt in Qb.
  rewrite Qa. auto.
Qed.

Lemma hex_quad_false : forall h1 h2 h3 h4 rest, unhex16_is [h1; h2; h3; h4] = false ->
  hex4 (h1 :: h2 :: h3 :: h4 :: rest) = None.
Proof.
  intros h1 h2 h3 h4 rest H. unfold unhex16_is in H. cbn [nth] in H. unfold hex4.
  apply andb_false_iff in H. destruct H as [H|H]; [apply andb_false_iff in H; destruct H as [H|H];
    [apply andb_false_iff in H; destruct H as [H|H]|]|];
    apply hexval_none in H; rewrite H;
    destruct (hexval h1); try reflexivity; destruct (hexval h2); try reflexivity;
    destruct (hexval h3); reflexivity.
Qed.

(* ---- the encoders ---- *)
Definition lor_ok_b (y : N) : bool :=
  ((if y <? 64 then N.lor 128 y =? 128 + y else true) &&
   (if y <? 32 then N.lor 192 y =? 192 + y else true) &&
   (if y <? 16 then N.lor 224 y =? 224 + y else true) &&
   (if y <? 8 then N.lor 240 y =? 240 + y else true))%N.
Lemma lor_sweep : forallb lor_ok_b bytes256 = true.
Proof. vm_compute. reflexivity. Qed.

Lemma lor_parts : forall y, (y < 256)%N ->
  ((y <? 64) = true -> N.lor 128 y = 128 + y)%N /\ ((y <? 32) = true -> N.lor 192 y = 192 + y)%N /\
  ((y <? 16) = true -> N.lor 224 y = 224 + y)%N /\ ((y <? 8) = true -> N.lor 240 y = 240 + y)%N.
Proof.
  intros y H. pose proof (sweep256 _ lor_sweep y H) as S. unfold lor_ok_b in S.
  apply andb_prop in S. destruct S as [S S4]. apply andb_prop in S. destruct S as [S S3].
  apply andb_prop in S. destruct S as [S1 S2].
  repeat split; intros E; [rewrite E in S1|rewrite E in S2|rewrite E in S3|rewrite E in S4];
    apply N.eqb_eq; assumption.
Qed.

Lemma lor128 : forall y, (y < 64)%N -> N.lor 128 y = (128 + y)%N.
Proof. intros y H. apply (lor_parts y); [lia|apply N.ltb_lt; exact H]. Qed.
Lemma lor192 : forall y, (y < 32)%N -> N.lor 192 y = (192 + y)%N.
Proof. intros y H. apply (lor_parts y); [lia|apply N.ltb_lt; exact H]. Qed.
Lemma lor224 : forall y, (y < 16)%N -> N.lor 224 y = (224 + y)%N.
Proof. intros y H. apply (lor_parts y); [lia|apply N.ltb_lt; exact H]. Qed.
Lemma lor240 : forall y, (y < 8)%N -> N.lor 240 y = (240 + y)%N.
Proof. intros y H. apply (lor_parts y); [lia|apply N.ltb_lt; exact H]. Qed.

Lemma land63 : forall r, N.land r 63 = (r mod 64)%N.
Proof. intros r. change 63%N with (N.ones 6). rewrite N.land_ones. reflexivity. Qed.
Lemma shr6 : forall r, N.shiftr r 6 = (r / 64)%N.
Proof. intros r. rewrite N.shiftr_div_pow2. reflexivity. Qed.
Lemma shr12 : forall r, N.shiftr r 12 = (r / 4096)%N.
Proof. intros r. rewrite N.shiftr_div_pow2. reflexivity. Qed.
Lemma shr18 : forall r, N.shiftr r 18 = (r / 262144)%N.
Proof. intros r. rewrite N.shiftr_div_pow2. reflexivity. Qed.

Lemma m64 : forall r, (r mod 64 < 64)%N.
Proof. intros r. apply N.mod_lt. discriminate. Qed.

Lemma utf8_enc_1 : forall r, (r <=? 127)%N = true -> utf8_enc r = [r].
Proof. intros r H. apply N.leb_le in H. unfold utf8_enc. destruct (N.ltb_spec r 128); [reflexivity|lia]. Qed.

Lemma utf8_enc_2 : forall r, (r <=? 127)%N = false -> (r <=? 2047)%N = true -> utf8_enc r = enc2 r.
Proof.
  intros r H1 H2. apply N.leb_gt in H1. apply N.leb_le in H2. unfold utf8_enc, enc2.
  destruct (N.ltb_spec r 128); [lia|]. destruct (N.ltb_spec r 2048); [|lia].
  rewrite shr6, land63.
  rewrite lor192 by (apply N.div_lt_upper_bound; lia). rewrite lor128 by apply m64. reflexivity.
Qed.

Lemma utf8_enc_3 : forall r, (r <=? 2047)%N = false -> (r < 65536)%N -> utf8_enc r = enc3 r.
Proof.
  intros r H1 H2. apply N.leb_gt in H1. unfold utf8_enc, enc3.
  destruct (N.ltb_spec r 128); [lia|]. destruct (N.ltb_spec r 2048); [lia|]. destruct (N.ltb_spec r 65536); [|lia].
  rewrite shr12, shr6, !land63.
  rewrite lor224 by (apply N.div_lt_upper_bound; lia). rewrite !lor128 by apply m64. reflexivity.
Qed.

Lemma utf8_enc_4 : forall r, (65536 <= r)%N -> (r <= 1114111)%N -> utf8_enc r = enc4 r.
Proof.
  intros r H1 H2. unfold utf8_enc, enc4.
  destruct (N.ltb_spec r 128); [lia|]. destruct (N.ltb_spec r 2048); [lia|]. destruct (N.ltb_spec r 65536); [lia|].
  rewrite shr18, shr12, shr6, !land63.
  rewrite lor240 by (apply N.div_lt_upper_bound; lia). rewrite !lor128 by apply m64. reflexivity.
Qed.

Lemma pair_ok : forall r0 r1, (55296 <= r0)%N -> (r0 <= 56319)%N -> (56320 <= r1)%N -> (r1 <= 57343)%N ->
  (((r0 - 55296) * 1024 + ((r1 - 56320) + 65536)) mod 4294967296 = 65536 + (r0 - 55296) * 1024 + (r1 - 56320))%N /\
  (65536 <= 65536 + (r0 - 55296) * 1024 + (r1 - 56320) <= 1114111)%N.
Proof. intros. rewrite N.mod_small by lia. lia. Qed.

(* ---- relating the two result types ---- *)
Definition umatch (u : ures) (o : option (list N)) : Prop :=
  match u, o with
  | UOk a, Some b => a = b
  | UErr _ _, None => True
  | _, _ => False
  end.

Lemma umatch_app : forall e u o, umatch u o -> umatch (ucons e u) (option_map (app e) o).
Proof. intros e [a|c ep] [b|]; cbn [umatch ucons option_map]; intros H; try exact H. rewrite H. reflexivity. Qed.

Lemma umatch_cons : forall v u o, umatch u o -> umatch (ucons [v] u) (option_map (cons v) o).
Proof. intros v [a|c ep] [b|]; cbn [umatch ucons option_map]; intros H; try exact H. rewrite H. reflexivity. Qed.

Lemma ref_rune_plain : forall rep r0 s, ((r0 <? 55296) || (57343 <? r0))%N = true ->
  ref_rune rep r0 s = Some (utf8_enc r0, s).
Proof.
  intros rep r0 s H. unfold ref_rune.
  replace ((55296 <=? r0) && (r0 <=? 57343))%N with false; [reflexivity|].
  symmetry. apply andb_false_iff. apply orb_true_iff in H.
  destruct H as [H|H]; apply N.ltb_lt in H; [left|right]; apply N.leb_gt; exact H.
Qed.

Lemma surr_true : forall r0, ((r0 <? 55296) || (57343 <? r0))%N = false ->
  ((55296 <=? r0) && (r0 <=? 57343))%N = true /\ (55296 <= r0)%N.
Proof.
  intros r0 H. apply orb_false_iff in H. destruct H as [Ha Hb].
  apply N.ltb_ge in Ha, Hb. split; [|exact Ha].
  apply andb_true_iff. split; apply N.leb_le; assumption.
Qed.

(* the lone-surrogate condition of the C code makes the reference take its `lone` branch *)
Lemma ref_rune_lone : forall rep r0 s,
  ((55296 <=? r0) && (r0 <=? 57343))%N = true ->
  ((length s <? 6) || (56319 <? r0)%N || negb (nth 0 s 0 =? BS)%N || negb (nth 1 s 0 =? 117)%N) = true ->
  ref_rune rep r0 s = lone rep s.
Proof.
  intros rep r0 s Hs C. unfold ref_rune. rewrite Hs.
  destruct (N.ltb_spec r0 56320) as [Hlt|Hge]; [|reflexivity].
  replace (getu4 s) with (@None N); [reflexivity|]. symmetry.
  destruct s as [|a [|b r]]; [reflexivity|reflexivity|].
  unfold getu4. cbn [nth] in C. unfold BS in C.
  destruct (a =? 92)%N; [|reflexivity]. destruct (b =? 117)%N; [|reflexivity].
  cbn [andb negb orb] in C. rewrite !orb_false_r in C.
  apply orb_true_iff in C. destruct C as [C|C]; [|apply N.ltb_lt in C; lia].
  cbn [andb].
  destruct r as [|h1 [|h2 [|h3 [|h4 r]]]]; try reflexivity.
  apply Nat.ltb_lt in C. cbn [length] in C. lia.
Qed.

Lemma lone_false : forall r0 s,
  ((length s <? 6) || (56319 <? r0)%N || negb (nth 0 s 0 =? BS)%N || negb (nth 1 s 0 =? 117)%N) = false ->
  (r0 <= 56319)%N /\ exists h1 h2 h3 h4 s2, s = BS :: 117%N :: h1 :: h2 :: h3 :: h4 :: s2.
Proof.
  intros r0 s C.
  apply orb_false_iff in C. destruct C as [C C4]. apply orb_false_iff in C. destruct C as [C C3].
  apply orb_false_iff in C. destruct C as [C1 C2].
  apply Nat.ltb_ge in C1. apply N.ltb_ge in C2.
  apply negb_false_iff in C3, C4. apply N.eqb_eq in C3, C4.
  split; [exact C2|].
  destruct s as [|a [|b [|h1 [|h2 [|h3 [|h4 s2]]]]]]; cbn [length] in C1; try lia.
  cbn [nth] in C3, C4. subst a b. exists h1, h2, h3, h4, s2. reflexivity.
Qed.

Lemma ref_unquote_u : forall f rep r',
  ref_unquote (S f) rep (92%N :: 117%N :: r') =
  match hex4 r' with
  | None => None
  | Some r0 =>
    match ref_rune rep r0 (skipn 4 r') with
    | None => None
    | Some (e, rest) => option_map (app e) (ref_unquote f rep rest)
    end
  end.
Proof. reflexivity. Qed.

Lemma ref_unquote_plain : forall f rep b r, (b =? 92)%N = false ->
  ref_unquote (S f) rep (b :: r) = option_map (cons b) (ref_unquote f rep r).
Proof. intros f rep b r H. cbn [ref_unquote]. rewrite H. reflexivity. Qed.

Section Single.
  Variable flags : N.
  Hypothesis Hsingle : has flags c_F_DBLUNQ = false.
  Variable x : nat.
  Let rep := has flags c_F_UNIREP.

  Lemma decode_rune_S : forall fuel r0 s pos,
    decode_rune flags x (S fuel) r0 s pos =
    if (r0 <=? 127)%N then inl ([r0], s, pos)
    else if (r0 <=? 2047)%N then inl (enc2 r0, s, pos)
    else if ((r0 <? 55296) || (57343 <? r0))%N then inl (enc3 r0, s, pos)
    else if (length s <? 6) || (56319 <? r0)%N || negb (nth 0 s 0 =? BS)%N || negb (nth 1 s 0 =? 117)%N then
      if rep then inl (unirep, s, pos) else inr (c_ERR_UNICODE, (Z.of_nat pos - 4)%Z)
    else if negb (unhex16_is (skipn 2 s)) then
      inr (c_ERR_INVAL, Z.of_nat (pos + 2 + count_hex 4 (skipn 2 s)))
    else if ((unhex16_fast (skipn 2 s) <? 56320) || (57343 <? unhex16_fast (skipn 2 s)))%N then
      if negb rep then inr (c_ERR_UNICODE, (Z.of_nat (pos + 6) - 4)%Z)
      else match decode_rune flags x fuel (unhex16_fast (skipn 2 s)) (skipn 6 s) (pos + 6) with
           | inl (e, rest, p) => inl (unirep ++ e, rest, p)
           | inr e => inr e
           end
    else if (1114111 <? ((r0 - 55296) * 1024 + ((unhex16_fast (skipn 2 s) - 56320) + 65536)) mod 4294967296)%N then
      if negb rep then inr (c_ERR_UNICODE, (Z.of_nat (pos + 6) - 4)%Z) else inl (unirep, skipn 6 s, pos + 6)
    else inl (enc4 (((r0 - 55296) * 1024 + ((unhex16_fast (skipn 2 s) - 56320) + 65536)) mod 4294967296)%N,
              skipn 6 s, pos + 6).
  Proof.
    intros. unfold rep. cbn [decode_rune]. rewrite Hsingle. reflexivity.
  Qed.

  Definition loop_ok (n : nat) : Prop :=
    forall s, length s <= n -> forall f f' pos, length s < f -> length s < f' ->
      umatch (unquote_loop flags x f s pos) (ref_unquote f' rep s).

  Section Rune.
    Variable n : nat.
    Hypothesis Hloop : loop_ok n.

    Lemma direct : forall e s pos f f', length s <= n -> length s < f -> length s < f' ->
      umatch (ucons e (unquote_loop flags x f s pos)) (option_map (app e) (ref_unquote f' rep s)).
    Proof. intros. apply umatch_app. apply Hloop; assumption. Qed.

    Lemma rune_ok : forall fuel r0 s pos f f', (r0 < 65536)%N ->
      length s <= n -> length s < fuel -> length s < f -> length s < f' ->
      umatch
        (match decode_rune flags x fuel r0 s pos with
         | inl (e, s3, p3) => ucons e (unquote_loop flags x f s3 p3)
         | inr (c, ep) => UErr c ep
         end)
        (match ref_rune rep r0 s with
         | None => None
         | Some (e, rest) => option_map (app e) (ref_unquote f' rep rest)
         end).
    Proof.
      induction fuel as [|fuel IH]; intros r0 s pos f f' Hr Hn Hfuel Hf Hf'; [lia|].
      rewrite decode_rune_S.
      destruct (r0 <=? 127)%N eqn:E1.
      { rewrite ref_rune_plain by (apply N.leb_le in E1; apply orb_true_iff; left; apply N.ltb_lt; lia).
        rewrite utf8_enc_1 by exact E1. apply direct; assumption. }
      destruct (r0 <=? 2047)%N eqn:E2.
      { rewrite ref_rune_plain by (apply N.leb_le in E2; apply orb_true_iff; left; apply N.ltb_lt; lia).
        rewrite utf8_enc_2 by assumption. apply direct; assumption. }
      destruct ((r0 <? 55296) || (57343 <? r0))%N eqn:E3.
      { rewrite ref_rune_plain by exact E3.
        rewrite utf8_enc_3 by assumption. apply direct; assumption. }
      destruct (surr_true r0 E3) as [Hs Hlo].
      destruct ((length s <? 6) || (56319 <? r0)%N || negb (nth 0 s 0 =? BS)%N || negb (nth 1 s 0 =? 117)%N) eqn:EC.
      { rewrite (ref_rune_lone rep r0 s Hs EC). unfold lone.
        pose proof (direct unirep s pos f f' Hn Hf Hf') as D. revert D.
        destruct rep; intros D; [exact D|exact I]. }
      destruct (lone_false r0 s EC) as (Hhi & h1 & h2 & h3 & h4 & s2 & ->).
      change (skipn 2 (BS :: 117%N :: h1 :: h2 :: h3 :: h4 :: s2)) with (h1 :: h2 :: h3 :: h4 :: s2).
      change (skipn 6 (BS :: 117%N :: h1 :: h2 :: h3 :: h4 :: s2)) with s2.
      change (unhex16_is (h1 :: h2 :: h3 :: h4 :: s2)) with (unhex16_is [h1; h2; h3; h4]).
      change (unhex16_fast (h1 :: h2 :: h3 :: h4 :: s2)) with (unhex16_fast [h1; h2; h3; h4]).
      cbn [length] in Hn, Hfuel, Hf, Hf'.
      destruct f' as [|f'']; [lia|].
      unfold ref_rune. rewrite Hs.
      destruct (N.ltb_spec r0 56320) as [_|?]; [|lia].
      change (getu4 (BS :: 117%N :: h1 :: h2 :: h3 :: h4 :: s2)) with (hex4 (h1 :: h2 :: h3 :: h4 :: s2)).
      change (skipn 6 (BS :: 117%N :: h1 :: h2 :: h3 :: h4 :: s2)) with s2.
      destruct (unhex16_is [h1; h2; h3; h4]) eqn:EH; cbn [negb].
      2:{ rewrite (hex_quad_false _ _ _ _ s2 EH). unfold lone. clear IH Hloop. destruct rep; [|exact I].
          change (BS :: 117%N :: h1 :: h2 :: h3 :: h4 :: s2) with (92%N :: 117%N :: h1 :: h2 :: h3 :: h4 :: s2).
          rewrite ref_unquote_u. rewrite (hex_quad_false _ _ _ _ s2 EH). exact I. }
      destruct (hex_quad_true _ _ _ _ s2 EH) as [EQ Hr1]. rewrite EQ.
      set (r1 := unhex16_fast [h1; h2; h3; h4]) in *.
      destruct ((r1 <? 56320) || (57343 <? r1))%N eqn:E5.
      { (* not a low surrogate *)
        replace ((56320 <=? r1) && (r1 <=? 57343))%N with false.
        2:{ symmetry. apply andb_false_iff. apply orb_true_iff in E5.
            destruct E5 as [E5|E5]; apply N.ltb_lt in E5; [left|right]; apply N.leb_gt; exact E5. }
        unfold lone.
        specialize (IH r1 s2 (pos + 6) f f'' Hr1 ltac:(lia) ltac:(lia) ltac:(lia) ltac:(lia)).
        revert IH. destruct rep; intros IH; cbn [negb]; [|exact I].
        change (BS :: 117%N :: h1 :: h2 :: h3 :: h4 :: s2) with (92%N :: 117%N :: h1 :: h2 :: h3 :: h4 :: s2).
        rewrite ref_unquote_u. rewrite EQ.
        change (skipn 4 (h1 :: h2 :: h3 :: h4 :: s2)) with s2.
        destruct (decode_rune flags x fuel r1 s2 (pos + 6)) as [[[e s3] p3]|[c ep]].
        - rewrite <- ucons_ucons. apply umatch_app. exact IH.
        - apply (umatch_app unirep (UErr c ep)). exact IH. }
      (* a valid pair *)
      apply orb_false_iff in E5. destruct E5 as [E5a E5b]. apply N.ltb_ge in E5a, E5b.
      replace ((56320 <=? r1) && (r1 <=? 57343))%N with true
        by (symmetry; apply andb_true_iff; split; apply N.leb_le; assumption).
      destruct (pair_ok r0 r1 Hlo Hhi E5a E5b) as [EP [HP1 HP2]]. rewrite EP.
      destruct (N.ltb_spec 1114111 (65536 + (r0 - 55296) * 1024 + (r1 - 56320))%N) as [?|_]; [lia|].
      rewrite (utf8_enc_4 _ HP1 HP2).
      apply direct; lia.
    Qed.
  End Rune.

  Lemma esc_u : forall r' pos2,
    (let cc := unquote_tab 117 in
      if (cc =? 0)%Z then inr (c_ERR_ESCAPE, (Z.of_nat pos2 - 1)%Z)
      else if negb (cc =? -1)%Z then inl ([Z.to_N (cc mod 256)], r', pos2)
      else if (length r' <? 4)%nat then inr (c_ERR_EOF, zx x)
      else if negb (unhex16_is r') then inr (c_ERR_INVAL, Z.of_nat (pos2 + count_hex 4 r'))
      else decode_rune flags x (S (length r')) (unhex16_fast r') (skipn 4 r') (pos2 + 4))
    = (if (length r' <? 4)%nat then inr (c_ERR_EOF, zx x)
       else if negb (unhex16_is r') then inr (c_ERR_INVAL, Z.of_nat (pos2 + count_hex 4 r'))
       else decode_rune flags x (S (length r')) (unhex16_fast r') (skipn 4 r') (pos2 + 4)).
  Proof. intros. cbv zeta. change (unquote_tab 117) with (-1)%Z. reflexivity. Qed.

  Lemma esc_bad : forall c r' pos2, unquote_tab c = 0%Z ->
    (let cc := unquote_tab c in
      if (cc =? 0)%Z then inr (c_ERR_ESCAPE, (Z.of_nat pos2 - 1)%Z)
      else if negb (cc =? -1)%Z then inl ([Z.to_N (cc mod 256)], r', pos2)
      else if (length r' <? 4)%nat then inr (c_ERR_EOF, zx x)
      else if negb (unhex16_is r') then inr (c_ERR_INVAL, Z.of_nat (pos2 + count_hex 4 r'))
      else decode_rune flags x (S (length r')) (unhex16_fast r') (skipn 4 r') (pos2 + 4))
    = inr (c_ERR_ESCAPE, (Z.of_nat pos2 - 1)%Z).
  Proof. intros c r' pos2 H. cbv zeta. rewrite H. reflexivity. Qed.

  Lemma loop_ok_all : forall n, loop_ok n.
  Proof.
    induction n as [|n IH]; intros s Hn f f' pos Hf Hf'.
    - destruct s; [|cbn [length] in Hn; lia]. destruct f; [cbn [length] in Hf; lia|]. destruct f'; [cbn [length] in Hf'; lia|].
      reflexivity.
    - destruct f as [|f]; [lia|]. destruct f' as [|f'']; [lia|].
      destruct s as [|b r]; [reflexivity|].
      cbn [length] in Hn, Hf, Hf'.
      destruct (isBS b) eqn:Eb.
      + unfold isBS in Eb. apply N.eqb_eq in Eb. subst b.
        destruct r as [|c r'].
        * change (unquote_loop flags x (S f) [BS] pos) with (UErr c_ERR_EOF (zx x)). exact I.
        * rewrite unq_esc, (esc_step_single flags Hsingle).
          cbn [length] in Hn, Hf, Hf'.
          change (ref_unquote (S f'') rep (BS :: c :: r')) with
            (match ref_simple c with
             | Some v => option_map (cons v) (ref_unquote f'' rep r')
             | None =>
               if (c =? 117)%N then
                 match hex4 r' with
                 | None => None
                 | Some r0 =>
                   match ref_rune rep r0 (skipn 4 r') with
                   | None => None
                   | Some (e, rest) => option_map (app e) (ref_unquote f'' rep rest)
                   end
                 end
               else None
             end).
          pose proof (esc_class_all c) as EC. unfold esc_class_b in EC.
          destruct (ref_simple c) as [v|].
          { unfold simple_ok in EC. cbv zeta in EC.
            apply andb_prop in EC. destruct EC as [EC E3]. apply andb_prop in EC. destruct EC as [E1 E2].
            apply negb_true_iff in E1, E2. apply N.eqb_eq in E3.
            rewrite (esc_tail flags x c r' (pos + 2) (unquote_tab c) eq_refl E1 E2). rewrite E3.
            apply umatch_cons. apply IH; lia. }
          destruct (N.eqb_spec c 117) as [->|Hc].
          { rewrite esc_u.
            destruct r' as [|h1 [|h2 [|h3 [|h4 rest]]]]; try exact I.
            change (length (h1 :: h2 :: h3 :: h4 :: rest) <? 4) with false. cbv iota.
            change (unhex16_is (h1 :: h2 :: h3 :: h4 :: rest)) with (unhex16_is [h1; h2; h3; h4]).
            change (unhex16_fast (h1 :: h2 :: h3 :: h4 :: rest)) with (unhex16_fast [h1; h2; h3; h4]).
            change (skipn 4 (h1 :: h2 :: h3 :: h4 :: rest)) with rest.
            cbn [length] in Hn, Hf, Hf'.
            destruct (unhex16_is [h1; h2; h3; h4]) eqn:EH; cbn [negb].
            - destruct (hex_quad_true _ _ _ _ rest EH) as [EQ Hr1]. rewrite EQ.
              apply (rune_ok n IH); cbn [length]; try lia.
            - rewrite (hex_quad_false _ _ _ _ rest EH). exact I. }
          apply Z.eqb_eq in EC. rewrite (esc_bad c r' (pos + 2) EC). exact I.
      + rewrite (unq_plain flags x f b r pos Eb).
        unfold isBS, BS in Eb. rewrite (ref_unquote_plain f'' rep b r Eb).
        apply umatch_cons. apply IH; lia.
  Qed.
End Single.

(* ---- the theorems ---- *)
Theorem unquote_spec : forall flags s, has flags c_F_DBLUNQ = false ->
  match unquote flags s with
  | UOk o => ref_unquote (S (length s)) (has flags c_F_UNIREP) s = Some o
  | UErr _ _ => ref_unquote (S (length s)) (has flags c_F_UNIREP) s = None
  end.
Proof.
  intros flags s H.
  pose proof (loop_ok_all flags H (length s) (length s) s (le_n _) (S (length s)) (S (length s)) 0
                          (Nat.lt_succ_diag_r _) (Nat.lt_succ_diag_r _)) as M.
  unfold unquote. unfold umatch in M.
  destruct (unquote_loop flags (length s) (S (length s)) s 0);
    destruct (ref_unquote (S (length s)) (has flags c_F_UNIREP) s); try contradiction; congruence.
Qed.

Theorem go_into_bytes_spec : forall s replace,
  match go_into_bytes s replace with
  | inl o => ref_unquote (S (length s)) replace s = Some o
  | inr _ => ref_unquote (S (length s)) replace s = None
  end.
Proof.
  intros s [|]; unfold go_into_bytes.
  - pose proof (unquote_spec go_F_UNICODE_REPLACE s eq_refl) as H.
    change (has go_F_UNICODE_REPLACE c_F_UNIREP) with true in H.
    destruct (unquote go_F_UNICODE_REPLACE s); exact H.
  - pose proof (unquote_spec 0%N s eq_refl) as H.
    change (has 0 c_F_UNIREP) with false in H.
    destruct (unquote 0%N s); exact H.
Qed.

Corollary go_unquote_string_spec : forall s,
  match go_unquote_string s with
  | inl o => ref_unquote (S (length s)) true s = Some o
  | inr _ => ref_unquote (S (length s)) true s = None
  end.
Proof. intros s. exact (go_into_bytes_spec s true). Qed.

(* ---- the output is never longer than the input ---- *)
Lemma utf8_enc_len : forall r, length (utf8_enc r) <= 4.
Proof.
  intros r. unfold utf8_enc.
  destruct (r <? 128)%N; [cbn [length]; lia|]. destruct (r <? 2048)%N; [cbn [length]; lia|].
  destruct (r <? 65536)%N; cbn [length]; lia.
Qed.

Lemma lone_len : forall rep rest e rest', lone rep rest = Some (e, rest') ->
  length e + length rest' <= length rest + 4.
Proof.
  intros rep rest e rest' H. unfold lone in H. destruct rep; [|discriminate].
  injection H as <- <-. cbn [length]. lia.
Qed.

Lemma ref_rune_len : forall rep r0 rest e rest', ref_rune rep r0 rest = Some (e, rest') ->
  length e + length rest' <= length rest + 4.
Proof.
  intros rep r0 rest e rest' H. unfold ref_rune in H.
  destruct ((55296 <=? r0) && (r0 <=? 57343))%N.
  - destruct (r0 <? 56320)%N; [|exact (lone_len _ _ _ _ H)].
    destruct (getu4 rest) as [r1|]; [|exact (lone_len _ _ _ _ H)].
    destruct ((56320 <=? r1) && (r1 <=? 57343))%N; [|exact (lone_len _ _ _ _ H)].
    assert (E1 : utf8_enc (65536 + (r0 - 55296) * 1024 + (r1 - 56320))%N = e) by congruence.
    assert (E2 : skipn 6 rest = rest') by congruence. subst e rest'. rewrite skipn_length.
    pose proof (utf8_enc_len (65536 + (r0 - 55296) * 1024 + (r1 - 56320))%N). lia.
  - injection H as <- <-. pose proof (utf8_enc_len r0). lia.
Qed.

Lemma ref_unquote_len : forall f rep s o, ref_unquote f rep s = Some o -> length o <= length s.
Proof.
  induction f as [|f IH]; intros rep s o H; [discriminate|].
  destruct s as [|b r]; cbn [ref_unquote] in H; [injection H as <-; cbn [length]; lia|].
  destruct (b =? 92)%N.
  - destruct r as [|c r']; [discriminate|]. destruct (ref_simple c) as [v|].
    + destruct (ref_unquote f rep r') as [o'|] eqn:E; [|discriminate].
      cbn [option_map] in H. injection H as <-. apply IH in E. cbn [length]. lia.
    + destruct (c =? 117)%N; [|discriminate]. destruct (hex4 r') as [r0|] eqn:EH; [|discriminate].
      destruct r' as [|h1 [|h2 [|h3 [|h4 rest]]]]; try discriminate EH.
      change (skipn 4 (h1 :: h2 :: h3 :: h4 :: rest)) with rest in H.
      destruct (ref_rune rep r0 rest) as [[e rest']|] eqn:ER; [|discriminate].
      destruct (ref_unquote f rep rest') as [o'|] eqn:E; [|discriminate].
      cbn [option_map] in H. injection H as <-. apply IH in E. apply ref_rune_len in ER.
      rewrite app_length. cbn [length]. lia.
  - destruct (ref_unquote f rep r) as [o'|] eqn:E; [|discriminate].
    cbn [option_map] in H. injection H as <-. apply IH in E. cbn [length]. lia.
Qed.

Theorem unquote_len_le : forall flags s o, has flags c_F_DBLUNQ = false ->
  unquote flags s = UOk o -> length o <= length s.
Proof.
  intros flags s o H E. pose proof (unquote_spec flags s H) as S. rewrite E in S.
  exact (ref_unquote_len _ _ _ _ S).
Qed.

(* ---- examples: the hypothesis is satisfiable, and one input per branch ---- *)
Example single_flags : has 0 c_F_DBLUNQ = false /\ has 2 c_F_DBLUNQ = false /\
                       has 0 c_F_UNIREP = false /\ has 2 c_F_UNIREP = true /\ has 1 c_F_DBLUNQ = true.
Proof. vm_compute. auto. Qed.

(* plain bytes, also values that are not bytes, are copied *)
Example ex_plain : unquote 0 [97; 255; 0; 300]%N = UOk [97; 255; 0; 300]%N /\
                   ref_unquote 5 false [97; 255; 0; 300]%N = Some [97; 255; 0; 300]%N.
Proof. vm_compute. auto. Qed.
(* the eight simple escapes: quote, backslash, slash, b, f, n, r, t *)
Example ex_simple :
  unquote 0 [92; 34; 92; 92; 92; 47; 92; 98; 92; 102; 92; 110; 92; 114; 92; 116]%N = UOk [34; 92; 47; 8; 12; 10; 13; 9]%N.
Proof. vm_compute. reflexivity. Qed.
(* a trailing backslash, an unknown escape, a truncated and a non-hexadecimal \u *)
Example ex_errors :
  unquote 2 [97; 92]%N = UErr c_ERR_EOF 2 /\ unquote 2 [92; 120]%N = UErr c_ERR_ESCAPE 1 /\
  unquote 2 [92; 117; 48; 48; 52]%N = UErr c_ERR_EOF 5 /\ unquote 2 [92; 117; 48; 48; 103; 49]%N = UErr c_ERR_INVAL 4 /\
  ref_unquote 3 true [97; 92]%N = None /\ ref_unquote 3 true [92; 120]%N = None /\
  ref_unquote 6 true [92; 117; 48; 48; 52]%N = None /\ ref_unquote 7 true [92; 117; 48; 48; 103; 49]%N = None.
Proof. vm_compute. repeat split; reflexivity. Qed.
(* U+0041, U+00E9, U+20AC: one, two and three bytes *)
Example ex_bmp :
  unquote 0 [92; 117; 48; 48; 52; 49; 92; 117; 48; 48; 101; 57; 92; 117; 50; 48; 65; 67]%N = UOk [65; 195; 169; 226; 130; 172]%N.
Proof. vm_compute. reflexivity. Qed.
(* \ud83d\ude00 : a valid pair, U+1F600 *)
Example ex_pair : unquote 2 [92; 117; 100; 56; 51; 100; 92; 117; 100; 101; 48; 48]%N = UOk [240; 159; 152; 128]%N /\
                  unquote 0 [92; 117; 100; 56; 51; 100; 92; 117; 100; 101; 48; 48]%N = UOk [240; 159; 152; 128]%N.
Proof. vm_compute. auto. Qed.
(* \ud800 alone: rejected without F_UNIREP, U+FFFD with it *)
Example ex_lone_high : unquote 0 [92; 117; 100; 56; 48; 48]%N = UErr c_ERR_UNICODE 2 /\
                       unquote 2 [92; 117; 100; 56; 48; 48]%N = UOk [239; 191; 189]%N /\
                       unquote 2 [92; 117; 100; 56; 48; 48; 65]%N = UOk [239; 191; 189; 65]%N.
Proof. vm_compute. auto. Qed.
(* \udc00 alone (a low surrogate first) *)
Example ex_lone_low : unquote 0 [92; 117; 100; 99; 48; 48; 65]%N = UErr c_ERR_UNICODE 2 /\
                      unquote 2 [92; 117; 100; 99; 48; 48; 65]%N = UOk [239; 191; 189; 65]%N.
Proof. vm_compute. auto. Qed.
(* \ud800\u0041 : the second escape is decoded on its own after the replacement character *)
Example ex_retry : unquote 2 [92; 117; 100; 56; 48; 48; 92; 117; 48; 48; 52; 49]%N = UOk [239; 191; 189; 65]%N /\
                   unquote 0 [92; 117; 100; 56; 48; 48; 92; 117; 48; 48; 52; 49]%N = UErr c_ERR_UNICODE 8.
Proof. vm_compute. auto. Qed.
(* \ud800\ud800\udc00 : the chained retry, U+FFFD then U+10000 *)
Example ex_chain :
  unquote 2 [92; 117; 100; 56; 48; 48; 92; 117; 100; 56; 48; 48; 92; 117; 100; 99; 48; 48]%N = UOk [239; 191; 189; 240; 144; 128; 128]%N /\
  ref_unquote 19 true [92; 117; 100; 56; 48; 48; 92; 117; 100; 56; 48; 48; 92; 117; 100; 99; 48; 48]%N = Some [239; 191; 189; 240; 144; 128; 128]%N.
Proof. vm_compute. auto. Qed.
(* \ud800\u00zz : a high surrogate followed by a malformed \u is an error in both modes *)
Example ex_high_badhex : unquote 2 [92; 117; 100; 56; 48; 48; 92; 117; 48; 48; 122; 122]%N = UErr c_ERR_INVAL 10 /\
                         ref_unquote 13 true [92; 117; 100; 56; 48; 48; 92; 117; 48; 48; 122; 122]%N = None.
Proof. vm_compute. auto. Qed.
Example ex_go : go_unquote_string [92; 117; 100; 56; 48; 48; 65]%N = inl [239; 191; 189; 65]%N /\
                go_into_bytes [92; 117; 100; 56; 48; 48; 65]%N false = inr go_ERR_INVALID_UNICODE.
Proof. vm_compute. auto. Qed.

