(* C20 - shared definitions for the string routines: bytes are N, tables come from Gen/Tables.v,
   the W-blocked "find first special byte, copy on the fly" finder used by quote and html_escape. *)
From Coq Require Import NArith ZArith Bool List Lia.
From SV.Gen Require Import Tables.
Import ListNotations.
Open Scope N_scope.

Definition byte := N.

(* ---- quoted_t tables ---- *)
Definition qtab := list (N * list N).
Definition tab_ent (t : qtab) (ch : N) : N * list N := nth (N.to_nat ch) t (0, []).
Definition tab_n (t : qtab) (ch : N) : nat := N.to_nat (fst (tab_ent t ch)).
Definition tab_s (t : qtab) (ch : N) : list N := snd (tab_ent t ch).
(* memcpy_p8(dp, tab[ch].s, nc) / the 8-byte store of memcchr_quote_unsafe followed by dp += nc:
   s is a char[8] initialised by the string literal (zero padded) *)
Definition tab_copy (t : qtab) (ch : N) : list N :=
  firstn (tab_n t ch) (tab_s t ch ++ repeat 0 (N.to_nat MAX_ESCAPED_BYTES)).

Definition esc_tab (ch : N) : bool := nth (N.to_nat ch) _EscTab false.
Definition unquote_tab (ch : N) : Z := nth (N.to_nat ch) _UnquoteTab 0%Z.

(* _mm_find_quote / _mm256_find_quote, per byte lane *)
Definition find_quote_lane (b : N) : bool := (b <? 32) || (b =? 34) || (b =? 92).
(* scalar tail of memcchr_quote *)
Definition single_special (b : N) : bool := negb (Nat.eqb (tab_n _SingleQuoteTab b) 0).
(* _mm_find_html and the scalar tail of memcchr_html_quote *)
Definition find_html_lane (b : N) : bool := (b =? 60) || (b =? 62) || (b =? 38) || (b =? 226).

(* index of the first byte satisfying p, or the length *)
Fixpoint find_first (p : N -> bool) (l : list N) : nat :=
  match l with
  | [] => O
  | b :: r => if p b then O else S (find_first p r)
  end.

(* ---- memcchr_quote / memcchr_html_quote (native/parsing.h) ----
   result rb : Z as in C; the bytes stored to dp that the callers rely on are exactly
   src[0 .. rb) when rb >= 0 and src[0 .. -rb-1) when rb < 0. *)

(* `while (nb >= W && dn >= W)`: full W-byte store, test the block, advance *)
Fixpoint mq_loop (fuel W : nat) (pv : N -> bool) (src : list N) (pos dn : nat)
  : Z + (list N * nat * nat) :=
  match fuel with
  | O => inr (src, pos, dn)
  | S f =>
    if (W <=? length src)%nat && (W <=? dn)%nat then
      let k := find_first pv (firstn W src) in
      if (k <? W)%nat then inl (Z.of_nat (pos + k))
      else mq_loop f W pv (skipn W src) (pos + W) (dn - W)
    else inr (src, pos, dn)
  end.

(* `if (nb >= W)`: W-byte test, partial store of min(fv, dn) bytes *)
Definition mq_partial (W : nat) (pv : N -> bool) (src : list N) (pos dn : nat) : option Z :=
  if (W <=? length src)%nat then
    let fv := find_first pv (firstn W src) in
    if (fv <=? dn)%nat then Some (Z.of_nat (pos + fv))
    else Some (- Z.of_nat (pos + dn) - 1)%Z
  else None.

(* scalar tail *)
Fixpoint mq_scalar (ps : N -> bool) (src : list N) (pos dn : nat) : Z :=
  match src with
  | [] => Z.of_nat pos
  | b :: r =>
    match dn with
    | O => (- Z.of_nat pos - 1)%Z
    | S dn' => if ps b then Z.of_nat pos else mq_scalar ps r (S pos) dn'
    end
  end.

(* ws = [32;16] for the AVX2 build, [16] for the SSE build, [] is the scalar reference *)
Fixpoint memcchr_ws (ws : list nat) (pv ps : N -> bool) (src : list N) (pos dn : nat) : Z :=
  match ws with
  | [] => mq_scalar ps src pos dn
  | W :: ws' =>
    match mq_loop (length src) W pv src pos dn with
    | inl r => r
    | inr (src', pos', dn') =>
      match mq_partial W pv src' pos' dn' with
      | Some r => r
      | None => memcchr_ws ws' pv ps src' pos' dn'
      end
    end
  end.

Definition memcchr_quote (ws : list nat) (src : list N) (dn : nat) : Z :=
  memcchr_ws ws find_quote_lane single_special src 0 dn.
Definition memcchr_html_quote (ws : list nat) (src : list N) (dn : nat) : Z :=
  memcchr_ws ws find_html_lane find_html_lane src 0 dn.

Definition ws_avx2 : list nat := [32; 16]%nat.
Definition ws_sse : list nat := [16]%nat.
