(* C20 - model of native/utf8.h (valid_utf8_4byte, validate_utf8_errors, validate_utf8_with_errors)
   and of utf8/utf8.go (Validate, ValidateString, CorrectWith). *)
From Coq Require Import NArith ZArith Bool List Lia.
From SV.Gen Require Import Tables.
From SV.Str Require Import Common.
Import ListNotations.
Open Scope N_scope.

(* little-endian 32-bit load of the next four bytes; memcpy_p4 into a zeroed word near the end *)
Definition load32_le (s : list N) : N :=
  nth 0 s 0 + nth 1 s 0 * 256 + nth 2 s 0 * 65536 + nth 3 s 0 * 16777216.

Definition b2_mask := 49376.        (* 0x0000C0E0 *)
Definition b2_patt := 32960.        (* 0x000080C0 *)
Definition b2_requ := 30.           (* 0x0000001E *)
Definition b3_mask := 12632304.     (* 0x00C0C0F0 *)
Definition b3_patt := 8421600.      (* 0x008080E0 *)
Definition b3_requ := 8207.         (* 0x0000200F *)
Definition b3_erro := 8205.         (* 0x0000200D *)
Definition b4_mask := 3233857784.   (* 0xC0C0C0F8 *)
Definition b4_patt := 2155905264.   (* 0x808080F0 *)
Definition b4_requ := 12295.        (* 0x00003007 *)
Definition b4_err0 := 4.            (* 0x00000004 *)
Definition b4_err1 := 12291.        (* 0x00003003 *)

Definition is_valid_seq_2 (u : N) : bool :=
  (N.land u b2_mask =? b2_patt) && negb (N.land u b2_requ =? 0).
Definition is_valid_seq_3 (u : N) : bool :=
  (N.land u b3_mask =? b3_patt) &&
  (let tmp := N.land u b3_requ in negb (tmp =? 0) && negb (tmp =? b3_erro)).
Definition is_valid_seq_4 (u : N) : bool :=
  (N.land u b4_mask =? b4_patt) &&
  (let tmp := N.land u b4_requ in
   negb (tmp =? 0) && ((N.land tmp b4_err0 =? 0) || (N.land tmp b4_err1 =? 0))).

Definition valid_utf8_4byte (u : N) : nat :=
  if is_valid_seq_3 u then 3 else if is_valid_seq_2 u then 2 else if is_valid_seq_4 u then 4 else 0.

(* validate_utf8_errors: 0 if valid, else -(position of the first invalid byte) - 1.
   The main loop (4 real bytes) and the tail loop (zero padded) read the same word. *)
Fixpoint validate_utf8_errors_go (fuel : nat) (s : list N) (pos : nat) : Z :=
  match fuel with
  | O => 0%Z
  | S f =>
    match s with
    | [] => 0%Z
    | b :: r =>
      if b <? 128 then validate_utf8_errors_go f r (S pos)
      else
        match valid_utf8_4byte (load32_le s) with
        | O => (- Z.of_nat pos - 1)%Z
        | n => validate_utf8_errors_go f (skipn n s) (pos + n)
        end
    end
  end.

(* validate_utf8_fast (SSE build: the scalar routine; AVX2 build: the lookup pre-check returns 0 early
   only for inputs the scalar routine accepts too - tied by the correspondence run) *)
Definition validate_utf8_fast (s : list N) : Z := validate_utf8_errors_go (length s) s 0.

(* validate_utf8_with_errors from *p with m->sp = 0 and room for msize positions:
   (return value, new *p, recorded positions m->vt[0 .. m->sp)) *)
Fixpoint validate_utf8_with_errors_go (fuel msize : nat) (s : list N) (pos : nat) (vt : list nat)
  : Z * nat * list nat :=
  match fuel with
  | O => (0%Z, pos, vt)
  | S f =>
    match s with
    | [] => (0%Z, pos, vt)
    | b :: r =>
      if b <? 128 then validate_utf8_with_errors_go f msize r (S pos) vt
      else
        match valid_utf8_4byte (load32_le s) with
        | O =>
          if (msize <=? length vt)%nat then ((-1)%Z, pos, vt)           (* write_error fails *)
          else validate_utf8_with_errors_go f msize r (S pos) (vt ++ [pos])
        | n => validate_utf8_with_errors_go f msize (skipn n s) (pos + n) vt
        end
    end
  end.

Definition validate_utf8 (msize : nat) (src : list N) (p : nat) : Z * nat * list nat :=
  validate_utf8_with_errors_go (length src) msize (skipn p src) p [].

(* ---- Go: utf8.CorrectWith / Validate / ValidateString ---- *)
Definition slice (s : list N) (a b : nat) : list N := firstn (b - a) (skipn a s).

(* for i := 0; i < m.Sp; i++ { dst += sstr[scur:ipos] + repl; scur = ipos + 1 } *)
Fixpoint correct_positions (src repl : list N) (vt : list nat) (scur : nat) (dst : list N)
  : list N * nat :=
  match vt with
  | [] => (dst, scur)
  | ipos :: vt' => correct_positions src repl vt' (S ipos) (dst ++ slice src scur ipos ++ repl)
  end.

Fixpoint correct_with_loop (fuel msize : nat) (src repl : list N) (sidx : nat) (dst : list N)
  : option (list N) :=
  match fuel with
  | O => None
  | S f =>
    if (sidx <? length src)%nat then
      let '(ecode, sidx', vt) := validate_utf8 msize src sidx in
      let '(dst1, scur) := correct_positions src repl vt sidx dst in
      let dst2 := dst1 ++ slice src scur sidx' in
      correct_with_loop f msize src repl sidx' dst2
    else Some dst
  end.

Definition correct_with_msize (msize : nat) (dst src repl : list N) : option (list N) :=
  correct_with_loop (S (length src)) msize src repl 0 dst.
Definition correct_with := correct_with_msize (N.to_nat go_MAX_RECURSE).

Definition go_validate (src : list N) : bool :=
  match src with [] => true | _ => (validate_utf8_fast src =? 0)%Z end.
