(* C20 - unquote (quote s) = s for every byte string, single and double mode, with or without F_UNIREP. *)
From Coq Require Import NArith ZArith Bool List Lia.
From SV.Gen Require Import Tables.
From SV.Str Require Import Common Quote Unquote TablesOk FinderProofs QuoteProofs GoQuoteProofs.
Import ListNotations.
Open Scope nat_scope.

Lemma ucons_ucons : forall a b r, ucons a (ucons b r) = ucons (a ++ b) r.
Proof. intros a b [o|c e]; simpl; [rewrite app_assoc|]; reflexivity. Qed.

Definition isBS (b : N) : bool := (b =? BS)%N.

Section Loop.
  Variable flags : N.
  Variable x : nat.

  (* a byte that is not a backslash is copied *)
  Lemma unq_plain : forall f b r pos, isBS b = false ->
    unquote_loop flags x (S f) (b :: r) pos = ucons [b] (unquote_loop flags x (S f) r (S pos)).
  Proof.
    intros f b r pos Hb.
    cbn [unquote_loop]. fold isBS.
    change (find_first isBS (b :: r)) with (if isBS b then 0 else S (find_first isBS r)). rewrite Hb.
    set (n' := find_first isBS r).
    change (length (b :: r) <=? S n') with (length r <=? n').
    destruct (length r <=? n') eqn:E.
    - destruct r as [|c r']; reflexivity.
    - destruct r as [|c r']; [apply Nat.leb_gt in E; simpl in E; lia|].
      change (length (b :: c :: r') <? S n' + 2) with (length (c :: r') <? n' + 2).
      destruct (length (c :: r') <? n' + 2); [reflexivity|].
      change (nth (S (S n')) (b :: c :: r') 0%N) with (nth (S n') (c :: r') 0%N).
      change (skipn (S n' + 2) (b :: c :: r')) with (skipn (n' + 2) (c :: r')).
      replace (pos + S n' + 2) with (S pos + n' + 2) by lia.
      destruct (esc_step flags x (nth (S n') (c :: r') 0%N) (skipn (n' + 2) (c :: r')) (S pos + n' + 2)) as [[[e s3] pos3]|[code ep]];
        [|reflexivity].
      rewrite ucons_ucons. reflexivity.
  Qed.

  (* a backslash starts one escape step *)
  Lemma unq_esc : forall f c1 r pos,
    unquote_loop flags x (S f) (BS :: c1 :: r) pos =
    match esc_step flags x c1 r (pos + 2) with
    | inr (code, ep) => UErr code ep
    | inl (e, s3, pos3) => ucons e (unquote_loop flags x f s3 pos3)
    end.
  Proof.
    intros. cbn [unquote_loop]. fold isBS.
    change (find_first isBS (BS :: c1 :: r)) with 0.
    change (length (BS :: c1 :: r) <=? 0) with false. cbv iota.
    change (length (BS :: c1 :: r) <? 0 + 2) with false. cbv iota.
    change (nth 1 (BS :: c1 :: r) 0%N) with c1.
    change (skipn (0 + 2) (BS :: c1 :: r)) with r.
    replace (pos + 0 + 2) with (pos + 2) by lia.
    reflexivity.
  Qed.

  (* ---- escape steps that decode to one byte ---- *)
  Lemma decode_rune_ascii : forall fuel r0 s pos, (r0 <=? 127)%N = true ->
    decode_rune flags x fuel r0 s pos = inl ([r0], s, pos).
  Proof. intros. destruct fuel; cbn [decode_rune]; rewrite H; reflexivity. Qed.

  Lemma esc_tail : forall c s2 pos2 cc,
    unquote_tab c = cc -> (cc =? 0)%Z = false -> (cc =? -1)%Z = false ->
    (let cc := unquote_tab c in
      if (cc =? 0)%Z then inr (c_ERR_ESCAPE, (Z.of_nat pos2 - 1)%Z)
      else if negb (cc =? -1)%Z then inl ([Z.to_N (cc mod 256)], s2, pos2)
      else if (length s2 <? 4)%nat then inr (c_ERR_EOF, zx x)
      else if negb (unhex16_is s2) then inr (c_ERR_INVAL, Z.of_nat (pos2 + count_hex 4 s2))
      else decode_rune flags x (S (length s2)) (unhex16_fast s2) (skipn 4 s2) (pos2 + 4))
    = inl ([Z.to_N (cc mod 256)], s2, pos2).
  Proof. intros c s2 pos2 cc H1 H2 H3. cbv zeta. rewrite H1, H2, H3. reflexivity. Qed.

  Lemma esc_tail_u : forall h1 h2 h3 h4 rest pos2,
    unhex16_is [h1; h2; h3; h4] = true -> (unhex16_fast [h1; h2; h3; h4] <=? 127)%N = true ->
    (let cc := unquote_tab 117 in
      if (cc =? 0)%Z then inr (c_ERR_ESCAPE, (Z.of_nat pos2 - 1)%Z)
      else if negb (cc =? -1)%Z then inl ([Z.to_N (cc mod 256)], h1 :: h2 :: h3 :: h4 :: rest, pos2)
      else if (length (h1 :: h2 :: h3 :: h4 :: rest) <? 4)%nat then inr (c_ERR_EOF, zx x)
      else if negb (unhex16_is (h1 :: h2 :: h3 :: h4 :: rest)) then inr (c_ERR_INVAL, Z.of_nat (pos2 + count_hex 4 (h1 :: h2 :: h3 :: h4 :: rest)))
      else decode_rune flags x (S (length (h1 :: h2 :: h3 :: h4 :: rest))) (unhex16_fast (h1 :: h2 :: h3 :: h4 :: rest))
                       (skipn 4 (h1 :: h2 :: h3 :: h4 :: rest)) (pos2 + 4))
    = inl ([unhex16_fast [h1; h2; h3; h4]], rest, pos2 + 4).
  Proof.
    intros h1 h2 h3 h4 rest pos2 H1 H2. cbv zeta.
    change (unquote_tab 117) with (-1)%Z. cbv iota beta.
    change ((-1 =? 0)%Z) with false. change (negb (-1 =? -1)%Z) with false. cbv iota.
    change (length (h1 :: h2 :: h3 :: h4 :: rest) <? 4) with false. cbv iota.
    change (unhex16_is (h1 :: h2 :: h3 :: h4 :: rest)) with (unhex16_is [h1; h2; h3; h4]). rewrite H1. cbv iota. cbn [negb].
    change (unhex16_fast (h1 :: h2 :: h3 :: h4 :: rest)) with (unhex16_fast [h1; h2; h3; h4]).
    change (skipn 4 (h1 :: h2 :: h3 :: h4 :: rest)) with rest.
    apply decode_rune_ascii. exact H2.
  Qed.
End Loop.

(* ---- per-byte facts about the two tables, by complete sweeps ---- *)
Definition simple_ok (c b : N) : bool :=
  let cc := unquote_tab c in negb (cc =? 0)%Z && negb (cc =? -1)%Z && (Z.to_N (cc mod 256) =? b)%N.
Definition hex_ok (h1 h2 h3 h4 b : N) : bool :=
  unhex16_is [h1; h2; h3; h4] && (unhex16_fast [h1; h2; h3; h4] =? b)%N && (b <=? 127)%N.

Definition single_rt_b (b : N) : bool :=
  if is_special b then
    match tab_s _SingleQuoteTab b with
    | [a; c] => (a =? BS)%N && simple_ok c b
    | [a; u; h1; h2; h3; h4] => (a =? BS)%N && (u =? 117)%N && hex_ok h1 h2 h3 h4 b
    | _ => false
    end
  else negb (isBS b).

Definition double_rt_b (b : N) : bool :=
  if is_special b then
    match tab_s _DoubleQuoteTab b with
    | [a; a2; c] => (a =? BS)%N && (a2 =? BS)%N && negb (c =? BS)%N && simple_ok c b
    | [a; a2; a3; c] => (a =? BS)%N && (a2 =? BS)%N && (a3 =? BS)%N && ((c =? 34)%N || (c =? BS)%N) && simple_ok c b
    | [a; a2; u; h1; h2; h3; h4] => (a =? BS)%N && (a2 =? BS)%N && (u =? 117)%N && hex_ok h1 h2 h3 h4 b
    | _ => false
    end
  else negb (isBS b).

Lemma single_rt_sweep : forallb single_rt_b bytes256 = true.
Proof. vm_compute. reflexivity. Qed.
Lemma double_rt_sweep : forallb double_rt_b bytes256 = true.
Proof. vm_compute. reflexivity. Qed.

Lemma rt_all : forall b, single_rt_b b = true /\ double_rt_b b = true.
Proof.
  intros b. destruct (N.lt_ge_cases b 256) as [H|H].
  - split; [apply (sweep256 _ single_rt_sweep b H)|apply (sweep256 _ double_rt_sweep b H)].
  - unfold single_rt_b, double_rt_b. rewrite (is_special_big b H).
    unfold isBS, BS. destruct (N.eqb_spec b 92); [lia|]. auto.
Qed.

Lemma plain_not_bs : forall b, is_special b = false -> isBS b = false.
Proof.
  intros b H. destruct (rt_all b) as [H1 _]. unfold single_rt_b in H1. rewrite H in H1.
  destruct (isBS b); [discriminate|reflexivity].
Qed.

Ltac split_andb :=
  repeat match goal with
         | H : _ && _ = true |- _ => apply andb_prop in H; destruct H
         end;
  repeat match goal with
         | H : (_ =? _)%N = true |- _ => apply N.eqb_eq in H
         | H : negb _ = true |- _ => apply negb_true_iff in H
         end;
  repeat match goal with
         | H : ?v = BS |- _ => is_var v; subst v
         | H : ?v = 117%N |- _ => is_var v; subst v
         end.
Ltac use_value b :=
  match goal with
  | H : Z.to_N _ = b |- _ => rewrite H
  | H : unhex16_fast _ = b |- _ => rewrite H
  end.

Section Single.
  Variable flags : N.
  Hypothesis Hsingle : has flags c_F_DBLUNQ = false.
  Variable x : nat.

  Lemma esc_step_single : forall c1 s1 pos1,
    esc_step flags x c1 s1 pos1 =
    (let cc := unquote_tab c1 in
      if (cc =? 0)%Z then inr (c_ERR_ESCAPE, (Z.of_nat pos1 - 1)%Z)
      else if negb (cc =? -1)%Z then inl ([Z.to_N (cc mod 256)], s1, pos1)
      else if (length s1 <? 4)%nat then inr (c_ERR_EOF, zx x)
      else if negb (unhex16_is s1) then inr (c_ERR_INVAL, Z.of_nat (pos1 + count_hex 4 s1))
      else decode_rune flags x (S (length s1)) (unhex16_fast s1) (skipn 4 s1) (pos1 + 4)).
  Proof. intros. unfold esc_step, dbl_step. rewrite Hsingle. reflexivity. Qed.

  Lemma unquote_quote_single_loop : forall s fuel pos,
    length (escape_all _SingleQuoteTab s) < fuel ->
    unquote_loop flags x fuel (escape_all _SingleQuoteTab s) pos = UOk s.
  Proof.
    induction s as [|b r IH]; intros fuel pos Hf.
    - destruct fuel; reflexivity.
    - destruct fuel as [|f]; [lia|].
      change (escape_all _SingleQuoteTab (b :: r)) with (esc1 _SingleQuoteTab b ++ escape_all _SingleQuoteTab r) in *.
      rewrite app_length in Hf.
      destruct (is_special b) eqn:Hsp.
      + destruct (esc1_special _ good_single b Hsp) as (E1 & _).
        destruct (good_tab_copy _ b good_single) as (E2 & _).
        rewrite E1, E2 in *.
        destruct (rt_all b) as [H1 _]. unfold single_rt_b in H1. rewrite Hsp in H1.
        destruct (tab_s _SingleQuoteTab b) as [|a [|c [|h1 [|h2 [|h3 [|h4 [|? ?]]]]]]]; try discriminate;
          [|rename c into u0].
        * (* \c *)
          unfold simple_ok in H1. cbv zeta in H1. split_andb.
          change ([BS; c] ++ escape_all _SingleQuoteTab r) with (BS :: c :: escape_all _SingleQuoteTab r) in *.
          rewrite unq_esc, esc_step_single.
          rewrite (esc_tail flags x c _ _ (unquote_tab c) eq_refl) by assumption. use_value b.
          rewrite IH by (cbn [length] in Hf; lia). reflexivity.
        * (* \u00XY *)
          unfold hex_ok in H1. split_andb.
          change ([BS; 117%N; h1; h2; h3; h4] ++ escape_all _SingleQuoteTab r)
            with (BS :: 117%N :: h1 :: h2 :: h3 :: h4 :: escape_all _SingleQuoteTab r) in *.
          rewrite unq_esc, esc_step_single.
          rewrite esc_tail_u by (try assumption; use_value b; assumption). use_value b.
          rewrite IH by (cbn [length] in Hf; lia). reflexivity.
      + destruct (esc1_plain _ good_single b Hsp) as (E1 & _). rewrite E1 in *.
        change ([b] ++ escape_all _SingleQuoteTab r) with (b :: escape_all _SingleQuoteTab r).
        rewrite unq_plain by (apply plain_not_bs; assumption).
        rewrite IH by (cbn [length] in Hf; lia). reflexivity.
  Qed.
End Single.

Section Double.
  Variable flags : N.
  Hypothesis Hdouble : has flags c_F_DBLUNQ = true.
  Variable x : nat.

  (* \\c : the second backslash is skipped, c is looked up *)
  Lemma esc_step_double_1 : forall c rest pos1, (c =? BS)%N = false ->
    esc_step flags x BS (c :: rest) pos1 =
    (let cc := unquote_tab c in
      if (cc =? 0)%Z then inr (c_ERR_ESCAPE, (Z.of_nat (S pos1) - 1)%Z)
      else if negb (cc =? -1)%Z then inl ([Z.to_N (cc mod 256)], rest, S pos1)
      else if (length rest <? 4)%nat then inr (c_ERR_EOF, zx x)
      else if negb (unhex16_is rest) then inr (c_ERR_INVAL, Z.of_nat (S pos1 + count_hex 4 rest))
      else decode_rune flags x (S (length rest)) (unhex16_fast rest) (skipn 4 rest) (S pos1 + 4)).
  Proof.
    intros c rest pos1 Hc. unfold esc_step, dbl_step. rewrite Hdouble.
    change (BS =? BS)%N with true. cbv iota. rewrite Hc. reflexivity.
  Qed.

  (* escaped quote and escaped backslash *)
  Lemma esc_step_double_2 : forall c rest pos1, ((c =? 34)%N || (c =? BS)%N) = true ->
    esc_step flags x BS (BS :: c :: rest) pos1 =
    (let cc := unquote_tab c in
      if (cc =? 0)%Z then inr (c_ERR_ESCAPE, (Z.of_nat (pos1 + 2) - 1)%Z)
      else if negb (cc =? -1)%Z then inl ([Z.to_N (cc mod 256)], rest, pos1 + 2)
      else if (length rest <? 4)%nat then inr (c_ERR_EOF, zx x)
      else if negb (unhex16_is rest) then inr (c_ERR_INVAL, Z.of_nat (pos1 + 2 + count_hex 4 rest))
      else decode_rune flags x (S (length rest)) (unhex16_fast rest) (skipn 4 rest) (pos1 + 2 + 4)).
  Proof.
    intros c rest pos1 Hc. unfold esc_step, dbl_step. rewrite Hdouble.
    change (BS =? BS)%N with true. cbv iota.
    apply orb_prop in Hc. destruct Hc as [Hc|Hc]; rewrite Hc; [|rewrite orb_true_r || idtac].
    - reflexivity.
    - destruct (c =? 34)%N; reflexivity.
  Qed.

  Lemma unquote_quote_double_loop : forall s fuel pos,
    length (escape_all _DoubleQuoteTab s) < fuel ->
    unquote_loop flags x fuel (escape_all _DoubleQuoteTab s) pos = UOk s.
  Proof.
    induction s as [|b r IH]; intros fuel pos Hf.
    - destruct fuel; reflexivity.
    - destruct fuel as [|f]; [lia|].
      change (escape_all _DoubleQuoteTab (b :: r)) with (esc1 _DoubleQuoteTab b ++ escape_all _DoubleQuoteTab r) in *.
      rewrite app_length in Hf.
      destruct (is_special b) eqn:Hsp.
      + destruct (esc1_special _ good_double b Hsp) as (E1 & _).
        destruct (good_tab_copy _ b good_double) as (E2 & _).
        rewrite E1, E2 in *.
        destruct (rt_all b) as [_ H1]. unfold double_rt_b in H1. rewrite Hsp in H1.
        destruct (tab_s _DoubleQuoteTab b) as [|a [|a2 [|c [|h1 [|h2 [|h3 [|h4 [|? ?]]]]]]]]; try discriminate.
        * (* \\c *)
          unfold simple_ok in H1. cbv zeta in H1. split_andb.
          change ([BS; BS; c] ++ escape_all _DoubleQuoteTab r) with (BS :: BS :: c :: escape_all _DoubleQuoteTab r) in *.
          rewrite unq_esc, esc_step_double_1 by assumption.
          rewrite (esc_tail flags x c _ _ (unquote_tab c) eq_refl) by assumption. use_value b.
          rewrite IH by (cbn [length] in Hf; lia). reflexivity.
        * (* escaped quote and escaped backslash *)
          unfold simple_ok in H1. cbv zeta in H1.
          repeat match goal with
                 | H : _ && _ = true |- _ => apply andb_prop in H; destruct H
                 end.
          repeat match goal with
                 | H : (?v =? BS)%N = true |- _ => is_var v; apply N.eqb_eq in H; subst v
                 | H : negb _ = true |- _ => apply negb_true_iff in H
                 end.
          change ([BS; BS; BS; h1] ++ escape_all _DoubleQuoteTab r) with (BS :: BS :: BS :: h1 :: escape_all _DoubleQuoteTab r) in *.
          rewrite unq_esc, esc_step_double_2 by assumption.
          rewrite (esc_tail flags x h1 _ _ (unquote_tab h1) eq_refl) by assumption.
          match goal with H : (Z.to_N _ =? b)%N = true |- _ => apply N.eqb_eq in H; rewrite H end.
          rewrite IH by (cbn [length] in Hf; lia). reflexivity.
        * (* \\u00XY *)
          unfold hex_ok in H1. split_andb.
          change ([BS; BS; 117%N; h1; h2; h3; h4] ++ escape_all _DoubleQuoteTab r)
            with (BS :: BS :: 117%N :: h1 :: h2 :: h3 :: h4 :: escape_all _DoubleQuoteTab r) in *.
          rewrite unq_esc, esc_step_double_1 by reflexivity.
          rewrite esc_tail_u by (try assumption; use_value b; assumption). use_value b.
          rewrite IH by (cbn [length] in Hf; lia). reflexivity.
      + destruct (esc1_plain _ good_double b Hsp) as (E1 & _). rewrite E1 in *.
        change ([b] ++ escape_all _DoubleQuoteTab r) with (b :: escape_all _DoubleQuoteTab r).
        rewrite unq_plain by (apply plain_not_bs; assumption).
        rewrite IH by (cbn [length] in Hf; lia). reflexivity.
  Qed.
End Double.

(* ---- the theorems ---- *)
Theorem unquote_quote : forall flags s,
  unquote flags (escape_all (quote_tab flags) s) = UOk s.
Proof.
  intros flags s. unfold unquote, quote_tab.
  destruct (N.land flags c_F_DBLUNQ =? 0)%N eqn:E.
  - apply unquote_quote_single_loop; [unfold has; rewrite E; reflexivity|lia].
  - apply unquote_quote_double_loop; [unfold has; rewrite E; reflexivity|lia].
Qed.

(* through the real entry points: every capacity schedule, every block width, then unquote.String *)
Theorem encoder_quote_unquote : forall ws s, Forall (fun W => 0 < W) ws ->
  exists body, encoder_quote ws s = Some ([34]%N ++ body ++ [34]%N) /\
               go_unquote_string body = inl s /\ go_into_bytes body false = inl s.
Proof.
  intros ws s HW. exists (escape_all _SingleQuoteTab s). split; [apply encoder_quote_spec; assumption|].
  unfold go_unquote_string, go_into_bytes.
  change (escape_all _SingleQuoteTab s) with (escape_all (quote_tab go_F_UNICODE_REPLACE) s) at 1.
  rewrite unquote_quote.
  change (escape_all _SingleQuoteTab s) with (escape_all (quote_tab 0%N) s).
  rewrite unquote_quote. auto.
Qed.

Example unquote_quote_ex : unquote 3 (escape_all (quote_tab 3) [34; 92; 0; 10; 255; 226; 128; 168]%N) = UOk [34; 92; 0; 10; 255; 226; 128; 168]%N.
Proof. vm_compute. reflexivity. Qed.
