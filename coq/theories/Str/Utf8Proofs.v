(* C20 - proofs about the UTF-8 model (Str/Utf8.v) against the reference (Str/RefUtf8.v).
   All theorems are unbounded in the input length (induction over the byte list / fuel); the only
   finite sweeps are over the 256 byte values and the 256*256 pairs of byte values (bounds stated in
   sweep256 / sweep2), used for the per-byte facts behind valid_utf8_4byte = seq_len.
   1. valid4_seq_len             the 32-bit mask tests of valid_utf8_4byte compute seq_len (Table 3-7)
   2. validate_utf8_fast_spec    0, or -(first bad position)-1
   3. first_bad_wf, wf_WF, validate_utf8_fast_WF
   4. go_validate_spec           utf8.Validate / ValidateString
   5. validate_utf8_positions    validate_utf8_with_errors = reference listing of the bad positions
   6. correct_with_spec          utf8.CorrectWith = byte-wise replacement, whatever msize > 0 *)
From Coq Require Import NArith ZArith Bool List Lia.
From SV.Gen Require Import Tables.
From SV.Str Require Import Common Utf8 RefUtf8 TablesOk FinderProofs.
Import ListNotations.
Open Scope nat_scope.

Definition bytes (s : list N) : Prop := Forall (fun b => (b < 256)%N) s.

Example bytes_euro : bytes [226; 130; 172]%N.
Proof. unfold bytes. repeat constructor. Qed.

Section Bits.
Local Open Scope N_scope.

Lemma testbit_split : forall a x n, a < 256 ->
  N.testbit (a + 256 * x) n = if n <? 8 then N.testbit a n else N.testbit x (n - 8).
Proof.
  intros a x n Ha. destruct (N.ltb_spec n 8) as [Hn|Hn].
  - rewrite <- (N.mod_pow2_bits_low (a + 256 * x) 8 n Hn).
    change (2 ^ 8) with 256.
    replace ((a + 256 * x) mod 256) with a; [reflexivity|].
    rewrite (N.mul_comm 256 x), N.mod_add by lia. symmetry. apply N.mod_small. exact Ha.
  - assert (E : n = (n - 8) + 8) by lia. revert E. generalize (n - 8). intros m E. rewrite E.
    replace (m + 8 - 8) with m by lia.
    rewrite <- N.div_pow2_bits. change (2 ^ 8) with 256.
    replace ((a + 256 * x) / 256) with x; [reflexivity|].
    rewrite (N.mul_comm 256 x), N.div_add by lia. rewrite N.div_small by exact Ha. lia.
Qed.

Lemma land_lt : forall a m, a < 256 -> N.land a m < 256.
Proof.
  intros a m Ha.
  replace a with (N.land a (N.ones 8)) by (rewrite N.land_ones; apply N.mod_small; exact Ha).
  rewrite <- N.land_assoc, (N.land_comm (N.ones 8) m), N.land_assoc, N.land_ones.
  change (2 ^ 8) with 256. apply N.mod_lt. lia.
Qed.

Lemma land_split : forall a x m y, a < 256 -> m < 256 ->
  N.land (a + 256 * x) (m + 256 * y) = N.land a m + 256 * N.land x y.
Proof.
  intros a x m y Ha Hm. apply N.bits_inj. intro n.
  rewrite N.land_spec, !testbit_split by first [assumption | apply land_lt; assumption].
  destruct (n <? 8); rewrite N.land_spec; reflexivity.
Qed.

Definition comb (a b c d : N) : N := a + 256 * (b + 256 * (c + 256 * d)).

Lemma land_comb : forall a b c d m0 m1 m2 m3,
  a < 256 -> b < 256 -> c < 256 -> m0 < 256 -> m1 < 256 -> m2 < 256 ->
  N.land (comb a b c d) (comb m0 m1 m2 m3) = comb (N.land a m0) (N.land b m1) (N.land c m2) (N.land d m3).
Proof. intros. unfold comb. rewrite !land_split by assumption. reflexivity. Qed.

Lemma eqb_split : forall a x a' x', a < 256 -> a' < 256 ->
  (a + 256 * x =? a' + 256 * x') = (a =? a') && (x =? x').
Proof.
  intros a x a' x' Ha Ha'.
  destruct (N.eqb_spec a a'), (N.eqb_spec x x'), (N.eqb_spec (a + 256 * x) (a' + 256 * x'));
    simpl; try reflexivity; lia.
Qed.

Lemma eqb_comb : forall a b c d a' b' c' d',
  a < 256 -> b < 256 -> c < 256 -> a' < 256 -> b' < 256 -> c' < 256 ->
  (comb a b c d =? comb a' b' c' d') = (a =? a') && ((b =? b') && ((c =? c') && (d =? d'))).
Proof. intros. unfold comb. rewrite !eqb_split by assumption. reflexivity. Qed.

Lemma eqb_comb0 : forall a b c d,
  (comb a b c d =? 0) = (a =? 0) && ((b =? 0) && ((c =? 0) && (d =? 0))).
Proof.
  intros. unfold comb.
  destruct (N.eqb_spec a 0), (N.eqb_spec b 0), (N.eqb_spec c 0), (N.eqb_spec d 0),
    (N.eqb_spec (a + 256 * (b + 256 * (c + 256 * d))) 0); simpl; try reflexivity; lia.
Qed.

(* complete sweeps: 256 values / 256*256 pairs *)
Lemma sweep2 : forall P : N -> N -> bool,
  forallb (fun a => forallb (P a) bytes256) bytes256 = true ->
  forall a b, a < 256 -> b < 256 -> P a b = true.
Proof.
  intros P H a b Ha Hb. apply (sweep256 (P a)); [|exact Hb].
  apply (sweep256 (fun a => forallb (P a) bytes256) H a Ha).
Qed.

Lemma land_cont_sweep : forallb (fun b => Bool.eqb (N.land b 192 =? 128) (cont b)) bytes256 = true.
Proof. vm_compute. reflexivity. Qed.
Lemma land_cont : forall b, b < 256 -> (N.land b 192 =? 128) = cont b.
Proof. intros b Hb. apply eqb_prop. apply (sweep256 _ land_cont_sweep b Hb). Qed.

Lemma valid4_bytes : forall b0 b1 b2 b3, b0 < 256 -> b1 < 256 -> b2 < 256 -> b3 < 256 ->
  (128 <=? b0) = true -> valid_utf8_4byte (comb b0 b1 b2 b3) = seq_len [b0; b1; b2; b3].
Proof.
  intros b0 b1 b2 b3 H0 H1 H2 H3 Hhi.
  unfold valid_utf8_4byte, is_valid_seq_2, is_valid_seq_3, is_valid_seq_4. cbv zeta.
  change b2_mask with (comb 224 192 0 0). change b2_patt with (comb 192 128 0 0).
  change b2_requ with (comb 30 0 0 0).
  change b3_mask with (comb 240 192 192 0). change b3_patt with (comb 224 128 128 0).
  change b3_requ with (comb 15 32 0 0). change b3_erro with (comb 13 32 0 0).
  change b4_mask with (comb 248 192 192 192). change b4_patt with (comb 240 128 128 128).
  change b4_requ with (comb 7 48 0 0). change b4_err0 with (comb 4 0 0 0).
  change b4_err1 with (comb 3 48 0 0).
  rewrite !land_comb by first [assumption | lia | apply land_lt; assumption].
  rewrite !eqb_comb by first [assumption | lia | apply land_lt; assumption].
  rewrite !eqb_comb0.
  rewrite !N.land_0_r.
  rewrite (land_cont b2 H2), (land_cont b3 H3).
  unfold seq_len.
  generalize (cont b2) (cont b3). intros c2 c3.
  destruct c2, c3; apply Nat.eqb_eq;
  match goal with |- Nat.eqb ?L ?R = true =>
    let e := constr:(implb (128 <=? b0) (Nat.eqb L R)) in
    let f := eval pattern b0, b1 in e in
    match f with ?F _ _ =>
      assert (HS : F b0 b1 = true)
        by (apply (sweep2 F); [vm_compute; reflexivity | assumption | assumption]);
      cbv beta in HS; revert HS Hhi; destruct (128 <=? b0); intros HS Hhi;
      [exact HS | discriminate Hhi]
    end
  end.
Qed.

Lemma load32_comb : forall s,
  load32_le s = comb (nth 0 s 0) (nth 1 s 0) (nth 2 s 0) (nth 3 s 0).
Proof. intros s. unfold load32_le, comb. lia. Qed.

Lemma bytes_nth : forall s, bytes s -> forall i, nth i s 0 < 256.
Proof.
  intros s H. induction H; intros i; destruct i; cbn [nth]; try lia; auto.
Qed.

(* the bytes a short sequence lacks read as 0, and 0 is never a continuation byte *)
Lemma seq_len_pad : forall s, s <> [] ->
  seq_len s = seq_len [nth 0 s 0; nth 1 s 0; nth 2 s 0; nth 3 s 0].
Proof.
  intros s Hs. destruct s as [|b0 [|b1 [|b2 [|b3 r]]]]; [contradiction| | | |reflexivity];
  cbn [nth]; unfold seq_len; change (cont 0) with false; rewrite ?andb_false_r;
  destruct (b0 <=? 127), (inr8 194 223 b0), (inr8 224 239 b0), (inr8 240 244 b0); reflexivity.
Qed.

End Bits.

Theorem valid4_seq_len : forall s, bytes s ->
  (match s with b :: _ => (128 <=? b)%N = true | [] => False end) ->
  valid_utf8_4byte (load32_le s) = seq_len s.
Proof.
  intros s Hb Hhd. destruct s as [|b r]; [contradiction|].
  rewrite load32_comb, (seq_len_pad (b :: r)) by discriminate.
  apply valid4_bytes; try (apply bytes_nth; exact Hb). exact Hhd.
Qed.

(* ---------- list / fuel helpers ---------- *)
Lemma bytes_skipn : forall n s, bytes s -> bytes (skipn n s).
Proof.
  induction n; intros s H; [exact H|]. destruct s; [exact H|].
  cbn [skipn]. apply IHn. inversion H; assumption.
Qed.

Lemma seq_len_ascii : forall b r, (b <= 127)%N -> seq_len (b :: r) = 1.
Proof. intros b r H. unfold seq_len. destruct (N.leb_spec b 127); [reflexivity|lia]. Qed.

(* ---------- 2. validate_utf8_errors = first_bad ---------- *)
Lemma errors_go_spec : forall fuel s pos, bytes s ->
  validate_utf8_errors_go fuel s pos =
  match first_bad_go fuel s pos with None => 0%Z | Some p => (- Z.of_nat p - 1)%Z end.
Proof.
  induction fuel; intros s pos Hb; [reflexivity|].
  destruct s as [|b r]; [reflexivity|].
  cbn [validate_utf8_errors_go first_bad_go].
  destruct (N.ltb_spec b 128) as [Hlt|Hge].
  - rewrite (seq_len_ascii b r) by lia. cbn [skipn]. rewrite Nat.add_1_r.
    apply IHfuel. inversion Hb; assumption.
  - rewrite (valid4_seq_len (b :: r) Hb) by (apply N.leb_le; exact Hge).
    destruct (seq_len (b :: r)) as [|n] eqn:E; [reflexivity|].
    apply IHfuel. apply bytes_skipn. exact Hb.
Qed.

Theorem validate_utf8_fast_spec : forall s, bytes s ->
  validate_utf8_fast s =
  match first_bad s with None => 0%Z | Some p => (- Z.of_nat p - 1)%Z end.
Proof. intros s Hb. unfold validate_utf8_fast, first_bad. apply errors_go_spec. exact Hb. Qed.

(* ---------- 3. first_bad / wf / WF ---------- *)
Lemma first_bad_go_wf : forall f s pos, length s <= f ->
  (first_bad_go f s pos = None <-> wf_go f s = true).
Proof.
  induction f; intros s pos Hl.
  - destruct s; [|cbn [length] in Hl; lia]. split; reflexivity.
  - destruct s as [|b r]; [split; reflexivity|]. cbn [first_bad_go wf_go].
    destruct (seq_len (b :: r)) as [|n] eqn:E.
    + split; discriminate.
    + apply IHf. rewrite skipn_length. cbn [length] in *. lia.
Qed.

Theorem first_bad_wf : forall s, first_bad s = None <-> wf s = true.
Proof. intros s. unfold first_bad, wf. apply first_bad_go_wf. lia. Qed.

Lemma wf_go_WF : forall f s, wf_go f s = true -> WF s.
Proof.
  induction f; intros s H.
  - destruct s; [constructor|discriminate].
  - destruct s as [|b r]; [constructor|]. cbn [wf_go] in H.
    destruct (seq_len (b :: r)) as [|n] eqn:E; [discriminate|].
    apply (WF_seq _ n E). apply IHf. exact H.
Qed.

Lemma WF_wf_go : forall s, WF s -> forall f, length s <= f -> wf_go f s = true.
Proof.
  induction 1 as [|s n E Hw IH]; intros f Hl.
  - destruct f; reflexivity.
  - destruct s as [|b r]; [cbn in E; discriminate E|].
    destruct f; [cbn [length] in Hl; lia|]. cbn [wf_go]. rewrite E.
    apply IH. rewrite skipn_length. cbn [length] in *. lia.
Qed.

Theorem wf_WF : forall s, wf s = true <-> WF s.
Proof.
  intros s. split; [apply wf_go_WF|]. intros H. apply (WF_wf_go s H). lia.
Qed.

Theorem validate_utf8_fast_WF : forall s, bytes s -> (validate_utf8_fast s = 0%Z <-> WF s).
Proof.
  intros s Hb. rewrite (validate_utf8_fast_spec s Hb). split; intro H.
  - apply wf_WF, first_bad_wf. destruct (first_bad s) as [p|]; [exfalso; lia|reflexivity].
  - apply wf_WF, first_bad_wf in H. rewrite H. reflexivity.
Qed.

(* ---------- 4. Go Validate / ValidateString ---------- *)
Theorem go_validate_spec : forall s, bytes s -> go_validate s = wf s.
Proof.
  intros s Hb. destruct s as [|b r]; [reflexivity|]. unfold go_validate.
  rewrite (validate_utf8_fast_spec _ Hb). destruct (wf (b :: r)) eqn:E.
  - apply first_bad_wf in E. rewrite E. reflexivity.
  - destruct (first_bad (b :: r)) as [p|] eqn:F.
    + apply Z.eqb_neq. lia.
    + apply first_bad_wf in F. congruence.
Qed.

(* ---------- 5. validate_utf8_with_errors: the recorded positions ---------- *)
(* reference: scan sequence by sequence from pos; a byte at which no well-formed sequence starts is
   listed and skipped (one byte) while there is room; with no room left the scan stops there with -1.
   Result: (return value, position reached, positions listed). *)
Fixpoint bad_positions_go (fuel room : nat) (s : list N) (pos : nat) : Z * nat * list nat :=
  match fuel with
  | O => (0%Z, pos, [])
  | S f =>
    match s with
    | [] => (0%Z, pos, [])
    | b :: r =>
      match seq_len s with
      | O => match room with
             | O => ((-1)%Z, pos, [])
             | S room' =>
               let '(ec, p', l) := bad_positions_go f room' r (S pos) in (ec, p', pos :: l)
             end
      | S n => bad_positions_go f room (skipn (S n) s) (pos + S n)
      end
    end
  end.

Lemma with_errors_go_positions : forall fuel msize s pos vt, bytes s ->
  validate_utf8_with_errors_go fuel msize s pos vt =
  let '(ec, p', l) := bad_positions_go fuel (msize - length vt) s pos in (ec, p', vt ++ l).
Proof.
  induction fuel; intros msize s pos vt Hb.
  - cbn [validate_utf8_with_errors_go bad_positions_go]. rewrite app_nil_r. reflexivity.
  - destruct s as [|b r].
    + cbn [validate_utf8_with_errors_go bad_positions_go]. rewrite app_nil_r. reflexivity.
    + cbn [validate_utf8_with_errors_go bad_positions_go].
      destruct (N.ltb_spec b 128) as [Hlt|Hge].
      * rewrite (seq_len_ascii b r) by lia. cbn [skipn]. rewrite Nat.add_1_r.
        apply IHfuel. inversion Hb; assumption.
      * rewrite (valid4_seq_len (b :: r) Hb) by (apply N.leb_le; exact Hge).
        destruct (seq_len (b :: r)) as [|n] eqn:E.
        -- destruct (Nat.leb_spec msize (length vt)) as [Hle|Hgt].
           ++ replace (msize - length vt) with 0 by lia. cbv beta iota zeta.
              rewrite app_nil_r. reflexivity.
           ++ destruct (msize - length vt) as [|room'] eqn:Er; [lia|].
              rewrite IHfuel by (inversion Hb; assumption).
              rewrite app_length. cbn [length].
              replace (msize - (length vt + 1)) with room' by lia.
              destruct (bad_positions_go fuel room' r (S pos)) as [[ec p'] l].
              rewrite <- app_assoc. reflexivity.
        -- apply IHfuel. apply bytes_skipn. exact Hb.
Qed.

Theorem validate_utf8_positions : forall msize src p, bytes src ->
  validate_utf8 msize src p = bad_positions_go (length src) msize (skipn p src) p.
Proof.
  intros msize src p Hb. unfold validate_utf8.
  rewrite with_errors_go_positions by (apply bytes_skipn; exact Hb).
  cbn [length]. rewrite Nat.sub_0_r.
  destruct (bad_positions_go (length src) msize (skipn p src) p) as [[ec p'] l]. reflexivity.
Qed.

(* ---------- slices ---------- *)
Lemma firstn_add_split : forall (A : Type) m k (l : list A),
  firstn (m + k) l = firstn m l ++ firstn k (skipn m l).
Proof.
  induction m; intros k l; [reflexivity|]. destruct l; simpl.
  - destruct k; reflexivity.
  - rewrite IHm. reflexivity.
Qed.

Lemma slice_split : forall src a b c, a <= b -> b <= c ->
  slice src a c = slice src a b ++ slice src b c.
Proof.
  intros src a b c H1 H2. unfold slice.
  replace (c - a) with ((b - a) + (c - b)) by lia.
  rewrite firstn_add_split, skipn_add. replace (a + (b - a)) with b by lia. reflexivity.
Qed.
Lemma slice_same : forall src a, slice src a a = [].
Proof. intros. unfold slice. rewrite Nat.sub_diag. reflexivity. Qed.
Lemma slice_firstn : forall src a k, slice src a (a + k) = firstn k (skipn a src).
Proof. intros. unfold slice. replace (a + k - a) with k by lia. reflexivity. Qed.

(* ---------- replace_invalid: fuel irrelevance and unfolding equations ---------- *)
Lemma replace_go_fuel2 : forall repl f1 f2 s, length s <= f1 -> length s <= f2 ->
  replace_go f1 repl s = replace_go f2 repl s.
Proof.
  induction f1; intros f2 s H1 H2.
  - destruct s; [|cbn [length] in H1; lia]. destruct f2; reflexivity.
  - destruct s as [|b r]; [destruct f2; reflexivity|].
    destruct f2; [cbn [length] in H2; lia|]. cbn [replace_go].
    destruct (seq_len (b :: r)) as [|n].
    + f_equal. apply IHf1; cbn [length] in *; lia.
    + f_equal. apply IHf1; rewrite skipn_length; cbn [length] in *; lia.
Qed.
Lemma replace_go_fuel : forall repl f s, length s <= f ->
  replace_go f repl s = replace_go (length s) repl s.
Proof. intros. apply replace_go_fuel2; lia. Qed.

Lemma replace_invalid_nil : forall repl, replace_invalid repl [] = [].
Proof. reflexivity. Qed.
Lemma replace_invalid_bad : forall repl b r, seq_len (b :: r) = 0 ->
  replace_invalid repl (b :: r) = repl ++ replace_invalid repl r.
Proof. intros repl b r H. unfold replace_invalid. cbn [length replace_go]. rewrite H. reflexivity. Qed.
Lemma replace_invalid_seq : forall repl s n, seq_len s = S n ->
  replace_invalid repl s = firstn (S n) s ++ replace_invalid repl (skipn (S n) s).
Proof.
  intros repl s n H. destruct s as [|b r]; [cbn in H; discriminate H|].
  unfold replace_invalid. cbn [length replace_go]. rewrite H. f_equal.
  apply replace_go_fuel2; rewrite ?skipn_length; cbn [length]; lia.
Qed.

(* ---------- 6. CorrectWith ---------- *)
(* one call of the native routine followed by the Go copy loop: the text produced up to the
   position reached, continued by the reference on the rest, is the reference from the start *)
Lemma round_output : forall src repl fuel room s pos scur dst ec p' l,
  s = skipn pos src -> length s <= fuel -> scur <= pos ->
  bad_positions_go fuel room s pos = (ec, p', l) ->
  forall dst1 scur', correct_positions src repl l scur dst = (dst1, scur') ->
  dst1 ++ slice src scur' p' ++ replace_invalid repl (skipn p' src) =
  dst ++ slice src scur pos ++ replace_invalid repl s.
Proof.
  intros src repl.
  induction fuel; intros room s pos scur dst ec p' l Hs Hl Hsc Hbp dst1 scur' Hcp.
  - destruct s; [|cbn [length] in Hl; lia]. cbn [bad_positions_go] in Hbp.
    inversion Hbp; subst ec p' l. cbn [correct_positions] in Hcp. inversion Hcp; subst dst1 scur'.
    rewrite <- Hs. reflexivity.
  - destruct s as [|b r].
    + cbn [bad_positions_go] in Hbp.
      inversion Hbp; subst ec p' l. cbn [correct_positions] in Hcp. inversion Hcp; subst dst1 scur'.
      rewrite <- Hs. reflexivity.
    + cbn [bad_positions_go] in Hbp. destruct (seq_len (b :: r)) as [|n] eqn:E.
      * destruct room as [|room'].
        -- inversion Hbp; subst ec p' l. cbn [correct_positions] in Hcp.
           inversion Hcp; subst dst1 scur'. rewrite <- Hs. reflexivity.
        -- destruct (bad_positions_go fuel room' r (S pos)) as [[ec0 p0] l0] eqn:Eb.
           inversion Hbp; subst ec p' l. cbn [correct_positions] in Hcp.
           assert (HsR : r = skipn (S pos) src).
           { replace (S pos) with (pos + 1) by lia. rewrite <- skipn_add, <- Hs. reflexivity. }
           assert (HlR : length r <= fuel) by (cbn [length] in Hl; lia).
           pose proof (IHfuel _ _ _ _ _ _ _ _ HsR HlR (le_n _) Eb _ _ Hcp) as IH.
           rewrite IH, slice_same, (replace_invalid_bad _ _ _ E). rewrite <- !app_assoc. reflexivity.
      * assert (HsS : skipn (S n) (b :: r) = skipn (pos + S n) src).
        { rewrite <- skipn_add, <- Hs. reflexivity. }
        assert (HlS : length (skipn (S n) (b :: r)) <= fuel).
        { rewrite skipn_length. cbn [length] in *. lia. }
        assert (HscS : scur <= pos + S n) by lia.
        pose proof (IHfuel _ _ _ _ _ _ _ _ HsS HlS HscS Hbp _ _ Hcp) as IH.
        rewrite IH. rewrite (replace_invalid_seq _ _ _ E).
        rewrite (slice_split src scur pos (pos + S n)) by lia.
        rewrite slice_firstn, <- Hs, <- app_assoc. reflexivity.
Qed.

(* progress: the call reaches the end of the input, or it listed `room` positions *)
Lemma round_bounds : forall fuel room s pos ec p' l, length s <= fuel ->
  bad_positions_go fuel room s pos = (ec, p', l) ->
  pos + length l <= p' /\ (pos + length s <= p' \/ length l = room).
Proof.
  induction fuel; intros room s pos ec p' l Hl Hbp.
  - destruct s; [|cbn [length] in Hl; lia]. cbn [bad_positions_go] in Hbp.
    inversion Hbp; subst. cbn [length]. lia.
  - destruct s as [|b r].
    + cbn [bad_positions_go] in Hbp. inversion Hbp; subst. cbn [length]. lia.
    + cbn [bad_positions_go] in Hbp. destruct (seq_len (b :: r)) as [|n] eqn:E.
      * destruct room as [|room'].
        -- inversion Hbp; subst. cbn [length]. lia.
        -- destruct (bad_positions_go fuel room' r (S pos)) as [[ec0 p0] l0] eqn:Eb.
           inversion Hbp; subst. apply IHfuel in Eb; [|cbn [length] in Hl; lia].
           cbn [length] in *. lia.
      * apply IHfuel in Hbp; [|rewrite skipn_length; cbn [length] in *; lia].
        rewrite skipn_length in Hbp. cbn [length] in *. lia.
Qed.

Lemma correct_with_loop_spec : forall msize src repl, 0 < msize -> bytes src ->
  forall fuel sidx dst, length src - sidx < fuel ->
  correct_with_loop fuel msize src repl sidx dst = Some (dst ++ replace_invalid repl (skipn sidx src)).
Proof.
  intros msize src repl Hm Hb. induction fuel; intros sidx dst Hf; [lia|].
  cbn [correct_with_loop]. destruct (Nat.ltb_spec sidx (length src)) as [Hlt|Hge].
  - rewrite (validate_utf8_positions msize src sidx Hb).
    destruct (bad_positions_go (length src) msize (skipn sidx src) sidx) as [[ec p'] l] eqn:Eb.
    cbv beta iota zeta.
    destruct (correct_positions src repl l sidx dst) as [dst1 scur] eqn:Ec.
    cbv beta iota zeta.
    assert (Hlen : length (skipn sidx src) <= length src) by (rewrite skipn_length; lia).
    pose proof (round_output _ _ _ _ _ _ _ _ _ _ _ eq_refl Hlen (le_n _) Eb _ _ Ec) as Ho.
    pose proof (round_bounds _ _ _ _ _ _ _ Hlen Eb) as [B1 B2].
    rewrite IHfuel.
    + rewrite <- app_assoc, Ho, slice_same. reflexivity.
    + rewrite skipn_length in B2. lia.
  - rewrite skipn_all2 by lia. rewrite replace_invalid_nil, app_nil_r. reflexivity.
Qed.

Theorem correct_with_spec : forall msize dst src repl, bytes src -> 0 < msize ->
  correct_with_msize msize dst src repl = Some (dst ++ replace_invalid repl src).
Proof.
  intros msize dst src repl Hb Hm. unfold correct_with_msize.
  rewrite (correct_with_loop_spec msize src repl Hm Hb) by lia. reflexivity.
Qed.

Corollary correct_with_default_spec : forall dst src repl, bytes src ->
  correct_with dst src repl = Some (dst ++ replace_invalid repl src).
Proof.
  intros dst src repl Hb. unfold correct_with. apply correct_with_spec; [exact Hb|].
  apply Nat.ltb_lt. vm_compute. reflexivity.
Qed.

Corollary correct_with_msize_independent : forall m1 m2 dst src repl, bytes src -> 0 < m1 -> 0 < m2 ->
  correct_with_msize m1 dst src repl = correct_with_msize m2 dst src repl.
Proof. intros. rewrite !correct_with_spec by assumption. reflexivity. Qed.

(* non-vacuity and sanity *)
Example valid4_hyp_euro : bytes [226; 130; 172]%N /\ (128 <=? 226)%N = true.
Proof. split; [exact bytes_euro|reflexivity]. Qed.
Example correct_with_ex :
  bytes [65; 226; 130; 66; 255]%N /\
  correct_with [] [65; 226; 130; 66; 255]%N [63]%N = Some [65; 63; 63; 66; 63]%N /\
  correct_with_msize 1 [] [65; 226; 130; 66; 255]%N [63]%N = Some [65; 63; 63; 66; 63]%N /\
  validate_utf8 1 [65; 226; 130; 66; 255]%N 0 = ((-1)%Z, 2, [1]).
Proof. split; [unfold bytes; repeat constructor|]. vm_compute. repeat split. Qed.
Example validate_fast_ex :
  validate_utf8_fast [226; 130; 172]%N = 0%Z /\ validate_utf8_fast [65; 237; 160; 128]%N = (-2)%Z.
Proof. vm_compute. split; reflexivity. Qed.
