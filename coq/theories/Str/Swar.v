(* C20 - the SWAR hexadecimal-digit test of native/parsing.h (hasless / hasmore / hasbetween /
   unhex16_is), modelled literally on 32-bit words, and the proof that it is exactly the byte-wise
   abstraction Unquote.unhex16_is (all four loaded bytes are hexadecimal digits).

     static uint32_t hasless(uint32_t x, uint8_t n)    { return (x - ALL_01h * n) & ~x & ALL_80h; }
     static uint32_t hasmore(uint32_t x, uint8_t n)    { return (x + ALL_01h * (127 - n) | x) & ALL_80h; }
     static uint32_t hasbetween(uint32_t x, uint8_t m, uint8_t n) {
         return (ALL_01h * (127 + n) - (x & ALL_7fh) & ~x & (x & ALL_7fh) + ALL_01h * (127 - m)) & ALL_80h; }
     static char unhex16_is(const char *s) {
         uint32_t v = LOAD32(s);      [the source dereferences s as a uint32_t pointer, little endian]
         return !(hasless(v, '0') || hasmore(v, 'f') || hasbetween(v, '9', 'A') || hasbetween(v, 'F', 'a')); }

   C precedence: + and - bind tighter than &, which binds tighter than |. ALL_01h = ~0ul/255 is an
   unsigned long, so the C intermediates are 64 bits wide, but x, ~x and the returned value are
   uint32_t: only the low 32 bits of every intermediate reach the result, and the low 32 bits of
   + - & | depend only on the low 32 bits of the operands (carries and borrows travel upwards).
   The first model (hasless, hasmore, hasbetween, unhex16_is_swar) therefore computes modulo 2^32
   with the low halves of the constants (0x01010101, 0x7f7f7f7f, 0x80808080); the last section
   defines the 64-bit versions (hasless64 .., result truncated to 32 bits) and PROVES them equal
   to the 32-bit ones for every x < 2^32 (hasless64_low, hasmore64_low, hasbetween64_low,
   unhex16_is_swar64_spec).
   The int expressions 127 - n and 127 - m of the C code are modelled by the truncated subtraction
   of N: faithful for n, m <= 127 (the call sites pass 102, 57 and 70); for larger values the C
   int would be negative, which no caller produces.

   Proof technique: the word operations on load32 b0 b1 b2 b3 are split into byte-serial operations
   for ALL bytes b0..b3 < 256 (div/mod arithmetic, testbit reasoning; no sweep over words); the
   remaining per-byte facts are complete sweeps of the 256 byte values (sweep256).
   Main results: hasless_any, hasmore_any, hasbetween_any_57_65, hasbetween_any_70_97,
   unhex16_is_swar_bytes, unhex16_is_swar_spec, unhex16_is_swar64_spec. *)
From Coq Require Import NArith Bool List Lia.
From SV.Str Require Import Common TablesOk Utf8Proofs Unquote.
Import ListNotations.
Open Scope N_scope.

(* ---------- the literal model ---------- *)

Definition ALL_01h : N := 16843009.      (* 0x01010101 *)
Definition ALL_7fh : N := 2139062143.    (* 0x7f7f7f7f = ALL_01h * 127 *)
Definition ALL_80h : N := 2155905152.    (* 0x80808080 = ALL_01h * 128 *)

Definition add32 (a b : N) : N := (a + b) mod 4294967296.
Definition sub32 (a b : N) : N := (a + 4294967296 - b mod 4294967296) mod 4294967296.
Definition lnot32 (x : N) : N := N.lxor x 4294967295.

Definition load32 (b0 b1 b2 b3 : N) : N := b0 + 256 * b1 + 65536 * b2 + 16777216 * b3.

Definition hasless (x n : N) : N :=
  N.land (N.land (sub32 x (ALL_01h * n)) (lnot32 x)) ALL_80h.

Definition hasmore (x n : N) : N :=
  N.land (N.lor (add32 x (ALL_01h * (127 - n))) x) ALL_80h.

Definition hasbetween (x m n : N) : N :=
  N.land (N.land (N.land (sub32 (ALL_01h * (127 + n)) (N.land x ALL_7fh)) (lnot32 x))
                 (add32 (N.land x ALL_7fh) (ALL_01h * (127 - m)))) ALL_80h.

Definition unhex16_is_swar (s : list N) : bool :=
  let v := load32 (nth 0 s 0) (nth 1 s 0) (nth 2 s 0) (nth 3 s 0) in
  negb (negb (hasless v 48 =? 0) || negb (hasmore v 102 =? 0) ||
        negb (hasbetween v 57 65 =? 0) || negb (hasbetween v 70 97 =? 0)).

Example ALL_consts : ALL_01h = 4294967295 / 255 /\ ALL_7fh = ALL_01h * 127 /\ ALL_80h = ALL_01h * 128.
Proof. vm_compute. repeat split. Qed.

Example swar_ex_ok1 : unhex16_is_swar [48; 57; 97; 102] = true.  Proof. vm_compute. reflexivity. Qed.
Example swar_ex_ok2 : unhex16_is_swar [65; 70; 100; 49] = true.  Proof. vm_compute. reflexivity. Qed.
Example swar_ex_47  : unhex16_is_swar [47; 48; 48; 48] = false.  Proof. vm_compute. reflexivity. Qed.
Example swar_ex_58  : unhex16_is_swar [48; 58; 48; 48] = false.  Proof. vm_compute. reflexivity. Qed.
Example swar_ex_64  : unhex16_is_swar [48; 48; 64; 48] = false.  Proof. vm_compute. reflexivity. Qed.
Example swar_ex_71  : unhex16_is_swar [48; 48; 48; 71] = false.  Proof. vm_compute. reflexivity. Qed.
Example swar_ex_96  : unhex16_is_swar [96; 48; 48; 48] = false.  Proof. vm_compute. reflexivity. Qed.
Example swar_ex_103 : unhex16_is_swar [48; 103; 48; 48] = false. Proof. vm_compute. reflexivity. Qed.
Example swar_ex_128 : unhex16_is_swar [48; 48; 128; 48] = false. Proof. vm_compute. reflexivity. Qed.
Example swar_ex_255 : unhex16_is_swar [48; 48; 48; 255] = false. Proof. vm_compute. reflexivity. Qed.
(* a byte that wraps the adder of hasmore (230 + 25 = 255, 231 + 25 carries into the next lane) and a
   lane below '0' that borrows from the lane above it *)
Example swar_ex_carry  : unhex16_is_swar [231; 102; 102; 102] = false. Proof. vm_compute. reflexivity. Qed.
Example swar_ex_borrow : unhex16_is_swar [0; 48; 48; 48] = false.      Proof. vm_compute. reflexivity. Qed.
Example swar_ex_short  : unhex16_is_swar [49; 50] = false.             Proof. vm_compute. reflexivity. Qed.

(* ---------- bit-level helpers (same style as Utf8Proofs.Bits) ---------- *)

Lemma load32_is_comb : forall b0 b1 b2 b3, load32 b0 b1 b2 b3 = comb b0 b1 b2 b3.
Proof. intros. unfold load32, comb. lia. Qed.

Lemma byte_hi : forall a n, a < 256 -> 8 <= n -> N.testbit a n = false.
Proof.
  intros a n Ha Hn. rewrite <- (N.mod_small a (2 ^ 8)) by exact Ha.
  apply N.mod_pow2_bits_high. exact Hn.
Qed.

Lemma hi_lt : forall x, (forall n, 8 <= n -> N.testbit x n = false) -> x < 256.
Proof.
  intros x H. assert (E : x = x mod 2 ^ 8).
  { apply N.bits_inj. intro n. destruct (N.ltb_spec n 8) as [Hn|Hn].
    - rewrite N.mod_pow2_bits_low by exact Hn. reflexivity.
    - rewrite N.mod_pow2_bits_high by exact Hn. apply H, Hn. }
  rewrite E. change (2 ^ 8) with 256. apply N.mod_lt. lia.
Qed.

Lemma lor_lt : forall a m, a < 256 -> m < 256 -> N.lor a m < 256.
Proof.
  intros a m Ha Hm. apply hi_lt. intros n Hn.
  rewrite N.lor_spec, !byte_hi by assumption. reflexivity.
Qed.

Lemma lor_split : forall a x m y, a < 256 -> m < 256 ->
  N.lor (a + 256 * x) (m + 256 * y) = N.lor a m + 256 * N.lor x y.
Proof.
  intros a x m y Ha Hm. apply N.bits_inj. intro n.
  rewrite N.lor_spec, !testbit_split by first [assumption | apply lor_lt; assumption].
  destruct (n <? 8); rewrite N.lor_spec; reflexivity.
Qed.

Lemma lor_comb : forall a b c d m0 m1 m2 m3,
  a < 256 -> b < 256 -> c < 256 -> m0 < 256 -> m1 < 256 -> m2 < 256 ->
  N.lor (comb a b c d) (comb m0 m1 m2 m3) = comb (N.lor a m0) (N.lor b m1) (N.lor c m2) (N.lor d m3).
Proof. intros. unfold comb. rewrite !lor_split by assumption. reflexivity. Qed.

(* ~x on a 32-bit word is 0xffffffff - x *)
Lemma lnot32_sub : forall x, x < 4294967296 -> lnot32 x = 4294967295 - x.
Proof.
  intros x Hx. unfold lnot32. change 4294967295 with (N.ones 32).
  assert (D : N.land x (N.lxor x (N.ones 32)) = 0).
  { apply N.bits_inj. intro n. rewrite N.land_spec, N.lxor_spec, N.bits_0.
    destruct (N.ltb_spec n 32) as [Hn|Hn].
    - rewrite N.ones_spec_low by exact Hn. destruct (N.testbit x n); reflexivity.
    - assert (Hb : N.testbit x n = false).
      { rewrite <- (N.mod_small x (2 ^ 32)) by exact Hx. apply N.mod_pow2_bits_high. exact Hn. }
      rewrite Hb. reflexivity. }
  apply N.add_nocarry_lxor in D.
  rewrite <- N.lxor_assoc, N.lxor_nilpotent, N.lxor_0_l in D.
  change (N.ones 32) with 4294967295 in *. lia.
Qed.

Lemma lnot32_comb : forall a b c d, a < 256 -> b < 256 -> c < 256 -> d < 256 ->
  lnot32 (comb a b c d) = comb (255 - a) (255 - b) (255 - c) (255 - d).
Proof. intros. rewrite lnot32_sub by (unfold comb; lia). unfold comb. lia. Qed.

(* ---------- byte-serial arithmetic ---------- *)

Definition bsum (b k c : N) : N := b + k + c.

(* the 32-bit adder with carry-in c0 as a ripple of four byte adders (no hypothesis on the bytes) *)
Lemma add32_comb_carry : forall b0 b1 b2 b3 k0 k1 k2 k3 c0,
  (comb b0 b1 b2 b3 + comb k0 k1 k2 k3 + c0) mod 4294967296 =
  comb (bsum b0 k0 c0 mod 256)
       (bsum b1 k1 (bsum b0 k0 c0 / 256) mod 256)
       (bsum b2 k2 (bsum b1 k1 (bsum b0 k0 c0 / 256) / 256) mod 256)
       (bsum b3 k3 (bsum b2 k2 (bsum b1 k1 (bsum b0 k0 c0 / 256) / 256) / 256) mod 256).
Proof.
  intros.
  pose proof (N.div_mod (bsum b0 k0 c0) 256 ltac:(lia)) as E0.
  pose proof (N.mod_lt (bsum b0 k0 c0) 256 ltac:(lia)) as L0.
  set (q0 := bsum b0 k0 c0 / 256) in *. set (r0 := bsum b0 k0 c0 mod 256) in *. clearbody q0 r0.
  pose proof (N.div_mod (bsum b1 k1 q0) 256 ltac:(lia)) as E1.
  pose proof (N.mod_lt (bsum b1 k1 q0) 256 ltac:(lia)) as L1.
  set (q1 := bsum b1 k1 q0 / 256) in *. set (r1 := bsum b1 k1 q0 mod 256) in *. clearbody q1 r1.
  pose proof (N.div_mod (bsum b2 k2 q1) 256 ltac:(lia)) as E2.
  pose proof (N.mod_lt (bsum b2 k2 q1) 256 ltac:(lia)) as L2.
  set (q2 := bsum b2 k2 q1 / 256) in *. set (r2 := bsum b2 k2 q1 mod 256) in *. clearbody q2 r2.
  pose proof (N.div_mod (bsum b3 k3 q2) 256 ltac:(lia)) as E3.
  pose proof (N.mod_lt (bsum b3 k3 q2) 256 ltac:(lia)) as L3.
  set (q3 := bsum b3 k3 q2 / 256) in *. set (r3 := bsum b3 k3 q2 mod 256) in *. clearbody q3 r3.
  unfold bsum in *.
  replace (comb b0 b1 b2 b3 + comb k0 k1 k2 k3 + c0)
    with (comb r0 r1 r2 r3 + q3 * 4294967296) by (unfold comb; lia).
  rewrite N.mod_add by lia. apply N.mod_small. unfold comb. lia.
Qed.

(* lane-wise subtraction / addition when no lane borrows / overflows *)
Lemma sub32_comb : forall k0 k1 k2 k3 t0 t1 t2 t3,
  t0 <= k0 -> t1 <= k1 -> t2 <= k2 -> t3 <= k3 -> k0 < 256 -> k1 < 256 -> k2 < 256 -> k3 < 256 ->
  sub32 (comb k0 k1 k2 k3) (comb t0 t1 t2 t3) = comb (k0 - t0) (k1 - t1) (k2 - t2) (k3 - t3).
Proof.
  intros. unfold sub32.
  rewrite (N.mod_small (comb t0 t1 t2 t3)) by (unfold comb; lia).
  replace (comb k0 k1 k2 k3 + 4294967296 - comb t0 t1 t2 t3)
    with (comb (k0 - t0) (k1 - t1) (k2 - t2) (k3 - t3) + 1 * 4294967296) by (unfold comb; lia).
  rewrite N.mod_add by lia. apply N.mod_small. unfold comb. lia.
Qed.

Lemma add32_comb : forall a0 a1 a2 a3 j0 j1 j2 j3,
  a0 + j0 < 256 -> a1 + j1 < 256 -> a2 + j2 < 256 -> a3 + j3 < 256 ->
  add32 (comb a0 a1 a2 a3) (comb j0 j1 j2 j3) = comb (a0 + j0) (a1 + j1) (a2 + j2) (a3 + j3).
Proof.
  intros. unfold add32.
  replace (comb a0 a1 a2 a3 + comb j0 j1 j2 j3) with (comb (a0 + j0) (a1 + j1) (a2 + j2) (a3 + j3))
    by (unfold comb; lia).
  apply N.mod_small. unfold comb. lia.
Qed.

Ltac bnd :=
  first [ assumption
        | apply N.mod_lt; lia
        | apply land_lt; bnd
        | apply lor_lt; bnd
        | lia ].

(* ---------- hasless(v, '0') ----------
   x - 0x30303030 = x + 0xcfcfcfd0 = x + 0xcfcfcfcf + 1 (mod 2^32): every lane adds 207 plus a carry-in,
   the carry-in of lane 0 is 1. A lane b >= 48 with carry-in 1 produces carry-out 1 and flag 0;
   the first lane b < 48 (carry-in still 1) produces flag 128 whatever the lanes above do. *)

Definition flagL (c b : N) : N := N.land (N.land (bsum b 207 c mod 256) (255 - b)) 128.
Definition carryL (c b : N) : N := bsum b 207 c / 256.

Lemma hasless_comb : forall b0 b1 b2 b3, b0 < 256 -> b1 < 256 -> b2 < 256 -> b3 < 256 ->
  hasless (comb b0 b1 b2 b3) 48 =
  comb (flagL 1 b0) (flagL (carryL 1 b0) b1) (flagL (carryL (carryL 1 b0) b1) b2)
       (flagL (carryL (carryL (carryL 1 b0) b1) b2) b3).
Proof.
  intros b0 b1 b2 b3 H0 H1 H2 H3. unfold hasless, sub32, ALL_01h, ALL_80h.
  replace (comb b0 b1 b2 b3 + 4294967296 - (16843009 * 48) mod 4294967296)
    with (comb b0 b1 b2 b3 + comb 207 207 207 207 + 1).
  2:{ change ((16843009 * 48) mod 4294967296) with 808464432. unfold comb. lia. }
  rewrite add32_comb_carry, lnot32_comb by assumption.
  change 2155905152 with (comb 128 128 128 128).
  rewrite !land_comb by bnd.
  unfold flagL, carryL. reflexivity.
Qed.

Definition stepL_b (b : N) : bool :=
  if b <? 48 then flagL 1 b =? 128 else (flagL 1 b =? 0) && (carryL 1 b =? 1).

Lemma stepL_sweep : forallb stepL_b bytes256 = true.
Proof. vm_compute. reflexivity. Qed.

Lemma stepL : forall b, b < 256 ->
  if b <? 48 then flagL 1 b = 128 else flagL 1 b = 0 /\ carryL 1 b = 1.
Proof.
  intros b Hb. pose proof (sweep256 _ stepL_sweep b Hb) as S. unfold stepL_b in S.
  destruct (b <? 48).
  - apply N.eqb_eq, S.
  - apply andb_true_iff in S. destruct S as [S1 S2]. split; apply N.eqb_eq; assumption.
Qed.

Lemma hasless_any : forall b0 b1 b2 b3, b0 < 256 -> b1 < 256 -> b2 < 256 -> b3 < 256 ->
  (hasless (load32 b0 b1 b2 b3) 48 =? 0) =
  negb ((b0 <? 48) || (b1 <? 48) || (b2 <? 48) || (b3 <? 48)).
Proof.
  intros b0 b1 b2 b3 H0 H1 H2 H3.
  rewrite load32_is_comb, hasless_comb, eqb_comb0 by assumption.
  pose proof (stepL b0 H0) as S0. destruct (b0 <? 48).
  { rewrite S0. reflexivity. }
  destruct S0 as [F0 C0]. rewrite F0, C0. clear F0 C0.
  pose proof (stepL b1 H1) as S1. destruct (b1 <? 48).
  { rewrite S1. reflexivity. }
  destruct S1 as [F1 C1]. rewrite F1, C1. clear F1 C1.
  pose proof (stepL b2 H2) as S2. destruct (b2 <? 48).
  { rewrite S2. reflexivity. }
  destruct S2 as [F2 C2]. rewrite F2, C2. clear F2 C2.
  pose proof (stepL b3 H3) as S3. destruct (b3 <? 48).
  { rewrite S3. reflexivity. }
  destruct S3 as [F3 C3]. rewrite F3. reflexivity.
Qed.

(* ---------- hasmore(v, 'f') ----------
   every lane adds 25 = 127 - 102 plus a carry-in, the carry-in of lane 0 is 0. A lane b <= 102 with
   carry-in 0 gives flag 0 and carry-out 0; the first lane b > 102 (carry-in still 0) gives flag 128
   (through the sum for 103..127, through | x for b >= 128). *)

Definition flagM (c b : N) : N := N.land (N.lor (bsum b 25 c mod 256) b) 128.
Definition carryM (c b : N) : N := bsum b 25 c / 256.

Lemma hasmore_comb : forall b0 b1 b2 b3, b0 < 256 -> b1 < 256 -> b2 < 256 -> b3 < 256 ->
  hasmore (comb b0 b1 b2 b3) 102 =
  comb (flagM 0 b0) (flagM (carryM 0 b0) b1) (flagM (carryM (carryM 0 b0) b1) b2)
       (flagM (carryM (carryM (carryM 0 b0) b1) b2) b3).
Proof.
  intros b0 b1 b2 b3 H0 H1 H2 H3. unfold hasmore, add32, ALL_01h, ALL_80h.
  replace (comb b0 b1 b2 b3 + 16843009 * (127 - 102))
    with (comb b0 b1 b2 b3 + comb 25 25 25 25 + 0) by (unfold comb; lia).
  rewrite add32_comb_carry.
  rewrite lor_comb by bnd.
  change 2155905152 with (comb 128 128 128 128).
  rewrite land_comb by bnd.
  unfold flagM, carryM. reflexivity.
Qed.

Definition stepM_b (b : N) : bool :=
  if 102 <? b then flagM 0 b =? 128 else (flagM 0 b =? 0) && (carryM 0 b =? 0).

Lemma stepM_sweep : forallb stepM_b bytes256 = true.
Proof. vm_compute. reflexivity. Qed.

Lemma stepM : forall b, b < 256 ->
  if 102 <? b then flagM 0 b = 128 else flagM 0 b = 0 /\ carryM 0 b = 0.
Proof.
  intros b Hb. pose proof (sweep256 _ stepM_sweep b Hb) as S. unfold stepM_b in S.
  destruct (102 <? b).
  - apply N.eqb_eq, S.
  - apply andb_true_iff in S. destruct S as [S1 S2]. split; apply N.eqb_eq; assumption.
Qed.

Lemma hasmore_any : forall b0 b1 b2 b3, b0 < 256 -> b1 < 256 -> b2 < 256 -> b3 < 256 ->
  (hasmore (load32 b0 b1 b2 b3) 102 =? 0) =
  negb ((102 <? b0) || (102 <? b1) || (102 <? b2) || (102 <? b3)).
Proof.
  intros b0 b1 b2 b3 H0 H1 H2 H3.
  rewrite load32_is_comb, hasmore_comb, eqb_comb0 by assumption.
  pose proof (stepM b0 H0) as S0. destruct (102 <? b0).
  { rewrite S0. reflexivity. }
  destruct S0 as [F0 C0]. rewrite F0, C0. clear F0 C0.
  pose proof (stepM b1 H1) as S1. destruct (102 <? b1).
  { rewrite S1. reflexivity. }
  destruct S1 as [F1 C1]. rewrite F1, C1. clear F1 C1.
  pose proof (stepM b2 H2) as S2. destruct (102 <? b2).
  { rewrite S2. reflexivity. }
  destruct S2 as [F2 C2]. rewrite F2, C2. clear F2 C2.
  pose proof (stepM b3 H3) as S3. destruct (102 <? b3).
  { rewrite S3. reflexivity. }
  destruct S3 as [F3 C3]. rewrite F3. reflexivity.
Qed.

(* ---------- hasbetween(v, m, n) ----------
   with t = b & 127 <= 127 in every lane, (127 + n) - t never borrows and t + (127 - m) never
   overflows (n <= 128), so the whole expression is lane-wise. *)

Definition flagB (m n b : N) : N :=
  N.land (N.land (N.land (127 + n - N.land b 127) (255 - b)) (N.land b 127 + (127 - m))) 128.

Definition btw (m n b : N) : bool := (m <? b) && (b <? n).

Lemma land127_sweep : forallb (fun b => N.land b 127 <=? 127) bytes256 = true.
Proof. vm_compute. reflexivity. Qed.

Lemma land127_le : forall b, b < 256 -> N.land b 127 <= 127.
Proof. intros b Hb. apply N.leb_le. apply (sweep256 _ land127_sweep b Hb). Qed.

Lemma hasbetween_comb : forall m n b0 b1 b2 b3, n <= 128 ->
  b0 < 256 -> b1 < 256 -> b2 < 256 -> b3 < 256 ->
  hasbetween (comb b0 b1 b2 b3) m n = comb (flagB m n b0) (flagB m n b1) (flagB m n b2) (flagB m n b3).
Proof.
  intros m n b0 b1 b2 b3 Hn H0 H1 H2 H3. unfold hasbetween, ALL_01h, ALL_7fh, ALL_80h.
  change 2139062143 with (comb 127 127 127 127). change 2155905152 with (comb 128 128 128 128).
  rewrite land_comb by bnd.
  pose proof (land127_le b0 H0) as T0. pose proof (land127_le b1 H1) as T1.
  pose proof (land127_le b2 H2) as T2. pose proof (land127_le b3 H3) as T3.
  replace (16843009 * (127 + n)) with (comb (127 + n) (127 + n) (127 + n) (127 + n))
    by (unfold comb; lia).
  replace (16843009 * (127 - m)) with (comb (127 - m) (127 - m) (127 - m) (127 - m))
    by (unfold comb; lia).
  rewrite sub32_comb, add32_comb, lnot32_comb by lia.
  rewrite !land_comb by bnd.
  unfold flagB. reflexivity.
Qed.

Lemma hasbetween_any_gen : forall m n, n <= 128 ->
  (forall b, b < 256 -> (flagB m n b =? 0) = negb (btw m n b)) ->
  forall b0 b1 b2 b3, b0 < 256 -> b1 < 256 -> b2 < 256 -> b3 < 256 ->
  (hasbetween (load32 b0 b1 b2 b3) m n =? 0) =
  negb (btw m n b0 || btw m n b1 || btw m n b2 || btw m n b3).
Proof.
  intros m n Hn HB b0 b1 b2 b3 H0 H1 H2 H3.
  rewrite load32_is_comb, hasbetween_comb, eqb_comb0 by assumption.
  rewrite !HB by assumption.
  destruct (btw m n b0), (btw m n b1), (btw m n b2), (btw m n b3); reflexivity.
Qed.

Lemma flagB_57_65_sweep :
  forallb (fun b => Bool.eqb (flagB 57 65 b =? 0) (negb (btw 57 65 b))) bytes256 = true.
Proof. vm_compute. reflexivity. Qed.

Lemma flagB_70_97_sweep :
  forallb (fun b => Bool.eqb (flagB 70 97 b =? 0) (negb (btw 70 97 b))) bytes256 = true.
Proof. vm_compute. reflexivity. Qed.

(* any byte strictly between '9' and 'A' *)
Lemma hasbetween_any_57_65 : forall b0 b1 b2 b3, b0 < 256 -> b1 < 256 -> b2 < 256 -> b3 < 256 ->
  (hasbetween (load32 b0 b1 b2 b3) 57 65 =? 0) =
  negb (btw 57 65 b0 || btw 57 65 b1 || btw 57 65 b2 || btw 57 65 b3).
Proof.
  apply hasbetween_any_gen; [lia|].
  intros b Hb. apply eqb_prop. apply (sweep256 _ flagB_57_65_sweep b Hb).
Qed.

(* any byte strictly between 'F' and 'a' *)
Lemma hasbetween_any_70_97 : forall b0 b1 b2 b3, b0 < 256 -> b1 < 256 -> b2 < 256 -> b3 < 256 ->
  (hasbetween (load32 b0 b1 b2 b3) 70 97 =? 0) =
  negb (btw 70 97 b0 || btw 70 97 b1 || btw 70 97 b2 || btw 70 97 b3).
Proof.
  apply hasbetween_any_gen; [lia|].
  intros b Hb. apply eqb_prop. apply (sweep256 _ flagB_70_97_sweep b Hb).
Qed.

(* ---------- the four tests together = ishex on every byte ---------- *)

Lemma ishex_char_sweep :
  forallb (fun b => Bool.eqb (ishex b)
     (negb (b <? 48) && negb (102 <? b) && negb (btw 57 65 b) && negb (btw 70 97 b))) bytes256 = true.
Proof. vm_compute. reflexivity. Qed.

Lemma ishex_char : forall b, b < 256 ->
  ishex b = negb (b <? 48) && negb (102 <? b) && negb (btw 57 65 b) && negb (btw 70 97 b).
Proof. intros b Hb. apply eqb_prop. apply (sweep256 _ ishex_char_sweep b Hb). Qed.

Lemma swar_bool : forall l0 l1 l2 l3 m0 m1 m2 m3 x0 x1 x2 x3 y0 y1 y2 y3 : bool,
  negb (negb (negb (l0 || l1 || l2 || l3)) || negb (negb (m0 || m1 || m2 || m3)) ||
        negb (negb (x0 || x1 || x2 || x3)) || negb (negb (y0 || y1 || y2 || y3))) =
  (negb l0 && negb m0 && negb x0 && negb y0) && (negb l1 && negb m1 && negb x1 && negb y1) &&
  (negb l2 && negb m2 && negb x2 && negb y2) && (negb l3 && negb m3 && negb x3 && negb y3).
Proof.
  intros.
  destruct l0, m0, x0, y0; cbn [negb orb andb]; rewrite ?orb_true_r; cbn [negb orb andb];
    try reflexivity.
  destruct l1, m1, x1, y1; cbn [negb orb andb]; rewrite ?orb_true_r; cbn [negb orb andb];
    try reflexivity.
  destruct l2, m2, x2, y2; cbn [negb orb andb]; rewrite ?orb_true_r; cbn [negb orb andb];
    try reflexivity.
  destruct l3, m3, x3, y3; reflexivity.
Qed.

Theorem unhex16_is_swar_bytes : forall b0 b1 b2 b3, b0 < 256 -> b1 < 256 -> b2 < 256 -> b3 < 256 ->
  negb (negb (hasless (load32 b0 b1 b2 b3) 48 =? 0) || negb (hasmore (load32 b0 b1 b2 b3) 102 =? 0) ||
        negb (hasbetween (load32 b0 b1 b2 b3) 57 65 =? 0) ||
        negb (hasbetween (load32 b0 b1 b2 b3) 70 97 =? 0)) =
  ishex b0 && ishex b1 && ishex b2 && ishex b3.
Proof.
  intros b0 b1 b2 b3 H0 H1 H2 H3.
  rewrite hasless_any, hasmore_any, hasbetween_any_57_65, hasbetween_any_70_97 by assumption.
  rewrite (ishex_char b0 H0), (ishex_char b1 H1), (ishex_char b2 H2), (ishex_char b3 H3).
  apply swar_bool.
Qed.

(* MAIN THEOREM: on the four bytes that the C code loads (missing positions read as 0, as in the
   model Unquote.unhex16_is), the literal SWAR test is exactly the byte-wise abstraction. *)
Theorem unhex16_is_swar_spec : forall s,
  (nth 0 s 0 < 256 -> nth 1 s 0 < 256 -> nth 2 s 0 < 256 -> nth 3 s 0 < 256 ->
   unhex16_is_swar s = unhex16_is s)%N.
Proof.
  intros s H0 H1 H2 H3. unfold unhex16_is_swar, unhex16_is. cbv zeta.
  apply unhex16_is_swar_bytes; assumption.
Qed.

(* the hypotheses are satisfiable, and hold for every list of bytes *)
Example unhex16_is_swar_spec_ex :
  unhex16_is_swar [49; 97; 70; 57; 200] = unhex16_is [49; 97; 70; 57; 200].
Proof. apply unhex16_is_swar_spec; vm_compute; reflexivity. Qed.

Corollary unhex16_is_swar_bytes_list : forall s, bytes s -> unhex16_is_swar s = unhex16_is s.
Proof. intros s Hs. apply unhex16_is_swar_spec; apply bytes_nth; exact Hs. Qed.

(* ---------- the 64-bit intermediates of the C code ---------- *)

Definition ALL_01h_64 : N := 72340172838076673.      (* ~0ul / 255 *)
Definition ALL_7fh_64 : N := ALL_01h_64 * 127.
Definition ALL_80h_64 : N := ALL_01h_64 * 128.
Definition add64 (a b : N) : N := (a + b) mod 18446744073709551616.
Definition sub64 (a b : N) : N := (a + 18446744073709551616 - b mod 18446744073709551616) mod 18446744073709551616.
Definition trunc32 (a : N) : N := a mod 4294967296.

Definition hasless64 (x n : N) : N :=
  trunc32 (N.land (N.land (sub64 x (ALL_01h_64 * n)) (lnot32 x)) ALL_80h_64).
Definition hasmore64 (x n : N) : N :=
  trunc32 (N.land (N.lor (add64 x (ALL_01h_64 * (127 - n))) x) ALL_80h_64).
Definition hasbetween64 (x m n : N) : N :=
  trunc32 (N.land (N.land (N.land (sub64 (ALL_01h_64 * (127 + n)) (N.land x ALL_7fh_64)) (lnot32 x))
                          (add64 (N.land x ALL_7fh_64) (ALL_01h_64 * (127 - m)))) ALL_80h_64).

Lemma trunc32_land : forall a b, trunc32 (N.land a b) = N.land (trunc32 a) (trunc32 b).
Proof.
  intros a b. unfold trunc32. change 4294967296 with (2 ^ 32). rewrite <- !N.land_ones.
  apply N.bits_inj. intro n. rewrite !N.land_spec.
  destruct (N.testbit a n), (N.testbit b n), (N.testbit (N.ones 32) n); reflexivity.
Qed.

Lemma trunc32_lor : forall a b, trunc32 (N.lor a b) = N.lor (trunc32 a) (trunc32 b).
Proof.
  intros a b. unfold trunc32. change 4294967296 with (2 ^ 32). rewrite <- !N.land_ones.
  apply N.land_lor_distr_l.
Qed.

Lemma trunc32_small : forall a, a < 4294967296 -> trunc32 a = a.
Proof. intros a H. apply N.mod_small, H. Qed.

Lemma trunc32_mod64 : forall a, trunc32 (a mod 18446744073709551616) = trunc32 a.
Proof.
  intros a. unfold trunc32. change 18446744073709551616 with (4294967296 * 4294967296).
  rewrite N.mod_mul_r by lia. rewrite (N.mul_comm 4294967296 ((a / 4294967296) mod 4294967296)).
  rewrite N.mod_add by lia. apply N.mod_mod. lia.
Qed.

Lemma trunc32_add_mul : forall a q, trunc32 (a + q * 4294967296) = trunc32 a.
Proof. intros. unfold trunc32. apply N.mod_add. lia. Qed.

Lemma land_lt32 : forall a m, a < 4294967296 -> N.land a m < 4294967296.
Proof.
  intros a m Ha.
  replace a with (N.land a (N.ones 32)) by (rewrite N.land_ones; apply N.mod_small; exact Ha).
  rewrite <- N.land_assoc, (N.land_comm (N.ones 32) m), N.land_assoc, N.land_ones.
  change (2 ^ 32) with 4294967296. apply N.mod_lt. lia.
Qed.

Lemma lnot32_lt : forall x, x < 4294967296 -> lnot32 x < 4294967296.
Proof. intros x H. rewrite lnot32_sub by exact H. lia. Qed.

Lemma land_7fh_64 : forall x, x < 4294967296 -> N.land x ALL_7fh_64 = N.land x ALL_7fh.
Proof.
  intros x H.
  replace x with (N.land x (N.ones 32)) by (rewrite N.land_ones; apply N.mod_small; exact H).
  rewrite <- !N.land_assoc. f_equal.
Qed.

Lemma hasless64_low : forall x n, x < 4294967296 -> n < 256 -> hasless64 x n = hasless x n.
Proof.
  intros x n Hx Hn. unfold hasless64, hasless. rewrite !trunc32_land.
  rewrite (trunc32_small (lnot32 x)) by (apply lnot32_lt; exact Hx).
  change (trunc32 ALL_80h_64) with ALL_80h. f_equal. f_equal.
  unfold sub64, sub32. rewrite trunc32_mod64.
  rewrite (N.mod_small (ALL_01h_64 * n)) by (unfold ALL_01h_64; lia).
  rewrite (N.mod_small (ALL_01h * n)) by (unfold ALL_01h; lia).
  replace (x + 18446744073709551616 - ALL_01h_64 * n)
    with ((x + 4294967296 - ALL_01h * n) + (4294967295 - ALL_01h * n) * 4294967296)
    by (unfold ALL_01h_64, ALL_01h; lia).
  rewrite trunc32_add_mul. reflexivity.
Qed.

Lemma hasmore64_low : forall x n, x < 4294967296 -> hasmore64 x n = hasmore x n.
Proof.
  intros x n Hx. unfold hasmore64, hasmore. rewrite trunc32_land, trunc32_lor.
  rewrite (trunc32_small x) by exact Hx.
  change (trunc32 ALL_80h_64) with ALL_80h. f_equal. f_equal.
  unfold add64, add32. rewrite trunc32_mod64.
  replace (x + ALL_01h_64 * (127 - n))
    with ((x + ALL_01h * (127 - n)) + (ALL_01h * (127 - n)) * 4294967296)
    by (unfold ALL_01h_64, ALL_01h; lia).
  rewrite trunc32_add_mul. reflexivity.
Qed.

Lemma hasbetween64_low : forall x m n, x < 4294967296 -> hasbetween64 x m n = hasbetween x m n.
Proof.
  intros x m n Hx. unfold hasbetween64, hasbetween. rewrite !trunc32_land.
  rewrite (trunc32_small (lnot32 x)) by (apply lnot32_lt; exact Hx).
  change (trunc32 ALL_80h_64) with ALL_80h. rewrite (land_7fh_64 x Hx).
  pose proof (land_lt32 x ALL_7fh Hx) as Ht. set (t := N.land x ALL_7fh) in *. clearbody t.
  f_equal. f_equal; [f_equal|].
  - unfold sub64, sub32. rewrite trunc32_mod64.
    rewrite !(N.mod_small t) by lia.
    replace (ALL_01h_64 * (127 + n) + 18446744073709551616 - t)
      with ((ALL_01h * (127 + n) + 4294967296 - t) + (ALL_01h * (127 + n) + 4294967295) * 4294967296)
      by (unfold ALL_01h_64, ALL_01h; lia).
    rewrite trunc32_add_mul. reflexivity.
  - unfold add64, add32. rewrite trunc32_mod64.
    replace (t + ALL_01h_64 * (127 - m))
      with ((t + ALL_01h * (127 - m)) + (ALL_01h * (127 - m)) * 4294967296)
      by (unfold ALL_01h_64, ALL_01h; lia).
    rewrite trunc32_add_mul. reflexivity.
Qed.

Lemma load32_lt : forall b0 b1 b2 b3, b0 < 256 -> b1 < 256 -> b2 < 256 -> b3 < 256 ->
  load32 b0 b1 b2 b3 < 4294967296.
Proof. intros. unfold load32. lia. Qed.

(* unhex16_is with the 64-bit intermediates, as compiled *)
Definition unhex16_is_swar64 (s : list N) : bool :=
  let v := load32 (nth 0 s 0) (nth 1 s 0) (nth 2 s 0) (nth 3 s 0) in
  negb (negb (hasless64 v 48 =? 0) || negb (hasmore64 v 102 =? 0) ||
        negb (hasbetween64 v 57 65 =? 0) || negb (hasbetween64 v 70 97 =? 0)).

Theorem unhex16_is_swar64_spec : forall s,
  (nth 0 s 0 < 256 -> nth 1 s 0 < 256 -> nth 2 s 0 < 256 -> nth 3 s 0 < 256 ->
   unhex16_is_swar64 s = unhex16_is s)%N.
Proof.
  intros s H0 H1 H2 H3. rewrite <- (unhex16_is_swar_spec s H0 H1 H2 H3).
  unfold unhex16_is_swar64, unhex16_is_swar. cbv zeta.
  pose proof (load32_lt _ _ _ _ H0 H1 H2 H3) as Hv.
  rewrite hasless64_low, hasmore64_low, !hasbetween64_low by (exact Hv || lia). reflexivity.
Qed.

Example swar64_ex_ok : unhex16_is_swar64 [48; 57; 97; 102] = true. Proof. vm_compute. reflexivity. Qed.
Example swar64_ex_71 : unhex16_is_swar64 [48; 48; 48; 71] = false. Proof. vm_compute. reflexivity. Qed.
