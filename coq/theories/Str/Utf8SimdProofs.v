(* C20 - proofs about the lane-wise model of validate_utf8_avx2 (Str/Utf8Simd.v) against the reference
   (Str/RefUtf8.v). All theorems are unbounded in the input length; the only finite sweeps are over the
   256 byte values (sweep256) and the 256*256 pairs of byte values (sweep2), both complete.
   1.  special_0 / special_128 / lane_err_0    one lane of the three-table lookup, by the complete pair sweep:
         the lane is error free iff (a 3/4-byte lead two or three bytes back: prev1 and the byte are both
         continuations) or else (prev1 < C0 and the byte is not a continuation) or (prev1 is a lead byte and
         the pair is a legal first/second byte pair of Table 3-7; C0, C1, F5..FF never are)
   2.  lanes_ok / adv / run: the lookup over a byte stream (state = the three previous bytes);
       run_wf_go: started with nothing pending, [all lanes error free and nothing pending at the end]
       is exactly well-formedness (induction over the sequences, cases by lead byte)
   3.  lanes_ok_ascii, run_pad, lanes_ok_nopend (= stale_prev_harmless): ASCII runs, zero padding, and the
       stale prev_input_block left behind by the ASCII shortcut of check64 / check128
   4.  check_utf8_bytes_lanes (the 32-lane vector check is the lane stream), is_ascii / is_incomplete,
       Inv (checker state vs consumed prefix), inv_ascii, inv_utf, inv_check64, inv_check128
   5.  loop128_inv, loop64_inv, check_remain_run, avx2_run: the driver with all its shortcuts computes run
   6.  lookup_exact, lookup_sound, lookup_sound_padded, avx2_exact, avx2_sound, avx2_complete,
       validate_utf8_fast_avx2_eq (the AVX2 build of validate_utf8_fast returns what the scalar routine returns) *)
From Coq Require Import NArith ZArith Bool List Lia.
From SV.Str Require Import Common Utf8 RefUtf8 TablesOk Utf8Proofs Utf8Simd.
Import ListNotations.
Open Scope N_scope.

(* ---------- 1. one lane ---------- *)
Definition second_ok (b0 b1 : N) : bool :=
  if inr8 194 223 b0 then cont b1
  else if inr8 224 239 b0 then
    (if b0 =? 224 then inr8 160 191 b1 else if b0 =? 237 then inr8 128 159 b1 else cont b1)
  else if inr8 240 244 b0 then
    (if b0 =? 240 then inr8 144 191 b1 else if b0 =? 244 then inr8 128 143 b1 else cont b1)
  else false.

Definition special_ok_b (a c : N) : bool :=
  Bool.eqb (special a c =? 0) (if a <? 192 then negb (cont c) else second_ok a c) &&
  Bool.eqb (special a c =? 128) (cont a && cont c).

Lemma special_sweep : forallb (fun a => forallb (special_ok_b a) bytes256) bytes256 = true.
Proof. vm_compute. reflexivity. Qed.

Lemma special_0 : forall a c, a < 256 -> c < 256 ->
  (special a c =? 0) = (if a <? 192 then negb (cont c) else second_ok a c).
Proof.
  intros a c Ha Hc. pose proof (sweep2 special_ok_b special_sweep a c Ha Hc) as H.
  unfold special_ok_b in H. apply andb_true_iff in H. destruct H as [H _]. apply eqb_prop in H. exact H.
Qed.

Lemma special_128 : forall a c, a < 256 -> c < 256 -> (special a c =? 128) = cont a && cont c.
Proof.
  intros a c Ha Hc. pose proof (sweep2 special_ok_b special_sweep a c Ha Hc) as H.
  unfold special_ok_b in H. apply andb_true_iff in H. destruct H as [_ H]. apply eqb_prop in H. exact H.
Qed.

Definition m23 (p2 p3 : N) : bool := (224 <=? p2) || (240 <=? p3).

Lemma must23_spec : forall p2 p3, must23 p2 p3 = if m23 p2 p3 then 255 else 0.
Proof.
  intros p2 p3. unfold must23, m23.
  destruct (N.leb_spec 224 p2) as [H2|H2]; destruct (N.leb_spec 240 p3) as [H3|H3]; cbn [orb];
  destruct (N.ltb_spec 0 (N.lor (p2 - 223) (p3 - 239))) as [H|H]; try reflexivity; exfalso.
  - assert (E : N.lor (p2 - 223) (p3 - 239) = 0) by lia. apply N.lor_eq_0_iff in E. lia.
  - assert (E : N.lor (p2 - 223) (p3 - 239) = 0) by lia. apply N.lor_eq_0_iff in E. lia.
  - assert (E : N.lor (p2 - 223) (p3 - 239) = 0) by lia. apply N.lor_eq_0_iff in E. lia.
  - assert (E1 : p2 - 223 = 0) by lia. assert (E2 : p3 - 239 = 0) by lia. rewrite E1, E2 in H.
    change (N.lor 0 0) with 0 in H. lia.
Qed.

(* the lane is error free iff ... *)
Definition lane_spec (p3 p2 p1 c : N) : bool :=
  if m23 p2 p3 then cont p1 && cont c
  else if p1 <? 192 then negb (cont c) else second_ok p1 c.

Lemma lane_err_0 : forall p3 p2 p1 c, p1 < 256 -> c < 256 ->
  (lane_err p3 p2 p1 c =? 0) = lane_spec p3 p2 p1 c.
Proof.
  intros p3 p2 p1 c H1 Hc. unfold lane_err, lane_spec. rewrite must23_spec.
  destruct (m23 p2 p3).
  - change (N.land 255 128) with 128. rewrite <- (special_128 p1 c H1 Hc).
    destruct (N.eqb_spec (special p1 c) 128) as [E|E].
    + rewrite E. reflexivity.
    + apply N.eqb_neq. intro X. apply N.lxor_eq in X. congruence.
  - change (N.land 0 128) with 0. rewrite N.lxor_0_l. apply special_0; assumption.
Qed.

(* ---------- 2. the lookup on a byte stream ---------- *)
Ltac bsolve :=
  repeat rewrite ?andb_true_iff, ?orb_true_iff, ?andb_false_iff, ?orb_false_iff, ?negb_true_iff, ?negb_false_iff,
    ?N.ltb_lt, ?N.leb_le, ?N.eqb_eq, ?N.ltb_ge, ?N.leb_gt, ?N.eqb_neq in *; lia.

Definition P3 := (N * N * N)%type.
Definition z3 : P3 := (0, 0, 0).
Definition push (p : P3) (c : N) : P3 := let '(p3, p2, p1) := p in (p2, p1, c).
Definition lane (p : P3) (c : N) : N := let '(p3, p2, p1) := p in lane_err p3 p2 p1 c.
Definition nopend (p : P3) : bool := let '(p3, p2, p1) := p in (p1 <? 192) && (p2 <? 224) && (p3 <? 240).
Definition bytes3 (p : P3) : Prop := let '(p3, p2, p1) := p in p3 < 256 /\ p2 < 256 /\ p1 < 256.

Fixpoint lanes (p : P3) (l : list N) : list N :=
  match l with [] => [] | c :: r => lane p c :: lanes (push p c) r end.
Fixpoint lanes_ok (p : P3) (l : list N) : bool :=
  match l with [] => true | c :: r => (lane p c =? 0) && lanes_ok (push p c) r end.
Fixpoint adv (p : P3) (l : list N) : P3 :=
  match l with [] => p | c :: r => adv (push p c) r end.
Definition run (p : P3) (l : list N) : bool := lanes_ok p l && nopend (adv p l).

Lemma run_nil : forall p, run p [] = nopend p.
Proof. reflexivity. Qed.
Lemma run_cons : forall p c r, run p (c :: r) = (lane p c =? 0) && run (push p c) r.
Proof. intros. unfold run. cbn [lanes_ok adv]. rewrite andb_assoc. reflexivity. Qed.

Lemma lanes_ok_app : forall l1 l2 p, lanes_ok p (l1 ++ l2) = lanes_ok p l1 && lanes_ok (adv p l1) l2.
Proof.
  induction l1; intros l2 p; cbn [app lanes_ok adv]; [reflexivity|].
  rewrite IHl1, andb_assoc. reflexivity.
Qed.
Lemma adv_app : forall l1 l2 p, adv p (l1 ++ l2) = adv (adv p l1) l2.
Proof. induction l1; intros l2 p; cbn [app adv]; [reflexivity|apply IHl1]. Qed.
Lemma run_app : forall l1 l2 p, run p (l1 ++ l2) = lanes_ok p l1 && run (adv p l1) l2.
Proof. intros. unfold run. rewrite lanes_ok_app, adv_app, andb_assoc. reflexivity. Qed.

Lemma nopend_bytes3 : forall p, nopend p = true -> bytes3 p.
Proof. intros [[p3 p2] p1] H. unfold nopend, bytes3 in *. bsolve. Qed.

Lemma push_bytes3 : forall p c, bytes3 p -> c < 256 -> bytes3 (push p c).
Proof. intros [[p3 p2] p1] c H Hc. unfold push, bytes3 in *. lia. Qed.

Lemma adv_bytes3 : forall l p, bytes3 p -> bytes l -> bytes3 (adv p l).
Proof.
  induction l; intros p Hp Hl; cbn [adv]; [exact Hp|].
  inversion Hl; subst. apply IHl; [apply push_bytes3|]; assumption.
Qed.

Lemma lane_0 : forall p3 p2 p1 c, p1 < 256 -> c < 256 ->
  (lane (p3, p2, p1) c =? 0) = lane_spec p3 p2 p1 c.
Proof. intros. unfold lane. apply lane_err_0; assumption. Qed.

(* from a state with nothing pending a lane is error free iff its byte is not a continuation byte *)
Lemma lane_nopend : forall p c, nopend p = true -> c < 256 -> (lane p c =? 0) = negb (cont c).
Proof.
  intros [[p3 p2] p1] c Hp Hc. rewrite lane_0 by (unfold nopend in Hp; bsolve || assumption).
  unfold lane_spec, m23. unfold nopend in Hp.
  replace ((224 <=? p2) || (240 <=? p3)) with false by (symmetry; bsolve).
  replace (p1 <? 192) with true by (symmetry; bsolve). reflexivity.
Qed.

Lemma second_ok_cont : forall a c, second_ok a c = true -> cont c = true.
Proof.
  intros a c. unfold second_ok, cont, inr8.
  destruct (_ && _); [tauto|]. destruct (_ && _).
  - destruct (a =? 224); [bsolve|]. destruct (a =? 237); [bsolve|tauto].
  - destruct (_ && _); [|discriminate].
    destruct (a =? 240); [bsolve|]. destruct (a =? 244); [bsolve|tauto].
Qed.

(* an ASCII byte: the lane is error free iff nothing was pending *)
Lemma lane_ascii : forall p a, bytes3 p -> a < 128 -> (lane p a =? 0) = nopend p.
Proof.
  intros p a Hp Ha. assert (Ec : cont a = false) by (unfold cont, inr8; bsolve).
  destruct (nopend p) eqn:E.
  - rewrite lane_nopend by (assumption || lia). rewrite Ec. reflexivity.
  - destruct p as [[p3 p2] p1]. unfold bytes3 in Hp. rewrite lane_0 by lia.
    unfold lane_spec. destruct (m23 p2 p3) eqn:Em; [rewrite Ec; apply andb_false_r|].
    unfold nopend in E. unfold m23 in Em.
    replace (p1 <? 192) with false by (symmetry; bsolve).
    destruct (second_ok p1 a) eqn:Es; [|reflexivity].
    apply second_ok_cont in Es. congruence.
Qed.

(* ---------- 3. ASCII runs, zero padding, stale previous bytes ---------- *)
Definition all_ascii (l : list N) : bool := forallb (fun b => b <? 128) l.

Lemma push_ascii_nopend : forall p a, nopend p = true -> a < 128 -> nopend (push p a) = true.
Proof. intros [[p3 p2] p1] a H Ha. unfold nopend, push in *. bsolve. Qed.

(* ASCII bytes: error free iff nothing was pending before them; nothing is pending after them *)
Lemma lanes_ok_ascii : forall l p, bytes3 p -> all_ascii l = true -> l <> [] ->
  lanes_ok p l = nopend p /\ (nopend p = true -> nopend (adv p l) = true).
Proof.
  induction l as [|a l IH]; intros p Hp Ha Hne; [contradiction|].
  cbn [all_ascii forallb] in Ha. apply andb_true_iff in Ha. destruct Ha as [Ha Hl].
  apply N.ltb_lt in Ha. cbn [lanes_ok adv]. rewrite (lane_ascii p a Hp Ha).
  destruct (nopend p) eqn:E; [|split; [reflexivity|discriminate]].
  pose proof (push_ascii_nopend p a E Ha) as E'.
  destruct l as [|a' l'].
  - cbn [lanes_ok adv]. split; [reflexivity|intros _; exact E'].
  - destruct (IH (push p a)) as [I1 I2];
      [apply push_bytes3; [exact Hp|lia]|exact Hl|discriminate|].
    rewrite I1, E'. split; [reflexivity|intros _; apply I2; exact E'].
Qed.

Lemma all_ascii_repeat0 : forall k, all_ascii (repeat 0 k) = true.
Proof. induction k; cbn [repeat all_ascii forallb]; [reflexivity|]. exact IHk. Qed.

(* zero padding at the end amounts to the end-of-input test *)
Lemma run_zeros : forall k p, bytes3 p -> run p (repeat 0 k) = nopend p.
Proof.
  intros k p Hp. destruct k; [reflexivity|].
  destruct (lanes_ok_ascii (repeat 0 (S k)) p Hp (all_ascii_repeat0 (S k))) as [I1 I2]; [discriminate|].
  unfold run. rewrite I1. destruct (nopend p); [|reflexivity]. rewrite I2; reflexivity.
Qed.

Lemma run_pad : forall k l p, bytes3 p -> bytes l -> run p (l ++ repeat 0 k) = run p l.
Proof.
  intros k l p Hp Hl. rewrite run_app, run_zeros by (apply adv_bytes3; assumption). reflexivity.
Qed.

(* the first three lanes see the previous bytes only through [nothing is pending] *)
Lemma lanes_ok_nopend : forall l p q, nopend p = true -> nopend q = true -> bytes l ->
  lanes_ok p l = lanes_ok q l.
Proof.
  intros l [[p3 p2] p1] [[q3 q2] q1] Hp Hq Hl.
  destruct l as [|c0 l]; [reflexivity|]. inversion Hl as [|? ? H0 Hl0]; subst.
  cbn [lanes_ok]. rewrite !lane_nopend by assumption. f_equal.
  unfold nopend in Hp, Hq. cbn [push].
  destruct l as [|c1 l]; [reflexivity|]. inversion Hl0 as [|? ? H1 Hl1]; subst.
  cbn [lanes_ok push]. rewrite !lane_0 by assumption. f_equal.
  { unfold lane_spec, m23.
    replace ((224 <=? p1) || (240 <=? p2)) with false by (symmetry; bsolve).
    replace ((224 <=? q1) || (240 <=? q2)) with false by (symmetry; bsolve). reflexivity. }
  destruct l as [|c2 l]; [reflexivity|]. inversion Hl1 as [|? ? H2 Hl2]; subst.
  cbn [lanes_ok push]. rewrite !lane_0 by assumption. f_equal.
  unfold lane_spec, m23.
  replace (240 <=? p1) with false by (symmetry; bsolve).
  replace (240 <=? q1) with false by (symmetry; bsolve). reflexivity.
Qed.

(* ---------- 2b. the stream lookup decides well-formedness ---------- *)
(* seq_len by lead byte class, in terms of second_ok *)
Lemma sl_bad : forall b0 r, 128 <= b0 <= 193 \/ 245 <= b0 -> seq_len (b0 :: r) = 0%nat.
Proof.
  intros b0 r H. unfold seq_len, inr8.
  replace (b0 <=? 127) with false by (symmetry; bsolve).
  replace ((194 <=? b0) && (b0 <=? 223)) with false by (symmetry; bsolve).
  replace ((224 <=? b0) && (b0 <=? 239)) with false by (symmetry; bsolve).
  replace ((240 <=? b0) && (b0 <=? 244)) with false by (symmetry; bsolve). reflexivity.
Qed.

Lemma second_ok_bad : forall b0 b1, b0 <= 193 \/ 245 <= b0 -> second_ok b0 b1 = false.
Proof.
  intros b0 b1 H. unfold second_ok, inr8.
  replace ((194 <=? b0) && (b0 <=? 223)) with false by (symmetry; bsolve).
  replace ((224 <=? b0) && (b0 <=? 239)) with false by (symmetry; bsolve).
  replace ((240 <=? b0) && (b0 <=? 244)) with false by (symmetry; bsolve). reflexivity.
Qed.

Lemma sl2 : forall b0 r, 194 <= b0 <= 223 ->
  seq_len (b0 :: r) = match r with b1 :: _ => if second_ok b0 b1 then 2%nat else 0%nat | [] => 0%nat end.
Proof.
  intros b0 r H. unfold seq_len, second_ok, inr8.
  replace (b0 <=? 127) with false by (symmetry; bsolve).
  replace ((194 <=? b0) && (b0 <=? 223)) with true by (symmetry; bsolve). reflexivity.
Qed.

Lemma sl3 : forall b0 r, 224 <= b0 <= 239 ->
  seq_len (b0 :: r) =
  match r with b1 :: b2 :: _ => if second_ok b0 b1 && cont b2 then 3%nat else 0%nat | _ => 0%nat end.
Proof.
  intros b0 r H. unfold seq_len, second_ok, inr8.
  replace (b0 <=? 127) with false by (symmetry; bsolve).
  replace ((194 <=? b0) && (b0 <=? 223)) with false by (symmetry; bsolve).
  replace ((224 <=? b0) && (b0 <=? 239)) with true by (symmetry; bsolve). reflexivity.
Qed.

Lemma sl4 : forall b0 r, 240 <= b0 <= 244 ->
  seq_len (b0 :: r) =
  match r with
  | b1 :: b2 :: b3 :: _ => if second_ok b0 b1 && cont b2 && cont b3 then 4%nat else 0%nat
  | _ => 0%nat
  end.
Proof.
  intros b0 r H. unfold seq_len, second_ok, inr8.
  replace (b0 <=? 127) with false by (symmetry; bsolve).
  replace ((194 <=? b0) && (b0 <=? 223)) with false by (symmetry; bsolve).
  replace ((224 <=? b0) && (b0 <=? 239)) with false by (symmetry; bsolve).
  replace ((240 <=? b0) && (b0 <=? 244)) with true by (symmetry; bsolve). reflexivity.
Qed.

Lemma cont_lt : forall b, cont b = true -> 128 <= b <= 191.
Proof. intros b H. unfold cont, inr8 in H. bsolve. Qed.

(* lane after a lead byte when the two bytes before it do not demand a continuation *)
Lemma lane_lead : forall p3 p2 b0 b1, p2 < 224 -> p3 < 240 -> 192 <= b0 < 256 -> b1 < 256 ->
  (lane (p3, p2, b0) b1 =? 0) = second_ok b0 b1.
Proof.
  intros p3 p2 b0 b1 H2 H3 H0 H1. rewrite lane_0 by lia. unfold lane_spec, m23.
  replace ((224 <=? p2) || (240 <=? p3)) with false by (symmetry; bsolve).
  replace (b0 <? 192) with false by (symmetry; bsolve). reflexivity.
Qed.

(* lane at which the second or third byte before is a 3/4-byte lead *)
Lemma lane_must : forall p3 p2 p1 c, 224 <= p2 \/ 240 <= p3 -> p1 < 256 -> c < 256 ->
  (lane (p3, p2, p1) c =? 0) = cont p1 && cont c.
Proof.
  intros p3 p2 p1 c H H1 Hc. rewrite lane_0 by lia. unfold lane_spec, m23.
  replace ((224 <=? p2) || (240 <=? p3)) with true by (symmetry; bsolve). reflexivity.
Qed.

(* the lookup over a whole stream, started with nothing pending, decides well-formedness *)
Lemma run_wf_go : forall n s p, (length s <= n)%nat -> bytes s -> nopend p = true ->
  run p s = wf_go n s.
Proof.
  induction n as [|n IH]; intros s p Hl Hb Hp.
  { destruct s; [rewrite run_nil; exact Hp|cbn [length] in Hl; lia]. }
  destruct s as [|b0 r]; [rewrite run_nil; exact Hp|]. cbn [wf_go].
  inversion Hb as [|? ? H0 Hr]; subst.
  rewrite run_cons, (lane_nopend p b0 Hp H0).
  destruct p as [[p3 p2] p1]. assert (Hp' := Hp). unfold nopend in Hp'. cbn [push].
  assert (Hp1 : p1 < 192) by bsolve. assert (Hp2 : p2 < 224) by bsolve. clear Hp'.
  cbn [length] in Hl.
  destruct (N.leb_spec b0 127) as [A|A].
  { (* ASCII *)
    rewrite seq_len_ascii by exact A. cbn [skipn].
    replace (cont b0) with false by (symmetry; unfold cont, inr8; bsolve). cbn [negb andb].
    apply IH; [lia|exact Hr|]. unfold nopend. bsolve. }
  destruct (N.leb_spec b0 191) as [B|B].
  { (* stray continuation byte *)
    rewrite sl_bad by lia.
    replace (cont b0) with true by (symmetry; unfold cont, inr8; bsolve). reflexivity. }
  replace (cont b0) with false by (symmetry; unfold cont, inr8; bsolve). cbn [negb andb].
  destruct r as [|b1 r1].
  { (* a lead byte at the very end *)
    rewrite run_nil. unfold nopend. replace (b0 <? 192) with false by (symmetry; bsolve). cbn [andb].
    destruct (N.leb_spec b0 193); [rewrite sl_bad by lia; reflexivity|].
    destruct (N.leb_spec b0 223); [rewrite sl2 by lia; reflexivity|].
    destruct (N.leb_spec b0 239); [rewrite sl3 by lia; reflexivity|].
    destruct (N.leb_spec b0 244); [rewrite sl4 by lia; reflexivity|].
    rewrite sl_bad by lia; reflexivity. }
  inversion Hr as [|? ? H1 Hr1]; subst.
  rewrite run_cons, lane_lead by lia. cbn [push length] in *.
  destruct (N.leb_spec b0 193) as [C|C].
  { rewrite sl_bad, second_ok_bad by lia. reflexivity. }
  destruct (N.leb_spec 245 b0) as [D|D].
  { rewrite sl_bad, second_ok_bad by lia. reflexivity. }
  destruct (second_ok b0 b1) eqn:E2.
  2:{ cbn [andb].
      destruct (N.leb_spec b0 223); [rewrite sl2, E2 by lia; reflexivity|].
      destruct (N.leb_spec b0 239);
        [rewrite sl3 by lia; destruct r1; [reflexivity|rewrite E2; reflexivity]|].
      rewrite sl4 by lia. destruct r1 as [|? [|? ?]]; try reflexivity. rewrite E2. reflexivity. }
  cbn [andb]. pose proof (cont_lt b1 (second_ok_cont b0 b1 E2)) as Hc1.
  destruct (N.leb_spec b0 223) as [F|F].
  { (* two bytes *)
    rewrite sl2, E2 by lia. cbn [skipn]. apply IH; [lia|exact Hr1|]. unfold nopend. bsolve. }
  destruct r1 as [|b2 r2].
  { rewrite run_nil. unfold nopend. replace (b0 <? 224) with false by (symmetry; bsolve).
    rewrite andb_false_r. cbn [andb].
    destruct (N.leb_spec b0 239); [rewrite sl3 by lia|rewrite sl4 by lia]; reflexivity. }
  inversion Hr1 as [|? ? H2 Hr2]; subst.
  rewrite run_cons, lane_must by lia. cbn [push length] in *.
  replace (cont b1) with true by (symmetry; unfold cont, inr8; bsolve). cbn [andb].
  destruct (N.leb_spec b0 239) as [G|G].
  { (* three bytes *)
    rewrite sl3, E2 by lia. cbn [andb].
    destruct (cont b2) eqn:E3; [|reflexivity]. apply cont_lt in E3. cbn [skipn andb].
    apply IH; [lia|exact Hr2|]. unfold nopend. bsolve. }
  (* four bytes *)
  rewrite sl4 by lia.
  destruct r2 as [|b3 r3].
  { rewrite run_nil. unfold nopend. replace (b0 <? 240) with false by (symmetry; bsolve).
    rewrite !andb_false_r. reflexivity. }
  inversion Hr2 as [|? ? H3 Hr3]; subst.
  rewrite run_cons, lane_must by lia. cbn [push length] in *. rewrite E2. cbn [andb].
  destruct (cont b2) eqn:E3; [|reflexivity]. cbn [andb].
  destruct (cont b3) eqn:E4; [|reflexivity]. cbn [andb skipn].
  apply cont_lt in E3. apply cont_lt in E4.
  apply IH; [lia|exact Hr3|]. unfold nopend. bsolve.
Qed.

(* ---------- 4. vectors: check_utf8_bytes is the lane stream; is_ascii, is_incomplete ---------- *)
Ltac explode32 v H :=
  do 32 (destruct v as [|? v]; [discriminate H|]); destruct v; [clear H|discriminate H].

Lemma check_utf8_bytes_lanes : forall input prev, length input = 32%nat -> length prev = 32%nat ->
  check_utf8_bytes input prev = lanes (nth 29 prev 0, nth 30 prev 0, nth 31 prev 0) input.
Proof.
  intros input prev Hi Hp. explode32 input Hi. explode32 prev Hp.
  cbv [check_utf8_bytes check_multibyte_lengths check_special_cases must_be_2_3_continuation
       simd256_prev vmap2 map firstn skipn app Nat.sub lanes lane push nth lane_err].
  reflexivity.
Qed.

Lemma adv_len32 : forall v p, length v = 32%nat -> adv p v = (nth 29 v 0, nth 30 v 0, nth 31 v 0).
Proof. intros v [[p3 p2] p1] H. explode32 v H. reflexivity. Qed.

Lemma lanes_length : forall l p, length (lanes p l) = length l.
Proof. induction l; intros p; cbn [lanes length]; [reflexivity|]. rewrite IHl. reflexivity. Qed.

Lemma vnonzero_lanes : forall l p, vnonzero (lanes p l) = negb (lanes_ok p l).
Proof.
  induction l; intros p; cbn [lanes lanes_ok]; [reflexivity|].
  unfold vnonzero in *. cbn [existsb]. rewrite IHl, negb_andb. reflexivity.
Qed.

Lemma lor_eqb_0 : forall x y, (N.lor x y =? 0) = (x =? 0) && (y =? 0).
Proof.
  intros x y. destruct (N.eqb_spec (N.lor x y) 0) as [E|E].
  - apply N.lor_eq_0_iff in E. destruct E; subst. reflexivity.
  - destruct (N.eqb_spec x 0), (N.eqb_spec y 0); try reflexivity. subst. exfalso. apply E. reflexivity.
Qed.

Lemma vnonzero_vor : forall a b, length a = length b -> vnonzero (vor a b) = vnonzero a || vnonzero b.
Proof.
  unfold vnonzero, vor. induction a as [|x a IH]; intros [|y b] H; try discriminate H; [reflexivity|].
  cbn [vmap2 existsb]. rewrite IH by (cbn [length] in H; lia). rewrite lor_eqb_0, negb_andb.
  destruct (negb (x =? 0)), (negb (y =? 0)), (existsb _ a); reflexivity.
Qed.

Lemma is_ascii_vor : forall a b, length a = length b -> is_ascii (vor a b) = is_ascii a && is_ascii b.
Proof.
  unfold is_ascii, vor. induction a as [|x a IH]; intros [|y b] H; try discriminate H; [reflexivity|].
  cbn [vmap2 forallb]. rewrite IH by (cbn [length] in H; lia). rewrite N.lor_spec, negb_orb.
  destruct (negb (N.testbit x 7)), (negb (N.testbit y 7)), (forallb _ a); reflexivity.
Qed.

Lemma testbit7_sweep : forallb (fun x => Bool.eqb (negb (N.testbit x 7)) (x <? 128)) bytes256 = true.
Proof. vm_compute. reflexivity. Qed.

Lemma is_ascii_bytes : forall v, bytes v -> is_ascii v = all_ascii v.
Proof.
  induction 1 as [|x v Hx Hv IH]; [reflexivity|]. unfold is_ascii, all_ascii in *. cbn [forallb].
  rewrite IH. f_equal. apply eqb_prop. apply (sweep256 _ testbit7_sweep x Hx).
Qed.

Lemma all_ascii_app : forall a b, all_ascii (a ++ b) = all_ascii a && all_ascii b.
Proof. intros. unfold all_ascii. apply forallb_app. Qed.

Lemma is_incomplete_spec : forall v, length v = 32%nat -> bytes v ->
  vnonzero (is_incomplete v) = negb (nopend (nth 29 v 0, nth 30 v 0, nth 31 v 0)).
Proof.
  intros v H Hb. explode32 v H. unfold bytes in Hb.
  repeat match goal with H : Forall _ (_ :: _) |- _ => inversion H; clear H; subst end.
  cbv [is_incomplete incomplete_max repeat app vmap2 vnonzero existsb nth nopend].
  repeat match goal with H : ?x < 256 |- context [?x - 255] => replace (x - 255) with 0 by lia end.
  change (0 =? 0) with true. cbn [negb orb]. rewrite !orb_false_r.
  repeat match goal with |- context [?x - ?k =? 0] =>
    match k with
    | 239 => replace (x - k =? 0) with (x <? 240) by (destruct (N.ltb_spec x 240), (N.eqb_spec (x - k) 0); try reflexivity; lia)
    | 223 => replace (x - k =? 0) with (x <? 224) by (destruct (N.ltb_spec x 224), (N.eqb_spec (x - k) 0); try reflexivity; lia)
    | 191 => replace (x - k =? 0) with (x <? 192) by (destruct (N.ltb_spec x 192), (N.eqb_spec (x - k) 0); try reflexivity; lia)
    end end.
  match goal with |- negb ?a || (negb ?b || negb ?c) = _ => destruct a, b, c; reflexivity end.
Qed.

(* ---------- 4b. the checker state ---------- *)
Definition last3 (v : list N) : P3 := (nth 29 v 0, nth 30 v 0, nth 31 v 0).

(* c is the checker state after the bytes u have been consumed *)
Definition Inv (c : utf8_checker) (u : list N) : Prop :=
  length (prev_input_block c) = 32%nat /\
  error c = negb (lanes_ok z3 u) /\
  prev_incomplete c = negb (nopend (last3 (prev_input_block c))) /\
  (error c = false ->
   last3 (prev_input_block c) = adv z3 u \/
   (nopend (last3 (prev_input_block c)) = true /\ nopend (adv z3 u) = true)).

Lemma inv_init : Inv utf8_checker_init [].
Proof. unfold Inv. cbn. repeat split. intros _. left. reflexivity. Qed.

Lemma bytes_app : forall a b, bytes a -> bytes b -> bytes (a ++ b).
Proof. intros a b Ha Hb. unfold bytes in *. apply Forall_app. split; assumption. Qed.
Lemma bytes_firstn : forall n s, bytes s -> bytes (firstn n s).
Proof.
  induction n; intros s H; [constructor|]. destruct s; [constructor|].
  cbn [firstn]. inversion H; subst. constructor; [assumption|]. apply IHn. assumption.
Qed.
Lemma bytes3_z3 : bytes3 z3.
Proof. unfold bytes3, z3. lia. Qed.

(* the ASCII shortcut: error |= prev_incomplete, prev_input_block goes stale *)
Lemma inv_ascii : forall c u ch, Inv c u -> bytes u -> all_ascii ch = true -> ch <> [] ->
  Inv (or_prev_incomplete c) (u ++ ch).
Proof.
  intros c u ch (Hlen & Herr & Hinc & Hst) Hu Ha Hne.
  assert (Ht : bytes3 (adv z3 u)) by (apply adv_bytes3; [apply bytes3_z3|exact Hu]).
  destruct (lanes_ok_ascii ch (adv z3 u) Ht Ha Hne) as [I1 I2].
  unfold Inv, or_prev_incomplete. cbn [error prev_input_block prev_incomplete].
  rewrite lanes_ok_app, adv_app, I1.
  destruct (error c) eqn:Ee.
  - repeat split; try assumption.
    + symmetry in Herr. apply negb_true_iff in Herr. rewrite Herr. reflexivity.
    + discriminate.
  - symmetry in Herr. apply negb_false_iff in Herr. rewrite Herr. cbn [orb andb].
    assert (En : nopend (last3 (prev_input_block c)) = nopend (adv z3 u)).
    { destruct (Hst eq_refl) as [E|[E1 E2]]; [rewrite E; reflexivity|congruence]. }
    repeat split; try assumption.
    + rewrite Hinc, En. reflexivity.
    + intros Hn. rewrite Hinc, En in Hn. apply negb_false_iff in Hn.
      right. split; [congruence|apply I2; exact Hn].
Qed.

Lemma firstn_firstn_skipn : forall (A : Type) a b (l : list A),
  firstn (a + b) l = firstn a l ++ firstn b (skipn a l).
Proof.
  induction a; intros b l; [reflexivity|]. destruct l; cbn [Nat.add firstn skipn app].
  - rewrite firstn_nil. reflexivity.
  - rewrite IHa. reflexivity.
Qed.

Lemma loadu_len : forall p off, (off + 32 <= length p)%nat -> length (loadu p off) = 32%nat.
Proof. intros. unfold loadu. rewrite firstn_length, skipn_length. lia. Qed.

Lemma firstn64_loadu : forall p, firstn 64 p = loadu p 0 ++ loadu p 32.
Proof. intros p. unfold loadu. cbn [skipn]. apply (firstn_firstn_skipn N 32 32). Qed.

(* the lookup path *)
Lemma inv_utf : forall c u start, Inv c u -> bytes u -> bytes start -> (64 <= length start)%nat ->
  Inv (check64_utf c start) (u ++ firstn 64 start).
Proof.
  intros c u start (Hlen & Herr & Hinc & Hst) Hu Hs Hl.
  rewrite firstn64_loadu. unfold check64_utf.
  set (input := loadu start 0). set (input2 := loadu start 32).
  assert (L1 : length input = 32%nat) by (apply loadu_len; lia).
  assert (L2 : length input2 = 32%nat) by (apply loadu_len; lia).
  assert (B1 : bytes input) by (apply bytes_firstn, bytes_skipn; exact Hs).
  assert (B2 : bytes input2) by (apply bytes_firstn, bytes_skipn; exact Hs).
  unfold Inv. cbn [error prev_input_block prev_incomplete].
  rewrite (check_utf8_bytes_lanes input _ L1 Hlen), (check_utf8_bytes_lanes input2 input L2 L1).
  rewrite vnonzero_vor by (rewrite !lanes_length; congruence).
  rewrite !vnonzero_lanes, (is_incomplete_spec input2 L2 B2).
  fold (last3 (prev_input_block c)). fold (last3 input). fold (last3 input2).
  rewrite !lanes_ok_app, !adv_app, (adv_len32 input _ L1), (adv_len32 input2 _ L2).
  fold (last3 input). fold (last3 input2).
  split; [exact L2|]. split; [|split; [reflexivity|intros _; left; reflexivity]].
  destruct (error c) eqn:Ee.
  - symmetry in Herr. apply negb_true_iff in Herr. rewrite Herr. reflexivity.
  - symmetry in Herr. apply negb_false_iff in Herr. rewrite Herr. cbn [orb andb].
    assert (E : lanes_ok (last3 (prev_input_block c)) input = lanes_ok (adv z3 u) input).
    { destruct (Hst eq_refl) as [E|[E1 E2]]; [rewrite E; reflexivity|].
      apply lanes_ok_nopend; assumption. }
    rewrite E, negb_andb. reflexivity.
Qed.

Lemma firstn_ne : forall (A : Type) n (l : list A), (0 < n)%nat -> (n <= length l)%nat -> firstn n l <> [].
Proof.
  intros A n l Hn Hl E. apply (f_equal (@length A)) in E. rewrite firstn_length in E. cbn [length] in E. lia.
Qed.

Lemma ascii64_spec : forall start, bytes start -> (64 <= length start)%nat ->
  is_ascii (vor (loadu start 0) (loadu start 32)) = all_ascii (firstn 64 start).
Proof.
  intros start Hs Hl. rewrite is_ascii_vor by (rewrite !loadu_len; lia).
  rewrite !is_ascii_bytes by (apply bytes_firstn, bytes_skipn; exact Hs).
  rewrite firstn64_loadu, all_ascii_app. reflexivity.
Qed.

Lemma inv_check64 : forall c u start, Inv c u -> bytes u -> bytes start -> (64 <= length start)%nat ->
  Inv (check64 c start) (u ++ firstn 64 start).
Proof.
  intros c u start HI Hu Hs Hl. unfold check64. rewrite (ascii64_spec start Hs Hl).
  destruct (all_ascii (firstn 64 start)) eqn:E.
  - apply inv_ascii; try assumption. apply firstn_ne; lia.
  - apply inv_utf; assumption.
Qed.

Lemma skipn_skipn' : forall (A : Type) a b (l : list A), skipn a (skipn b l) = skipn (b + a) l.
Proof.
  intros A a b. revert a. induction b; intros a l; [reflexivity|].
  destruct l; cbn [Nat.add skipn]; [apply skipn_nil|apply IHb].
Qed.

Lemma vor_length : forall a b, length a = length b -> length (vor a b) = length a.
Proof.
  unfold vor. induction a as [|x a IH]; intros [|y b] H; try discriminate H; [reflexivity|].
  cbn [vmap2 length]. rewrite IH by (cbn [length] in H; lia). reflexivity.
Qed.

Lemma inv_check128 : forall c u start, Inv c u -> bytes u -> bytes start -> (128 <= length start)%nat ->
  Inv (check128 c start) (u ++ firstn 128 start).
Proof.
  intros c u start HI Hu Hs Hl. unfold check128.
  assert (E3 : loadu start 64 = loadu (skipn 64 start) 0) by reflexivity.
  assert (E4 : loadu start 96 = loadu (skipn 64 start) 32).
  { unfold loadu. rewrite skipn_skipn'. reflexivity. }
  rewrite E3, E4.
  assert (Hs2 : bytes (skipn 64 start)) by (apply bytes_skipn; exact Hs).
  assert (Hl2 : (64 <= length (skipn 64 start))%nat) by (rewrite skipn_length; lia).
  rewrite is_ascii_vor by (rewrite !vor_length; rewrite !loadu_len; lia).
  rewrite (ascii64_spec start Hs) by lia. rewrite (ascii64_spec (skipn 64 start) Hs2 Hl2).
  change 128%nat with (64 + 64)%nat. rewrite firstn_firstn_skipn.
  set (ch1 := firstn 64 start). set (ch2 := firstn 64 (skipn 64 start)).
  assert (N1 : ch1 <> []) by (apply firstn_ne; lia).
  assert (N2 : ch2 <> []) by (apply firstn_ne; lia).
  assert (B1 : bytes ch1) by (apply bytes_firstn; exact Hs).
  destruct (all_ascii ch1) eqn:A1; destruct (all_ascii ch2) eqn:A2; cbn [andb].
  - apply inv_ascii; try assumption.
    + rewrite all_ascii_app, A1, A2. reflexivity.
    + destruct ch1; [contradiction|discriminate].
  - rewrite app_assoc. apply inv_utf; try assumption.
    + apply inv_ascii; assumption.
    + apply bytes_app; assumption.
  - rewrite app_assoc. apply inv_ascii; try assumption.
    + apply inv_utf; try assumption. lia.
    + apply bytes_app; assumption.
  - rewrite app_assoc. apply inv_utf; try assumption.
    + apply inv_utf; try assumption. lia.
    + apply bytes_app; assumption.
Qed.

(* ---------- 5. the driver ---------- *)
Lemma longer_spec : forall k s, longer k s = (k <? length s)%nat.
Proof.
  unfold longer. induction k; intros [|x s]; cbn [skipn length]; try reflexivity.
  rewrite IHk. reflexivity.
Qed.

Lemma loop128_inv : forall f c s u, Inv c u -> bytes u -> bytes s ->
  exists w, s = w ++ snd (loop128 f c s) /\ Inv (fst (loop128 f c s)) (u ++ w).
Proof.
  induction f; intros c s u HI Hu Hs; cbn [loop128].
  - exists []. rewrite app_nil_r. split; [reflexivity|exact HI].
  - rewrite longer_spec. destruct (Nat.ltb_spec 128 (length s)) as [H|H].
    + destruct (IHf (check128 c s) (skipn 128 s) (u ++ firstn 128 s)) as [w [E I]].
      * apply inv_check128; try assumption. lia.
      * apply bytes_app; [exact Hu|apply bytes_firstn; exact Hs].
      * apply bytes_skipn; exact Hs.
      * exists (firstn 128 s ++ w). split.
        -- rewrite <- app_assoc, <- E. symmetry. apply firstn_skipn.
        -- rewrite app_assoc. exact I.
    + exists []. rewrite app_nil_r. split; [reflexivity|exact HI].
Qed.

Lemma loop64_inv : forall f c s u, Inv c u -> bytes u -> bytes s ->
  exists w, s = w ++ snd (loop64 f c s) /\ Inv (fst (loop64 f c s)) (u ++ w).
Proof.
  induction f; intros c s u HI Hu Hs; cbn [loop64].
  - exists []. rewrite app_nil_r. split; [reflexivity|exact HI].
  - rewrite longer_spec. destruct (Nat.ltb_spec 64 (length s)) as [H|H].
    + destruct (IHf (check64 c s) (skipn 64 s) (u ++ firstn 64 s)) as [w [E I]].
      * apply inv_check64; try assumption. lia.
      * apply bytes_app; [exact Hu|apply bytes_firstn; exact Hs].
      * apply bytes_skipn; exact Hs.
      * exists (firstn 64 s ++ w). split.
        -- rewrite <- app_assoc, <- E. symmetry. apply firstn_skipn.
        -- rewrite app_assoc. exact I.
    + exists []. rewrite app_nil_r. split; [reflexivity|exact HI].
Qed.

(* with fuel = length of the string the second loop runs to its exit test *)
Lemma loop64_short : forall f c s, (length s <= f)%nat -> (length (snd (loop64 f c s)) <= 64)%nat.
Proof.
  induction f; intros c s H; cbn [loop64].
  - cbn [snd]. lia.
  - rewrite longer_spec. destruct (Nat.ltb_spec 64 (length s)) as [H'|H']; [|exact H'].
    apply IHf. rewrite skipn_length. lia.
Qed.

(* check_remain: zero padded last block, then check_eof *)
Lemma check_remain_run : forall c u s2, Inv c u -> bytes u -> bytes s2 -> (length s2 <= 64)%nat ->
  error (check_remain c s2) = negb (run z3 (u ++ s2)).
Proof.
  intros c u s2 HI Hu Hs Hl. unfold check_remain, check_eof.
  set (k := (64 - length s2)%nat).
  assert (Eb : firstn 64 (s2 ++ repeat 0 64) = s2 ++ repeat 0 k).
  { rewrite firstn_app. rewrite (@firstn_all2 N 64 s2 Hl). f_equal.
    fold k. clear. assert (k <= 64)%nat by (unfold k; lia). generalize dependent k.
    intros k Hk. replace 64%nat with (k + (64 - k))%nat by lia.
    rewrite repeat_app, firstn_app, repeat_length, Nat.sub_diag, firstn_O, app_nil_r.
    apply firstn_all2. rewrite repeat_length. lia. }
  rewrite Eb. set (buffer := s2 ++ repeat 0 k).
  assert (Bz : bytes (repeat 0 k)).
  { clear. induction k; cbn [repeat]; constructor; [lia|assumption]. }
  assert (Bb : bytes buffer) by (apply bytes_app; assumption).
  assert (Lb : length buffer = 64%nat) by (unfold buffer, k; rewrite app_length, repeat_length; lia).
  pose proof (inv_check64 c u buffer HI Hu Bb) as HI'.
  rewrite (@firstn_all2 N 64 buffer) in HI' by lia.
  destruct (HI' ltac:(lia)) as (_ & Herr & Hinc & Hst). clear HI'.
  cbn [or_prev_incomplete error].
  assert (Er : run z3 (u ++ s2) = run z3 (u ++ buffer)).
  { unfold buffer. rewrite app_assoc. symmetry. apply run_pad; [apply bytes3_z3|apply bytes_app; assumption]. }
  rewrite Er. unfold run.
  destruct (error (check64 c buffer)) eqn:Ee.
  - symmetry in Herr. apply negb_true_iff in Herr. rewrite Herr. reflexivity.
  - symmetry in Herr. apply negb_false_iff in Herr. rewrite Herr, Hinc. cbn [orb andb]. f_equal.
    destruct (Hst eq_refl) as [E|[E1 E2]]; [rewrite E; reflexivity|congruence].
Qed.

Theorem avx2_run : forall s, bytes s -> validate_utf8_avx2 s = run z3 s.
Proof.
  intros s Hs. unfold validate_utf8_avx2. destruct s as [|b r]; [reflexivity|].
  set (s := b :: r) in *.
  destruct (loop128_inv (length s) utf8_checker_init s [] inv_init ltac:(constructor) Hs) as [w1 [E1 I1]].
  destruct (loop128 (length s) utf8_checker_init s) as [c1 s1]. cbn [fst snd app] in E1, I1.
  assert (Bw1 : bytes w1 /\ bytes s1).
  { rewrite E1 in Hs. unfold bytes in *. apply Forall_app in Hs. exact Hs. }
  destruct Bw1 as [Bw1 Bs1].
  destruct (loop64_inv (length s) c1 s1 w1 I1 Bw1 Bs1) as [w2 [E2 I2]].
  pose proof (loop64_short (length s) c1 s1) as Hsh.
  destruct (loop64 (length s) c1 s1) as [c2 s2]. cbn [fst snd] in E2, I2, Hsh.
  assert (Bw2 : bytes w2 /\ bytes s2).
  { rewrite E2 in Bs1. unfold bytes in *. apply Forall_app in Bs1. exact Bs1. }
  destruct Bw2 as [Bw2 Bs2].
  rewrite (check_remain_run c2 (w1 ++ w2) s2 I2).
  - rewrite negb_involutive, <- app_assoc, <- E2, <- E1. reflexivity.
  - apply bytes_app; assumption.
  - exact Bs2.
  - apply Hsh. rewrite E1, app_length. lia.
Qed.

(* ---------- 6. results ---------- *)
Theorem lookup_exact : forall s, bytes s -> run z3 s = wf s.
Proof. intros s Hs. unfold wf. apply run_wf_go; [lia|exact Hs|reflexivity]. Qed.

(* the pure lookup: every lane error free and nothing pending at the end *)
Theorem lookup_sound : forall s, bytes s -> run z3 s = true -> WF s.
Proof. intros s Hs H. apply wf_WF. rewrite <- lookup_exact; assumption. Qed.

(* the same on the zero padded stream: at least one trailing zero replaces the end test *)
Theorem lookup_sound_padded : forall s k, bytes s -> lanes_ok z3 (s ++ repeat 0 (S k)) = true -> WF s.
Proof.
  intros s k Hs H. apply lookup_sound; [exact Hs|].
  rewrite <- (run_pad (S k) s z3 bytes3_z3 Hs). unfold run. rewrite H. cbn [andb].
  rewrite adv_app.
  assert (Hz : bytes3 (adv z3 s)) by (apply adv_bytes3; [apply bytes3_z3|exact Hs]).
  destruct (lanes_ok_ascii (repeat 0 (S k)) (adv z3 s) Hz (all_ascii_repeat0 (S k))) as [I1 I2];
    [discriminate|].
  apply I2. rewrite <- I1. rewrite lanes_ok_app in H. apply andb_true_iff in H. apply H.
Qed.

(* the stale previous block: lanes computed from any previous bytes with nothing pending agree *)
Definition stale_prev_harmless := lanes_ok_nopend.

Theorem avx2_exact : forall s, bytes s -> validate_utf8_avx2 s = wf s.
Proof. intros s Hs. rewrite (avx2_run s Hs). apply lookup_exact. exact Hs. Qed.

Theorem avx2_sound : forall s, bytes s -> validate_utf8_avx2 s = true -> WF s.
Proof. intros s Hs H. apply wf_WF. rewrite <- avx2_exact; assumption. Qed.

Theorem avx2_complete : forall s, bytes s -> WF s -> validate_utf8_avx2 s = true.
Proof. intros s Hs H. rewrite avx2_exact by exact Hs. apply wf_WF. exact H. Qed.

Theorem validate_utf8_fast_avx2_eq : forall s, bytes s ->
  validate_utf8_fast_avx2 s = validate_utf8_fast s.
Proof.
  intros s Hs. unfold validate_utf8_fast_avx2.
  destruct (validate_utf8_avx2 s) eqn:E; [|reflexivity].
  symmetry. apply validate_utf8_fast_WF; [exact Hs|]. apply avx2_sound; assumption.
Qed.

(* ---------- examples (the implications above are not vacuous; boundary behaviour of the model) ---------- *)
Definition ascii_run (n : nat) : list N := repeat 65 n.
Lemma bytes_dec : forall s, forallb (fun b => b <? 256) s = true -> bytes s.
Proof.
  intros s H. unfold bytes. apply Forall_forall. intros x Hx.
  apply N.ltb_lt. exact (proj1 (forallb_forall _ s) H x Hx).
Qed.

Example ex_sound_hyps : bytes [226; 130; 172] /\ validate_utf8_avx2 [226; 130; 172] = true.
Proof. split; [apply bytes_dec|]; vm_compute; reflexivity. Qed.
Example ex_ascii_200 : validate_utf8_avx2 (ascii_run 200) = true.
Proof. vm_compute. reflexivity. Qed.
(* 3-, 4- and 2-byte characters straddling offsets 32, 64, 96 and 128, then a 128-byte ASCII run *)
Example ex_straddle :
  validate_utf8_avx2 (ascii_run 31 ++ [226; 130; 172] ++ ascii_run 27 ++ [240; 159; 152; 128] ++ ascii_run 30 ++ [195; 169] ++
                      ascii_run 30 ++ [226; 130; 172] ++ ascii_run 130 ++ [195; 169]) = true.
Proof. vm_compute. reflexivity. Qed.
(* a character ending exactly at the end of a 64-byte string, and one cut by the 64-byte boundary *)
Example ex_end_64 : validate_utf8_avx2 (ascii_run 61 ++ [226; 130; 172]) = true.
Proof. vm_compute. reflexivity. Qed.
Example ex_across_64 : validate_utf8_avx2 (ascii_run 63 ++ [226; 130; 172] ++ ascii_run 3) = true.
Proof. vm_compute. reflexivity. Qed.
(* lookup block, skipped ASCII block (stale prev_input_block), lookup block *)
Example ex_stale_ok : validate_utf8_avx2 (ascii_run 61 ++ [226; 130; 172] ++ ascii_run 64 ++ [195; 128] ++ ascii_run 70) = true.
Proof. vm_compute. reflexivity. Qed.
Example ex_stale_bad : validate_utf8_avx2 (ascii_run 61 ++ [226; 130; 172] ++ ascii_run 64 ++ [128] ++ ascii_run 70) = false.
Proof. vm_compute. reflexivity. Qed.
Example ex_overlong_2 : validate_utf8_avx2 [192; 128] = false.
Proof. vm_compute. reflexivity. Qed.
Example ex_surrogate : validate_utf8_avx2 [237; 160; 128] = false.
Proof. vm_compute. reflexivity. Qed.
Example ex_too_large : validate_utf8_avx2 [244; 144; 128; 128] = false.
Proof. vm_compute. reflexivity. Qed.
Example ex_trunc_64 : validate_utf8_avx2 (ascii_run 62 ++ [226; 130]) = false.
Proof. vm_compute. reflexivity. Qed.
Example ex_trunc_70 : validate_utf8_avx2 (ascii_run 68 ++ [226; 130]) = false.
Proof. vm_compute. reflexivity. Qed.
(* incomplete character at the end of a lookup block followed by ASCII blocks only *)
Example ex_trunc_then_ascii : validate_utf8_avx2 (ascii_run 62 ++ [226; 130] ++ ascii_run 200) = false.
Proof. vm_compute. reflexivity. Qed.
Example ex_lone_cont : validate_utf8_avx2 (ascii_run 64 ++ [128]) = false.
Proof. vm_compute. reflexivity. Qed.
Example ex_fast_avx2 : validate_utf8_fast_avx2 (ascii_run 64 ++ [128]) = (-65)%Z /\
                       validate_utf8_fast_avx2 (ascii_run 61 ++ [226; 130; 172]) = 0%Z.
Proof. split; vm_compute; reflexivity. Qed.
