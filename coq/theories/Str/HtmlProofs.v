(* C20 / C13 - native/html_escape.c (model Str/HtmlEsc.v: html_escape) and the Go grow loop
   internal/encoder/alg/spec.go:HtmlEscape (model: go_html_escape) against a structural specification
   that follows encoding/json.HTMLEscape:  '<' '>' '&' -> < > &,  the byte triples
   E2 80 A8 / E2 80 A9 ->   /  ,  every other byte copied.
   All theorems hold for every list of positive block widths and inputs of any length. *)
From Coq Require Import NArith ZArith Bool List Lia.
From SV.Gen Require Import Tables.
From SV.Str Require Import Common HtmlEsc FinderProofs TablesOk Quote.
Import ListNotations.
Open Scope nat_scope.

(* ------------------------------------------------------------------------------------------ *)
(* Specification                                                                                *)
(* ------------------------------------------------------------------------------------------ *)

(* the six bytes  \ u 0 0 3 c  etc. *)
Definition u003 (c : N) : list N := [92; 117; 48; 48; 51; c]%N.
Definition esc_lt   : list N := u003 99.                        (* < *)
Definition esc_gt   : list N := u003 101.                       (* > *)
Definition esc_amp  : list N := [92; 117; 48; 48; 50; 54]%N.    (* & *)
Definition esc_2028 : list N := [92; 117; 50; 48; 50; 56]%N.    (*   *)
Definition esc_2029 : list N := [92; 117; 50; 48; 50; 57]%N.    (*   *)

(* one-byte escapes *)
Definition html_esc1 (b : N) : option (list N) :=
  if (b =? 60)%N then Some esc_lt else if (b =? 62)%N then Some esc_gt
  else if (b =? 38)%N then Some esc_amp else None.
(* three-byte escapes: E2 80 A8, E2 80 A9 *)
Definition html_esc3 (b b1 b2 : N) : option (list N) :=
  if ((b =? 226) && (b1 =? 128))%N then
    if (b2 =? 168)%N then Some esc_2028 else if (b2 =? 169)%N then Some esc_2029 else None
  else None.

Fixpoint html_ref (s : list N) : list N :=
  match s with
  | [] => []
  | b :: r =>
    match html_esc1 b with
    | Some e => e ++ html_ref r
    | None =>
      match r with
      | b1 :: b2 :: r2 =>
        match html_esc3 b b1 b2 with
        | Some e => e ++ html_ref r2
        | None => b :: html_ref r
        end
      | _ => b :: html_ref r
      end
    end
  end.

(* bounded greedy reference: emit the item e if it fits in the nd bytes left, then continue with rec;
   otherwise stop and report -(consumed)-1 *)
Definition hb_emit (e : list N) (consumed nd : nat) (rec : nat -> Z * list N) : Z * list N :=
  if length e <=? nd then let p := rec (nd - length e) in (fst p, e ++ snd p)
  else ((- Z.of_nat consumed - 1)%Z, []).

Fixpoint html_bounded (s : list N) (consumed nd : nat) : Z * list N :=
  match s with
  | [] => (Z.of_nat consumed, [])
  | b :: r =>
    match html_esc1 b with
    | Some e => hb_emit e consumed nd (html_bounded r (consumed + 1))
    | None =>
      match r with
      | b1 :: b2 :: r2 =>
        match html_esc3 b b1 b2 with
        | Some e => hb_emit e consumed nd (html_bounded r2 (consumed + 3))
        | None => hb_emit [b] consumed nd (html_bounded r (consumed + 1))
        end
      | _ => hb_emit [b] consumed nd (html_bounded r (consumed + 1))
      end
    end
  end.

Example html_ref_ex : html_ref [60; 97; 226; 128; 168]%N = [92; 117; 48; 48; 51; 99; 97; 92; 117; 50; 48; 50; 56]%N.
Proof. vm_compute. reflexivity. Qed.
Example html_ref_ex2 : html_ref [226; 128; 170; 38; 226; 128]%N = [226; 128; 170; 92; 117; 48; 48; 50; 54; 226; 128]%N.
Proof. vm_compute. reflexivity. Qed.
Example html_bounded_ex : html_bounded [97; 60; 98]%N 0 6 = ((-2)%Z, [97]%N)
                          /\ html_bounded [97; 60; 98]%N 0 7 = ((-3)%Z, [97; 92; 117; 48; 48; 51; 99]%N)
                          /\ html_bounded [97; 60; 98]%N 0 8 = (3%Z, [97; 92; 117; 48; 48; 51; 99; 98]%N).
Proof. vm_compute. repeat split; reflexivity. Qed.

(* ------------------------------------------------------------------------------------------ *)
(* Items: the first item of b :: r = (bytes emitted, input bytes it stands for, rest)           *)
(* ------------------------------------------------------------------------------------------ *)
Definition html_item (b : N) (r : list N) : list N * nat * list N :=
  match html_esc1 b with
  | Some e => (e, 1, r)
  | None =>
    match r with
    | b1 :: b2 :: r2 =>
      match html_esc3 b b1 b2 with
      | Some e => (e, 3, r2)
      | None => ([b], 1, r)
      end
    | _ => ([b], 1, r)
    end
  end.

Lemma html_ref_cons : forall b r e m rest,
  html_item b r = (e, m, rest) -> html_ref (b :: r) = e ++ html_ref rest.
Proof.
  intros b r e m rest. unfold html_item. cbn [html_ref].
  destruct (html_esc1 b) as [e1|]; [intros H; inversion H; reflexivity|].
  destruct r as [|b1 [|b2 r2]]; try (intros H; inversion H; reflexivity).
  destruct (html_esc3 b b1 b2); intros H; inversion H; reflexivity.
Qed.

Lemma html_bounded_cons : forall b r c nd e m rest,
  html_item b r = (e, m, rest) -> html_bounded (b :: r) c nd = hb_emit e c nd (html_bounded rest (c + m)).
Proof.
  intros b r c nd e m rest. unfold html_item. cbn [html_bounded].
  destruct (html_esc1 b) as [e1|]; [intros H; inversion H; reflexivity|].
  destruct r as [|b1 [|b2 r2]]; try (intros H; inversion H; reflexivity).
  destruct (html_esc3 b b1 b2); intros H; inversion H; reflexivity.
Qed.

Lemma esc1_len : forall b e, html_esc1 b = Some e -> length e = 6.
Proof.
  intros b e. unfold html_esc1.
  destruct (b =? 60)%N; [intros H; inversion H; reflexivity|].
  destruct (b =? 62)%N; [intros H; inversion H; reflexivity|].
  destruct (b =? 38)%N; [intros H; inversion H; reflexivity|discriminate].
Qed.

Lemma esc3_len : forall b b1 b2 e, html_esc3 b b1 b2 = Some e -> length e = 6.
Proof.
  intros b b1 b2 e. unfold html_esc3.
  destruct ((b =? 226) && (b1 =? 128))%N; [|discriminate].
  destruct (b2 =? 168)%N; [intros H; inversion H; reflexivity|].
  destruct (b2 =? 169)%N; [intros H; inversion H; reflexivity|discriminate].
Qed.

Lemma item_facts : forall b r e m rest,
  html_item b r = (e, m, rest) ->
  1 <= length e /\ length e <= 6 /\ 1 <= m /\ rest = skipn m (b :: r) /\ length rest + m = length (b :: r).
Proof.
  intros b r e m rest. unfold html_item.
  destruct (html_esc1 b) as [e1|] eqn:E1.
  - intros H; inversion H; subst. rewrite (esc1_len b e E1). cbn [length skipn]. repeat split; lia.
  - destruct r as [|b1 [|b2 r2]]; try (intros H; inversion H; subst; cbn [length skipn]; repeat split; lia).
    destruct (html_esc3 b b1 b2) as [e3|] eqn:E3; intros H; inversion H; subst.
    + rewrite (esc3_len _ _ _ _ E3). cbn [length skipn]. repeat split; lia.
    + cbn [length skipn]. repeat split; lia.
Qed.

(* a byte that the finder does not stop at is a plain item *)
Lemma item_plain : forall b r, find_html_lane b = false -> html_item b r = ([b], 1, r).
Proof.
  intros b r. unfold find_html_lane, html_item, html_esc1, html_esc3.
  destruct (b =? 60)%N; [discriminate|]. destruct (b =? 62)%N; [discriminate|].
  destruct (b =? 38)%N; [discriminate|]. destruct (b =? 226)%N; [discriminate|]. intros _.
  destruct r as [|b1 [|b2 r2]]; reflexivity.
Qed.

Lemma esc1_226 : html_esc1 226 = None.
Proof. reflexivity. Qed.

(* the bytes '<' '>' '&' : table entry = specified escape *)
Lemma item_esc1 : forall ch r, find_html_lane ch = true -> (ch =? 226)%N = false ->
  exists e, html_item ch r = (e, 1, r) /\ tab_copy _HtmlQuoteTab ch = e /\ tab_n _HtmlQuoteTab ch = 6 /\ length e = 6.
Proof.
  intros ch r Hf Hne. unfold find_html_lane in Hf. rewrite Hne in Hf.
  destruct html_entries as (T60 & T62 & T38 & _ & _ & N60 & N62 & N38 & _ & _).
  unfold html_item, html_esc1.
  destruct (N.eqb_spec ch 60) as [->|_]; [exists esc_lt; repeat split; assumption|].
  destruct (N.eqb_spec ch 62) as [->|_]; [exists esc_gt; repeat split; assumption|].
  destruct (N.eqb_spec ch 38) as [->|_]; [exists esc_amp; repeat split; assumption|].
  discriminate.
Qed.

(* E2 80 A8 / E2 80 A9 *)
Lemma item_u2028 : forall r b2, is_u2028_tail r = Some b2 ->
  exists e r2, html_item 226 r = (e, 3, r2) /\ skipn 2 r = r2 /\ tab_copy _HtmlQuoteTab b2 = e /\
               tab_n _HtmlQuoteTab b2 = 6 /\ length e = 6.
Proof.
  intros r b2. unfold is_u2028_tail.
  destruct html_entries as (_ & _ & _ & T168 & T169 & _ & _ & _ & N168 & N169).
  destruct r as [|b1 [|b2' r2]]; try discriminate.
  unfold html_item. rewrite esc1_226. unfold html_esc3. cbn [skipn].
  destruct (N.eqb_spec b1 128) as [->|_]; [|discriminate].
  destruct (N.eqb_spec b2' 168) as [->|_].
  - intros H; inversion H; subst. exists esc_2028, r2. repeat split; assumption.
  - destruct (N.eqb_spec b2' 169) as [->|_]; [|discriminate].
    intros H; inversion H; subst. exists esc_2029, r2. repeat split; assumption.
Qed.

(* a lone E2 is copied *)
Lemma item_226_plain : forall r, is_u2028_tail r = None -> html_item 226 r = ([226%N], 1, r).
Proof.
  intros r. unfold is_u2028_tail, html_item. rewrite esc1_226. unfold html_esc3.
  destruct r as [|b1 [|b2 r2]]; try reflexivity.
  destruct (b1 =? 128)%N; [|reflexivity].
  destruct (b2 =? 168)%N; [discriminate|]. destruct (b2 =? 169)%N; [discriminate|]. reflexivity.
Qed.

(* ------------------------------------------------------------------------------------------ *)
(* Facts about the bounded reference                                                            *)
(* ------------------------------------------------------------------------------------------ *)

Lemma hb_zero : forall s c, s <> [] -> html_bounded s c 0 = ((- Z.of_nat c - 1)%Z, []).
Proof.
  intros s c Hne. destruct s as [|b r]; [congruence|].
  destruct (html_item b r) as [[e m] rest] eqn:Ei.
  rewrite (html_bounded_cons b r c 0 e m rest Ei).
  destruct (item_facts b r e m rest Ei) as (Hl & _).
  unfold hb_emit. rewrite (proj2 (Nat.leb_gt (length e) 0)) by lia. reflexivity.
Qed.

(* k plain bytes that fit are copied *)
Lemma hb_plain : forall k s c nd, k <= find_first find_html_lane s -> k <= nd ->
  html_bounded s c nd =
  (fst (html_bounded (skipn k s) (c + k) (nd - k)), firstn k s ++ snd (html_bounded (skipn k s) (c + k) (nd - k))).
Proof.
  induction k as [|k IH]; intros s c nd Hk Hd.
  - cbn [skipn firstn app]. rewrite Nat.add_0_r, Nat.sub_0_r. destruct (html_bounded s c nd); reflexivity.
  - destruct s as [|b r]; cbn [find_first] in Hk; [lia|].
    destruct (find_html_lane b) eqn:E; [lia|].
    rewrite (html_bounded_cons b r c nd _ _ _ (item_plain b r E)).
    unfold hb_emit. cbn [length]. rewrite (proj2 (Nat.leb_le 1 nd)) by lia.
    rewrite (IH r (c + 1) (nd - 1)) by lia. cbn [fst snd skipn firstn].
    replace (c + 1 + k) with (c + S k) by lia. replace (nd - 1 - k) with (nd - S k) by lia.
    reflexivity.
Qed.

(* the complete picture: everything fits and the output is html_ref, or the run stops in front of the first
   item that does not fit *)
Lemma hb_facts_len : forall n s c nd, length s <= n ->
  length (snd (html_bounded s c nd)) <= nd /\
  ((fst (html_bounded s c nd) = Z.of_nat (c + length s) /\ snd (html_bounded s c nd) = html_ref s) \/
   (exists m, fst (html_bounded s c nd) = (- Z.of_nat (c + m) - 1)%Z /\ m < length s /\
              html_ref s = snd (html_bounded s c nd) ++ html_ref (skipn m s) /\
              (m = 0 -> snd (html_bounded s c nd) = [] /\ nd < 6) /\
              nd < length (html_ref s))).
Proof.
  induction n as [|n IH]; intros s c nd Hn.
  - destruct s; [|cbn [length] in Hn; lia]. cbn [html_bounded html_ref fst snd length]. split; [lia|].
    left. split; [rewrite Nat.add_0_r|]; reflexivity.
  - destruct s as [|b r].
    + cbn [html_bounded html_ref fst snd length]. split; [lia|].
      left. split; [rewrite Nat.add_0_r|]; reflexivity.
    + destruct (html_item b r) as [[e m] rest] eqn:Ei.
      pose proof (html_ref_cons b r e m rest Ei) as Href.
      rewrite (html_bounded_cons b r c nd e m rest Ei).
      destruct (item_facts b r e m rest Ei) as (Hl1 & Hl6 & Hm & Hrest & Hlen).
      unfold hb_emit. destruct (length e <=? nd) eqn:E.
      * apply Nat.leb_le in E. cbn [fst snd].
        assert (Hr : length rest <= n) by (cbn [length] in Hn, Hlen; lia).
        destruct (IH rest (c + m) (nd - length e) Hr) as [Hl [[H1 H2]|(m' & H1 & H2 & H3 & H4 & H5)]].
        -- split; [rewrite app_length; lia|]. left. split.
           ++ rewrite H1. f_equal. lia.
           ++ rewrite H2, Href. reflexivity.
        -- split; [rewrite app_length; lia|]. right. exists (m + m'). repeat split.
           ++ rewrite H1, Nat.add_assoc. reflexivity.
           ++ lia.
           ++ rewrite Href, H3, <- app_assoc. rewrite <- skipn_add, <- Hrest. reflexivity.
           ++ lia.
           ++ lia.
           ++ rewrite Href, app_length. lia.
      * apply Nat.leb_gt in E. cbn [fst snd length]. split; [lia|]. right. exists 0. repeat split.
        -- rewrite Nat.add_0_r. reflexivity.
        -- lia.
        -- lia.
        -- rewrite Href, app_length. lia.
Qed.

Lemma hb_facts : forall s c nd,
  length (snd (html_bounded s c nd)) <= nd /\
  ((fst (html_bounded s c nd) = Z.of_nat (c + length s) /\ snd (html_bounded s c nd) = html_ref s) \/
   (exists m, fst (html_bounded s c nd) = (- Z.of_nat (c + m) - 1)%Z /\ m < length s /\
              html_ref s = snd (html_bounded s c nd) ++ html_ref (skipn m s) /\
              (m = 0 -> snd (html_bounded s c nd) = [] /\ nd < 6) /\
              nd < length (html_ref s))).
Proof. intros s c nd. apply (hb_facts_len (length s)). apply le_n. Qed.

(* ------------------------------------------------------------------------------------------ *)
(* html_loop, cut into the part after the finder (html_after) and the part at the cursor (html_at) *)
(* ------------------------------------------------------------------------------------------ *)

(* the body of html_loop from `if (nb <= 0) break` on; rec is the next iteration *)
Definition html_at (rec : list N -> nat -> list N -> nat -> hres) (dn0 cur : nat) (out1 : list N) (nd1 : nat)
           (s : list N) : hres :=
  match s with
  | [] => (Z.of_nat cur, length out1, out1)
  | ch :: r =>
    let esc (ch' : N) (n : nat) (rest : list N) : hres :=
      let nc := tab_n _HtmlQuoteTab ch' in
      if (nd1 <? nc)%nat then ((- Z.of_nat cur - 1)%Z, length out1, out1)
      else rec rest (cur + n) (out1 ++ tab_copy _HtmlQuoteTab ch') (nd1 - nc) in
    if (ch =? 226)%N then
      match is_u2028_tail r with
      | Some b2 => esc b2 3%nat (skipn 2 r)
      | None =>
        if (0 <? nd1)%nat then rec r (S cur) (out1 ++ [ch]) (nd1 - 1)
        else ((- Z.of_nat cur - 1)%Z, dn0, out1)
      end
    else esc ch 1%nat r
  end.

(* the body of html_loop once rb = memcchr_html_quote(...) is known *)
Definition html_after (rec : list N -> nat -> list N -> nat -> hres) (dn0 : nat) (src : list N) (consumed : nat)
           (out : list N) (nd : nat) (rb : Z) : hres :=
  if (rb <? 0)%Z then
    let k := Z.to_nat (- rb - 1) in
    ((- Z.of_nat (consumed + k) - 1)%Z, (length out + k)%nat, out ++ firstn k src)
  else
    let k := Z.to_nat rb in
    html_at rec dn0 (consumed + k) (out ++ firstn k src) (nd - k) (skipn k src).

Lemma html_loop_S : forall f ws dn0 src c out nd, src <> [] ->
  html_loop (S f) ws dn0 src c out nd =
  if (nd =? 0)%nat then ((- Z.of_nat c - 1)%Z, dn0, out)
  else html_after (html_loop f ws dn0) dn0 src c out nd (memcchr_html_quote ws src nd).
Proof. intros f ws dn0 src c out nd H. destruct src; [congruence|reflexivity]. Qed.

(* what the specification says about a state of the loop *)
Definition spec_res (s : list N) (c : nat) (out : list N) (nd : nat) : hres :=
  (fst (html_bounded s c nd), length (out ++ snd (html_bounded s c nd)), out ++ snd (html_bounded s c nd)).

(* one escape entry of _HtmlQuoteTab, n = 6 *)
Lemma esc_spec : forall (rec : list N -> nat -> list N -> nat -> hres) dn0 cur out1 nd1 ch r e m rest,
  dn0 = length out1 + nd1 ->
  html_item ch r = (e, m, rest) -> length e = 6 ->
  (forall rest c' out' nd', length rest < length (ch :: r) -> dn0 = length out' + nd' ->
                            rec rest c' out' nd' = spec_res rest c' out' nd') ->
  (if nd1 <? 6 then ((- Z.of_nat cur - 1)%Z, length out1, out1) else rec rest (cur + m) (out1 ++ e) (nd1 - 6))
  = spec_res (ch :: r) cur out1 nd1.
Proof.
  intros rec dn0 cur out1 nd1 ch r e m rest Hdn Hi Hl Hrec.
  unfold spec_res. rewrite (html_bounded_cons ch r cur nd1 e m rest Hi). unfold hb_emit. rewrite Hl.
  destruct (item_facts ch r e m rest Hi) as (_ & _ & Hm & _ & Hlen).
  destruct (nd1 <? 6) eqn:E.
  - apply Nat.ltb_lt in E. rewrite (proj2 (Nat.leb_gt 6 nd1)) by lia. cbn [fst snd]. rewrite app_nil_r. reflexivity.
  - apply Nat.ltb_ge in E. rewrite (proj2 (Nat.leb_le 6 nd1)) by lia. cbn [fst snd].
    rewrite Hrec; [|lia|rewrite app_length, Hl; lia].
    unfold spec_res. rewrite <- !app_assoc. reflexivity.
Qed.

Lemma html_at_spec : forall (rec : list N -> nat -> list N -> nat -> hres) dn0 cur out1 nd1 s,
  dn0 = length out1 + nd1 ->
  (forall ch r, s = ch :: r -> find_html_lane ch = true) ->
  (forall rest c' out' nd', length rest < length s -> dn0 = length out' + nd' ->
                            rec rest c' out' nd' = spec_res rest c' out' nd') ->
  html_at rec dn0 cur out1 nd1 s = spec_res s cur out1 nd1.
Proof.
  intros rec dn0 cur out1 nd1 s Hdn Hsp Hrec. destruct s as [|ch r].
  - unfold html_at, spec_res. cbn [html_bounded fst snd]. rewrite app_nil_r. reflexivity.
  - specialize (Hsp ch r eq_refl). unfold html_at. cbv zeta.
    destruct (N.eqb_spec ch 226) as [->|Hne].
    + destruct (is_u2028_tail r) as [b2|] eqn:Et.
      * destruct (item_u2028 r b2 Et) as (e & r2 & Hi & Hsk & Htc & Htn & Hl).
        rewrite Htn, Hsk, Htc. apply (esc_spec rec dn0 cur out1 nd1 226%N r e 3 r2); assumption.
      * pose proof (item_226_plain r Et) as Hi.
        unfold spec_res. rewrite (html_bounded_cons _ _ cur nd1 _ _ _ Hi). unfold hb_emit. cbn [length].
        destruct (0 <? nd1) eqn:E.
        -- apply Nat.ltb_lt in E. rewrite (proj2 (Nat.leb_le 1 nd1)) by lia. cbn [fst snd].
           rewrite Hrec; [|cbn [length]; lia|rewrite app_length; cbn [length]; lia].
           unfold spec_res. rewrite <- !app_assoc, Nat.add_1_r. reflexivity.
        -- apply Nat.ltb_ge in E. rewrite (proj2 (Nat.leb_gt 1 nd1)) by lia. cbn [fst snd].
           rewrite app_nil_r. f_equal. f_equal. lia.
    + apply N.eqb_neq in Hne.
      destruct (item_esc1 ch r Hsp Hne) as (e & Hi & Htc & Htn & Hl).
      rewrite Htn, Htc. apply (esc_spec rec dn0 cur out1 nd1 ch r e 1 r); assumption.
Qed.

Lemma nth_skipn_hd : forall (k : nat) (l : list N) a r d, skipn k l = a :: r -> nth k l d = a.
Proof.
  induction k; intros l a r d H; destruct l; cbn [skipn nth] in *; try discriminate.
  - inversion H; reflexivity.
  - eapply IHk; eassumption.
Qed.

Lemma html_after_spec : forall (rec : list N -> nat -> list N -> nat -> hres) dn0 src c out nd rb,
  dn0 = length out + nd ->
  mq_spec find_html_lane src 0 nd rb ->
  (forall rest c' out' nd', length rest < length src -> dn0 = length out' + nd' ->
                            rec rest c' out' nd' = spec_res rest c' out' nd') ->
  html_after rec dn0 src c out nd rb = spec_res src c out nd.
Proof.
  intros rec dn0 src c out nd rb Hdn Hmq Hrec. unfold html_after.
  pose proof (find_first_le find_html_lane src) as Hkl.
  unfold mq_spec in Hmq. rewrite !Nat.add_0_l in Hmq.
  destruct Hmq as [[Hrb Hk]|[Hrb [Hk Hl]]]; subst rb.
  - (* stopped at the first special byte or at the end *)
    destruct (Z.ltb_spec (Z.of_nat (find_first find_html_lane src)) 0) as [Hlt|_]; [lia|].
    cbv zeta. rewrite Nat2Z.id. set (K := find_first find_html_lane src) in *.
    rewrite html_at_spec.
    + unfold spec_res. rewrite (hb_plain K src c nd) by lia. cbn [fst snd].
      rewrite <- !app_assoc. reflexivity.
    + rewrite app_length, firstn_length. lia.
    + intros ch r Hs.
      assert (HK : K < length src).
      { apply (f_equal (@length N)) in Hs. rewrite skipn_length in Hs. cbn [length] in Hs. lia. }
      rewrite <- (nth_skipn_hd K src ch r 0%N Hs). apply find_first_hit. exact HK.
    + intros rest c' out' nd' Hlen Hd. apply Hrec; [|assumption]. rewrite skipn_length in Hlen. lia.
  - (* destination full after nd plain bytes, input left *)
    destruct (Z.ltb_spec (- Z.of_nat nd - 1) 0) as [_|Hge]; [|lia].
    cbv zeta. replace (- (- Z.of_nat nd - 1) - 1)%Z with (Z.of_nat nd) by lia. rewrite Nat2Z.id.
    unfold spec_res. rewrite (hb_plain nd src c nd) by lia. rewrite Nat.sub_diag.
    rewrite hb_zero.
    + cbn [fst snd]. rewrite app_nil_r, app_length, firstn_length, Nat.min_l by lia. reflexivity.
    + intros H. apply (f_equal (@length N)) in H. rewrite skipn_length in H. cbn [length] in H. lia.
Qed.

Lemma html_loop_spec : forall fuel ws dn0 src c out nd,
  Forall (fun W => 0 < W) ws -> length src < fuel -> dn0 = length out + nd ->
  html_loop fuel ws dn0 src c out nd = spec_res src c out nd.
Proof.
  induction fuel as [|f IH]; intros ws dn0 src c out nd Hws Hf Hdn; [lia|].
  destruct src as [|b0 s0].
  - unfold spec_res. cbn [html_loop html_bounded fst snd]. rewrite app_nil_r. reflexivity.
  - assert (Hne : b0 :: s0 <> []) by discriminate. rewrite (html_loop_S f ws dn0 _ c out nd Hne).
    destruct (nd =? 0) eqn:E0.
    + apply Nat.eqb_eq in E0. subst nd. unfold spec_res. rewrite (hb_zero _ c Hne). cbn [fst snd].
      rewrite app_nil_r. f_equal. f_equal. lia.
    + apply html_after_spec.
      * assumption.
      * unfold memcchr_html_quote. apply memcchr_ws_spec; [assumption|reflexivity].
      * intros rest c' out' nd' Hlen Hd. apply IH; [assumption|lia|assumption].
Qed.

(* ------------------------------------------------------------------------------------------ *)
(* Theorems about native html_escape                                                            *)
(* ------------------------------------------------------------------------------------------ *)

Theorem html_escape_spec : forall ws src dn, Forall (fun W => 0 < W) ws ->
  html_escape ws src dn = let '(ret, out) := html_bounded src 0 dn in (ret, length out, out).
Proof.
  intros ws src dn Hws. unfold html_escape.
  rewrite (html_loop_spec (S (length src)) ws dn src 0 [] dn Hws); [|lia|reflexivity].
  unfold spec_res. destruct (html_bounded src 0 dn) as [ret o]. reflexivity.
Qed.

Theorem html_escape_full : forall ws src dn, Forall (fun W => 0 < W) ws ->
  length (html_ref src) <= dn ->
  html_escape ws src dn = (Z.of_nat (length src), length (html_ref src), html_ref src).
Proof.
  intros ws src dn Hws Hfit. rewrite (html_escape_spec ws src dn Hws).
  destruct (hb_facts src 0 dn) as [_ [[H1 H2]|(m & _ & _ & _ & _ & H5)]]; [|lia].
  destruct (html_bounded src 0 dn) as [ret o]. cbn [fst snd] in H1, H2. subst. reflexivity.
Qed.

Theorem html_escape_width_independent : forall ws src dn, Forall (fun W => 0 < W) ws ->
  html_escape ws src dn = html_escape [] src dn.
Proof.
  intros ws src dn Hws. rewrite (html_escape_spec ws src dn Hws), (html_escape_spec [] src dn (Forall_nil _)).
  reflexivity.
Qed.

Example html_escape_full_ex :
  html_escape ws_avx2 [60; 97; 226; 128; 168]%N 13 = (5%Z, 13, [92; 117; 48; 48; 51; 99; 97; 92; 117; 50; 48; 50; 56]%N)
  /\ length (html_ref [60; 97; 226; 128; 168]%N) <= 13.
Proof. vm_compute. split; [reflexivity|lia]. Qed.

(* ------------------------------------------------------------------------------------------ *)
(* The Go grow loop alg.HtmlEscape                                                              *)
(* ------------------------------------------------------------------------------------------ *)

Lemma pad64 : N.to_nat go_BufPaddingSize = 64.
Proof. reflexivity. Qed.

Lemma firstn_len_app : forall (o x : list N), firstn (length o) (o ++ x) = o.
Proof. intros o x. rewrite firstn_app, Nat.sub_diag, firstn_all. cbn [firstn]. apply app_nil_r. Qed.

Section GoHtmlProofs.
  Variable grow : nat -> nat -> nat.
  Hypothesis grow_ge : forall old req, req <= grow old req.
  Variable ws : list nat.
  Hypothesis ws_pos : Forall (fun W => 0 < W) ws.

  Lemma go_loop_S : forall f src dst cap, src <> [] ->
    go_html_loop grow ws (S f) src dst cap =
    let r := html_escape ws src (cap - length dst) in
    let dst' := dst ++ firstn (snd (fst r)) (snd r ++ repeat 0%N (snd (fst r))) in
    if (0 <=? fst (fst r))%Z then GoOk dst'
    else go_html_loop grow ws f (skipn (Z.to_nat (- fst (fst r) - 1)) src) dst' (grow cap (cap * 2)).
  Proof.
    intros f src dst cap H. destruct src; [congruence|]. cbn [go_html_loop].
    destruct (html_escape ws (n :: src) (cap - length dst)) as [[nb dn'] out]. reflexivity.
  Qed.

  (* termination: the potential 8 * |src| + (8 - min 7 free) strictly decreases at every failing native call:
     either at least one input byte was consumed, or nothing was written, fewer than 6 bytes were free and the
     free space grows because the new capacity is at least 2 * cap with cap >= 1 *)
  Lemma go_loop_spec : forall fuel src dst cap,
    length dst <= cap -> 1 <= cap ->
    8 * length src + (8 - Nat.min 7 (cap - length dst)) <= fuel ->
    go_html_loop grow ws fuel src dst cap = GoOk (dst ++ html_ref src).
  Proof.
    induction fuel as [|f IH]; intros src dst cap Hd Hc Hpot; [lia|].
    destruct src as [|b0 s0].
    - cbn [go_html_loop html_ref]. rewrite app_nil_r. reflexivity.
    - assert (Hne : b0 :: s0 <> []) by discriminate. rewrite (go_loop_S f _ dst cap Hne).
      set (src := b0 :: s0) in *. rewrite (html_escape_spec ws src _ ws_pos).
      pose proof (hb_facts src 0 (cap - length dst)) as HF.
      destruct (html_bounded src 0 (cap - length dst)) as [ret o]. cbn [fst snd] in HF. cbv zeta. cbn [fst snd].
      rewrite firstn_len_app.
      destruct HF as [Hl [[H1 H2]|(m & H1 & H2 & H3 & H4 & H5)]].
      + destruct (Z.leb_spec 0 ret) as [_|Hlt]; [|lia]. rewrite H2. reflexivity.
      + rewrite Nat.add_0_l in H1. destruct (Z.leb_spec 0 ret) as [Hge|_]; [lia|].
        subst ret. replace (- (- Z.of_nat m - 1) - 1)%Z with (Z.of_nat m) by lia. rewrite Nat2Z.id.
        pose proof (grow_ge cap (cap * 2)) as Hg.
        rewrite IH.
        * rewrite H3, app_assoc. reflexivity.
        * rewrite app_length. lia.
        * lia.
        * rewrite app_length, skipn_length.
          destruct m as [|m'].
          -- destruct (H4 eq_refl) as [Ho Hnd]. subst o. cbn [length]. lia.
          -- lia.
  Qed.

  (* HtmlEscape(dst, src) = dst ++ HTMLEscape(src) for every destination: the panic branch of rt.GrowSlice is
     unreachable since the request includes len(dst) *)
  Theorem go_html_escape_spec : forall dst cap src,
    length dst <= cap ->
    go_html_escape grow ws dst cap src = GoOk (dst ++ html_ref src).
  Proof.
    intros dst cap src Hd. unfold go_html_escape, go_html_fuel. rewrite pad64.
    set (x := length src * 3 / 2) in *.
    destruct (cap - length dst <? length src + 64) eqn:E1.
    - apply Nat.ltb_lt in E1. destruct (length dst + x + 64 <? length dst) eqn:E2.
      + apply Nat.ltb_lt in E2. lia.
      + pose proof (grow_ge cap (length dst + x + 64)) as Hg.
        apply go_loop_spec; lia.
    - apply Nat.ltb_ge in E1. apply go_loop_spec; lia.
  Qed.

  (* the bytes already in dst are preserved *)
  Corollary go_html_escape_prefix : forall dst cap src,
    length dst <= cap ->
    exists out, go_html_escape grow ws dst cap src = GoOk out /\ firstn (length dst) out = dst.
  Proof.
    intros dst cap src Hd. exists (dst ++ html_ref src). split.
    - apply go_html_escape_spec; assumption.
    - apply firstn_len_app.
  Qed.
End GoHtmlProofs.

Lemma grow_exact_ge : forall old req, req <= grow_exact old req.
Proof. intros. unfold grow_exact. apply le_n. Qed.

Example go_html_escape_ex :
  go_html_escape grow_exact ws_avx2 [34%N] 1 [60; 97]%N = GoOk [34; 92; 117; 48; 48; 51; 99; 97]%N
  /\ go_html_escape grow_exact ws_sse [34%N] 1 [60; 97]%N = GoOk ([34%N] ++ html_ref [60; 97]%N).
Proof.
  split; [vm_compute; reflexivity|].
  apply (go_html_escape_spec grow_exact grow_exact_ge ws_sse ws_sse_pos). vm_compute. lia.
Qed.

(* regression witness of the defect repaired by e1e5e27 (65 bytes in a slice of capacity 65, empty src used to
   make rt.GrowSlice panic): the repaired loop appends nothing and keeps the prefix *)
Example go_html_escape_regression :
  go_html_escape grow_exact ws_avx2 (repeat 112%N 65) 65 [] = GoOk (repeat 112%N 65).
Proof. vm_compute. reflexivity. Qed.
