(* C20 <-> C04: the json.HTMLEscape reference of C20 (HtmlProofs.html_ref, what native html_escape and the Go loop
   alg.HtmlEscape are proved to compute) is the HTML pass of C04's encodeFinish model (Enc/Prims.html_escape), for which
   b-c03 proved that strict RFC 8259 texts stay strict and are rewritten only inside string literals
   (Enc/Finish.html_escape_strict).  Hence: the bytes alg.HtmlEscape appends for a strict JSON text are strict JSON. *)
From Coq Require Import NArith ZArith Bool List Lia.
From SV.Str Require Import Common HtmlEsc FinderProofs HtmlProofs.
From SV.Enc Require Prims Finish.
From SV.Json Require Grammar.
Import ListNotations.
Open Scope nat_scope.

Lemma html_ref_eq_c04_len : forall n s, length s <= n -> html_ref s = Prims.html_escape s.
Proof.
  induction n as [|n IH]; intros s Hn.
  - destruct s; [reflexivity|simpl in Hn; lia].
  - destruct s as [|b r]; [reflexivity|]. cbn [length] in Hn.
    rewrite Finish.html_unfold. cbn [html_ref]. unfold html_esc1.
    destruct (b =? 60)%N; [rewrite IH by lia; reflexivity|].
    destruct (b =? 62)%N; [rewrite IH by lia; reflexivity|].
    destruct (b =? 38)%N; [rewrite IH by lia; reflexivity|].
    destruct r as [|b1 [|b2 r2]]; cbn [length] in *.
    + destruct (b =? 226)%N; reflexivity.
    + destruct (b =? 226)%N; cbn [Finish.html_special]; rewrite IH by (cbn [length]; lia); reflexivity.
    + unfold html_esc3. cbn [Finish.html_special].
      destruct (b =? 226)%N; cbn [andb].
      * destruct (b1 =? 128)%N; cbn [andb].
        -- destruct (b2 =? 168)%N; [rewrite IH by lia; reflexivity|].
           destruct (b2 =? 169)%N; [rewrite IH by lia; reflexivity|].
           rewrite IH by (cbn [length]; lia). reflexivity.
        -- rewrite IH by (cbn [length]; lia). reflexivity.
      * rewrite IH by (cbn [length]; lia). reflexivity.
Qed.

Theorem html_ref_eq_c04 : forall s, html_ref s = Prims.html_escape s.
Proof. intros s. apply (html_ref_eq_c04_len (length s)). apply le_n. Qed.

(* escaping acts only inside string literals of a valid JSON text and preserves validity (C04's theorem, transported) *)
Theorem html_ref_strict : forall d v, Grammar.strict d v -> Grammar.strict d (html_ref v).
Proof. intros d v H. rewrite html_ref_eq_c04. apply Finish.html_escape_strict. exact H. Qed.

(* ... all the way through the native routine and the Go grow loop, for every capacity schedule and block width *)
Theorem go_html_escape_strict : forall (grow : nat -> nat -> nat), (forall old req, req <= grow old req) ->
  forall ws, Forall (fun W => 0 < W) ws ->
  forall d cap src, Grammar.strict d src ->
  exists out, go_html_escape grow ws [] cap src = GoOk out /\ Grammar.strict d out.
Proof.
  intros grow Hg ws Hw d cap src H. exists (html_ref src). split.
  - rewrite (go_html_escape_spec grow Hg ws Hw [] cap src) by (cbn [length]; lia). reflexivity.
  - apply html_ref_strict. exact H.
Qed.
