(* C20 - the Go restart loop alg.Quote: for every capacity schedule (any growslice that returns at least the
   requested capacity, any initial capacity, any block widths) the result is prefix ++ quoted literal. *)
From Coq Require Import NArith ZArith Bool List Lia.
From SV.Gen Require Import Tables.
From SV.Str Require Import Common Quote TablesOk FinderProofs QuoteProofs.
Import ListNotations.
Open Scope nat_scope.

(* the JSON literal alg.Quote appends: "..." or, in double mode, "\"...\"" *)
Definition quote_lit (double : bool) (v : list N) : list N :=
  if double then [34; 92; 34]%N ++ escape_all _DoubleQuoteTab v ++ [92; 34; 34]%N
  else [34]%N ++ escape_all _SingleQuoteTab v ++ [34]%N.

Section GoQuote.
  Variable grow : nat -> nat -> nat.
  Hypothesis grow_ge : forall old req, req <= grow old req.
  Variable ws : list nat.
  Hypothesis HW : Forall (fun W => 0 < W) ws.

  Lemma go_quote_loop_spec : forall fuel flags src buf cap,
    1 <= cap -> length buf <= cap ->
    8 * length src + (8 - Nat.min 7 (cap - length buf)) <= fuel ->
    go_quote_loop grow ws fuel flags src buf cap = Some (buf ++ escape_all (quote_tab flags) src).
  Proof.
    induction fuel as [|f IH]; intros flags src buf cap Hc Hb Hf; [lia|].
    pose proof (quote_tab_good flags) as G.
    destruct src as [|b0 r0].
    - simpl. rewrite app_nil_r. reflexivity.
    - remember (b0 :: r0) as src eqn:Esrc. cbn [go_quote_loop].
      replace (match src with [] => Some buf | _ :: _ => _ end) with
        (let dn := cap - length buf in
         let '(ret, out) := quote ws flags src dn in
         let buf' := buf ++ out in
         if (0 <=? ret)%Z then Some buf'
         else go_quote_loop grow ws f flags (skipn (Z.to_nat (- ret - 1)) src) buf' (grow cap (cap * 2)))
        by (subst src; reflexivity).
      cbv zeta. rewrite quote_spec by assumption.
      destruct (quote_ref (quote_tab flags) src 0 (cap - length buf)) as [ret o] eqn:EQ.
      destruct (quote_ref_cases _ G _ _ _ _ _ EQ) as [[H1 H2]|(c & Hc1 & H1 & H2 & H3 & H4)].
      + subst ret o. destruct (0 <=? Z.of_nat (0 + length src))%Z eqn:E; [reflexivity|apply Z.leb_gt in E; lia].
      + subst ret. destruct (0 <=? - Z.of_nat (0 + c) - 1)%Z eqn:E; [apply Z.leb_le in E; lia|].
        replace (Z.to_nat (- (- Z.of_nat (0 + c) - 1) - 1)) with c by lia.
        pose proof (grow_ge cap (cap * 2)) as HG.
        pose proof (cost_bounds _ G (nth c src 0%N)) as HC.
        rewrite IH.
        * rewrite <- app_assoc. f_equal. subst o. rewrite <- escape_all_app, firstn_skipn. reflexivity.
        * lia.
        * rewrite app_length. lia.
        * rewrite skipn_length, app_length.
          destruct (Nat.eq_dec c 0) as [C0|C0].
          -- subst c. assert (Ho : o = []) by (rewrite H2; reflexivity). rewrite Ho in *. cbn [length] in *. lia.
          -- lia.
  Qed.

  Theorem go_quote_spec : forall buf cap val double,
    go_quote grow ws buf cap val double = Some (buf ++ quote_lit double val).
  Proof.
    intros buf cap val double. unfold go_quote, quote_lit.
    destruct val as [|v0 vr] eqn:EV.
    - destruct double; reflexivity.
    - rewrite <- EV.
      set (pre := if double then [34; 92; 34]%N else [34]%N).
      assert (Hpre : 1 <= length pre) by (unfold pre; destruct double; simpl; lia).
      set (buf1 := buf ++ pre).
      assert (Hb1 : 1 <= length buf1) by (unfold buf1; rewrite app_length; lia).
      set (cap1 := Nat.max cap (length buf1)).
      set (cap2 := guard_slice2 (length buf1) cap1 (length val + 1)).
      assert (Hcap2 : length buf1 <= cap2).
      { unfold cap2, guard_slice2. destruct (cap1 - length buf1 <? length val + 1); unfold cap1; lia. }
      rewrite go_quote_loop_spec; [| lia | exact Hcap2 | unfold go_quote_fuel; lia].
      unfold buf1, pre. destruct double.
      + change (quote_tab go_F_DOUBLE_UNQUOTE) with _DoubleQuoteTab. rewrite <- !app_assoc. reflexivity.
      + change (quote_tab 0%N) with _SingleQuoteTab. rewrite <- !app_assoc. reflexivity.
  Qed.
End GoQuote.

(* encoder.Quote *)
Theorem encoder_quote_spec : forall ws s, Forall (fun W => 0 < W) ws ->
  encoder_quote ws s = Some ([34]%N ++ escape_all _SingleQuoteTab s ++ [34]%N).
Proof.
  intros ws s HW. unfold encoder_quote. rewrite (go_quote_spec grow_exact) by (auto; intros; unfold grow_exact; lia).
  reflexivity.
Qed.

Example go_quote_example :
  go_quote grow_exact ws_avx2 [120]%N 1 [34; 97; 10]%N true =
  Some [120; 34; 92; 34; 92; 92; 92; 34; 97; 92; 92; 110; 92; 34; 34]%N.
Proof. vm_compute. reflexivity. Qed.
