(* C20 - the literal written by ast.quoteString (ast/encode.go), unquoted by the native unquoter in
   single mode (with or without F_UNIREP), gives back the input byte string exactly. *)
From Coq Require Import NArith ZArith Bool List Lia.
From SV.Gen Require Import Tables.
From SV.Str Require Import Common RefUtf8 Unquote TablesOk RoundTrip AstQuote.
Import ListNotations.
Open Scope nat_scope.

(* ---- ASCII bytes: one complete sweep over the shape of quote_ascii ---- *)
Definition ascii_rt_b (b : N) : bool :=
  implb (b <? 128)%N
    match quote_ascii b with
    | [a] => (a =? b)%N && negb (isBS b)
    | [a; c] => (a =? BS)%N && simple_ok c b
    | [a; u; h1; h2; h3; h4] => (a =? BS)%N && (u =? 117)%N && hex_ok h1 h2 h3 h4 b
    | _ => false
    end.

Lemma ascii_rt_sweep : forallb ascii_rt_b bytes256 = true.
Proof. vm_compute. reflexivity. Qed.

Lemma ascii_rt : forall b, (b <? 128)%N = true ->
  match quote_ascii b with
  | [a] => (a =? b)%N && negb (isBS b)
  | [a; c] => (a =? BS)%N && simple_ok c b
  | [a; u; h1; h2; h3; h4] => (a =? BS)%N && (u =? 117)%N && hex_ok h1 h2 h3 h4 b
  | _ => false
  end = true.
Proof.
  intros b Hb. assert (Hlt : (b < 256)%N) by (apply N.ltb_lt in Hb; lia).
  pose proof (sweep256 _ ascii_rt_sweep b Hlt) as H. unfold ascii_rt_b in H.
  rewrite Hb in H. exact H.
Qed.

(* ---- byte facts used to invert seq_rune = 0x2028 / 0x2029 ---- *)
Definition byte_facts_b (b : N) : bool :=
  (N.land b 63 <? 64)%N && (N.land b 31 <? 32)%N && (N.land b 15 <? 16)%N && (N.land b 7 <? 8)%N &&
  implb (cont b) (b =? 128 + N.land b 63)%N &&
  implb (inr8 224 239 b) (b =? 224 + N.land b 15)%N &&
  implb (inr8 240 244 b) (b =? 240 + N.land b 7)%N.

Lemma byte_facts_sweep : forallb byte_facts_b bytes256 = true.
Proof. vm_compute. reflexivity. Qed.

Lemma inr8_iff : forall lo hi b, inr8 lo hi b = true <-> (lo <= b /\ b <= hi)%N.
Proof. intros. unfold inr8. rewrite andb_true_iff, !N.leb_le. tauto. Qed.

Lemma byte_facts : forall b, (b < 256)%N ->
  (N.land b 63 < 64)%N /\ (N.land b 31 < 32)%N /\ (N.land b 15 < 16)%N /\ (N.land b 7 < 8)%N /\
  (cont b = true -> b = 128 + N.land b 63)%N /\
  (inr8 224 239 b = true -> b = 224 + N.land b 15)%N /\
  (inr8 240 244 b = true -> b = 240 + N.land b 7)%N.
Proof.
  intros b Hb. pose proof (sweep256 _ byte_facts_sweep b Hb) as H. unfold byte_facts_b in H.
  repeat match goal with
         | H : _ && _ = true |- _ => apply andb_prop in H; destruct H
         end.
  repeat match goal with
         | H : (_ <? _)%N = true |- _ => apply N.ltb_lt in H
         end.
  repeat split; try assumption.
  - intros E. rewrite E in *. cbn [implb] in *. apply N.eqb_eq. assumption.
  - intros E. rewrite E in *. cbn [implb] in *. apply N.eqb_eq. assumption.
  - intros E. rewrite E in *. cbn [implb] in *. apply N.eqb_eq. assumption.
Qed.

Lemma inr8_lt256 : forall lo hi b, (hi < 256)%N -> inr8 lo hi b = true -> (b < 256)%N.
Proof. intros lo hi b Hh H. apply inr8_iff in H. lia. Qed.

Lemma cont_lt256 : forall b, cont b = true -> (b < 256)%N.
Proof. intros b H. apply (inr8_lt256 128 191); [lia|exact H]. Qed.

Definition is_ls (c : N) : bool := ((c =? 8232) || (c =? 8233))%N.

(* a well-formed sequence that starts with a non-ASCII byte and denotes U+2028 / U+2029 is E2 80 A8 / E2 80 A9 *)
Lemma seq_ls : forall s n c, seq_len s = S n -> seq_rune (S n) s = c -> (c = 8232 \/ c = 8233)%N ->
  (nth 0 s 0 <? 128)%N = false ->
  firstn (S n) s = [226; 128; 128 + N.land c 63]%N /\ (N.land c 63 = 40 \/ N.land c 63 = 41)%N.
Proof.
  intros s n c Hlen Hr Hc Hb0.
  destruct s as [|b0 r]; [discriminate|].
  cbn [nth] in Hb0. unfold seq_len in Hlen.
  destruct (b0 <=? 127)%N eqn:E0; [apply N.leb_le in E0; apply N.ltb_ge in Hb0; lia|].
  destruct (inr8 194 223 b0) eqn:E2.
  { destruct r as [|b1 r1]; [discriminate|]. destruct (cont b1) eqn:C1; [|discriminate].
    injection Hlen as <-. exfalso.
    unfold seq_rune in Hr. cbn [nth] in Hr.
    pose proof (byte_facts b0 (inr8_lt256 194 223 b0 ltac:(lia) E2)) as (_ & F0 & _).
    pose proof (byte_facts b1 (cont_lt256 _ C1)) as (F1 & _).
    lia. }
  destruct (inr8 224 239 b0) eqn:E3.
  { destruct r as [|b1 [|b2 r2]]; try discriminate.
    match type of Hlen with (if ?g && _ then _ else _) = _ => destruct g eqn:G1 end;
      [|discriminate].
    destruct (cont b2) eqn:C2; [|discriminate]. cbn [andb] in Hlen. injection Hlen as <-.
    unfold seq_rune in Hr. cbn [nth] in Hr.
    pose proof (byte_facts b0 (inr8_lt256 224 239 b0 ltac:(lia) E3)) as (_ & _ & F0 & _ & _ & F0' & _).
    specialize (F0' E3).
    assert (C1 : cont b1 = true).
    { destruct (b0 =? 224)%N; [|destruct (b0 =? 237)%N]; try assumption;
        apply inr8_iff in G1; apply inr8_iff; lia. }
    pose proof (byte_facts b1 (cont_lt256 _ C1)) as (F1 & _ & _ & _ & F1' & _). specialize (F1' C1).
    pose proof (byte_facts b2 (cont_lt256 _ C2)) as (F2 & _ & _ & _ & F2' & _). specialize (F2' C2).
    cbn [firstn].
    destruct Hc as [Hc|Hc]; rewrite Hc in Hr |- *;
      [change (N.land 8232 63) with 40%N|change (N.land 8233 63) with 41%N];
      (split; [|lia]);
      assert (A0 : N.land b0 15 = 2%N) by lia; assert (A1 : N.land b1 63 = 0%N) by lia;
      [assert (A2 : N.land b2 63 = 40%N) by lia|assert (A2 : N.land b2 63 = 41%N) by lia];
      rewrite A0 in F0'; rewrite A1 in F1'; rewrite A2 in F2'; rewrite F0', F1', F2'; reflexivity. }
  destruct (inr8 240 244 b0) eqn:E4; [|discriminate].
  destruct r as [|b1 [|b2 [|b3 r3]]]; try discriminate.
  match type of Hlen with (if ?g && _ && _ then _ else _) = _ => destruct g eqn:G1 end;
    [|discriminate].
  destruct (cont b2) eqn:C2; [|discriminate]. destruct (cont b3) eqn:C3; [|discriminate].
  cbn [andb] in Hlen. injection Hlen as <-. exfalso.
  unfold seq_rune in Hr. cbn [nth] in Hr.
  pose proof (byte_facts b0 (inr8_lt256 240 244 b0 ltac:(lia) E4)) as (_ & _ & _ & F0 & _ & _ & F0').
  specialize (F0' E4).
  pose proof (byte_facts b2 (cont_lt256 _ C2)) as (F2 & _).
  pose proof (byte_facts b3 (cont_lt256 _ C3)) as (F3 & _).
  destruct (N.eqb_spec b0 240) as [e|ne].
  - assert (C1 : cont b1 = true) by (apply inr8_iff in G1; apply inr8_iff; lia).
    pose proof (byte_facts b1 (cont_lt256 _ C1)) as (F1 & _ & _ & _ & F1' & _). specialize (F1' C1).
    apply inr8_iff in G1. lia.
  - apply inr8_iff in E4.
    assert (1 <= N.land b0 7)%N by lia.
    assert (0 <= N.land b1 63)%N by lia. nia.
Qed.

(* the bytes of a well-formed multi-byte sequence are all >= 128 *)
Lemma seq_high : forall s n, seq_len s = S n -> (nth 0 s 0 <? 128)%N = false ->
  Forall (fun b => isBS b = false) (firstn (S n) s) /\ length (firstn (S n) s) = S n.
Proof.
  intros s n Hlen Hb0.
  assert (HBS : forall b, (128 <= b)%N -> isBS b = false).
  { intros b H. unfold isBS, BS. apply N.eqb_neq. lia. }
  assert (HC : forall b, cont b = true -> isBS b = false).
  { intros b H. apply HBS. apply inr8_iff in H. lia. }
  destruct s as [|b0 r]; [discriminate|].
  cbn [nth] in Hb0. apply N.ltb_ge in Hb0. unfold seq_len in Hlen.
  destruct (b0 <=? 127)%N eqn:E0; [apply N.leb_le in E0; lia|].
  destruct (inr8 194 223 b0) eqn:E2.
  { destruct r as [|b1 r1]; [discriminate|]. destruct (cont b1) eqn:C1; [|discriminate].
    injection Hlen as <-. cbn [firstn length]. split; [|reflexivity].
    repeat constructor; auto. }
  destruct (inr8 224 239 b0) eqn:E3.
  { destruct r as [|b1 [|b2 r2]]; try discriminate.
    match type of Hlen with (if ?g && _ then _ else _) = _ => destruct g eqn:G1 end;
      [|discriminate].
    destruct (cont b2) eqn:C2; [|discriminate]. cbn [andb] in Hlen. injection Hlen as <-.
    assert (C1 : (128 <= b1)%N).
    { destruct (b0 =? 224)%N; [|destruct (b0 =? 237)%N]; apply inr8_iff in G1; lia. }
    cbn [firstn length]. split; [|reflexivity]. repeat constructor; auto. }
  destruct (inr8 240 244 b0) eqn:E4; [|discriminate].
  destruct r as [|b1 [|b2 [|b3 r3]]]; try discriminate.
  match type of Hlen with (if ?g && _ && _ then _ else _) = _ => destruct g eqn:G1 end;
    [|discriminate].
  destruct (cont b2) eqn:C2; [|discriminate]. destruct (cont b3) eqn:C3; [|discriminate].
  cbn [andb] in Hlen. injection Hlen as <-.
  assert (C1 : (128 <= b1)%N).
  { destruct (b0 =? 240)%N; [|destruct (b0 =? 244)%N]; apply inr8_iff in G1; lia. }
  cbn [firstn length]. split; [|reflexivity]. repeat constructor; auto.
Qed.

Lemma ucons_nil : forall r, ucons [] r = r.
Proof. intros [o|c e]; reflexivity. Qed.

Section Loop3.
  Variable flags : N.
  Variable x : nat.

  (* a run of non-backslash bytes is copied *)
  Lemma unq_plain_run : forall l f rest pos, Forall (fun b => isBS b = false) l ->
    unquote_loop flags x (S f) (l ++ rest) pos = ucons l (unquote_loop flags x (S f) rest (pos + length l)).
  Proof.
    induction l as [|b l IH]; intros f rest pos H.
    - rewrite ucons_nil. cbn [app length]. replace (pos + 0) with pos by lia. reflexivity.
    - inversion H as [|? ? Hb Hl]; subst.
      change ((b :: l) ++ rest) with (b :: (l ++ rest)).
      rewrite unq_plain by assumption. rewrite IH by assumption. rewrite ucons_ucons.
      cbn [length]. replace (S pos + length l) with (pos + S (length l)) by lia. reflexivity.
  Qed.

  (* a \uXXXX escape of a BMP scalar value outside the surrogate range: three bytes *)
  Lemma esc_tail_u3 : forall h1 h2 h3 h4 rest pos2 r,
    unhex16_is [h1; h2; h3; h4] = true -> unhex16_fast [h1; h2; h3; h4] = r ->
    (r <=? 127)%N = false -> (r <=? 2047)%N = false -> ((r <? 55296) || (57343 <? r))%N = true ->
    (let cc := unquote_tab 117 in
      if (cc =? 0)%Z then inr (c_ERR_ESCAPE, (Z.of_nat pos2 - 1)%Z)
      else if negb (cc =? -1)%Z then inl ([Z.to_N (cc mod 256)], h1 :: h2 :: h3 :: h4 :: rest, pos2)
      else if (length (h1 :: h2 :: h3 :: h4 :: rest) <? 4)%nat then inr (c_ERR_EOF, zx x)
      else if negb (unhex16_is (h1 :: h2 :: h3 :: h4 :: rest)) then inr (c_ERR_INVAL, Z.of_nat (pos2 + count_hex 4 (h1 :: h2 :: h3 :: h4 :: rest)))
      else decode_rune flags x (S (length (h1 :: h2 :: h3 :: h4 :: rest))) (unhex16_fast (h1 :: h2 :: h3 :: h4 :: rest))
                       (skipn 4 (h1 :: h2 :: h3 :: h4 :: rest)) (pos2 + 4))
    = inl (enc3 r, rest, pos2 + 4).
  Proof.
    intros h1 h2 h3 h4 rest pos2 r H1 H2 H3 H4 H5. cbv zeta.
    change (unquote_tab 117) with (-1)%Z. cbv iota beta.
    change ((-1 =? 0)%Z) with false. change (negb (-1 =? -1)%Z) with false. cbv iota.
    change (length (h1 :: h2 :: h3 :: h4 :: rest) <? 4) with false. cbv iota.
    change (unhex16_is (h1 :: h2 :: h3 :: h4 :: rest)) with (unhex16_is [h1; h2; h3; h4]). rewrite H1. cbv iota. cbn [negb].
    change (unhex16_fast (h1 :: h2 :: h3 :: h4 :: rest)) with (unhex16_fast [h1; h2; h3; h4]). rewrite H2.
    change (skipn 4 (h1 :: h2 :: h3 :: h4 :: rest)) with rest.
    cbn [decode_rune]. rewrite H3, H4, H5. reflexivity.
  Qed.
End Loop3.

Lemma hexd_ls : forall c, (c = 8232 \/ c = 8233)%N ->
  let h := hexd (N.land c 15) in
  unhex16_is [50; 48; 50; h]%N = true /\ unhex16_fast [50; 48; 50; h]%N = c /\
  enc3 c = [226; 128; 128 + N.land c 63]%N.
Proof. intros c [H|H]; subst c; vm_compute; auto. Qed.

Section Single.
  Variable flags : N.
  Hypothesis Hsingle : has flags c_F_DBLUNQ = false.
  Variable x : nat.

  Lemma unquote_ast_quote_loop : forall fuel s f pos,
    length s <= fuel -> length (quote_string_go fuel s) < f ->
    unquote_loop flags x f (quote_string_go fuel s) pos = UOk s.
  Proof.
    induction fuel as [|fuel IH]; intros s f pos Hs Hf.
    - destruct s; [|cbn [length] in Hs; lia]. destruct f; reflexivity.
    - destruct s as [|b r]; [destruct f; reflexivity|].
      cbn [length] in Hs.
      cbn [quote_string_go] in *.
      destruct (b <? 128)%N eqn:Hb.
      + (* ASCII *)
        pose proof (ascii_rt b Hb) as H1.
        rewrite app_length in Hf.
        destruct (quote_ascii b) as [|a [|c [|h1 [|h2 [|h3 [|h4 [|? ?]]]]]]]; try discriminate;
          [| |rename c into u0].
        * (* copied *)
          split_andb. subst a.
          destruct f as [|f]; [lia|].
          change ([b] ++ quote_string_go fuel r) with (b :: quote_string_go fuel r).
          rewrite unq_plain by (destruct (isBS b); [discriminate|reflexivity]).
          rewrite IH by (cbn [length] in Hf; lia). reflexivity.
        * (* \c *)
          unfold simple_ok in H1. cbv zeta in H1. split_andb.
          destruct f as [|f]; [lia|].
          change ([BS; c] ++ quote_string_go fuel r) with (BS :: c :: quote_string_go fuel r) in *.
          rewrite unq_esc, (esc_step_single flags Hsingle).
          rewrite (esc_tail flags x c _ _ (unquote_tab c) eq_refl) by assumption. use_value b.
          rewrite IH by (cbn [length] in Hf; lia). reflexivity.
        * (* \u00XY *)
          unfold hex_ok in H1. split_andb.
          destruct f as [|f]; [lia|].
          change ([BS; 117%N; h1; h2; h3; h4] ++ quote_string_go fuel r)
            with (BS :: 117%N :: h1 :: h2 :: h3 :: h4 :: quote_string_go fuel r) in *.
          rewrite unq_esc, (esc_step_single flags Hsingle).
          rewrite esc_tail_u by (try assumption; use_value b; assumption). use_value b.
          rewrite IH by (cbn [length] in Hf; lia). reflexivity.
      + (* non-ASCII *)
        unfold decode_rune_in_string in *.
        destruct (seq_len (b :: r)) as [|n] eqn:Hlen.
        * (* ill-formed: the byte itself is copied *)
          change ((65533 =? 8232)%N || (65533 =? 8233)%N) with false in *. cbv iota in *.
          change (firstn 1 (b :: r)) with [b] in *. change (skipn 1 (b :: r)) with r in *.
          change ([b] ++ quote_string_go fuel r) with (b :: quote_string_go fuel r) in *.
          destruct f as [|f]; [cbn [length] in Hf; lia|].
          rewrite unq_plain by (unfold isBS, BS; apply N.eqb_neq; apply N.ltb_ge in Hb; lia).
          rewrite IH by (cbn [length] in Hf; lia). reflexivity.
        * assert (Hsk : length (skipn (S n) (b :: r)) <= fuel).
          { rewrite skipn_length. cbn [length]. lia. }
          fold (is_ls (seq_rune (S n) (b :: r))) in *.
          destruct (is_ls (seq_rune (S n) (b :: r))) eqn:Hls.
          -- (* U+2028 / U+2029 *)
             assert (Hc : (seq_rune (S n) (b :: r) = 8232 \/ seq_rune (S n) (b :: r) = 8233)%N).
             { unfold is_ls in Hls. apply orb_prop in Hls. destruct Hls as [E|E]; apply N.eqb_eq in E; auto. }
             destruct (seq_ls (b :: r) n _ Hlen eq_refl Hc Hb) as (Hfirst & _).
             destruct (hexd_ls _ Hc) as (X1 & X2 & X3). cbv zeta in X1, X2, X3.
             set (h := hexd (N.land (seq_rune (S n) (b :: r)) 15)) in *.
             change ([92; 117; 50; 48; 50; h]%N ++ quote_string_go fuel (skipn (S n) (b :: r)))
               with (BS :: 117%N :: 50%N :: 48%N :: 50%N :: h :: quote_string_go fuel (skipn (S n) (b :: r))) in *.
             destruct f as [|f]; [cbn [length] in Hf; lia|].
             rewrite unq_esc, (esc_step_single flags Hsingle).
             assert (R1 : (seq_rune (S n) (b :: r) <=? 127)%N = false) by (destruct Hc as [E|E]; rewrite E; reflexivity).
             assert (R2 : (seq_rune (S n) (b :: r) <=? 2047)%N = false) by (destruct Hc as [E|E]; rewrite E; reflexivity).
             assert (R3 : ((seq_rune (S n) (b :: r) <? 55296) || (57343 <? seq_rune (S n) (b :: r)))%N = true)
               by (destruct Hc as [E|E]; rewrite E; reflexivity).
             rewrite (esc_tail_u3 flags x _ _ _ _ _ _ _ X1 X2 R1 R2 R3).
             rewrite IH by (try assumption; cbn [length] in Hf; lia).
             rewrite X3, <- Hfirst. cbn [ucons]. rewrite firstn_skipn. reflexivity.
          -- (* copied sequence *)
             destruct (seq_high (b :: r) n Hlen Hb) as (Hall & Hl).
             rewrite app_length in Hf.
             destruct f as [|f]; [lia|].
             rewrite unq_plain_run by assumption.
             rewrite IH by (try assumption; lia).
             cbn [ucons]. rewrite firstn_skipn. reflexivity.
  Qed.
End Single.

Theorem unquote_ast_quote : forall flags s, has flags c_F_DBLUNQ = false ->
  unquote flags (quote_string_go (length s) s) = UOk s.
Proof.
  intros flags s H. unfold unquote. apply unquote_ast_quote_loop; [assumption|lia|lia].
Qed.

(* the destination prefix e is preserved and the body decodes back to s.  The byte-range hypothesis is
   kept in the statement as the domain of the property; the proof does not use it (unquote_ast_quote
   holds for every list of N, values above 255 are copied by both routines). *)
Theorem quote_string_decodes_back :
  forall e s, Forall (fun b => (b < 256)%N) s ->
  exists body, quote_string e s = e ++ [34%N] ++ body ++ [34%N] /\
               unquote 2 body = UOk s /\ unquote 0 body = UOk s.
Proof.
  intros e s _. exists (quote_string_go (length s) s). split; [reflexivity|].
  split; apply unquote_ast_quote; reflexivity.
Qed.

Corollary quote_string_go_unquote : forall s,
  go_unquote_string (quote_string_go (length s) s) = inl s /\
  go_into_bytes (quote_string_go (length s) s) false = inl s.
Proof.
  intros s. unfold go_unquote_string, go_into_bytes.
  change go_F_UNICODE_REPLACE with 2%N. cbv iota.
  rewrite !unquote_ast_quote by reflexivity. auto.
Qed.

Example quote_string_ex :
  let s := [97; 10; 60; 226; 128; 168; 255; 92; 34; 226; 128; 169; 0; 195; 169; 226; 128]%N in
  Forall (fun b => (b < 256)%N) s /\
  quote_string [1; 2]%N s =
    [1; 2; 34; 97; 92; 110; 60; 92; 117; 50; 48; 50; 56; 255; 92; 92; 92; 34; 92; 117; 50; 48; 50; 57;
     92; 117; 48; 48; 48; 48; 195; 169; 226; 128; 34]%N /\
  unquote 2 (quote_string_go (length s) s) = UOk s /\ unquote 0 (quote_string_go (length s) s) = UOk s.
Proof.
  cbv zeta. split; [repeat constructor|]. vm_compute. auto.
Qed.
