(* C20 - model of native/quote.c (quote, memcchr_quote_unsafe) and of the Go restart loop
   internal/encoder/alg/spec.go:Quote. *)
From Coq Require Import NArith ZArith Bool List Lia.
From SV.Gen Require Import Tables.
From SV.Str Require Import Common.
Import ListNotations.
Open Scope N_scope.

Definition quote_tab (flags : N) : qtab :=
  if N.land flags c_F_DBLUNQ =? 0 then _SingleQuoteTab else _DoubleQuoteTab.

(* ---- memcchr_quote_unsafe: destination known to be large enough ---- *)

(* `while (nb >= W)`: full store, test the block.  Returns the number of plain bytes copied and
   whether a special byte was found there (goto escape) *)
Fixpoint mqu_loop (fuel W : nat) (src : list N) (k : nat) : nat * bool * list N :=
  match fuel with
  | O => (k, false, src)
  | S f =>
    if (W <=? length src)%nat then
      let c := find_first find_quote_lane (firstn W src) in
      if (c <? W)%nat then (k + c, true, skipn c src)%nat
      else mqu_loop f W (skipn W src) (k + W)
    else (k, false, src)
  end.

Fixpoint mqu_simd (ws : list nat) (src : list N) (k : nat) : nat * bool * list N :=
  match ws with
  | [] => (k, false, src)
  | W :: ws' =>
    match mqu_loop (length src) W src k with
    | (k', true, src') => (k', true, src')
    | (k', false, src') => mqu_simd ws' src' k'
    end
  end.

(* escape_mask4 + ctz over an n-byte group (n = 8: mask1 then mask2; n = 4: one mask) *)
Definition mqu_group (n : nat) (src : list N) (k : nat) : nat * bool * list N :=
  if (n <=? length src)%nat then
    let c := find_first esc_tab (firstn n src) in
    if (c <? n)%nat then (k + c, true, skipn c src)%nat else (k + n, false, skipn n src)%nat
  else (k, false, src).

Fixpoint mqu_bytes (src : list N) (k : nat) : nat * bool * list N :=
  match src with
  | [] => (k, false, [])
  | b :: r => if esc_tab b then (k, true, src) else mqu_bytes r (S k)
  end.

(* simd_copy .. scalar_copy: number of plain bytes copied before the first special byte *)
Definition mqu_find (ws : list nat) (src : list N) : nat * bool * list N :=
  let start :=
    if (length src <? 16)%nat then (O, false, src) else mqu_simd ws src O in
  match start with
  | (k, true, s) => (k, true, s)
  | (k, false, s) =>
    match mqu_group 8 s k with
    | (k1, true, s1) => (k1, true, s1)
    | (k1, false, s1) =>
      match mqu_group 4 s1 k1 with
      | (k2, true, s2) => (k2, true, s2)
      | (k2, false, s2) => mqu_bytes s2 k2
      end
    end
  end.

(* escape: do { emit tab[ch]; sp++; if (nb <= 0) break; if (!_EscTab[*sp]) goto simd_copy; } while (true)
   returns the emitted bytes and the input left for simd_copy *)
Fixpoint mqu_escape (t : qtab) (ch : N) (r : list N) : list N * list N :=
  match r with
  | [] => (tab_copy t ch, [])
  | c :: r' =>
    if esc_tab c then let '(e, rest) := mqu_escape t c r' in (tab_copy t ch ++ e, rest)
    else (tab_copy t ch, r)
  end.

Fixpoint memcchr_quote_unsafe (fuel : nat) (ws : list nat) (t : qtab) (src : list N) : list N :=
  match fuel with
  | O => []
  | S f =>
    match mqu_find ws src with
    | (k, false, _) => firstn k src
    | (k, true, s) =>
      match s with
      | [] => firstn k src
      | ch :: r => let '(e, rest) := mqu_escape t ch r in
                   firstn k src ++ e ++ memcchr_quote_unsafe f ws t rest
      end
    end
  end.

(* ---- quote: the bounded-destination loop ---- *)

(* inner `while (nb != 0)`: consecutive escapes.  inl = return from quote, inr = back to the outer loop *)
Fixpoint quote_escapes (t : qtab) (src : list N) (consumed : nat) (out : list N) (nd : nat)
  : (Z * list N) + (list N * nat * list N * nat) :=
  match src with
  | [] => inr ([], consumed, out, nd)
  | ch :: r =>
    let nc := tab_n t ch in
    if (nc =? 0)%nat then inr (src, consumed, out, nd)
    else if (nd <? nc)%nat then inl ((- Z.of_nat consumed - 1)%Z, out)
    else quote_escapes t r (S consumed) (out ++ tab_copy t ch) (nd - nc)
  end.

Fixpoint quote_loop (fuel : nat) (ws : list nat) (t : qtab) (src : list N) (consumed : nat)
         (out : list N) (nd : nat) : Z * list N :=
  match fuel with
  | O => (Z.of_nat consumed, out)
  | S f =>
    match src with
    | [] => (Z.of_nat consumed, out)
    | _ =>
      let rb := memcchr_quote ws src nd in
      if (rb <? 0)%Z then
        let k := Z.to_nat (- rb - 1) in
        ((- Z.of_nat (consumed + k) - 1)%Z, out ++ firstn k src)
      else
        let k := Z.to_nat rb in
        match quote_escapes t (skipn k src) (consumed + k) (out ++ firstn k src) (nd - k) with
        | inl r => r
        | inr (src', consumed', out', nd') => quote_loop f ws t src' consumed' out' nd'
        end
    end
  end.

(* quote(sp, nb, dp, &dn, flags): (return value, bytes dp[0 .. *dn) after the call) *)
Definition quote (ws : list nat) (flags : N) (src : list N) (dn : nat) : Z * list N :=
  let t := quote_tab flags in
  if (length src * N.to_nat MAX_ESCAPED_BYTES <=? dn)%nat then
    (Z.of_nat (length src), memcchr_quote_unsafe (S (length src)) ws t src)
  else quote_loop (S (length src)) ws t src O [] dn.

(* ---- Go: alg.Quote ---- *)

(* rt.GuardSlice2: new capacity *)
Definition guard_slice2 (len cap n : nat) : nat :=
  if (cap - len <? n)%nat then Nat.max 32 (cap / 2 + n + len) else cap.

Section GoQuote.
  (* runtime.growslice seen through rt.GrowSlice(et, old, newCap): old capacity, requested -> new capacity *)
  Variable grow : nat -> nat -> nat.
  Variable ws : list nat.

  Fixpoint go_quote_loop (fuel : nat) (flags : N) (src : list N) (buf : list N) (cap : nat)
    : option (list N) :=
    match fuel with
    | O => None
    | S f =>
      match src with
      | [] => Some buf
      | _ =>
        let dn := (cap - length buf)%nat in
        let '(ret, out) := quote ws flags src dn in
        let buf' := buf ++ out in
        if (0 <=? ret)%Z then Some buf'
        else
          let cap' := grow cap (cap * 2) in
          let c := Z.to_nat (- ret - 1) in         (* ret = ^ret *)
          go_quote_loop f flags (skipn c src) buf' cap'
      end
    end.

  Definition go_quote_fuel (src : list N) : nat := (8 * (length src + 1))%nat.

  (* Quote(buf, val, double) with cap(buf) = cap *)
  Definition go_quote (buf : list N) (cap : nat) (val : list N) (double : bool) : option (list N) :=
    match val with
    | [] => Some (buf ++ (if double then [34; 92; 34; 92; 34; 34] else [34; 34]))
    | _ =>
      let buf1 := buf ++ (if double then [34; 92; 34] else [34]) in
      (* append may have grown the slice: any capacity >= the length is possible *)
      let cap1 := Nat.max cap (length buf1) in
      let cap2 := guard_slice2 (length buf1) cap1 (length val + 1) in
      match go_quote_loop (go_quote_fuel val) (if double then go_F_DOUBLE_UNQUOTE else 0) val buf1 cap2 with
      | None => None
      | Some b => Some (b ++ (if double then [92; 34; 34] else [34]))
      end
    end.
End GoQuote.

Definition grow_exact (old req : nat) : nat := req.

(* encoder.Quote(s): buf := make([]byte, 0, len(s)+2) *)
Definition encoder_quote (ws : list nat) (s : list N) : option (list N) :=
  go_quote grow_exact ws [] (length s + 2) s false.
