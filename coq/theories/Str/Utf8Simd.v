(* C20 - lane-wise executable model of validate_utf8_avx2 (native/utf8.h, USE_AVX2 part: the simdjson
   lookup algorithm) and of validate_utf8_fast as built with AVX2 (native/validate_utf8_fast.c).
   A 256-bit vector is a list of 32 bytes (N); every intrinsic is modelled per byte lane:
     _mm256_and/or/xor_si256        vmap2 N.land / N.lor / N.lxor
     _mm256_subs_epu8 a b           a - b on N (truncated subtraction = unsigned saturation)
     _mm256_shuffle_epi8 (lookup)   lookup16
     simd256_shr v 4                (x >> 4) & 0x0F per lane
     simd256_prev input prev n      lane i = input[i-n], or prev[32-n+i] for i < n  (permute2x128 + alignr)
     _mm256_movemask_epi8 v == 0    no lane has bit 7 set
     _mm256_testz_si256 v v         no lane is nonzero
   Abstraction (only what check_error can observe): checker->error and checker->prev_incomplete are kept as
   the boolean [the vector is nonzero]; or-ing vectors is or-ing these booleans.
   Pointers: a pointer into the string is the list of bytes from that position to the end of the string;
   [start < end - k] is [k < remaining length]. Loops recurse structurally on fuel = length of the string.
   Everything here is nat/N/Z/bool/list only (extractable). Proofs: Str/Utf8SimdProofs.v. *)
From Coq Require Import NArith ZArith Bool List.
From SV.Str Require Import Utf8.
Import ListNotations.
Open Scope N_scope.

(* ---- check_special_cases: the error bits and the three 16-entry tables ---- *)
Definition TOO_SHORT      : N := 1.     (* 1<<0   11______ 0_______ / 11______ 11______ *)
Definition TOO_LONG       : N := 2.     (* 1<<1   0_______ 10______ *)
Definition OVERLONG_3     : N := 4.     (* 1<<2   11100000 100_____ *)
Definition TOO_LARGE      : N := 8.     (* 1<<3   11110100 1001____ ... *)
Definition SURROGATE      : N := 16.    (* 1<<4   11101101 101_____ *)
Definition OVERLONG_2     : N := 32.    (* 1<<5   1100000_ 10______ *)
Definition TOO_LARGE_1000 : N := 64.    (* 1<<6   11110101 1000____ ... *)
Definition OVERLONG_4     : N := 64.    (* 1<<6   11110000 1000____ *)
Definition TWO_CONTS      : N := 128.   (* 1<<7   10______ 10______ *)

Local Infix "|||" := N.lor (at level 50, left associativity).

Definition CARRY : N := TOO_SHORT ||| TOO_LONG ||| TWO_CONTS.

(* indexed by the high nibble of prev1 *)
Definition tab1 : list N := [
  TOO_LONG; TOO_LONG; TOO_LONG; TOO_LONG;
  TOO_LONG; TOO_LONG; TOO_LONG; TOO_LONG;
  TWO_CONTS; TWO_CONTS; TWO_CONTS; TWO_CONTS;
  TOO_SHORT ||| OVERLONG_2;
  TOO_SHORT;
  TOO_SHORT ||| OVERLONG_3 ||| SURROGATE;
  TOO_SHORT ||| TOO_LARGE ||| TOO_LARGE_1000 ||| OVERLONG_4 ].

(* indexed by the low nibble of prev1 *)
Definition tab2 : list N := [
  CARRY ||| OVERLONG_3 ||| OVERLONG_2 ||| OVERLONG_4;
  CARRY ||| OVERLONG_2;
  CARRY;
  CARRY;
  CARRY ||| TOO_LARGE;
  CARRY ||| TOO_LARGE ||| TOO_LARGE_1000;
  CARRY ||| TOO_LARGE ||| TOO_LARGE_1000;
  CARRY ||| TOO_LARGE ||| TOO_LARGE_1000;
  CARRY ||| TOO_LARGE ||| TOO_LARGE_1000;
  CARRY ||| TOO_LARGE ||| TOO_LARGE_1000;
  CARRY ||| TOO_LARGE ||| TOO_LARGE_1000;
  CARRY ||| TOO_LARGE ||| TOO_LARGE_1000;
  CARRY ||| TOO_LARGE ||| TOO_LARGE_1000;
  CARRY ||| TOO_LARGE ||| TOO_LARGE_1000 ||| SURROGATE;
  CARRY ||| TOO_LARGE ||| TOO_LARGE_1000;
  CARRY ||| TOO_LARGE ||| TOO_LARGE_1000 ].

(* indexed by the high nibble of the input byte *)
Definition tab3 : list N := [
  TOO_SHORT; TOO_SHORT; TOO_SHORT; TOO_SHORT;
  TOO_SHORT; TOO_SHORT; TOO_SHORT; TOO_SHORT;
  TOO_LONG ||| OVERLONG_2 ||| TWO_CONTS ||| OVERLONG_3 ||| TOO_LARGE_1000 ||| OVERLONG_4;
  TOO_LONG ||| OVERLONG_2 ||| TWO_CONTS ||| OVERLONG_3 ||| TOO_LARGE;
  TOO_LONG ||| OVERLONG_2 ||| TWO_CONTS ||| SURROGATE ||| TOO_LARGE;
  TOO_LONG ||| OVERLONG_2 ||| TWO_CONTS ||| SURROGATE ||| TOO_LARGE;
  TOO_SHORT; TOO_SHORT; TOO_SHORT; TOO_SHORT ].

(* ---- per-lane operations ---- *)
(* _mm256_shuffle_epi8 with the 16-entry table replicated in both halves: 0 if bit 7 of the index is set,
   else table[index & 15] *)
Definition lookup16 (tab : list N) (idx : N) : N :=
  if N.testbit idx 7 then 0 else nth (N.to_nat (N.land idx 15)) tab 0.

(* simd256_shr(v, 4), one lane: (the 16-bit shift leaks bits of the neighbour, the 0x0F mask removes them) *)
Definition shr4 (x : N) : N := N.land (N.shiftr x 4) 15.

(* check_special_cases, one lane: byte_1_high & byte_1_low & byte_2_high *)
Definition special (p1 c : N) : N :=
  N.land (N.land (lookup16 tab1 (shr4 p1)) (lookup16 tab2 (N.land p1 15))) (lookup16 tab3 (shr4 c)).

(* must_be_2_3_continuation, one lane: all ones iff prev2 >= 0xE0 or prev3 >= 0xF0 *)
Definition must23 (p2 p3 : N) : N :=
  let is_third_byte := p2 - 223 in       (* subs_epu8(prev2, 0b11100000-1) *)
  let is_fourth_byte := p3 - 239 in      (* subs_epu8(prev3, 0b11110000-1) *)
  if 0 <? N.lor is_third_byte is_fourth_byte then 255 else 0.   (* cmpgt_epi8(or, 0); or <= 0x30 *)

(* check_multibyte_lengths, one lane: (must23 & 0x80) ^ sc *)
Definition lane_err (p3 p2 p1 c : N) : N := N.lxor (N.land (must23 p2 p3) 128) (special p1 c).

(* ---- 32-lane vectors ---- *)
Fixpoint vmap2 (f : N -> N -> N) (a b : list N) : list N :=
  match a, b with
  | x :: a', y :: b' => f x y :: vmap2 f a' b'
  | _, _ => []
  end.

Definition vzero : list N := repeat 0 32.
Definition vor (a b : list N) : list N := vmap2 N.lor a b.
(* !_mm256_testz_si256(v, v) *)
Definition vnonzero (v : list N) : bool := existsb (fun x => negb (x =? 0)) v.
(* _mm256_loadu_si256(p + off) *)
Definition loadu (p : list N) (off : nat) : list N := firstn 32 (skipn off p).

(* simd256_prev(input, prev, n), n = 1..3 *)
Definition simd256_prev (input prev : list N) (n : nat) : list N :=
  firstn 32 (skipn (32 - n) prev ++ input).

Definition check_special_cases (input prev1 : list N) : list N := vmap2 special prev1 input.

Definition must_be_2_3_continuation (prev2 prev3 : list N) : list N := vmap2 must23 prev2 prev3.

Definition check_multibyte_lengths (input prev_input sc : list N) : list N :=
  let prev2 := simd256_prev input prev_input 2 in
  let prev3 := simd256_prev input prev_input 3 in
  let m23 := must_be_2_3_continuation prev2 prev3 in
  let must23_80 := map (fun m => N.land m 128) m23 in
  vmap2 N.lxor must23_80 sc.

Definition check_utf8_bytes (input prev_input : list N) : list N :=
  let prev1 := simd256_prev input prev_input 1 in
  let sc := check_special_cases input prev1 in
  check_multibyte_lengths input prev_input sc.

(* is_incomplete: subs_epu8(input, {255 x 29, 0xEF, 0xDF, 0xBF}) *)
Definition incomplete_max : list N := repeat 255 29 ++ [239; 223; 191].
Definition is_incomplete (input : list N) : list N := vmap2 N.sub input incomplete_max.

(* is_ascii: _mm256_movemask_epi8(v) == 0 *)
Definition is_ascii (v : list N) : bool := forallb (fun x => negb (N.testbit x 7)) v.

(* ---- utf8_checker ---- *)
Record utf8_checker : Set := mk_checker {
  error : bool;                  (* the error vector is nonzero *)
  prev_input_block : list N;     (* the last 32-byte input seen by check64_utf *)
  prev_incomplete : bool         (* is_incomplete(prev_input_block) is nonzero *)
}.

Definition utf8_checker_init : utf8_checker := mk_checker false vzero false.

(* checker->error = _mm256_or_si256(checker->error, checker->prev_incomplete) *)
Definition or_prev_incomplete (c : utf8_checker) : utf8_checker :=
  mk_checker (error c || prev_incomplete c) (prev_input_block c) (prev_incomplete c).

Definition check64_utf (c : utf8_checker) (start : list N) : utf8_checker :=
  let input := loadu start 0 in
  let input2 := loadu start 32 in
  let error1 := check_utf8_bytes input (prev_input_block c) in
  let error2 := check_utf8_bytes input2 input in
  mk_checker (error c || vnonzero (vor error1 error2)) input2 (vnonzero (is_incomplete input2)).

Definition check64 (c : utf8_checker) (start : list N) : utf8_checker :=
  let input := loadu start 0 in
  let input2 := loadu start 32 in
  let reducer := vor input input2 in
  if is_ascii reducer then or_prev_incomplete c      (* prev_input_block is NOT updated *)
  else check64_utf c start.

Definition check128 (c : utf8_checker) (start : list N) : utf8_checker :=
  let input := loadu start 0 in
  let input2 := loadu start 32 in
  let input3 := loadu start 64 in
  let input4 := loadu start 96 in
  let reducer1 := vor input input2 in
  let reducer2 := vor input3 input4 in
  let reducer := vor reducer1 reducer2 in
  if is_ascii reducer then or_prev_incomplete c
  else if is_ascii reducer1 then check64_utf (or_prev_incomplete c) (skipn 64 start)
  else
    let c1 := check64_utf c start in
    if is_ascii reducer2 then or_prev_incomplete c1
    else check64_utf c1 (skipn 64 start).

Definition check_eof (c : utf8_checker) : utf8_checker := or_prev_incomplete c.

(* the remaining (at most 64) bytes are copied into a zeroed 64-byte buffer *)
Definition check_remain (c : utf8_checker) (start : list N) : utf8_checker :=
  let buffer := firstn 64 (start ++ repeat 0 64) in
  check_eof (check64 c buffer).

(* [start < end - k]: more than k bytes remain *)
Definition longer (k : nat) (start : list N) : bool :=
  match skipn k start with [] => false | _ :: _ => true end.

(* while (start < end - 128) { check128(&checker, start); start += 128; } *)
Fixpoint loop128 (fuel : nat) (c : utf8_checker) (start : list N) : utf8_checker * list N :=
  match fuel with
  | O => (c, start)
  | S f => if longer 128 start then loop128 f (check128 c start) (skipn 128 start) else (c, start)
  end.

(* while (start < end - 64) { check64(&checker, start); start += 64; } *)
Fixpoint loop64 (fuel : nat) (c : utf8_checker) (start : list N) : utf8_checker * list N :=
  match fuel with
  | O => (c, start)
  | S f => if longer 64 start then loop64 f (check64 c start) (skipn 64 start) else (c, start)
  end.

(* true iff the C function returns 0 *)
Definition validate_utf8_avx2 (s : list N) : bool :=
  match s with
  | [] => true                                        (* if (s->len == 0) return 0; *)
  | _ =>
    let '(c1, s1) := loop128 (length s) utf8_checker_init s in
    let '(c2, s2) := loop64 (length s) c1 s1 in
    negb (error (check_remain c2 s2))                 (* check_error(&checker) ? -1 : 0 *)
  end.

(* validate_utf8_fast, AVX2 build *)
Definition validate_utf8_fast_avx2 (s : list N) : Z :=
  if validate_utf8_avx2 s then 0%Z else validate_utf8_fast s.
