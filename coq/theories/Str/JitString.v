(* C20 - model of the `,string` string-field path of the default decoder (jitdec):
   _asm_OP_unquote + parse_string + unquote_twice + escape_string_twice
   (internal/decoder/jitdec/assembler_regabi_amd64.go).  `body` is the text between the outer quotes of the
   field value, as delimited by the string scanner (no unescaped quote inside). *)
From Coq Require Import NArith ZArith Bool List Lia.
From SV.Gen Require Import Tables.
From SV.Str Require Import Common Quote Unquote TablesOk FinderProofs QuoteProofs GoQuoteProofs RoundTrip.
Import ListNotations.
Open Scope nat_scope.

(* flags of escape_string_twice: F_DOUBLE_UNQUOTE, plus F_UNICODE_REPLACE unless _F_disable_urc (UseUnicodeErrors) *)
Definition jit_twice_flags (unicode_errors : bool) : N :=
  N.lor go_F_DOUBLE_UNQUOTE (if unicode_errors then 0%N else go_F_UNICODE_REPLACE).

Definition jit_unquote_twice (unicode_errors : bool) (body : list N) : option (list N) :=
  match body with
  | 92%N :: 34%N :: rest =>                       (* _asm_OP_unquote: the literal bytes \ and quote, IC += 2 *)
    let n := length rest in
    let ep := find_first isBS rest in             (* parse_string: st.Ep = first backslash, -1 if none *)
    if n <=? ep then None                         (* CMPQ st.Ep, $-1 ; JE _eof_error *)
    else if negb ((nth (n - 2) rest 0 =? 92)%N && (nth (n - 1) rest 0 =? 34)%N) then None   (* -3(IP)(IC), -2(IP)(IC) *)
    else
      let middle := firstn (n - 2) rest in        (* SLICE st.Iv, $-3 *)
      if ep =? n - 2 then Some middle             (* _noescape: the only escape is the closing one *)
      else match unquote (jit_twice_flags unicode_errors) middle with
           | UOk o => Some o
           | UErr _ _ => None
           end
  | _ => None                                     (* _char_0_error / _char_1_error / eof *)
  end.

(* ---- on what the encoder writes for a `,string` field the path returns the original string ---- *)
Lemma find_first_app_none : forall p a b, find_first p a = length a -> find_first p (a ++ b) = length a + find_first p b.
Proof.
  induction a as [|x a IH]; intros b H; simpl in *; [reflexivity|].
  destruct (p x); [discriminate|]. rewrite IH by lia. reflexivity.
Qed.
Lemma find_first_app_some : forall p a b, find_first p a < length a -> find_first p (a ++ b) = find_first p a.
Proof.
  induction a as [|x a IH]; intros b H; simpl in *; [lia|].
  destruct (p x); [reflexivity|]. rewrite IH by lia. reflexivity.
Qed.

(* no backslash in the double escape means nothing was escaped *)
Lemma escape_no_bs : forall t,
  find_first isBS (escape_all _DoubleQuoteTab t) = length (escape_all _DoubleQuoteTab t) ->
  escape_all _DoubleQuoteTab t = t.
Proof.
  induction t as [|b r IH]; intros H; [reflexivity|].
  change (escape_all _DoubleQuoteTab (b :: r)) with (esc1 _DoubleQuoteTab b ++ escape_all _DoubleQuoteTab r) in *.
  destruct (is_special b) eqn:Hsp.
  - exfalso. destruct (esc1_special _ good_double b Hsp) as (E1 & _).
    destruct (good_tab_copy _ b good_double) as (E2 & _). rewrite E1, E2 in H.
    destruct (rt_all b) as [_ H1]. unfold double_rt_b in H1. rewrite Hsp in H1.
    destruct (tab_s _DoubleQuoteTab b) as [|a l]; [discriminate|].
    assert (Ha : isBS a = true).
    { destruct l as [|a2 [|c [|h1 [|h2 [|h3 [|h4 [|? ?]]]]]]]; try discriminate;
        repeat (apply andb_prop in H1; destruct H1 as [H1 ?]); exact H1. }
    simpl in H. rewrite Ha in H. discriminate.
  - destruct (esc1_plain _ good_double b Hsp) as (E1 & _). rewrite E1 in *.
    simpl in H. destruct (isBS b); [discriminate|]. simpl. f_equal. apply IH. lia.
Qed.

Theorem jit_unquote_twice_canonical : forall ue t,
  jit_unquote_twice ue ([92; 34]%N ++ escape_all _DoubleQuoteTab t ++ [92; 34]%N) = Some t.
Proof.
  intros ue t. set (m := escape_all _DoubleQuoteTab t).
  change ([92; 34]%N ++ m ++ [92; 34]%N) with (92%N :: 34%N :: (m ++ [92; 34]%N)).
  cbn [jit_unquote_twice].
  assert (Hn : length (m ++ [92; 34]%N) = length m + 2) by (rewrite app_length; reflexivity).
  rewrite Hn. replace (length m + 2 - 2) with (length m) by lia. replace (length m + 2 - 1) with (S (length m)) by lia.
  rewrite !app_nth2 by lia. rewrite Nat.sub_diag. replace (S (length m) - length m) with 1 by lia.
  cbn [nth]. change ((92 =? 92)%N && (34 =? 34)%N) with true. cbn [negb].
  rewrite firstn_app, Nat.sub_diag, firstn_all. cbn [firstn]. rewrite app_nil_r.
  pose proof (find_first_le isBS m) as Hle.
  destruct (Nat.eq_dec (find_first isBS m) (length m)) as [E|E].
  - rewrite find_first_app_none by assumption. cbn [find_first]. change (isBS 92) with true. cbv iota.
    rewrite Nat.add_0_r.
    destruct (length m + 2 <=? length m) eqn:E1; [apply Nat.leb_le in E1; lia|].
    rewrite Nat.eqb_refl. f_equal. apply escape_no_bs. exact E.
  - rewrite find_first_app_some by lia.
    destruct (length m + 2 <=? find_first isBS m) eqn:E1; [apply Nat.leb_le in E1; lia|].
    destruct (find_first isBS m =? length m) eqn:E2; [apply Nat.eqb_eq in E2; lia|].
    assert (HD : has (jit_twice_flags ue) c_F_DBLUNQ = true) by (destruct ue; reflexivity).
    unfold m. pose proof (unquote_quote (jit_twice_flags ue) t) as HQ.
    unfold quote_tab in HQ. unfold has in HD.
    destruct (N.land (jit_twice_flags ue) c_F_DBLUNQ =? 0)%N; [discriminate|]. rewrite HQ. reflexivity.
Qed.

Example jit_flags : jit_twice_flags false = 3%N /\ jit_twice_flags true = 1%N.
Proof. split; reflexivity. Qed.
