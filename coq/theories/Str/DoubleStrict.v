(* C20 - the fused double unquote (native/unquote.c with F_DBLUNQ, the `,string` decode path) is RIGHT on a large
   class of NON-canonical inner literals: whenever the OUTER escaping is canonical and the INNER literal is accepted
   by the STRICT reference (every escape well formed, every surrogate escape properly paired).

   E1 u := escape_all _SingleQuoteTab u is the canonical outer escaping of an arbitrary inner body u (every
   backslash of u doubled, every quote preceded by a backslash, control bytes written as \n \r \t or \u00XY).
   u itself may be any byte list: escapes the encoder never writes (\/ \b \f, \uXXXX for any code point, upper or
   lower case digits, surrogate pairs), raw control bytes, raw non-ASCII ... DoubleProofs.v only covers
   u = E1 t (unquote_double_canonical).

   Main results (all lists of N, no byte-range hypothesis is needed):
     unquote_double_strict_exact     ref_unquote _ false u = Some o ->
                                     unquote flags (E1 u) = if last_ok u then UOk o else UErr ERR_EOF |E1 u|
     unquote_double_strict           ... -> last_ok u = true -> unquote flags (E1 u) = UOk o
     unquote_double_strict_last_needed   the hypothesis last_ok cannot be dropped, for EVERY such u
     unquote_double_eq_twice_strict  ... fused = reference applied twice (ref_unquote2 rep, rep = true and false)
     unquote_double_strict_err_partial   error direction for strict flags (F_UNIREP off): strict reference rejects u
                                     -> the fused pass returns an error; hence unquote_double_strict_iff:
                                     with F_UNIREP off the fused pass on E1 u IS the strict reference, up to last_ok
     unquote_double_err_refuted      with F_UNIREP on the error direction is FALSE (witness dbl_w4)
     ref_strict_le, ref_fuel_mono    strict success implies replace-mode success; fuel monotonicity

   The extra hypothesis last_ok (a finding about the native code): in F_DBLUNQ mode the C code demands at least one
   more input byte after EVERY escape character (`if (nr == 0) return -ERR_EOF`), also when the escape is complete.
   So an inner body whose LAST byte is a raw (not escaped in u) quote, tab, line feed or carriage return - the bytes
   E1 writes as a two-byte escape - is rejected although the reference accepts it.  last_ok u says exactly that this
   does not happen: the last byte is not one of 34, 9, 10, 13 preceded by an even number of backslashes.  The other
   control bytes (written \u00XY) and an ESCAPED quote in last position are fine.  See Example last_ok_needed.
   (encoding/json itself rejects raw quotes and control bytes inside the inner literal, so against encoding/json
   proper this exclusion is not a disagreement; against ref_unquote, which copies them, it is.)

   The known finding KF-double-unquote-fusion lies exactly outside this class: its witnesses have a non-canonical
   outer escaping (dbl_w1, dbl_w2: Example canonical_outer_needed) or a lone surrogate escape in the inner literal
   (dbl_w3: Example strict_needed).  New symptom of the same finding, dbl_w4: with F_UNIREP the fused pass ACCEPTS
   an inner body that the reference rejects in both modes.

   Finite sweeps used: the 256 byte values (raw_special_sweep, head_sweep) plus those of the imported files. *)
From Coq Require Import NArith ZArith Bool List Lia.
From SV.Gen Require Import Tables.
From SV.Str Require Import Common Quote Unquote TablesOk FinderProofs QuoteProofs GoQuoteProofs RoundTrip UnquoteProofs DoubleProofs JitString.
Import ListNotations.
Open Scope nat_scope.

Local Notation E1 := (escape_all _SingleQuoteTab).

Definition short_raw (b : N) : bool := ((b =? 34) || (b =? 9) || (b =? 10) || (b =? 13))%N.

Fixpoint end_ok (esc : bool) (u : list N) : bool :=
  match u with
  | [] => true
  | b :: r =>
    if esc then end_ok false r
    else if (b =? 92)%N then end_ok true r
    else match r with [] => negb (short_raw b) | _ :: _ => end_ok false r end
  end.
Definition last_ok (u : list N) : bool := end_ok false u.

Lemma last_ok_esc : forall c r, last_ok (92%N :: c :: r) = last_ok r.
Proof. reflexivity. Qed.

Lemma last_ok_raw : forall b r, (b =? 92)%N = false ->
  last_ok (b :: r) = match r with [] => negb (short_raw b) | _ :: _ => last_ok r end.
Proof. intros b r H. unfold last_ok. cbn [end_ok]. rewrite H. reflexivity. Qed.

Lemma last_ok_plain : forall b r, (b =? 92)%N = false -> short_raw b = false -> last_ok (b :: r) = last_ok r.
Proof. intros b r H1 H2. rewrite last_ok_raw by exact H1. rewrite H2. destruct r; reflexivity. Qed.

Lemma short_raw_special : forall b, is_special b = false -> short_raw b = false.
Proof.
  intros b H. unfold is_special, find_quote_lane in H. unfold short_raw.
  apply orb_false_iff in H. destruct H as [H H3]. apply orb_false_iff in H. destruct H as [H1 H2].
  apply N.ltb_ge in H1. rewrite H2.
  destruct (N.eqb_spec b 9); [lia|]. destruct (N.eqb_spec b 10); [lia|]. destruct (N.eqb_spec b 13); [lia|]. reflexivity.
Qed.

Lemma hex_plain : forall c, ishex c = true ->
  is_special c = false /\ (c =? 92)%N = false /\ short_raw c = false.
Proof.
  intros c H. apply ishex_in in H. unfold hexdigits in H. cbn [In] in H.
  repeat (destruct H as [<-|H]; [repeat split; reflexivity|]). contradiction.
Qed.

Lemma E1_cons : forall b r, E1 (b :: r) = esc1 _SingleQuoteTab b ++ E1 r.
Proof. reflexivity. Qed.

Lemma E1_plain : forall b r, is_special b = false -> E1 (b :: r) = b :: E1 r.
Proof. intros b r H. rewrite E1_cons. destruct (esc1_plain _ good_single b H) as [-> _]. reflexivity. Qed.

Lemma E1_bs : forall r, E1 (92%N :: r) = BS :: BS :: E1 r.
Proof. intros r. rewrite E1_cons. replace (esc1 _SingleQuoteTab 92) with [BS; BS] by (vm_compute; reflexivity). reflexivity. Qed.

Lemma E1_quote : forall r, E1 (34%N :: r) = BS :: 34%N :: E1 r.
Proof. intros r. rewrite E1_cons. replace (esc1 _SingleQuoteTab 34) with [BS; 34%N] by (vm_compute; reflexivity). reflexivity. Qed.

Lemma E1_nonempty : forall b r, E1 (b :: r) <> [].
Proof.
  intros b r H. apply (f_equal (@length N)) in H. rewrite E1_cons, app_length, (esc1_len _ good_single) in H.
  pose proof (cost_bounds _ good_single b). cbn [length] in H. lia.
Qed.

Lemma unhex_parts : forall h1 h2 h3 h4, unhex16_is [h1; h2; h3; h4] = true ->
  ishex h1 = true /\ ishex h2 = true /\ ishex h3 = true /\ ishex h4 = true.
Proof.
  intros h1 h2 h3 h4 H. unfold unhex16_is in H. cbn [nth] in H.
  apply andb_prop in H. destruct H as [H H4]. apply andb_prop in H. destruct H as [H H3].
  apply andb_prop in H. destruct H as [H1 H2]. auto.
Qed.

Lemma E1_hex4 : forall h1 h2 h3 h4 r, unhex16_is [h1; h2; h3; h4] = true ->
  E1 (h1 :: h2 :: h3 :: h4 :: r) = h1 :: h2 :: h3 :: h4 :: E1 r /\
  last_ok (h1 :: h2 :: h3 :: h4 :: r) = last_ok r.
Proof.
  intros h1 h2 h3 h4 r H. destruct (unhex_parts _ _ _ _ H) as (H1 & H2 & H3 & H4).
  destruct (hex_plain _ H1) as (A1 & B1 & C1). destruct (hex_plain _ H2) as (A2 & B2 & C2).
  destruct (hex_plain _ H3) as (A3 & B3 & C3). destruct (hex_plain _ H4) as (A4 & B4 & C4).
  split.
  - rewrite !E1_plain by assumption. reflexivity.
  - rewrite !last_ok_plain by assumption. reflexivity.
Qed.

(* hex4 accepts exactly when the model's test does *)
Lemma hex4_some : forall r' r0, hex4 r' = Some r0 ->
  exists h1 h2 h3 h4 rest, r' = h1 :: h2 :: h3 :: h4 :: rest /\ unhex16_is [h1; h2; h3; h4] = true /\
    r0 = unhex16_fast [h1; h2; h3; h4] /\ (r0 < 65536)%N.
Proof.
  intros r' r0 H. destruct r' as [|h1 [|h2 [|h3 [|h4 rest]]]]; try discriminate H.
  exists h1, h2, h3, h4, rest. split; [reflexivity|].
  destruct (unhex16_is [h1; h2; h3; h4]) eqn:EU.
  - destruct (hex_quad_true _ _ _ _ rest EU) as [EQ Hlt]. rewrite EQ in H. injection H as <-. auto.
  - rewrite (hex_quad_false _ _ _ _ rest EU) in H. discriminate.
Qed.

(* raw special bytes other than the backslash: shape of the escape E1 writes *)
Definition raw_special_b (b : N) : bool :=
  if is_special b && negb (b =? 92)%N then
    match tab_s _SingleQuoteTab b with
    | [a; c] => (a =? BS)%N && negb (c =? BS)%N && simple_ok c b && short_raw b
    | [a; u; h1; h2; h3; h4] => (a =? BS)%N && (u =? 117)%N && hex_ok h1 h2 h3 h4 b && negb (short_raw b)
    | _ => false
    end
  else true.
Lemma raw_special_sweep : forallb raw_special_b bytes256 = true.
Proof. vm_compute. reflexivity. Qed.
Lemma raw_special_all : forall b, raw_special_b b = true.
Proof.
  intros b. destruct (N.lt_ge_cases b 256) as [H|H].
  - apply (sweep256 _ raw_special_sweep b H).
  - unfold raw_special_b. rewrite (is_special_big b H). reflexivity.
Qed.

Lemma raw_special_shape : forall b, is_special b = true -> (b =? 92)%N = false ->
  (exists c, esc1 _SingleQuoteTab b = [BS; c] /\ (c =? BS)%N = false /\ simple_ok c b = true /\ short_raw b = true) \/
  (exists h1 h2 h3 h4, esc1 _SingleQuoteTab b = [BS; 117%N; h1; h2; h3; h4] /\
     unhex16_is [h1; h2; h3; h4] = true /\ unhex16_fast [h1; h2; h3; h4] = b /\ (b <=? 127)%N = true /\ short_raw b = false).
Proof.
  intros b Hsp Hb. pose proof (raw_special_all b) as H. unfold raw_special_b in H. rewrite Hsp, Hb in H.
  cbn [andb negb] in H.
  destruct (esc1_special _ good_single b Hsp) as (Ea & _).
  destruct (good_tab_copy _ b good_single) as (Eb & _). rewrite Ea, Eb.
  destruct (tab_s _SingleQuoteTab b) as [|a [|c [|h1 [|h2 [|h3 [|h4 [|? ?]]]]]]]; try discriminate.
  - left. exists c.
    apply andb_prop in H. destruct H as [H H4]. apply andb_prop in H. destruct H as [H H3].
    apply andb_prop in H. destruct H as [H1 H2]. apply N.eqb_eq in H1. subst a.
    apply negb_true_iff in H2. auto.
  - right. exists h1, h2, h3, h4. unfold hex_ok in H.
    apply andb_prop in H. destruct H as [H H4]. apply andb_prop in H. destruct H as [H H3].
    apply andb_prop in H. destruct H as [H1 H2]. apply N.eqb_eq in H1, H2. subst a c.
    apply andb_prop in H3. destruct H3 as [H3 H5]. apply andb_prop in H3. destruct H3 as [H3 H6].
    apply N.eqb_eq in H6. apply negb_true_iff in H4. auto.
Qed.

Section Dbl.
  Variable flags : N.
  Hypothesis Hdouble : has flags c_F_DBLUNQ = true.
  Variable x : nat.

  Definition fin (u o : list N) : ures := if last_ok u then UOk o else UErr c_ERR_EOF (zx x).

  Lemma ucons_fin : forall e u u' o, last_ok u' = last_ok u -> ucons e (fin u o) = fin u' (e ++ o).
  Proof. intros e u u' o H. unfold fin. rewrite H. destruct (last_ok u); reflexivity. Qed.

  (* an escape whose character is not a backslash: left alone, provided one more byte follows *)
  Lemma esc_step_raw : forall c1 a s pos1, (c1 =? BS)%N = false ->
    esc_step flags x c1 (a :: s) pos1 =
    (let cc := unquote_tab c1 in
      if (cc =? 0)%Z then inr (c_ERR_ESCAPE, (Z.of_nat pos1 - 1)%Z)
      else if negb (cc =? -1)%Z then inl ([Z.to_N (cc mod 256)], a :: s, pos1)
      else if (length (a :: s) <? 4)%nat then inr (c_ERR_EOF, zx x)
      else if negb (unhex16_is (a :: s)) then inr (c_ERR_INVAL, Z.of_nat (pos1 + count_hex 4 (a :: s)))
      else decode_rune flags x (S (length (a :: s))) (unhex16_fast (a :: s)) (skipn 4 (a :: s)) (pos1 + 4)).
  Proof. intros c1 a s pos1 H. unfold esc_step, dbl_step. rewrite Hdouble, H. reflexivity. Qed.

  Lemma esc_step_eof : forall c1 pos1, esc_step flags x c1 [] pos1 = inr (c_ERR_EOF, zx x).
  Proof. intros. unfold esc_step, dbl_step. rewrite Hdouble. reflexivity. Qed.

  Lemma simple_parts : forall c v, simple_ok c v = true ->
    (unquote_tab c =? 0)%Z = false /\ (unquote_tab c =? -1)%Z = false /\ Z.to_N (unquote_tab c mod 256) = v.
  Proof.
    intros c v H. unfold simple_ok in H. cbv zeta in H.
    apply andb_prop in H. destruct H as [H H3]. apply andb_prop in H. destruct H as [H1 H2].
    apply negb_true_iff in H1, H2. apply N.eqb_eq in H3. auto.
  Qed.

  (* raw quote, \n \r \t written by E1 as a two-byte escape *)
  Lemma loop_raw_short : forall f c v s pos, (c =? BS)%N = false -> simple_ok c v = true ->
    unquote_loop flags x (S f) (BS :: c :: s) pos =
    match s with [] => UErr c_ERR_EOF (zx x) | _ :: _ => ucons [v] (unquote_loop flags x f s (pos + 2)) end.
  Proof.
    intros f c v s pos Hc Hv. destruct (simple_parts c v Hv) as (A1 & A2 & A3).
    rewrite unq_esc. destruct s as [|a s].
    - rewrite esc_step_eof. reflexivity.
    - rewrite esc_step_raw by exact Hc.
      rewrite (esc_tail flags x c _ _ (unquote_tab c) eq_refl A1 A2). rewrite A3. reflexivity.
  Qed.

  Lemma loop_raw_short_ne : forall f c v s pos, (c =? BS)%N = false -> simple_ok c v = true -> s <> [] ->
    unquote_loop flags x (S f) (BS :: c :: s) pos = ucons [v] (unquote_loop flags x f s (pos + 2)).
  Proof. intros f c v s pos Hc Hv Hs. rewrite (loop_raw_short f c v) by assumption. destruct s; [congruence|reflexivity]. Qed.

  (* raw control byte written by E1 as \u00XY *)
  Lemma loop_raw_u : forall f h1 h2 h3 h4 s pos,
    unhex16_is [h1; h2; h3; h4] = true -> (unhex16_fast [h1; h2; h3; h4] <=? 127)%N = true ->
    unquote_loop flags x (S f) (BS :: 117%N :: h1 :: h2 :: h3 :: h4 :: s) pos =
    ucons [unhex16_fast [h1; h2; h3; h4]] (unquote_loop flags x f s (pos + 2 + 4)).
  Proof.
    intros f h1 h2 h3 h4 s pos H1 H2. rewrite unq_esc. rewrite esc_step_raw by reflexivity.
    rewrite esc_tail_u by assumption. reflexivity.
  Qed.

  (* an escape of the inner literal with a simple character that E1 leaves alone *)
  Lemma loop_esc_plain : forall f c v s pos, (c =? BS)%N = false -> simple_ok c v = true ->
    unquote_loop flags x (S f) (BS :: BS :: c :: s) pos = ucons [v] (unquote_loop flags x f s (S (pos + 2))).
  Proof.
    intros f c v s pos Hc Hv. destruct (simple_parts c v Hv) as (A1 & A2 & A3).
    rewrite unq_esc, (esc_step_double_1 flags Hdouble) by exact Hc.
    rewrite (esc_tail flags x c _ _ (unquote_tab c) eq_refl A1 A2). rewrite A3. reflexivity.
  Qed.

  (* escaped quote and escaped backslash of the inner literal *)
  Lemma loop_esc_qb : forall f c v s pos, ((c =? 34)%N || (c =? BS)%N) = true -> simple_ok c v = true ->
    unquote_loop flags x (S f) (BS :: BS :: BS :: c :: s) pos = ucons [v] (unquote_loop flags x f s (pos + 2 + 2)).
  Proof.
    intros f c v s pos Hc Hv. destruct (simple_parts c v Hv) as (A1 & A2 & A3).
    rewrite unq_esc, (esc_step_double_2 flags Hdouble) by exact Hc.
    rewrite (esc_tail flags x c _ _ (unquote_tab c) eq_refl A1 A2). rewrite A3. reflexivity.
  Qed.

  (* \\uXXXX *)
  Lemma esc_u_dbl : forall h1 h2 h3 h4 s pos1, unhex16_is [h1; h2; h3; h4] = true ->
    esc_step flags x BS (117%N :: h1 :: h2 :: h3 :: h4 :: s) pos1 =
    decode_rune flags x (S (length (h1 :: h2 :: h3 :: h4 :: s))) (unhex16_fast [h1; h2; h3; h4]) s (S pos1 + 4).
  Proof.
    intros h1 h2 h3 h4 s pos1 H. rewrite (esc_step_double_1 flags Hdouble) by reflexivity.
    cbv zeta. change (unquote_tab 117) with (-1)%Z. cbv iota beta.
    change ((-1 =? 0)%Z) with false. change (negb (-1 =? -1)%Z) with false. cbv iota.
    change (length (h1 :: h2 :: h3 :: h4 :: s) <? 4) with false. cbv iota.
    change (unhex16_is (h1 :: h2 :: h3 :: h4 :: s)) with (unhex16_is [h1; h2; h3; h4]). rewrite H. cbn [negb]. cbv iota.
    reflexivity.
  Qed.

  (* a properly paired surrogate escape: the extra backslash of the second half is skipped *)
  Lemma decode_pair : forall fuel r0 k1 k2 k3 k4 s2 pos,
    (r0 <=? 127)%N = false -> (r0 <=? 2047)%N = false -> ((r0 <? 55296) || (57343 <? r0))%N = false ->
    (r0 <= 56319)%N -> unhex16_is [k1; k2; k3; k4] = true ->
    ((unhex16_fast [k1; k2; k3; k4] <? 56320) || (57343 <? unhex16_fast [k1; k2; k3; k4]))%N = false ->
    (1114111 <? ((r0 - 55296) * 1024 + ((unhex16_fast [k1; k2; k3; k4] - 56320) + 65536)) mod 4294967296)%N = false ->
    decode_rune flags x (S fuel) r0 (BS :: BS :: 117%N :: k1 :: k2 :: k3 :: k4 :: s2) pos =
    inl (enc4 (((r0 - 55296) * 1024 + ((unhex16_fast [k1; k2; k3; k4] - 56320) + 65536)) mod 4294967296)%N, s2, S pos + 6).
  Proof.
    intros fuel r0 k1 k2 k3 k4 s2 pos Ea Eb Ec Hhi EU EL ER.
    cbn [decode_rune]. rewrite Ea, Eb, Ec, Hdouble.
    change (BS =? BS)%N with true. cbv iota beta.
    change (length (BS :: 117%N :: k1 :: k2 :: k3 :: k4 :: s2) <? 6) with false.
    destruct (N.ltb_spec 56319 r0) as [?|_]; [lia|].
    change (nth 0 (BS :: 117%N :: k1 :: k2 :: k3 :: k4 :: s2) 0%N) with BS.
    change (nth 1 (BS :: 117%N :: k1 :: k2 :: k3 :: k4 :: s2) 0%N) with 117%N.
    change (BS =? BS)%N with true. change (117 =? 117)%N with true. cbn [negb orb]. cbv iota.
    change (skipn 2 (BS :: 117%N :: k1 :: k2 :: k3 :: k4 :: s2)) with (k1 :: k2 :: k3 :: k4 :: s2).
    change (skipn 6 (BS :: 117%N :: k1 :: k2 :: k3 :: k4 :: s2)) with s2.
    change (unhex16_is (k1 :: k2 :: k3 :: k4 :: s2)) with (unhex16_is [k1; k2; k3; k4]).
    change (unhex16_fast (k1 :: k2 :: k3 :: k4 :: s2)) with (unhex16_fast [k1; k2; k3; k4]).
    rewrite EU. cbn [negb]. cbv iota. cbv zeta. rewrite EL, ER. reflexivity.
  Qed.

  Lemma decode_rune_dbl : forall fuel r0 rest e rest' pos, (r0 < 65536)%N ->
    ref_rune false r0 rest = Some (e, rest') ->
    exists pos', decode_rune flags x (S fuel) r0 (E1 rest) pos = inl (e, E1 rest', pos') /\
                 last_ok rest' = last_ok rest /\ length (E1 rest') <= length (E1 rest).
  Proof.
    intros fuel r0 rest e rest' pos Hr H.
    destruct (r0 <=? 127)%N eqn:Ea.
    { rewrite ref_rune_plain in H by (apply N.leb_le in Ea; apply orb_true_iff; left; apply N.ltb_lt; lia).
      injection H as <- <-. rewrite utf8_enc_1 by exact Ea. exists pos. rewrite decode_rune_ascii by exact Ea. auto. }
    destruct (r0 <=? 2047)%N eqn:Eb.
    { rewrite ref_rune_plain in H by (apply N.leb_le in Eb; apply orb_true_iff; left; apply N.ltb_lt; lia).
      injection H as <- <-. rewrite utf8_enc_2 by assumption. exists pos. cbn [decode_rune]. rewrite Ea, Eb. auto. }
    destruct ((r0 <? 55296) || (57343 <? r0))%N eqn:Ec.
    { rewrite ref_rune_plain in H by exact Ec.
      injection H as <- <-. rewrite utf8_enc_3 by assumption. exists pos. cbn [decode_rune]. rewrite Ea, Eb, Ec. auto. }
    destruct (surr_true r0 Ec) as [Hs Hlo].
    unfold ref_rune in H. rewrite Hs in H. unfold lone in H.
    destruct (N.ltb_spec r0 56320) as [Hhi|_]; [|discriminate].
    destruct (getu4 rest) as [r1|] eqn:EG; [|discriminate].
    destruct ((56320 <=? r1) && (r1 <=? 57343))%N eqn:EL; [|discriminate].
    assert (Ee : utf8_enc (65536 + (r0 - 55296) * 1024 + (r1 - 56320))%N = e) by congruence.
    assert (Er : skipn 6 rest = rest') by congruence. clear H. subst e rest'.
    destruct rest as [|a [|b r]]; try discriminate EG.
    unfold getu4 in EG.
    destruct (N.eqb_spec a 92) as [->|]; [|discriminate]. destruct (N.eqb_spec b 117) as [->|]; [|discriminate].
    cbn [andb] in EG.
    destruct (hex4_some _ _ EG) as (k1 & k2 & k3 & k4 & rest2 & -> & EU & -> & Hr1).
    apply andb_prop in EL. destruct EL as [La Lb]. apply N.leb_le in La, Lb.
    destruct (E1_hex4 k1 k2 k3 k4 rest2 EU) as [EE EO].
    change (skipn 6 (92%N :: 117%N :: k1 :: k2 :: k3 :: k4 :: rest2)) with rest2.
    rewrite E1_bs, (E1_plain 117) by reflexivity. rewrite EE.
    destruct (pair_ok r0 (unhex16_fast [k1; k2; k3; k4]) Hlo ltac:(lia) La Lb) as [EP [HP1 HP2]].
    exists (S pos + 6). split; [|split].
    - rewrite decode_pair; try assumption; try lia.
      + rewrite EP. rewrite (utf8_enc_4 _ HP1 HP2). reflexivity.
      + apply orb_false_iff. split; [apply N.ltb_ge|apply N.ltb_ge]; lia.
      + rewrite EP. apply N.ltb_ge. lia.
    - rewrite last_ok_esc. exact (eq_sym EO).
    - cbn [length]. lia.
  Qed.

  Lemma dbl_loop : forall fr u o, ref_unquote fr false u = Some o ->
    forall f pos, length (E1 u) < f -> unquote_loop flags x f (E1 u) pos = fin u o.
  Proof.
    induction fr as [|fr IH]; intros u o H f pos Hf; [discriminate|].
    destruct f as [|f]; [lia|].
    destruct u as [|b r].
    { injection H as <-. reflexivity. }
    cbn [ref_unquote] in H.
    destruct (b =? 92)%N eqn:Eb.
    - apply N.eqb_eq in Eb. subst b.
      destruct r as [|c r']; [discriminate|].
      rewrite E1_bs in *. cbn [length] in Hf.
      pose proof (esc_class_all c) as EC. unfold esc_class_b in EC.
      destruct (ref_simple c) as [v|] eqn:ES.
      + destruct (ref_unquote fr false r') as [o'|] eqn:ER; [|discriminate].
        cbn [option_map] in H. injection H as <-.
        change (v :: o') with ([v] ++ o'). rewrite <- (ucons_fin [v] r') by apply last_ok_esc.
        destruct (is_special c) eqn:Hsp.
        * assert (Hc : c = 34%N \/ c = 92%N).
          { unfold ref_simple in ES.
            repeat match type of ES with
                   | context [(c =? ?k)%N] => destruct (N.eqb_spec c k) as [->|?]; [auto; vm_compute in Hsp; discriminate|]
                   end.
            discriminate. }
          destruct Hc as [-> | ->].
          -- rewrite E1_quote in *. cbn [length] in Hf.
             rewrite (loop_esc_qb f 34%N v) by (try reflexivity; exact EC). rewrite (IH _ _ ER) by lia. reflexivity.
          -- rewrite E1_bs in *. cbn [length] in Hf.
             rewrite (loop_esc_qb f BS v) by (try reflexivity; exact EC). rewrite (IH _ _ ER) by lia. reflexivity.
        * rewrite (E1_plain c) in * by exact Hsp. cbn [length] in Hf.
          rewrite (loop_esc_plain f c v) by (try exact EC; apply (plain_not_bs c Hsp)).
          rewrite (IH _ _ ER) by lia. reflexivity.
      + destruct (N.eqb_spec c 117) as [->|]; [|discriminate].
        destruct (hex4 r') as [r0|] eqn:EH; [|discriminate].
        destruct (hex4_some _ _ EH) as (h1 & h2 & h3 & h4 & rest & -> & EU & -> & Hr0).
        change (skipn 4 (h1 :: h2 :: h3 :: h4 :: rest)) with rest in H.
        destruct (ref_rune false (unhex16_fast [h1; h2; h3; h4]) rest) as [[e rest']|] eqn:ERR; [|discriminate].
        destruct (ref_unquote fr false rest') as [o'|] eqn:ER; [|discriminate].
        cbn [option_map] in H. injection H as <-.
        destruct (E1_hex4 h1 h2 h3 h4 rest EU) as [EE EO].
        rewrite (E1_plain 117) in * by reflexivity. rewrite EE in *. cbn [length] in Hf.
        rewrite unq_esc, esc_u_dbl by exact EU.
        destruct (decode_rune_dbl (length (h1 :: h2 :: h3 :: h4 :: E1 rest)) _ rest e rest' (S (pos + 2) + 4) Hr0 ERR)
          as (pos' & ED & EL & ELen).
        rewrite ED. rewrite (IH _ _ ER) by lia.
        apply ucons_fin. rewrite last_ok_esc, EO. exact (eq_sym EL).
    - destruct (ref_unquote fr false r) as [o'|] eqn:ER; [|discriminate].
      cbn [option_map] in H. injection H as <-.
      destruct (is_special b) eqn:Hsp.
      + rewrite E1_cons in *.
        destruct (raw_special_shape b Hsp Eb) as [(c & Ee & Hc & Hv & Hsh)|(h1 & h2 & h3 & h4 & Ee & EU & EV & E127 & Hsh)];
          rewrite Ee in *.
        * change ([BS; c] ++ E1 r) with (BS :: c :: E1 r) in *. cbn [length] in Hf.
          unfold fin at 1. rewrite last_ok_raw by exact Eb. rewrite Hsh.
          destruct r as [|a r2]; [rewrite (loop_raw_short f c b) by assumption; reflexivity|].
          rewrite (loop_raw_short_ne f c b) by (try assumption; apply E1_nonempty).
          rewrite (IH _ _ ER) by lia. unfold fin. destruct (last_ok (a :: r2)); reflexivity.
        * change ([BS; 117%N; h1; h2; h3; h4] ++ E1 r) with (BS :: 117%N :: h1 :: h2 :: h3 :: h4 :: E1 r) in *.
          cbn [length] in Hf.
          rewrite loop_raw_u by (try assumption; rewrite EV; exact E127). rewrite EV.
          rewrite (IH _ _ ER) by lia.
          apply (ucons_fin [b]). apply last_ok_plain; assumption.
      + rewrite (E1_plain b) in * by exact Hsp. cbn [length] in Hf.
        rewrite unq_plain by (apply (plain_not_bs b Hsp)).
        rewrite (IH _ _ ER) by (cbn [length]; lia).
        apply (ucons_fin [b]). apply last_ok_plain; [exact Eb|apply short_raw_special; exact Hsp].
  Qed.
End Dbl.

(* ---- reading E1 backwards ---- *)
Definition head_b (a : N) : bool :=
  if is_special a then
    match esc1 _SingleQuoteTab a with
    | h :: c :: _ => (h =? BS)%N && Bool.eqb (c =? BS)%N (a =? 92)%N &&
                     (if ((a =? 34) || (a =? 92))%N then true else negb (c =? 34)%N)
    | _ => false
    end
  else true.
Lemma head_sweep : forallb head_b bytes256 = true.
Proof. vm_compute. reflexivity. Qed.

Lemma special_head : forall a, is_special a = true ->
  exists c t, esc1 _SingleQuoteTab a = BS :: c :: t /\ (c =? BS)%N = (a =? 92)%N /\
              (((a =? 34) || (a =? 92))%N = false -> (c =? 34)%N = false).
Proof.
  intros a Hsp. assert (Hlt : (a < 256)%N).
  { destruct (N.lt_ge_cases a 256) as [H|H]; [exact H|]. rewrite (is_special_big a H) in Hsp. discriminate. }
  pose proof (sweep256 _ head_sweep a Hlt) as H. unfold head_b in H. rewrite Hsp in H.
  destruct (esc1 _SingleQuoteTab a) as [|h [|c t]]; try discriminate.
  apply andb_prop in H. destruct H as [H H3]. apply andb_prop in H. destruct H as [H1 H2].
  apply N.eqb_eq in H1. subst h. apply eqb_prop in H2.
  exists c, t. repeat split; [exact H2|]. intros E. rewrite E in H3. apply negb_true_iff in H3. exact H3.
Qed.

Lemma E1_inv_plain : forall r h t, E1 r = h :: t -> (h =? BS)%N = false ->
  exists r', r = h :: r' /\ t = E1 r' /\ is_special h = false.
Proof.
  intros r h t H Hh. destruct r as [|a r']; [discriminate|].
  destruct (is_special a) eqn:Hsp.
  - exfalso. destruct (special_head a Hsp) as (c & t' & Ee & _). rewrite E1_cons, Ee in H.
    injection H as H _. rewrite <- H in Hh. discriminate.
  - rewrite (E1_plain a r' Hsp) in H. injection H as -> <-. exists r'. auto.
Qed.

Lemma E1_inv_bs2 : forall r t, E1 r = BS :: BS :: t -> exists r', r = 92%N :: r' /\ t = E1 r'.
Proof.
  intros r t H. destruct r as [|a r']; [discriminate|].
  destruct (is_special a) eqn:Hsp.
  - destruct (special_head a Hsp) as (c & t' & Ee & Ec & _).
    assert (Hc : c = BS) by (rewrite E1_cons, Ee in H; injection H as H _; exact H).
    subst c. change (BS =? BS)%N with true in Ec. symmetry in Ec. apply N.eqb_eq in Ec. subst a.
    rewrite E1_bs in H. injection H as <-. exists r'. auto.
  - exfalso. rewrite (E1_plain a r' Hsp) in H. injection H as -> _. vm_compute in Hsp. discriminate.
Qed.

Lemma E1_inv_hex4 : forall r k1 k2 k3 k4 s2, E1 r = k1 :: k2 :: k3 :: k4 :: s2 -> unhex16_is [k1; k2; k3; k4] = true ->
  exists r2, r = k1 :: k2 :: k3 :: k4 :: r2 /\ s2 = E1 r2.
Proof.
  intros r k1 k2 k3 k4 s2 H EU. destruct (unhex_parts _ _ _ _ EU) as (H1 & H2 & H3 & H4).
  destruct (E1_inv_plain _ _ _ H (proj1 (proj2 (hex_plain _ H1)))) as (ra & -> & Ha & _).
  symmetry in Ha. destruct (E1_inv_plain _ _ _ Ha (proj1 (proj2 (hex_plain _ H2)))) as (rb & -> & Hb & _).
  symmetry in Hb. destruct (E1_inv_plain _ _ _ Hb (proj1 (proj2 (hex_plain _ H3)))) as (rc & -> & Hc & _).
  symmetry in Hc. destruct (E1_inv_plain _ _ _ Hc (proj1 (proj2 (hex_plain _ H4)))) as (rd & -> & Hd & _).
  exists rd. auto.
Qed.

Lemma ref_rune_rest_len : forall rep r0 rest e rest', ref_rune rep r0 rest = Some (e, rest') -> length rest' <= length rest.
Proof.
  intros rep r0 rest e rest' H. unfold ref_rune, lone in H.
  assert (A : forall p : list N * list N, Some p = Some (e, rest') -> snd p = rest') by (intros p E; injection E as ->; reflexivity).
  destruct ((55296 <=? r0) && (r0 <=? 57343))%N.
  - destruct (r0 <? 56320)%N.
    + destruct (getu4 rest) as [r1|].
      * destruct ((56320 <=? r1) && (r1 <=? 57343))%N.
        -- apply A in H. cbn [snd] in H. subst rest'. rewrite skipn_length. lia.
        -- destruct rep; [|discriminate]. apply A in H. cbn [snd] in H. subst. lia.
      * destruct rep; [|discriminate]. apply A in H. cbn [snd] in H. subst. lia.
    + destruct rep; [|discriminate]. apply A in H. cbn [snd] in H. subst. lia.
  - apply A in H. cbn [snd] in H. subst. lia.
Qed.

Section DblErr.
  Variable flags : N.
  Hypothesis Hdouble : has flags c_F_DBLUNQ = true.
  Hypothesis Hstrict : has flags c_F_UNIREP = false.
  Variable x : nat.

  Definition is_err (r : ures) : Prop := exists c ep, r = UErr c ep.
  Lemma is_err_ucons : forall e r, is_err r -> is_err (ucons e r).
  Proof. intros e r (c & ep & ->). exists c, ep. reflexivity. Qed.
  Lemma is_err_intro : forall c ep, is_err (UErr c ep).
  Proof. intros c ep. exists c, ep. reflexivity. Qed.

  Lemma esc_u_dbl_gen : forall s pos1,
    esc_step flags x BS (117%N :: s) pos1 =
    if (length s <? 4)%nat then inr (c_ERR_EOF, zx x)
    else if negb (unhex16_is s) then inr (c_ERR_INVAL, Z.of_nat (S pos1 + count_hex 4 s))
    else decode_rune flags x (S (length s)) (unhex16_fast s) (skipn 4 s) (S pos1 + 4).
  Proof.
    intros s pos1. rewrite (esc_step_double_1 flags Hdouble) by reflexivity.
    cbv zeta. change (unquote_tab 117) with (-1)%Z. reflexivity.
  Qed.

  (* strict flags: a surrogate escape that the strict reference rejects is rejected *)
  Lemma decode_rune_dbl_err : forall fuel r0 rest pos, (r0 < 65536)%N -> ref_rune false r0 rest = None ->
    exists c ep, decode_rune flags x (S fuel) r0 (E1 rest) pos = inr (c, ep).
  Proof.
    intros fuel r0 rest pos Hr H.
    destruct ((r0 <? 55296) || (57343 <? r0))%N eqn:E3; [rewrite ref_rune_plain in H by exact E3; discriminate|].
    destruct (surr_true r0 E3) as [Hs Hlo].
    assert (E1' : (r0 <=? 127)%N = false) by (apply N.leb_gt; lia).
    assert (E2 : (r0 <=? 2047)%N = false) by (apply N.leb_gt; lia).
    cbn [decode_rune]. rewrite E1', E2, E3, Hdouble, Hstrict.
    destruct (E1 rest) as [|c t] eqn:EE; [eexists; eexists; reflexivity|].
    set (p := if (c =? BS)%N then Some (t, S pos) else Some (c :: t, pos)).
    assert (Hp : exists s1 pos1, p = Some (s1, pos1) /\ ((c =? BS)%N = true /\ s1 = t \/ (c =? BS)%N = false /\ s1 = c :: t)).
    { unfold p. destruct (c =? BS)%N; eexists; eexists; split; try reflexivity; auto. }
    destruct Hp as (s1 & pos1 & -> & Hs1).
    destruct ((length s1 <? 6) || (56319 <? r0)%N || negb (nth 0 s1 0 =? BS)%N || negb (nth 1 s1 0 =? 117)%N) eqn:EC;
      [eexists; eexists; reflexivity|].
    destruct (lone_false r0 s1 EC) as (Hhi & k1 & k2 & k3 & k4 & s2 & ->).
    change (skipn 2 (BS :: 117%N :: k1 :: k2 :: k3 :: k4 :: s2)) with (k1 :: k2 :: k3 :: k4 :: s2).
    change (unhex16_is (k1 :: k2 :: k3 :: k4 :: s2)) with (unhex16_is [k1; k2; k3; k4]).
    change (unhex16_fast (k1 :: k2 :: k3 :: k4 :: s2)) with (unhex16_fast [k1; k2; k3; k4]).
    destruct (unhex16_is [k1; k2; k3; k4]) eqn:EU; cbn [negb]; [|eexists; eexists; reflexivity].
    cbv zeta.
    destruct ((unhex16_fast [k1; k2; k3; k4] <? 56320) || (57343 <? unhex16_fast [k1; k2; k3; k4]))%N eqn:EL;
      [eexists; eexists; reflexivity|].
    exfalso.
    destruct Hs1 as [[Ec Et]|[Ec Et]]; [subst t|injection Et as Et _; subst c; discriminate Ec].
    apply N.eqb_eq in Ec. subst c.
    destruct (E1_inv_bs2 _ _ EE) as (r1 & -> & Er1).
    symmetry in Er1. destruct (E1_inv_plain _ _ _ Er1 eq_refl) as (r2 & -> & Er2 & _).
    symmetry in Er2. destruct (E1_inv_hex4 _ _ _ _ _ _ Er2 EU) as (r3 & -> & _).
    unfold ref_rune in H. rewrite Hs in H.
    destruct (N.ltb_spec r0 56320) as [_|?]; [|lia].
    change (getu4 (92%N :: 117%N :: k1 :: k2 :: k3 :: k4 :: r3)) with (hex4 (k1 :: k2 :: k3 :: k4 :: r3)) in H.
    destruct (hex_quad_true _ _ _ _ r3 EU) as [EQ _]. rewrite EQ in H.
    apply orb_false_iff in EL. destruct EL as [La Lb]. apply N.ltb_ge in La, Lb.
    replace ((56320 <=? unhex16_fast [k1; k2; k3; k4]) && (unhex16_fast [k1; k2; k3; k4] <=? 57343))%N with true in H
      by (symmetry; apply andb_true_iff; split; apply N.leb_le; assumption).
    discriminate.
  Qed.

  Lemma dbl_loop_err : forall fr u, length u < fr -> ref_unquote fr false u = None ->
    forall f pos, length (E1 u) < f -> is_err (unquote_loop flags x f (E1 u) pos).
  Proof.
    induction fr as [|fr IH]; intros u Hfr H f pos Hf; [lia|].
    destruct f as [|f]; [lia|].
    destruct u as [|b r]; [discriminate|].
    cbn [ref_unquote] in H. cbn [length] in Hfr.
    destruct (b =? 92)%N eqn:Eb.
    - apply N.eqb_eq in Eb. subst b. rewrite E1_bs in *. cbn [length] in Hf.
      destruct r as [|c r'].
      { change (E1 []) with (@nil N). rewrite unq_esc, (esc_step_eof flags Hdouble). apply is_err_intro. }
      cbn [length] in Hfr.
      pose proof (esc_class_all c) as EC. unfold esc_class_b in EC.
      destruct (ref_simple c) as [v|] eqn:ES.
      + destruct (ref_unquote fr false r') as [o'|] eqn:ER; [discriminate|].
        destruct (is_special c) eqn:Hsp.
        * assert (Hc : c = 34%N \/ c = 92%N).
          { unfold ref_simple in ES.
            repeat match type of ES with
                   | context [(c =? ?k)%N] => destruct (N.eqb_spec c k) as [->|?]; [auto; vm_compute in Hsp; discriminate|]
                   end.
            discriminate. }
          destruct Hc as [-> | ->].
          -- rewrite E1_quote in *. cbn [length] in Hf.
             rewrite (loop_esc_qb flags Hdouble x f 34%N v) by (try reflexivity; exact EC).
             apply is_err_ucons. apply IH; [|exact ER|]; lia.
          -- rewrite E1_bs in *. cbn [length] in Hf.
             rewrite (loop_esc_qb flags Hdouble x f BS v) by (try reflexivity; exact EC).
             apply is_err_ucons. apply IH; [|exact ER|]; lia.
        * rewrite (E1_plain c) in * by exact Hsp. cbn [length] in Hf.
          rewrite (loop_esc_plain flags Hdouble x f c v) by (try exact EC; apply (plain_not_bs c Hsp)).
          apply is_err_ucons. apply IH; [|exact ER|]; lia.
      + destruct (N.eqb_spec c 117) as [->|Hc].
        * rewrite (E1_plain 117) in * by reflexivity. cbn [length] in Hf.
          rewrite unq_esc, esc_u_dbl_gen.
          destruct (length (E1 r') <? 4) eqn:EL4; [apply is_err_intro|]. apply Nat.ltb_ge in EL4.
          destruct (unhex16_is (E1 r')) eqn:EU'; cbn [negb]; [|apply is_err_intro].
          destruct (E1 r') as [|k1 [|k2 [|k3 [|k4 s2]]]] eqn:EE; cbn [length] in EL4; try lia.
          change (unhex16_is (k1 :: k2 :: k3 :: k4 :: s2)) with (unhex16_is [k1; k2; k3; k4]) in EU'.
          change (unhex16_fast (k1 :: k2 :: k3 :: k4 :: s2)) with (unhex16_fast [k1; k2; k3; k4]).
          change (skipn 4 (k1 :: k2 :: k3 :: k4 :: s2)) with s2.
          destruct (E1_inv_hex4 _ _ _ _ _ _ EE EU') as (rest & -> & ->).
          destruct (hex_quad_true _ _ _ _ rest EU') as [EQ Hr0]. rewrite EQ in H.
          change (skipn 4 (k1 :: k2 :: k3 :: k4 :: rest)) with rest in H.
          destruct (ref_rune false (unhex16_fast [k1; k2; k3; k4]) rest) as [[e rest']|] eqn:ERR.
          -- destruct (ref_unquote fr false rest') as [o'|] eqn:ER; [discriminate|].
             destruct (decode_rune_dbl flags Hdouble x (length (k1 :: k2 :: k3 :: k4 :: E1 rest)) _ rest e rest' (S (pos + 2) + 4) Hr0 ERR)
               as (pos' & ED & _ & ELen).
             rewrite ED. apply is_err_ucons. pose proof (ref_rune_rest_len _ _ _ _ _ ERR) as LL.
             cbn [length] in Hfr, Hf. apply IH; [|exact ER|]; lia.
          -- destruct (decode_rune_dbl_err (length (k1 :: k2 :: k3 :: k4 :: E1 rest)) _ rest (S (pos + 2) + 4) Hr0 ERR) as (cd & ep & ->).
             apply is_err_intro.
        * apply Z.eqb_eq in EC. rewrite unq_esc.
          destruct (is_special c) eqn:Hsp.
          -- destruct (special_head c Hsp) as (c' & t & Ee & Ec1 & Ec2).
             assert (Hn34 : (c =? 34)%N = false).
             { destruct (N.eqb_spec c 34) as [->|]; [discriminate ES|reflexivity]. }
             assert (Hn92 : (c =? 92)%N = false).
             { destruct (N.eqb_spec c 92) as [->|]; [discriminate ES|reflexivity]. }
             rewrite Hn92 in Ec1. rewrite Hn34, Hn92 in Ec2. specialize (Ec2 eq_refl).
             rewrite E1_cons, Ee.
             change ((BS :: c' :: t) ++ E1 r') with (BS :: c' :: t ++ E1 r').
             unfold esc_step, dbl_step. rewrite Hdouble.
             change (BS =? BS)%N with true. cbv iota. rewrite Ec1, Ec2. apply is_err_intro.
          -- rewrite (E1_plain c) by exact Hsp.
             rewrite (esc_step_double_1 flags Hdouble) by (apply (plain_not_bs c Hsp)).
             cbv zeta. rewrite EC. apply is_err_intro.
    - destruct (ref_unquote fr false r) as [o'|] eqn:ER; [discriminate|].
      destruct (is_special b) eqn:Hsp.
      + rewrite E1_cons in *.
        destruct (raw_special_shape b Hsp Eb) as [(c & Ee & Hc & Hv & Hsh)|(h1 & h2 & h3 & h4 & Ee & EU & EV & E127 & Hsh)];
          rewrite Ee in *.
        * change ([BS; c] ++ E1 r) with (BS :: c :: E1 r) in *. cbn [length] in Hf.
          destruct r as [|a r2]; [destruct fr; [lia|discriminate ER]|].
          rewrite (loop_raw_short_ne flags Hdouble x f c b) by (try assumption; apply E1_nonempty).
          apply is_err_ucons. apply IH; [|exact ER|]; lia.
        * change ([BS; 117%N; h1; h2; h3; h4] ++ E1 r) with (BS :: 117%N :: h1 :: h2 :: h3 :: h4 :: E1 r) in *.
          cbn [length] in Hf.
          rewrite (loop_raw_u flags Hdouble x) by (try assumption; rewrite EV; exact E127).
          apply is_err_ucons. apply IH; [|exact ER|]; lia.
      + rewrite (E1_plain b) in * by exact Hsp. cbn [length] in Hf.
        rewrite unq_plain by (apply (plain_not_bs b Hsp)).
        apply is_err_ucons. apply IH; [|exact ER|]; cbn [length]; lia.
  Qed.
End DblErr.

(* ---- the reference: strict success is replace-mode success, fuel monotonicity ---- *)
Lemma ref_rune_strict_le : forall r0 rest p, ref_rune false r0 rest = Some p -> ref_rune true r0 rest = Some p.
Proof.
  intros r0 rest p. unfold ref_rune, lone.
  destruct ((55296 <=? r0) && (r0 <=? 57343))%N; [|auto].
  destruct (r0 <? 56320)%N; [|discriminate].
  destruct (getu4 rest) as [r1|]; [|discriminate].
  destruct ((56320 <=? r1) && (r1 <=? 57343))%N; [auto|discriminate].
Qed.

Lemma ref_strict_le : forall f u o, ref_unquote f false u = Some o -> ref_unquote f true u = Some o.
Proof.
  induction f as [|f IH]; intros u o H; [discriminate|].
  cbn [ref_unquote] in *. destruct u as [|b r]; [exact H|].
  destruct (b =? 92)%N.
  - destruct r as [|c r']; [discriminate|]. destruct (ref_simple c) as [v|].
    + destruct (ref_unquote f false r') as [o'|] eqn:E; [|discriminate]. rewrite (IH _ _ E). exact H.
    + destruct (c =? 117)%N; [|discriminate]. destruct (hex4 r') as [r0|]; [|discriminate].
      destruct (ref_rune false r0 (skipn 4 r')) as [[e rest]|] eqn:ER; [|discriminate].
      rewrite (ref_rune_strict_le _ _ _ ER).
      destruct (ref_unquote f false rest) as [o'|] eqn:E; [|discriminate]. rewrite (IH _ _ E). exact H.
  - destruct (ref_unquote f false r) as [o'|] eqn:E; [|discriminate]. rewrite (IH _ _ E). exact H.
Qed.

Lemma ref_fuel_mono : forall f f' rep u o, f <= f' -> ref_unquote f rep u = Some o -> ref_unquote f' rep u = Some o.
Proof.
  induction f as [|f IH]; intros f' rep u o Hle H; [discriminate|].
  destruct f' as [|f']; [lia|]. assert (Hle' : f <= f') by lia.
  cbn [ref_unquote] in *. destruct u as [|b r]; [exact H|].
  destruct (b =? 92)%N.
  - destruct r as [|c r']; [discriminate|]. destruct (ref_simple c) as [v|].
    + destruct (ref_unquote f rep r') as [o'|] eqn:E; [|discriminate]. rewrite (IH f' _ _ _ Hle' E). exact H.
    + destruct (c =? 117)%N; [|discriminate]. destruct (hex4 r') as [r0|]; [|discriminate].
      destruct (ref_rune rep r0 (skipn 4 r')) as [[e rest]|]; [|discriminate].
      destruct (ref_unquote f rep rest) as [o'|] eqn:E; [|discriminate]. rewrite (IH f' _ _ _ Hle' E). exact H.
  - destruct (ref_unquote f rep r) as [o'|] eqn:E; [|discriminate]. rewrite (IH f' _ _ _ Hle' E). exact H.
Qed.

(* ---- the theorems ---- *)
(* exact result of the fused pass on a canonically escaped inner body accepted by the strict reference *)
Theorem unquote_double_strict_exact : forall flags u o, has flags c_F_DBLUNQ = true ->
  ref_unquote (S (length u)) false u = Some o ->
  unquote flags (E1 u) = if last_ok u then UOk o else UErr c_ERR_EOF (Z.of_nat (length (E1 u))).
Proof.
  intros flags u o Hd H. unfold unquote.
  exact (dbl_loop flags Hd (length (E1 u)) _ u o H (S (length (E1 u))) 0 (Nat.lt_succ_diag_r _)).
Qed.

Theorem unquote_double_strict : forall flags u o, has flags c_F_DBLUNQ = true -> last_ok u = true ->
  ref_unquote (S (length u)) false u = Some o ->
  unquote flags (escape_all _SingleQuoteTab u) = UOk o.
Proof. intros flags u o Hd Hl H. rewrite (unquote_double_strict_exact flags u o Hd H), Hl. reflexivity. Qed.

(* the hypothesis last_ok is necessary, for every such u *)
Theorem unquote_double_strict_last_needed : forall flags u o, has flags c_F_DBLUNQ = true -> last_ok u = false ->
  ref_unquote (S (length u)) false u = Some o ->
  unquote flags (escape_all _SingleQuoteTab u) = UErr c_ERR_EOF (Z.of_nat (length (escape_all _SingleQuoteTab u))).
Proof. intros flags u o Hd Hl H. rewrite (unquote_double_strict_exact flags u o Hd H), Hl. reflexivity. Qed.

Corollary unquote_double_eq_twice_strict : forall flags rep u o, has flags c_F_DBLUNQ = true -> last_ok u = true ->
  ref_unquote (S (length u)) false u = Some o ->
  unquote flags (escape_all _SingleQuoteTab u) = UOk o /\
  ref_unquote2 rep (escape_all _SingleQuoteTab u) = Some o.
Proof.
  intros flags rep u o Hd Hl H. split; [exact (unquote_double_strict flags u o Hd Hl H)|].
  unfold ref_unquote2. rewrite ref_unquote_escape.
  destruct rep; [apply ref_strict_le|]; exact H.
Qed.

(* error direction, strict flags only (F_UNIREP off, sonic's UseUnicodeErrors) *)
Theorem unquote_double_strict_err_partial : forall flags u, has flags c_F_DBLUNQ = true -> has flags c_F_UNIREP = false ->
  ref_unquote (S (length u)) false u = None ->
  exists c ep, unquote flags (escape_all _SingleQuoteTab u) = UErr c ep.
Proof.
  intros flags u Hd Hs H. unfold unquote.
  exact (dbl_loop_err flags Hd Hs (length (E1 u)) _ u (Nat.lt_succ_diag_r _) H (S (length (E1 u))) 0 (Nat.lt_succ_diag_r _)).
Qed.

Corollary unquote_double_strict_err_partial_rep : forall flags u, has flags c_F_DBLUNQ = true -> has flags c_F_UNIREP = false ->
  ref_unquote (S (length u)) true u = None ->
  exists c ep, unquote flags (escape_all _SingleQuoteTab u) = UErr c ep.
Proof.
  intros flags u Hd Hs H. apply unquote_double_strict_err_partial; try assumption.
  destruct (ref_unquote (S (length u)) false u) as [o|] eqn:E; [|reflexivity].
  rewrite (ref_strict_le _ _ _ E) in H. discriminate.
Qed.

(* strict flags: the fused pass on a canonically escaped body IS the strict reference, up to last_ok *)
Corollary unquote_double_strict_iff : forall flags u o, has flags c_F_DBLUNQ = true -> has flags c_F_UNIREP = false ->
  (unquote flags (escape_all _SingleQuoteTab u) = UOk o <->
   ref_unquote (S (length u)) false u = Some o /\ last_ok u = true).
Proof.
  intros flags u o Hd Hs. split.
  - intros HU. destruct (ref_unquote (S (length u)) false u) as [o'|] eqn:E.
    + rewrite (unquote_double_strict_exact flags u o' Hd E) in HU.
      destruct (last_ok u); [|discriminate]. injection HU as ->. auto.
    + destruct (unquote_double_strict_err_partial flags u Hd Hs E) as (c & ep & HE). rewrite HE in HU. discriminate.
  - intros [H Hl]. exact (unquote_double_strict flags u o Hd Hl H).
Qed.

(* with F_UNIREP the error direction FAILS: the inner body \ud800 \ LF (a lone high surrogate, then a backslash
   followed by a raw line feed - not an escape) is rejected by the reference in both modes, but the fused pass
   skips the backslash after the surrogate, reads the next two bytes as the escape \n and accepts *)
Definition dbl_w4 : list N := [92; 117; 100; 56; 48; 48; 92; 10]%N.
Theorem unquote_double_err_refuted :
  ref_unquote (S (length dbl_w4)) true dbl_w4 = None /\ ref_unquote (S (length dbl_w4)) false dbl_w4 = None /\
  ref_unquote2 true (escape_all _SingleQuoteTab dbl_w4) = None /\
  unquote 3 (escape_all _SingleQuoteTab dbl_w4) = UOk [239; 191; 189; 10]%N /\
  jit_unquote_twice false ([92; 34]%N ++ escape_all _SingleQuoteTab dbl_w4 ++ [92; 34]%N) = Some [239; 191; 189; 10]%N.
Proof. vm_compute. repeat split; reflexivity. Qed.

(* ---- the hypotheses are satisfiable, and each one is needed ---- *)
(* inner body: a, the escape n, u00e9, the pair ud83d ude00, an escaped quote, an escaped backslash, then a raw
   line feed and b - every kind of token, a raw control byte inside *)
Definition strict_ex : list N :=
  [97; 92; 110; 92; 117; 48; 48; 101; 57; 92; 117; 100; 56; 51; 100; 92; 117; 100; 101; 48; 48; 92; 34; 92; 92; 10; 98]%N.
Example unquote_double_strict_sat :
  has 3 c_F_DBLUNQ = true /\ has 1 c_F_DBLUNQ = true /\ has 1 c_F_UNIREP = false /\ last_ok strict_ex = true /\
  ref_unquote (S (length strict_ex)) false strict_ex = Some [97; 10; 195; 169; 240; 159; 152; 128; 34; 92; 10; 98]%N /\
  unquote 3 (escape_all _SingleQuoteTab strict_ex) = UOk [97; 10; 195; 169; 240; 159; 152; 128; 34; 92; 10; 98]%N /\
  escape_all _SingleQuoteTab strict_ex <> escape_all _DoubleQuoteTab [97; 10; 195; 169; 240; 159; 152; 128; 34; 92; 10; 98]%N.
Proof. vm_compute. repeat split; try reflexivity. discriminate. Qed.

(* last_ok is needed: inner body  a LF .  E1 writes  a \ n ; the fused pass wants one more byte after the n
   (nr == 0 -> ERR_EOF) although nothing is missing; the reference copies the line feed.  Same for a raw
   quote, tab, carriage return in last position, also after an escaped backslash.  An ESCAPED quote in last
   position is fine.  Through the decoder path (jit_unquote_twice gets the body with its two \ quote ends and
   passes only the middle to unquote) the value is rejected. *)
Example last_ok_needed :
  last_ok [97; 10]%N = false /\ ref_unquote 3 false [97; 10]%N = Some [97; 10]%N /\
  escape_all _SingleQuoteTab [97; 10]%N = [97; 92; 110]%N /\
  unquote 3 (escape_all _SingleQuoteTab [97; 10]%N) = UErr c_ERR_EOF 3 /\
  ref_unquote2 true (escape_all _SingleQuoteTab [97; 10]%N) = Some [97; 10]%N /\
  jit_unquote_twice false ([92; 34]%N ++ escape_all _SingleQuoteTab [97; 10]%N ++ [92; 34]%N) = None /\
  unquote 3 (escape_all _SingleQuoteTab [97; 34]%N) = UErr c_ERR_EOF 3 /\
  unquote 3 (escape_all _SingleQuoteTab [92; 92; 34]%N) = UErr c_ERR_EOF 6 /\
  last_ok [92; 34]%N = true /\ unquote 3 (escape_all _SingleQuoteTab [92; 34]%N) = UOk [34]%N /\
  last_ok [97; 10; 98]%N = true /\ unquote 3 (escape_all _SingleQuoteTab [97; 10; 98]%N) = UOk [97; 10; 98]%N /\
  last_ok [97; 1]%N = true /\ unquote 3 (escape_all _SingleQuoteTab [97; 1]%N) = UOk [97; 1]%N.
Proof. vm_compute. repeat split; reflexivity. Qed.

(* strictness is needed: inner body \ud800 \\ (lone surrogate, then an escaped backslash); last_ok holds, the
   replace-mode reference accepts, the fused pass fails (this is dbl_w3 of DoubleProofs, KF-double-unquote-fusion) *)
Example strict_needed :
  let u := [92; 117; 100; 56; 48; 48; 92; 92]%N in
  last_ok u = true /\ ref_unquote (S (length u)) true u = Some [239; 191; 189; 92]%N /\
  ref_unquote (S (length u)) false u = None /\ escape_all _SingleQuoteTab u = dbl_w3 /\
  unquote 3 (escape_all _SingleQuoteTab u) = UErr c_ERR_EOF 11.
Proof. vm_compute. repeat split; reflexivity. Qed.

(* canonical outer escaping is needed: dbl_w1 of DoubleProofs is the outer literal \n whose once-unquoted
   content is \n (strictly accepted, last_ok), but it is not E1 of it *)
Example canonical_outer_needed :
  ref_unquote (S (length dbl_w1)) false dbl_w1 = Some [92; 110]%N /\ last_ok [92; 110]%N = true /\
  ref_unquote 3 false [92; 110]%N = Some [10]%N /\ escape_all _SingleQuoteTab [92; 110]%N <> dbl_w1 /\
  unquote 3 dbl_w1 = UOk [92; 110]%N /\ unquote 3 (escape_all _SingleQuoteTab [92; 110]%N) = UOk [10]%N.
Proof. vm_compute. repeat split; try reflexivity. discriminate. Qed.
