(* C10 - write-barrier coverage of the x86 emitters, over the store table regenerated from
   internal/decoder/jitdec/{assembler,generic}_regabi_amd64.go and internal/encoder/x86/assembler_regabi_amd64.go
   (Gen/WbStores.v).

   Claim: every store instruction the emitters generate whose destination is not the stack frame is
     - inside a write-barrier helper (WritePtrAX / WriteRecNotAX / WritePtr: barrier buffer slots + the guarded store), or
     - narrower than a pointer / a float store, or stores an immediate, or
     - a byte store into the encoder's output buffer (RP-relative; a []byte is never scanned), or
     - one of the listed exceptions, each with a category and the number of times it occurs.
   The categories of the exceptions are arguments made by reading the emitter (see notes/C10.md); they are NOT proved:
   no semantics of the generated code is available.  What the theorem gives is that the list is exhaustive - a new
   8/16-byte store to a non-stack destination outside the helpers breaks the proof build. *)
From Coq Require Import String List Bool Arith Ascii.
From SV.Gen Require Import WbStores.
Import ListNotations.
Open Scope string_scope.

Definition row := (string * (string * (string * (string * (string * (string * string))))))%type.
Definition r_fn (r : row) := fst r.
Definition r_kind (r : row) := fst (snd r).
Definition r_mnem (r : row) := fst (snd (snd r)).
Definition r_src (r : row) := fst (snd (snd (snd r))).
Definition r_dst (r : row) := fst (snd (snd (snd (snd r)))).
Definition r_class (r : row) := fst (snd (snd (snd (snd (snd r))))).
Definition r_cond (r : row) := snd (snd (snd (snd (snd (snd r))))).

Fixpoint contains (needle hay : string) : bool :=
  prefix needle hay || match hay with EmptyString => false | String _ r => contains needle r end.

Definition smem (x : string) (l : list string) : bool := existsb (String.eqb x) l.

Definition is_helper (f : string) : bool :=
  contains ".WritePtrAX" f || contains ".WriteRecNotAX" f || contains ".WritePtr" f.

Definition narrow (m : string) : bool := smem m ["MOVB"; "MOVW"; "MOVL"; "MOVSS"; "MOVSD"].

Definition auto_ok (r : row) : bool :=
  String.eqb (r_class r) "Stack" || is_helper (r_fn r) || narrow (r_mnem r) || prefix "jit.Imm(" (r_src r) ||
  String.eqb (r_class r) "Heap _RP".

Definition stores : list row := filter (fun r => String.eqb (r_kind r) "Store") wb_rows.
Definition leftovers : list row := filter (fun r => negb (auto_ok r)) stores.

(* ------------------------------------------------------------------ the exceptions *)

Inductive wbcat :=
| Scalar            (* the stored word is an integer: a slice/string length or capacity, a decoded integer, a stack-depth
                       counter, a saved loop index / flag word *)
| Zero              (* the stored register was cleared (XORL / PXOR) just before: nil / zero value; the overwritten pointer
                       is not loaded by the generated code, and the object is not shared with another goroutine *)
| TypeWord          (* the type word of an interface: a static *_type (rodata / persistent memory, never collected) *)
| StaticPointer     (* the address of a package-level zero-size base (_ZERO_PTR): not a heap object *)
| PointsIntoInput   (* a pointer into the input text, which the argument slot `s` (marked in argPtrs) keeps alive; replaced
                       through WriteRecNotAX a few instructions later *)
| FreshObject       (* 16-byte copy of the key string header sv into an object returned by mallocgc immediately before; sv.p
                       stays referenced from the argument slot _ARG_sv_p (marked in argPtrs) *)
| SelfInterior      (* pointer to byte 16 of the very object being initialised *)
| ParamNotHeap      (* `MOVQ AX, ret`: every call site passes a register or a stack operand for ret (checked below) *)
| ParamStack        (* emitted only under `if stack`; every call site with stack = true passes stack operands (checked below) *)
| BufferWriteback.  (* encoder save_buffer: the output buffer pointer RP written back into *rb (the caller's []byte header)
                       without a barrier; rb is an argument slot marked as pointer, and the write-back happens before every
                       call out of generated code.  The weakest entry of the list. *)

Definition key := (string * (string * (string * string)))%type.
Definition key_of (r : row) : key := (r_fn r, (r_mnem r, (r_src r, r_dst r))).
Definition key_eqb (a b : key) : bool :=
  String.eqb (fst a) (fst b) && String.eqb (fst (snd a)) (fst (snd b)) &&
  String.eqb (fst (snd (snd a))) (fst (snd (snd b))) && String.eqb (snd (snd (snd a))) (snd (snd (snd b))).

Definition D := "jitdec._Assembler.".
Definition G := "jitdec._ValueDecoder.compile".
Definition E := "x86.Assembler.".
Definition vp (n : string) := "jit.Ptr(_VP, " ++ n ++ ")".

(* (key, number of occurrences, category) *)
Definition exceptions : list (key * nat * wbcat) :=
  [ ((D ++ "_asm_OP_bin", ("MOVQ", ("_DI", vp "0"))), 1, PointsIntoInput);
    ((D ++ "_asm_OP_bin", ("MOVQ", ("_SI", vp "8"))), 1, Scalar);
    ((D ++ "_asm_OP_bin", ("MOVQ", ("_SI", vp "16"))), 1, Scalar);
    ((D ++ "_asm_OP_bin", ("XCHGQ", ("_DX", vp "8"))), 1, Scalar);
    ((D ++ "_asm_OP_bin", ("MOVQ", ("_AX", vp "8"))), 1, Scalar);
    ((D ++ "_asm_OP_check_empty", ("MOVOU", ("_X0", vp "8"))), 1, Zero);
    ((D ++ "_asm_OP_drop", ("MOVQ", ("_AX", "jit.Ptr(_ST, 0)"))), 1, Scalar);
    ((D ++ "_asm_OP_drop", ("MOVQ", ("_BX", "jit.Sib(_ST, _AX, 1, 8)"))), 1, Zero);
    ((D ++ "_asm_OP_drop_2", ("MOVQ", ("_AX", "jit.Ptr(_ST, 0)"))), 1, Scalar);
    ((D ++ "_asm_OP_drop_2", ("MOVOU", ("_X0", "jit.Sib(_ST, _AX, 1, 8)"))), 1, Zero);
    ((D ++ "_asm_OP_empty_bytes", ("MOVQ", ("_AX", vp "0"))), 1, StaticPointer);
    ((D ++ "_asm_OP_empty_bytes", ("MOVOU", ("_X0", vp "8"))), 1, Zero);
    ((D ++ "_asm_OP_i64", ("MOVQ", ("_AX", vp "0"))), 1, Scalar);
    ((D ++ "_asm_OP_u64", ("MOVQ", ("_AX", vp "0"))), 1, Scalar);
    ((D ++ "_asm_OP_map_key_str", ("MOVOU", ("_X0", "jit.Ptr(_DI, 0)"))), 1, FreshObject);
    ((D ++ "_asm_OP_nil_1", ("MOVQ", ("_AX", vp "0"))), 1, Zero);
    ((D ++ "_asm_OP_nil_2", ("MOVOU", ("_X0", vp "0"))), 1, Zero);
    ((D ++ "_asm_OP_nil_3", ("MOVOU", ("_X0", vp "0"))), 1, Zero);
    ((D ++ "_asm_OP_nil_3", ("MOVQ", ("_AX", vp "16"))), 1, Zero);
    ((D ++ "_asm_OP_num", ("MOVQ", ("_SI", vp "8"))), 1, Scalar);
    ((D ++ "_asm_OP_save", ("MOVQ", ("_CX", "jit.Ptr(_ST, 0)"))), 1, Scalar);
    ((D ++ "_asm_OP_slice_append", ("MOVQ", ("_BX", vp "8"))), 1, Scalar);
    ((D ++ "_asm_OP_slice_append", ("MOVQ", ("_CX", vp "16"))), 1, Scalar);
    ((D ++ "_asm_OP_slice_init", ("MOVQ", ("_AX", vp "8"))), 2, Scalar);
    ((D ++ "_asm_OP_slice_init", ("MOVQ", ("_CX", vp "16"))), 1, Scalar);
    ((D ++ "decode_dynamic", ("MOVQ", ("_DX", "jit.Ptr(_ST, 0)"))), 1, Scalar);
    ((D ++ "malloc_AX", ("MOVQ", ("_AX", "ret"))), 1, ParamNotHeap);
    ((D ++ "valloc", ("MOVQ", ("_AX", "ret"))), 1, ParamNotHeap);
    ((D ++ "unquote_once", ("MOVQ", ("_SI", "n"))), 1, Scalar);
    ((D ++ "unquote_once", ("MOVQ", ("_DI", "p"))), 1, ParamStack);
    ((D ++ "unquote_twice", ("MOVQ", ("_SI", "n"))), 1, Scalar);
    ((D ++ "unquote_twice", ("MOVQ", ("_DI", "p"))), 1, ParamStack);
    ((G, ("MOVQ", ("_CX", "jit.Ptr(_ST, _ST_Sp)"))), 4, Scalar);
    ((G, ("MOVQ", ("_R8", "jit.Ptr(_SI, 0)"))), 1, TypeWord);
    ((G, ("MOVQ", ("_AX", "jit.Ptr(_SI, 0)"))), 1, TypeWord);
    ((G, ("MOVQ", ("_DX", "jit.Ptr(_SI, 0)"))), 1, TypeWord);
    ((G, ("MOVQ", ("_R8", "jit.Ptr(_R9, 0)"))), 1, SelfInterior);
    ((G, ("MOVQ", ("_AX", "jit.Ptr(_R9, 8)"))), 1, Scalar);
    ((G, ("MOVQ", ("_DX", "jit.Sib(_ST, _CX, 8, _ST_Vp)"))), 2, Zero);
    ((G, ("MOVQ", ("_DX", "jit.Sib(_ST, _CX, 8, _ST_Vp - 8)"))), 1, Zero);
    ((G, ("MOVQ", ("_DX", "jit.Ptr(_SI, 8)"))), 2, Scalar);
    ((G, ("MOVQ", ("_AX", "jit.Sib(_ST, _CX, 8, _ST_Vp)"))), 1, Zero);
    ((G, ("MOVQ", ("_EP", "jit.Ptr(_ST, _ST_Vp)"))), 1, Zero);
    ((G, ("MOVQ", ("_AX", "jit.Ptr(_SI, 16)"))), 1, Scalar);
    ((G, ("MOVOU", ("_X0", vp "0"))), 1, Zero);
    ((E ++ "_asm_OP_bin", ("MOVQ", ("_RL", "jit.Ptr(_DI, 8)"))), 1, Scalar);
    ((E ++ "_asm_OP_drop_2", ("MOVOU", ("_X0", "jit.Sib(_ST, _AX, 1, 56)"))), 1, Zero);
    ((E ++ "_asm_OP_number", ("MOVQ", ("_RL", "jit.Ptr(_AX, 8)"))), 1, Scalar);
    ((E ++ "drop_state", ("MOVQ", ("_AX", "jit.Ptr(_ST, 0)"))), 1, Scalar);
    ((E ++ "drop_state", ("MOVOU", ("_X0", "jit.Sib(_ST, _AX, 1, 8)"))), 1, Zero);
    ((E ++ "drop_state", ("MOVOU", ("_X0", "jit.Sib(_ST, _AX, 1, 24)"))), 1, Zero);
    ((E ++ "epilogue", ("MOVQ", ("_RL", "jit.Ptr(_CX, 8)"))), 1, Scalar);
    ((E ++ "prep_buffer_AX", ("MOVQ", ("_RL", "jit.Ptr(_AX, 8)"))), 1, Scalar);
    ((E ++ "save_buffer", ("MOVQ", ("_RP", "jit.Ptr(_CX, 0)"))), 1, BufferWriteback);
    ((E ++ "save_buffer", ("MOVQ", ("_RL", "jit.Ptr(_CX, 8)"))), 1, Scalar);
    ((E ++ "save_buffer", ("MOVQ", ("_RC", "jit.Ptr(_CX, 16)"))), 1, Scalar);
    ((E ++ "save_state", ("MOVQ", ("_SP_x", "jit.Sib(_ST, _CX, 1, 8)"))), 1, Scalar);
    ((E ++ "save_state", ("MOVQ", ("_SP_f", "jit.Sib(_ST, _CX, 1, 16)"))), 1, Scalar);
    ((E ++ "save_state", ("MOVQ", ("_R9", "jit.Ptr(_ST, 0)"))), 1, Scalar) ].

Definition count_key (k : key) : nat := List.length (filter (fun r => key_eqb (key_of r) k) leftovers).

(* exhaustive in both directions: every leftover store is listed, and every listed key occurs exactly as often as stated *)
Definition exceptions_exact : bool :=
  forallb (fun r => existsb (fun e => key_eqb (key_of r) (fst (fst e))) exceptions) leftovers &&
  forallb (fun e => Nat.eqb (count_key (fst (fst e))) (snd (fst e))) exceptions.

(* ---- side conditions of ParamNotHeap / ParamStack: the call sites *)
Definition calls_of (callee : string) : list row :=
  filter (fun r => String.eqb (r_kind r) "Call" && String.eqb (r_mnem r) callee) wb_rows.

Fixpoint split_args (s : string) (cur : string) : list string :=
  match s with
  | EmptyString => [cur]
  | String ";" (String " " r) => cur :: split_args r ""
  | String c r => split_args r (cur ++ String c EmptyString)
  end.

Definition no_heap_operand (r : row) : bool := negb (contains "=Heap" (r_src r)) && negb (contains "=Param" (r_src r)).

(* unquote_once(p, n, stack, copy) / unquote_twice(p, n, stack): a heap operand for p only with stack = false *)
Definition unquote_call_ok (r : row) : bool :=
  match split_args (r_src r) "" with
  | p :: _ :: st :: _ => negb (contains "=Heap" p || contains "=Param" p) || String.eqb st "false="
  | _ => false
  end.

Definition param_sites_ok : bool :=
  forallb no_heap_operand (calls_of "malloc_AX") && forallb no_heap_operand (calls_of "valloc") &&
  forallb unquote_call_ok (calls_of "unquote_once") && forallb unquote_call_ok (calls_of "unquote_twice") &&
  (* the plain stores to p are the ones under `if stack` *)
  forallb (fun r => negb (String.eqb (r_dst r) "p" && negb (is_helper (r_fn r))) || String.eqb (r_cond r) "stack") stores.

(* ---- the barrier helpers are used: every pointer-typed publication the emitters make goes through them *)
Definition barrier_calls : list row := filter (fun r => String.eqb (r_kind r) "Barrier") wb_rows.

(* the helpers themselves have the guarded shape: flag test, two barrier-buffer slots, then the store *)
Definition helper_shape (f : string) (n : nat) : bool :=
  Nat.eqb (List.length (filter (fun r => String.eqb (r_fn r) f && String.eqb (r_kind r) "Store") wb_rows)) n.

Definition helpers_ok : bool :=
  helper_shape "jitdec._Assembler.WritePtrAX" 3 && helper_shape "jitdec._Assembler.WriteRecNotAX" 3 &&
  helper_shape "jitdec._ValueDecoder.WritePtrAX" 3 && helper_shape "jitdec._ValueDecoder.WriteRecNotAX" 3 &&
  helper_shape "x86.Assembler.WritePtr" 3 && Nat.leb 20 (List.length barrier_calls).

Definition wb_ok : bool := exceptions_exact && param_sites_ok && helpers_ok.

