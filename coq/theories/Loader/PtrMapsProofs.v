(* C10 - the pointer bitmaps sonic hands to the runtime for its generated functions, against the Go signatures of the
   function types the generated code is cast to (Gen/PtrMaps.v, regenerated from source).

   Word layout (amd64, 8-byte words, the stack-spill layout of the register ABI = the ABI0 argument order):
     pointer-shaped (unsafe.Pointer, *T, map, chan, func)   1 word,  pointer
     integer / bool / float                                 1 word,  scalar
     string                                                 2 words, pointer, scalar (len)
     slice                                                  3 words, pointer, scalar, scalar
     interface                                              2 words, pointer (type/itab), pointer (data)
   The bitmap covers the argument area only (results travel in registers); its length times 8 is the declared size of the
   argument area (_FP_args).  The LOCAL bitmaps are empty by design: the local area of the generated frames is never
   scanned, which is only sound if no pointer lives solely in a local slot across a call - that is not provable here
   (named in the evidence; sampled by the GC stress runs). *)
From Coq Require Import String List NArith Bool.
From SV.Gen Require Import PtrMaps.
Import ListNotations.

Definition words (t : gty) : list bool :=
  match t with
  | GPtr => [true]
  | GScalar => [false]
  | GString => [true; false]
  | GSlice => [true; false; false]
  | GIface => [true; true]
  end.

Definition ptrmap_of (params : list (string * gty)) : list bool := flat_map (fun p => words (snd p)) params.

Fixpoint bools_eqb (a b : list bool) : bool :=
  match a, b with
  | [], [] => true
  | x :: a', y :: b' => Bool.eqb x y && bools_eqb a' b'
  | _, _ => false
  end.

Lemma bools_eqb_eq : forall a b, bools_eqb a b = true -> a = b.
Proof.
  induction a as [|x a IH]; destruct b as [|y b]; cbn; intro H; try discriminate; [reflexivity|].
  apply andb_prop in H. destruct H as [H1 H2]. apply Bool.eqb_prop in H1. f_equal; auto.
Qed.

Definition ptrmaps_ok : bool :=
  bools_eqb (ptrmap_of decoder_params) jitdec_argPtrs &&
  bools_eqb (ptrmap_of encoder_params) vars_ArgPtrs &&
  N.eqb (8 * N.of_nat (length jitdec_argPtrs)) jitdec_FP_args &&
  N.eqb (8 * N.of_nat (length vars_ArgPtrs)) encoder_FP_args &&
  N.eqb (8 * N.of_nat (length jitdec_argPtrs_generic)) jitdec_VD_args &&
  bools_eqb jitdec_argPtrs_generic [true] && bools_eqb vars_ArgPtrs_generic [true] &&
  (* frame layout: size = outgoing args + saves + locals + saved frame pointer *)
  N.eqb (jitdec_FP_fargs + jitdec_FP_saves + jitdec_FP_locals + 8) jitdec_FP_size &&
  N.eqb (encoder_FP_fargs + encoder_FP_saves + encoder_FP_locals + 8) encoder_FP_size.

Theorem ptrmaps_match_signature :
  ptrmap_of decoder_params = jitdec_argPtrs /\
  ptrmap_of encoder_params = vars_ArgPtrs /\
  (8 * N.of_nat (length jitdec_argPtrs) = jitdec_FP_args)%N /\
  (8 * N.of_nat (length vars_ArgPtrs) = encoder_FP_args)%N /\
  (8 * N.of_nat (length jitdec_argPtrs_generic) = jitdec_VD_args)%N /\
  jitdec_argPtrs_generic = [true] /\ vars_ArgPtrs_generic = [true] /\
  (jitdec_FP_fargs + jitdec_FP_saves + jitdec_FP_locals + 8 = jitdec_FP_size)%N /\
  (encoder_FP_fargs + encoder_FP_saves + encoder_FP_locals + 8 = encoder_FP_size)%N.
Proof.
  assert (H : ptrmaps_ok = true) by (vm_compute; reflexivity).
  unfold ptrmaps_ok in H.
  repeat (apply andb_prop in H; destruct H as [H ?]).
  repeat split;
    first [ apply bools_eqb_eq; assumption | apply N.eqb_eq; assumption ].
Qed.

(* the local bitmaps are empty: nothing in the local area is reported to the collector *)
Theorem local_maps_empty :
  jitdec_localPtrs = [] /\ jitdec_localPtrs_generic = [] /\ vars_LocalPtrs = [] /\ vars_LocalPtrs_generic = [].
Proof. vm_compute. repeat split. Qed.
