(* C10 - the function-name table handed to the runtime (runtime.moduledata.funcnametab).

   Model of /repo/loader/funcdata.go  funcNameParts  and  makeFuncnameTab:
     funcNameParts(name): i = first '[' ; j = last ']' after i ; if both exist the name is written as
                          name[:i] ++ "[...]" ++ name[j+1:], otherwise unchanged;
     makeFuncnameTab: tab = 0x00, then every written name followed by 0x00; offs[k] = offset of the k-th written name,
                      advanced by the length of what was WRITTEN (not of the original name) plus one.
   The runtime resolves a function name as the NUL-terminated string at funcnametab[nameOff:] (runtime.funcname ->
   gostringnocopy): [cstr].  Theorem: every offset resolves to exactly the name that was written for that function. *)
From Coq Require Import NArith List Lia Bool Arith.
Import ListNotations.

Definition LB : N := 91%N.   (* '[' *)
Definition RB : N := 93%N.   (* ']' *)
Definition dots : list N := [91; 46; 46; 46; 93]%N.   (* "[...]" *)

Fixpoint index_of (c : N) (s : list N) : option nat :=
  match s with
  | [] => None
  | x :: r => if N.eqb x c then Some 0 else option_map S (index_of c r)
  end.

(* the last position of c in s (the loop `for j > i && name[j] != ']' { j-- }` finds the last ']' beyond i) *)
Fixpoint last_index_of (c : N) (s : list N) : option nat :=
  match s with
  | [] => None
  | x :: r => match last_index_of c r with
              | Some j => Some (S j)
              | None => if N.eqb x c then Some 0 else None
              end
  end.

Definition func_name_parts (name : list N) : list N * list N * list N :=
  match index_of LB name with
  | None => (name, [], [])
  | Some i =>
      match last_index_of RB name with
      | Some j => if i <? j then (firstn i name, dots, skipn (S j) name) else (name, [], [])
      | None => (name, [], [])
      end
  end.

Definition written (name : list N) : list N :=
  let '(a, b, c) := func_name_parts name in a ++ b ++ c.

Fixpoint mk (names : list (list N)) (offset : nat) : list N * list nat :=
  match names with
  | [] => ([], [])
  | n :: r =>
      let w := written n in
      let '(t, o) := mk r (offset + length w + 1) in
      (w ++ 0%N :: t, offset :: o)
  end.

Definition make_funcname_tab (names : list (list N)) : list N * list nat :=
  let '(t, o) := mk names 1 in (0%N :: t, o).

(* the NUL-terminated string at the head of s *)
Fixpoint cstr (s : list N) : list N :=
  match s with
  | [] => []
  | x :: r => if N.eqb x 0 then [] else x :: cstr r
  end.

Definition resolve (tab : list N) (off : nat) : list N := cstr (skipn off tab).

Lemma cstr_app_nul : forall w t, ~ In 0%N w -> cstr (w ++ 0%N :: t) = w.
Proof.
  induction w as [|x r IH]; intros t H; cbn [app cstr]; [reflexivity|].
  destruct (N.eqb_spec x 0) as [E|E]; [exfalso; apply H; left; assumption|].
  f_equal. apply IH. intro Hin. apply H. right. assumption.
Qed.

Lemma skipn_app_exact : forall (pre rest : list N), skipn (length pre) (pre ++ rest) = rest.
Proof. induction pre as [|x r IH]; intro rest; [reflexivity | apply IH]. Qed.

Lemma mk_spec : forall names off pre,
  length pre = off -> Forall (fun n => ~ In 0%N (written n)) names ->
  forall i, i < length names ->
  resolve (pre ++ fst (mk names off)) (nth i (snd (mk names off)) 0) = written (nth i names []) /\
  length (snd (mk names off)) = length names.
Proof.
  induction names as [|n r IH]; intros off pre Hpre Hall i Hi; [cbn in Hi; lia|]. subst off.
  inversion Hall as [|x l Hn Hr]; subst x l.
  cbn [mk]. destruct (mk r (length pre + length (written n) + 1)) as [t o] eqn:E. cbn [fst snd].
  specialize (IH (length pre + length (written n) + 1) (pre ++ written n ++ [0%N])).
  rewrite E in IH. cbn [fst snd] in IH.
  assert (Hlen : length (pre ++ written n ++ [0%N]) = length pre + length (written n) + 1)
    by (rewrite !app_length; cbn [length]; lia).
  destruct i as [|i].
  - cbn [nth length]. split.
    + unfold resolve. rewrite skipn_app_exact. apply cstr_app_nul. assumption.
    + destruct r as [|n' r'].
      * cbn in E. inversion E. reflexivity.
      * f_equal. apply (IH Hlen Hr 0). cbn. lia.
  - cbn [nth length] in *. assert (Hi' : i < length r) by lia.
    destruct (IH Hlen Hr i Hi') as [A B]. split; [|lia].
    replace (pre ++ written n ++ 0%N :: t) with ((pre ++ written n ++ [0%N]) ++ t) by (rewrite <- !app_assoc; reflexivity).
    exact A.
Qed.

(* every name offset of makeFuncnameTab resolves, the way the runtime reads it, to the name written for that function *)
Theorem funcname_tab_roundtrip : forall names,
  Forall (fun n => ~ In 0%N (written n)) names ->
  let '(tab, offs) := make_funcname_tab names in
  length offs = length names /\
  forall i, i < length names -> resolve tab (nth i offs 0) = written (nth i names []).
Proof.
  intros names Hall. unfold make_funcname_tab.
  destruct (mk names 1) as [t o] eqn:E.
  split.
  - destruct names as [|n r]; [cbn in E; inversion E; reflexivity|].
    pose proof (mk_spec (n :: r) 1 [0%N] eq_refl Hall 0 ltac:(cbn; lia)) as [_ B]. rewrite E in B. exact B.
  - intros i Hi. pose proof (mk_spec names 1 [0%N] eq_refl Hall i Hi) as [A _]. rewrite E in A. exact A.
Qed.

(* "encode_map[string][]int", "x", "decode_[3]main.T" *)
Example funcname_example :
  let names := [[101; 95; 109; 91; 115; 93; 91; 93; 105]; [120]; [100; 95; 91; 51; 93; 84]]%N in
  Forall (fun n => ~ In 0%N (written n)) names /\
  make_funcname_tab names = ([0; 101; 95; 109; 91; 46; 46; 46; 93; 105; 0; 120; 0; 100; 95; 91; 46; 46; 46; 93; 84; 0]%N, [1; 11; 13]).
Proof.
  cbn zeta. split; [|vm_compute; reflexivity].
  repeat constructor; vm_compute; intuition discriminate.
Qed.
