(* C10 - the stack-map builder of /repo/loader/internal/rt/stackmap.go against the bit lookup the runtime (and
   rt.BitVec.Bit) applies to it.

     Bitmap.grow    if self.N >= len(self.B)*8 { self.B = append(self.B, 0) }
     Bitmap.mark    bv != 0:  self.B[i/8] |= 1 << (i%8)      else  self.B[i/8] &^= 1 << (i%8)
     Bitmap.Append  grow; mark(self.N, bv); self.N++
     StackMapBuilder.AddField(ptr) = Append(1 | 0);   Build: N = 1 bitmap of L = b.N bits, bytes copied
     BitVec.Bit(i)  (B[i/8] >> (i%8)) & 1            (runtime: bitvector.ptrbit, same expression)                  *)
From Coq Require Import NArith List Lia Bool Arith.
Import ListNotations.

Record bitmap := mkBitmap { bn : nat; bb : list N }.

Definition empty : bitmap := mkBitmap 0 [].

Definition grow (b : bitmap) : bitmap :=
  if length (bb b) * 8 <=? bn b then mkBitmap (bn b) (bb b ++ [0%N]) else b.

Fixpoint upd_nth (l : list N) (k : nat) (f : N -> N) : list N :=
  match l, k with
  | [], _ => []                          (* index out of range: the Go code would panic *)
  | x :: r, O => f x :: r
  | x :: r, S k' => x :: upd_nth r k' f
  end.

Definition mark (b : bitmap) (i : nat) (bv : bool) : bitmap :=
  let j := N.of_nat (i mod 8) in
  mkBitmap (bn b) (upd_nth (bb b) (i / 8) (fun x => if bv then N.setbit x j else N.clearbit x j)).

Definition append (b : bitmap) (bv : bool) : bitmap :=
  let b' := mark (grow b) (bn b) bv in mkBitmap (S (bn b)) (bb b').

(* StackMapBuilder: AddField for every element, then Build: (number of bitmaps, bits per bitmap, bytes) *)
Definition add_fields (bits : list bool) : bitmap := fold_left append bits empty.
Definition build (bits : list bool) : nat * nat * list N :=
  let b := add_fields bits in (1, bn b, bb b).

(* BitVec.Bit *)
Definition bit (bytes : list N) (i : nat) : bool := N.testbit (nth (i / 8) bytes 0%N) (N.of_nat (i mod 8)).

Lemma nth_upd_nth_same : forall l k f, k < length l -> nth k (upd_nth l k f) 0%N = f (nth k l 0%N).
Proof.
  induction l as [|x r IH]; intros k f H; [cbn in H; lia|].
  destruct k; cbn [upd_nth nth]; [reflexivity|]. apply IH. cbn in H. lia.
Qed.

Lemma nth_upd_nth_other : forall l k k' f, k <> k' -> nth k' (upd_nth l k f) 0%N = nth k' l 0%N.
Proof.
  induction l as [|x r IH]; intros k k' f H; [destruct k; reflexivity|].
  destruct k, k'; cbn [upd_nth nth]; try reflexivity; try lia. apply IH. lia.
Qed.

Lemma length_upd_nth : forall l k f, length (upd_nth l k f) = length l.
Proof. induction l as [|x r IH]; intros k f; [reflexivity|]. destruct k; cbn [upd_nth length]; [reflexivity | f_equal; apply IH]. Qed.

(* invariant of the builder: enough bytes, and every bit appended so far reads back *)
Definition binv (bits : list bool) (b : bitmap) : Prop :=
  bn b = length bits /\ length (bb b) = (bn b + 7) / 8 /\
  forall i, i < length bits -> bit (bb b) i = nth i bits false.

Lemma ceil8_cases : forall n,
  ((n + 7) / 8 * 8 = n /\ (S n + 7) / 8 = S ((n + 7) / 8)) \/
  (n < (n + 7) / 8 * 8 /\ (S n + 7) / 8 = (n + 7) / 8).
Proof.
  intro n. pose proof (Nat.div_mod n 8) as D. assert (R : n mod 8 < 8) by (apply Nat.mod_upper_bound; lia).
  set (q := n / 8) in *. set (r := n mod 8) in *.
  assert (E : n = q * 8 + r) by lia. clearbody q r. subst n. clear D.
  assert (H0 : forall c, (q * 8 + c) / 8 = q + c / 8) by (intro c; apply Nat.div_add_l; lia).
  replace (q * 8 + r + 7) with (q * 8 + (r + 7)) by lia.
  replace (S (q * 8 + r) + 7) with (q * 8 + (r + 8)) by lia.
  rewrite !H0.
  assert (H8 : (r + 8) / 8 = 1) by (do 8 (destruct r as [|r]; [reflexivity|]); lia).
  assert (H7 : (r = 0 /\ (r + 7) / 8 = 0) \/ (r <> 0 /\ (r + 7) / 8 = 1)).
  { destruct r as [|r]; [left; split; reflexivity|]. right. split; [lia|].
    do 7 (destruct r as [|r]; [reflexivity|]). lia. }
  rewrite H8. destruct H7 as [[Z0 Z7]|[Z0 Z7]]; rewrite Z7; [left | right]; split; lia.
Qed.

Lemma append_inv : forall bits b bv, binv bits b -> binv (bits ++ [bv]) (append b bv).
Proof.
  intros bits b bv [Hn [Hlen Hbits]].
  set (g := grow b).
  assert (Hg : bn g = bn b /\ bn b < length (bb g) * 8 /\ length (bb g) = (S (bn b) + 7) / 8 /\
               forall i, i < bn b -> bit (bb g) i = bit (bb b) i).
  { subst g. unfold grow. destruct (ceil8_cases (bn b)) as [[A B]|[A B]];
      destruct (Nat.leb_spec (length (bb b) * 8) (bn b)) as [H|H]; cbn [bn bb]; try lia.
    - split; [reflexivity|]. split; [rewrite app_length; cbn [length]; lia|]. split; [rewrite app_length; cbn [length]; lia|].
      intros i Hi. unfold bit. rewrite app_nth1; [reflexivity|].
      apply Nat.div_lt_upper_bound; lia.
    - split; [reflexivity|]. split; [lia|]. split; [lia | reflexivity]. }
  destruct Hg as [Hgn [Hgcap [Hglen Hgbits]]].
  assert (Hk : bn b / 8 < length (bb g)) by (apply Nat.div_lt_upper_bound; lia).
  unfold binv, append. fold g. unfold mark. cbn [bn bb]. rewrite ?Hgn.
  split; [rewrite app_length; cbn; lia|].
  split; [rewrite length_upd_nth; exact Hglen|].
  intros i Hi. rewrite app_length in Hi. cbn in Hi.
  unfold bit.
  destruct (Nat.eq_dec (i / 8) (bn b / 8)) as [E|E].
  - rewrite E, nth_upd_nth_same by assumption.
    destruct (Nat.eq_dec i (bn b)) as [Ei|Ei].
    + subst i. rewrite Hn, app_nth2, Nat.sub_diag by lia. cbn [nth].
      destruct bv; [rewrite N.setbit_eqb | rewrite N.clearbit_eqb]; rewrite N.eqb_refl; cbn [negb orb]; rewrite ?andb_false_r; reflexivity.
    + assert (Hm : i mod 8 <> bn b mod 8).
      { intro Em. apply Ei. rewrite (Nat.div_mod i 8), (Nat.div_mod (bn b) 8) by lia. rewrite E, Em. reflexivity. }
      assert (Hlt : i < bn b) by lia.
      rewrite app_nth1 by lia.
      rewrite <- (Hbits i) by lia. rewrite <- (Hgbits i Hlt). unfold bit. rewrite E.
      destruct bv; [rewrite N.setbit_eqb | rewrite N.clearbit_eqb];
        (destruct (N.eqb_spec (N.of_nat (bn b mod 8)) (N.of_nat (i mod 8))) as [X|X]; [apply Nat2N.inj in X; congruence|]);
        cbn [orb negb andb]; rewrite ?andb_true_r; reflexivity.
  - rewrite nth_upd_nth_other by (intro X; apply E; symmetry; exact X).
    assert (Hlt : i < bn b).
    { destruct (Nat.eq_dec i (bn b)); [subst; congruence | lia]. }
    rewrite app_nth1 by lia. rewrite <- (Hbits i) by lia. rewrite <- (Hgbits i Hlt). reflexivity.
Qed.

Lemma add_fields_inv : forall more bits b, binv bits b -> binv (bits ++ more) (fold_left append more b).
Proof.
  induction more as [|x r IH]; intros bits b H; cbn [fold_left]; [rewrite app_nil_r; assumption|].
  replace (bits ++ x :: r) with ((bits ++ [x]) ++ r) by (rewrite <- app_assoc; reflexivity).
  apply IH. apply append_inv. assumption.
Qed.

(* AddField ... Build, then the runtime's bit lookup: one bitmap, as many bits as fields, bit i = field i *)
Theorem stackmap_roundtrip : forall bits,
  let '(n, l, bytes) := build bits in
  n = 1 /\ l = length bits /\ length bytes = (length bits + 7) / 8 /\
  forall i, i < length bits -> bit bytes i = nth i bits false.
Proof.
  intro bits. unfold build, add_fields.
  assert (H : binv ([] ++ bits) (fold_left append bits empty)).
  { apply add_fields_inv. unfold binv, empty. cbn. repeat split; try lia. }
  cbn [app] in H. destruct H as [Hn [Hlen Hb]].
  repeat split; try assumption. rewrite Hlen, Hn. reflexivity.
Qed.

Example stackmap_example :
  build [true; false; false; true; true; false; true; false; true] = (1, 9, [89%N; 1%N]).
Proof. vm_compute. reflexivity. Qed.
