(* C10 - frame-pointer discipline of the generated functions (Gen/Frames.v, regenerated from the three emitters).

   Go's frame-pointer unwinders (runtime.fpTracebackPCs / fpTracebackPartialExpand: block and mutex profiles, the execution
   tracer) follow the chain  BP -> saved BP of the caller, with the return address one word ABOVE the saved BP.  A
   generated function with a frame of `size` bytes therefore has to
       SUBQ $size, SP ; MOVQ BP, offs(SP) ; LEAQ offs(SP), BP          with offs = size - 8
   so that BP points at the slot holding the caller's BP and 8(BP) is the return address, and to restore BP from the same
   slot before releasing the frame:   MOVQ offs(SP), BP ; ADDQ $size, SP ; RET. *)
From Coq Require Import String List Bool Arith Ascii.
From SV.Gen Require Import Frames.
Import ListNotations.
Open Scope string_scope.

Definition digit (n : nat) : string := String (ascii_of_nat (48 + n)) EmptyString.

Fixpoint dec_fuel (fuel n : nat) : string :=
  match fuel with
  | O => ""
  | S f => if Nat.ltb n 10 then digit n else (dec_fuel f (Nat.div n 10) ++ digit (Nat.modulo n 10))%string
  end.
Definition dec (n : nat) : string := dec_fuel 8 n.

Definition row := (string * (string * string))%type.

Definition row_eqb (a b : row) : bool :=
  String.eqb (fst a) (fst b) && String.eqb (fst (snd a)) (fst (snd b)) && String.eqb (snd (snd a)) (snd (snd b)).

Fixpoint rows_eqb (a b : list row) : bool :=
  match a, b with
  | [], [] => true
  | x :: a', y :: b' => row_eqb x y && rows_eqb a' b'
  | _, _ => false
  end.

Definition want_prologue (size offs : nat) : list row :=
  [("SUBQ", ("$" ++ dec size, "SP")); ("MOVQ", ("BP", "SP+" ++ dec offs)); ("LEAQ", ("SP+" ++ dec offs, "BP"))].

Definition want_epilogue (size offs : nat) : list row :=
  [("MOVQ", ("SP+" ++ dec offs, "BP")); ("ADDQ", ("$" ++ dec size, "SP")); ("RET", ("", ""))].

Definition frame_ok (pro epi : list row) (size offs : nat) : bool :=
  Nat.eqb (offs + 8) size && rows_eqb pro (want_prologue size offs) && rows_eqb epi (want_epilogue size offs).

Definition frames_ok : bool :=
  frame_ok jitdec_prologue jitdec_epilogue fr_jitdec_size fr_jitdec_offs &&
  frame_ok encoder_prologue encoder_epilogue fr_encoder_size fr_encoder_offs &&
  (* the generic decoder sets up and tears down its frame inside one function *)
  rows_eqb generic_compile (want_prologue fr_generic_size fr_generic_offs ++ want_epilogue fr_generic_size fr_generic_offs)%list &&
  Nat.eqb (fr_generic_offs + 8) fr_generic_size.

Lemma rows_eqb_eq : forall a b, rows_eqb a b = true -> a = b.
Proof.
  induction a as [|[m [x y]] a IH]; destruct b as [|[m' [x' y']] b]; cbn; intro H; try discriminate; [reflexivity|].
  apply andb_prop in H. destruct H as [H1 H2]. unfold row_eqb in H1. cbn in H1.
  apply andb_prop in H1. destruct H1 as [H1 Hy]. apply andb_prop in H1. destruct H1 as [Hm Hx].
  apply String.eqb_eq in Hm, Hx, Hy. subst. f_equal. auto.
Qed.

(* all three emitters save the caller's BP in the top slot of their frame, point BP at that slot, and restore it from there *)
Theorem frame_pointer_discipline :
  (fr_jitdec_offs + 8 = fr_jitdec_size /\
   jitdec_prologue = want_prologue fr_jitdec_size fr_jitdec_offs /\ jitdec_epilogue = want_epilogue fr_jitdec_size fr_jitdec_offs) /\
  (fr_encoder_offs + 8 = fr_encoder_size /\
   encoder_prologue = want_prologue fr_encoder_size fr_encoder_offs /\ encoder_epilogue = want_epilogue fr_encoder_size fr_encoder_offs) /\
  (fr_generic_offs + 8 = fr_generic_size /\
   generic_compile = (want_prologue fr_generic_size fr_generic_offs ++ want_epilogue fr_generic_size fr_generic_offs)%list).
Proof.
  assert (H : frames_ok = true) by (vm_compute; reflexivity).
  unfold frames_ok, frame_ok in H.
  repeat (apply andb_prop in H; destruct H as [H ?]).
  repeat match goal with X : Nat.eqb _ _ = true |- _ => apply Nat.eqb_eq in X
                    | X : rows_eqb _ _ = true |- _ => apply rows_eqb_eq in X end.
  repeat split; assumption.
Qed.
