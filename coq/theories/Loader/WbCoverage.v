(* C10 - write-barrier coverage: the theorems over Loader/WbSpec.v (definitions, exception table) *)
From Coq Require Import String List Bool Arith Ascii.
From SV.Gen Require Import WbStores.
From SV.Loader Require Export WbSpec.
Import ListNotations.
Open Scope string_scope.

Lemma wb_ok_true : wb_ok = true.
Proof. vm_compute. reflexivity. Qed.

Lemma key_eqb_eq : forall a b : key, key_eqb a b = true -> a = b.
Proof.
  intros [a1 [a2 [a3 a4]]] [b1 [b2 [b3 b4]]] H. unfold key_eqb in H. cbn [fst snd] in H.
  repeat (apply andb_prop in H; destruct H as [H ?]).
  repeat match goal with X : String.eqb _ _ = true |- _ => apply String.eqb_eq in X end. subst. reflexivity.
Qed.

(* Every store the three emitters generate either targets the stack frame, or sits inside a write-barrier helper, or is
   narrower than a pointer / a float / an immediate, or writes bytes of the encoder's output buffer, or is one of the
   listed exceptions (with its category); the list is exact, and the call sites of the operand-parameterised stores pass
   stack or register operands. *)
Theorem wb_coverage :
  (forall r, In r stores ->
     r_class r = "Stack" \/ is_helper (r_fn r) = true \/ narrow (r_mnem r) = true \/ prefix "jit.Imm(" (r_src r) = true \/
     r_class r = "Heap _RP" \/ exists n c, In (key_of r, n, c) exceptions) /\
  (forall k n c, In (k, n, c) exceptions -> count_key k = n) /\
  param_sites_ok = true /\ helpers_ok = true.
Proof.
  pose proof wb_ok_true as H. unfold wb_ok in H.
  apply andb_prop in H. destruct H as [H Hh]. apply andb_prop in H. destruct H as [He Hp].
  unfold exceptions_exact in He. apply andb_prop in He. destruct He as [He1 He2].
  rewrite forallb_forall in He1, He2.
  split; [|split; [|split; assumption]].
  - intros r Hin. destruct (auto_ok r) eqn:Ea.
    + unfold auto_ok in Ea.
      apply orb_prop in Ea. destruct Ea as [Ea|E5]; [|right; right; right; right; left; apply String.eqb_eq; exact E5].
      apply orb_prop in Ea. destruct Ea as [Ea|E4]; [|right; right; right; left; exact E4].
      apply orb_prop in Ea. destruct Ea as [Ea|E3]; [|right; right; left; exact E3].
      apply orb_prop in Ea. destruct Ea as [E1|E2]; [left; apply String.eqb_eq; exact E1 | right; left; exact E2].
    + right. right. right. right. right.
      assert (Hl : In r leftovers) by (unfold leftovers; apply filter_In; split; [assumption | rewrite Ea; reflexivity]).
      specialize (He1 r Hl). apply existsb_exists in He1. destruct He1 as [[[k n] c] [Hin' Hk]].
      cbn [fst] in Hk. apply key_eqb_eq in Hk. exists n, c. rewrite Hk. assumption.
  - intros k n c Hin. specialize (He2 _ Hin). cbn [fst snd] in He2. apply Nat.eqb_eq. assumption.
Qed.
