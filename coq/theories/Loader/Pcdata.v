(* C10 - the pc-value tables handed to the Go runtime.

   Model of /repo/loader/pcdata.go  Pcdata.MarshalBinary  (value delta as zig-zag varint, pc delta as uvarint, the
   `dv == 0 || dp == 0` skip rule, the 0 terminator), and a transcription of the decoder the Go runtime applies to such
   a table: runtime/symtab.go  readvarint / step / pcvalue  (go1.23).

   A table is a list of (PC, Val): Val is the value on the pc range that ENDS at PC (exclusive) and starts at the PC of the
   previous entry (0 for the first) - this is how internal/jit/backend.go GetPcspTable and loader_latest.go
   buildLoadFunc build them ({PC: textSize, Val: v} = "v on the whole function"), whatever the comment on the type says.

   Bounds: the runtime's readvarint accumulates in a uint32 with `shift & 31`; for encodings of at most 4 bytes (numbers
   below 2^28) neither the wrap nor the masked shift can matter, and the model uses unbounded N.  pcdata_wf carries the
   corresponding bounds (pc < 2^28, |value| < 2^26).  sys.PCQuantum = 1 on amd64. *)
From Coq Require Import NArith ZArith List Lia Bool.
Import ListNotations.
Open Scope N_scope.

Arguments N.mul : simpl never.
Arguments N.add : simpl never.
Arguments N.pow : simpl never.
Arguments N.div : simpl never.
Arguments N.modulo : simpl never.

(* ------------------------------------------------------------------ encoding/binary PutUvarint / PutVarint *)

Fixpoint uvarint_enc (fuel : nat) (n : N) : list N :=
  match fuel with
  | O => [n mod 128]
  | S f => if n <? 128 then [n] else (n mod 128 + 128) :: uvarint_enc f (n / 128)
  end.

(* binary.PutUvarint on a uint64: at most 10 bytes *)
Definition uvarint (n : N) : list N := uvarint_enc 9 n.

(* binary.PutVarint: ux := uint64(x) << 1; if x < 0 { ux = ^ux } *)
Definition zigzag (z : Z) : N := if (0 <=? z)%Z then Z.to_N (2 * z) else Z.to_N (-2 * z - 1).

Definition varint (z : Z) : list N := uvarint (zigzag z).

(* ------------------------------------------------------------------ runtime.readvarint / step / pcvalue *)

Fixpoint readvarint_from (p : list N) (shift acc : N) : option (N * list N) :=
  match p with
  | [] => None                                  (* would index past the slice: the runtime panics / reads the next table *)
  | b :: r =>
      let acc' := acc + (b mod 128) * 2 ^ shift in
      if b <? 128 then Some (acc', r) else readvarint_from r (shift + 7) acc'
  end.

Definition readvarint (p : list N) : option (N * list N) := readvarint_from p 0 0.

(* int32(-(uvdelta & 1) ^ (uvdelta >> 1)) *)
Definition unzigzag (u : N) : Z := if N.even u then Z.of_N (u / 2) else (- Z.of_N (u / 2) - 1)%Z.

(* step(p, &pc, &val, first): None = (nil, false) *)
Definition step (p : list N) (pc : N) (val : Z) (first : bool) : option (list N * N * Z) :=
  match p with
  | [] => None
  | b0 :: _ =>
      if (b0 =? 0) && negb first then None
      else match readvarint p with
           | None => None
           | Some (uv, p1) =>
               match readvarint p1 with
               | None => None
               | Some (pcd, p2) => Some (p2, pc + pcd, (val + unzigzag uv)%Z)
               end
           end
  end.

(* pcvalue(f, off, targetpc): pcs relative to f.entry(); `first` is recomputed as pc == f.entry() on every round;
   None = the table ended without covering targetpc (the runtime returns -1, 0 or throws "invalid pc-encoded table") *)
Fixpoint pcvalue_from (fuel : nat) (p : list N) (pc : N) (val : Z) (target : N) : option Z :=
  match fuel with
  | O => None
  | S f =>
      match step p pc val (pc =? 0) with
      | None => None
      | Some (p', pc', val') => if target <? pc' then Some val' else pcvalue_from f p' pc' val' target
      end
  end.

Definition pcvalue (tab : list N) (target : N) : option Z := pcvalue_from (S (length tab)) tab 0 (-1)%Z target.

(* ------------------------------------------------------------------ Pcdata.MarshalBinary *)

Definition table := list (N * Z).

Fixpoint marshal (tab : table) (sp : N) (sv : Z) : list N :=
  match tab with
  | [] => [0]
  | (pc, v) :: r =>
      let dp := pc - sp in               (* the code panics when v.PC < sp; here the subtraction truncates *)
      let dv := (v - sv)%Z in
      if (dv =? 0)%Z || (dp =? 0) then marshal r sp sv
      else varint dv ++ uvarint dp ++ marshal r pc v
  end.

Definition marshal_binary (tab : table) : list N := marshal tab 0 (-1)%Z.

(* what the table means: the value of the first range whose end lies beyond the target *)
Fixpoint lookup (tab : table) (target : N) : option Z :=
  match tab with
  | [] => None
  | (pc, v) :: r => if target <? pc then Some v else lookup r target
  end.

(* the exact condition under which the round trip holds: strictly increasing end-PCs (first > 0), every value different
   from its predecessor's (the first from -1, the implicit start value), within the bounds of the header comment *)
Fixpoint wf_from (tab : table) (sp : N) (sv : Z) : Prop :=
  match tab with
  | [] => True
  | (pc, v) :: r => sp < pc /\ pc < 2 ^ 28 /\ v <> sv /\ (- 2 ^ 26 < v < 2 ^ 26)%Z /\ wf_from r pc v
  end.

Definition pcdata_wf (tab : table) : Prop := wf_from tab 0 (-1)%Z.

(* ------------------------------------------------------------------ varint round trip *)

Lemma readvarint_uvarint_enc : forall fuel n rest shift acc,
  n < 128 ^ N.of_nat (S fuel) ->
  readvarint_from (uvarint_enc fuel n ++ rest) shift acc = Some (acc + n * 2 ^ shift, rest).
Proof.
  induction fuel as [|f IH]; intros n rest shift acc Hn.
  - cbn [uvarint_enc app readvarint_from]. change (N.of_nat 1) with 1 in Hn. rewrite N.pow_1_r in Hn.
    rewrite !(N.mod_small n 128) by assumption.
    destruct (N.ltb_spec n 128); [reflexivity | lia].
  - cbn [uvarint_enc]. destruct (N.ltb_spec n 128) as [H|H].
    + cbn [app readvarint_from]. rewrite (N.mod_small n 128) by assumption.
      destruct (N.ltb_spec n 128); [reflexivity | lia].
    + cbn [app readvarint_from].
      assert (Hm : n mod 128 < 128) by (apply N.mod_lt; lia).
      destruct (N.ltb_spec (n mod 128 + 128) 128) as [Hc|Hc]; [exfalso; clear -Hc; set (m := n mod 128) in *; lia|].
      replace ((n mod 128 + 128) mod 128) with (n mod 128).
      2:{ rewrite N.add_mod by lia. rewrite N.mod_same by lia. rewrite N.add_0_r. rewrite N.mod_mod by lia.
          rewrite N.mod_mod by lia. reflexivity. }
      rewrite IH.
      * f_equal. f_equal. rewrite N.pow_add_r.
        pose proof (N.div_mod n 128) as D. replace (2 ^ 7) with 128 by reflexivity.
        assert (E : n = 128 * (n / 128) + n mod 128) by (apply D; lia).
        rewrite E at 3. lia.
      * rewrite Nat2N.inj_succ in Hn. rewrite N.pow_succ_r' in Hn.
        apply N.div_lt_upper_bound; [lia|]. assumption.
Qed.

Lemma readvarint_uvarint : forall n rest, n < 2 ^ 63 -> readvarint (uvarint n ++ rest) = Some (n, rest).
Proof.
  intros n rest Hn. unfold readvarint, uvarint.
  rewrite readvarint_uvarint_enc.
  - rewrite N.pow_0_r. f_equal. f_equal. lia.
  - eapply N.lt_le_trans; [exact Hn|]. vm_compute. discriminate.
Qed.

Lemma unzigzag_zigzag : forall z, unzigzag (zigzag z) = z.
Proof.
  intro z. unfold zigzag, unzigzag. destruct (Z.leb_spec 0 z) as [H|H].
  - replace (Z.to_N (2 * z)) with (2 * Z.to_N z) by lia.
    rewrite N.even_mul. cbn [N.even orb].
    rewrite N.mul_comm, N.div_mul by lia. lia.
  - replace (Z.to_N (-2 * z - 1)) with (1 + 2 * Z.to_N (- z - 1)) by lia.
    rewrite N.even_add_mul_2. cbn [N.even].
    replace ((1 + 2 * Z.to_N (- z - 1)) / 2) with (Z.to_N (- z - 1)).
    + lia.
    + apply N.div_unique with (r := 1); lia.
Qed.

Lemma zigzag_nonzero : forall z, z <> 0%Z -> zigzag z <> 0.
Proof. intros z H. unfold zigzag. destruct (Z.leb_spec 0 z); lia. Qed.

Ltac pows :=
  change (2 ^ 28) with 268435456 in *; change (2 ^ 63) with 9223372036854775808 in *;
  change (2 ^ 27)%Z with 134217728%Z in *; change (2 ^ 26)%Z with 67108864%Z in *.

Lemma zigzag_bound : forall z, (- 2 ^ 27 < z < 2 ^ 27)%Z -> zigzag z < 2 ^ 28.
Proof.
  intros z H. unfold zigzag.
  change (2 ^ 28) with 268435456. change (2 ^ 27)%Z with 134217728%Z in H.
  destruct (Z.leb_spec 0 z); lia.
Qed.

(* the first byte of the encoding of a non-zero number is non-zero: the terminator test of step cannot misfire *)
Lemma uvarint_head_nonzero : forall n, n <> 0 -> exists b r, uvarint n = b :: r /\ b <> 0.
Proof.
  intros n Hn. unfold uvarint. cbn [uvarint_enc].
  destruct (N.ltb_spec n 128).
  - exists n, []. split; [reflexivity | assumption].
  - eexists; eexists. split; [reflexivity | set (m := n mod 128); lia].
Qed.

(* ------------------------------------------------------------------ the round trip *)

Lemma step_entry : forall dv dp rest pc val first,
  dv <> 0%Z -> (- 2 ^ 27 < dv < 2 ^ 27)%Z -> dp < 2 ^ 28 ->
  step (varint dv ++ uvarint dp ++ rest) pc val first = Some (rest, pc + dp, (val + dv)%Z).
Proof.
  intros dv dp rest pc val first Hdv Hb Hdp. unfold step.
  destruct (uvarint_head_nonzero (zigzag dv) (zigzag_nonzero dv Hdv)) as [b [r [E Hb0]]].
  unfold varint. rewrite E. cbn [app].
  destruct (N.eqb_spec b 0) as [Z0|_]; [contradiction|]. cbn [andb].
  change (b :: r ++ uvarint dp ++ rest) with ((b :: r) ++ uvarint dp ++ rest). rewrite <- E.
  rewrite readvarint_uvarint.
  - rewrite readvarint_uvarint by (pows; lia).
    rewrite unzigzag_zigzag. reflexivity.
  - pose proof (zigzag_bound dv Hb). pows. lia.
Qed.

Lemma roundtrip_from : forall tab sp sv target v fuel,
  wf_from tab sp sv -> (- 2 ^ 26 <= sv < 2 ^ 26)%Z -> sp < 2 ^ 28 ->
  (length tab < fuel)%nat -> sp <= target ->
  lookup tab target = Some v ->
  pcvalue_from fuel (marshal tab sp sv) sp sv target = Some v.
Proof.
  induction tab as [|[pc x] r IH]; intros sp sv target v fuel Hwf Hsv Hsp Hfuel Hst Hl; [discriminate|].
  cbn [wf_from] in Hwf. destruct Hwf as [Hlt [Hpc [Hne [Hx Hr]]]].
  destruct fuel as [|f]; [cbn in Hfuel; lia|].
  cbn [marshal pcvalue_from].
  destruct (Z.eqb_spec (x - sv) 0) as [E|E]; [lia|].
  destruct (N.eqb_spec (pc - sp) 0) as [E2|E2]; [lia|]. cbn [orb].
  rewrite step_entry by (pows; lia).
  replace (sp + (pc - sp)) with pc by lia. replace (sv + (x - sv))%Z with x by lia.
  cbn [lookup] in Hl.
  destruct (N.ltb_spec target pc) as [Ht|Ht].
  - assumption.
  - apply IH; try assumption; try (pows; lia). cbn [length] in Hfuel. lia.
Qed.

Lemma uvarint_len : forall n, (1 <= length (uvarint n))%nat.
Proof. intro n. unfold uvarint. cbn [uvarint_enc]. destruct (n <? 128); cbn [length]; lia. Qed.

Lemma marshal_len : forall tab sp sv, wf_from tab sp sv -> (length tab < length (marshal tab sp sv))%nat.
Proof.
  induction tab as [|[pc x] r IH]; intros sp sv Hwf; cbn [marshal length]; [lia|].
  cbn [wf_from] in Hwf. destruct Hwf as [Hlt [Hpc [Hne [Hx Hr]]]].
  destruct (Z.eqb_spec (x - sv) 0) as [E|E]; [lia|].
  destruct (N.eqb_spec (pc - sp) 0) as [E2|E2]; [lia|]. cbn [orb].
  rewrite !app_length. specialize (IH pc x Hr).
  pose proof (uvarint_len (zigzag (x - sv))). pose proof (uvarint_len (pc - sp)). unfold varint. lia.
Qed.

(* For every table satisfying pcdata_wf the runtime's lookup, applied to the bytes MarshalBinary produces, returns at
   every pc covered by the table the value of the enclosing range. *)
Theorem pcdata_roundtrip : forall tab target v,
  pcdata_wf tab -> lookup tab target = Some v -> pcvalue (marshal_binary tab) target = Some v.
Proof.
  intros tab target v Hwf Hl. unfold pcvalue, marshal_binary.
  pose proof (marshal_len tab 0 (-1)%Z Hwf) as Hlen.
  apply roundtrip_from; try assumption; try (pows; lia).
Qed.

Example pcdata_wf_satisfiable :
  pcdata_wf [(12, 0%Z); (40, 232%Z); (44, 0%Z); (96, 232%Z)] /\
  pcvalue (marshal_binary [(12, 0%Z); (40, 232%Z); (44, 0%Z); (96, 232%Z)]) 41 = Some 0%Z.
Proof. split; [cbn; repeat split; try lia; discriminate | vm_compute; reflexivity]. Qed.

(* ------------------------------------------------------------------ legal tables outside pcdata_wf: the skip rule
   The type only asks for ascending PCs.  (1) Two consecutive ranges with the same value: the second entry is skipped
   and its range is swallowed by the NEXT one, so the first range's successor gets the wrong value.  (2) A first value
   of -1 (PCDATA_UnsafePointSafe, built by buildLoadFunc when Options.NoPreempt is false): dv = 0, the only entry is
   skipped, the table is the bare terminator and the decoder - for which the first round never terminates on a 0 byte -
   runs past the end of the table (into the bytes of the following table inside pctab). *)
Definition skip_witness : table := [(10, 0%Z); (20, 0%Z); (30, 8%Z)].

Theorem pcdata_roundtrip_refuted :
  exists tab target v, lookup tab target = Some v /\ pcvalue (marshal_binary tab) target <> Some v.
Proof.
  exists skip_witness, 15, 0%Z. split; [reflexivity|]. vm_compute. discriminate.
Qed.

Definition safe_witness : table := [(64, (-1)%Z)].

Theorem pcdata_unsafepoint_safe_refuted :
  marshal_binary safe_witness = [0] /\ lookup safe_witness 5 = Some (-1)%Z /\ pcvalue (marshal_binary safe_witness) 5 = None.
Proof. vm_compute. repeat split. Qed.

(* what real tables look like (internal/jit GetPcspTable): every entry changes the value (the SP delta moves at every
   push / pop / sub / add on SP), the first value is 0, PCs strictly increase - i.e. pcdata_wf; checked on the tables of
   real generated programs by the correspondence run *)
Definition wf_check (tab : table) : bool :=
  (fix go (t : table) (sp : N) (sv : Z) : bool :=
     match t with
     | [] => true
     | (pc, v) :: r => (sp <? pc) && (pc <? 2 ^ 28) && negb (v =? sv)%Z && (- 2 ^ 26 <? v)%Z && (v <? 2 ^ 26)%Z && go r pc v
     end) tab 0 (-1)%Z.

Lemma wf_check_sound : forall tab, wf_check tab = true -> pcdata_wf tab.
Proof.
  unfold wf_check, pcdata_wf. intro tab. generalize 0 at 1 2. generalize (-1)%Z.
  induction tab as [|[pc v] r IH]; intros sv sp H; cbn [wf_from]; [exact I|].
  repeat (apply andb_prop in H; destruct H as [H ?]).
  repeat split; try (apply N.ltb_lt; assumption); try (apply Z.ltb_lt; assumption).
  - intro E. subst. rewrite Z.eqb_refl in *. discriminate.
  - apply IH. assumption.
Qed.
