(* C16 - two levels: a shared root and its children.

   The load-once parse of a lockable raw node (Parser.Parse with loadOnce, parser.go) turns scalar children into immutable
   parsed nodes and container children into RAW nodes carrying their OWN RWMutex (newRawNode(.., lock = true)).  A chain
   Get / Index / GetByPath therefore is: a checkRaw-based read of the parent (OpGet in Conc/NodeLock.v: it yields the
   pointer to the children), followed by a read operation on the child, which runs the same protocol on the child's
   own fields and the child's own mutex.

   Model: node 0 is the root, node S k its k-th container child.  All nodes exist raw from the start; a child is
   reachable only through the value read from the parsed root, i.e. an operation (S k, o) FIRST runs OpGet on the root and
   then o on child k.  Each thread is at one node at a time (cur); its control point, lock regions and field accesses
   are those of Conc/NodeLock.v applied to that node: the multi-node step IS the single-node step on the projection
   of the state to the current node.  Mutual exclusion is per node. *)
From Coq Require Import List Bool Arith Lia.
From SV.Conc Require Import NodeLock.
Import ListNotations.

Definition mop := (nat * op)%type.

Record mthread := mkM {
  cur : nat;                         (* the node this thread is working on *)
  mpc : pc;
  mtodo : list mop;
  cont : option mop;                 (* the child operation waiting for the navigation on the root to finish *)
  mres : nat -> list result          (* results obtained at each node *)
}.

Record mstate := mkMS { mn : nat; nds : nat -> node; mth : nat -> mthread }.

(* what the program of a thread means for node k: its own operations there; at the root, one OpGet per child operation *)
Definition ops_at (k : nat) (l : list mop) : list op :=
  flat_map (fun x => if fst x =? k then [snd x] else if k =? 0 then [OpGet] else []) l.

Definition pend (k : nat) (c : option mop) : list op :=
  match c with
  | Some (j, o) => if j =? k then [o] else []
  | None => []
  end.

Definition proj_thread (k : nat) (t : mthread) : thread :=
  mkThread (if cur t =? k then mpc t else Idle) (pend k (cont t) ++ ops_at k (mtodo t)) (mres t k).

Definition proj (k : nat) (st : mstate) : state :=
  mkState (mn st) (nds st k) (fun i => proj_thread k (mth st i)).

Definition updn {A} (f : nat -> A) (k : nat) (v : A) : nat -> A := fun j => if j =? k then v else f j.

Definition mstep (i : nat) (st : mstate) : mstate :=
  if negb (i <? mn st) then st else
  let t := mth st i in
  match mpc t with
  | Idle =>
      match cont t with
      | Some (k, o) =>        (* the navigation is over: go to the child and start the pending operation *)
          mkMS (mn st) (nds st) (updn (mth st) i (mkM k (entry o) (mtodo t) None (mres t)))
      | None =>
          match mtodo t with
          | [] => st
          | (0, o) :: r => mkMS (mn st) (nds st) (updn (mth st) i (mkM 0 (entry o) r None (mres t)))
          | (S k, o) :: r => mkMS (mn st) (nds st) (updn (mth st) i (mkM 0 G0 r (Some (S k, o)) (mres t)))
          end
      end
  | _ =>
      let k := cur t in
      let s' := step i (proj k st) in
      mkMS (mn st) (updn (nds st) k (nd s'))
           (updn (mth st) i (mkM k (tpc (th s' i)) (mtodo t) (cont t) (updn (mres t) k (res (th s' i)))))
  end.

Fixpoint mrun (sched : list nat) (st : mstate) : mstate :=
  match sched with
  | [] => st
  | i :: r => mrun r (mstep i st)
  end.

Definition minit (n : nat) (progs : nat -> list mop) : mstate :=
  mkMS n (fun _ => node_raw) (fun i => mkM 0 Idle (progs i) None (fun _ => [])).

(* ------------------------------------------------------------------ states up to pointwise equality *)

Definition state_eq (a b : state) : Prop :=
  nthreads a = nthreads b /\ nd a = nd b /\ forall j, th a j = th b j.

Lemma state_eq_refl : forall a, state_eq a a.
Proof. intro a. repeat split. Qed.

Lemma Inv_ext : forall a b, state_eq a b -> Inv a -> Inv b.
Proof.
  intros a b [Hn [Hd Ht]] [Hex Hthr Hs Hg Hnt Hq Hv Hp].
  constructor; rewrite <- ?Hn, <- ?Hd.
  - intros i j. rewrite <- !Ht. apply Hex.
  - intros i. rewrite <- !Ht. apply Hthr.
  - intros i. rewrite <- Ht. apply Hs.
  - intros i r. rewrite <- Ht. apply Hg.
  - assumption.
  - intro H. apply Hq. intros j Hj. rewrite Ht. auto.
  - intros i r. rewrite <- Ht. apply Hv.
  - intro H. destruct (Hp H) as [i [Hi Hin]]. exists i. rewrite <- Ht. auto.
Qed.

Lemma updn_same : forall A (f : nat -> A) k v, updn f k v k = v.
Proof. intros. unfold updn. rewrite Nat.eqb_refl. reflexivity. Qed.

Lemma updn_other : forall A (f : nat -> A) k v j, j <> k -> updn f k v j = f j.
Proof. intros. unfold updn. apply Nat.eqb_neq in H. rewrite H. reflexivity. Qed.

(* ------------------------------------------------------------------ facts about the single-node step *)

Lemma step_other : forall i st j, j <> i -> th (step i st) j = th st j.
Proof.
  intros i st j Hne. unfold step. destruct (negb (i <? nthreads st)); [reflexivity|].
  destruct (tpc (th st i));
    repeat match goal with |- context [if ?b then _ else _] => destruct b end;
    try reflexivity; cbn [th]; try (apply upd_other; assumption).
  destruct (todo (th st i)); [reflexivity | cbn [th]; apply upd_other; assumption].
Qed.

Lemma step_todo : forall i st, tpc (th st i) <> Idle -> todo (th (step i st) i) = todo (th st i).
Proof.
  intros i st Hne. unfold step. destruct (negb (i <? nthreads st)); [reflexivity|].
  destruct (tpc (th st i)); try congruence;
    repeat match goal with |- context [if ?b then _ else _] => destruct b end;
    try reflexivity; cbn [th]; rewrite upd_same; reflexivity.
Qed.

Lemma thread_eta : forall t, mkThread (tpc t) (todo t) (res t) = t.
Proof. destruct t; reflexivity. Qed.

(* ------------------------------------------------------------------ the projection lemma *)

Lemma step_idle : forall i s o r, (i <? nthreads s) = true -> tpc (th s i) = Idle -> todo (th s i) = o :: r ->
  step i s = mkState (nthreads s) (nd s) (upd (th s) i (mkThread (entry o) r (res (th s i)))).
Proof. intros i s o r H H0 H1. unfold step. rewrite H. cbn [negb]. rewrite H0, H1. reflexivity. Qed.

Lemma proj_tpc_idle : forall k t, mpc t = Idle -> tpc (proj_thread k t) = Idle.
Proof. intros k t H. unfold proj_thread. cbn [tpc]. rewrite H. destruct (cur t =? k); reflexivity. Qed.

(* an idle thread that starts something: effect on the projection to node k, given what the start means for node k *)
Lemma proj_start_left : forall st i k t' o r,
  (i <? mn st) = true -> mpc (mth st i) = Idle ->
  todo (proj_thread k (mth st i)) = o :: r ->
  proj_thread k t' = mkThread (entry o) r (mres (mth st i) k) ->
  state_eq (proj k (mkMS (mn st) (nds st) (updn (mth st) i t'))) (step i (proj k st)).
Proof.
  intros st i k t' o r Hlt Hpc Htodo Ht'.
  rewrite (step_idle i (proj k st) o r); [| exact Hlt | cbn [proj th]; apply proj_tpc_idle; assumption | exact Htodo].
  repeat split. intro j. cbn [proj th mth].
  destruct (Nat.eq_dec j i) as [->|Hj].
  - rewrite updn_same, upd_same. rewrite Ht'. reflexivity.
  - rewrite updn_other, upd_other by assumption. reflexivity.
Qed.

Lemma proj_start_right : forall st i k t',
  proj_thread k t' = proj_thread k (mth st i) ->
  state_eq (proj k (mkMS (mn st) (nds st) (updn (mth st) i t'))) (proj k st).
Proof.
  intros st i k t' H. repeat split. intro j. cbn [proj th mth].
  destruct (Nat.eq_dec j i) as [->|Hj]; [rewrite updn_same; assumption | rewrite updn_other by assumption; reflexivity].
Qed.

Lemma if_same : forall (b : bool) (A : Type) (x : A), (if b then x else x) = x.
Proof. destruct b; reflexivity. Qed.

Lemma proj_run : forall i st k,
  (i <? mn st) = true -> mpc (mth st i) <> Idle ->
  let t := mth st i in
  let k0 := cur t in
  let s' := step i (proj k0 st) in
  let st' := mkMS (mn st) (updn (nds st) k0 (nd s'))
                  (updn (mth st) i (mkM k0 (tpc (th s' i)) (mtodo t) (cont t) (updn (mres t) k0 (res (th s' i))))) in
  state_eq (proj k st') (step i (proj k st)) \/ state_eq (proj k st') (proj k st).
Proof.
  intros i st k Hlt Hpc t k0 s' st'. subst st'.
  assert (Hne : tpc (th (proj k0 st) i) <> Idle).
  { cbn [proj th]. unfold proj_thread. fold t. fold k0. rewrite Nat.eqb_refl. cbn [tpc]. exact Hpc. }
  destruct (Nat.eq_dec k k0) as [->|Hk]; [left|right]; repeat split.
  - cbn [proj nthreads mn]. unfold s'. rewrite nthreads_step. reflexivity.
  - cbn [proj nd nds]. rewrite updn_same. reflexivity.
  - intro j. cbn [proj th mth]. destruct (Nat.eq_dec j i) as [->|Hj].
    + rewrite updn_same. unfold proj_thread. cbn [cur mpc cont mtodo mres]. rewrite Nat.eqb_refl, updn_same.
      transitivity (mkThread (tpc (th s' i)) (todo (th s' i)) (res (th s' i))); [|apply thread_eta].
      f_equal. unfold s'. rewrite step_todo by assumption. reflexivity.
    + rewrite updn_other by assumption. unfold s'. rewrite step_other by assumption. reflexivity.
  - cbn [proj nd nds]. rewrite updn_other by assumption. reflexivity.
  - intro j. cbn [proj th mth]. destruct (Nat.eq_dec j i) as [->|Hj]; [|rewrite updn_other by assumption; reflexivity].
    rewrite updn_same. unfold proj_thread. cbn [cur mpc cont mtodo mres]. fold t. fold k0.
    assert (X : (k0 =? k) = false) by (apply Nat.eqb_neq; intro; subst; congruence). rewrite X.
    rewrite updn_other by assumption. reflexivity.
Qed.

Lemma proj_mstep : forall i st k,
  state_eq (proj k (mstep i st)) (step i (proj k st)) \/ state_eq (proj k (mstep i st)) (proj k st).
Proof.
  intros i st k. unfold mstep.
  destruct (i <? mn st) eqn:Hlt; cbn [negb]; [|right; apply state_eq_refl].
  destruct (mpc (mth st i)) eqn:Epc.
  1:{ (* Idle: start something *)
    destruct (cont (mth st i)) as [[k0 o]|] eqn:Ec.
    - destruct (Nat.eq_dec k0 k) as [->|Hk].
      + left. apply proj_start_left with (o := o) (r := ops_at k (mtodo (mth st i))); try assumption.
        * unfold proj_thread. cbn [todo]. rewrite Ec. cbn [pend]. rewrite Nat.eqb_refl. reflexivity.
        * unfold proj_thread. cbn [cur mpc cont mtodo mres pend app]. rewrite Nat.eqb_refl. reflexivity.
      + right. apply proj_start_right. unfold proj_thread. cbn [cur mpc cont mtodo mres pend].
        rewrite Ec, Epc. cbn [pend]. apply Nat.eqb_neq in Hk. rewrite Hk. rewrite if_same. destruct (k0 =? k); reflexivity.
    - destruct (mtodo (mth st i)) as [|[[|k0] o] r] eqn:Et; [right; apply state_eq_refl| |].
      + (* an operation on the root *)
        destruct k as [|k].
        * left. apply proj_start_left with (o := o) (r := ops_at 0 r); try assumption.
          -- unfold proj_thread. cbn [todo]. rewrite Ec, Et. reflexivity.
          -- unfold proj_thread. cbn [cur mpc cont mtodo mres pend app Nat.eqb]. reflexivity.
        * right. apply proj_start_right. unfold proj_thread. cbn [cur mpc cont mtodo mres pend].
          rewrite Ec, Epc, Et. cbn [pend app ops_at flat_map fst snd Nat.eqb]. rewrite if_same. reflexivity.
      + (* an operation on child k0: navigate first *)
        destruct k as [|k].
        * left. apply proj_start_left with (o := OpGet) (r := ops_at 0 r); try assumption.
          -- unfold proj_thread. cbn [todo]. rewrite Ec, Et. reflexivity.
          -- unfold proj_thread. cbn [cur mpc cont mtodo mres pend app Nat.eqb entry]. reflexivity.
        * right. apply proj_start_right. unfold proj_thread. cbn [cur mpc cont mtodo mres pend].
          rewrite Ec, Epc, Et. cbn [pend app ops_at flat_map fst snd Nat.eqb]. rewrite if_same.
          destruct (k0 =? k); reflexivity. }
  all: apply proj_run; [assumption | rewrite Epc; discriminate].
Qed.

(* ------------------------------------------------------------------ the invariant, node by node *)

Lemma state_eq_sym : forall a b, state_eq a b -> state_eq b a.
Proof. intros a b [H1 [H2 H3]]. repeat split; auto. Qed.

Definition MInv (st : mstate) : Prop := forall k, Inv (proj k st).

Lemma mstep_inv : forall i st, MInv st -> MInv (mstep i st).
Proof.
  intros i st H k. destruct (proj_mstep i st k) as [E|E]; apply state_eq_sym in E; eapply Inv_ext; try exact E.
  - apply step_inv. apply H.
  - apply H.
Qed.

Lemma mrun_inv : forall sched st, MInv st -> MInv (mrun sched st).
Proof. induction sched as [|i r IH]; intros st H; cbn [mrun]; [assumption | apply IH, mstep_inv, H]. Qed.

Definition msafe (l : list mop) : bool := forallb (fun x => safe_op (snd x)) l.

Lemma ops_at_safe : forall k l, msafe l = true -> forallb safe_op (ops_at k l) = true.
Proof.
  induction l as [|[j o] r IH]; intro H; [reflexivity|].
  cbn [msafe forallb snd] in H. apply andb_prop in H. destruct H as [H1 H2].
  unfold ops_at. cbn [flat_map fst snd]. rewrite forallb_app. fold (ops_at k r). rewrite (IH H2), andb_true_r.
  destruct (j =? k); [cbn; rewrite H1; reflexivity|]. destruct (k =? 0); reflexivity.
Qed.

Lemma minit_inv : forall n progs, (forall i, i < n -> msafe (progs i) = true) -> MInv (minit n progs).
Proof.
  intros n progs Hs k.
  apply Inv_ext with (a := init n (fun i => ops_at k (progs i))).
  - repeat split. intro j. cbn [init minit proj th mth]. unfold proj_thread. cbn [cur mpc cont mtodo mres pend app].
    rewrite if_same. reflexivity.
  - apply init_inv. intros i Hi. apply ops_at_safe. auto.
Qed.

Lemma mn_mstep : forall i st, mn (mstep i st) = mn st.
Proof.
  intros i st. unfold mstep. destruct (negb (i <? mn st)); [reflexivity|].
  destruct (mpc (mth st i)); try reflexivity.
  destruct (cont (mth st i)) as [[k o]|]; [reflexivity|].
  destruct (mtodo (mth st i)) as [|[[|k] o] r]; reflexivity.
Qed.

Lemma mn_mrun : forall sched st, mn (mrun sched st) = mn st.
Proof. induction sched as [|i r IH]; intro st; cbn [mrun]; [reflexivity | rewrite IH; apply mn_mstep]. Qed.

(* ------------------------------------------------------------------ children are reached only through the parsed root *)

Definition in_get (c : pc) : bool :=
  match c with G0 | P0 | P1 | P2 | P3 _ | P4 | P5 | P5b | P6 | V0 | V1 _ | V2 _ _ => true | _ => false end.

Lemma step_parsed_stable : forall i s, Inv s -> nd s = node_parsed -> nd (step i s) = node_parsed.
Proof.
  intros i s HI Hp. unfold step. destruct (i <? nthreads s) eqn:Hlt; cbn [negb]; [|assumption].
  apply Nat.ltb_lt in Hlt. pose proof (inv_thr s HI i Hlt) as Ht.
  destruct (tpc (th s i)); cbn [tinv] in Ht;
    repeat match goal with |- context [if ?b then _ else _] => destruct b end; try assumption;
    try (destruct (todo (th s i)); assumption);
    try (destruct Ht as [Ht _]; rewrite Hp in Ht; discriminate).
Qed.

Lemma step_get : forall i s, (i <? nthreads s) = true -> in_get (tpc (th s i)) = true ->
  in_get (tpc (th (step i s) i)) = true \/
  (tpc (th (step i s) i) = Idle /\ exists r, res (th (step i s) i) = r :: res (th s i) /\ is_val r = true).
Proof.
  intros i s Hlt Hg. unfold step. rewrite Hlt. cbn [negb].
  destruct (tpc (th s i)) eqn:E; try discriminate;
    repeat match goal with |- context [if ?b then _ else _] => destruct b end;
    cbn [th]; rewrite ?upd_same; cbn [goto finish tpc res]; rewrite ?E;
    try (left; reflexivity).
  right. split; [reflexivity|]. eexists. split; reflexivity.
Qed.

Record RInv (st : mstate) : Prop := mkR {
  r_cur : forall i, i < mn st -> cur (mth st i) <> 0 -> nds st 0 = node_parsed;
  r_cont : forall i k o, i < mn st -> cont (mth st i) = Some (k, o) ->
           cur (mth st i) = 0 /\ k <> 0 /\
           (in_get (mpc (mth st i)) = true \/
            (mpc (mth st i) = Idle /\ exists r tl, mres (mth st i) 0 = r :: tl /\ is_val r = true))
}.

Lemma mstep_rinv : forall i st, MInv st -> RInv st -> RInv (mstep i st).
Proof.
  intros i st HM [Hc Hk]. unfold mstep.
  destruct (i <? mn st) eqn:Hlt; cbn [negb]; [|constructor; assumption].
  assert (Hi : i < mn st) by (apply Nat.ltb_lt; assumption).
  destruct (mpc (mth st i)) eqn:Epc.
  1:{ destruct (cont (mth st i)) as [[k0 o]|] eqn:Ec.
    - (* go to the child: the navigation produced a value, so the root is parsed *)
      destruct (Hk i k0 o Hi Ec) as [Hc0 [Hk0 [Hg|[_ [r [tl [Hr Hv]]]]]]]; [rewrite Epc in Hg; discriminate|].
      assert (Hroot : nds st 0 = node_parsed).
      { apply (inv_val (proj 0 st) (HM 0) i r); [exact Hi | cbn [proj th]; unfold proj_thread; cbn [res]; rewrite Hr; left; reflexivity | exact Hv]. }
      constructor; cbn [mn nds mth].
      + intros j Hj _. exact Hroot.
      + intros j k o' Hj. destruct (Nat.eq_dec j i) as [->|Hne]; [rewrite updn_same; cbn; discriminate | rewrite updn_other by assumption; apply Hk; assumption].
    - destruct (mtodo (mth st i)) as [|[[|k0] o] r] eqn:Et; [constructor; assumption| |].
      + constructor; cbn [mn nds mth].
        * intros j Hj. destruct (Nat.eq_dec j i) as [->|Hne]; [rewrite updn_same; cbn; congruence | rewrite updn_other by assumption; apply Hc; assumption].
        * intros j k o' Hj. destruct (Nat.eq_dec j i) as [->|Hne]; [rewrite updn_same; cbn; discriminate | rewrite updn_other by assumption; apply Hk; assumption].
      + constructor; cbn [mn nds mth].
        * intros j Hj. destruct (Nat.eq_dec j i) as [->|Hne]; [rewrite updn_same; cbn; congruence | rewrite updn_other by assumption; apply Hc; assumption].
        * intros j k o' Hj. destruct (Nat.eq_dec j i) as [->|Hne]; [|rewrite updn_other by assumption; apply Hk; assumption].
          rewrite updn_same. cbn [cont cur mpc]. intro E. inversion E; subst. repeat split; [discriminate | left; reflexivity]. }
  all: set (k0 := cur (mth st i)); set (s' := step i (proj k0 st)).
  all: assert (Hroot : nds st 0 = node_parsed -> updn (nds st) k0 (nd s') 0 = node_parsed)
         by (intro Hp; destruct (Nat.eq_dec k0 0) as [E0|E0];
             [rewrite E0, updn_same; unfold s'; rewrite E0; apply step_parsed_stable; [apply HM | exact Hp]
             | rewrite updn_other by (intro; apply E0; symmetry; assumption); exact Hp]).
  all: constructor; cbn [mn nds mth].
  all: try (intros j Hj; destruct (Nat.eq_dec j i) as [->|Hne];
            [rewrite updn_same; cbn [cur]; intro X; apply Hroot; apply (Hc i Hi X)
            | rewrite updn_other by assumption; intro X; apply Hroot; apply (Hc j Hj X)]).
  all: intros j k o' Hj; (destruct (Nat.eq_dec j i) as [->|Hne]; [|rewrite updn_other by assumption; apply Hk; assumption]).
  all: rewrite updn_same; cbn [cont cur mpc mres]; intro Ec.
  all: destruct (Hk i k o' Hi Ec) as [Hc0 [Hk0 Hd]]; fold k0 in Hc0.
  all: split; [exact Hc0 | split; [exact Hk0|]].
  all: destruct Hd as [Hg|[Hidle _]]; [|rewrite Epc in Hidle; discriminate].
  all: assert (Hg' : in_get (tpc (th (proj k0 st) i)) = true)
         by (cbn [proj th]; unfold proj_thread; fold k0; rewrite Nat.eqb_refl; cbn [tpc]; exact Hg).
  all: destruct (step_get i (proj k0 st) Hlt Hg') as [A|[A [r [B C]]]]; fold s' in A; [left; exact A | right].
  all: fold s' in B; split; [exact A|]; exists r; eexists; split; [|exact C].
  all: rewrite Hc0, updn_same; exact B.
Qed.

Lemma mrun_rinv : forall sched st, MInv st -> RInv st -> RInv (mrun sched st).
Proof.
  induction sched as [|i r IH]; intros st HM HR; cbn [mrun]; [assumption|].
  apply IH; [apply mstep_inv; assumption | apply mstep_rinv; assumption].
Qed.

Lemma minit_rinv : forall n progs, RInv (minit n progs).
Proof. intros n progs. constructor; cbn [minit mn nds mth cur cont]; [intros i _ H; congruence | intros; discriminate]. Qed.

(* For every number of threads, every assignment of read operations on the root (0, o) and chains through the root to a
   child (S k, o) (o = Raw / encodeRaw shape or a checkRaw-based read), and EVERY schedule: every completed read at every
   node returned its sequential result; a node nobody is working on is raw or completely parsed; and a thread is at a
   child only while the root is parsed (the child was reached through the published children pointer). *)
Theorem tree_concurrent_reads_eq_sequential :
  forall n (progs : nat -> list mop) (sched : list nat),
    (forall i, i < n -> msafe (progs i) = true) ->
    let st := mrun sched (minit n progs) in
    (forall i k r, i < n -> In r (mres (mth st i) k) -> good r = true) /\
    (forall k, (forall i, i < n -> mpc (mth st i) = Idle \/ cur (mth st i) <> k) ->
               nds st k = node_raw \/ nds st k = node_parsed) /\
    (forall i, i < n -> cur (mth st i) <> 0 -> nds st 0 = node_parsed) /\
    (forall i k r, i < n -> In r (mres (mth st i) k) -> is_val r = true -> nds st k = node_parsed).
Proof.
  intros n progs sched Hs st.
  assert (HM : MInv st) by (apply mrun_inv, minit_inv; assumption).
  assert (HR : RInv st) by (apply mrun_rinv; [apply minit_inv; assumption | apply minit_rinv]).
  assert (Hn : mn st = n) by (unfold st; rewrite mn_mrun; reflexivity).
  split; [|split; [|split]].
  - intros i k r Hi Hin. apply (inv_good (proj k st) (HM k) i r); [cbn; rewrite Hn; assumption | exact Hin].
  - intros k Hq. apply (inv_quiet (proj k st) (HM k)). intros j Hj. cbn [proj nthreads] in Hj. rewrite Hn in Hj.
    cbn [proj th]. unfold proj_thread. cbn [tpc].
    destruct (Hq j Hj) as [E|E]; [rewrite E, if_same; reflexivity|].
    apply Nat.eqb_neq in E. rewrite E. reflexivity.
  - intros i Hi. apply (r_cur st HR). rewrite Hn. assumption.
  - intros i k r Hi Hin Hv. apply (inv_val (proj k st) (HM k) i r); [cbn; rewrite Hn; assumption | exact Hin | exact Hv].
Qed.

Example tree_nonvacuous :
  let progs := fun i => match i with 0 => [(1, OpGet); (0, OpRaw)] | 1 => [(1, OpRaw); (2, OpGet)] | _ => [(0, OpGet)] end in
  let st := mrun (flat_map (fun _ => [0; 1; 2]) (seq 0 60)) (minit 3 progs) in
  (forall i, i < 3 -> msafe (progs i) = true) /\
  nds st 0 = node_parsed /\ nds st 1 = node_parsed /\ nds st 2 = node_parsed /\ nds st 3 = node_raw /\
  map (fun i => (length (mres (mth st i) 0), length (mres (mth st i) 1), length (mres (mth st i) 2))) [0; 1; 2] = [(3, 2, 0); (2, 1, 2); (1, 0, 0)].
Proof.
  cbn zeta. split.
  - intros i Hi. destruct i as [|[|[|i]]]; reflexivity.
  - vm_compute. repeat split.
Qed.
