(* C16 - lockset discipline of ast.Node over the access table regenerated from /repo/ast (Gen/NodeAccess.v).

   Discipline for a node that may be shared (the protocol of Conc/NodeLock.v):
     t : written only atomically; read atomically, or under the node's lock (either mode), or after an atomic load by
         the same goroutine observed the node non-raw ("guarded": after checkRaw / should / a negative isRaw test);
     l, p : written only under the write lock; read under the lock (either mode) or guarded;
     *self : a whole-struct read counts as a read of l, p; a whole-struct WRITE contains a plain write of t and is never
         allowed by the rule itself.
   Accesses to a local Node held by value are private.  The lock / guard context is inherited through calls on the
   receiver; a call on any other node starts in the empty context.  Everything reachable from the documented
   concurrent read operations is examined. *)
From Coq Require Import String List Bool Arith.
From SV.Gen Require Import NodeAccess.
Import ListNotations.
Open Scope string_scope.

(* calling context: strongest lock known to be held on the receiver, and whether the receiver is known non-raw *)
Inductive lk := LNone | LRead | LWrite.
Definition ctx := (lk * bool)%type.

Definition lk_eqb (a b : lk) : bool :=
  match a, b with LNone, LNone | LRead, LRead | LWrite, LWrite => true | _, _ => false end.
Definition ctx_eqb (a b : ctx) : bool := lk_eqb (fst a) (fst b) && Bool.eqb (snd a) (snd b).

Definition lk_of_tag (t : tag) : lk := match t with UnderLock => LWrite | UnderRLock => LRead | _ => LNone end.
Definition lk_max (a b : lk) : lk :=
  match a, b with LWrite, _ | _, LWrite => LWrite | LRead, _ | _, LRead => LRead | _, _ => LNone end.

Definition eff (c : ctx) (t : tag) (g : bool) : ctx := (lk_max (fst c) (lk_of_tag t), snd c || g).

Definition events_of (f : string) : list ev :=
  match find (fun r => String.eqb (fst r) f) node_funcs with
  | Some (_, (_, l)) => l
  | None => []
  end.

(* the documented concurrent read operations (ast/node.go NewRawConcurrentRead, ast/search.go SearchOptions) *)
Definition read_roots : list string :=
  ["Node.GetByPath"; "Node.Get"; "Node.Index"; "Node.IndexOrGet"; "Node.Int64"; "Node.Bool"; "Node.Float64"; "Node.String";
   "Node.Number"; "Node.Interface"; "Node.InterfaceUseNumber"; "Node.Array"; "Node.ArrayUseNumber"; "Node.Map"; "Node.MapUseNumber";
   "Node.Raw"; "Node.MarshalJSON"; "Node.Exists"; "Node.Valid"; "Node.Check"; "Node.TypeSafe"].

(* work item: function, context, and - for the unprotected context only - the caller through which it was entered *)
Definition item := (string * (ctx * string))%type.
Definition unprotected (c : ctx) : bool := lk_eqb (fst c) LNone && negb (snd c).
Definition item_eqb (a b : item) : bool :=
  String.eqb (fst a) (fst b) && ctx_eqb (fst (snd a)) (fst (snd b)) && String.eqb (snd (snd a)) (snd (snd b)).
Definition imem (x : item) (l : list item) : bool := existsb (item_eqb x) l.

Definition mk_item (caller g : string) (c : ctx) : item := (g, (c, if unprotected c then caller else "")).

Definition succs (it : item) : list item :=
  let '(f, (c, _)) := it in
  flat_map (fun e => match e with
                     | Call g 0 t gd _ => [mk_item f g (eff c t gd)]
                     | Call g _ _ _ _ => [mk_item f g (LNone, false)]
                     | Acc _ _ _ _ _ _ => []
                     end) (events_of f).

Fixpoint add_all (new : list item) (acc : list item) : list item :=
  match new with
  | [] => acc
  | x :: r => if imem x acc then add_all r acc else add_all r (acc ++ [x])
  end.

(* breadth-first closure: the list grows at its end; [k] walks through it *)
Fixpoint closure (fuel : nat) (k : nat) (acc : list item) : list item :=
  match fuel with
  | O => acc
  | S f => match nth_error acc k with
           | None => acc
           | Some it => closure f (S k) (add_all (succs it) acc)
           end
  end.

Definition reachable : list item := closure 4000 0 (map (fun f => (f, ((LNone, false), "root"))) read_roots).

(* the closure terminated by exhausting the list, not the fuel *)
Definition closed : bool := Nat.ltb (List.length reachable) 4000.

Definition is_lp (f : string) : bool := String.eqb f "l" || String.eqb f "p".

(* does the access obey the discipline in context c? *)
Definition access_ok (c : ctx) (e : ev) : bool :=
  match e with
  | Call _ _ _ _ _ => true
  | Acc f k b t g _ =>
      if Nat.eqb b 1 then true                                  (* private copy *)
      else if String.eqb f "m" then true                        (* the mutex pointer: see [m_written_only_by] *)
      else
        let c' := if Nat.eqb b 0 then eff c t g else (LNone, false) in
        let locked := negb (lk_eqb (fst c') LNone) in
        let atomic := match t with Atomic => true | _ => false end in
        match k with
        | Rd => if String.eqb f "t" then atomic || locked || snd c' else locked || snd c'
        | Wr => if String.eqb f "t" then atomic
                else if is_lp f then lk_eqb (fst c') LWrite
                else false
        end
  end.

Definition rw_str (k : rw) : string := match k with Rd => "read" | Wr => "write" end.

(* key of an access: function, field, kind, and its occurrence number among the accesses of that function with the
   same field and kind (source order) - stable under unrelated edits, unlike line numbers *)
Definition key := (string * (string * (string * nat)))%type.
(* a violation: the access and the caller through which the unprotected context arrived *)
Definition viol := (key * string)%type.

Fixpoint keyed (f : string) (evs : list ev) (seen : list (string * string)) : list (key * ev) :=
  match evs with
  | [] => []
  | (Acc fld k _ _ _ _ as e) :: r =>
      let n := List.length (filter (fun x => String.eqb (fst x) fld && String.eqb (snd x) (rw_str k)) seen) in
      ((f, (fld, (rw_str k, n))), e) :: keyed f r ((fld, rw_str k) :: seen)
  | _ :: r => keyed f r seen
  end.

Definition key_eqb (a b : key) : bool :=
  String.eqb (fst a) (fst b) && String.eqb (fst (snd a)) (fst (snd b)) &&
  String.eqb (fst (snd (snd a))) (fst (snd (snd b))) && Nat.eqb (snd (snd (snd a))) (snd (snd (snd b))).
Definition kmem (x : key) (l : list key) : bool := existsb (key_eqb x) l.

Fixpoint kdedupe (l : list key) (acc : list key) : list key :=
  match l with
  | [] => acc
  | x :: r => if kmem x acc then kdedupe r acc else kdedupe r (acc ++ [x])
  end.

Definition viol_eqb (a b : viol) : bool := key_eqb (fst a) (fst b) && String.eqb (snd a) (snd b).
Definition vmem (x : viol) (l : list viol) : bool := existsb (viol_eqb x) l.

Fixpoint vdedupe (l : list viol) (acc : list viol) : list viol :=
  match l with
  | [] => acc
  | x :: r => if vmem x acc then vdedupe r acc else vdedupe r (acc ++ [x])
  end.

Definition violations_of (it : item) : list viol :=
  let '(f, (c, via)) := it in
  map (fun ke => (fst ke, via)) (filter (fun ke => negb (access_ok c (snd ke))) (keyed f (events_of f) [])).

Definition violations : list viol := vdedupe (flat_map violations_of reachable) [].

(* ------------------------------------------------------------------ justification of the remaining accesses *)

Inductive category :=
| LazyOnly        (* behind `if !self.isLazy() { return }`: acts on lazily parsed nodes only; a node that starts raw and is
                     parsed by the load-once parse (parseRaw with a mutex) never becomes lazy *)
| LazyCallee      (* called only from LazyOnly code *)
| Protocol        (* part of checkRaw itself: runs after loadt observed non-raw, or after this goroutine's own parseRaw
                     (modelled as V0 in Conc/NodeLock.v) *)
| DeadBranch      (* parseRaw(full = true) has no call site: checkRaw passes false *)
| NoMutex         (* the branches of parseRaw taken when self.m == nil (`lock` false): the node was not made concurrently
                     readable; since 30f25f0 the error path of a lockable node goes through assign *)
| KnownFinding (id : string).

Definition justification : list (viol * category) :=
  [ (("Node.loadAllIndex", ("*", ("write", 0)), ""), LazyOnly);
    (("Node.loadAllKey", ("*", ("write", 0)), ""), LazyOnly);
    (("Node.loadAllKey", ("*", ("write", 1)), ""), LazyOnly);
    (("Node.skipAllIndex", ("*", ("write", 0)), ""), LazyOnly);
    (("Node.skipAllKey", ("*", ("write", 0)), ""), LazyOnly);
    (("Node.skipNextNode", ("l", ("write", 0)), ""), LazyCallee);
    (("Node.skipNextPair", ("l", ("write", 0)), ""), LazyCallee);
    (("Node.setArray", ("t", ("write", 0)), ""), LazyCallee);
    (("Node.setArray", ("l", ("write", 0)), ""), LazyCallee);
    (("Node.setArray", ("p", ("write", 0)), ""), LazyCallee);
    (("Node.setObject", ("t", ("write", 0)), ""), LazyCallee);
    (("Node.setObject", ("l", ("write", 0)), ""), LazyCallee);
    (("Node.setObject", ("p", ("write", 0)), ""), LazyCallee);
    (("Node.checkFast", ("t", ("read", 0)), "Node.checkRaw"), Protocol);
    (("Node.parseRaw", ("*", ("write", 0)), "Node.checkRaw"), DeadBranch);
    (("Node.parseRaw", ("*", ("write", 1)), "Node.checkRaw"), NoMutex);
    (("Node.parseRaw", ("*", ("write", 2)), "Node.checkRaw"), NoMutex) ].

Definition justified (v : viol) : bool := existsb (fun j => viol_eqb v (fst j)) justification.

(* side conditions of the categories, checked on the regenerated table *)
Definition first_call_is (f g : string) : bool :=
  match events_of f with
  | Call h 0 _ _ _ :: _ => String.eqb h g
  | _ => false
  end.

Definition lazy_only_funcs : list string :=
  ["Node.loadAllIndex"; "Node.loadAllKey"; "Node.skipAllIndex"; "Node.skipAllKey"].

(* functions that are only ever called from code that has just tested isLazy() *)
Definition lazy_callees : list string := ["Node.skipNextNode"; "Node.skipNextPair"; "Node.setArray"; "Node.setObject"].

Definition calls (f g : string) : bool :=
  existsb (fun e => match e with Call h _ _ _ _ => String.eqb h g | _ => false end) (events_of f).

Definition smem (x : string) (l : list string) : bool := existsb (String.eqb x) l.

(* every caller of a lazy callee is lazy-only, a lazy callee, or calls isLazy() before (skipKey / skipIndex / skipIndexPair
   and the iterator: they return before the loop unless self.isLazy()) *)
Definition calls_before (f g h : string) : bool :=
  (* in f, every call of h is preceded by a call of g *)
  (fix go (evs : list ev) (seen : bool) : bool :=
     match evs with
     | [] => true
     | Call c _ _ _ _ :: r => if String.eqb c h then seen && go r seen
                              else if String.eqb c g then go r true else go r seen
     | _ :: r => go r seen
     end) (events_of f) false.

Definition lazy_callee_ok (h : string) : bool :=
  forallb (fun r => let f := fst r in
                    negb (calls f h) || smem f lazy_only_funcs || smem f lazy_callees || calls_before f "Node.isLazy" h)
          node_funcs.

Definition side_conditions : bool :=
  forallb (fun f => first_call_is f "Node.isLazy") lazy_only_funcs &&
  forallb lazy_callee_ok lazy_callees &&
  (* checkFast is entered unprotected only from checkRaw *)
  forallb (fun v => negb (String.eqb (fst (fst v)) "Node.checkFast") || String.eqb (snd v) "Node.checkRaw") violations.

Definition lockset_ok : bool := closed && forallb justified violations && side_conditions.

(* ------------------------------------------------------------------ the anchors of the protocol, by shape *)

Definition is_acc_self (fld : string) (k : rw) (e : ev) : bool :=
  match e with Acc f k' 0 _ _ _ => String.eqb f fld && String.eqb (rw_str k) (rw_str k') | _ => false end.

(* assign: the receiver's l and p are written (plainly) before t, and t is written atomically and last *)
Definition assign_shape : bool :=
  match filter (fun e => match e with Acc _ Wr 0 _ _ _ => true | _ => false end) (events_of "Node.assign") with
  | [Acc "l" Wr 0 Plain _ _; Acc "p" Wr 0 Plain _ _; Acc "t" Wr 0 Atomic _ _] => true
  | _ => false
  end.

(* parseRaw: lock() first, unlock deferred, everything else under the lock, the raw test and the text read included *)
Definition parseRaw_shape : bool :=
  match events_of "Node.parseRaw" with
  | Call "Node.lock" 0 Plain _ _ :: Call "Node.defer unlock" 0 UnderLock _ _ :: Call "Node.isRaw" 0 UnderLock _ _ :: rest =>
      forallb (fun e => match e with
                        | Call _ _ UnderLock _ _ | Acc _ _ _ UnderLock _ _ => true
                        | _ => false
                        end) rest &&
      existsb (fun e => match e with Call "Node.assign" 0 UnderLock _ _ => true | _ => false end) rest &&
      existsb (fun e => match e with Call "Node.toString" 0 UnderLock _ _ => true | _ => false end) rest
  | _ => false
  end.

(* Raw and encodeRaw: rlock; isRaw under it; toString under it; the non-raw branch leaves through runlock *)
Definition rlock_shape (f : string) (fallback : string) : bool :=
  match events_of f with
  | [Call "Node.rlock" 0 Plain _ _; Call "Node.isRaw" 0 UnderRLock _ _; Call "Node.runlock" 0 UnderRLock true _;
     Call fb 0 Plain true _; Call "Node.toString" 0 UnderRLock false _; Call "Node.runlock" 0 UnderRLock false _] =>
      String.eqb fb fallback
  | _ => false
  end.

Definition accessors_shape : bool :=
  (match events_of "Node.loadt" with [Acc "t" Rd 0 Atomic _ _] => true | _ => false end) &&
  (match events_of "Node.isRaw" with [Call "Node.loadt" 0 _ _ _] => true | _ => false end) &&
  (match events_of "Node.checkRaw" with
   | [Call "Node.loadt" 0 _ _ _; Call "Node.parseRaw" 0 _ _ _; Call "Node.checkFast" 0 _ _ _] => true
   | _ => false end) &&
  (match events_of "Node.should" with Call "Node.checkRaw" 0 _ _ _ :: _ => true | _ => false end).

(* MarshalJSON (fca300b): the fast path re-checks and reads the text under rlock, then leaves through runlock *)
Definition marshal_shape : bool :=
  match events_of "Node.MarshalJSON" with
  | [Call "Node.isRaw" 0 Plain _ _; Call "Node.rlock" 0 Plain _ _; Call "Node.isRaw" 0 UnderRLock _ _;
     Call "Node.toString" 0 UnderRLock _ _; Call "Node.runlock" 0 UnderRLock _ _; Call "Node.runlock" 0 UnderRLock _ _;
     Call "Node.encode" 0 Plain true _] => true
  | _ => false
  end.

Definition shapes_ok : bool :=
  marshal_shape && assign_shape && parseRaw_shape && rlock_shape "Node.Raw" "Node.MarshalJSON" && rlock_shape "Node.encodeRaw" "Node.encode" &&
  accessors_shape.

(* ------------------------------------------------------------------ theorems *)

Lemma lockset_ok_true : lockset_ok = true.
Proof. vm_compute. reflexivity. Qed.

Lemma shapes_ok_true : shapes_ok = true.
Proof. vm_compute. reflexivity. Qed.

Lemma vmem_In : forall v l, vmem v l = true -> exists w, In w l /\ viol_eqb v w = true.
Proof. intros v l H. unfold vmem in H. apply existsb_exists in H. exact H. Qed.

(* Every access to t / l / p / *self reachable from the documented concurrent read operations either obeys the lockset
   discipline in every calling context, or is one of the listed accesses with its justification category; the list is
   closed (the reachability computation did not run out of fuel) and the side conditions of the categories hold. *)
Lemma viol_eqb_eq : forall v w : viol, viol_eqb v w = true -> v = w.
Proof.
  intros [[f1 [g1 [k1 n1]]] v1] [[f2 [g2 [k2 n2]]] v2] H.
  unfold viol_eqb, key_eqb in H. cbn [fst snd] in H.
  repeat (apply andb_prop in H; destruct H as [H ?]).
  repeat match goal with
         | E : String.eqb _ _ = true |- _ => apply String.eqb_eq in E
         | E : Nat.eqb _ _ = true |- _ => apply Nat.eqb_eq in E
         end.
  subst. reflexivity.
Qed.

Theorem lockset_discipline :
  closed = true /\
  (forall v, In v violations -> exists c, In (v, c) justification) /\
  side_conditions = true.
Proof.
  pose proof lockset_ok_true as H. unfold lockset_ok in H.
  apply andb_prop in H. destruct H as [H Hs]. apply andb_prop in H. destruct H as [Hc Hj].
  split; [assumption | split; [|assumption]].
  intros v Hv. rewrite forallb_forall in Hj. specialize (Hj v Hv).
  unfold justified in Hj. apply existsb_exists in Hj. destruct Hj as [[w c] [Hin He]].
  exists c. cbn [fst] in He. apply viol_eqb_eq in He. subst. assumption.
Qed.

(* the accesses that are NOT justified by the protocol are exactly the two recorded defects *)
Definition known_findings_of (v : viol) : option string :=
  match find (fun j => viol_eqb v (fst j)) justification with
  | Some (_, KnownFinding id) => Some id
  | _ => None
  end.

Definition unjustified : list (viol * string) :=
  flat_map (fun v => match known_findings_of v with Some id => [(v, id)] | None => [] end) violations.

(* since fca300b / 30f25f0 no access is left to a known finding *)
Theorem lockset_unjustified_subset : unjustified = [].
Proof. vm_compute. reflexivity. Qed.

(* The two defect sites, recognised on the regenerated table.  While a site has its defective shape, the corresponding
   access is reported as a violation of the discipline (the discipline is REFUTED there); once the source is repaired
   the hypothesis becomes false and the statement stays provable, so that a repair does not break the proof build. *)
Definition marshal_fastpath_unlocked : bool :=
  existsb (fun e => match e with Call "Node.toString" 0 Plain false _ => true | _ => false end) (events_of "Node.MarshalJSON").

(* repaired shape (30f25f0): the error node of a lockable node is published by a second call of assign *)
Definition parse_error_plain_overwrite : bool :=
  Nat.ltb (List.length (filter (fun e => match e with Call "Node.assign" 0 UnderLock _ _ => true | _ => false end) (events_of "Node.parseRaw"))) 2.

Lemma vmem_In' : forall v l, vmem v l = true -> In v l.
Proof.
  intros v l H. apply vmem_In in H. destruct H as [w [Hin He]]. apply viol_eqb_eq in He. subst. assumption.
Qed.

Theorem lockset_marshal_fastpath_refuted :
  marshal_fastpath_unlocked = true ->
  In (("Node.toString", ("p", ("read", 0)), "Node.MarshalJSON")) violations /\
  In (("Node.toString", ("l", ("read", 0)), "Node.MarshalJSON")) violations.
Proof.
  assert (H : implb marshal_fastpath_unlocked
                (vmem (("Node.toString", ("p", ("read", 0)), "Node.MarshalJSON")) violations &&
                 vmem (("Node.toString", ("l", ("read", 0)), "Node.MarshalJSON")) violations) = true)
    by (vm_compute; reflexivity).
  intro E. rewrite E in H. cbn [implb] in H. apply andb_prop in H. destruct H as [A B].
  split; apply vmem_In'; assumption.
Qed.

(* both repaired shapes are present in the regenerated table *)
Theorem lockset_defect_sites_repaired : marshal_fastpath_unlocked = false /\ parse_error_plain_overwrite = false.
Proof. vm_compute. split; reflexivity. Qed.

(* the hypotheses hold on the tree this file was written against (non-vacuity; remove when the defects are repaired) *)
Definition defect_sites_present : bool * bool := (marshal_fastpath_unlocked, parse_error_plain_overwrite).
