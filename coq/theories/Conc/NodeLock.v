(* C16 - the locking protocol of a concurrently readable ast.Node (/repo/ast), as small-step thread programs over one
   shared node, with an arbitrary scheduler.

   Shared state: the three fields of Node that change when a raw node is parsed:
       t  (types.ValueType, accessed with atomic.LoadInt64 / atomic.StoreInt64 or plainly)
       l  (length of the raw text  |->  number of children)
       p  (pointer to the raw text |->  pointer to the children)
   abstracted to: t in {raw, parsed}; l, p in {false = the raw representation, true = the parsed representation}.
   Every single field access is one atomic step of the interleaving semantics, so torn reads (l of one representation
   with p of the other) are visible in the model.  The Go memory model below atomics / mutexes is NOT modelled
   (sequentially consistent interleaving); freedom from data races is the subject of Conc/Lockset.v.

   The per-node sync.RWMutex is modelled by the control points of the threads: the write lock is held by thread i iff its
   pc lies between lock() and unlock() (in_W), a read lock iff it lies between rlock() and runlock() (in_R);
   lock() can be passed only when no other thread is in_W or in_R, rlock() only when no other thread is in_W.

   Transcribed operations:
     OpRaw      Node.Raw (node.go:176), also the shape of encodeRaw (encode.go:168):
                rlock; t := loadt; if raw { l := self.l; p := self.p; runlock; return text(l,p) } else { runlock; MarshalJSON }
     OpMarshal  Node.MarshalJSON as pinned (encode.go:94): t := loadt; if raw { l; p; return text(l,p) }   -- NO lock
                else encode: t' := self.t (plain); l; p
     OpGet      every checkRaw-based read (Get, Index, GetByPath hops, Int64, Float64, String, Bool, Number, Interface, Map, Array):
                t := loadt; if raw { parseRaw: lock; t := loadt; if raw { l; p; parse; assign: self.l = ; self.p = ;
                atomic store t }; unlock }; then plain reads t, l, p of the parsed representation.
   Children created by the load-once parse are raw nodes with their own mutex: each is an independent instance of this
   protocol (scalars are immutable), so one node is modelled. *)
From Coq Require Import List Bool Arith Lia.
Import ListNotations.

Inductive tval := TRaw | TParsed.

Record node := mkNode { nt : tval; nl : bool; np : bool }.

Definition node_raw : node := mkNode TRaw false false.
Definition node_parsed : node := mkNode TParsed true true.

Inductive result :=
| RawText (l p : bool)            (* text obtained by toString() from a node believed raw *)
| Val (t : tval) (l p : bool)     (* value computed from the representation believed parsed *)
| ParseInput (l p : bool).        (* the text parseRaw handed to the parser *)

(* the sequential results: the raw text is read from the raw representation, values and the encoder read the parsed one *)
Definition good (r : result) : bool :=
  match r with
  | RawText l p => negb l && negb p
  | Val TParsed true true => true
  | Val _ _ _ => false
  | ParseInput l p => negb l && negb p
  end.

Inductive op := OpRaw | OpMarshal | OpGet.

Definition safe_op (o : op) : bool := match o with OpMarshal => false | _ => true end.

Inductive pc :=
| Idle
(* Raw / encodeRaw *)
| R0 | R1 | R2 | R3 (l : bool) | R4 (l p : bool) | R5
(* MarshalJSON: M0k = entered from Raw after a non-raw observation, M0 = entered directly *)
| M0k | M0 | M1 | M2 (l : bool)
(* encode of a non-raw node *)
| E0 | E1 (t : tval) | E2 (t : tval) (l : bool)
(* checkRaw; parseRaw; the read proper *)
| G0 | P0 | P1 | P2 | P3 (l : bool) | P4 | P5 | P5b | P6
| V0 | V1 (t : tval) | V2 (t : tval) (l : bool).

Definition in_W (c : pc) : bool :=
  match c with P1 | P2 | P3 _ | P4 | P5 | P5b | P6 => true | _ => false end.

Definition in_R (c : pc) : bool :=
  match c with R1 | R2 | R3 _ | R4 _ _ | R5 => true | _ => false end.

Record thread := mkThread { tpc : pc; todo : list op; res : list result }.

Record state := mkState { nthreads : nat; nd : node; th : nat -> thread }.

Definition upd (f : nat -> thread) (i : nat) (v : thread) : nat -> thread :=
  fun j => if j =? i then v else f j.

(* some OTHER thread (below the thread count) is at a control point satisfying P *)
Definition others (P : pc -> bool) (n : nat) (f : nat -> thread) (i : nat) : bool :=
  existsb (fun j => negb (j =? i) && P (tpc (f j))) (seq 0 n).

Definition entry (o : op) : pc := match o with OpRaw => R0 | OpMarshal => M0 | OpGet => G0 end.

Definition goto (t : thread) (c : pc) : thread := mkThread c (todo t) (res t).
Definition finish (t : thread) (r : result) : thread := mkThread Idle (todo t) (r :: res t).

Definition is_raw (n : node) : bool := match nt n with TRaw => true | TParsed => false end.

(* one step of thread i; a blocked or finished thread stutters *)
Definition step (i : nat) (st : state) : state :=
  if negb (i <? nthreads st) then st else
  let n := nthreads st in
  let f := th st in
  let t := f i in
  let d := nd st in
  let same c := mkState n d (upd f i (goto t c)) in
  match tpc t with
  | Idle => match todo t with
            | [] => st
            | o :: r => mkState n d (upd f i (mkThread (entry o) r (res t)))
            end
  | R0 => if others in_W n f i then st else same R1                 (* rlock *)
  | R1 => if is_raw d then same R2 else same R5                     (* isRaw(): atomic load *)
  | R2 => same (R3 (nl d))                                          (* toString: l *)
  | R3 l => same (R4 l (np d))                                      (* toString: p *)
  | R4 l p => mkState n d (upd f i (finish t (RawText l p)))        (* runlock; return *)
  | R5 => same M0k                                                  (* runlock; MarshalJSON *)
  | M0k => if is_raw d then same M1 else same E0
  | M0 => if is_raw d then same M1 else same E0                     (* isRaw(): atomic load, no lock *)
  | M1 => same (M2 (nl d))
  | M2 l => mkState n d (upd f i (finish t (RawText l (np d))))
  | E0 => same (E1 (nt d))                                          (* itype(): plain read of t *)
  | E1 t0 => same (E2 t0 (nl d))
  | E2 t0 l => mkState n d (upd f i (finish t (Val t0 l (np d))))
  | G0 => if is_raw d then same P0 else same V0                     (* checkRaw: loadt *)
  | P0 => if others in_W n f i || others in_R n f i then st else same P1   (* lock *)
  | P1 => if is_raw d then same P2 else same P6                     (* re-check under the lock *)
  | P2 => same (P3 (nl d))                                          (* raw := toString *)
  | P3 l => mkState n d (upd f i (mkThread P4 (todo t) (ParseInput l (np d) :: res t)))   (* parser.Parse() *)
  | P4 => mkState n (mkNode (nt d) true (np d)) (upd f i (goto t P5))      (* assign: self.l = n.l *)
  | P5 => mkState n (mkNode (nt d) (nl d) true) (upd f i (goto t P5b))     (* assign: self.p = n.p *)
  | P5b => mkState n (mkNode TParsed (nl d) (np d)) (upd f i (goto t P6))  (* atomic.StoreInt64(&self.t, n.t) *)
  | P6 => same V0                                                   (* unlock *)
  | V0 => same (V1 (nt d))                                          (* switch self.t: plain read *)
  | V1 t0 => same (V2 t0 (nl d))
  | V2 t0 l => mkState n d (upd f i (finish t (Val t0 l (np d))))
  end.

Fixpoint run (sched : list nat) (st : state) : state :=
  match sched with
  | [] => st
  | i :: r => run r (step i st)
  end.

Definition init (n : nat) (progs : nat -> list op) : state :=
  mkState n node_raw (fun i => mkThread Idle (progs i) []).

(* ------------------------------------------------------------------ invariant *)

(* what a thread at control point c may rely on *)
Definition tinv (c : pc) (d : node) (rs : list result) : Prop :=
  match c with
  | R2 => d = node_raw
  | R3 l => d = node_raw /\ l = false
  | R4 l p => d = node_raw /\ l = false /\ p = false
  | R5 | M0k | E0 | V0 | P6 => d = node_parsed
  | E1 t | V1 t => d = node_parsed /\ t = TParsed
  | E2 t l | V2 t l => d = node_parsed /\ t = TParsed /\ l = true
  | P1 => d = node_raw \/ d = node_parsed
  | P2 => d = node_raw
  | P3 l => d = node_raw /\ l = false
  | P4 => d = node_raw /\ In (ParseInput false false) rs
  | P5 => d = mkNode TRaw true false /\ In (ParseInput false false) rs
  | P5b => d = mkNode TRaw true true /\ In (ParseInput false false) rs
  | M0 | M1 | M2 _ => False                       (* the unlocked fast path is excluded (safe programs) *)
  | Idle | R0 | R1 | G0 | P0 => True
  end.

Definition is_val (r : result) : bool := match r with Val _ _ _ => true | _ => false end.

Record Inv (st : state) : Prop := mkInv {
  inv_excl : forall i j, i < nthreads st -> j < nthreads st -> i <> j ->
             in_W (tpc (th st i)) = true -> in_W (tpc (th st j)) = false /\ in_R (tpc (th st j)) = false;
  inv_thr : forall i, i < nthreads st -> tinv (tpc (th st i)) (nd st) (res (th st i));
  inv_safe : forall i, i < nthreads st -> forallb safe_op (todo (th st i)) = true;
  inv_good : forall i r, i < nthreads st -> In r (res (th st i)) -> good r = true;
  inv_t : nt (nd st) = TParsed -> nd st = node_parsed;
  inv_quiet : (forall j, j < nthreads st -> in_W (tpc (th st j)) = false) -> nd st = node_raw \/ nd st = node_parsed;
  inv_val : forall i r, i < nthreads st -> In r (res (th st i)) -> is_val r = true -> nd st = node_parsed;
  inv_parsed : nd st <> node_raw -> exists i, i < nthreads st /\ In (ParseInput false false) (res (th st i))
}.

Lemma others_false : forall P n f i, others P n f i = false ->
  forall j, j < n -> j <> i -> P (tpc (f j)) = false.
Proof.
  intros P n f i H j Hj Hne. unfold others in H.
  destruct (P (tpc (f j))) eqn:E; [|reflexivity].
  exfalso. assert (X : existsb (fun j0 => negb (j0 =? i) && P (tpc (f j0))) (seq 0 n) = true).
  { apply existsb_exists. exists j. split; [apply in_seq; lia|].
    rewrite E. apply Nat.eqb_neq in Hne. rewrite Hne. reflexivity. }
  congruence.
Qed.

Lemma upd_same : forall f i v, upd f i v i = v.
Proof. intros. unfold upd. rewrite Nat.eqb_refl. reflexivity. Qed.

Lemma upd_other : forall f i v j, j <> i -> upd f i v j = f j.
Proof. intros. unfold upd. apply Nat.eqb_neq in H. rewrite H. reflexivity. Qed.

(* a thread outside both lock regions knows nothing about the node, or knows that it is parsed *)
Lemma tinv_outside : forall c d rs, in_W c = false -> in_R c = false -> tinv c d rs ->
  (forall d', tinv c d' rs) \/ d = node_parsed.
Proof.
  intros c d rs HW HR H. destruct c; simpl in *; try discriminate; try tauto; try (left; intros; exact I).
Qed.

Lemma tinv_parsed_stable : forall c d d' rs, in_W c = false -> in_R c = false -> tinv c d rs -> d <> node_parsed -> tinv c d' rs.
Proof.
  intros c d d' rs HW HR H Hn. destruct (tinv_outside c d rs HW HR H) as [A|A]; [apply A | contradiction].
Qed.

(* ---- a generic preservation lemma for steps of thread i that do not change the node and do not enter a lock region *)
Lemma inv_local : forall st i t',
  Inv st -> i < nthreads st ->
  (in_W (tpc t') = true -> in_W (tpc (th st i)) = true) ->
  (in_R (tpc t') = true -> in_R (tpc (th st i)) = true) ->
  tinv (tpc t') (nd st) (res t') ->
  forallb safe_op (todo t') = true ->
  (forall r, In r (res t') -> In r (res (th st i)) \/ (good r = true /\ (is_val r = true -> nd st = node_parsed))) ->
  (forall r, In r (res (th st i)) -> In r (res t')) ->
  (in_W (tpc (th st i)) = true -> in_W (tpc t') = false -> nd st = node_raw \/ nd st = node_parsed) ->
  Inv (mkState (nthreads st) (nd st) (upd (th st) i t')).
Proof.
  intros st i t' [Hex Ht Hs Hg Hnt Hq Hv Hp] Hi HW HR Htinv Hsafe Hres Hres' Hleave.
  constructor; cbn [nthreads nd th].
  - intros a b Ha Hb Hab Hin.
    destruct (Nat.eq_dec a i) as [->|Hai]; destruct (Nat.eq_dec b i) as [->|Hbi]; try congruence.
    + rewrite upd_same in Hin. rewrite upd_other by assumption. apply (Hex i b Hi Hb Hab (HW Hin)).
    + rewrite upd_other in Hin by assumption. rewrite upd_same.
      destruct (Hex a i Ha Hi Hai Hin) as [A B].
      split.
      * destruct (in_W (tpc t')) eqn:E; [rewrite HW in A by reflexivity; discriminate | reflexivity].
      * destruct (in_R (tpc t')) eqn:E; [rewrite HR in B by reflexivity; discriminate | reflexivity].
    + rewrite upd_other in Hin by assumption. rewrite upd_other by assumption. apply (Hex a b); auto.
  - intros a Ha. destruct (Nat.eq_dec a i) as [->|Hai]; [rewrite upd_same; assumption | rewrite upd_other by assumption; auto].
  - intros a Ha. destruct (Nat.eq_dec a i) as [->|Hai]; [rewrite upd_same; assumption | rewrite upd_other by assumption; auto].
  - intros a r Ha Hin. destruct (Nat.eq_dec a i) as [->|Hai].
    + rewrite upd_same in Hin. destruct (Hres r Hin) as [A|[A _]]; [eapply Hg; eauto | assumption].
    + rewrite upd_other in Hin by assumption. eapply Hg; eauto.
  - assumption.
  - intro Hall. destruct (in_W (tpc (th st i))) eqn:E.
    + apply Hleave; [reflexivity|]. specialize (Hall i Hi). rewrite upd_same in Hall. assumption.
    + apply Hq. intros j Hj. destruct (Nat.eq_dec j i) as [->|Hji]; [assumption|].
      specialize (Hall j Hj). rewrite upd_other in Hall by assumption. assumption.
  - intros a r Ha Hin Hval. destruct (Nat.eq_dec a i) as [->|Hai].
    + rewrite upd_same in Hin. destruct (Hres r Hin) as [A|[_ A]]; [eapply Hv; eauto | auto].
    + rewrite upd_other in Hin by assumption. eapply Hv; eauto.
  - intro Hn. destruct (Hp Hn) as [a [Ha Hin]]. exists a. split; [assumption|].
    destruct (Nat.eq_dec a i) as [->|Hai]; [rewrite upd_same; auto | rewrite upd_other by assumption; assumption].
Qed.

(* ---- steps of the lock holder that modify the node *)
Lemma inv_write : forall st i c' d',
  Inv st -> i < nthreads st ->
  in_W (tpc (th st i)) = true -> in_W c' = true ->
  nd st <> node_parsed ->
  tinv c' d' (res (th st i)) ->
  (nt d' = TParsed -> d' = node_parsed) ->
  In (ParseInput false false) (res (th st i)) ->
  Inv (mkState (nthreads st) d' (upd (th st) i (goto (th st i) c'))).
Proof.
  intros st i c' d' [Hex Ht Hs Hg Hnt Hq Hv Hp] Hi HW HW' Hnp Htinv Hnt' Hpi.
  assert (HR' : in_R c' = false) by (destruct c'; simpl in *; congruence).
  constructor; cbn [nthreads nd th].
  - intros a b Ha Hb Hab Hin.
    destruct (Nat.eq_dec a i) as [->|Hai]; destruct (Nat.eq_dec b i) as [->|Hbi]; try congruence.
    + rewrite upd_other by assumption. apply (Hex i b Hi Hb Hab HW).
    + rewrite upd_other in Hin by assumption. rewrite upd_same. cbn [goto tpc].
      destruct (Hex a i Ha Hi Hai Hin) as [A _]. congruence.
    + rewrite upd_other in Hin by assumption. rewrite upd_other by assumption. apply (Hex a b); auto.
  - intros a Ha. destruct (Nat.eq_dec a i) as [->|Hai]; [rewrite upd_same; assumption|].
    rewrite upd_other by assumption.
    destruct (Hex i a Hi Ha (not_eq_sym Hai) HW) as [A B].
    eapply tinv_parsed_stable; eauto.
  - intros a Ha. destruct (Nat.eq_dec a i) as [->|Hai]; [rewrite upd_same; cbn; auto | rewrite upd_other by assumption; auto].
  - intros a r Ha Hin. destruct (Nat.eq_dec a i) as [->|Hai];
      [rewrite upd_same in Hin; cbn in Hin | rewrite upd_other in Hin by assumption]; eapply Hg; eauto.
  - assumption.
  - intro Hall. specialize (Hall i Hi). rewrite upd_same in Hall. cbn in Hall. congruence.
  - intros a r Ha Hin Hval. exfalso. apply Hnp.
    destruct (Nat.eq_dec a i) as [->|Hai];
      [rewrite upd_same in Hin; cbn in Hin | rewrite upd_other in Hin by assumption]; eapply Hv; eauto.
  - intros _. exists i. split; [assumption|]. rewrite upd_same. cbn. assumption.
Qed.

Lemma no_writer_of_reader : forall st i, Inv st -> i < nthreads st -> in_R (tpc (th st i)) = true ->
  forall j, j < nthreads st -> in_W (tpc (th st j)) = false.
Proof.
  intros st i HI Hi HR j Hj. destruct (in_W (tpc (th st j))) eqn:E; [|reflexivity].
  destruct (Nat.eq_dec j i) as [->|Hne].
  - destruct (tpc (th st i)); simpl in *; congruence.
  - destruct (inv_excl st HI j i Hj Hi Hne E) as [_ B]. congruence.
Qed.

Lemma raw_or_parsed_cases : forall d, d = node_raw \/ d = node_parsed ->
  (is_raw d = true /\ d = node_raw) \/ (is_raw d = false /\ d = node_parsed).
Proof. intros d [->| ->]; [left|right]; split; reflexivity. Qed.

Ltac use_pc := cbn [goto finish tpc todo res]; repeat match goal with E : tpc _ = _ |- _ => rewrite E end.

Ltac local_step HI Hi :=
  apply inv_local; [exact HI | exact Hi | use_pc; cbn; congruence | use_pc; cbn; congruence | use_pc; cbn; auto
                   | use_pc; cbn; auto | use_pc; cbn; auto | use_pc; cbn; auto | use_pc; cbn; auto; try congruence ].

Theorem step_inv : forall i st, Inv st -> Inv (step i st).
Proof.
  intros i st HI. unfold step.
  destruct (i <? nthreads st) eqn:Hlt; cbn [negb]; [|assumption].
  apply Nat.ltb_lt in Hlt.
  pose proof (inv_thr st HI i Hlt) as Hti.
  pose proof (inv_safe st HI i Hlt) as Hsi.
  destruct (tpc (th st i)) eqn:Epc; cbn [tinv] in Hti.
  - (* Idle *)
    destruct (todo (th st i)) as [|o r] eqn:Etodo; [assumption|].
    cbn [forallb] in Hsi. apply andb_prop in Hsi. destruct Hsi as [Ho Hr].
    apply inv_local; try assumption; cbn [tpc todo res]; rewrite ?Epc.
    + destruct o; simpl in *; congruence.
    + destruct o; simpl in *; congruence.
    + destruct o; simpl in *; try exact I; discriminate.
    + auto.
    + auto.
    + cbn; congruence.
  - (* R0: rlock *)
    destruct (others in_W (nthreads st) (th st) i) eqn:Eo; [assumption|].
    pose proof (others_false _ _ _ _ Eo) as Hno.
    destruct HI as [Hex Ht Hs Hg Hnt Hq Hv Hp].
    constructor; cbn [nthreads nd th].
    + intros a b Ha Hb Hab Hin.
      destruct (Nat.eq_dec a i) as [->|Hai]; destruct (Nat.eq_dec b i) as [->|Hbi]; try congruence.
      * rewrite upd_same in Hin. cbn in Hin. discriminate.
      * rewrite upd_other in Hin by assumption. rewrite (Hno a Ha Hai) in Hin. discriminate.
      * rewrite upd_other in Hin by assumption. rewrite upd_other by assumption. apply (Hex a b); auto.
    + intros a Ha. destruct (Nat.eq_dec a i) as [->|Hai]; [rewrite upd_same; exact I | rewrite upd_other by assumption; auto].
    + intros a Ha. destruct (Nat.eq_dec a i) as [->|Hai]; [rewrite upd_same; cbn; auto | rewrite upd_other by assumption; auto].
    + intros a r Ha Hin. destruct (Nat.eq_dec a i) as [->|Hai];
        [rewrite upd_same in Hin; cbn in Hin | rewrite upd_other in Hin by assumption]; eapply Hg; eauto.
    + assumption.
    + intro Hall. apply Hq. intros j Hj. destruct (Nat.eq_dec j i) as [->|Hji]; [rewrite Epc; reflexivity|].
      specialize (Hall j Hj). rewrite upd_other in Hall by assumption. assumption.
    + intros a r Ha Hin Hval. destruct (Nat.eq_dec a i) as [->|Hai];
        [rewrite upd_same in Hin; cbn in Hin | rewrite upd_other in Hin by assumption]; eapply Hv; eauto.
    + intro Hn. destruct (Hp Hn) as [a [Ha Hin]]. exists a. split; [assumption|].
      destruct (Nat.eq_dec a i) as [->|Hai]; [rewrite upd_same; cbn; assumption | rewrite upd_other by assumption; assumption].
  - (* R1: isRaw under the read lock *)
    assert (HR : in_R (tpc (th st i)) = true) by (rewrite Epc; reflexivity).
    pose proof (inv_quiet st HI (no_writer_of_reader st i HI Hlt HR)) as Hq.
    destruct (raw_or_parsed_cases _ Hq) as [[E D]|[E D]]; rewrite E; local_step HI Hlt.
  - (* R2 *) local_step HI Hlt. rewrite Hti. cbn. auto.
  - (* R3 *) destruct Hti as [D L]. local_step HI Hlt. rewrite D. cbn. auto.
  - (* R4: return the text *)
    destruct Hti as [D [L P]]. subst l p.
    apply inv_local; try assumption; cbn [tpc todo res finish]; rewrite ?Epc; try (cbn; congruence); try exact I.
    + intros r [<-|Hin]; [right; split; [reflexivity | cbn; discriminate] | left; assumption].
    + intros r Hin. right. assumption.
  - (* R5: runlock, node known parsed *) local_step HI Hlt.
  - (* M0k *)
    assert (E : is_raw (nd st) = false) by (rewrite Hti; reflexivity). rewrite E. local_step HI Hlt.
  - (* M0 *) contradiction.
  - (* M1 *) contradiction.
  - (* M2 *) contradiction.
  - (* E0 *) local_step HI Hlt. rewrite Hti. cbn. auto.
  - (* E1 *) destruct Hti as [D T]. local_step HI Hlt. rewrite D. cbn. auto.
  - (* E2 *)
    destruct Hti as [D [T L]]. subst t l.
    apply inv_local; try assumption; cbn [tpc todo res finish]; rewrite ?Epc; try (cbn; congruence); try exact I.
    + intros r [<-|Hin]; [right; rewrite D; split; [reflexivity | auto] | left; assumption].
    + intros r Hin. right. assumption.
  - (* G0: checkRaw's atomic load *)
    destruct (is_raw (nd st)) eqn:E.
    + local_step HI Hlt.
    + local_step HI Hlt. apply (inv_t st HI). unfold is_raw in E. destruct (nt (nd st)); [discriminate|reflexivity].
  - (* P0: lock *)
    destruct (others in_W (nthreads st) (th st) i || others in_R (nthreads st) (th st) i) eqn:Eo; [assumption|].
    apply orb_false_elim in Eo. destruct Eo as [EW ER].
    pose proof (others_false _ _ _ _ EW) as HnoW. pose proof (others_false _ _ _ _ ER) as HnoR.
    assert (Hq : nd st = node_raw \/ nd st = node_parsed).
    { apply (inv_quiet st HI). intros j Hj. destruct (Nat.eq_dec j i) as [->|Hji]; [rewrite Epc; reflexivity | auto]. }
    destruct HI as [Hex Ht Hs Hg Hnt Hq' Hv Hp].
    constructor; cbn [nthreads nd th].
    + intros a b Ha Hb Hab Hin.
      destruct (Nat.eq_dec a i) as [->|Hai]; destruct (Nat.eq_dec b i) as [->|Hbi]; try congruence.
      * rewrite upd_other by assumption. split; auto.
      * rewrite upd_other in Hin by assumption. rewrite (HnoW a Ha Hai) in Hin. discriminate.
      * rewrite upd_other in Hin by assumption. rewrite upd_other by assumption. apply (Hex a b); auto.
    + intros a Ha. destruct (Nat.eq_dec a i) as [->|Hai]; [rewrite upd_same; exact Hq | rewrite upd_other by assumption; auto].
    + intros a Ha. destruct (Nat.eq_dec a i) as [->|Hai]; [rewrite upd_same; cbn; auto | rewrite upd_other by assumption; auto].
    + intros a r Ha Hin. destruct (Nat.eq_dec a i) as [->|Hai];
        [rewrite upd_same in Hin; cbn in Hin | rewrite upd_other in Hin by assumption]; eapply Hg; eauto.
    + assumption.
    + intros _. exact Hq.
    + intros a r Ha Hin Hval. destruct (Nat.eq_dec a i) as [->|Hai];
        [rewrite upd_same in Hin; cbn in Hin | rewrite upd_other in Hin by assumption]; eapply Hv; eauto.
    + intro Hn. destruct (Hp Hn) as [a [Ha Hin]]. exists a. split; [assumption|].
      destruct (Nat.eq_dec a i) as [->|Hai]; [rewrite upd_same; cbn; assumption | rewrite upd_other by assumption; assumption].
  - (* P1: re-check under the write lock *)
    destruct (raw_or_parsed_cases _ Hti) as [[E D]|[E D]]; rewrite E; local_step HI Hlt.
  - (* P2 *) local_step HI Hlt. rewrite Hti. cbn. auto.
  - (* P3: the parser receives the text *)
    destruct Hti as [D L]. subst l.
    apply inv_local; try assumption; cbn [tpc todo res]; rewrite ?Epc; try (cbn; congruence); try assumption.
    + rewrite D. cbn. split; [reflexivity | left; reflexivity].
    + intros r [<-|Hin]; [right; rewrite D; split; [reflexivity | cbn; discriminate] | left; assumption].
    + intros r Hin. right. assumption.
  - (* P4: self.l = n.l *)
    destruct Hti as [D Hpi].
    apply inv_write; try assumption; try (rewrite ?Epc; reflexivity).
    + rewrite D. discriminate.
    + rewrite D. cbn. auto.
    + rewrite D. cbn. discriminate.
  - (* P5: self.p = n.p *)
    destruct Hti as [D Hpi].
    apply inv_write; try assumption; try (rewrite ?Epc; reflexivity).
    + rewrite D. discriminate.
    + rewrite D. cbn. auto.
    + rewrite D. cbn. discriminate.
  - (* P5b: atomic store of t, last *)
    destruct Hti as [D Hpi].
    apply inv_write; try assumption; try (rewrite ?Epc; reflexivity).
    + rewrite D. discriminate.
    + rewrite D. reflexivity.
    + rewrite D. reflexivity.
  - (* P6: unlock *)
    apply inv_local; try assumption; cbn [tpc todo res goto]; rewrite ?Epc; try (cbn; congruence); auto.
  - (* V0 *) local_step HI Hlt. rewrite Hti. cbn. auto.
  - (* V1 *) destruct Hti as [D T]. local_step HI Hlt. rewrite D. cbn. auto.
  - (* V2 *)
    destruct Hti as [D [T L]]. subst t l.
    apply inv_local; try assumption; cbn [tpc todo res finish]; rewrite ?Epc; try (cbn; congruence); try exact I.
    + intros r [<-|Hin]; [right; rewrite D; split; [reflexivity | auto] | left; assumption].
    + intros r Hin. right. assumption.
Qed.

(* ------------------------------------------------------------------ the theorems *)

Lemma nthreads_step : forall i st, nthreads (step i st) = nthreads st.
Proof.
  intros i st. unfold step. destruct (negb (i <? nthreads st)); [reflexivity|].
  destruct (tpc (th st i)); try reflexivity;
    repeat match goal with |- context [if ?b then _ else _] => destruct b end; try reflexivity.
  destruct (todo (th st i)); reflexivity.
Qed.

Lemma nthreads_run : forall sched st, nthreads (run sched st) = nthreads st.
Proof. induction sched as [|i r IH]; intro st; cbn [run]; [reflexivity | rewrite IH; apply nthreads_step]. Qed.

Lemma run_inv : forall sched st, Inv st -> Inv (run sched st).
Proof. induction sched as [|i r IH]; intros st H; cbn [run]; [assumption | apply IH; apply step_inv; assumption]. Qed.

Lemma init_inv : forall n progs, (forall i, i < n -> forallb safe_op (progs i) = true) -> Inv (init n progs).
Proof.
  intros n progs Hs. constructor; cbn [init nthreads nd th tpc todo res].
  - intros i j _ _ _ H. cbn in H. discriminate.
  - intros i _. exact I.
  - intros i Hi. auto.
  - intros i r _ H. contradiction.
  - intro H. cbn in H. discriminate.
  - intros _. left. reflexivity.
  - intros i r _ H. contradiction.
  - intro H. exfalso. apply H. reflexivity.
Qed.

Definition quiescent (st : state) : Prop :=
  forall i, i < nthreads st -> tpc (th st i) = Idle /\ todo (th st i) = [].

(* For every number of threads, every assignment of read operations that hold the read lock around the raw text
   (Raw, encodeRaw) or go through checkRaw (Get, Index, typed accessors, Interface, Map, Array ...), and EVERY schedule:
   each completed read returned its sequential result (the raw text read from the raw representation, values read
   from the fully published parsed representation, the parser fed with the intact raw text), and once all threads are
   done the node is either still raw - and then nobody produced a value - or completely parsed by exactly the
   protocol (some thread parsed it). *)
Theorem concurrent_reads_eq_sequential :
  forall n (progs : nat -> list op) (sched : list nat),
    (forall i, i < n -> forallb safe_op (progs i) = true) ->
    let st := run sched (init n progs) in
    (forall i r, i < n -> In r (res (th st i)) -> good r = true) /\
    (quiescent st ->
       (nd st = node_parsed /\ exists i, i < n /\ In (ParseInput false false) (res (th st i))) \/
       (nd st = node_raw /\ forall i r, i < n -> In r (res (th st i)) -> is_val r = false)).
Proof.
  intros n progs sched Hs st.
  assert (HI : Inv st) by (apply run_inv; apply init_inv; assumption).
  assert (Hn : nthreads st = n) by (unfold st; rewrite nthreads_run; reflexivity).
  split.
  - intros i r Hi Hin. apply (inv_good st HI i r); [rewrite Hn; assumption | assumption].
  - intro Hq.
    assert (Hd : nd st = node_raw \/ nd st = node_parsed).
    { apply (inv_quiet st HI). intros j Hj. destruct (Hq j Hj) as [E _]. rewrite E. reflexivity. }
    destruct Hd as [D|D].
    + right. split; [assumption|]. intros i r Hi Hin.
      destruct (is_val r) eqn:E; [|reflexivity].
      rewrite <- Hn in Hi. pose proof (inv_val st HI i r Hi Hin E) as X. rewrite D in X. discriminate.
    + left. split; [assumption|].
      destruct (inv_parsed st HI) as [i [Hi Hin]]; [rewrite D; discriminate|].
      exists i. rewrite <- Hn. auto.
Qed.

(* the hypotheses are satisfiable and the protocol is exercised: two readers and a parser *)
Example concurrent_reads_nonvacuous :
  let progs := fun i => match i with 0 => [OpGet; OpRaw] | 1 => [OpRaw; OpGet] | _ => [OpRaw] end in
  let st := run [0;1;2;0;1;2;0;1;2;0;1;2;0;1;2;0;1;2;0;1;2;0;1;2;0;1;2;0;1;2;0;1;2;0;1;2;0;1;2;0;1;2;0;1;2;0;1;2;0;1;2;0;1;2;0;1;2;0;1;2;0;1;2;0;1;2;0;1;2;0;1;2;0;1;2;0;1;2] (init 3 progs) in
  (forall i, i < 3 -> forallb safe_op (progs i) = true) /\
  nd st = node_parsed /\ map (fun i => length (res (th st i))) [0;1;2] = [3;2;1].
Proof.
  cbn zeta. split.
  - intros i Hi. destruct i as [|[|[|i]]]; reflexivity.
  - vm_compute. split; reflexivity.
Qed.

(* The pinned MarshalJSON fast path (encode.go:99-102: isRaw() then toString() without the read lock) breaks the
   statement: a schedule on which it returns a text made of the NEW length and the OLD pointer. *)
Definition refute_progs (i : nat) : list op := match i with 0 => [OpGet] | 1 => [OpMarshal] | _ => [] end.
Definition refute_sched : list nat := [1; 1; 0; 0; 0; 0; 0; 0; 0; 1; 1].

Theorem marshal_fastpath_refuted :
  exists n progs sched i r,
    i < n /\ In r (res (th (run sched (init n progs)) i)) /\ good r = false.
Proof.
  exists 2, refute_progs, refute_sched, 1, (RawText true false).
  vm_compute. repeat split; auto.
Qed.

(* ------------------------------------------------------------------ the parse-error path of parseRaw
   node.go:2033  `if e != 0 { *self = *newSyntaxError(...) }`  overwrites the whole node - including self.m, which
   becomes nil - while the write lock is held; the deferred self.unlock() then finds m == nil and unlocks nothing.
   The mutex stays locked for ever: a reader that has already fetched the old self.m blocks in RLock()/Lock().
   Modelled with one extra bit [leaked] on top of the state above: a failing parse at P3 sets it and finishes the
   operation; lock() and rlock() cannot be passed while it is set. *)

Record estate := mkE { base : state; leaked : bool }.

Definition estep (parse_ok : bool) (i : nat) (es : estate) : estate :=
  let st := base es in
  if negb (i <? nthreads st) then es else
  match tpc (th st i) with
  | R0 | P0 => if leaked es then es else mkE (step i st) (leaked es)
  | P3 l => if parse_ok then mkE (step i st) (leaked es)
            else mkE (mkState (nthreads st) (nd st) (upd (th st) i (mkThread Idle (todo (th st i)) (res (th st i))))) true
  | _ => mkE (step i st) (leaked es)
  end.

Fixpoint erun (parse_ok : bool) (sched : list nat) (es : estate) : estate :=
  match sched with
  | [] => es
  | i :: r => erun parse_ok r (estep parse_ok i es)
  end.

Definition dl_progs (i : nat) : list op := match i with 0 => [OpGet] | 1 => [OpRaw] | _ => [] end.
(* thread 1 fetches the mutex (starts Raw), thread 0 runs parseRaw into the failing parse *)
Definition dl_sched : list nat := [1; 0; 0; 0; 0; 0; 0].

Definition dl_state : estate := erun false dl_sched (mkE (init 2 dl_progs) false).

Lemma dl_state_shape :
  leaked dl_state = true /\ tpc (th (base dl_state) 0) = Idle /\ todo (th (base dl_state) 0) = [] /\
  tpc (th (base dl_state) 1) = R0 /\ nthreads (base dl_state) = 2.
Proof. vm_compute. repeat split. Qed.

Lemma dl_stuck_step : forall i, estep false i dl_state = dl_state.
Proof.
  intro i. destruct dl_state_shape as [HL [H0 [H0' [H1 Hn]]]].
  unfold estep. rewrite Hn.
  destruct i as [|[|i]]; cbn [Nat.ltb Nat.leb negb].
  - rewrite H0. unfold step. rewrite Hn. cbn [Nat.ltb Nat.leb negb]. rewrite H0, H0'. destruct dl_state; reflexivity.
  - rewrite H1, HL. reflexivity.
  - reflexivity.
Qed.

(* after a failed parse under the lock, a reader waiting for the node's mutex never gets it, whatever the schedule *)
Theorem parse_error_leaks_lock_refuted :
  exists n progs sched,
    let es := erun false sched (mkE (init n progs) false) in
    leaked es = true /\
    forall sched', tpc (th (base (erun false sched' es)) 1) = R0 /\ todo (th (base (erun false sched' es)) 0) = [] /\
                   tpc (th (base (erun false sched' es)) 0) = Idle.
Proof.
  exists 2, dl_progs, dl_sched. cbn zeta. fold dl_state.
  split; [apply dl_state_shape|].
  assert (Hfix : forall sched', erun false sched' dl_state = dl_state).
  { induction sched' as [|i r IH]; cbn [erun]; [reflexivity | rewrite dl_stuck_step; exact IH]. }
  intro sched'. rewrite Hfix. destruct dl_state_shape as [_ [H0 [H0' [H1 _]]]]. auto.
Qed.

(* with a succeeding parse the extra bit is never set and estep is step *)
Lemma estep_ok : forall i es, leaked es = false -> estep true i es = mkE (step i (base es)) false.
Proof.
  intros i es H. unfold estep. rewrite H.
  destruct (negb (i <? nthreads (base es))) eqn:E.
  - unfold step. rewrite E. destruct es; cbn in *; subst; reflexivity.
  - destruct (tpc (th (base es) i)); reflexivity.
Qed.
