(* Cache/ResolverCache.v - the field-resolution cache internal/resolver.fieldCache (ResolveStruct).

   One entry per struct type, created on first use by the pure function resolveFields and then SHARED: every compilation
   of every codec that contains the type (encoder, jitdec, optdec; whatever compile options) receives the same slice.
   Model: the cache is a finite map type -> field list; a history is any sequence of
     HResolve k       ResolveStruct(k): lookup, else compute + store
     HCompile k w     a compiler walks the entry of k; `w` is what it does to the entry IN PLACE.  The Go source decides which
                      `w` are possible: Gen/ResolverUse.v lists every syntactic write through the returned slice; if there is
                      none, only the identity is possible.
   Theorem: after every history a lookup returns exactly `fields k` - the field list a codec is compiled from never
   depends on which types were compiled before, in which order, with which compile options. *)
From Coq Require Import List String Bool Arith.
From SV.Gen Require Import ResolverUse.
Import ListNotations.

Definition is_write (u : string * ruse * string) : bool :=
  match u with (_, RSharedWrite, _) => true | _ => false end.

Definition writers_exist : bool := existsb is_write resolver_uses.

(* the places where the shared list (or a pointer into it) is handed on; both only read it: ir.Program.VField keeps the
   pointer for the run-time IsZero call of `omitzero`, caching.NewFieldCache builds the optdec name index *)
Definition escapes : list (string * string) :=
  map (fun u => (fst (fst u), snd u)) (filter (fun u => negb (is_write u)) resolver_uses).

Section Resolver.
Variable ty : Type.
Variable ty_eqb : ty -> ty -> bool.
Hypothesis ty_eqb_spec : forall a b, ty_eqb a b = true <-> a = b.
Variable fl : Type.                       (* a field list *)
Variable fields : ty -> fl.               (* resolveFields: a pure function of the type *)

Definition rcache := ty -> option fl.

Definition rset (c : rcache) (k : ty) (v : fl) : rcache := fun k' => if ty_eqb k' k then Some v else c k'.

Definition resolve (c : rcache) (k : ty) : rcache * fl :=
  match c k with
  | Some l => (c, l)
  | None => (rset c k (fields k), fields k)
  end.

Inductive rop := HResolve (k : ty) | HCompile (k : ty) (w : fl -> fl).

(* a compile resolves, then (only if the source contains a write through the shared slice) may modify the entry in place *)
Definition rstep (writers : bool) (c : rcache) (o : rop) : rcache * fl :=
  match o with
  | HResolve k => resolve c k
  | HCompile k w =>
      let '(c', l) := resolve c k in
      if writers then (rset c' k (w l), l) else (c', l)
  end.

Fixpoint rrun (writers : bool) (c : rcache) (h : list rop) : rcache * list fl :=
  match h with
  | [] => (c, [])
  | o :: r => let '(c', l) := rstep writers c o in
              let '(c'', ls) := rrun writers c' r in (c'', l :: ls)
  end.

Definition cache_ok (c : rcache) : Prop := forall k l, c k = Some l -> l = fields k.

Lemma rset_ok c k : cache_ok c -> cache_ok (rset c k (fields k)).
Proof.
  intros H k' l. unfold rset. destruct (ty_eqb k' k) eqn:E.
  - apply ty_eqb_spec in E. subst. intros X. now inversion X.
  - apply H.
Qed.

Lemma resolve_ok c k : cache_ok c -> cache_ok (fst (resolve c k)) /\ snd (resolve c k) = fields k.
Proof.
  intros H. unfold resolve. destruct (c k) as [l|] eqn:E; cbn.
  - split; [exact H|now apply H].
  - split; [now apply rset_ok|reflexivity].
Qed.

Definition op_key (o : rop) : ty := match o with HResolve k | HCompile k _ => k end.

(* without writers: every step of every history hands out exactly `fields k`, and the cache only ever holds `fields` *)
Theorem resolver_stable_gen : forall h c,
  cache_ok c ->
  cache_ok (fst (rrun false c h)) /\ snd (rrun false c h) = map (fun o => fields (op_key o)) h.
Proof.
  induction h as [|o r IH]; intros c Hc; [split; [exact Hc|reflexivity]|].
  cbn [rrun map].
  assert (Hs : cache_ok (fst (rstep false c o)) /\ snd (rstep false c o) = fields (op_key o)).
  { destruct o as [k|k w]; cbn [rstep op_key]; [now apply resolve_ok|].
    destruct (resolve c k) as [c' l] eqn:E. pose proof (resolve_ok c k Hc) as R. rewrite E in R. exact R. }
  destruct (rstep false c o) as [c' l]. cbn [fst snd] in Hs. destruct Hs as [Hc' ->].
  destruct (IH c' Hc') as [H1 H2]. destruct (rrun false c' r) as [c'' ls]. cbn [fst snd] in *.
  split; [exact H1|now rewrite H2].
Qed.

End Resolver.

(* with a writer the property is false: a compile with a non-default option rewrites the shared entry, and the NEXT compile of
   a type containing it is handed the rewritten list (seeded defect C09-b1: EncOnlyOmitNull clearing F_omitempty in place) *)
Example resolver_writer_refuted :
  let fields := fun (_ : nat) => 7 in
  snd (rrun nat Nat.eqb nat fields true (fun _ => None) [HCompile nat nat 1 (fun _ => 0); HResolve nat nat 1]) = [7; 0].
Proof. reflexivity. Qed.

(* ---- the regenerated source facts *)
Lemma resolver_no_writers : writers_exist = false.
Proof. reflexivity. Qed.

Definition expected_escapes : list (string * string) :=
  [ ("/internal/decoder/optdec.compiler.compileStructBody", "caching.NewFieldCache");
    ("/internal/encoder.Compiler.compileStructBody", "p.VField") ]%string.

Lemma resolver_escapes_pinned : escapes = expected_escapes /\ resolver_callers = 3.
Proof. split; reflexivity. Qed.

Theorem resolver_stable : forall (ty : Type) (ty_eqb : ty -> ty -> bool),
  (forall a b, ty_eqb a b = true <-> a = b) ->
  forall (fl : Type) (fields : ty -> fl) (h : list (rop ty fl)),
    snd (rrun ty ty_eqb fl fields writers_exist (fun _ => None) h) = map (fun o => fields (op_key ty fl o)) h.
Proof.
  intros ty ty_eqb Hs fl fields h. rewrite resolver_no_writers.
  apply (resolver_stable_gen ty ty_eqb Hs fl fields h (fun _ => None)). intros k l E. discriminate.
Qed.
