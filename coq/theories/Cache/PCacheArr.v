(* Cache/PCacheArr.v - laws of the bucket array of Cache/PCache.v (the only facts about the trie the proofs use),
   index ranges, the copy loop and the count of occupied slots. *)
From Coq Require Import NArith Arith List Bool Lia FMapPositive.
From SV.Cache Require Import PCache.
Import ListNotations.
Open Scope N_scope.

Lemma succ_pos_inj : forall p q, N.succ_pos p = N.succ_pos q -> p = q.
Proof.
  intros p q H. apply (f_equal N.pos) in H. rewrite !N.succ_pos_spec in H. lia.
Qed.

Lemma len_make c : a_len (make c) = c.
Proof. reflexivity. Qed.

Lemma slot_make c p : slot (make c) p = emptyE.
Proof.
  unfold slot, make; cbn. destruct (p <? c); [rewrite PositiveMap.gempty|]; reflexivity.
Qed.

Lemma len_upd p e b : a_len (upd p e b) = a_len b.
Proof. unfold upd. destruct (p <? a_len b); reflexivity. Qed.

Lemma slot_oob b p : a_len b <= p -> slot b p = emptyE.
Proof. intros H. unfold slot. destruct (N.ltb_spec p (a_len b)); [lia|reflexivity]. Qed.

Lemma slot_upd p e b q :
  slot (upd p e b) q = if (q =? p) && (p <? a_len b) then e else slot b q.
Proof.
  unfold upd. destruct (N.ltb_spec p (a_len b)) as [Hlt|Hge].
  - rewrite andb_true_r. unfold slot; cbn [a_len a_map].
    destruct (N.eqb_spec q p) as [->|Hne].
    + destruct (N.ltb_spec p (a_len b)); [|lia]. rewrite PositiveMap.gss. reflexivity.
    + destruct (q <? a_len b); [|reflexivity].
      rewrite PositiveMap.gso; [reflexivity|]. intros H. apply succ_pos_inj in H. congruence.
  - rewrite andb_false_r. reflexivity.
Qed.

Lemma slot_upd_same p e b : p < a_len b -> slot (upd p e b) p = e.
Proof.
  intros H. rewrite slot_upd, N.eqb_refl. destruct (N.ltb_spec p (a_len b)); [reflexivity|lia].
Qed.

Lemma slot_upd_other p e b q : q <> p -> slot (upd p e b) q = slot b q.
Proof.
  intros H. rewrite slot_upd. destruct (N.eqb_spec q p); [congruence|reflexivity].
Qed.

Lemma slot_nonempty_lt b p : e_vt (slot b p) <> 0 -> p < a_len b.
Proof.
  intros H. destruct (N.lt_ge_cases p (a_len b)) as [|Hge]; [assumption|].
  rewrite (slot_oob _ _ Hge) in H. cbn in H. congruence.
Qed.

(* ---- index ranges *)
Lemma in_range_from x n : forall s, In x (range_from s n) <-> s <= x < s + N.of_nat n.
Proof.
  induction n as [|n IH]; intros s; cbn [range_from].
  - split; [intros []|lia].
  - cbn [In]. rewrite IH. lia.
Qed.

Lemma nodup_range_from n : forall s, NoDup (range_from s n).
Proof.
  induction n as [|n IH]; intros s; cbn [range_from]; constructor.
  - rewrite in_range_from. lia.
  - apply IH.
Qed.

Lemma length_range_from n : forall s, length (range_from s n) = n.
Proof. induction n; intros; cbn; [reflexivity|now rewrite IHn]. Qed.

Lemma in_range x c : In x (range c) <-> x < c.
Proof. unfold range. rewrite in_range_from. lia. Qed.

Lemma nodup_range c : NoDup (range c).
Proof. apply nodup_range_from. Qed.

Lemma length_range c : length (range c) = N.to_nat c.
Proof. apply length_range_from. Qed.

(* ---- the copy loop is the identity on contents *)
Lemma copy_fold b : forall l f0, a_len f0 = a_len b ->
  let r := fold_left (fun fork i => upd i (slot b i) fork) l f0 in
  a_len r = a_len b /\ forall q, slot r q = if existsb (N.eqb q) l then slot b q else slot f0 q.
Proof.
  induction l as [|i l IH]; intros f0 Hlen; cbn [fold_left existsb].
  - split; [assumption|reflexivity].
  - specialize (IH (upd i (slot b i) f0)). rewrite len_upd in IH. specialize (IH Hlen).
    destruct IH as [IHl IHs]. split; [exact IHl|]. intros q. rewrite IHs.
    destruct (existsb (N.eqb q) l); [now rewrite orb_true_r|]. rewrite orb_false_r.
    rewrite slot_upd. destruct (N.eqb_spec q i) as [->|]; [|reflexivity]. cbn [andb].
    destruct (N.ltb_spec i (a_len f0)); [reflexivity|].
    rewrite !slot_oob; [reflexivity| |]; lia.
Qed.

Lemma copy_arr_len b : a_len (copy_arr b) = a_len b.
Proof. unfold copy_arr. apply (copy_fold b (range (a_len b)) (make (a_len b))). reflexivity. Qed.

Lemma copy_arr_slot b q : slot (copy_arr b) q = slot b q.
Proof.
  unfold copy_arr.
  destruct (copy_fold b (range (a_len b)) (make (a_len b)) eq_refl) as [_ H]. rewrite H.
  destruct (existsb (N.eqb q) (range (a_len b))) eqn:E; [reflexivity|].
  rewrite slot_make. symmetry. apply slot_oob.
  destruct (N.le_gt_cases (a_len b) q) as [|Hlt]; [assumption|].
  assert (existsb (N.eqb q) (range (a_len b)) = true); [|congruence].
  apply existsb_exists. exists q. split; [now apply in_range|apply N.eqb_refl].
Qed.

(* ---- number of occupied slots among the indices below c *)
Fixpoint occ (f : N -> entry) (c : nat) : nat :=
  match c with
  | O => O
  | S c' => ((if N.eqb (e_vt (f (N.of_nat c'))) 0%N then 0 else 1) + occ f c')%nat
  end.

Lemma occ_le f c : (occ f c <= c)%nat.
Proof. induction c; cbn [occ]; [lia|]. destruct (_ =? 0); lia. Qed.

Lemma occ_ext f g c : (forall i, (i < c)%nat -> f (N.of_nat i) = g (N.of_nat i)) -> occ f c = occ g c.
Proof.
  induction c as [|c IH]; intros H; cbn [occ]; [reflexivity|].
  rewrite (H c), IH; [reflexivity| |lia]. intros i Hi. apply H. lia.
Qed.

Lemma occ_lt_exists f c : (occ f c < c)%nat -> exists i, (i < c)%nat /\ e_vt (f (N.of_nat i)) = 0.
Proof.
  induction c as [|c IH]; cbn [occ]; intros H; [lia|].
  destruct (N.eqb_spec (e_vt (f (N.of_nat c))) 0) as [E|E].
  - exists c. split; [lia|exact E].
  - destruct IH as [i [Hi Hz]]; [lia|]. exists i. split; [lia|exact Hz].
Qed.

Lemma occ_upd f g c p e :
  (p < c)%nat -> e_vt (f (N.of_nat p)) = 0 -> e_vt e <> 0 ->
  (forall q, g q = if q =? N.of_nat p then e else f q) ->
  occ g c = S (occ f c).
Proof.
  intros Hp Hz He Hg. induction c as [|c IH]; [lia|]. cbn [occ].
  destruct (PeanoNat.Nat.eq_dec p c) as [->|Hne].
  - rewrite Hg, N.eqb_refl, Hz. cbn [N.eqb].
    destruct (N.eqb_spec (e_vt e) 0); [congruence|].
    rewrite (occ_ext g f c); [reflexivity|]. intros i Hi. rewrite Hg.
    destruct (N.eqb_spec (N.of_nat i) (N.of_nat c)); [lia|reflexivity].
  - rewrite IH by lia. rewrite Hg.
    destruct (N.eqb_spec (N.of_nat c) (N.of_nat p)); [lia|]. lia.
Qed.

Lemma occ_empty f c : (forall q, e_vt (f q) = 0) -> occ f c = O.
Proof. intros H. induction c; cbn [occ]; [reflexivity|]. now rewrite H, IHc. Qed.
