(* Cache/C09Thm.v - the C09 theorems instantiated with the constants regenerated from
   /repo/internal/caching/pcache.go (Gen/CacheConsts.v): a change of _LoadFactor or _InitCapacity changes
   these statements and has to re-establish the side conditions below by computation. *)
From Coq Require Import NArith Arith List Bool Lia.
From SV.Gen Require Import CacheConsts LoaderMap EncCacheKey.
From SV.Cache Require Import PCache PCacheArr PCacheProbe PCacheInv PCacheProofs LoadMap LoadMapProofs C09Model Served.
Import ListNotations.
Open Scope N_scope.

Lemma lf_pos : 0 < LoadFactor_num.
Proof. vm_compute. reflexivity. Qed.

Lemma lf_le1 : LoadFactor_num <= LoadFactor_den.
Proof. vm_compute. discriminate. Qed.

(* "rehash when load factor 0.5 is exceeded" *)
Lemma lf_half : 2 * LoadFactor_num = LoadFactor_den.
Proof. vm_compute. reflexivity. Qed.

Definition init_exp : N := N.log2 InitCapacity.

(* "_InitCapacity must be a power of 2" (comment in the source), at least 2 and at most 2^31 *)
Lemma init_cap_pow2 : InitCapacity = 2 ^ init_exp /\ 1 <= init_exp /\ init_exp <= 31.
Proof. vm_compute. repeat split; discriminate. Qed.

Definition empty_spec : N -> N := fun _ => 0.

Theorem pcache_refines_map_anycap :
  forall (hash : N -> N) (e0 : N) (ops : list op),
    e0 <= 31 -> valid_ops empty_spec ops ->
    LoadFactor_den * (N.of_nat (length ops) + 1) <= LoadFactor_num * 2 ^ 31 ->
    exists s',
      cache_run hash (2 ^ e0) ops = (Some s', spec_run empty_spec ops) /\
      (forall k, k <> 0 -> Get hash s' k = spec_final empty_spec ops k) /\
      pm_n s' <= pm_m s' + 1.
Proof.
  intros hash e0 ops He Hv Hb.
  destruct (pcache_refines_map_gen hash LoadFactor_num LoadFactor_den lf_pos lf_le1 e0 ops He Hv Hb)
    as [s' [e' [Er [Hi [Hn Hg]]]]].
  exists s'. split; [exact Er|]. split; [exact Hg|].
  destruct Hi as [Hm _ _ _ _ _]. rewrite Hm, ones_succ. exact Hn.
Qed.

Theorem pcache_refines_map :
  forall (hash : N -> N) (ops : list op),
    valid_ops empty_spec ops ->
    LoadFactor_den * (N.of_nat (length ops) + 1) <= LoadFactor_num * 2 ^ 31 ->
    exists s',
      cache_run hash cache_init_cap ops = (Some s', spec_run empty_spec ops) /\
      (forall k, k <> 0 -> Get hash s' k = spec_final empty_spec ops k) /\
      2 * pm_n s' <= pm_m s' + 1.
Proof.
  intros hash ops Hv Hb. destruct init_cap_pow2 as [Hc [H1 H31]].
  unfold cache_init_cap. rewrite Hc.
  destruct (pcache_refines_map_gen hash LoadFactor_num LoadFactor_den lf_pos lf_le1 init_exp ops H31 Hv Hb)
    as [s' [e' [Er [Hi [Hn Hg]]]]].
  destruct (pcache_half_load_gen hash LoadFactor_num LoadFactor_den lf_pos lf_le1 lf_half init_exp ops H1 H31 Hv Hb)
    as [s2 [E2 Hh]].
  unfold cache_run. rewrite Er in *. cbn [fst] in E2. inversion E2; subst s2.
  exists s'. split; [reflexivity|]. split; [exact Hg|exact Hh].
Qed.

Theorem pcache_probe_bound_never_binding :
  forall (hash : N -> N) (e0 : N) (ops : list op) (k : N) (extra : nat),
    e0 <= 31 -> valid_ops empty_spec ops ->
    LoadFactor_den * (N.of_nat (length ops) + 1) <= LoadFactor_num * 2 ^ 31 -> k <> 0 ->
    exists s',
      fst (cache_run hash (2 ^ e0) ops) = Some s' /\
      get_loop (N.to_nat (u32 (pm_m s' + 1)) + extra) (pm_m s') (pm_b s') k (N.land (u32 (hash k)) (pm_m s'))
      = Get hash s' k.
Proof.
  intros hash e0 ops k extra He Hv Hb Hk.
  destruct (pcache_refines_map_gen hash LoadFactor_num LoadFactor_den lf_pos lf_le1 e0 ops He Hv Hb)
    as [s' [e' [Er [Hi [Hn Hg]]]]].
  exists s'. unfold cache_run. rewrite Er. split; [reflexivity|]. unfold Get.
  exact (inv_fuel hash e' _ s' k extra Hi Hk).
Qed.

(* non-vacuity of the hypotheses *)
Example valid_ops_example :
  let ops := [OCompute 7 (Some 10); OGet 7; OCompute 9 None; OCompute 7 (Some 11); OAdd 3 5; OGet 4] in
  valid_ops empty_spec ops /\
  LoadFactor_den * (N.of_nat (length ops) + 1) <= LoadFactor_num * 2 ^ 31 /\
  spec_run empty_spec ops = [RVal 10; RVal 10; RErr; RVal 10; RVal 5; RVal 0].
Proof.
  cbn. repeat split; try discriminate; try (intros v E; inversion E; subst; discriminate).
Qed.

(* the source maps the loaded functions back by the entry offset recorded before the sort (fix cc3de94); if it ever
   goes back to mapping by name, Gen/LoaderMap.v changes and this line - and with it C09_loadmany_own_code - fails *)
Lemma loader_maps_by_offset : LoaderMap.load_maps_by_name = false.
Proof. reflexivity. Qed.

Theorem loadmany_own_code :
  forall (items : list item) (i : nat) (it : item),
    nth_error items i = Some it ->
    exists off, nth_error (loader_loadmany items) i = Some (Some off) /\
                code_at (concat_text items) off (length (it_text it)) = it_text it.
Proof. intros items i it. exact (loadmany_total_thm items i it loader_maps_by_offset). Qed.

Example loadmany_own_code_same_names :
  let items := [mkItem [100; 95; 120; 46; 84] [184; 1; 0; 0; 0; 195]; mkItem [100; 95; 120; 46; 84] [184; 2; 0; 0; 0; 195; 204; 204]] in
  loader_loadmany items = [Some 0; Some 6].
Proof. vm_compute. reflexivity. Qed.

(* ---- which program serves a type: the encoder caches are keyed by (type, pv)  (Gen/EncCacheKey.v, from vars/cache.go) *)
Lemma enc_cache_eqb_spec : forall a b, enc_cache_eqb a b = true <-> a = b.
Proof. intros [] []; cbn; split; congruence. Qed.

(* the key shape: all three entry points address the cache `cacheOf pv`, hand pv to the compiler, and the two flag values
   have different caches.  With one cache for both (the tree before fix ea86c56) `cacheOf_inj` is false. *)
Lemma cacheOf_inj : forall a b, cacheOf a = cacheOf b -> a = b.
Proof. intros [] []; cbn; congruence. Qed.
Lemma fc_get_keyed : forall pv, FindOrCompile_get pv = cacheOf pv.
Proof. intros []; reflexivity. Qed.
Lemma fc_compute_keyed : forall pv, FindOrCompile_compute pv = (cacheOf pv, pv).
Proof. intros []; reflexivity. Qed.
Lemma gp_get_keyed : forall pv, GetProgram_get pv = cacheOf pv.
Proof. intros []; reflexivity. Qed.
Lemma cp_compute_keyed : forall pv, ComputeProgram_compute pv = (cacheOf pv, pv).
Proof. intros []; reflexivity. Qed.

Theorem served_history_free :
  forall (hash : N -> N) (compile : N -> bool -> option N) (h : list hop),
    (forall k pv v, compile k pv = Some v -> v <> 0) ->
    Forall hop_ok h ->
    LoadFactor_den * (hsize h + 1) <= LoadFactor_num * 2 ^ 31 ->
    exists st', enc_hrun hash compile h = Some (st', expected compile h) /\
                forall k pv, k <> 0 ->
                  let v := Get hash (st' (GetProgram_get pv)) k in v = 0 \/ compile k pv = Some v.
Proof.
  intros hash compile h Hc Hok Hb. destruct init_cap_pow2 as [Hcap [_ H31]]. unfold enc_hrun. rewrite Hcap.
  exact (served_history_free_gen enc_cache enc_cache_eqb hash LoadFactor_num LoadFactor_den compile
           FindOrCompile_get FindOrCompile_compute GetProgram_get ComputeProgram_compute cacheOf
           enc_cache_eqb_spec cacheOf_inj fc_get_keyed fc_compute_keyed gp_get_keyed cp_compute_keyed
           lf_pos lf_le1 Hc init_exp h H31 Hok Hb).
Qed.

Example served_hypotheses_satisfiable :
  let compile := fun (k : N) (pv : bool) => if k =? 9 then None else Some (2 * k + (if pv then 1 else 0)) in
  let h := [HFind 3 true; HBatch [(3, false); (4, true); (9, false)]; HFind 3 false; HPretouch 4 false; HFind 4 true; HFind 9 true] in
  Forall hop_ok h /\ LoadFactor_den * (hsize h + 1) <= LoadFactor_num * 2 ^ 31 /\
  expected compile h = [Some 7; Some 6; Some 9; None].
Proof.
  cbn. split; [|split; [discriminate|reflexivity]].
  repeat constructor; cbn; try discriminate. intros e [<-|[<-|[<-|[]]]]; discriminate.
Qed.

(* the same model with ONE cache for both flag values (the shape before fix ea86c56: key = type only): the program that
   serves (type 1, pv=false) is whatever was compiled first - the observed defect, Marshal([]T) vs Marshal(map[string]T) *)
Example served_type_only_key_refuted :
  let compile := fun (k : N) (pv : bool) => Some (2 * k + (if pv then 1 else 0)) in
  let one := fun (_ : bool) => tt in
  let one2 := fun (pv : bool) => (tt, pv) in
  let run := hrun unit (fun _ _ => true) (fun _ => 0) 1 2 compile one one2 one one2 (fun _ => newProgramMap 4) in
  option_map snd (run [HFind 1 true; HFind 1 false]) = Some [Some 3; Some 3] /\
  option_map snd (run [HFind 1 false; HFind 1 true]) = Some [Some 2; Some 2] /\
  expected compile [HFind 1 true; HFind 1 false] = [Some 3; Some 2].
Proof. vm_compute. repeat split; reflexivity. Qed.
