(* Cache/C08Thm.v - the RCU theorems instantiated with the constants regenerated from pcache.go. *)
From Coq Require Import NArith Arith List Bool Lia.
From SV.Gen Require Import CacheConsts.
From SV.Cache Require Import PCache PCacheInv PCacheProofs Rcu RcuProofs C09Thm.
Import ListNotations.
Open Scope N_scope.

Definition rcu_exec (hash : N -> N) (compute : N -> option N) (g : gstate) (sched : list nat) : gstate :=
  exec hash LoadFactor_num LoadFactor_den compute g sched.
Definition rcu_init (calls : list call) : gstate := init InitCapacity calls.

Theorem rcu_linearizable :
  forall (hash : N -> N) (compute : N -> option N) (calls : list call) (sched : list nat),
    (forall k v, compute k = Some v -> v <> 0) ->
    keys_nonnil calls ->
    LoadFactor_den * (N.of_nat (length sched) + 1) <= LoadFactor_num * 2 ^ 31 ->
    let g := rcu_exec hash compute (rcu_init calls) sched in
    (forall t k v, g_th g t = DoneG k v -> nth_error calls t = Some (CGet k) /\ (v = 0 \/ compute k = Some v)) /\
    (forall t k r, g_th g t = DoneC k r -> nth_error calls t = Some (CCompute k) /\ r = compute k) /\
    (forall t k, g_th g t <> Crashed k) /\
    (exists e f, inv hash e f (g_p g) /\ (forall k, f k <> 0 -> compute k = Some (f k)) /\
                 (forall k, k <> 0 -> Get hash (g_p g) k = f k)) /\
    NoDup (g_log g).
Proof.
  intros hash compute calls sched Hc Hk Hb. destruct init_cap_pow2 as [Hcap [_ H31]].
  unfold rcu_exec, rcu_init. rewrite Hcap.
  exact (rcu_linearizable_gen hash LoadFactor_num LoadFactor_den compute lf_pos lf_le1 Hc init_exp calls sched H31 Hk Hb).
Qed.

Theorem rcu_no_entry_lost :
  forall (hash : N -> N) (compute : N -> option N) (calls : list call) (s1 s2 : list nat) (k : N),
    (forall k v, compute k = Some v -> v <> 0) ->
    keys_nonnil calls -> k <> 0 ->
    LoadFactor_den * (N.of_nat (length (s1 ++ s2)) + 1) <= LoadFactor_num * 2 ^ 31 ->
    let g1 := rcu_exec hash compute (rcu_init calls) s1 in
    let g2 := rcu_exec hash compute (rcu_init calls) (s1 ++ s2) in
    Get hash (g_p g1) k <> 0 -> Get hash (g_p g2) k = Get hash (g_p g1) k.
Proof.
  intros hash compute calls s1 s2 k Hc Hk Hk0 Hb. destruct init_cap_pow2 as [Hcap [_ H31]].
  unfold rcu_exec, rcu_init. rewrite Hcap.
  exact (rcu_no_entry_lost_gen hash LoadFactor_num LoadFactor_den compute lf_pos lf_le1 Hc init_exp calls s1 s2 k H31 Hk Hk0 Hb).
Qed.

(* non-vacuity: two threads race Compute of the same type against a Get, colliding hashes; one schedule that lets the
   second Compute block on the lock, then finish *)
Example rcu_example :
  let hash := fun _ => 7 in
  let compute := fun k => if k =? 5 then None else Some (k + 100) in
  let calls := [CCompute 1; CCompute 1; CGet 1; CCompute 5; CCompute 2] in
  let sched := [0; 1; 2; 0; 0; 1; 0; 0; 2; 0; 0; 1; 1; 1; 1; 1; 3; 3; 3; 3; 3; 4; 4; 4; 4; 4; 4; 4; 4]%nat in
  let g := rcu_exec hash compute (rcu_init calls) sched in
  keys_nonnil calls /\
  (g_th g 0%nat, g_th g 1%nat, g_th g 2%nat, g_th g 3%nat, g_th g 4%nat) =
  (DoneC 1 (Some 101), DoneC 1 (Some 101), DoneG 1 0, DoneC 5 None, DoneC 2 (Some 102)) /\
  g_log g = [2; 1].
Proof.
  split; [|vm_compute; split; reflexivity].
  intros c Hc. cbn in Hc. repeat (destruct Hc as [<-|Hc]; [discriminate|]). destruct Hc.
Qed.
