(* Cache/LoadMap.v - model of /repo/loader/loader_latest.go : Loader.LoadMany -> Load

   LoadMany: funcs[i] = {Name: items[i].FuncName, EntryOff: sum of len(items[j].Text) for j < i, TextSize};
             text = concatenation of all texts;  Load(text, funcs, ...)
   Load:     ids[i] = funcs[i].Name                      (before makeModuledata)
             makeModuledata sorts funcs by EntryOff      (sort.Slice: any order-respecting permutation)
             out[i] = for each f in funcs (sorted) { if f.Name == ids[i] { out[i] = mod.text + f.EntryOff } }
                      -- the loop does not break: the LAST function with that name wins; results are mapped
                         back to the inputs BY NAME.   (`load_by_name`; the translator tells from the source whether
                         this or the repaired `load_by_offset` shape is present: Gen/LoaderMap.v)

   Names are byte strings (list N); addresses are offsets from mod.text (the mmap'ed base).  *)
From Coq Require Import NArith List Bool Lia.
From SV.Gen Require Import LoaderMap.
Import ListNotations.
Open Scope N_scope.

Record item := mkItem { it_name : list N; it_text : list N }.
Record func := mkF { f_name : list N; f_entry : N; f_size : N }.

Fixpoint name_eqb (a b : list N) : bool :=
  match a, b with
  | [], [] => true
  | x :: a', y :: b' => (x =? y) && name_eqb a' b'
  | _, _ => false
  end.

(* LoadMany: the loop `for _, item := range items { funcs = append(funcs, build(item, size, total)); total += len(item.Text) }` *)
Fixpoint build_funcs (total : N) (items : list item) : list func :=
  match items with
  | [] => []
  | it :: r => mkF (it_name it) total (N.of_nat (length (it_text it)))
               :: build_funcs (total + N.of_nat (length (it_text it))) r
  end.

Definition concat_text (items : list item) : list N := flat_map it_text items.

(* makeModuledata: sort.Slice(funcs, EntryOff <) - modelled by a stable insertion sort *)
Fixpoint insert_by_entry (f : func) (l : list func) : list func :=
  match l with
  | [] => [f]
  | g :: r => if f_entry f <? f_entry g then f :: g :: r else g :: insert_by_entry f r
  end.

Definition sort_by_entry (l : list func) : list func := fold_right insert_by_entry [] l.

(* the inner loop of Load for one id: last match wins, None = the nil Function *)
Definition lookup_by_name (funcs : list func) (s : list N) : option N :=
  fold_left (fun acc f => if name_eqb (f_name f) s then Some (f_entry f) else acc) funcs None.

Definition load_by_name (funcs : list func) : list (option N) :=
  let ids := map f_name funcs in
  let sorted := sort_by_entry funcs in
  map (lookup_by_name sorted) ids.

(* the repaired shape: offs[i] = funcs[i].EntryOff recorded before the sort; out[i] = mod.text + offs[i] *)
Definition load_by_offset (funcs : list func) : list (option N) :=
  map (fun f => Some (f_entry f)) funcs.

(* which of the two the source currently is: Gen/LoaderMap.v, regenerated from loader_latest.go on every run *)
Definition load (funcs : list func) : list (option N) :=
  if load_maps_by_name then load_by_name funcs else load_by_offset funcs.

Definition loadmany (items : list item) : list (option N) :=
  match items with
  | [] => []
  | _ => load (build_funcs 0 items)
  end.

(* what the caller expects: item i is served by the code that starts at the sum of the earlier text sizes *)
Fixpoint own_offsets (total : N) (items : list item) : list (option N) :=
  match items with
  | [] => []
  | it :: r => Some total :: own_offsets (total + N.of_nat (length (it_text it))) r
  end.

(* the bytes at offset `off`, `len` of them, in the loaded text segment *)
Definition code_at (text : list N) (off : N) (len : nat) : list N := firstn len (skipn (N.to_nat off) text).
